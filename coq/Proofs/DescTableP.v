(* Proofs about Sys/DescTable.v (C16 part A): the bitmap table refines a finite map whose Insert
   yields the least free key. *)
From Verif Require Import Lib.GoInt Sys.DescTable.
From Coq Require Import ZifyBool.
Open Scope Z_scope.
Ltac Zify.zify_post_hook ::= Z.div_mod_to_equations.
Ltac splits := repeat match goal with |- _ /\ _ => split end.

(* ---------------------------------------------------------------- lists indexed by Z *)
Lemma len_nonneg {A} (l : list A) : 0 <= len l.
Proof. unfold len. lia. Qed.

Lemma len_app {A} (l r : list A) : len (l ++ r) = len l + len r.
Proof. unfold len. rewrite app_length. lia. Qed.

Lemma len_repeat {A} (x : A) n : len (repeat x n) = Z.of_nat n.
Proof. unfold len. rewrite repeat_length. reflexivity. Qed.

Lemma set_nth_length l n v : length (set_nth l n v) = length l.
Proof. revert n. induction l as [|x r IH]; intros [|n]; cbn; auto. Qed.

Lemma nth_set_nth l n m v : (n < length l)%nat ->
  nth m (set_nth l n v) 0 = if Nat.eqb n m then v else nth m l 0.
Proof.
  revert n m. induction l as [|x r IH]; intros n m Hn; cbn in Hn; [lia|].
  destruct n as [|n], m as [|m]; cbn; auto. apply IH. lia.
Qed.

Lemma len_setz l i v : len (setz l i v) = len l.
Proof. unfold len, setz. rewrite set_nth_length. reflexivity. Qed.

Lemma getz_setz l i j v : 0 <= i < len l -> 0 <= j ->
  getz (setz l i v) j = if i =? j then v else getz l j.
Proof.
  intros Hi Hj. unfold getz, setz, len in *. rewrite nth_set_nth by lia.
  destruct (Nat.eqb_spec (Z.to_nat i) (Z.to_nat j)), (Z.eqb_spec i j); auto; lia.
Qed.

Lemma nth_repeat0 n m : nth m (repeat 0 n) 0 = 0.
Proof. revert m. induction n; intros [|m]; cbn; auto. Qed.

Lemma getz_app0 l n j : getz (l ++ repeat 0 n) j = getz l j.
Proof.
  unfold getz. destruct (Nat.lt_ge_cases (Z.to_nat j) (length l)).
  - apply app_nth1; assumption.
  - rewrite app_nth2 by assumption. rewrite nth_repeat0. symmetry. apply nth_overflow. assumption.
Qed.

Lemma getz_repeat0 n j : getz (repeat 0 n) j = 0.
Proof. unfold getz. apply nth_repeat0. Qed.

Lemma getz_cons0 x r : getz (x :: r) 0 = x.
Proof. reflexivity. Qed.

Lemma getz_consS x r k : 0 < k -> getz (x :: r) k = getz r (k - 1).
Proof.
  intros Hk. unfold getz. replace (Z.to_nat k) with (S (Z.to_nat (k - 1))) by lia. reflexivity.
Qed.

Lemma skipn_len_app {A} (l r : list A) : skipn (Z.to_nat (len l)) (l ++ r) = r.
Proof. unfold len. rewrite Nat2Z.id. induction l; cbn; auto. Qed.

(* ---------------------------------------------------------------- uint64 words *)
Lemma ones64_bits j : 0 <= j -> Z.testbit ones64 j = (j <? 64).
Proof.
  intros Hj. unfold ones64. destruct (Z.ltb_spec j 64).
  - apply Z.ones_spec_low. lia.
  - apply Z.ones_spec_high. lia.
Qed.

Lemma not64_bits m j : 0 <= j -> Z.testbit (not64 m) j = xorb (Z.testbit m j) (j <? 64).
Proof. intros Hj. unfold not64. rewrite Z.lxor_spec, ones64_bits by assumption. reflexivity. Qed.

Lemma bit64_eq s : 0 <= s < 64 -> bit64 s = 2 ^ s.
Proof.
  intros Hs. unfold bit64. rewrite Z.shiftl_1_l. apply wrap_small.
  split; [apply Z.pow_nonneg; lia|]. apply Z.pow_lt_mono_r; lia.
Qed.

Lemma u64_high m j : 0 <= m < 2 ^ 64 -> 64 <= j -> Z.testbit m j = false.
Proof.
  intros Hm Hj. rewrite <- (Z.mod_small m (2 ^ 64)) by assumption.
  apply Z.mod_pow2_bits_high. lia.
Qed.

Lemma u64_intro m : 0 <= m -> (forall j, 64 <= j -> Z.testbit m j = false) -> 0 <= m < 2 ^ 64.
Proof.
  intros H0 Hb. assert (E : m mod 2 ^ 64 = m).
  { apply Z.bits_inj'. intros j Hj. destruct (Z.ltb_spec j 64).
    - apply Z.mod_pow2_bits_low. lia.
    - rewrite Z.mod_pow2_bits_high by lia. symmetry. apply Hb. assumption. }
  rewrite <- E. apply Z.mod_pos_bound. reflexivity.
Qed.

Lemma land_pow2 m s : 0 <= s -> (Z.land m (2 ^ s) =? 0) = negb (Z.testbit m s).
Proof.
  intros Hs. destruct (Z.testbit m s) eqn:E; cbn [negb].
  - apply Z.eqb_neq. intros H0.
    assert (F : Z.testbit (Z.land m (2 ^ s)) s = true).
    { rewrite Z.land_spec, E, Z.pow2_bits_true by assumption. reflexivity. }
    rewrite H0, Z.bits_0 in F. discriminate.
  - apply Z.eqb_eq. apply Z.bits_inj'. intros j Hj. rewrite Z.land_spec, Z.bits_0, Z.pow2_bits_eqb by assumption.
    destruct (Z.eqb_spec s j) as [->|]; [rewrite E|]; auto using andb_false_r.
Qed.

Lemma lor_pow2_bits m s j : 0 <= s -> 0 <= j ->
  Z.testbit (Z.lor m (2 ^ s)) j = Z.testbit m j || (s =? j).
Proof. intros Hs Hj. rewrite Z.lor_spec, Z.pow2_bits_eqb by assumption. reflexivity. Qed.

Lemma lor_pow2_u64 m s : 0 <= m < 2 ^ 64 -> 0 <= s < 64 -> 0 <= Z.lor m (2 ^ s) < 2 ^ 64.
Proof.
  intros Hm Hs. apply u64_intro.
  - apply Z.lor_nonneg. split; [lia|]. apply Z.pow_nonneg. lia.
  - intros j Hj. rewrite lor_pow2_bits by lia. rewrite (u64_high m j) by assumption.
    destruct (Z.eqb_spec s j); [lia|reflexivity].
Qed.

Lemma clr_bits m s j : 0 <= m < 2 ^ 64 -> 0 <= s < 64 -> 0 <= j ->
  Z.testbit (Z.land m (not64 (2 ^ s))) j = Z.testbit m j && negb (s =? j).
Proof.
  intros Hm Hs Hj. rewrite Z.land_spec, not64_bits, Z.pow2_bits_eqb by lia.
  destruct (Z.ltb_spec j 64).
  - destruct (s =? j); cbn; reflexivity.
  - rewrite (u64_high m j) by lia. reflexivity.
Qed.

Lemma clr_u64 m s : 0 <= m < 2 ^ 64 -> 0 <= s < 64 -> 0 <= Z.land m (not64 (2 ^ s)) < 2 ^ 64.
Proof.
  intros Hm Hs. apply u64_intro.
  - apply Z.land_nonneg. left. lia.
  - intros j Hj. rewrite clr_bits by lia. rewrite (u64_high m j) by lia. reflexivity.
Qed.

(* trailing zeros *)
Lemma tz_scan_spec n : forall i x, 0 <= i ->
  let r := tz_scan n i x in
  i <= r <= i + Z.of_nat n /\ (forall j, i <= j < r -> Z.testbit x j = false) /\
  (r < i + Z.of_nat n -> Z.testbit x r = true).
Proof.
  induction n as [|n IH]; intros i x Hi; cbn [tz_scan].
  - cbv zeta. splits; intros; lia.
  - destruct (Z.testbit x i) eqn:E.
    + cbv zeta. splits; intros; try lia. exact E.
    + specialize (IH (i + 1) x ltac:(lia)). cbv zeta in *. destruct IH as (H1 & H2 & H3).
      splits; try lia.
      * intros j Hj. destruct (Z.eq_dec j i) as [->|]; [exact E|]. apply H2. lia.
      * intros Hr. apply H3. lia.
Qed.

Lemma full_bits m : not64 m = 0 -> forall j, 0 <= j < 64 -> Z.testbit m j = true.
Proof.
  intros H0 j Hj. pose proof (not64_bits m j ltac:(lia)) as Hb. rewrite H0, Z.bits_0 in Hb.
  destruct (Z.ltb_spec j 64); [|lia]. destruct (Z.testbit m j); [reflexivity|discriminate].
Qed.

Lemma tz_free m : 0 <= m < 2 ^ 64 -> not64 m <> 0 ->
  let s := tz64 (not64 m) in
  0 <= s < 64 /\ Z.testbit m s = false /\ (forall j, 0 <= j < s -> Z.testbit m j = true).
Proof.
  intros Hm Hn. cbv zeta. unfold tz64.
  pose proof (tz_scan_spec 64 0 (not64 m) ltac:(lia)) as Hs. cbv zeta in Hs.
  set (s := tz_scan 64 0 (not64 m)) in *. destruct Hs as (H1 & H2 & H3).
  change (Z.of_nat 64) with 64 in *.
  assert (Hlt : s < 64).
  { destruct (Z.eq_dec s 64) as [E|]; [|lia]. exfalso. apply Hn.
    apply Z.bits_inj'. intros j Hj. rewrite Z.bits_0. destruct (Z.ltb_spec j 64).
    - apply H2. lia.
    - rewrite not64_bits by lia. rewrite (u64_high m j) by lia. destruct (Z.ltb_spec j 64); [lia|reflexivity]. }
  splits; try lia.
  - specialize (H3 ltac:(lia)). rewrite not64_bits in H3 by lia.
    destruct (Z.ltb_spec s 64); [|lia]. destruct (Z.testbit m s); [discriminate|reflexivity].
  - intros j Hj. specialize (H2 j ltac:(lia)). rewrite not64_bits in H2 by lia.
    destruct (Z.ltb_spec j 64); [|lia]. destruct (Z.testbit m j); [reflexivity|discriminate].
Qed.

(* scan finds the first word that is not full *)
Lemma scan_spec ms : forall idx,
  match scan ms idx with
  | Some (i, m) => idx <= i < idx + len ms /\ m = getz ms (i - idx) /\ not64 m <> 0 /\
                   (forall j, idx <= j < i -> not64 (getz ms (j - idx)) = 0)
  | None => forall j, idx <= j < idx + len ms -> not64 (getz ms (j - idx)) = 0
  end.
Proof.
  induction ms as [|m r IH]; intros idx; cbn [scan].
  - intros j Hj. unfold len in Hj. cbn in Hj. lia.
  - assert (Hl : len (m :: r) = len r + 1) by (unfold len; cbn [length]; lia).
    pose proof (len_nonneg r) as Hr.
    destruct (Z.eqb_spec (not64 m) 0) as [E|E].
    + specialize (IH (idx + 1)). destruct (scan r (idx + 1)) as [[i m']|].
      * destruct IH as (H1 & H2 & H3 & H4). splits; try lia; auto.
        -- rewrite getz_consS by lia. rewrite H2. f_equal. lia.
        -- intros j Hj. destruct (Z.eq_dec j idx) as [->|].
           ++ rewrite Z.sub_diag, getz_cons0. exact E.
           ++ rewrite getz_consS by lia. replace (j - idx - 1) with (j - (idx + 1)) by lia. apply H4. lia.
      * intros j Hj. destruct (Z.eq_dec j idx) as [->|].
        -- rewrite Z.sub_diag, getz_cons0. exact E.
        -- rewrite getz_consS by lia. replace (j - idx - 1) with (j - (idx + 1)) by lia. apply IH. lia.
    + splits; try lia; auto.
      rewrite Z.sub_diag, getz_cons0. reflexivity.
Qed.

(* ---------------------------------------------------------------- abstract map *)
Lemma alookup_cons k v a j : alookup ((k, v) :: a) j = if k =? j then Some v else alookup a j.
Proof. reflexivity. Qed.

Lemma alookup_remove a k j : alookup (aremove a k) j = if k =? j then None else alookup a j.
Proof.
  induction a as [|[k' v] r IH]; cbn [aremove alookup].
  - destruct (k =? j); reflexivity.
  - destruct (Z.eqb_spec k' k) as [->|Hne].
    + rewrite IH. destruct (Z.eqb_spec k j); reflexivity.
    + cbn [alookup]. rewrite IH. destruct (Z.eqb_spec k' j), (Z.eqb_spec k j); try reflexivity. lia.
Qed.

Lemma amem_le_amax a k : amem a k = true -> k <= amax a.
Proof.
  unfold amem. induction a as [|[k' v] r IH]; cbn [alookup amax]; [discriminate|].
  destruct (Z.eqb_spec k' k); intros H; [lia|]. specialize (IH H). lia.
Qed.

Lemma amax_ge a : -1 <= amax a.
Proof. induction a as [|[k v] r IH]; cbn [amax]; lia. Qed.

Lemma lfree_spec fuel : forall a k,
  let r := lfree fuel a k in
  k <= r <= k + Z.of_nat fuel /\ (forall j, k <= j < r -> amem a j = true) /\
  (r < k + Z.of_nat fuel -> amem a r = false).
Proof.
  induction fuel as [|f IH]; intros a k; cbn [lfree]; cbv zeta.
  - splits; intros; lia.
  - destruct (amem a k) eqn:E.
    + specialize (IH a (k + 1)). cbv zeta in IH. destruct IH as (H1 & H2 & H3). splits; try lia.
      * intros j Hj. destruct (Z.eq_dec j k) as [->|]; [exact E|]. apply H2. lia.
      * intros Hr. apply H3. lia.
    + splits; intros; try lia. exact E.
Qed.

(* the key chosen by the abstract Insert is free and every smaller non-negative key is bound *)
Lemma least_free_spec a :
  0 <= least_free a /\ amem a (least_free a) = false /\ (forall j, 0 <= j < least_free a -> amem a j = true).
Proof.
  unfold least_free. pose proof (lfree_spec (Z.to_nat (amax a + 1)) a 0) as H. cbv zeta in H.
  set (r := lfree (Z.to_nat (amax a + 1)) a 0) in *. destruct H as (H1 & H2 & H3).
  pose proof (amax_ge a). splits; try lia; auto.
  destruct (Z.lt_ge_cases r (0 + Z.of_nat (Z.to_nat (amax a + 1)))) as [Hlt|Hge]; [auto|].
  destruct (amem a r) eqn:E; [|reflexivity]. apply amem_le_amax in E. lia.
Qed.

Lemma least_free_unique a k : 0 <= k -> amem a k = false -> (forall j, 0 <= j < k -> amem a j = true) ->
  least_free a = k.
Proof.
  intros Hk Hf Hb. destruct (least_free_spec a) as (H0 & H1 & H2).
  destruct (Z.lt_trichotomy (least_free a) k) as [Hlt|[E|Hgt]]; [|exact E|].
  - rewrite Hb in H1 by lia. discriminate.
  - rewrite H2 in Hf by lia. discriminate.
Qed.

(* ---------------------------------------------------------------- refinement relation *)
Definition bit (t : tbl) (k : Z) : bool := Z.testbit (getz (masks t) (k / 64)) (k mod 64).
Definition present (t : tbl) (k : Z) : bool := (0 <=? k) && (k <? len (items t)) && bit t k.
(* abstraction function: the finite map a table denotes *)
Definition view (t : tbl) (k : Z) : option Z := if present t k then Some (getz (items t) k) else None.

(* well-formedness: 64 item slots per mask word, words are uint64, at most 2^25 words (keys are int32),
   a slot whose bit is clear holds the zero Item (mask bit set <=> item present) *)
Definition wf (t : tbl) : Prop :=
  len (items t) = 64 * len (masks t) /\ len (masks t) <= 2 ^ 25 /\
  (forall i, 0 <= i < len (masks t) -> 0 <= getz (masks t) i < 2 ^ 64) /\
  (forall k, 0 <= k < len (items t) -> bit t k = false -> getz (items t) k = 0).

Definition R (t : tbl) (a : amap) : Prop := wf t /\ forall k, alookup a k = view t k.

Lemma amem_view t a k : R t a -> amem a k = present t k.
Proof. intros [_ H]. unfold amem. rewrite H. unfold view. destruct (present t k); reflexivity. Qed.

Lemma empty_R : R empty_tbl [].
Proof.
  split.
  - unfold wf, empty_tbl, len; cbn. splits; intros; lia.
  - intros k. unfold view, present, empty_tbl, len; cbn [items length Z.of_nat].
    destruct (Z.leb_spec 0 k), (Z.ltb_spec k 0); cbn [andb]; try reflexivity. lia.
Qed.

(* setting the bit and the slot of an in-range key *)
Lemma set_slot t key item : wf t -> 0 <= key < len (items t) ->
  let index := key / 64 in let shift := key mod 64 in
  let t' := {| masks := setz (masks t) index (Z.lor (getz (masks t) index) (bit64 shift));
               items := setz (items t) key item |} in
  wf t' /\ forall j, view t' j = if key =? j then Some item else view t j.
Proof.
  intros (Hl & Hm & Hu & Hz) Hk. cbv zeta.
  set (index := key / 64). set (shift := key mod 64).
  assert (Hidx : 0 <= index < len (masks t)) by (unfold index; lia).
  assert (Hsh : 0 <= shift < 64) by (unfold shift; lia).
  rewrite bit64_eq by assumption.
  set (t' := {| masks := _; items := _ |}).
  assert (Hbit : forall j, 0 <= j -> bit t' j = if key =? j then true else bit t j).
  { intros j Hj. unfold bit, t'; cbn [masks items]. rewrite getz_setz by lia.
    destruct (Z.eqb_spec index (j / 64)) as [E|E].
    - rewrite lor_pow2_bits by lia. rewrite E.
      destruct (Z.eqb_spec shift (j mod 64)), (Z.eqb_spec key j); unfold index, shift in *;
        try rewrite orb_true_r; try rewrite orb_false_r; try reflexivity; lia.
    - destruct (Z.eqb_spec key j); [unfold index in *; subst; lia|reflexivity]. }
  split.
  - unfold wf, t'; cbn [masks items]. rewrite !len_setz. splits; auto.
    + intros i Hi. rewrite getz_setz by lia. destruct (Z.eqb_spec index i); [|auto].
      apply lor_pow2_u64; auto.
    + intros k Hk' Hb. fold t' in Hb. rewrite Hbit in Hb by lia. rewrite getz_setz by lia.
      destruct (Z.eqb_spec key k); [discriminate|]. apply Hz; assumption.
  - intros j. unfold view, present. destruct (Z.leb_spec 0 j) as [Hj|Hj]; cbn [andb].
    + rewrite Hbit by lia. unfold t' at 1 2; cbn [items]. rewrite len_setz, getz_setz by lia.
      destruct (Z.eqb_spec key j) as [<-|].
      * destruct (Z.ltb_spec key (len (items t))); [reflexivity|lia].
      * reflexivity.
    + destruct (Z.eqb_spec key j); [lia|reflexivity].
Qed.

Lemma grow_wf_view t n : wf t -> 0 <= n -> len (masks t) + n <= 2 ^ 25 ->
  wf (grow t n) /\ (forall k, view (grow t n) k = view t k) /\
  len (masks (grow t n)) = len (masks t) + n /\ len (items (grow t n)) = len (items t) + 64 * n.
Proof.
  intros (Hl & Hm & Hu & Hz) Hn Hb.
  assert (Hlm : len (masks (grow t n)) = len (masks t) + n).
  { unfold grow; cbn [masks]. rewrite len_app, len_repeat. lia. }
  assert (Hli : len (items (grow t n)) = len (items t) + 64 * n).
  { unfold grow; cbn [items]. rewrite len_app, len_repeat. lia. }
  assert (Hbit : forall k, 0 <= k -> bit (grow t n) k = bit t k).
  { intros k Hk. unfold bit, grow; cbn [masks]. rewrite getz_app0. reflexivity. }
  assert (Hbit0 : forall k, len (items t) <= k -> bit t k = false).
  { intros k Hk. unfold bit. unfold getz. rewrite nth_overflow; [apply Z.bits_0|]. unfold len in *. lia. }
  splits; auto.
  - unfold wf. rewrite Hlm, Hli. splits; try lia.
    + intros i Hi. unfold grow; cbn [masks]. rewrite getz_app0.
      destruct (Z.lt_ge_cases i (len (masks t))); [apply Hu; lia|].
      unfold getz. rewrite nth_overflow by (unfold len in *; lia). lia.
    + intros k Hk Hbk. rewrite Hbit in Hbk by lia. unfold grow; cbn [items]. rewrite getz_app0.
      destruct (Z.lt_ge_cases k (len (items t))); [apply Hz; auto; lia|].
      unfold getz. apply nth_overflow. unfold len in *. lia.
  - intros k. unfold view, present. rewrite Hli. destruct (Z.leb_spec 0 k) as [Hk|Hk]; cbn [andb]; [|reflexivity].
    rewrite Hbit by lia. unfold grow; cbn [items]. rewrite getz_app0.
    destruct (Z.ltb_spec k (len (items t))), (Z.ltb_spec k (len (items t) + 64 * n)); cbn [andb]; try reflexivity; try lia.
    rewrite Hbit0 by lia. reflexivity.
Qed.

(* ---------------------------------------------------------------- the operations *)
Lemma lookup_refines t a k : R t a ->
  lookup t k = match alookup a k with Some v => OItem v true | None => OItem 0 false end.
Proof.
  intros [(Hl & Hm & Hu & Hz) Hv]. rewrite Hv. unfold lookup, view, present.
  destruct (Z.ltb_spec k 0); [destruct (Z.leb_spec 0 k); [lia|reflexivity]|].
  destruct (Z.leb_spec 0 k); [|lia]. cbn [andb].
  destruct (Z.ltb_spec k (len (items t))); cbn [andb]; [|reflexivity].
  destruct (Z.ltb_spec (k / 64) (len (masks t))); [|lia].
  rewrite bit64_eq by lia. rewrite land_pow2 by lia. unfold bit.
  destruct (Z.testbit (getz (masks t) (k / 64)) (k mod 64)); reflexivity.
Qed.

Lemma insert_at_refines t a v k : R t a -> k < 2 ^ 31 ->
  let '(t', o) := insert_at t v k in let '(a', o') := step_abs a (InsertAt v k) in
  o = o' /\ is_stop o = false /\ R t' a'.
Proof.
  intros [Hw Hv] Hk. unfold insert_at. cbn [step_abs].
  destruct (Z.ltb_spec k 0); [splits; auto; split; assumption|].
  set (diff := k / 64 - len (masks t) + 1).
  pose proof Hw as (Hl & Hm & Hu & Hz).
  assert (Hg : exists t1, (if 0 <? diff then grow t diff else t) = t1 /\ wf t1 /\ (forall j, view t1 j = view t j) /\
                          k / 64 < len (masks t1) /\ k < len (items t1)).
  { destruct (Z.ltb_spec 0 diff).
    - destruct (grow_wf_view t diff Hw ltac:(lia) ltac:(unfold diff; lia)) as (H1 & H2 & H3 & H4).
      exists (grow t diff). splits; auto; unfold diff in *; lia.
    - exists t. splits; auto; unfold diff in *; lia. }
  destruct Hg as (t1 & -> & Hw1 & Hv1 & Hi1 & Hk1).
  destruct (Z.ltb_spec (k / 64) (len (masks t1))); [|lia].
  destruct (Z.ltb_spec k (len (items t1))); [|lia]. cbn [andb].
  destruct (set_slot t1 k v Hw1 ltac:(lia)) as [Hw' Hv'].
  splits; auto. split; [exact Hw'|].
  intros j. rewrite Hv', alookup_cons, alookup_remove, Hv1, <- Hv. destruct (k =? j); reflexivity.
Qed.

Lemma delete_refines t a k : R t a ->
  let '(t', o) := delete t k in o = OUnit /\ R t' (aremove a k).
Proof.
  intros [Hw Hv]. pose proof Hw as (Hl & Hm & Hu & Hz). unfold delete.
  assert (Hnone : view t k = None -> R t (aremove a k)).
  { intros Hn. split; [exact Hw|]. intros j. rewrite alookup_remove.
    destruct (Z.eqb_spec k j) as [<-|]; [symmetry; exact Hn|apply Hv]. }
  destruct (Z.ltb_spec k 0).
  { split; [reflexivity|]. apply Hnone. unfold view, present. destruct (Z.leb_spec 0 k); [lia|reflexivity]. }
  destruct (Z.ltb_spec (k / 64) (len (masks t))).
  2:{ split; [reflexivity|]. apply Hnone. unfold view, present.
      destruct (Z.ltb_spec k (len (items t))); [lia|]. rewrite andb_false_r. reflexivity. }
  rewrite bit64_eq by lia. rewrite land_pow2 by lia.
  destruct (Z.testbit (getz (masks t) (k / 64)) (k mod 64)) eqn:Eb; cbn [negb].
  2:{ split; [reflexivity|]. apply Hnone. unfold view, present, bit. rewrite Eb, andb_false_r. reflexivity. }
  destruct (Z.ltb_spec k (len (items t))); [|lia].
  split; [reflexivity|].
  set (t' := {| masks := _; items := _ |}).
  assert (Hbit : forall j, 0 <= j -> bit t' j = if k =? j then false else bit t j).
  { intros j Hj. unfold bit, t'; cbn [masks items]. rewrite getz_setz by lia.
    destruct (Z.eqb_spec (k / 64) (j / 64)) as [E|E].
    - rewrite clr_bits by (try apply Hu; lia). rewrite E.
      destruct (Z.eqb_spec (k mod 64) (j mod 64)), (Z.eqb_spec k j); cbn [negb];
        try rewrite andb_true_r; try rewrite andb_false_r; try reflexivity; lia.
    - destruct (Z.eqb_spec k j); [subst; lia|reflexivity]. }
  split.
  - unfold wf, t'; cbn [masks items]. rewrite !len_setz. splits; auto.
    + intros i Hi. rewrite getz_setz by lia. destruct (Z.eqb_spec (k / 64) i); [|auto].
      apply clr_u64; [apply Hu|]; lia.
    + intros j Hj Hb. fold t' in Hb. rewrite Hbit in Hb by lia. rewrite getz_setz by lia.
      destruct (Z.eqb_spec k j); [reflexivity|]. apply Hz; assumption.
  - intros j. rewrite alookup_remove, Hv. unfold view, present.
    destruct (Z.leb_spec 0 j) as [Hj|Hj]; cbn [andb].
    + rewrite Hbit by lia. unfold t' at 1 2; cbn [items]. rewrite len_setz, getz_setz by lia.
      destruct (Z.eqb_spec k j) as [<-|]; [rewrite andb_false_r|]; reflexivity.
    + destruct (k =? j); reflexivity.
Qed.

Lemma reset_refines t : wf t -> R (reset t) [].
Proof.
  intros (Hl & Hm & Hu & Hz).
  assert (Hb : forall k, bit (reset t) k = false).
  { intros k. unfold bit, reset; cbn [masks]. rewrite getz_repeat0. apply Z.bits_0. }
  split.
  - unfold wf, reset; cbn [masks items]. rewrite !len_repeat. fold (len (masks t)) (len (items t)).
    splits; auto.
    + intros i Hi. rewrite getz_repeat0. lia.
    + intros k Hk _. apply getz_repeat0.
  - intros k. unfold view, present. rewrite Hb, andb_false_r. reflexivity.
Qed.

(* Key(index)*64 + Key(shift) in int32 *)
Lemma key_small index shift : 0 <= index < 2 ^ 25 -> 0 <= shift < 64 ->
  swrap 32 (swrap 32 (swrap 32 index * 64) + swrap 32 shift) = index * 64 + shift.
Proof.
  intros Hi Hs. rewrite (swrap_small 32 index) by (unfold in_s; lia).
  rewrite (swrap_small 32 shift) by (unfold in_s; lia).
  rewrite (swrap_small 32 (index * 64)) by (unfold in_s; lia).
  apply swrap_small; unfold in_s; lia.
Qed.

(* the slot found by the scan is the least free key *)
Lemma insert_slot_refines t a index item : R t a -> 0 <= index < len (masks t) ->
  not64 (getz (masks t) index) <> 0 ->
  (forall j, 0 <= j < index -> not64 (getz (masks t) j) = 0) ->
  let '(t', o) := insert_slot t index (getz (masks t) index) item in
  let '(a', o') := step_abs a (Insert item) in
  o = o' /\ is_stop o = false /\ R t' a'.
Proof.
  intros HR Hidx Hnf Hfull. pose proof HR as [Hw Hv]. pose proof Hw as (Hl & Hm & Hu & Hz).
  unfold insert_slot. set (m := getz (masks t) index) in *.
  destruct (tz_free m (Hu index Hidx) Hnf) as (Hs & Hfree & Hlow). set (s := tz64 (not64 m)) in *.
  rewrite key_small by lia. set (key := index * 64 + s).
  assert (Hk : 0 <= key < len (items t)) by (unfold key; lia).
  assert (Hki : key / 64 = index) by (unfold key; lia).
  assert (Hks : key mod 64 = s) by (unfold key; lia).
  destruct (Z.leb_spec 0 key); [|lia]. destruct (Z.ltb_spec key (len (items t))); [|lia].
  destruct (Z.leb_spec 0 index); [|lia]. destruct (Z.ltb_spec index (len (masks t))); [|lia]. cbn [andb].
  assert (Hlf : least_free a = key).
  { apply least_free_unique; [lia| |].
    - rewrite (amem_view t a key HR). unfold present, bit. rewrite Hki, Hks. fold m. rewrite Hfree.
      apply andb_false_r.
    - intros j Hj. rewrite (amem_view t a j HR). unfold present, bit.
      destruct (Z.leb_spec 0 j); [|lia]. destruct (Z.ltb_spec j (len (items t))); [|lia]. cbn [andb].
      destruct (Z.eq_dec (j / 64) index) as [E|E].
      + rewrite E. fold m. apply Hlow. unfold key in *. lia.
      + apply full_bits; [apply Hfull; unfold key in *; lia|lia]. }
  cbn [step_abs]. rewrite Hlf. destruct (Z.ltb_spec key (2 ^ 31)); [|unfold key in *; lia].
  pose proof (set_slot t key item Hw Hk) as Hss. cbv zeta in Hss. rewrite Hki, Hks in Hss.
  destruct Hss as [Hw' Hv']. splits; auto. split; [exact Hw'|].
  intros j. rewrite Hv', alookup_cons, <- Hv. reflexivity.
Qed.

Lemma insert_refines t a item : R t a ->
  let '(t', o) := insert t item in let '(a', o') := step_abs a (Insert item) in
  o = o' /\ o <> OOutOfFuel /\ (is_stop o = false -> R t' a').
Proof.
  intros HR. pose proof HR as [Hw Hv]. pose proof Hw as (Hl & Hm & Hu & Hz).
  unfold insert. cbn [insert_loop]. change (Z.to_nat 0) with O. cbn [skipn].
  pose proof (scan_spec (masks t) 0) as Hsc.
  destruct (scan (masks t) 0) as [[index m]|].
  - destruct Hsc as (H1 & H2 & H3 & H4). rewrite Z.sub_0_r in H2. subst m.
    pose proof (insert_slot_refines t a index item HR ltac:(lia) H3) as Hs.
    destruct (insert_slot t index (getz (masks t) index) item) as [t' o].
    destruct (step_abs a (Insert item)) as [a' o'].
    destruct Hs as (E1 & E2 & E3).
    + intros j Hj. specialize (H4 j Hj). rewrite Z.sub_0_r in H4. exact H4.
    + splits; auto. intros ->. discriminate.
  - (* every word is full: grow by one word and take its first bit *)
    assert (Hfull : forall j, 0 <= j < len (masks t) -> not64 (getz (masks t) j) = 0).
    { intros j Hj. specialize (Hsc j ltac:(lia)). rewrite Z.sub_0_r in Hsc. exact Hsc. }
    set (L := len (masks t)) in *.
    assert (Hsk : skipn (Z.to_nat L) (masks (grow t 1)) = [0]).
    { unfold grow; cbn [masks]. unfold L. rewrite skipn_len_app. reflexivity. }
    rewrite Hsk. cbn [scan]. change (not64 0 =? 0) with false. cbv iota.
    destruct (Z.eq_dec L (2 ^ 25)) as [E|E].
    + (* 2^31 keys in use: Key(index)*64 wraps to a negative index and the item store panics *)
      unfold insert_slot. rewrite E.
      change (swrap 32 (swrap 32 (swrap 32 (2 ^ 25) * 64) + swrap 32 (tz64 (not64 0)))) with (- 2 ^ 31).
      change (0 <=? - 2 ^ 31) with false. cbn [andb].
      assert (Hlf : least_free a = 2 ^ 31).
      { apply least_free_unique; [lia| |].
        - rewrite (amem_view t a _ HR). unfold present. destruct (Z.ltb_spec (2 ^ 31) (len (items t))); [lia|].
          rewrite andb_false_r. reflexivity.
        - intros j Hj. rewrite (amem_view t a j HR). unfold present, bit.
          destruct (Z.leb_spec 0 j); [|lia]. destruct (Z.ltb_spec j (len (items t))); [|lia]. cbn [andb].
          apply full_bits; [apply Hfull|]; lia. }
      cbn [step_abs]. rewrite Hlf. change (2 ^ 31 <? 2 ^ 31) with false. cbv iota.
      splits; [reflexivity|discriminate|discriminate].
    + destruct (grow_wf_view t 1 Hw ltac:(lia) ltac:(lia)) as (Hw1 & Hv1 & Hlm & Hli).
      assert (HR1 : R (grow t 1) a) by (split; [exact Hw1|intros j; rewrite Hv1; apply Hv]).
      assert (Hg0 : getz (masks (grow t 1)) L = 0).
      { unfold grow; cbn [masks]. rewrite getz_app0. unfold getz. apply nth_overflow. unfold L, len. lia. }
      assert (HL : 0 <= L < len (masks (grow t 1))) by (pose proof (len_nonneg (masks t)); unfold L in *; lia).
      pose proof (insert_slot_refines (grow t 1) a L item HR1 HL) as Hs.
      rewrite Hg0 in Hs.
      destruct (insert_slot (grow t 1) L 0 item) as [t' o].
      destruct (step_abs a (Insert item)) as [a' o'].
      destruct Hs as (E1 & E2 & E3).
      * discriminate.
      * intros j Hj. unfold grow; cbn [masks]. rewrite getz_app0. apply Hfull. exact Hj.
      * splits; auto. intros ->. discriminate.
Qed.

(* ---------------------------------------------------------------- every operation sequence *)
Lemma step_refines t a o : R t a -> op_wf o ->
  let '(t', x) := step_impl t o in let '(a', x') := step_abs a o in
  x = x' /\ x <> OOutOfFuel /\ (is_stop x = false -> R t' a').
Proof.
  intros HR Ho. destruct o as [v|v k|k|k|]; cbn [op_wf] in Ho.
  - apply insert_refines; assumption.
  - cbn [step_impl]. pose proof (insert_at_refines t a v k HR ltac:(lia)) as H.
    destruct (insert_at t v k) as [t' x]. destruct (step_abs a (InsertAt v k)) as [a' x'].
    destruct H as (H1 & H2 & H3). splits; auto. intros ->. discriminate.
  - cbn [step_impl step_abs]. rewrite (lookup_refines t a k HR).
    destruct (alookup a k); splits; auto; discriminate.
  - cbn [step_impl step_abs]. pose proof (delete_refines t a k HR) as H.
    destruct (delete t k) as [t' x]. destruct H as [-> H]. splits; auto. discriminate.
  - cbn [step_impl step_abs]. splits; auto; [discriminate|]. intros _. apply reset_refines. apply HR.
Qed.

Lemma run_refines ops : forall t a, R t a -> Forall op_wf ops ->
  let '(t', outs) := run_impl ops t in let '(a', outs') := run_abs ops a in
  outs = outs' /\ ~ In OOutOfFuel outs /\ (~ In OPanic outs -> R t' a').
Proof.
  induction ops as [|o r IH]; intros t a HR Hops; cbn [run_impl run_abs].
  - splits; auto.
  - inversion Hops as [|? ? Ho Hr]; subst.
    pose proof (step_refines t a o HR Ho) as Hs.
    destruct (step_impl t o) as [t1 x]. destruct (step_abs a o) as [a1 x'].
    destruct Hs as (<- & Hnf & HR1).
    destruct (is_stop x) eqn:Est.
    + splits; auto.
      * intros [H|[]]. apply Hnf. auto.
      * intros Hnp. exfalso. destruct x; try discriminate; [apply Hnp; left; reflexivity|congruence].
    + specialize (IH t1 a1 (HR1 eq_refl) Hr).
      destruct (run_impl r t1) as [t2 xs]. destruct (run_abs r a1) as [a2 xs'].
      destruct IH as (-> & H2 & H3). splits; auto.
      * intros [H|H]; [apply Hnf; auto|apply H2; exact H].
      * intros Hnp. apply H3. intros H. apply Hnp. right. exact H.
Qed.

Theorem table_refines_map ops : Forall op_wf ops ->
  let '(t, outs) := run_impl ops empty_tbl in
  let '(a, outs') := run_abs ops [] in
  outs = outs' /\ ~ In OOutOfFuel outs /\
  (~ In OPanic outs -> wf t /\ forall k, view t k = alookup a k).
Proof.
  intros Hops. pose proof (run_refines ops empty_tbl [] empty_R Hops) as H.
  destruct (run_impl ops empty_tbl) as [t outs]. destruct (run_abs ops []) as [a outs'].
  destruct H as (H1 & H2 & H3). splits; auto. intros Hnp. destruct (H3 Hnp) as [Hw Hv]. split; auto.
Qed.

(* what the abstract Insert promises: the returned key was free, every smaller key was in use *)
Theorem abs_insert_least a v a' k ok : step_abs a (Insert v) = (a', OKey k ok) ->
  ok = true /\ 0 <= k < 2 ^ 31 /\ alookup a k = None /\ (forall j, 0 <= j < k -> alookup a j <> None) /\
  alookup a' k = Some v /\ (forall j, j <> k -> alookup a' j = alookup a j).
Proof.
  cbn [step_abs]. destruct (least_free_spec a) as (H0 & H1 & H2).
  destruct (Z.ltb_spec (least_free a) (2 ^ 31)); intros E; inversion E; subst.
  splits; auto; try lia.
  - unfold amem in H1. destruct (alookup a (least_free a)); [discriminate|reflexivity].
  - intros j Hj. specialize (H2 j Hj). unfold amem in H2. destruct (alookup a j); [discriminate|discriminate].
  - rewrite alookup_cons, Z.eqb_refl. reflexivity.
  - intros j Hj. rewrite alookup_cons. destruct (Z.eqb_spec (least_free a) j); [lia|reflexivity].
Qed.

(* panics are confined to a table holding all 2^31 keys: fewer Inserts/InsertAts than that never panic *)
Lemma abs_panic_full a v a' : step_abs a (Insert v) = (a', OPanic) ->
  forall j, 0 <= j < 2 ^ 31 -> alookup a j <> None.
Proof.
  cbn [step_abs]. destruct (least_free_spec a) as (H0 & H1 & H2).
  destruct (Z.ltb_spec (least_free a) (2 ^ 31)); intros E; inversion E; subst.
  intros j Hj. specialize (H2 j ltac:(lia)). unfold amem in H2. destruct (alookup a' j); discriminate.
Qed.

(* non-vacuity: a sequence through the word boundary with delete + reinsert and a far InsertAt *)
Example table_example :
  snd (run_impl ([InsertAt 7 63; Insert 1; Delete 0; Insert 2; InsertAt 9 200; Lookup 200; Lookup 64; Reset; Insert 3]) empty_tbl)
  = [OBool true; OKey 0 true; OUnit; OKey 0 true; OBool true; OItem 9 true; OItem 0 false; OUnit; OKey 0 true].
Proof. vm_compute. reflexivity. Qed.

Example table_example_wf : Forall op_wf [InsertAt 7 63; Insert 1; Delete 0; Lookup (-1); Reset].
Proof. repeat constructor; cbn; lia. Qed.
