(* Proofs about Sys/FsNorm.v (C16 part C: lexical normalisation of path arguments). *)
From Verif Require Import Lib.GoInt Gen.GenC16Wasip1 Sys.DescTable Sys.FsModel Proofs.FsModelP Sys.FsSlash Proofs.FsSlashP Sys.FsNorm.
From Coq Require Import ZifyBool.
Open Scope Z_scope.
Ltac Zify.zify_post_hook ::= Z.div_mod_to_equations.
Ltac splits := repeat match goal with |- _ /\ _ => split end.

(* ---------------------------------------------------------------- clean, with the stack as result *)
Fixpoint cleanS (stack : list Z) (cs : rpath) : option (list Z) :=
  match cs with
  | [] => Some stack
  | CName n :: r => cleanS (n :: stack) r
  | CDot :: r | CEmpty :: r => cleanS stack r
  | CDotDot :: r => match stack with [] => None | _ :: st' => cleanS st' r end
  end.

Lemma clean_cleanS cs : forall stack, clean stack cs = option_map (@rev Z) (cleanS stack cs).
Proof.
  induction cs as [|c r IH]; intros stack; cbn [clean cleanS]; [reflexivity|].
  destruct c; try apply IH. destruct stack; [reflexivity|apply IH].
Qed.

Lemma cleanS_app a : forall stack b,
  cleanS stack (a ++ b) = match cleanS stack a with None => None | Some st => cleanS st b end.
Proof.
  induction a as [|c r IH]; intros stack b; cbn [app cleanS]; [reflexivity|].
  destruct c; try apply IH. destruct stack; [reflexivity|apply IH].
Qed.

(* a clean path is left alone *)
Lemma cleanS_names p : forall stack, cleanS stack (map CName p) = Some (rev p ++ stack).
Proof.
  induction p as [|x r IH]; intros stack; cbn [map cleanS]; [reflexivity|].
  rewrite IH. cbn [rev]. rewrite <- app_assoc. reflexivity.
Qed.
Lemma norm_clean p : norm false (map CName p) = Some p.
Proof.
  unfold norm. rewrite clean_cleanS, cleanS_names. cbn [option_map]. rewrite app_nil_r, rev_involutive. reflexivity.
Qed.

(* "." and empty components are invisible; "name/.." cancels — wherever they stand *)
Lemma clean_dot stack a b :
  clean stack (a ++ CDot :: b) = clean stack (a ++ b) /\ clean stack (a ++ CEmpty :: b) = clean stack (a ++ b).
Proof.
  rewrite !clean_cleanS, !cleanS_app. destruct (cleanS stack a); split; reflexivity.
Qed.
Lemma clean_dotdot stack a n b : clean stack (a ++ CName n :: CDotDot :: b) = clean stack (a ++ b).
Proof.
  rewrite !clean_cleanS, !cleanS_app. destruct (cleanS stack a); reflexivity.
Qed.

(* the path is refused exactly when some prefix of it has more ".." than names *)
Fixpoint nnames (cs : rpath) : nat :=
  match cs with [] => 0 | CName _ :: r => S (nnames r) | _ :: r => nnames r end.
Fixpoint ndotdot (cs : rpath) : nat :=
  match cs with [] => 0 | CDotDot :: r => S (ndotdot r) | _ :: r => ndotdot r end.

Lemma cleanS_none cs : forall stack,
  cleanS stack cs = None <->
  exists k, (k <= length cs)%nat /\ (length stack + nnames (firstn k cs) < ndotdot (firstn k cs))%nat.
Proof.
  induction cs as [|c r IH]; intros stack.
  - cbn [cleanS]. split; [discriminate|]. intros (k & Hk & H). destruct k; cbn in *; lia.
  - assert (Hskip : forall st', (forall k, nnames (firstn (S k) (c :: r)) = nnames (firstn k r)) ->
                                (forall k, ndotdot (firstn (S k) (c :: r)) = ndotdot (firstn k r)) ->
                                (cleanS st' r = None <->
                                 exists k, (k <= length (c :: r))%nat /\ (length st' + nnames (firstn k (c :: r)) < ndotdot (firstn k (c :: r)))%nat)).
    { intros st' Hn Hd. rewrite IH. split.
      - intros (k & Hk & H). exists (S k). rewrite Hn, Hd. cbn [length]. split; lia.
      - intros (k & Hk & H). destruct k as [|k]; [cbn in H; lia|]. rewrite Hn, Hd in H. cbn [length] in Hk. exists k. split; lia. }
    destruct c; cbn [cleanS].
    + (* name *) rewrite IH. split.
      * intros (k & Hk & H). exists (S k). cbn [firstn nnames ndotdot length] in *. split; lia.
      * intros (k & Hk & H). destruct k as [|k]; [cbn in H; lia|]. cbn [firstn nnames ndotdot length] in *. exists k. split; lia.
    + apply Hskip; intros; reflexivity.
    + (* .. *) destruct stack as [|x st'].
      * split; [|reflexivity]. intros _. exists 1%nat. cbn [firstn nnames ndotdot length]. split; lia.
      * rewrite IH. split.
        -- intros (k & Hk & H). exists (S k). cbn [firstn nnames ndotdot length] in *. split; lia.
        -- intros (k & Hk & H). destruct k as [|k]; [cbn in H; lia|]. cbn [firstn nnames ndotdot length] in *. exists k. split; lia.
    + apply Hskip; intros; reflexivity.
Qed.

Lemma norm_none rooted cs :
  norm rooted cs = None <->
  rooted = true \/ exists k, (k <= length cs)%nat /\ (nnames (firstn k cs) < ndotdot (firstn k cs))%nat.
Proof.
  unfold norm. destruct rooted.
  - split; [left; reflexivity|reflexivity].
  - rewrite clean_cleanS. destruct (cleanS [] cs) eqn:E.
    + split; [discriminate|]. intros [H|H]; [discriminate|]. apply (cleanS_none cs []) in H. congruence.
    + split; [|reflexivity]. intros _. right. apply (cleanS_none cs []) in E. exact E.
Qed.

(* ---------------------------------------------------------------- POSIX walk vs lexical normalisation *)
Lemma pwalk_cleanS t b cs : forall stack st', pwalk t b stack cs = Some st' -> cleanS stack cs = Some st'.
Proof.
  induction cs as [|c r IH]; intros stack st'; cbn [pwalk cleanS]; [auto|].
  destruct (is_dir t (b ++ rev stack)); [|discriminate].
  destruct c; try apply IH. destruct stack; [discriminate|apply IH].
Qed.
(* whenever resolving the components one at a time succeeds, the lexical normalisation names the same node *)
Lemma pwalk_clean t b cs st' : pwalk t b [] cs = Some st' -> norm false cs = Some (rev st').
Proof.
  intros H. unfold norm. rewrite clean_cleanS, (pwalk_cleanS _ _ _ _ _ H). reflexivity.
Qed.

(* ---------------------------------------------------------------- step_n *)
(* a raw path that is clean is the clean path *)
Lemma step_n_clean s k d p t : p <> [] -> step_n s (NRaw k d false (map CName p) t) = step_sl s (mk1 k d p) t false.
Proof. intros Hp. cbn [step_n]. rewrite norm_clean. unfold tflag. destruct p; [congruence|]. rewrite orb_false_r. reflexivity. Qed.
Lemma step_n_rename_clean s d1 p t1 d2 q t2 :
  step_n s (NRename d1 false (map CName p) t1 d2 false (map CName q) t2) = step_sl s (Rename d1 p d2 q) t1 t2.
Proof. cbn [step_n]. rewrite !norm_clean. reflexivity. Qed.

(* a path that leaves the directory is refused with EPERM — whatever the descriptor is — and nothing changes *)
Lemma step_n_escape s k d rooted cs t : norm rooted cs = None -> step_n s (NRaw k d rooted cs t) = (s, OErr ErrnoPerm).
Proof. intros H. cbn [step_n]. rewrite H. reflexivity. Qed.

(* every call either is one FsModel operation ([effective]) or fails and changes nothing *)
Lemma step_n_refines s x :
  (exists o, effective s x = Some o /\ step_n s x = step s o) \/
  (effective s x = None /\ exists e, step_n s x = (s, OErr e)).
Proof.
  destruct x as [o t1 t2|k d rooted cs t|d1 r1 cs1 t1 d2 r2 cs2 t2]; cbn [step_n effective].
  - unfold step_sl. destruct (slash_guard s o t1 t2) as [e|]; [right; split; [reflexivity|exists e; reflexivity]|left; exists o; split; reflexivity].
  - destruct (norm rooted cs) as [p|]; [|right; split; [reflexivity|eexists; reflexivity]].
    unfold step_sl. destruct (slash_guard s (mk1 k d p) (tflag t p) false) as [e|];
      [right; split; [reflexivity|exists e; reflexivity]|left; eexists; split; reflexivity].
  - destruct (norm r1 cs1) as [p|]; [|right; split; [reflexivity|eexists; reflexivity]].
    destruct (norm r2 cs2) as [q|].
    + unfold step_sl. destruct (slash_guard s (Rename d1 p d2 q) t1 t2) as [e|];
        [right; split; [reflexivity|exists e; reflexivity]|left; eexists; split; reflexivity].
    + right. split; [reflexivity|]. destruct (base s d1); eexists; reflexivity.
Qed.

Lemma reachable_n l : forall s, final_n s l = final s (effective_ops s l).
Proof.
  unfold final_n, final. induction l as [|x r IH]; intros s; cbn [fold_left effective_ops]; [reflexivity|].
  destruct (step_n_refines s x) as [(o & He & Hs)|(He & e & Hs)]; rewrite He, Hs; cbn [fst fold_left]; apply IH.
Qed.
Lemma reachable_n_wf l : wf_tree (s_tree (final_n st_init l)).
Proof. rewrite reachable_n. apply reachable_wf. apply wf_init. Qed.

Lemma final_n_run l : forall s, final_n s l = fst (run_n s l).
Proof.
  unfold final_n. induction l as [|x r IH]; intros s; cbn [fold_left run_n]; [reflexivity|].
  rewrite IH. destruct (step_n s x) as [s1 y]. cbn [fst]. destruct (run_n s1 r). reflexivity.
Qed.

(* ---------------------------------------------------------------- non-vacuity *)
(* names: a=0 b=1 c=2 d=3 x=5 *)
Example ex_norm :
  norm false [CName 3; CDot; CEmpty; CName 0] = Some [3; 0] /\                 (* "d/.//a" *)
  norm false [CName 5; CDotDot; CName 0] = Some [0] /\                          (* "x/../a" *)
  norm false [CName 3; CName 0; CDotDot; CDotDot] = Some [] /\                  (* "d/a/../.." *)
  norm false [CName 3; CDotDot; CDotDot; CName 3] = None /\                     (* "d/../../d" *)
  norm false [CDotDot] = None /\ norm true [CEmpty; CName 0] = None /\          (* "..", "/a" *)
  norm false [CDot; CEmpty] = Some [].                                          (* "./" *)
Proof. splits; reflexivity. Qed.

(* where wazero and POSIX part: [3] is a directory, [0] and [3;0] are files, [5] does not exist *)
Definition ex_tree : list (path * node) := [([3; 0], NFile 2); ([0], NFile 1); ([3], NDir)].
Example ex_posix_vs_lexical :
  (* agree: "d/../a", "./d/a" *)
  pwalk ex_tree [] [] [CName 3; CDotDot; CName 0] = Some [0] /\ norm false [CName 3; CDotDot; CName 0] = Some [0] /\
  pwalk ex_tree [] [] [CDot; CName 3; CName 0] = Some [0; 3] /\ norm false [CDot; CName 3; CName 0] = Some [3; 0] /\
  (* differ: "x/../a" (x missing), "a/../a" (a is a file), "a/." : POSIX fails, wazero resolves to the file a *)
  pwalk ex_tree [] [] [CName 5; CDotDot; CName 0] = None /\ norm false [CName 5; CDotDot; CName 0] = Some [0] /\
  pwalk ex_tree [] [] [CName 0; CDotDot; CName 0] = None /\ norm false [CName 0; CDotDot; CName 0] = Some [0] /\
  pwalk ex_tree [] [] [CName 0; CDot] = None /\ norm false [CName 0; CDot] = Some [0].
Proof. splits; reflexivity. Qed.

Definition ex_nops : list nop :=
  [ NOp (Mkdir 3 [3]) false false; NOp (PathOpen 3 [3; 0] 1 0 66) false false; NOp (PathOpen 3 [3] 2 0 2) false false;
    NRaw PStat 5 false [CDot; CName 0] false;                       (* (5, "./a"): the file *)
    NRaw PStat 5 false [CName 0; CDotDot; CName 0; CEmpty] true;    (* (5, "a/../a/"): ENOTDIR *)
    NRaw PStat 5 false [CDotDot; CName 3; CName 0] false;           (* (5, "../d/a"): EPERM *)
    NRaw PStat 77 true [CEmpty; CName 0] false;                     (* (77, "/a"): EPERM, not EBADF *)
    NRaw (POpen 2 0 2) 5 false [CName 0; CDotDot] false;            (* (5, "a/.."): descriptor 6 on d itself *)
    NRaw (POpen 1 0 66) 6 false [CName 5; CDotDot; CName 1] false;  (* (6, "x/../b") with O_CREAT: creates d/b *)
    NRename 6 false [CDot; CName 1] false 3 false [CName 3; CDotDot; CName 2] false;   (* (6,"./b") -> (3,"d/../c") *)
    NRename 77 false [CName 1] false 3 false [CDotDot] false;       (* old descriptor bad, new name escapes: EBADF *)
    NRename 6 false [CName 1] false 77 false [CDotDot] false;       (* EPERM *)
    NOp (Stat 3 [2]) false false;
    (* the directory behind descriptor 5 is replaced by a regular file: (5, "b/..") is "d/." — ENOTDIR *)
    NOp (FdClose 4) false false; NOp (Unlink 3 [3; 0]) false false; NOp (Rmdir 3 [3]) false false;
    NOp (PathOpen 3 [3] 1 0 66) false false;
    NRaw PStat 5 false [CName 1; CDotDot] false; NRaw PStat 3 false [CName 1; CDotDot] false ].
Example ex_run_n :
  snd (run_n st_init ex_nops) =
  [ OOk; OFd 4; OFd 5; OStat 4 0; OErr ErrnoNotdir; OErr ErrnoPerm; OErr ErrnoPerm; OFd 6; OFd 7; OOk;
    OErr ErrnoBadf; OErr ErrnoPerm; OStat 4 0; OOk; OOk; OOk; OFd 4; OErr ErrnoNotdir; OStat 3 0 ] /\
  effective_ops st_init ex_nops =
  [ Mkdir 3 [3]; PathOpen 3 [3; 0] 1 0 66; PathOpen 3 [3] 2 0 2; Stat 5 [0]; PathOpen 5 [] 2 0 2;
    PathOpen 6 [1] 1 0 66; Rename 6 [1] 3 [2]; Stat 3 [2];
    FdClose 4; Unlink 3 [3; 0]; Rmdir 3 [3]; PathOpen 3 [3] 1 0 66; Stat 3 [] ].
Proof. split; vm_compute; reflexivity. Qed.
