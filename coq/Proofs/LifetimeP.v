(* C09: proofs about the heap-graph model coq/Engine/Lifetime.v. *)
From Coq Require Import List ZArith Bool Arith Lia.
From Verif Require Import Engine.Lifetime.
Import ListNotations.

(* ------------------------------------------------------------------------------------------ *)
(* basics *)

Lemma memb_In : forall x l, memb x l = true <-> In x l.
Proof.
  unfold memb; intros x l; rewrite existsb_exists; split.
  - intros [y [H E]]. apply Nat.eqb_eq in E; subst; auto.
  - intros H; exists x; split; auto. apply Nat.eqb_refl.
Qed.

Lemma remove_nat_In : forall x y l, In y (remove_nat x l) -> In y l.
Proof. unfold remove_nat; intros x y l H; apply filter_In in H; tauto. Qed.

Lemma getd_dead : forall s i, length (heap s) <= i -> getd s i = dead_obj.
Proof. intros; unfold getd; apply nth_overflow; auto. Qed.

Lemma alive_lt : forall s i, alive s i = true -> i < length (heap s).
Proof.
  intros s i H. destruct (Nat.lt_ge_cases i (length (heap s))); auto.
  unfold alive in H; rewrite getd_dead in H; auto; discriminate.
Qed.

Lemma nth_upd : forall h i f j,
  nth j (upd h i f) dead_obj = if (j =? i) && (i <? length h) then f (nth i h dead_obj) else nth j h dead_obj.
Proof.
  induction h as [|o r IH]; intros i f j.
  - simpl. destruct i; rewrite andb_false_r; destruct j; reflexivity.
  - destruct i as [|i]; destruct j as [|j]; simpl; try reflexivity.
    rewrite IH. change (S i <? S (length r)) with (i <? length r). reflexivity.
Qed.

Lemma length_upd : forall h i f, length (upd h i f) = length h.
Proof. induction h; intros [|i] f; simpl; auto. Qed.

Lemma getd_upd : forall s i f j,
  getd (upd_obj s i f) j = if (j =? i) && (i <? length (heap s)) then f (getd s i) else getd s j.
Proof. intros; unfold getd, upd_obj; simpl; apply nth_upd. Qed.

Lemma getd_alloc : forall s o j,
  getd (fst (alloc s o)) j = if j =? length (heap s) then o else getd s j.
Proof.
  intros; unfold getd, alloc; simpl.
  destruct (Nat.eqb_spec j (length (heap s))).
  - subst. rewrite app_nth2, Nat.sub_diag; auto.
  - destruct (Nat.lt_ge_cases j (length (heap s))).
    + apply app_nth1; auto.
    + rewrite !nth_overflow; auto. rewrite app_length; simpl; lia.
Qed.

(* ------------------------------------------------------------------------------------------ *)
(* structural reachability and the invariant *)

Inductive sreach (s : state) : nat -> nat -> Prop :=
| sr_refl : forall a, sreach s a a
| sr_step : forall a x b, In x (o_vis (getd s a)) -> sreach s x b -> sreach s a b.

Lemma sreach_trans : forall s a b c, sreach s a b -> sreach s b c -> sreach s a c.
Proof. induction 1; intros; auto. econstructor; eauto. Qed.

Lemma sreach_edge : forall s a b, In b (o_vis (getd s a)) -> sreach s a b.
Proof. intros; econstructor; eauto; constructor. Qed.

Definition vis_mono (s s' : state) : Prop := forall i, incl (o_vis (getd s i)) (o_vis (getd s' i)).

Lemma sreach_mono : forall s s' a b, vis_mono s s' -> sreach s a b -> sreach s' a b.
Proof. induction 2; [constructor | econstructor; eauto; apply H; auto]. Qed.

Definition owner (s : state) (i : nat) : option nat := o_owner (getd s i).
Definition cover (s : state) (i : nat) : nat := match owner s i with Some c => c | None => i end.

(* extension: what later steps may rely on *)
Definition ext (s s' : state) : Prop :=
  (forall i, alive s i = true -> alive s' i = true /\ owner s' i = owner s i /\ o_kind (getd s' i) = o_kind (getd s i)) /\ vis_mono s s'.

Lemma ext_refl : forall s, ext s s.
Proof. split; [auto | intros i x; auto]. Qed.

Lemma ext_trans : forall a b c, ext a b -> ext b c -> ext a c.
Proof.
  intros a b c [A1 A2] [B1 B2]; split.
  - intros i H. destruct (A1 i H) as [H1 [H2 H2']]. destruct (B1 i H1) as [H3 [H4 H4']]. split; auto. split; congruence.
  - intros i x H. apply B2, A2; auto.
Qed.

(* The invariant, in two strengths.
   strict = true : every raw reference of every uncollected object is covered (its holder's cover structurally reaches
                   it): preserved by every TRACKED step.
   strict = false: the same for the objects no operation ever writes - function records (their code address) and
                   IMMUTABLE globals - only: preserved by EVERY step (hand-overs through untracked channels, F08 and F35,
                   included), provided exported immutable globals point to their exporter's module engine (imm_ok). *)
Section WF.
Variable strict : bool.

Definition must_cover (s : state) (i : nat) : Prop := strict = true \/ writable (o_kind (getd s i)) = false.

Record wf (s : state) : Prop := mkWf {
  wf_closed : forall i x, alive s i = true -> In x (edges (getd s i)) -> alive s x = true;
  wf_cover  : forall i r, alive s i = true -> In (Some r) (o_slots (getd s i)) -> must_cover s i -> sreach s (cover s i) r;
  wf_owner  : forall i c, alive s i = true -> owner s i = Some c ->
                alive s c = true /\ (forall x, alive s x = true -> In i (edges (getd s x)) -> x = c) /\ ~ In i (roots s);
  wf_roots  : forall x, In x (roots s) -> alive s x = true;
  (* what an immutable global holds is a function record (or garbage never dereferenced: there is none) *)
  wf_typed  : forall i r, In (Some r) (o_slots (getd s i)) -> o_kind (getd s i) = KGlobalC -> o_kind (getd s r) = KFunc }.

Lemma in_vis_edges : forall o x, In x (o_vis o) -> In x (edges o).
Proof. intros; unfold edges; apply in_or_app; auto. Qed.

Lemma sreach_alive : forall s a b, wf s -> sreach s a b -> alive s a = true -> alive s b = true.
Proof.
  intros s a b W R; induction R; intros; auto.
  apply IHR. eapply wf_closed; eauto. apply in_vis_edges; auto.
Qed.

Lemma cover_alive : forall s i, wf s -> alive s i = true -> alive s (cover s i) = true.
Proof.
  intros s i W A. unfold cover. destruct (owner s i) eqn:E; auto.
  destruct (wf_owner s W i n A E); auto.
Qed.

(* the safety consequence: no raw reference held by an uncollected object points to a collected one *)
Theorem wf_no_dangling : forall s i r, wf s -> alive s i = true -> In (Some r) (o_slots (getd s i)) -> must_cover s i -> alive s r = true.
Proof.
  intros s i r W A H MC. eapply sreach_alive; eauto using wf_cover, cover_alive.
Qed.

(* the cover of an object is structurally reachable from whoever points to it *)
Lemma cover_from_pointer : forall s x i, wf s -> alive s x = true -> In i (o_vis (getd s x)) -> sreach s x (cover s i).
Proof.
  intros s x i W A H. unfold cover. destruct (owner s i) eqn:E.
  - assert (Ai : alive s i = true) by (eapply wf_closed; eauto using in_vis_edges).
    destruct (wf_owner s W i n Ai E) as [_ [U _]].
    rewrite <- (U x A (in_vis_edges _ _ H)). constructor.
  - apply sreach_edge; auto.
Qed.

Lemma reach_slot : forall s x i r, wf s -> alive s x = true -> In i (o_vis (getd s x)) ->
  In (Some r) (o_slots (getd s i)) -> must_cover s i -> sreach s x r.
Proof.
  intros s x i r W A H S MC.
  eapply sreach_trans; [eapply cover_from_pointer; eauto|].
  apply wf_cover; auto. eapply wf_closed; eauto using in_vis_edges.
Qed.

(* ------------------------------------------------------------------------------------------ *)
(* updating one object *)

Lemma wf_upd : forall s i f,
  wf s ->
  o_alive (f (getd s i)) = o_alive (getd s i) ->
  o_owner (f (getd s i)) = o_owner (getd s i) ->
  o_kind (f (getd s i)) = o_kind (getd s i) ->
  incl (o_vis (getd s i)) (o_vis (f (getd s i))) ->
  (forall r, In (Some r) (o_slots (f (getd s i))) -> In (Some r) (o_slots (getd s i)) \/ writable (o_kind (getd s i)) = true) ->
  (alive s i = true ->
     (forall x, In x (edges (f (getd s i))) ->
        alive s x = true /\ (In x (edges (getd s i)) \/ owner s x = None \/ owner s x = Some i)) /\
     (forall r, In (Some r) (o_slots (f (getd s i))) -> must_cover s i -> In (Some r) (o_slots (getd s i)) \/ sreach s (cover s i) r)) ->
  wf (upd_obj s i f) /\ ext s (upd_obj s i f).
Proof.
  intros s i f W HA HO HK HV HT HC.
  set (s' := upd_obj s i f).
  assert (G : forall j, getd s' j = if (j =? i) && (i <? length (heap s)) then f (getd s i) else getd s j)
    by (intro; apply getd_upd).
  assert (AL : forall j, alive s' j = alive s j).
  { intro j. unfold alive. rewrite G. destruct ((j =? i) && (i <? length (heap s))) eqn:E; auto.
    apply andb_true_iff in E; destruct E as [E _]; apply Nat.eqb_eq in E; subst; auto. }
  assert (OW : forall j, owner s' j = owner s j).
  { intro j. unfold owner. rewrite G. destruct ((j =? i) && (i <? length (heap s))) eqn:E; auto.
    apply andb_true_iff in E; destruct E as [E _]; apply Nat.eqb_eq in E; subst; auto. }
  assert (KD : forall j, o_kind (getd s' j) = o_kind (getd s j)).
  { intro j. rewrite G. destruct ((j =? i) && (i <? length (heap s))) eqn:E; auto.
    apply andb_true_iff in E; destruct E as [E _]; apply Nat.eqb_eq in E; subst; auto. }
  assert (VM : vis_mono s s').
  { intros j x H. rewrite G. destruct ((j =? i) && (i <? length (heap s))) eqn:E; auto.
    apply andb_true_iff in E; destruct E as [E _]; apply Nat.eqb_eq in E; subst; auto. }
  assert (CV : forall j, cover s' j = cover s j) by (intro; unfold cover; rewrite OW; auto).
  assert (RT : roots s' = roots s) by reflexivity.
  split; [|split; [intros j H; rewrite AL, OW, KD; auto | exact VM]].
  constructor.
  - intros j x A H. rewrite AL in *. rewrite G in H.
    destruct ((j =? i) && (i <? length (heap s))) eqn:E.
    + apply andb_true_iff in E; destruct E as [E _]; apply Nat.eqb_eq in E; subst.
      destruct (HC A) as [H1 _]. apply H1; auto.
    + eapply wf_closed; eauto.
  - intros j r A H MC. rewrite AL in A. rewrite CV. unfold must_cover in MC. rewrite KD in MC. rewrite G in H.
    destruct ((j =? i) && (i <? length (heap s))) eqn:E.
    + apply andb_true_iff in E; destruct E as [E _]; apply Nat.eqb_eq in E; subst.
      destruct (HC A) as [_ H2]. destruct (H2 r H MC).
      * eapply sreach_mono; eauto. apply wf_cover; auto.
      * eapply sreach_mono; eauto.
    + eapply sreach_mono; eauto. apply wf_cover; auto.
  - intros j c A H. rewrite AL in A. rewrite OW in H. rewrite RT, AL.
    destruct (wf_owner s W j c A H) as [H1 [H2 H3]]. split; [auto | split; auto].
    intros x Ax Hx. rewrite AL in Ax. rewrite G in Hx.
    destruct ((x =? i) && (i <? length (heap s))) eqn:E.
    + apply andb_true_iff in E; destruct E as [E _]; apply Nat.eqb_eq in E; subst.
      destruct (HC Ax) as [K _]. destruct (K j Hx) as [_ [K1 | [K1 | K1]]].
      * apply H2; auto.
      * congruence.
      * congruence.
    + apply H2; auto.
  - intros x H. rewrite AL. apply (wf_roots s W); auto.
  - intros j r H K. rewrite KD in *. rewrite G in H.
    destruct ((j =? i) && (i <? length (heap s))) eqn:E.
    + apply andb_true_iff in E; destruct E as [E _]; apply Nat.eqb_eq in E; subst.
      destruct (HT r H) as [H' | H']; [eapply wf_typed; eauto | rewrite K in H'; discriminate].
    + eapply wf_typed; eauto.
Qed.

Lemma ext_same_heap : forall s s', heap s' = heap s -> ext s s'.
Proof.
  intros s s' E. assert (G : forall i, getd s' i = getd s i) by (intro; unfold getd; rewrite E; auto).
  split; [intros i A; unfold alive, owner; rewrite G; auto | intros i x; rewrite G; auto].
Qed.

Lemma ext_kind : forall s s' i, ext s s' -> alive s i = true -> o_kind (getd s' i) = o_kind (getd s i).
Proof. intros s s' i [H _] A; apply H; auto. Qed.

Lemma sreach_same_heap : forall s s' a b, heap s' = heap s -> sreach s a b -> sreach s' a b.
Proof. intros s s' a b E. apply sreach_mono. intros i x. unfold getd; rewrite E; auto. Qed.

(* changing the roots *)
Lemma wf_host : forall s l, wf s ->
  (forall x, In x l -> In x (host s) \/ (alive s x = true /\ owner s x = None)) -> wf (with_host s l) /\ ext s (with_host s l).
Proof.
  intros s l W H. split; [|apply ext_same_heap; reflexivity].
  constructor.
  - intros i x A K. eapply (wf_closed s W); eassumption.
  - intros i r A K MC. apply (sreach_same_heap s); [reflexivity|]. apply (wf_cover s W); assumption.
  - intros i c A O. change (alive s i = true) in A; change (owner s i = Some c) in O.
    destruct (wf_owner s W i c A O) as [H1 [H2 H3]]. split; [auto | split; auto].
    unfold roots in *; simpl. intro K; apply in_app_or in K; destruct K as [K | K].
    + destruct (H _ K) as [K1 | [_ K1]]; [apply H3; apply in_or_app; auto | congruence].
    + apply H3; apply in_or_app; auto.
  - intros x K. unfold roots in K; simpl in K. apply in_app_or in K; destruct K as [K | K].
    + destruct (H _ K) as [K1 | [K1 _]]; auto. apply (wf_roots s W); apply in_or_app; auto.
    + apply (wf_roots s W); apply in_or_app; auto.
  - intros i r K1 K2. eapply (wf_typed s W); eassumption.
Qed.

Lemma wf_flight : forall s l, wf s ->
  (forall x, In x l -> In x (flight s) \/ (alive s x = true /\ owner s x = None)) -> wf (with_flight s l) /\ ext s (with_flight s l).
Proof.
  intros s l W H. split; [|apply ext_same_heap; reflexivity].
  constructor.
  - intros i x A K. eapply (wf_closed s W); eassumption.
  - intros i r A K MC. apply (sreach_same_heap s); [reflexivity|]. apply (wf_cover s W); assumption.
  - intros i c A O. change (alive s i = true) in A; change (owner s i = Some c) in O.
    destruct (wf_owner s W i c A O) as [H1 [H2 H3]]. split; [auto | split; auto].
    unfold roots in *; simpl. intro K; apply in_app_or in K; destruct K as [K | K].
    + apply H3; apply in_or_app; auto.
    + destruct (H _ K) as [K1 | [_ K1]]; [apply H3; apply in_or_app; auto | congruence].
  - intros x K. unfold roots in K; simpl in K. apply in_app_or in K; destruct K as [K | K].
    + apply (wf_roots s W); apply in_or_app; auto.
    + destruct (H _ K) as [K1 | [K1 _]]; auto. apply (wf_roots s W); apply in_or_app; auto.
  - intros i r K1 K2. eapply (wf_typed s W); eassumption.
Qed.

(* ------------------------------------------------------------------------------------------ *)
(* allocation *)

Lemma wf_alloc : forall s o,
  wf s -> o_alive o = true ->
  (forall x, In x (edges o) -> alive s x = true /\ owner s x = None) ->
  match o_owner o with
  | Some c => alive s c = true /\ (forall r, In (Some r) (o_slots o) -> sreach s c r)
  | None => forall r, In (Some r) (o_slots o) -> (strict = true \/ writable (o_kind o) = false) ->
                      exists x, In x (o_vis o) /\ sreach s x r
  end ->
  (o_kind o = KGlobalC -> forall r, In (Some r) (o_slots o) -> o_kind (getd s r) = KFunc) ->
  wf (fst (alloc s o)) /\ ext s (fst (alloc s o)) /\ alive (fst (alloc s o)) (length (heap s)) = true /\
  getd (fst (alloc s o)) (length (heap s)) = o.
Proof.
  intros s o W HA HE HS HT.
  set (n := length (heap s)). set (s' := fst (alloc s o)).
  assert (G : forall j, getd s' j = if j =? n then o else getd s j) by (intro; apply getd_alloc).
  assert (Gn : getd s' n = o) by (rewrite G, Nat.eqb_refl; auto).
  assert (Go : forall j, alive s j = true -> getd s' j = getd s j).
  { intros j A. rewrite G. destruct (Nat.eqb_spec j n); auto. apply alive_lt in A. subst j; unfold n in A; lia. }
  assert (Gd : getd s n = dead_obj) by (apply getd_dead; unfold n; lia).
  assert (AL : forall j, alive s j = true -> alive s' j = true) by (intros j A; unfold alive; rewrite Go; auto).
  assert (AL' : forall j, alive s' j = true -> j = n \/ alive s j = true).
  { intros j A. unfold alive in A; rewrite G in A. destruct (Nat.eqb_spec j n); auto. }
  assert (VM : vis_mono s s').
  { intros j x H. rewrite G. destruct (Nat.eqb_spec j n); auto. subst j. rewrite getd_dead in H; [destruct H | unfold n; lia]. }
  assert (RT : roots s' = roots s) by reflexivity.
  assert (NR : ~ In n (roots s)).
  { intro K. apply (wf_roots s W) in K. apply alive_lt in K; unfold n in K; lia. }
  assert (NE : forall x, alive s x = true -> ~ In n (edges (getd s x))).
  { intros x A K. apply (wf_closed s W x n A) in K. apply alive_lt in K; unfold n in K; lia. }
  split; [|split; [split; [intros j A; split; [auto | unfold owner; rewrite Go; auto] | exact VM] | split; [unfold alive; rewrite Gn; auto | exact Gn]]].
  constructor.
  - intros j x A H. destruct (AL' j A) as [-> | A0].
    + rewrite Gn in H. apply AL, HE; auto.
    + rewrite Go in H; auto. apply AL. eapply wf_closed; eauto.
  - intros j r A H MC. destruct (AL' j A) as [-> | A0].
    + rewrite Gn in H. unfold must_cover in MC. rewrite Gn in MC. unfold cover, owner. rewrite Gn.
      destruct (o_owner o) as [c|].
      * destruct HS as [_ HS]; eapply sreach_mono; eauto.
      * destruct (HS r H MC) as [x [Hx Rx]]. apply sr_step with x; [rewrite Gn; auto | eapply sreach_mono; eauto].
    + rewrite Go in H; auto. assert (cover s' j = cover s j) by (unfold cover, owner; rewrite Go; auto).
      unfold must_cover in MC. rewrite Go in MC; auto.
      rewrite H0. eapply sreach_mono; eauto. apply wf_cover; auto.
  - intros j c A O. rewrite RT. destruct (AL' j A) as [-> | A0].
    + unfold owner in O; rewrite Gn in O. rewrite O in HS. destruct HS as [HS _].
      split; [auto | split; auto].
      intros x Ax Hx. exfalso. destruct (AL' x Ax) as [-> | Ax0].
      * rewrite Gn in Hx. apply HE in Hx. destruct Hx as [Hx _]. apply alive_lt in Hx; unfold n in Hx; lia.
      * rewrite Go in Hx; auto. eapply NE; eauto.
    + unfold owner in O; rewrite Go in O; auto.
      destruct (wf_owner s W j c A0 O) as [H1 [H2 H3]]. split; [auto | split; auto].
      intros x Ax Hx. destruct (AL' x Ax) as [-> | Ax0].
      * rewrite Gn in Hx. apply HE in Hx. destruct Hx as [_ Hx]. unfold owner in Hx; congruence.
      * rewrite Go in Hx; auto.
  - intros x K. rewrite RT in K. apply AL. apply (wf_roots s W); auto.
  - intros j r H K.
    assert (T : o_kind (getd s r) = KFunc).
    { rewrite G in H, K. destruct (Nat.eqb_spec j n); [apply HT; auto | eapply wf_typed; eauto]. }
    rewrite G. destruct (Nat.eqb_spec r n); auto. subst r. rewrite Gd in T. discriminate.
Qed.

(* ------------------------------------------------------------------------------------------ *)
(* marking and collection *)

Lemma In_addall : forall N M x, In x (addall N M) <-> In x N \/ In x M.
Proof.
  induction N as [|a N IH]; intros M x; simpl.
  - tauto.
  - destruct (memb a (addall N M)) eqn:E.
    + rewrite IH. apply memb_In in E. apply IH in E. split; [tauto|].
      intros [[-> | H] | H]; tauto.
    + simpl. rewrite IH. tauto.
Qed.

Lemma In_succs : forall ed h M x, In x (succs ed h M) <-> exists i, In i M /\ In x (ed (nth i h dead_obj)).
Proof. intros; unfold succs; rewrite in_flat_map; tauto. Qed.

Lemma subsetb_incl : forall A B, subsetb A B = true -> incl A B.
Proof.
  unfold subsetb; intros A B H x K. rewrite forallb_forall in H. apply memb_In, H; auto.
Qed.

Lemma mark_spec : forall ed h fuel M M',
  mark ed fuel h M = Some M' ->
  incl M M' /\
  (forall i x, In i M' -> In x (ed (nth i h dead_obj)) -> In x M') /\
  (forall P : nat -> Prop, (forall i, In i M -> P i) ->
      (forall i x, P i -> In x (ed (nth i h dead_obj)) -> P x) -> forall i, In i M' -> P i) /\
  (forall i, In i M' -> In i M \/ exists x, In x M' /\ In i (ed (nth x h dead_obj))).
Proof.
  intros ed h; induction fuel as [|fuel IH]; intros M M' H; simpl in H;
    destruct (subsetb (succs ed h M) M) eqn:E.
  - inversion H; subst; clear H. apply subsetb_incl in E.
    split; [apply incl_refl|]. split; [|split; auto].
    intros i x Hi Hx. apply E. apply In_succs; eauto.
  - discriminate.
  - inversion H; subst; clear H. apply subsetb_incl in E.
    split; [apply incl_refl|]. split; [|split; auto].
    intros i x Hi Hx. apply E. apply In_succs; eauto.
  - apply IH in H. destruct H as [H1 [H2 [H3 H4]]].
    assert (I0 : incl M (addall (succs ed h M) M)) by (intros x K; apply In_addall; auto).
    split; [eapply incl_tran; eauto|]. split; [auto|]. split.
    + intros P PM PC i Hi. apply (H3 P); auto.
      intros j Hj. apply In_addall in Hj. destruct Hj as [Hj | Hj]; auto.
      apply In_succs in Hj. destruct Hj as [k [K1 K2]]. eapply PC; eauto.
    + intros i Hi. destruct (H4 i Hi) as [K | K]; auto.
      apply In_addall in K. destruct K as [K | K]; auto.
      apply In_succs in K. destruct K as [k [K1 K2]]. right; exists k; split; auto.
Qed.

Lemma kill_dead : kill dead_obj = dead_obj.
Proof. reflexivity. Qed.

Lemma nth_sweep : forall M h k j,
  nth j (sweep k h M) dead_obj = if memb (k + j) M then nth j h dead_obj else kill (nth j h dead_obj).
Proof.
  intros M; induction h as [|o r IH]; intros k j; simpl.
  - destruct j; destruct (memb _ M); reflexivity.
  - destruct j as [|j].
    + rewrite Nat.add_0_r. destruct (memb k M); reflexivity.
    + rewrite IH. replace (S k + j) with (k + S j) by lia. reflexivity.
Qed.

Lemma wf_gc : forall s, wf s -> wf (gc s).
Proof.
  intros s W. unfold gc. destruct (mark edges (S (length (heap s))) (heap s) (roots s)) as [M|] eqn:E; auto.
  apply mark_spec in E. destruct E as [M1 [M2 [M3 M4]]].
  set (s' := with_heap s (sweep 0 (heap s) M)).
  assert (G : forall j, getd s' j = if memb j M then getd s j else kill (getd s j)).
  { intro j. unfold getd, s'; simpl. rewrite nth_sweep. reflexivity. }
  assert (AL : forall j, alive s' j = true <-> alive s j = true /\ In j M).
  { intro j. unfold alive. rewrite G. destruct (memb j M) eqn:K.
    - apply memb_In in K. tauto.
    - simpl. split; [discriminate|]. intros [_ K']. apply memb_In in K'. congruence. }
  assert (ED : forall j, edges (getd s' j) = edges (getd s j)) by (intro j; rewrite G; destruct (memb j M); reflexivity).
  assert (SL : forall j, o_slots (getd s' j) = o_slots (getd s j)) by (intro j; rewrite G; destruct (memb j M); reflexivity).
  assert (OW : forall j, owner s' j = owner s j) by (intro j; unfold owner; rewrite G; destruct (memb j M); reflexivity).
  assert (KD : forall j, o_kind (getd s' j) = o_kind (getd s j)) by (intro j; rewrite G; destruct (memb j M); reflexivity).
  assert (VM : vis_mono s s') by (intros j x H; rewrite G; destruct (memb j M); auto).
  assert (CV : forall j, cover s' j = cover s j) by (intro; unfold cover; rewrite OW; auto).
  assert (RT : roots s' = roots s) by reflexivity.
  assert (MA : forall j, In j M -> alive s j = true).
  { apply (M3 (fun j => alive s j = true)).
    - intros j K. apply (wf_roots s W); auto.
    - intros j x A K. eapply wf_closed; eauto. }
  constructor.
  - intros i x A H. apply AL in A. destruct A as [A K]. rewrite ED in H. apply AL. split.
    + eapply wf_closed; eauto.
    + eapply M2; eauto.
  - intros i r A H MC. apply AL in A. destruct A as [A K]. rewrite SL in H. rewrite CV.
    unfold must_cover in MC; rewrite KD in MC.
    eapply sreach_mono; eauto. apply wf_cover; auto.
  - intros i c A O. apply AL in A. destruct A as [A K]. rewrite OW in O. rewrite RT.
    destruct (wf_owner s W i c A O) as [H1 [H2 H3]].
    assert (Kc : In c M).
    { destruct (M4 i K) as [K1 | [x [K1 K2]]]; [contradiction|].
      rewrite <- (H2 x (MA x K1) K2). auto. }
    split; [apply AL; auto | split; auto].
    intros x Ax Hx. apply AL in Ax. destruct Ax as [Ax _]. rewrite ED in Hx. auto.
  - intros x K. rewrite RT in K. apply AL. split; [apply (wf_roots s W); auto | apply M1; auto].
  - intros i r H K. rewrite KD in *. rewrite SL in H. eapply wf_typed; eauto.
Qed.

(* ------------------------------------------------------------------------------------------ *)
(* primitive mutations *)

Lemma wf_add_vis : forall s i x, wf s -> alive s x = true -> (owner s x = None \/ owner s x = Some i) ->
  wf (add_vis s i x) /\ ext s (add_vis s i x).
Proof.
  intros s i x W A O. unfold add_vis. apply wf_upd; auto.
  - simpl. intros y H; right; auto.
  - intros Ai. split.
    + intros y H. unfold edges in H; simpl in H. destruct H as [<- | H]; [split; auto; tauto|].
      split; [eapply wf_closed; eauto | left; auto].
    + simpl; auto.
Qed.

Lemma wf_add_reg : forall s i x, wf s -> alive s x = true -> (owner s x = None \/ owner s x = Some i) ->
  wf (add_reg s i x) /\ ext s (add_reg s i x).
Proof.
  intros s i x W A O. unfold add_reg. apply wf_upd; auto.
  - simpl. apply incl_refl.
  - intros Ai. split.
    + intros y H. unfold edges in H; simpl in H. apply in_app_or in H. destruct H as [H | [<- | H]].
      * split; [eapply wf_closed; eauto; apply in_vis_edges; auto | left; apply in_vis_edges; auto].
      * split; auto; tauto.
      * split; [eapply wf_closed; eauto; unfold edges; apply in_or_app; auto | left; unfold edges; apply in_or_app; auto].
    + simpl; auto.
Qed.

(* any update that keeps o_vis, o_slots, owner and alive and only shrinks o_reg *)
Lemma wf_shrink : forall s i f, wf s ->
  (forall o, o_alive (f o) = o_alive o /\ o_owner (f o) = o_owner o /\ o_vis (f o) = o_vis o /\
             o_slots (f o) = o_slots o /\ incl (o_reg (f o)) (o_reg o) /\ o_kind (f o) = o_kind o) ->
  wf (upd_obj s i f) /\ ext s (upd_obj s i f).
Proof.
  intros s i f W H. destruct (H (getd s i)) as [H1 [H2 [H3 [H4 [H5 H6]]]]].
  apply wf_upd; auto.
  - rewrite H3; apply incl_refl.
  - intros r K. rewrite H4 in K; auto.
  - intros Ai. split.
    + intros y K. assert (In y (edges (getd s i))).
      { unfold edges in *. rewrite H3 in K. apply in_app_or in K. apply in_or_app. destruct K; auto. }
      split; [eapply wf_closed; eauto | auto].
    + intros r K _. rewrite H4 in K; auto.
Qed.

Lemma wf_del_reg : forall s i x, wf s -> wf (del_reg s i x) /\ ext s (del_reg s i x).
Proof.
  intros; unfold del_reg; apply wf_shrink; auto. intro o; simpl.
  repeat split; auto. intros y K; eapply remove_nat_In; eauto.
Qed.

Lemma wf_set_closed : forall s i b, wf s -> wf (upd_obj s i (set_closed b)) /\ ext s (upd_obj s i (set_closed b)).
Proof. intros; apply wf_shrink; auto. intro o; simpl. repeat split; auto. apply incl_refl. Qed.

Lemma wf_set_dir : forall s i l, wf s -> wf (upd_obj s i (set_dir l)) /\ ext s (upd_obj s i (set_dir l)).
Proof. intros; apply wf_shrink; auto. intro o; simpl. repeat split; auto. apply incl_refl. Qed.

Lemma In_set_nth : forall A (l : list A) k v x, In x (set_nth l k v) -> In x l \/ x = v.
Proof.
  induction l as [|a l IH]; intros k v x H; simpl in H.
  - destruct k; destruct H.
  - destruct k; simpl in H.
    + destruct H; [right; auto | left; right; auto].
    + destruct H; [left; left; auto|]. destruct (IH _ _ _ H); [left; right; auto | right; auto].
Qed.

(* a write into a table or a mutable global: nothing to show unless the invariant is the strict one *)
Lemma wf_set_slot : forall s h k v, wf s ->
  writable (o_kind (getd s h)) = true ->
  (strict = true -> forall r, v = Some r -> alive s h = true -> sreach s (cover s h) r) ->
  wf (set_slot s h k v) /\ ext s (set_slot s h k v).
Proof.
  intros s h k v W WR H. unfold set_slot. apply wf_upd; auto.
  - simpl; apply incl_refl.
  - intros A. split.
    + intros y K. split; [eapply wf_closed; eauto | left; auto].
    + simpl. intros r K MC. apply In_set_nth in K. destruct K; [left; auto | right].
      destruct MC as [MC | MC]; [auto | rewrite WR in MC; discriminate].
Qed.

(* ------------------------------------------------------------------------------------------ *)
(* guards *)

Lemma inst_ok_spec : forall s i, wf s -> inst_ok s i = true ->
  alive s i = true /\ In (me_of s i) (o_vis (getd s i)) /\ owner s (me_of s i) = None /\ alive s (me_of s i) = true.
Proof.
  intros s i W H. unfold inst_ok in H. apply andb_true_iff in H; destruct H as [H _].
  repeat (apply andb_true_iff in H; destruct H as [H ?]).
  apply memb_In in H1. assert (owner s (me_of s i) = None) by (unfold owner; destruct (o_owner _); auto; discriminate).
  repeat split; auto. eapply wf_closed; eauto. apply in_vis_edges; auto.
Qed.

Lemma kind_eqb_eq : forall a b, kind_eqb a b = true -> a = b.
Proof. intros a b H; destruct a; destruct b; auto; discriminate. Qed.

Lemma rec_ok_spec : forall s i f, wf s -> rec_ok s i f = true ->
  inst_ok s i = true /\ In (rec_of s i f) (o_vis (getd s (me_of s i))) /\ sreach s i (rec_of s i f) /\
  o_kind (getd s (rec_of s i f)) = KFunc.
Proof.
  intros s i f W H. unfold rec_ok in H.
  apply andb_true_iff in H; destruct H as [H HK]. apply kind_eqb_eq in HK.
  apply andb_true_iff in H; destruct H as [H H0]. apply andb_true_iff in H; destruct H as [H H1].
  apply memb_In in H0. destruct (inst_ok_spec s i W H) as [_ [K _]].
  repeat split; auto. econstructor; eauto. apply sreach_edge; auto.
Qed.

Lemma listsb_spec : forall s i h, listsb s i h = true <-> In i (o_vis (getd s h)) \/ In (me_of s i) (o_vis (getd s h)).
Proof. intros. unfold listsb. rewrite orb_true_iff, !memb_In. tauto. Qed.

Lemma holder_ok_spec : forall s i t, wf s -> holder_ok s i t = true ->
  inst_ok s i = true /\ In (holder_of s i t) (o_vis (getd s i)) /\
  (owner s (holder_of s i t) = None -> In i (o_vis (getd s (holder_of s i t))) \/ In (me_of s i) (o_vis (getd s (holder_of s i t)))).
Proof.
  intros s i t W H. unfold holder_ok, holder_acc, involvedb in H.
  apply andb_true_iff in H; destruct H as [H H0]. apply andb_true_iff in H; destruct H as [H H1].
  apply andb_true_iff in H; destruct H as [H H2].
  apply memb_In in H1. repeat split; auto.
  intros K. unfold owner in K. rewrite K in H0. apply listsb_spec; auto.
Qed.

Lemma holder_acc_spec : forall s i t, wf s -> holder_acc s i t = true ->
  inst_ok s i = true /\ In (holder_of s i t) (o_vis (getd s i)).
Proof.
  intros s i t W H. unfold holder_acc in H.
  apply andb_true_iff in H; destruct H as [H H1]. apply andb_true_iff in H; destruct H as [H H2].
  apply memb_In in H1. split; auto.
Qed.

Lemma holder_wr_spec : forall s i t, holder_wr s i t = true ->
  holder_acc s i t = true /\ writable (o_kind (getd s (holder_of s i t))) = true.
Proof. intros s i t H. unfold holder_wr in H. apply andb_true_iff in H; auto. Qed.

Lemma holder_ok_split : forall s i t, holder_acc s i t = true -> involvedb s i (holder_of s i t) = true -> holder_ok s i t = true.
Proof. intros; unfold holder_ok; apply andb_true_iff; auto. Qed.

(* the module engine of an instance points back to it *)
Lemma inst_ok_back : forall s i, inst_ok s i = true -> In i (o_vis (getd s (me_of s i))).
Proof. intros s i H. unfold inst_ok in H. apply andb_true_iff in H; destruct H as [_ H]. apply memb_In; auto. Qed.

(* a holder that lists the instance or its module engine reaches whatever the instance reaches *)
Lemma lists_covers : forall s i h r, inst_ok s i = true ->
  In i (o_vis (getd s h)) \/ In (me_of s i) (o_vis (getd s h)) -> sreach s i r -> sreach s h r.
Proof.
  intros s i h r I [K | K] R.
  - econstructor; eauto.
  - econstructor; [exact K|]. econstructor; [apply inst_ok_back; auto | exact R].
Qed.

(* whatever the instance reaches structurally is covered for each of its holders *)
Lemma holder_covers : forall s i t r, wf s -> holder_ok s i t = true -> sreach s i r ->
  sreach s (cover s (holder_of s i t)) r.
Proof.
  intros s i t r W H R. destruct (holder_ok_spec s i t W H) as [I [Hv Hi]].
  destruct (inst_ok_spec s i W I) as [A _].
  unfold cover. destruct (owner s (holder_of s i t)) eqn:E.
  - assert (Ah : alive s (holder_of s i t) = true) by (eapply wf_closed; eauto using in_vis_edges).
    destruct (wf_owner s W _ n Ah E) as [_ [U _]]. rewrite <- (U i A (in_vis_edges _ _ Hv)). auto.
  - eapply lists_covers; eauto.
Qed.

Lemma nth_Some_In : forall (l : list (option nat)) k r, nth k l None = Some r -> In (Some r) l.
Proof.
  intros l k r H. destruct (Nat.lt_ge_cases k (length l)).
  - rewrite <- H. apply nth_In; auto.
  - rewrite nth_overflow in H; auto; discriminate.
Qed.

Lemma wf_set_ref : forall s i t k f, wf s -> wf (set_ref s i t k f) /\ ext s (set_ref s i t k f).
Proof.
  intros s i t k f W. unfold set_ref.
  destruct (holder_ok s i t && holder_wr s i t && rec_ok s i f) eqn:E; [|split; auto using ext_refl].
  apply andb_true_iff in E; destruct E as [E E2]. apply andb_true_iff in E; destruct E as [E1 E3].
  apply wf_set_slot; auto. { apply holder_wr_spec; auto. }
  intros _ r Hr _. inversion Hr; subst.
  apply holder_covers; auto. apply rec_ok_spec; auto.
Qed.

(* an element item / initialiser `global.get g` of an imported IMMUTABLE global: what the global holds is covered
   in either strength of the invariant *)
Lemma wf_copy_ref : forall s i t k ts, wf s -> wf (copy_ref s i t k ts) /\ ext s (copy_ref s i t k ts).
Proof.
  intros s i t k ts W. unfold copy_ref.
  destruct (holder_ok s i t && holder_wr s i t && holder_acc s i ts && kind_eqb (o_kind (getd s (holder_of s i ts))) KGlobalC) eqn:E;
    [|split; auto using ext_refl].
  apply andb_true_iff in E; destruct E as [E E4]. apply andb_true_iff in E; destruct E as [E E3].
  apply andb_true_iff in E; destruct E as [E1 E2]. apply kind_eqb_eq in E4.
  apply wf_set_slot; auto. { apply holder_wr_spec; auto. }
  intros _ r Hr _.
  apply holder_covers; auto.
  destruct (holder_acc_spec s i ts W E3) as [I Hv]. destruct (inst_ok_spec s i W I) as [A _].
  eapply reach_slot; eauto. { eapply nth_Some_In; eauto. }
  right. rewrite E4. reflexivity.
Qed.

(* ------------------------------------------------------------------------------------------ *)
(* the non-allocating operations *)

Lemma wf_close_instances : forall l s, wf s -> wf (close_instances s l) /\ ext s (close_instances s l).
Proof.
  unfold close_instances. induction l as [|a l IH]; intros s W; simpl.
  - split; auto using ext_refl.
  - destruct (kind_eqb (o_kind (getd s a)) KInstance).
    + destruct (wf_set_closed s a true W) as [W1 E1]. destruct (IH _ W1) as [W2 E2].
      split; auto. eapply ext_trans; eauto.
    + apply IH; auto.
Qed.

Lemma wf_close_engine : forall s, wf s -> wf (close_engine s) /\ ext s (close_engine s).
Proof.
  intros; unfold close_engine; apply wf_shrink; auto. intro o; simpl. repeat split; auto. intros x K; destruct K.
Qed.

Lemma wf_remove_host : forall s x, wf s -> wf (with_host s (remove_nat x (host s))).
Proof. intros. apply wf_host; auto. intros y K. left. eapply remove_nat_In; eauto. Qed.

(* ------------------------------------------------------------------------------------------ *)
(* allocating operations *)

Lemma ext_alive : forall s s' i, ext s s' -> alive s i = true -> alive s' i = true.
Proof. intros s s' i [H _] A; apply H; auto. Qed.
Lemma ext_owner : forall s s' i, ext s s' -> alive s i = true -> owner s' i = owner s i.
Proof. intros s s' i [H _] A; apply H; auto. Qed.
Lemma ext_sreach : forall s s' a b, ext s s' -> sreach s a b -> sreach s' a b.
Proof. intros s s' a b [_ H]; apply sreach_mono; auto. Qed.
Lemma ext_vis : forall s s' i x, ext s s' -> In x (o_vis (getd s i)) -> In x (o_vis (getd s' i)).
Proof. intros s s' i x [_ H] K; apply H; auto. Qed.

Lemma add_vis_In : forall s i x, i < length (heap s) -> In x (o_vis (getd (add_vis s i x) i)).
Proof.
  intros s i x L. unfold add_vis. rewrite getd_upd. rewrite Nat.eqb_refl.
  destruct (Nat.ltb_spec i (length (heap s))); [simpl; auto | lia].
Qed.

Lemma wf_alloc_owned : forall contents s c k,
  wf s -> alive s c = true -> k <> KGlobalC ->
  (forall sl r, In sl contents -> In (Some r) sl -> sreach s c r) ->
  wf (fst (alloc_owned s c k contents)) /\ ext s (fst (alloc_owned s c k contents)) /\
  (forall x, In x (snd (alloc_owned s c k contents)) ->
     In x (o_vis (getd (fst (alloc_owned s c k contents)) c)) /\ o_kind (getd (fst (alloc_owned s c k contents)) x) = k /\
     alive (fst (alloc_owned s c k contents)) x = true).
Proof.
  induction contents as [|sl rest IH]; intros s c k W A NK H; simpl.
  - split; [auto | split; [apply ext_refl | intros x []]].
  - set (o := mkObj k [] [] sl (Some c) [] true false).
    destruct (wf_alloc s o W) as [W1 [E1 [A1 G1]]]; auto.
    { intros x K; destruct K. }
    { simpl. split; auto. intros r K. eapply H; eauto. left; auto. }
    { simpl. intros K; contradiction. }
    change (fst (alloc s o)) with (with_heap s (heap s ++ [o])) in *.
    set (s1 := with_heap s (heap s ++ [o])) in *.
    destruct (wf_add_vis s1 c (length (heap s)) W1 A1) as [W2 E2].
    { right. unfold owner. rewrite G1. reflexivity. }
    assert (E12 : ext s (add_vis s1 c (length (heap s)))) by (eapply ext_trans; eauto).
    assert (Ac2 : alive (add_vis s1 c (length (heap s))) c = true) by (eapply ext_alive; eauto).
    destruct (IH (add_vis s1 c (length (heap s))) c k W2) as [W3 [E3 X3]]; auto.
    { intros sl' r K1 K2. eapply ext_sreach; eauto. eapply H; eauto. right; auto. }
    assert (In0 : In (length (heap s)) (o_vis (getd (add_vis s1 c (length (heap s))) c))).
    { apply add_vis_In. apply alive_lt. eapply ext_alive; eauto. }
    assert (An : alive (add_vis s1 c (length (heap s))) (length (heap s)) = true) by (exact (ext_alive s1 _ _ E2 A1)).
    assert (Kn : o_kind (getd (add_vis s1 c (length (heap s))) (length (heap s))) = k).
    { rewrite (ext_kind s1 _ _ E2 A1). rewrite G1; reflexivity. }
    destruct (alloc_owned (add_vis s1 c (length (heap s))) c k rest) as [s3 xs] eqn:EQ. simpl in *.
    split; auto. split; [eapply ext_trans; eauto|].
    intros x [<- | K]; [|apply X3; auto].
    split; [eapply ext_vis; eauto|]. split; [rewrite (ext_kind _ s3 _ E3 An); auto | eapply ext_alive; eauto].
Qed.

Lemma wf_alloc_exported : forall n s i size,
  wf s -> alive s i = true -> owner s i = None ->
  wf (fst (alloc_exported s i n size)) /\ ext s (fst (alloc_exported s i n size)).
Proof.
  induction n as [|n IH]; intros s i size W A O; simpl.
  - split; auto using ext_refl.
  - set (o := mkObj KTable [i] [] (repeat None size) None [] true false).
    destruct (wf_alloc s o W) as [W1 [E1 [A1 G1]]]; auto.
    { intros x K. unfold edges in K; simpl in K. destruct K as [<- | []]. auto. }
    { simpl. intros r K. apply repeat_spec in K. discriminate. }
    { simpl; intros K; discriminate. }
    change (fst (alloc s o)) with (with_heap s (heap s ++ [o])) in *.
    set (s1 := with_heap s (heap s ++ [o])) in *.
    destruct (wf_add_vis s1 i (length (heap s)) W1 A1) as [W2 E2].
    { left. unfold owner. rewrite G1. reflexivity. }
    assert (E12 : ext s (add_vis s1 i (length (heap s)))) by (eapply ext_trans; eauto).
    destruct (IH (add_vis s1 i (length (heap s))) i size W2) as [W3 E3].
    { eapply ext_alive; eauto. }
    { rewrite (ext_owner s); eauto. }
    destruct (alloc_exported (add_vis s1 i (length (heap s))) i n size) as [s3 xs] eqn:EQ. simpl in *.
    split; auto. eapply ext_trans; eauto.
Qed.

Lemma wf_link_tables : forall ts s i,
  wf s -> alive s i = true -> owner s i = None ->
  (forall t, In t ts -> alive s t = true /\ owner s t = None) ->
  wf (link_tables s i ts) /\ ext s (link_tables s i ts).
Proof.
  induction ts as [|t ts IH]; intros s i W A O H; simpl.
  - split; auto using ext_refl.
  - destruct (H t (or_introl eq_refl)) as [At Ot].
    destruct (wf_add_vis s i t W At (or_introl Ot)) as [W1 E1].
    destruct (wf_add_vis (add_vis s i t) t i W1) as [W2 E2].
    { eapply ext_alive; eauto. }
    { left. rewrite (ext_owner s); eauto. }
    assert (E : ext s (add_vis (add_vis s i t) t i)) by (eapply ext_trans; eauto).
    destruct (IH (add_vis (add_vis s i t) t i) i W2) as [W3 E3].
    { eapply ext_alive; eauto. }
    { rewrite (ext_owner s); eauto. }
    { intros t' K. destruct (H t' (or_intror K)). split; [eapply ext_alive; eauto | rewrite (ext_owner s); eauto]. }
    split; auto. eapply ext_trans; eauto.
Qed.

Lemma wf_link_globals : forall gs s i,
  wf s -> (forall g, In g gs -> alive s g = true /\ owner s g = None) ->
  wf (link_globals s i gs) /\ ext s (link_globals s i gs).
Proof.
  induction gs as [|g gs IH]; intros s i W H; simpl.
  - split; auto using ext_refl.
  - destruct (H g (or_introl eq_refl)) as [Ag Og].
    destruct (wf_add_vis s i g W Ag (or_introl Og)) as [W1 E1].
    destruct (IH (add_vis s i g) i W1) as [W2 E2].
    { intros g' K. destruct (H g' (or_intror K)). split; [eapply ext_alive; eauto | rewrite (ext_owner s); eauto]. }
    split; auto. eapply ext_trans; eauto.
Qed.

Lemma link_globals_vis : forall gs s i, wf s -> i < length (heap s) ->
  (forall g, In g gs -> alive s g = true /\ owner s g = None) ->
  forall g, In g gs -> In g (o_vis (getd (link_globals s i gs) i)).
Proof.
  induction gs as [|g gs IH]; intros s i W L H x Hx; simpl in *; [contradiction|].
  destruct (H g (or_introl eq_refl)) as [Ag Og].
  destruct (wf_add_vis s i g W Ag (or_introl Og)) as [W1 E1].
  assert (H' : forall g', In g' gs -> alive (add_vis s i g) g' = true /\ owner (add_vis s i g) g' = None).
  { intros g' K. destruct (H g' (or_intror K)). split; [eapply ext_alive; eauto | rewrite (ext_owner s); eauto]. }
  assert (L' : i < length (heap (add_vis s i g))) by (unfold add_vis, upd_obj; simpl; rewrite length_upd; auto).
  destruct Hx as [<- | Hx]; [|apply IH; auto].
  destruct (wf_link_globals gs (add_vis s i g) i W1 H') as [_ E2].
  eapply ext_vis; eauto. apply add_vis_In; auto.
Qed.

(* the exported globals. Needed of a global with a non-null initialiser - of every one under the strict invariant, of the
   IMMUTABLE ones under the weak - : it points to the module engine (g_me) *)
Definition gspec_ok (g : gspec) : Prop :=
  (strict = true \/ g_mut g = false) -> ginit_null (g_init g) = true \/ g_me g = true.

Lemma wf_alloc_globals : forall gs s i me recs gimp,
  wf s -> alive s i = true -> alive s me = true -> owner s me = None ->
  In i (o_vis (getd s me)) ->
  (forall r, In r recs -> In r (o_vis (getd s me)) /\ o_kind (getd s r) = KFunc) ->
  (forall g, In g gimp -> In g (o_vis (getd s i))) ->
  (forall g, In g gs -> gspec_ok g) ->
  wf (fst (alloc_globals s i me recs gimp gs)) /\ ext s (fst (alloc_globals s i me recs gimp gs)).
Proof.
  induction gs as [|g gs IH]; intros s i me recs gimp W A Am Om Bk HR HG OK; simpl.
  - split; auto using ext_refl.
  - set (o := mkObj (if g_mut g then KGlobal else KGlobalC) (if g_me g then [me] else []) []
                    [ginit_val s recs gimp (g_init g)] None [] true false).
    (* what the initialiser evaluates to is a function record the module engine reaches *)
    assert (V : forall r, ginit_val s recs gimp (g_init g) = Some r -> sreach s me r /\ o_kind (getd s r) = KFunc).
    { intros r Hr. destruct (g_init g) as [|f|q]; simpl in Hr; [discriminate | |].
      - destruct (Nat.ltb_spec f (length recs)); [|discriminate]. inversion Hr; subst.
        destruct (HR (nth f recs 0)) as [K1 K2]; [apply nth_In; auto|]. split; auto. apply sreach_edge; auto.
      - destruct ((q <? length gimp) && kind_eqb (o_kind (getd s (nth q gimp 0))) KGlobalC) eqn:E; [|discriminate].
        apply andb_true_iff in E; destruct E as [E1 E2]. apply Nat.ltb_lt in E1. apply kind_eqb_eq in E2.
        assert (Gq : In (nth q gimp 0) (o_vis (getd s i))) by (apply HG; apply nth_In; auto).
        assert (Sr : In (Some r) (o_slots (getd s (nth q gimp 0)))) by (eapply nth_Some_In; eauto).
        split; [|eapply wf_typed; eauto].
        econstructor; [exact Bk|]. eapply reach_slot; eauto. right. rewrite E2; reflexivity. }
    destruct (wf_alloc s o W) as [W1 [E1 [A1 G1]]]; auto.
    { intros x K. unfold edges in K; simpl in K. rewrite app_nil_r in K.
      destruct (g_me g); [destruct K as [<- | []]; auto | destruct K]. }
    { simpl. intros r [K | []] MC. inversion K as [K'].
      destruct (V r K') as [R _].
      assert (M : g_me g = true).
      { assert (C : strict = true \/ g_mut g = false).
        { destruct MC as [MC | MC]; auto. destruct (g_mut g); auto. }
        destruct (OK g (or_introl eq_refl) C) as [N | N]; auto.
        destruct (g_init g); simpl in *; discriminate. }
      rewrite M. exists me. split; simpl; auto. }
    { simpl. intros _ r [K | []]. inversion K as [K']. apply (V r K'). }
    change (fst (alloc s o)) with (with_heap s (heap s ++ [o])) in *.
    set (s1 := with_heap s (heap s ++ [o])) in *.
    destruct (wf_add_vis s1 i (length (heap s)) W1 A1) as [W2 E2].
    { left. unfold owner. rewrite G1. reflexivity. }
    assert (E12 : ext s (add_vis s1 i (length (heap s)))) by (eapply ext_trans; eauto).
    destruct (IH (add_vis s1 i (length (heap s))) i me recs gimp W2) as [W3 E3].
    { eapply ext_alive; eauto. }
    { eapply ext_alive; eauto. }
    { rewrite (ext_owner s); eauto. }
    { eapply ext_vis; eauto. }
    { intros r K. destruct (HR r K) as [K1 K2]. split; [eapply ext_vis; eauto|].
      rewrite (ext_kind s); eauto. eapply wf_closed; eauto. apply in_vis_edges; auto. }
    { intros g' K. eapply ext_vis; eauto. }
    { intros g' K. apply OK. right; auto. }
    destruct (alloc_globals (add_vis s1 i (length (heap s))) i me recs gimp gs) as [s3 xs] eqn:EQ. simpl in *.
    split; auto. eapply ext_trans; eauto.
Qed.

Lemma wf_fold_set_ref : forall els s i, wf s ->
  wf (fold_left (fun st e => let '(t, k, f) := e in set_ref st i t k f) els s).
Proof.
  induction els as [|[[t k] f] els IH]; intros s i W; simpl; auto.
  apply IH. apply wf_set_ref; auto.
Qed.

Lemma wf_fold_copy_ref : forall els s i, wf s ->
  wf (fold_left (fun st e => let '(t, k, ts) := e in copy_ref st i t k ts) els s).
Proof.
  induction els as [|[[t k] ts] els IH]; intros s i W; simpl; auto.
  apply IH. apply wf_copy_ref; auto.
Qed.

Lemma wf_compile : forall s, wf s -> wf (compile s).
Proof.
  intros s W. unfold compile.
  destruct (alive s RUNTIME && open s RUNTIME && alive s ENGINE && open s ENGINE && is_none (o_owner (getd s ENGINE))) eqn:E; auto.
  apply andb_true_iff in E; destruct E as [E E5]. apply andb_true_iff in E; destruct E as [E E4].
  apply andb_true_iff in E; destruct E as [E E3].
  assert (OE : owner s ENGINE = None) by (unfold owner; destruct (o_owner (getd s ENGINE)); auto; discriminate).
  set (o := mkObj KCompiled [] [ENGINE] [] None [] true false).
  destruct (wf_alloc s o W) as [W1 [E1 [A1 G1]]]; auto.
  { intros x K. unfold edges in K; simpl in K. destruct K as [<- | []]. auto. }
  { simpl. intros r K; destruct K. }
  { simpl; intros K; discriminate. }
  unfold alloc. cbv beta iota zeta.
  change (fst (alloc s o)) with (with_heap s (heap s ++ [o])) in *.
  set (s1 := with_heap s (heap s ++ [o])) in *.
  destruct (wf_add_reg s1 ENGINE (length (heap s)) W1 A1) as [W2 E2].
  { left. unfold owner. rewrite G1. reflexivity. }
  apply wf_host; auto.
  intros x K. change (host (add_reg s1 ENGINE (length (heap s)))) with (host s1). destruct K as [<- | K]; auto.
  right. split; [eapply ext_alive; eauto|]. rewrite (ext_owner s1); eauto. unfold owner; rewrite G1; reflexivity.
Qed.

Lemma is_none_spec : forall A (o : option A), is_none o = true -> o = None.
Proof. intros A [a|] H; [discriminate | auto]. Qed.

Lemma impf_ok_spec : forall s p, wf s -> impf_ok s p = true ->
  alive s (me_of s (fst p)) = true /\ owner s (me_of s (fst p)) = None /\
  (forall r, In (Some r) (o_slots (getd s (rec_of s (fst p) (snd p)))) -> sreach s (me_of s (fst p)) r).
Proof.
  intros s [j n] W H. unfold impf_ok in H. simpl.
  apply andb_true_iff in H; destruct H as [H _]. apply andb_true_iff in H; destruct H as [H _].
  destruct (rec_ok_spec s j n W H) as [I [K [_ KF]]]. destruct (inst_ok_spec s j W I) as [_ [_ [O A]]].
  repeat split; auto. intros r Hr. eapply reach_slot; eauto. right. rewrite KF. reflexivity.
Qed.

Lemma impt_ok_spec : forall s p, wf s -> impt_ok s p = true ->
  alive s (holder_of s (fst p) (snd p)) = true /\ owner s (holder_of s (fst p) (snd p)) = None.
Proof.
  intros s [j t] W H. unfold impt_ok in H. simpl.
  apply andb_true_iff in H; destruct H as [H O]. apply andb_true_iff in H; destruct H as [H _].
  apply andb_true_iff in H; destruct H as [H _]. apply andb_true_iff in H; destruct H as [H _].
  destruct (holder_ok_spec s j t W H) as [I [K _]]. destruct (inst_ok_spec s j W I) as [A _].
  split; [eapply wf_closed; eauto using in_vis_edges | apply is_none_spec; auto].
Qed.

Lemma impg_ok_spec : forall s p, wf s -> impg_ok s p = true ->
  alive s (holder_of s (fst p) (snd p)) = true /\ owner s (holder_of s (fst p) (snd p)) = None.
Proof.
  intros s [j t] W H. unfold impg_ok in H. simpl.
  apply andb_true_iff in H; destruct H as [H O]. apply andb_true_iff in H; destruct H as [H _].
  apply andb_true_iff in H; destruct H as [H _]. apply andb_true_iff in H; destruct H as [H _].
  destruct (holder_acc_spec s j t W H) as [I K]. destruct (inst_ok_spec s j W I) as [A _].
  split; [eapply wf_closed; eauto using in_vis_edges | apply is_none_spec; auto].
Qed.

Lemma length_upd_obj : forall s i f, length (heap (upd_obj s i f)) = length (heap s).
Proof. intros; unfold upd_obj; simpl; apply length_upd. Qed.

Lemma wf_instantiate : forall s sp, wf s -> (forall g, In g (sp_expg sp) -> gspec_ok g) -> wf (instantiate s sp).
Proof.
  intros s sp W GOK. unfold instantiate. destruct (can_instantiate s sp) eqn:C; auto.
  unfold can_instantiate in C.
  apply andb_true_iff in C; destruct C as [C CG].
  apply andb_true_iff in C; destruct C as [C CT]. apply andb_true_iff in C; destruct C as [C CF].
  apply andb_true_iff in C; destruct C as [C OR]. apply andb_true_iff in C; destruct C as [C OC].
  apply andb_true_iff in C; destruct C as [C _]. apply andb_true_iff in C; destruct C as [C _].
  apply andb_true_iff in C; destruct C as [C AC]. apply andb_true_iff in C; destruct C as [AR _].
  apply is_none_spec in OR. apply is_none_spec in OC.
  rewrite forallb_forall in CF, CT, CG.
  (* the instance object *)
  set (oI := mkObj KInstance [] [RUNTIME] [] None [] true false).
  destruct (wf_alloc s oI W) as [W1 [E1 [A1 G1]]]; auto.
  { intros x K. unfold edges in K; simpl in K. destruct K as [<- | []]. auto. }
  { simpl. intros r K; destruct K. }
  { simpl; intros K; discriminate. }
  unfold alloc at 1. cbv beta iota.
  change (fst (alloc s oI)) with (with_heap s (heap s ++ [oI])) in *.
  set (s1 := with_heap s (heap s ++ [oI])) in *. set (ni := length (heap s)) in *.
  assert (O1 : owner s1 ni = None) by (unfold owner; rewrite G1; reflexivity).
  assert (NI : forall t, ext s1 t -> alive t ni = true /\ owner t ni = None).
  { intros t Et. split; [apply (ext_alive s1 t); auto | rewrite (ext_owner s1 t); auto]. }
  (* the module engine *)
  set (oM := mkObj KModEng (ni :: sp_cm sp :: map (fun p : nat * nat => me_of s (fst p)) (sp_impf sp)) [] [] None [] true false).
  destruct (wf_alloc s1 oM W1) as [W2 [E2 [A2 G2]]]; auto.
  { intros x K. unfold edges in K; simpl in K. rewrite app_nil_r in K. destruct K as [<- | [<- | K]]; auto.
    - split; [eapply ext_alive; eauto | rewrite (ext_owner s); eauto].
    - apply in_map_iff in K. destruct K as [p [<- Kp]].
      destruct (impf_ok_spec s p W (CF p Kp)) as [Ap [Op _]].
      split; [eapply ext_alive; eauto | rewrite (ext_owner s); eauto]. }
  { simpl. intros r K; destruct K. }
  { simpl; intros K; discriminate. }
  unfold alloc at 1. cbv beta iota.
  change (fst (alloc s1 oM)) with (with_heap s1 (heap s1 ++ [oM])) in *.
  set (s2 := with_heap s1 (heap s1 ++ [oM])) in *. set (nme := length (heap s1)) in *.
  assert (O2 : owner s2 nme = None) by (unfold owner; rewrite G2; reflexivity).
  destruct (wf_add_vis s2 ni nme W2 A2 (or_introl O2)) as [W3 E3].
  set (s3 := add_vis s2 ni nme) in *.
  assert (E03 : ext s s3) by (apply (ext_trans s s2 s3); auto; apply (ext_trans s s1 s2); auto).
  assert (V3 : forall x, In x (o_vis oM) -> In x (o_vis (getd s3 nme))).
  { intros x K. apply (ext_vis s2 s3 nme x E3). rewrite G2; auto. }
  assert (NM : forall t, ext s3 t -> alive t nme = true /\ owner t nme = None /\ In ni (o_vis (getd t nme))).
  { intros t Et. assert (A3 : alive s3 nme = true) by (apply (ext_alive s2 s3); auto).
    split; [apply (ext_alive s3 t); auto|]. split; [rewrite (ext_owner s3 t); auto; rewrite (ext_owner s2 s3); auto|].
    apply (ext_vis s3 t); auto. apply V3; simpl; auto. }
  (* function records *)
  match goal with |- context [alloc_owned s3 nme KFunc ?c] => set (codes := c) end.
  destruct (wf_alloc_owned codes s3 nme KFunc W3) as [W4 [E4 X4]].
  { apply (ext_alive s2 s3); auto. }
  { discriminate. }
  { intros sl r K Kr. unfold codes in K. apply in_app_or in K. destruct K as [K | K].
    - apply in_map_iff in K. destruct K as [p [<- Kp]].
      destruct (impf_ok_spec s p W (CF p Kp)) as [_ [_ R]].
      econstructor; [apply V3; simpl; right; right; apply in_map_iff; exists p; split; eauto|].
      eapply ext_sreach; eauto.
    - apply repeat_spec in K. subst sl. destruct Kr as [Kr | []]. inversion Kr; subst.
      apply sreach_edge. apply V3; simpl; auto. }
  destruct (alloc_owned s3 nme KFunc codes) as [s4 recs] eqn:Q4. simpl fst in *. simpl snd in *.
  assert (E14 : ext s1 s4) by (apply (ext_trans s1 s3 s4); auto; apply (ext_trans s1 s2 s3); auto).
  (* exported tables, private tables, globals *)
  destruct (wf_alloc_exported (sp_nexp sp) s4 ni (sp_size sp) W4) as [W5 E5].
  { apply (NI s4 E14). } { apply (NI s4 E14). }
  destruct (alloc_exported s4 ni (sp_nexp sp) (sp_size sp)) as [s5 texp] eqn:Q5. simpl fst in *.
  assert (E15 : ext s1 s5) by (apply (ext_trans s1 s4 s5); auto).
  destruct (wf_alloc_owned (repeat (repeat None (sp_size sp)) (sp_npriv sp)) s5 ni KTable W5) as [W6 [E6 _]].
  { apply (NI s5 E15). }
  { discriminate. }
  { intros sl r K Kr. apply repeat_spec in K. subst sl. apply repeat_spec in Kr. discriminate. }
  destruct (alloc_owned s5 ni KTable (repeat (repeat None (sp_size sp)) (sp_npriv sp))) as [s6 tpriv] eqn:Q6. simpl fst in *.
  assert (E16 : ext s1 s6) by (apply (ext_trans s1 s5 s6); auto).
  destruct (wf_alloc_owned (repeat [None] (sp_nglob sp)) s6 ni KGlobal W6) as [W7 [E7 _]].
  { apply (NI s6 E16). }
  { discriminate. }
  { intros sl r K Kr. apply repeat_spec in K. subst sl. destruct Kr as [Kr | []]. discriminate. }
  destruct (alloc_owned s6 ni KGlobal (repeat [None] (sp_nglob sp))) as [s7 globs] eqn:Q7. simpl fst in *.
  assert (E17 : ext s1 s7) by (apply (ext_trans s1 s6 s7); auto).
  assert (E07 : ext s s7) by (apply (ext_trans s s1 s7); auto).
  assert (E47 : ext s4 s7) by (apply (ext_trans s4 s5 s7); auto; apply (ext_trans s5 s6 s7); auto).
  (* imported tables *)
  set (timp := map (fun p : nat * nat => holder_of s (fst p) (snd p)) (sp_impt sp)).
  destruct (wf_link_tables timp s7 ni W7) as [W8 E8].
  { apply (NI s7 E17). } { apply (NI s7 E17). }
  { intros t K. unfold timp in K. apply in_map_iff in K. destruct K as [p [<- Kp]].
    destruct (impt_ok_spec s p W (CT p Kp)) as [At Ot].
    split; [apply (ext_alive s s7); auto | rewrite (ext_owner s s7); auto]. }
  set (s8 := link_tables s7 ni timp) in *.
  assert (E18 : ext s1 s8) by (apply (ext_trans s1 s7 s8); auto).
  assert (E08 : ext s s8) by (apply (ext_trans s s1 s8); auto).
  (* imported globals, then the exported ones with their initialisers *)
  set (gimp := map (fun p : nat * nat => holder_of s (fst p) (snd p)) (sp_impg sp)).
  assert (HG : forall g, In g gimp -> alive s8 g = true /\ owner s8 g = None).
  { intros g K. unfold gimp in K. apply in_map_iff in K. destruct K as [p [<- Kp]].
    destruct (impg_ok_spec s p W (CG p Kp)) as [Ag Og].
    split; [apply (ext_alive s s8); auto | rewrite (ext_owner s s8); auto]. }
  destruct (wf_link_globals gimp s8 ni W8 HG) as [W8a E8a].
  assert (VG : forall g, In g gimp -> In g (o_vis (getd (link_globals s8 ni gimp) ni))).
  { apply link_globals_vis; auto. apply alive_lt. apply (NI s8 E18). }
  set (s8a := link_globals s8 ni gimp) in *.
  assert (E18a : ext s1 s8a) by (apply (ext_trans s1 s8 s8a); auto).
  assert (E48a : ext s4 s8a) by (apply (ext_trans s4 s7 s8a); auto; apply (ext_trans s7 s8 s8a); auto).
  assert (E38a : ext s3 s8a) by (apply (ext_trans s3 s4 s8a); auto).
  destruct (NM s8a E38a) as [Am [Om Bk]].
  destruct (wf_alloc_globals (sp_expg sp) s8a ni nme recs gimp W8a) as [W8b E8b]; auto.
  { apply (NI s8a E18a). }
  { intros r K. destruct (X4 r K) as [K1 [K2 K3]]. split; [apply (ext_vis s4 s8a); auto|].
    rewrite (ext_kind s4 s8a); auto. }
  destruct (alloc_globals s8a ni nme recs gimp (sp_expg sp)) as [s8b gexp] eqn:Q8b. simpl fst in *.
  destruct (wf_set_dir s8b ni (nme :: timp ++ texp ++ tpriv ++ globs ++ gexp ++ gimp) W8b) as [W9 E9].
  match goal with |- context [upd_obj (upd_obj s8b ni ?f) nme (set_dir recs)] => set (s9a := upd_obj s8b ni f) in * end.
  destruct (wf_set_dir s9a nme recs W9) as [W9' E9'].
  set (s9 := upd_obj s9a nme (set_dir recs)) in *.
  assert (E19 : ext s1 s9) by (apply (ext_trans s1 s9a s9); auto; apply (ext_trans s1 s8b s9a); auto; apply (ext_trans s1 s8a s8b); auto).
  destruct (wf_add_reg s9 RUNTIME ni W9') as [W10 E10].
  { apply (NI s9 E19). } { left. apply (NI s9 E19). }
  apply wf_fold_copy_ref. apply wf_fold_set_ref.
  apply wf_host; auto.
  intros x K. change (host (add_reg s9 RUNTIME ni)) with (host s9). destruct K as [<- | K]; auto.
  destruct (NI s9 E19) as [N1 N2].
  right. split; [apply (ext_alive s9 _ ni E10); auto|].
  rewrite (ext_owner s9 _ ni E10); auto.
Qed.

(* ------------------------------------------------------------------------------------------ *)
(* every tracked step preserves the invariant *)

Lemma tl_In : forall A (l : list A) x, In x (tl l) -> In x l.
Proof. destruct l; simpl; auto. Qed.

Lemma gspec_ok_of : forall sp, (strict = true -> forallb gspec_tracked (sp_expg sp) = true) ->
  (strict = false -> forallb gspec_imm_ok (sp_expg sp) = true) -> forall g, In g (sp_expg sp) -> gspec_ok g.
Proof.
  intros sp T1 T2 g K C. destruct strict eqn:ST.
  - specialize (T1 eq_refl). rewrite forallb_forall in T1. specialize (T1 g K). unfold gspec_tracked in T1.
    apply orb_true_iff in T1; tauto.
  - specialize (T2 eq_refl). rewrite forallb_forall in T2. specialize (T2 g K). unfold gspec_imm_ok in T2.
    destruct C as [C | C]; [discriminate|]. rewrite C in T2. simpl in T2. apply orb_true_iff in T2; tauto.
Qed.

(* every step preserves the invariant: the strict one if the step is tracked, the weak one always (given imm_ok) *)
Lemma step_wf : forall s o, wf s -> (strict = true -> tracked s o = true) -> (strict = false -> imm_ok o = true) -> wf (step s o).
Proof.
  intros s o W T TI. destruct o; simpl.
  - apply wf_compile; auto.
  - apply wf_instantiate; auto. apply gspec_ok_of; auto.
  - destruct (holder_wr s i t && rec_ok s i f) eqn:E; auto.
    apply andb_true_iff in E; destruct E as [E1 E2]. destruct (holder_wr_spec s i t E1) as [E1a E1w].
    apply wf_set_slot; auto. intros ST r Hr _. inversion Hr; subst.
    specialize (T ST). simpl in T. rewrite E1, E2 in T. simpl in T.
    apply holder_covers; auto using holder_ok_split. apply rec_ok_spec; auto.
  - destruct (holder_acc s i ts && holder_wr s i td) eqn:E; auto.
    apply andb_true_iff in E; destruct E as [E1 E2]. destruct (holder_wr_spec s i td E2) as [E2a E2w].
    apply wf_set_slot; auto. intros ST r Hr _.
    specialize (T ST). simpl in T. rewrite E1, E2 in T. simpl in T.
    apply holder_covers; auto using holder_ok_split.
    destruct (holder_acc_spec s i ts W E1) as [I Hv]. destruct (inst_ok_spec s i W I) as [A _].
    eapply reach_slot; eauto. { eapply nth_Some_In; eauto. } left; auto.
  - destruct (holder_wr s i t) eqn:E; auto. destruct (holder_wr_spec s i t E) as [Ea Ew].
    apply wf_set_slot; auto. intros _ r Hr; discriminate.
  - destruct (holder_acc s i t && rec_ok s i f) eqn:E; simpl; auto.
    apply andb_true_iff in E; destruct E as [E1 E2].
    destruct (kind_eqb (o_kind (getd s (holder_of s i t))) KTable) eqn:KT; auto. apply kind_eqb_eq in KT.
    apply wf_upd; auto.
    + simpl; apply incl_refl.
    + simpl. intros r _. right. rewrite KT. reflexivity.
    + intros A. split.
      * intros y K. split; [eapply wf_closed; eauto | left; auto].
      * simpl. intros r K MC. apply in_app_or in K. destruct K as [K | [K | []]]; [left; auto | right].
        destruct MC as [ST | MC]; [|rewrite KT in MC; discriminate].
        specialize (T ST). simpl in T. rewrite E1, E2 in T. simpl in T.
        inversion K; subst. apply holder_covers; auto using holder_ok_split. apply rec_ok_spec; auto.
  - destruct (rec_ok s i f && holder_wr s j t) eqn:E; auto.
    apply andb_true_iff in E; destruct E as [E1 E2]. destruct (holder_wr_spec s j t E2) as [E2a E2w].
    destruct (rec_ok_spec s i f W E1) as [I [Rv [R _]]].
    apply wf_set_slot; auto. intros ST r Hr _. inversion Hr; subst.
    specialize (T ST). simpl in T. rewrite E1, E2 in T. simpl in T.
    apply orb_true_iff in T. destruct T as [T | T].
    + apply andb_true_iff in T; destruct T as [TI' T].
      apply holder_covers; auto using holder_ok_split.
      apply orb_true_iff in T. destruct T as [T | T].
      * apply Nat.eqb_eq in T; subst; auto.
      * apply memb_In in T. destruct (holder_acc_spec s j t W E2a) as [J _].
        destruct (inst_ok_spec s j W J) as [_ [Jv _]].
        econstructor; [exact Jv|]. econstructor; [exact T|]. econstructor; [apply inst_ok_back; auto | exact R].
    + unfold sharedb in T. unfold cover, owner. destruct (o_owner (getd s (holder_of s j t))); [discriminate|].
      apply listsb_spec in T. eapply lists_covers; eauto.
  - destruct (holder_acc s i ts && holder_wr s j t) eqn:E; auto.
    apply andb_true_iff in E; destruct E as [E1 E2]. destruct (holder_wr_spec s j t E2) as [E2a E2w].
    apply wf_set_slot; auto. intros ST r Hr _.
    destruct (holder_acc_spec s i ts W E1) as [I Hv]. destruct (inst_ok_spec s i W I) as [A _].
    assert (R : sreach s i r).
    { eapply reach_slot; eauto. { eapply nth_Some_In; eauto. } left; auto. }
    specialize (T ST). simpl in T. rewrite E1, E2 in T. simpl in T.
    apply orb_true_iff in T. destruct T as [T | T].
    + apply andb_true_iff in T; destruct T as [TI' T].
      apply holder_covers; auto using holder_ok_split.
      apply orb_true_iff in T. destruct T as [T | T].
      * apply Nat.eqb_eq in T; subst; auto.
      * apply memb_In in T. destruct (holder_acc_spec s j t W E2a) as [J _].
        destruct (inst_ok_spec s j W J) as [_ [Jv _]].
        econstructor; [exact Jv|]. econstructor; [exact T|]. econstructor; [apply inst_ok_back; auto | exact R].
    + unfold sharedb in T. unfold cover, owner. destruct (o_owner (getd s (holder_of s j t))); [discriminate|].
      apply listsb_spec in T. eapply lists_covers; eauto.
  - auto.
  - auto.
  - destruct (inst_ok s i) eqn:E; auto.
    destruct (inst_ok_spec s i W E) as [_ [_ [O A]]].
    apply wf_flight; auto. intros x [<- | K]; auto.
  - apply wf_flight; auto. intros x K; left; apply tl_In; auto.
  - destruct (alive s i && kind_eqb (o_kind (getd s i)) KInstance); auto.
    apply wf_del_reg. apply wf_set_closed; auto.
  - destruct (wf_del_reg s ENGINE c W) as [W1 _].
    apply (wf_remove_host (del_reg s ENGINE c) c W1).
  - destruct (cached s); auto. apply wf_close_engine; auto.
  - destruct (wf_close_instances (o_reg (getd s RUNTIME)) s W) as [W1 _].
    match goal with |- context [upd_obj ?a RUNTIME ?f] => assert (W2 : wf (upd_obj a RUNTIME f)) end.
    { apply wf_shrink; auto. intro o; simpl. repeat split; auto. intros y K. apply filter_In in K; tauto. }
    destruct (cached s); auto. apply wf_close_engine; auto.
  - apply wf_remove_host; auto.
  - apply wf_gc; auto.
Qed.

Lemma wf_init : forall c, wf (init c).
Proof.
  intro c.
  assert (L : forall i, alive (init c) i = true -> i < 3).
  { intros i A. apply alive_lt in A. destruct c; simpl in A; lia. }
  constructor.
  - intros i x A H. apply L in A.
    destruct c; destruct i as [|[|[|i]]]; try lia; unfold edges, getd in H; simpl in H;
      repeat (destruct H as [<- | H]; [reflexivity|]); contradiction.
  - intros i r A H. apply L in A.
    destruct c; destruct i as [|[|[|i]]]; try lia; unfold getd in H; simpl in H; contradiction.
  - intros i k A H. apply L in A.
    destruct c; destruct i as [|[|[|i]]]; try lia; unfold owner, getd in H; simpl in H; discriminate.
  - intros x H. destruct c; unfold roots in H; simpl in H;
      repeat (destruct H as [<- | H]; [reflexivity|]); contradiction.
  - intros i r H K. exfalso.
    destruct c; destruct i as [|[|[|i]]]; unfold getd in H; simpl in H; try contradiction; destruct i; simpl in H; contradiction.
Qed.

End WF.

Lemma run_wf : forall ops s, wf true s -> all_tracked s ops = true -> wf true (run s ops).
Proof.
  unfold run. induction ops as [|o ops IH]; intros s W T; simpl in *; auto.
  apply andb_true_iff in T; destruct T as [T1 T2]. apply IH; auto. apply step_wf; auto. discriminate.
Qed.

(* the weak invariant survives EVERY history *)
Lemma run_wf_weak : forall ops s, wf false s -> forallb imm_ok ops = true -> wf false (run s ops).
Proof.
  unfold run. induction ops as [|o ops IH]; intros s W T; simpl in *; auto.
  apply andb_true_iff in T; destruct T as [T1 T2]. apply IH; auto. apply step_wf; auto. discriminate.
Qed.

(* all visible edges *)
Inductive reach (s : state) : nat -> nat -> Prop :=
| r_refl : forall a, reach s a a
| r_step : forall a x b, In x (edges (getd s a)) -> reach s x b -> reach s a b.

Lemma reach_alive : forall st s a b, wf st s -> reach s a b -> alive s a = true -> alive s b = true.
Proof. intros st s a b W R; induction R; intros; auto. apply IHR. eapply wf_closed; eauto. Qed.

(* what `dangling` means: some raw reference reachable from the live instance i points to a collected object *)
Definition dangling (s : state) (i : nat) : Prop :=
  inst_ok s i = true /\ exists o r, reach s i o /\ In (Some r) (o_slots (getd s o)) /\ alive s r = false.

Lemma wf_not_dangling : forall s i, wf true s -> ~ dangling s i.
Proof.
  intros s i W [I [o [r [R [H A]]]]].
  destruct (inst_ok_spec true s i W I) as [Ai _].
  rewrite (wf_no_dangling true s o r W (reach_alive true s i o W R Ai) H (or_introl eq_refl)) in A. discriminate.
Qed.

Theorem safe_if_tracked : forall c ops, all_tracked (init c) ops = true ->
  let s := run (init c) ops in
  (forall i, ~ dangling s i) /\
  (forall o r, alive s o = true -> In (Some r) (o_slots (getd s o)) ->
     alive s r = true /\ forall k, In (Some k) (o_slots (getd s r)) -> alive s k = true).
Proof.
  intros c ops T s. assert (W : wf true s) by (apply run_wf; auto using wf_init).
  split; [intro; apply wf_not_dangling; auto|].
  intros o r A H. assert (Ar : alive s r = true) by (eapply wf_no_dangling; eauto; left; auto).
  split; auto. intros k K. eapply wf_no_dangling; eauto. left; auto.
Qed.

(* ------------------------------------------------------------------------------------------ *)
(* closing in any order, with a call in flight *)

Definition closing (o : op) : bool :=
  match o with
  | OCloseModule _ | OCloseCompiled _ | OCloseCache | OCloseRuntime | ODrop _ | OGc => true
  | _ => false
  end.

Lemma closing_tracked : forall ops s, forallb closing ops = true -> all_tracked s ops = true.
Proof.
  induction ops as [|o ops IH]; intros s H; simpl in *; auto.
  apply andb_true_iff in H; destruct H as [H1 H2]. rewrite IH; auto. destruct o; simpl in *; auto; discriminate.
Qed.

Lemma vis_mono_refl : forall s, vis_mono s s.
Proof. intros s i x H; auto. Qed.
Lemma vis_mono_trans : forall a b c, vis_mono a b -> vis_mono b c -> vis_mono a c.
Proof. intros a b c H1 H2 i x H; apply H2, H1; auto. Qed.

Lemma vis_mono_upd : forall s i f, (forall o, incl (o_vis o) (o_vis (f o))) -> vis_mono s (upd_obj s i f).
Proof.
  intros s i f H j x K. rewrite getd_upd. destruct ((j =? i) && (i <? length (heap s))) eqn:E; auto.
  apply andb_true_iff in E; destruct E as [E _]; apply Nat.eqb_eq in E; subst. apply H; auto.
Qed.

Lemma vis_mono_close_instances : forall l s, vis_mono s (close_instances s l).
Proof.
  unfold close_instances. induction l as [|a l IH]; intros s; simpl; [apply vis_mono_refl|].
  destruct (kind_eqb (o_kind (getd s a)) KInstance); auto.
  eapply vis_mono_trans; [|apply IH]. apply vis_mono_upd. intros o; simpl; apply incl_refl.
Qed.

Lemma flight_close_instances : forall l s, flight (close_instances s l) = flight s.
Proof.
  unfold close_instances. induction l as [|a l IH]; intros s; simpl; auto.
  destruct (kind_eqb (o_kind (getd s a)) KInstance); auto. rewrite IH. reflexivity.
Qed.

Lemma vis_mono_gc : forall s, vis_mono s (gc s).
Proof.
  intros s. unfold gc. destruct (mark edges (S (length (heap s))) (heap s) (roots s)) as [M|]; [|apply vis_mono_refl].
  intros j x H. unfold getd; simpl. rewrite nth_sweep. simpl. destruct (memb j M); auto.
Qed.

Lemma flight_gc : forall s, flight (gc s) = flight s.
Proof. intros s. unfold gc. destruct (mark _ _ _ _); reflexivity. Qed.

Lemma closing_frame : forall s o, closing o = true -> flight (step s o) = flight s /\ vis_mono s (step s o).
Proof.
  intros s o H. destruct o; try discriminate; simpl.
  - destruct (alive s i && kind_eqb (o_kind (getd s i)) KInstance); [|split; auto using vis_mono_refl].
    split; auto. eapply vis_mono_trans; apply vis_mono_upd; intros o; simpl; apply incl_refl.
  - split; auto. intros j x K. change (In x (o_vis (getd (del_reg s ENGINE c) j))).
    unfold del_reg. apply vis_mono_upd; auto. intros o; simpl; apply incl_refl.
  - destruct (cached s); split; auto using vis_mono_refl. apply vis_mono_upd; intros o; simpl; apply incl_refl.
  - assert (F1 := flight_close_instances (o_reg (getd s RUNTIME)) s).
    assert (V1 := vis_mono_close_instances (o_reg (getd s RUNTIME)) s).
    destruct (cached s); simpl; split; auto.
    + eapply vis_mono_trans; eauto. apply vis_mono_upd; intros o; simpl; apply incl_refl.
    + eapply vis_mono_trans; [eauto|]. eapply vis_mono_trans; apply vis_mono_upd; intros o; simpl; apply incl_refl.
  - split; auto. intros j y K; exact K.
  - split; [apply flight_gc | apply vis_mono_gc].
Qed.

Lemma closing_run_frame : forall ops s, forallb closing ops = true ->
  flight (run s ops) = flight s /\ vis_mono s (run s ops).
Proof.
  unfold run. induction ops as [|o ops IH]; intros s H; simpl in *; [split; auto using vis_mono_refl|].
  apply andb_true_iff in H; destruct H as [H1 H2].
  destruct (closing_frame s o H1) as [F V]. destruct (IH (step s o) H2) as [F' V'].
  split; [congruence | eapply vis_mono_trans; eauto].
Qed.

(* after any tracked history, start a call on instance i, then close / drop / collect anything, in any order
   and any number of times: the invariant survives, and the in-flight call keeps its module engine, its
   instance, its compiled module and everything else it structurally reaches (imported functions'
   engines and code, tables, records) uncollected *)
Theorem close_order_irrelevant : forall c pre i closes,
  all_tracked (init c) pre = true ->
  let s0 := run (init c) pre in
  inst_ok s0 i = true ->
  forallb closing closes = true ->
  let s := run s0 (OEnter i :: closes) in
  (forall j, ~ dangling s j) /\
  (forall x, sreach s0 (me_of s0 i) x ->
     alive s x = true /\ forall r, In (Some r) (o_slots (getd s x)) -> alive s r = true) /\
  alive s i = true.
Proof.
  intros c pre i closes T s0 I C s.
  assert (W0 : wf true s0) by (apply run_wf; auto using wf_init).
  assert (W1 : wf true (step s0 (OEnter i))) by (apply step_wf; auto; discriminate).
  assert (W : wf true s).
  { unfold s. change (run s0 (OEnter i :: closes)) with (run (step s0 (OEnter i)) closes).
    apply run_wf; auto. apply closing_tracked; auto. }
  destruct (closing_run_frame closes (step s0 (OEnter i)) C) as [F V].
  change (run (step s0 (OEnter i)) closes) with s in F, V.
  simpl in F, V. rewrite I in F, V.
  assert (R : alive s (me_of s0 i) = true).
  { apply (wf_roots true s W). unfold roots. apply in_or_app; right. rewrite F. simpl; auto. }
  assert (K : forall x, sreach s0 (me_of s0 i) x -> alive s x = true).
  { intros x Rx. eapply sreach_alive; eauto. eapply sreach_mono; [|exact Rx].
    intros j y Hy. apply V. exact Hy. }
  split; [intro; apply wf_not_dangling; auto|]. split.
  - intros x Rx. split; [apply K; auto|]. intros r Hr. eapply wf_no_dangling; [exact W | apply K; exact Rx | exact Hr | left; auto].
  - apply K. unfold inst_ok in I. apply andb_true_iff in I; destruct I as [_ I]. apply memb_In in I.
    apply sreach_edge; auto.
Qed.

(* ------------------------------------------------------------------------------------------ *)
(* F08: a reference placed in another instance's PRIVATE table through a parameter *)

(* ids: 0 cache, 1 engine, 2 runtime; 3 compiled(B); 4 B, 5 B's module engine, 6 B.f, 7 B's private table;
   8 compiled(P); 9 P, 10 P's module engine, 11 P's record of the imported B.f, 12 P.f *)
Definition spB := mkSpec 3 [] [] 1 0 1 0 4 [] [] [] [].
Definition spP := mkSpec 8 [(4, 0)] [] 1 0 0 0 4 [] [] [] [].
Definition f08_setup := [OCompile; OInstantiate spB; OCompile; OInstantiate spP; OPassParam 9 1 4 0 0].
Definition f08_close := [OCloseModule 9; OCloseCompiled 8; ODrop 9; OGc].

Lemma private_table_refuted :
  let s1 := run (init true) f08_setup in
  let s := run s1 f08_close in
  (* before the close the call_indirect is fine *)
  deref_ok s1 (slot s1 (holder_of s1 4 0) 0) = true /\
  (* afterwards B is a live, open instance holding the table ... *)
  inst_ok s 4 = true /\ open s 4 = true /\ holder_ok s 4 0 = true /\ In 4 (host s) /\
  (* ... whose slot 0 still holds the raw address of P.f, and both the record and P's executable are gone *)
  slot s (holder_of s 4 0) 0 = Some 12 /\ alive s 12 = false /\ alive s 8 = false /\
  deref_ok s (slot s (holder_of s 4 0) 0) = false /\
  dangling s 4 /\
  (* the hand-over is not a tracked channel, and only closing/dropping/collecting followed *)
  all_tracked (init true) (f08_setup ++ f08_close) = false /\ forallb closing f08_close = true.
Proof.
  cbv zeta.
  assert (E : edges (getd (run (run (init true) f08_setup) f08_close) 4) = [7; 5; 2]) by (vm_compute; reflexivity).
  assert (S : o_slots (getd (run (run (init true) f08_setup) f08_close) 7) = [Some 12; None; None; None]) by (vm_compute; reflexivity).
  repeat match goal with |- _ /\ _ => split end; try (vm_compute; reflexivity).
  - vm_compute. auto.
  - split; [vm_compute; reflexivity|]. exists 7, 12. split; [|split].
    + apply r_step with 7; [rewrite E; simpl; auto | apply r_refl].
    + rewrite S; simpl; auto.
    + vm_compute; reflexivity.
Qed.

(* the same history as the harness states it; the model's verdict on the last call is "dangling use" *)
Example classify_F08 :
  classify (true, [mkM [] [] 1 0 1 0 4 [] [] [] []; mkM [(0, 0)] [] 1 0 0 0 4 [] [] [] []],
            [HCompile 0; HInst 0; HCompile 1; HInst 1; HPass 1 1 0 0 0; HCallInd 0 0 0;
             HCloseMod 1; HCloseCompiled 1; HDropMod 1; HDropCompiled 1; HGc; HCallInd 0 0 0])
  = [0; 0; 0; 0; 0; 0; 0; 0; 0; 0; 0; 2]%Z.
Proof. vm_compute. reflexivity. Qed.

(* ------------------------------------------------------------------------------------------ *)
(* non-vacuity *)

(* A exports two functions and a table; B imports A.f0 and the table, has a private table and a global.
   ids: 3 cm(A); 4 A, 5 ME(A), 6 A.f0, 7 A.f1, 8 A's exported table; 9 cm(B); 10 B, 11 ME(B), 12 B's record of A.f0,
   13 B.f0, 14 B's private table, 15 B's global *)
Definition spA := mkSpec 3 [] [] 2 1 0 0 4 [(0, 0, 0)] [] [] [].
Definition spB2 := mkSpec 9 [(4, 0)] [(4, 0)] 1 0 1 1 4 [(0, 1, 1); (1, 0, 0)] [] [] [].
Definition tracked_history :=
  [OCompile; OInstantiate spA; OCompile; OInstantiate spB2;
   OSetRef 10 0 2 1;        (* B puts its own function into the shared table *)
   OCopy 10 0 0 1 3;        (* B copies A.f0 from the shared table into its private table *)
   OCopy 10 0 0 2 0;        (* ... and into its global *)
   OPassParam 4 1 10 1 2;   (* A hands A.f1 to B as a parameter: tracked, B imports a function of A *)
   OEnter 10;
   OCloseModule 4; OCloseCompiled 3; ODrop 4; OCloseModule 10; OCloseCompiled 9; ODrop 10; OGc;
   OCloseCache; OCloseRuntime; ODrop 2; ODrop 0; OGc;
   OLeave].

Example tracked_history_ok :
  all_tracked (init true) tracked_history = true /\
  let s := run (init true) (firstn 21 tracked_history) in
  (* everything was closed and dropped, yet the in-flight call keeps B, A, both compiled modules, the
     shared table and the records alive; the references B holds are all intact *)
  map (alive s) [4; 5; 6; 7; 8; 3; 9; 10; 11; 12; 13; 14; 15] = repeat true 13 /\
  o_slots (getd s 8) = [Some 6; Some 13; Some 13; None] /\
  o_slots (getd s 14) = [Some 12; None; Some 7; Some 6] /\ o_slots (getd s 15) = [Some 6] /\
  any_dangling s = false /\
  (* once the call has returned, the next collection takes everything (nothing is leaked either) *)
  map (alive (run (init true) (tracked_history ++ [OGc]))) [4; 8; 3; 9; 10; 14] = repeat false 6.
Proof. vm_compute. repeat split; reflexivity. Qed.

Example f08_any_dangling : any_dangling (run (init true) (f08_setup ++ f08_close)) = true.
Proof. vm_compute. reflexivity. Qed.

(* the hypotheses of close_order_irrelevant are satisfiable *)
Example close_order_instance :
  let pre := firstn 8 tracked_history in
  all_tracked (init true) pre = true /\ inst_ok (run (init true) pre) 10 = true /\
  forallb closing [OCloseRuntime; OGc; OCloseCache; ODrop 10; OCloseCompiled 9; OGc; OCloseModule 4; ODrop 2; OGc] = true.
Proof. vm_compute. repeat split; reflexivity. Qed.

(* marking never runs out of fuel on these histories (gc is not the identity) *)
Example gc_collects :
  let s := run (init true) (f08_setup ++ [OCloseModule 9; OCloseCompiled 8; ODrop 9]) in
  alive s 12 = true /\ alive (gc s) 12 = false /\ alive (gc s) 4 = true.
Proof. vm_compute. repeat split; reflexivity. Qed.

(* ------------------------------------------------------------------------------------------ *)
(* which channels are tracked, as a specification *)

(* holder h lists instance i: among its involving instances (a TABLE that i exports or imports), or as the module engine
   it belongs to (a GLOBAL that i exports, GlobalInstance.Me) *)
Definition lists (s : state) (i h : nat) : Prop :=
  In i (o_vis (getd s h)) \/ In (me_of s i) (o_vis (getd s h)).
(* holder h tracks instance i: h is private (only its owner points to it) or lists i *)
Definition involved (s : state) (i h : nat) : Prop :=
  (exists c, owner s h = Some c) \/ lists s i h.

Lemma involvedb_spec : forall s i h, involvedb s i h = true <-> involved s i h.
Proof.
  intros s i h. unfold involvedb, involved, lists, owner. destruct (o_owner (getd s h)) as [c|].
  - split; auto. intros _. left; eauto.
  - rewrite listsb_spec. split; auto. intros [[c K] | K]; auto. discriminate.
Qed.

(* h is a shared holder listing i *)
Definition shared_with (s : state) (i h : nat) : Prop := owner s h = None /\ lists s i h.

Lemma sharedb_spec : forall s i h, sharedb s i h = true <-> shared_with s i h.
Proof.
  intros s i h. unfold sharedb, shared_with, lists, owner. destruct (o_owner (getd s h)) as [c|].
  - split; [discriminate | intros [K _]; discriminate].
  - rewrite listsb_spec. tauto.
Qed.

Definition tracked_prop (s : state) (o : op) : Prop :=
  match o with
  | OInstantiate sp => forall g, In g (sp_expg sp) -> g_init g = GNull \/ g_me g = true
  | OSetRef i t k f => holder_wr s i t = true -> rec_ok s i f = true -> involved s i (holder_of s i t)
  | OGrowRef i t f => holder_acc s i t = true -> rec_ok s i f = true -> involved s i (holder_of s i t)
  | OCopy i ts ks td kd => holder_acc s i ts = true -> holder_wr s i td = true -> involved s i (holder_of s i td)
  | OPassParam i f j t k =>
      rec_ok s i f = true -> holder_wr s j t = true ->
      (involved s j (holder_of s j t) /\ (i = j \/ In (me_of s i) (o_vis (getd s (me_of s j)))))
      \/ shared_with s i (holder_of s j t)
  | OPassVal i ts ks j t k =>
      holder_acc s i ts = true -> holder_wr s j t = true ->
      (involved s j (holder_of s j t) /\ (i = j \/ In (me_of s i) (o_vis (getd s (me_of s j)))))
      \/ shared_with s i (holder_of s j t)
  | _ => True
  end.

Lemma ginit_null_spec : forall g, ginit_null g = true <-> g = GNull.
Proof. intros [| |]; simpl; split; intros; auto; discriminate. Qed.

Lemma tracked_spec : forall s o, tracked s o = true <-> tracked_prop s o.
Proof.
  intros s o. destruct o; simpl; try tauto.
  - rewrite forallb_forall. unfold gspec_tracked.
    split; intros H g K; specialize (H g K); [apply orb_true_iff in H | apply orb_true_iff]; rewrite ginit_null_spec in *; auto.
  - rewrite orb_true_iff, negb_true_iff, andb_false_iff, involvedb_spec.
    destruct (holder_wr s i t); destruct (rec_ok s i f); intuition discriminate.
  - rewrite orb_true_iff, negb_true_iff, andb_false_iff, involvedb_spec.
    destruct (holder_acc s i ts); destruct (holder_wr s i td); intuition discriminate.
  - rewrite orb_true_iff, negb_true_iff, andb_false_iff, involvedb_spec.
    destruct (holder_acc s i t); destruct (rec_ok s i f); intuition discriminate.
  - rewrite !orb_true_iff, negb_true_iff, andb_false_iff, andb_true_iff, orb_true_iff, involvedb_spec, Nat.eqb_eq, memb_In, sharedb_spec.
    destruct (rec_ok s i f); destruct (holder_wr s j t); intuition discriminate.
  - rewrite !orb_true_iff, negb_true_iff, andb_false_iff, andb_true_iff, orb_true_iff, involvedb_spec, Nat.eqb_eq, memb_In, sharedb_spec.
    destruct (holder_acc s i ts); destruct (holder_wr s j t); intuition discriminate.
Qed.

(* ------------------------------------------------------------------------------------------ *)
(* F08b: the same class through an imported mutable funcref GLOBAL *)

(* ids: 3 compiled(A); 4 A, 5 A's module engine, 6 A.f, 7 A's exported global;
   8 compiled(B); 9 B, 10 B's module engine, 11 B.f.  B imports the global 7 and stores ref.func B.f in it. *)
(* the exported mutable global points to A's module engine (wazevo); the refutation does not depend on that edge *)
Definition spGA := mkSpec 3 [] [] 1 0 0 0 4 [] [mkG true GNull true] [] [].
Definition spGB := mkSpec 8 [] [] 1 0 0 0 4 [] [] [(4, 0)] [].
Definition f08b_setup := [OCompile; OInstantiate spGA; OCompile; OInstantiate spGB; OSetRef 9 0 0 0].
Definition f08b_close := [OCloseModule 9; OCloseCompiled 8; ODrop 9; OGc].

Lemma imported_global_refuted :
  let s1 := run (init true) f08b_setup in
  let s := run s1 f08b_close in
  (* the store is performed (B can write the global it imported) but the global tracks nobody *)
  holder_acc (run (init true) (firstn 4 f08b_setup)) 9 0 = true /\
  involvedb (run (init true) (firstn 4 f08b_setup)) 9 (holder_of (run (init true) (firstn 4 f08b_setup)) 9 0) = false /\
  holder_of s1 9 0 = holder_of s1 4 0 /\
  deref_ok s1 (slot s1 (holder_of s1 4 0) 0) = true /\
  (* after closing and collecting B: A is live and open, its global still holds the address of B.f *)
  inst_ok s 4 = true /\ open s 4 = true /\ holder_acc s 4 0 = true /\ In 4 (host s) /\
  slot s (holder_of s 4 0) 0 = Some 11 /\ alive s 11 = false /\ alive s 8 = false /\
  deref_ok s (slot s (holder_of s 4 0) 0) = false /\
  dangling s 4 /\
  all_tracked (init true) (f08b_setup ++ f08b_close) = false /\ forallb closing f08b_close = true.
Proof.
  cbv zeta.
  assert (E : edges (getd (run (run (init true) f08b_setup) f08b_close) 4) = [7; 5; 2]) by (vm_compute; reflexivity).
  assert (S : o_slots (getd (run (run (init true) f08b_setup) f08b_close) 7) = [Some 11]) by (vm_compute; reflexivity).
  repeat match goal with |- _ /\ _ => split end; try (vm_compute; reflexivity).
  - vm_compute. auto.
  - split; [vm_compute; reflexivity|]. exists 7, 11. split; [|split].
    + apply r_step with 7; [rewrite E; simpl; auto | apply r_refl].
    + rewrite S; simpl; auto.
    + vm_compute; reflexivity.
Qed.

(* ------------------------------------------------------------------------------------------ *)
(* IMMUTABLE imported globals: a tracked channel for good, through the global's pointer to its exporter's engine *)

(* a path reaches the cover of its end point (or is empty) *)
Lemma sreach_cover : forall st s a b, wf st s -> sreach s a b -> alive s a = true -> a = b \/ sreach s a (cover s b).
Proof.
  intros st s a b W R. induction R as [a | a x b Hx R IH]; intros A; auto.
  right. assert (Ax : alive s x = true) by (eapply wf_closed; eauto using in_vis_edges).
  destruct (IH Ax) as [-> | K].
  - eapply cover_from_pointer; eauto.
  - econstructor; eauto.
Qed.

(* For ALL histories - whatever was handed over through whatever channel, F08 and F35 included - in which exported immutable
   globals point to their exporter's module engine: an instance j that is not collected and has an immutable global g among
   its globals (imported or own) structurally reaches the record g holds and that record's code - through g itself when g is
   a shared (exported/imported) global -; record and code are not collected; and what g holds is a function record. *)
Theorem immutable_global_import_keeps_definer : forall c ops, forallb imm_ok ops = true ->
  let s := run (init c) ops in
  forall j g r, inst_ok s j = true -> In g (o_vis (getd s j)) -> o_kind (getd s g) = KGlobalC ->
    In (Some r) (o_slots (getd s g)) ->
    alive s g = true /\ (owner s g = None -> sreach s g r) /\ sreach s j r /\ alive s r = true /\ o_kind (getd s r) = KFunc /\
    (forall k, In (Some k) (o_slots (getd s r)) -> sreach s j k /\ alive s k = true).
Proof.
  intros c ops T s j g r I Hg Kg Hr.
  assert (W : wf false s) by (apply run_wf_weak; auto using wf_init).
  destruct (inst_ok_spec false s j W I) as [Aj _].
  assert (NW : must_cover false s g) by (right; rewrite Kg; reflexivity).
  assert (Ag : alive s g = true) by (eapply wf_closed; eauto using in_vis_edges).
  assert (Rj : sreach s j r) by (eapply reach_slot; eauto).
  assert (Ar : alive s r = true) by (eapply sreach_alive; eauto).
  assert (Kr : o_kind (getd s r) = KFunc) by (eapply wf_typed; eauto).
  assert (Kj : o_kind (getd s j) = KInstance).
  { unfold inst_ok in I. repeat (apply andb_true_iff in I; destruct I as [I ?]). apply kind_eqb_eq; auto. }
  assert (Rc : sreach s j (cover s r)).
  { destruct (sreach_cover false s j r W Rj Aj) as [E | Rc]; auto. rewrite E in Kj. rewrite Kr in Kj. discriminate. }
  split; auto. split.
  { intros Og. generalize (wf_cover false s W g r Ag Hr NW). unfold cover. rewrite Og. auto. }
  split; [exact Rj|]. split; [exact Ar|]. split; [exact Kr|].
  intros k Hk.
  assert (Rk : sreach s j k).
  { eapply sreach_trans; [exact Rc|]. apply (wf_cover false s W); auto. right; rewrite Kr; reflexivity. }
  split; [exact Rk|]. exact (sreach_alive false s j k W Rk Aj).
Qed.

(* the same invariant, for the other immutable objects: in every history the code address of a function record that is not
   collected points to a compiled module that is not collected (calls through imports and exports never dangle, whatever
   was handed over through untracked channels) *)
Theorem function_records_never_dangle : forall c ops, forallb imm_ok ops = true ->
  let s := run (init c) ops in
  forall r k, alive s r = true -> o_kind (getd s r) = KFunc -> In (Some k) (o_slots (getd s r)) -> alive s k = true.
Proof.
  intros c ops T s r k A K H.
  assert (W : wf false s) by (apply run_wf_weak; auto using wf_init).
  eapply wf_no_dangling; eauto. right; rewrite K; reflexivity.
Qed.

(* ---- the seeded change: the immutable global does not point to its exporter's module engine ----
   ids: 0 cache, 1 engine, 2 runtime; 3 compiled(A); 4 A, 5 A's module engine, 6 A.f, 7 A's exported IMMUTABLE global
   (initialised with ref.func A.f); 8 compiled(M); 9 M, 10 M's module engine, 11 M.f, 12 M's private table.
   M imports the global and nothing else; holders of M: 0 = its table, 1 = the imported global; the element item
   `global.get g` fills slot 1 of the table at instantiation, `table.set 0 (global.get g)` slot 0 afterwards. *)
Definition spIA (me : bool) := mkSpec 3 [] [] 1 0 0 0 4 [] [mkG false (GFunc 0) me] [] [].
Definition spIM := mkSpec 8 [] [] 1 0 1 0 4 [] [] [(4, 0)] [(0, 1, 1)].
Definition imm_setup (me : bool) := [OCompile; OInstantiate (spIA me); OCompile; OInstantiate spIM; OCopy 9 1 0 0 0].
(* close the exporter and its compiled module, drop the handle, one more (unrelated) compilation, collect *)
Definition imm_close := [OCloseModule 4; OCloseCompiled 3; ODrop 4; OCompile; OGc].

(* is the k-th operation of a history tracked in the state it is performed in? *)
Definition tracked_at (s : state) (ops : list op) (k : nat) : bool :=
  match nth_error ops k with Some o => tracked (run s (firstn k ops)) o | None => true end.

Lemma immutable_global_without_edge_refuted :
  let s1 := run (init true) (imm_setup false) in
  let s := run s1 imm_close in
  (* before the close the calls through both table slots are fine *)
  deref_ok s1 (slot s1 12 0) = true /\ deref_ok s1 (slot s1 12 1) = true /\
  (* M's module engine points to its record, M and M's compiled module only: the global is all M imports *)
  o_vis (getd s 10) = [11; 9; 8] /\ holder_of s 9 1 = 7 /\ o_kind (getd s 7) = KGlobalC /\ o_vis (getd s 7) = [] /\
  (* afterwards M is a live, open instance whose handle is held; the global and both table slots hold A.f ... *)
  inst_ok s 9 = true /\ open s 9 = true /\ In 9 (host s) /\ holder_acc s 9 1 = true /\
  slot s 7 0 = Some 6 /\ slot s 12 0 = Some 6 /\ slot s 12 1 = Some 6 /\
  (* ... and the record and A's executable are gone *)
  alive s 6 = false /\ alive s 3 = false /\ alive s 7 = true /\
  deref_ok s (slot s 12 0) = false /\ deref_ok s (slot s 12 1) = false /\ deref_ok s (slot s 7 0) = false /\
  dangling s 9 /\
  (* the one condition of immutable_global_import_keeps_definer fails, at the instantiation of A; nothing else is untracked *)
  forallb imm_ok (imm_setup false ++ imm_close) = false /\
  map (tracked_at (init true) (imm_setup false ++ imm_close)) (seq 0 10) = [true; false; true; true; true; true; true; true; true; true] /\
  (* with the edge the same history keeps the record and the code, and everything is tracked *)
  (let t := run (run (init true) (imm_setup true)) imm_close in
   o_vis (getd t 7) = [5] /\ alive t 6 = true /\ alive t 3 = true /\ alive t 5 = true /\
   deref_ok t (slot t 12 0) = true /\ deref_ok t (slot t 12 1) = true /\ any_dangling t = false /\
   forallb imm_ok (imm_setup true ++ imm_close) = true /\ all_tracked (init true) (imm_setup true ++ imm_close) = true /\
   (* and once M is dropped as well, nothing is leaked *)
   map (alive (run t [OCloseModule 9; OCloseCompiled 8; ODrop 9; OGc])) [3; 4; 5; 6; 7; 8; 9; 12] = repeat false 8).
Proof.
  cbv zeta.
  assert (E : edges (getd (run (run (init true) (imm_setup false)) imm_close) 9) = [7; 12; 10; 2]) by (vm_compute; reflexivity).
  assert (S : o_slots (getd (run (run (init true) (imm_setup false)) imm_close) 7) = [Some 6]) by (vm_compute; reflexivity).
  repeat match goal with |- _ /\ _ => split end; try (vm_compute; reflexivity).
  - vm_compute. auto.
  - split; [vm_compute; reflexivity|]. exists 7, 6. split; [|split].
    + apply r_step with 7; [rewrite E; simpl; auto | apply r_refl].
    + rewrite S; simpl; auto.
    + vm_compute; reflexivity.
Qed.

(* the same history as the harness states it (harness/c09 FixedGlobals, first history; the model collects after every
   step): M has a private table (holder 0), a private global initialised with `global.get g` (holder 1) and the imported
   immutable global g (holder 2); module 2 is the unrelated module of the "one more compile" step *)
Definition imm_mods (me : bool) : list mspec :=
  [mkM [] [] 1 0 0 0 4 [] [mkG false (GFunc 0) me] [] []; mkM [] [] 1 0 1 1 4 [] [] [(0, 0)] [(0, 1, 2); (1, 0, 2)];
   mkM [] [] 1 0 0 0 4 [] [] [] []].
Definition imm_hops : list hop :=
  [HCompile 0; HGc; HInst 0; HGc; HCompile 1; HGc; HInst 1; HGc; HCopy 1 2 0 0 0; HGc;
   HCallInd 1 2 0; HGc; HCallInd 1 0 0; HGc; HCallInd 1 0 1; HGc; HCallInd 1 1 0; HGc;
   HCloseMod 0; HGc; HCloseCompiled 0; HGc; HDropMod 0; HGc; HDropCompiled 0; HGc;
   HCompile 2; HInst 2; HCloseMod 2; HCloseCompiled 2; HDropMod 2; HDropCompiled 2; HGc; HGc;
   HCallInd 1 2 0; HCallInd 1 0 0; HCallInd 1 0 1; HCallInd 1 1 0].

(* with GlobalInstance.Me (wazevo) every use after the collection works as before; without it (the interpreter, or the
   seeded change) the global, the table slot set from it, the slot the element item filled and the private global
   initialised from it all dangle *)
Example classify_immutable_global :
  skipn 34 (classify (true, imm_mods true, imm_hops)) = [0; 0; 0; 0]%Z /\
  skipn 34 (classify (true, imm_mods false, imm_hops)) = [2; 2; 2; 2]%Z /\
  firstn 34 (classify (true, imm_mods false, imm_hops)) = repeat 0%Z 34.
Proof. vm_compute. repeat split; reflexivity. Qed.

(* tracked / untracked channels around globals, on one state: A (4) exports an immutable global (7, ref.func A.f) and a
   mutable one (8, null), both pointing to A's module engine; M (10) imports both (holders 1 and 2) and has a table (0) *)
Definition spCA := mkSpec 3 [] [] 1 0 0 0 4 [] [mkG false (GFunc 0) true; mkG true GNull true] [] [].
Definition spCM := mkSpec 9 [] [] 1 0 1 0 4 [] [] [(4, 0); (4, 1)] [].
Definition chan_state := run (init true) [OCompile; OInstantiate spCA; OCompile; OInstantiate spCM].

Example global_channels :
  let s := chan_state in
  o_kind (getd s 7) = KGlobalC /\ o_kind (getd s 8) = KGlobal /\ holder_of s 10 1 = 7 /\ holder_of s 10 2 = 8 /\
  (* reading the imported immutable global into M's own table: tracked *)
  tracked s (OCopy 10 1 0 0 0) = true /\
  (* nobody can write the immutable global: neither the importer nor the exporter *)
  holder_wr s 10 1 = false /\ holder_wr s 4 0 = false /\
  step s (OSetRef 10 1 0 0) = s /\ step s (OSetRef 4 0 0 0) = s /\ step s (OClear 10 1 0) = s /\
  (* the EXPORTER storing its own function into its mutable global: tracked (the global points to its module engine) *)
  holder_wr s 4 1 = true /\ tracked s (OSetRef 4 1 0 0) = true /\
  (* the IMPORTER storing its own function into the imported mutable global: performed, not tracked (F35) *)
  holder_wr s 10 2 = true /\ tracked s (OSetRef 10 2 0 0) = false /\
  slot (step s (OSetRef 10 2 0 0)) 8 0 = Some 12 /\
  (* the initialisers: tracked iff the global points to the module engine *)
  tracked s (OInstantiate spCA) = true /\ tracked s (OInstantiate (spIA false)) = false /\ imm_ok (OInstantiate (spIA false)) = false /\
  (* a MUTABLE global without the edge fails only the strict condition *)
  tracked s (OInstantiate (mkSpec 3 [] [] 1 0 0 0 4 [] [mkG true (GFunc 0) false] [] [])) = false /\
  imm_ok (OInstantiate (mkSpec 3 [] [] 1 0 0 0 4 [] [mkG true (GFunc 0) false] [] [])) = true.
Proof. vm_compute. repeat split; reflexivity. Qed.

(* The hypotheses of immutable_global_import_keeps_definer are satisfiable with an UNTRACKED history: F35's hand-over has
   happened (B's record dangles in A's mutable global), yet the immutable global M imported keeps its definer *)
Example immutable_survives_untracked_history :
  let ops := [OCompile; OInstantiate spCA; OCompile; OInstantiate spCM; OSetRef 10 2 0 0; OCopy 10 1 0 0 0;
              OCloseModule 4; OCloseCompiled 3; ODrop 4; OEnter 4; OCloseModule 10; OCloseCompiled 9; ODrop 10; OGc] in
  let s := run (init true) ops in
  forallb imm_ok ops = true /\ all_tracked (init true) ops = false /\
  (* the call in flight on A keeps A; M is gone, its record 12 dangles in A's mutable global (F35) *)
  inst_ok s 4 = true /\ In 7 (o_vis (getd s 4)) /\ o_kind (getd s 7) = KGlobalC /\ o_slots (getd s 7) = [Some 6] /\
  alive s 6 = true /\ alive s 3 = true /\ slot s 8 0 = Some 12 /\ alive s 12 = false /\ any_dangling s = true.
Proof. vm_compute. repeat split; auto. Qed.

(* Re-instantiating (or re-compiling) a module REPLACES the embedder's handle: the old instance is no longer a root.
   The F08 hand-over followed by close, a new instance of the same module and a collection (found by a thorough run:
   history 615): the prediction for the last call is "dangling use". *)
Example classify_replaced_handle :
  classify (true, [mkM [] [] 1 0 1 0 4 [] [] [] []; mkM [(0, 0)] [] 1 0 0 0 4 [] [] [] []],
            [HCompile 0; HInst 0; HCompile 1; HInst 1; HPass 1 1 0 0 0; HCallInd 0 0 0;
             HCloseMod 1; HCloseCompiled 1; HDropCompiled 1; HGc; HCallInd 0 0 0;
             HCompile 1; HInst 1; HGc; HCallInd 0 0 0])
  = [0; 0; 0; 0; 0; 0; 0; 0; 0; 0; 0; 0; 0; 0; 2]%Z.
Proof. vm_compute. reflexivity. Qed.

(* ------------------------------------------------------------------------------------------ *)
(* what no operation writes: function records and immutable globals keep their kind and their raw references, in every
   history (so "what an immutable global holds" is "what it was initialised with") *)

Definition frozen (s s' : state) : Prop :=
  length (heap s) <= length (heap s') /\
  forall g, g < length (heap s) -> o_kind (getd s' g) = o_kind (getd s g) /\
    (writable (o_kind (getd s g)) = false -> o_slots (getd s' g) = o_slots (getd s g)).

Lemma frozen_refl : forall s, frozen s s.
Proof. split; auto. Qed.

Lemma frozen_trans : forall a b c, frozen a b -> frozen b c -> frozen a c.
Proof.
  intros a b c [L1 H1] [L2 H2]. split; [lia|]. intros g Lg.
  destruct (H1 g Lg) as [K1 S1]. destruct (H2 g) as [K2 S2]; [lia|].
  split; [congruence|]. intros W. rewrite S2, S1; auto. rewrite K1; auto.
Qed.

Lemma frozen_same_heap : forall s s', heap s' = heap s -> frozen s s'.
Proof. intros s s' E. unfold frozen, getd. rewrite E. split; auto. Qed.

Lemma frozen_upd : forall s i f,
  o_kind (f (getd s i)) = o_kind (getd s i) ->
  (writable (o_kind (getd s i)) = false -> o_slots (f (getd s i)) = o_slots (getd s i)) ->
  frozen s (upd_obj s i f).
Proof.
  intros s i f K S. split; [rewrite length_upd_obj; auto|]. intros g Lg. rewrite getd_upd.
  destruct ((g =? i) && (i <? length (heap s))) eqn:E; auto.
  apply andb_true_iff in E; destruct E as [E _]; apply Nat.eqb_eq in E; subst. auto.
Qed.

Lemma frozen_alloc : forall s o, frozen s (fst (alloc s o)).
Proof.
  intros s o. split; [unfold alloc; simpl; rewrite app_length; lia|]. intros g Lg. rewrite getd_alloc.
  destruct (Nat.eqb_spec g (length (heap s))); [lia | auto].
Qed.

Lemma frozen_add_vis : forall s i x, frozen s (add_vis s i x).
Proof. intros; unfold add_vis; apply frozen_upd; auto. Qed.
Lemma frozen_add_reg : forall s i x, frozen s (add_reg s i x).
Proof. intros; unfold add_reg; apply frozen_upd; auto. Qed.
Lemma frozen_del_reg : forall s i x, frozen s (del_reg s i x).
Proof. intros; unfold del_reg; apply frozen_upd; auto. Qed.

Lemma frozen_set_slot : forall s h k v, writable (o_kind (getd s h)) = true -> frozen s (set_slot s h k v).
Proof. intros s h k v W. unfold set_slot. apply frozen_upd; auto. intros N. rewrite W in N; discriminate. Qed.

Lemma frozen_alloc_owned : forall contents s c k, frozen s (fst (alloc_owned s c k contents)).
Proof.
  induction contents as [|sl rest IH]; intros s c k; simpl; [apply frozen_refl|].
  match goal with |- context [add_vis ?a c ?n] => set (s2 := add_vis a c n) end.
  specialize (IH s2 c k). destruct (alloc_owned s2 c k rest) as [s3 xs]. simpl in *.
  eapply frozen_trans; [|exact IH]. eapply frozen_trans; [apply (frozen_alloc s)|apply frozen_add_vis].
Qed.

Lemma frozen_alloc_exported : forall n s i size, frozen s (fst (alloc_exported s i n size)).
Proof.
  induction n as [|n IH]; intros s i size; simpl; [apply frozen_refl|].
  match goal with |- context [add_vis ?a i ?x] => set (s2 := add_vis a i x) end.
  specialize (IH s2 i size). destruct (alloc_exported s2 i n size) as [s3 xs]. simpl in *.
  eapply frozen_trans; [|exact IH]. eapply frozen_trans; [apply (frozen_alloc s)|apply frozen_add_vis].
Qed.

Lemma frozen_alloc_globals : forall gs s i me recs gimp, frozen s (fst (alloc_globals s i me recs gimp gs)).
Proof.
  induction gs as [|g gs IH]; intros s i me recs gimp; simpl; [apply frozen_refl|].
  match goal with |- context [add_vis ?a i ?x] => set (s2 := add_vis a i x) end.
  specialize (IH s2 i me recs gimp). destruct (alloc_globals s2 i me recs gimp gs) as [s3 xs]. simpl in *.
  eapply frozen_trans; [|exact IH]. eapply frozen_trans; [apply (frozen_alloc s)|apply frozen_add_vis].
Qed.

Lemma frozen_link_tables : forall ts s i, frozen s (link_tables s i ts).
Proof.
  induction ts as [|t ts IH]; intros s i; simpl; [apply frozen_refl|].
  eapply frozen_trans; [|apply IH]. eapply frozen_trans; apply frozen_add_vis.
Qed.

Lemma frozen_link_globals : forall gs s i, frozen s (link_globals s i gs).
Proof.
  induction gs as [|g gs IH]; intros s i; simpl; [apply frozen_refl|].
  eapply frozen_trans; [|apply IH]. apply frozen_add_vis.
Qed.

Lemma frozen_set_ref : forall s i t k f, frozen s (set_ref s i t k f).
Proof.
  intros. unfold set_ref. destruct (holder_ok s i t && holder_wr s i t && rec_ok s i f) eqn:E; [|apply frozen_refl].
  apply andb_true_iff in E; destruct E as [E _]. apply andb_true_iff in E; destruct E as [_ E].
  apply frozen_set_slot. apply holder_wr_spec; auto.
Qed.

Lemma frozen_copy_ref : forall s i t k ts, frozen s (copy_ref s i t k ts).
Proof.
  intros. unfold copy_ref.
  destruct (holder_ok s i t && holder_wr s i t && holder_acc s i ts && kind_eqb (o_kind (getd s (holder_of s i ts))) KGlobalC) eqn:E;
    [|apply frozen_refl].
  apply andb_true_iff in E; destruct E as [E _]. apply andb_true_iff in E; destruct E as [E _].
  apply andb_true_iff in E; destruct E as [_ E].
  apply frozen_set_slot. apply holder_wr_spec; auto.
Qed.

Lemma frozen_fold_set_ref : forall els s i, frozen s (fold_left (fun st e => let '(t, k, f) := e in set_ref st i t k f) els s).
Proof.
  induction els as [|[[t k] f] els IH]; intros s i; simpl; [apply frozen_refl|].
  eapply frozen_trans; [apply frozen_set_ref | apply IH].
Qed.

Lemma frozen_fold_copy_ref : forall els s i, frozen s (fold_left (fun st e => let '(t, k, ts) := e in copy_ref st i t k ts) els s).
Proof.
  induction els as [|[[t k] ts] els IH]; intros s i; simpl; [apply frozen_refl|].
  eapply frozen_trans; [apply frozen_copy_ref | apply IH].
Qed.

Lemma frozen_close_instances : forall l s, frozen s (close_instances s l).
Proof.
  unfold close_instances. induction l as [|a l IH]; intros s; simpl; [apply frozen_refl|].
  destruct (kind_eqb (o_kind (getd s a)) KInstance); auto.
  eapply frozen_trans; [|apply IH]. apply frozen_upd; auto.
Qed.

Lemma frozen_gc : forall s, frozen s (gc s).
Proof.
  intros s. unfold gc. destruct (mark edges (S (length (heap s))) (heap s) (roots s)) as [M|]; [|apply frozen_refl].
  split.
  - simpl. clear. generalize 0. induction (heap s); intros; simpl; auto. specialize (IHl (S n)). lia.
  - intros g Lg. unfold getd; simpl. rewrite nth_sweep. simpl. destruct (memb g M); auto.
Qed.

Lemma frozen_instantiate : forall s sp, frozen s (instantiate s sp).
Proof.
  intros s sp. unfold instantiate. destruct (can_instantiate s sp); [|apply frozen_refl].
  unfold alloc at 1. cbv beta iota.
  match goal with |- context [with_heap s (heap s ++ [?o])] => set (s1 := with_heap s (heap s ++ [o])) end.
  assert (F1 : frozen s s1) by apply (frozen_alloc s).
  unfold alloc at 1. cbv beta iota.
  match goal with |- context [with_heap s1 (heap s1 ++ [?o])] => set (s2 := with_heap s1 (heap s1 ++ [o])) end.
  assert (F2 : frozen s s2) by (eapply frozen_trans; [exact F1 | apply (frozen_alloc s1)]).
  set (ni := length (heap s)) in *. set (nme := length (heap s1)) in *.
  set (s3 := add_vis s2 ni nme). assert (F3 : frozen s s3) by (eapply frozen_trans; [exact F2 | apply frozen_add_vis]).
  match goal with |- context [alloc_owned s3 nme KFunc ?c] => set (codes := c) end.
  pose proof (frozen_alloc_owned codes s3 nme KFunc) as G4.
  destruct (alloc_owned s3 nme KFunc codes) as [s4 recs]. simpl fst in G4.
  pose proof (frozen_alloc_exported (sp_nexp sp) s4 ni (sp_size sp)) as G5.
  destruct (alloc_exported s4 ni (sp_nexp sp) (sp_size sp)) as [s5 texp]. simpl fst in G5.
  pose proof (frozen_alloc_owned (repeat (repeat None (sp_size sp)) (sp_npriv sp)) s5 ni KTable) as G6.
  destruct (alloc_owned s5 ni KTable (repeat (repeat None (sp_size sp)) (sp_npriv sp))) as [s6 tpriv]. simpl fst in G6.
  pose proof (frozen_alloc_owned (repeat [None] (sp_nglob sp)) s6 ni KGlobal) as G7.
  destruct (alloc_owned s6 ni KGlobal (repeat [None] (sp_nglob sp))) as [s7 globs]. simpl fst in G7.
  set (timp := map (fun p : nat * nat => holder_of s (fst p) (snd p)) (sp_impt sp)).
  set (gimp := map (fun p : nat * nat => holder_of s (fst p) (snd p)) (sp_impg sp)).
  pose proof (frozen_link_tables timp s7 ni) as G8. set (s8 := link_tables s7 ni timp) in *.
  pose proof (frozen_link_globals gimp s8 ni) as G8a. set (s8a := link_globals s8 ni gimp) in *.
  pose proof (frozen_alloc_globals (sp_expg sp) s8a ni nme recs gimp) as G8b.
  destruct (alloc_globals s8a ni nme recs gimp (sp_expg sp)) as [s8b gexp]. simpl fst in G8b.
  assert (F8b : frozen s s8b).
  { eapply frozen_trans; [|exact G8b]. eapply frozen_trans; [|exact G8a]. eapply frozen_trans; [|exact G8].
    eapply frozen_trans; [|exact G7]. eapply frozen_trans; [|exact G6]. eapply frozen_trans; [|exact G5].
    eapply frozen_trans; [|exact G4]. exact F3. }
  eapply frozen_trans; [|apply frozen_fold_copy_ref]. eapply frozen_trans; [|apply frozen_fold_set_ref].
  eapply frozen_trans; [exact F8b|].
  eapply frozen_trans; [|apply frozen_same_heap; reflexivity].
  eapply frozen_trans; [|apply frozen_add_reg].
  eapply frozen_trans; apply frozen_upd; auto.
Qed.

Lemma frozen_step : forall s o, frozen s (step s o).
Proof.
  intros s o. destruct o; simpl.
  - unfold compile. destruct (_ && _); [|apply frozen_refl].
    unfold alloc. cbv beta iota zeta.
    eapply frozen_trans; [|apply frozen_same_heap; reflexivity]. eapply frozen_trans; [|apply frozen_add_reg].
    apply (frozen_alloc s).
  - apply frozen_instantiate.
  - destruct (holder_wr s i t && rec_ok s i f) eqn:E; [|apply frozen_refl].
    apply andb_true_iff in E; destruct E as [E _]. apply frozen_set_slot. apply holder_wr_spec; auto.
  - destruct (holder_acc s i ts && holder_wr s i td) eqn:E; [|apply frozen_refl].
    apply andb_true_iff in E; destruct E as [_ E]. apply frozen_set_slot. apply holder_wr_spec; auto.
  - destruct (holder_wr s i t) eqn:E; [|apply frozen_refl]. apply frozen_set_slot. apply holder_wr_spec; auto.
  - destruct (holder_acc s i t && rec_ok s i f) eqn:E; simpl; [|apply frozen_refl].
    destruct (kind_eqb (o_kind (getd s (holder_of s i t))) KTable) eqn:KT; [|apply frozen_refl]. apply kind_eqb_eq in KT.
    apply frozen_upd; auto. intros N. rewrite KT in N. discriminate.
  - destruct (rec_ok s i f && holder_wr s j t) eqn:E; [|apply frozen_refl].
    apply andb_true_iff in E; destruct E as [_ E]. apply frozen_set_slot. apply holder_wr_spec; auto.
  - destruct (holder_acc s i ts && holder_wr s j t) eqn:E; [|apply frozen_refl].
    apply andb_true_iff in E; destruct E as [_ E]. apply frozen_set_slot. apply holder_wr_spec; auto.
  - apply frozen_refl.
  - apply frozen_refl.
  - destruct (inst_ok s i); [apply frozen_same_heap; reflexivity | apply frozen_refl].
  - apply frozen_same_heap; reflexivity.
  - destruct (alive s i && kind_eqb (o_kind (getd s i)) KInstance); [|apply frozen_refl].
    eapply frozen_trans; [|apply frozen_del_reg]. apply frozen_upd; auto.
  - eapply frozen_trans; [apply frozen_del_reg | apply frozen_same_heap; reflexivity].
  - destruct (cached s); [|apply frozen_refl]. unfold close_engine. apply frozen_upd; auto.
  - assert (F : frozen s (upd_obj (close_instances s (o_reg (getd s RUNTIME))) RUNTIME
                (fun o => set_closed true (set_reg (filter (fun x => negb (kind_eqb (o_kind (getd s x)) KInstance)) (o_reg o)) o)))).
    { eapply frozen_trans; [apply frozen_close_instances | apply frozen_upd; auto]. }
    destruct (cached s); auto. eapply frozen_trans; [exact F|]. unfold close_engine. apply frozen_upd; auto.
  - apply frozen_same_heap; reflexivity.
  - apply frozen_gc.
Qed.

Lemma frozen_run : forall ops s, frozen s (run s ops).
Proof.
  unfold run. induction ops as [|o ops IH]; intros s; simpl; [apply frozen_refl|].
  eapply frozen_trans; [apply frozen_step | apply IH].
Qed.

(* an immutable global (or a function record) that exists after a history keeps kind and contents through any continuation *)
Theorem immutable_never_changes : forall c ops1 ops2 g,
  let s1 := run (init c) ops1 in
  let s := run (init c) (ops1 ++ ops2) in
  g < length (heap s1) -> writable (o_kind (getd s1 g)) = false ->
  o_kind (getd s g) = o_kind (getd s1 g) /\ o_slots (getd s g) = o_slots (getd s1 g).
Proof.
  intros c ops1 ops2 g s1 s L W. unfold s, run. rewrite fold_left_app.
  destruct (frozen_run ops2 s1) as [_ F]. destruct (F g L) as [K S]. split; auto.
Qed.
