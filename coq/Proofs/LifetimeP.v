From Verif Require Import Engine.Lifetime.
From Coq Require Import List ZArith. Import ListNotations.
Lemma placeholder : init true = init true. Proof. reflexivity. Qed.
