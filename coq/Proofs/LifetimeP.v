(* C09: proofs about the heap-graph model coq/Engine/Lifetime.v. *)
From Coq Require Import List ZArith Bool Arith Lia.
From Verif Require Import Engine.Lifetime.
Import ListNotations.

(* ------------------------------------------------------------------------------------------ *)
(* basics *)

Lemma memb_In : forall x l, memb x l = true <-> In x l.
Proof.
  unfold memb; intros x l; rewrite existsb_exists; split.
  - intros [y [H E]]. apply Nat.eqb_eq in E; subst; auto.
  - intros H; exists x; split; auto. apply Nat.eqb_refl.
Qed.

Lemma remove_nat_In : forall x y l, In y (remove_nat x l) -> In y l.
Proof. unfold remove_nat; intros x y l H; apply filter_In in H; tauto. Qed.

Lemma getd_dead : forall s i, length (heap s) <= i -> getd s i = dead_obj.
Proof. intros; unfold getd; apply nth_overflow; auto. Qed.

Lemma alive_lt : forall s i, alive s i = true -> i < length (heap s).
Proof.
  intros s i H. destruct (Nat.lt_ge_cases i (length (heap s))); auto.
  unfold alive in H; rewrite getd_dead in H; auto; discriminate.
Qed.

Lemma nth_upd : forall h i f j,
  nth j (upd h i f) dead_obj = if (j =? i) && (i <? length h) then f (nth i h dead_obj) else nth j h dead_obj.
Proof.
  induction h as [|o r IH]; intros i f j.
  - simpl. destruct i; rewrite andb_false_r; destruct j; reflexivity.
  - destruct i as [|i]; destruct j as [|j]; simpl; try reflexivity.
    rewrite IH. change (S i <? S (length r)) with (i <? length r). reflexivity.
Qed.

Lemma length_upd : forall h i f, length (upd h i f) = length h.
Proof. induction h; intros [|i] f; simpl; auto. Qed.

Lemma getd_upd : forall s i f j,
  getd (upd_obj s i f) j = if (j =? i) && (i <? length (heap s)) then f (getd s i) else getd s j.
Proof. intros; unfold getd, upd_obj; simpl; apply nth_upd. Qed.

Lemma getd_alloc : forall s o j,
  getd (fst (alloc s o)) j = if j =? length (heap s) then o else getd s j.
Proof.
  intros; unfold getd, alloc; simpl.
  destruct (Nat.eqb_spec j (length (heap s))).
  - subst. rewrite app_nth2, Nat.sub_diag; auto.
  - destruct (Nat.lt_ge_cases j (length (heap s))).
    + apply app_nth1; auto.
    + rewrite !nth_overflow; auto. rewrite app_length; simpl; lia.
Qed.

(* ------------------------------------------------------------------------------------------ *)
(* structural reachability and the invariant *)

Inductive sreach (s : state) : nat -> nat -> Prop :=
| sr_refl : forall a, sreach s a a
| sr_step : forall a x b, In x (o_vis (getd s a)) -> sreach s x b -> sreach s a b.

Lemma sreach_trans : forall s a b c, sreach s a b -> sreach s b c -> sreach s a c.
Proof. induction 1; intros; auto. econstructor; eauto. Qed.

Lemma sreach_edge : forall s a b, In b (o_vis (getd s a)) -> sreach s a b.
Proof. intros; econstructor; eauto; constructor. Qed.

Definition vis_mono (s s' : state) : Prop := forall i, incl (o_vis (getd s i)) (o_vis (getd s' i)).

Lemma sreach_mono : forall s s' a b, vis_mono s s' -> sreach s a b -> sreach s' a b.
Proof. induction 2; [constructor | econstructor; eauto; apply H; auto]. Qed.

Definition owner (s : state) (i : nat) : option nat := o_owner (getd s i).
Definition cover (s : state) (i : nat) : nat := match owner s i with Some c => c | None => i end.

Record wf (s : state) : Prop := mkWf {
  wf_closed : forall i x, alive s i = true -> In x (edges (getd s i)) -> alive s x = true;
  wf_cover  : forall i r, alive s i = true -> In (Some r) (o_slots (getd s i)) -> sreach s (cover s i) r;
  wf_owner  : forall i c, alive s i = true -> owner s i = Some c ->
                alive s c = true /\ (forall x, alive s x = true -> In i (edges (getd s x)) -> x = c) /\ ~ In i (roots s);
  wf_roots  : forall x, In x (roots s) -> alive s x = true }.

(* extension: what later steps may rely on *)
Definition ext (s s' : state) : Prop :=
  (forall i, alive s i = true -> alive s' i = true /\ owner s' i = owner s i) /\ vis_mono s s'.

Lemma ext_refl : forall s, ext s s.
Proof. split; [auto | intros i x; auto]. Qed.

Lemma ext_trans : forall a b c, ext a b -> ext b c -> ext a c.
Proof.
  intros a b c [A1 A2] [B1 B2]; split.
  - intros i H. destruct (A1 i H) as [H1 H2]. destruct (B1 i H1) as [H3 H4]. split; auto. congruence.
  - intros i x H. apply B2, A2; auto.
Qed.

Lemma in_vis_edges : forall o x, In x (o_vis o) -> In x (edges o).
Proof. intros; unfold edges; apply in_or_app; auto. Qed.

Lemma sreach_alive : forall s a b, wf s -> sreach s a b -> alive s a = true -> alive s b = true.
Proof.
  intros s a b W R; induction R; intros; auto.
  apply IHR. eapply wf_closed; eauto. apply in_vis_edges; auto.
Qed.

Lemma cover_alive : forall s i, wf s -> alive s i = true -> alive s (cover s i) = true.
Proof.
  intros s i W A. unfold cover. destruct (owner s i) eqn:E; auto.
  destruct (wf_owner s W i n A E); auto.
Qed.

(* the safety consequence: no raw reference held by an uncollected object points to a collected one *)
Theorem wf_no_dangling : forall s i r, wf s -> alive s i = true -> In (Some r) (o_slots (getd s i)) -> alive s r = true.
Proof.
  intros s i r W A H. eapply sreach_alive; eauto using wf_cover, cover_alive.
Qed.

(* the cover of an object is structurally reachable from whoever points to it *)
Lemma cover_from_pointer : forall s x i, wf s -> alive s x = true -> In i (o_vis (getd s x)) -> sreach s x (cover s i).
Proof.
  intros s x i W A H. unfold cover. destruct (owner s i) eqn:E.
  - assert (Ai : alive s i = true) by (eapply wf_closed; eauto using in_vis_edges).
    destruct (wf_owner s W i n Ai E) as [_ [U _]].
    rewrite <- (U x A (in_vis_edges _ _ H)). constructor.
  - apply sreach_edge; auto.
Qed.

Lemma reach_slot : forall s x i r, wf s -> alive s x = true -> In i (o_vis (getd s x)) ->
  In (Some r) (o_slots (getd s i)) -> sreach s x r.
Proof.
  intros s x i r W A H S.
  eapply sreach_trans; [eapply cover_from_pointer; eauto|].
  apply wf_cover; auto. eapply wf_closed; eauto using in_vis_edges.
Qed.

(* ------------------------------------------------------------------------------------------ *)
(* updating one object *)

Lemma wf_upd : forall s i f,
  wf s ->
  o_alive (f (getd s i)) = o_alive (getd s i) ->
  o_owner (f (getd s i)) = o_owner (getd s i) ->
  incl (o_vis (getd s i)) (o_vis (f (getd s i))) ->
  (alive s i = true ->
     (forall x, In x (edges (f (getd s i))) ->
        alive s x = true /\ (In x (edges (getd s i)) \/ owner s x = None \/ owner s x = Some i)) /\
     (forall r, In (Some r) (o_slots (f (getd s i))) -> In (Some r) (o_slots (getd s i)) \/ sreach s (cover s i) r)) ->
  wf (upd_obj s i f) /\ ext s (upd_obj s i f).
Proof.
  intros s i f W HA HO HV HC.
  set (s' := upd_obj s i f).
  assert (G : forall j, getd s' j = if (j =? i) && (i <? length (heap s)) then f (getd s i) else getd s j)
    by (intro; apply getd_upd).
  assert (AL : forall j, alive s' j = alive s j).
  { intro j. unfold alive. rewrite G. destruct ((j =? i) && (i <? length (heap s))) eqn:E; auto.
    apply andb_true_iff in E; destruct E as [E _]; apply Nat.eqb_eq in E; subst; auto. }
  assert (OW : forall j, owner s' j = owner s j).
  { intro j. unfold owner. rewrite G. destruct ((j =? i) && (i <? length (heap s))) eqn:E; auto.
    apply andb_true_iff in E; destruct E as [E _]; apply Nat.eqb_eq in E; subst; auto. }
  assert (VM : vis_mono s s').
  { intros j x H. rewrite G. destruct ((j =? i) && (i <? length (heap s))) eqn:E; auto.
    apply andb_true_iff in E; destruct E as [E _]; apply Nat.eqb_eq in E; subst; auto. }
  assert (CV : forall j, cover s' j = cover s j) by (intro; unfold cover; rewrite OW; auto).
  assert (RT : roots s' = roots s) by reflexivity.
  split; [|split; [intros j H; rewrite AL, OW; auto | exact VM]].
  constructor.
  - intros j x A H. rewrite AL in *. rewrite G in H.
    destruct ((j =? i) && (i <? length (heap s))) eqn:E.
    + apply andb_true_iff in E; destruct E as [E _]; apply Nat.eqb_eq in E; subst.
      destruct (HC A) as [H1 _]. apply H1; auto.
    + eapply wf_closed; eauto.
  - intros j r A H. rewrite AL in A. rewrite CV. rewrite G in H.
    destruct ((j =? i) && (i <? length (heap s))) eqn:E.
    + apply andb_true_iff in E; destruct E as [E _]; apply Nat.eqb_eq in E; subst.
      destruct (HC A) as [_ H2]. destruct (H2 r H).
      * eapply sreach_mono; eauto. apply wf_cover; auto.
      * eapply sreach_mono; eauto.
    + eapply sreach_mono; eauto. apply wf_cover; auto.
  - intros j c A H. rewrite AL in A. rewrite OW in H. rewrite RT, AL.
    destruct (wf_owner s W j c A H) as [H1 [H2 H3]]. split; [auto | split; auto].
    intros x Ax Hx. rewrite AL in Ax. rewrite G in Hx.
    destruct ((x =? i) && (i <? length (heap s))) eqn:E.
    + apply andb_true_iff in E; destruct E as [E _]; apply Nat.eqb_eq in E; subst.
      destruct (HC Ax) as [K _]. destruct (K j Hx) as [_ [K1 | [K1 | K1]]].
      * apply H2; auto.
      * congruence.
      * congruence.
    + apply H2; auto.
  - intros x H. rewrite AL. apply (wf_roots s W); auto.
Qed.

Lemma ext_same_heap : forall s s', heap s' = heap s -> ext s s'.
Proof.
  intros s s' E. assert (G : forall i, getd s' i = getd s i) by (intro; unfold getd; rewrite E; auto).
  split; [intros i A; unfold alive, owner; rewrite G; auto | intros i x; rewrite G; auto].
Qed.

Lemma sreach_same_heap : forall s s' a b, heap s' = heap s -> sreach s a b -> sreach s' a b.
Proof. intros s s' a b E. apply sreach_mono. intros i x. unfold getd; rewrite E; auto. Qed.

(* changing the roots *)
Lemma wf_host : forall s l, wf s ->
  (forall x, In x l -> In x (host s) \/ (alive s x = true /\ owner s x = None)) -> wf (with_host s l) /\ ext s (with_host s l).
Proof.
  intros s l W H. split; [|apply ext_same_heap; reflexivity].
  constructor.
  - intros i x A K. eapply (wf_closed s W); eassumption.
  - intros i r A K. apply (sreach_same_heap s); [reflexivity|]. apply (wf_cover s W); assumption.
  - intros i c A O. change (alive s i = true) in A; change (owner s i = Some c) in O.
    destruct (wf_owner s W i c A O) as [H1 [H2 H3]]. split; [auto | split; auto].
    unfold roots in *; simpl. intro K; apply in_app_or in K; destruct K as [K | K].
    + destruct (H _ K) as [K1 | [_ K1]]; [apply H3; apply in_or_app; auto | congruence].
    + apply H3; apply in_or_app; auto.
  - intros x K. unfold roots in K; simpl in K. apply in_app_or in K; destruct K as [K | K].
    + destruct (H _ K) as [K1 | [K1 _]]; auto. apply (wf_roots s W); apply in_or_app; auto.
    + apply (wf_roots s W); apply in_or_app; auto.
Qed.

Lemma wf_flight : forall s l, wf s ->
  (forall x, In x l -> In x (flight s) \/ (alive s x = true /\ owner s x = None)) -> wf (with_flight s l) /\ ext s (with_flight s l).
Proof.
  intros s l W H. split; [|apply ext_same_heap; reflexivity].
  constructor.
  - intros i x A K. eapply (wf_closed s W); eassumption.
  - intros i r A K. apply (sreach_same_heap s); [reflexivity|]. apply (wf_cover s W); assumption.
  - intros i c A O. change (alive s i = true) in A; change (owner s i = Some c) in O.
    destruct (wf_owner s W i c A O) as [H1 [H2 H3]]. split; [auto | split; auto].
    unfold roots in *; simpl. intro K; apply in_app_or in K; destruct K as [K | K].
    + apply H3; apply in_or_app; auto.
    + destruct (H _ K) as [K1 | [_ K1]]; [apply H3; apply in_or_app; auto | congruence].
  - intros x K. unfold roots in K; simpl in K. apply in_app_or in K; destruct K as [K | K].
    + apply (wf_roots s W); apply in_or_app; auto.
    + destruct (H _ K) as [K1 | [K1 _]]; auto. apply (wf_roots s W); apply in_or_app; auto.
Qed.

(* ------------------------------------------------------------------------------------------ *)
(* allocation *)

Lemma wf_alloc : forall s o,
  wf s -> o_alive o = true ->
  (forall x, In x (edges o) -> alive s x = true /\ owner s x = None) ->
  match o_owner o with
  | Some c => alive s c = true /\ (forall r, In (Some r) (o_slots o) -> sreach s c r)
  | None => forall r, ~ In (Some r) (o_slots o)
  end ->
  wf (fst (alloc s o)) /\ ext s (fst (alloc s o)) /\ alive (fst (alloc s o)) (length (heap s)) = true /\
  getd (fst (alloc s o)) (length (heap s)) = o.
Proof.
  intros s o W HA HE HS.
  set (n := length (heap s)). set (s' := fst (alloc s o)).
  assert (G : forall j, getd s' j = if j =? n then o else getd s j) by (intro; apply getd_alloc).
  assert (Gn : getd s' n = o) by (rewrite G, Nat.eqb_refl; auto).
  assert (Go : forall j, alive s j = true -> getd s' j = getd s j).
  { intros j A. rewrite G. destruct (Nat.eqb_spec j n); auto. apply alive_lt in A. subst j; unfold n in A; lia. }
  assert (AL : forall j, alive s j = true -> alive s' j = true) by (intros j A; unfold alive; rewrite Go; auto).
  assert (AL' : forall j, alive s' j = true -> j = n \/ alive s j = true).
  { intros j A. unfold alive in A; rewrite G in A. destruct (Nat.eqb_spec j n); auto. }
  assert (VM : vis_mono s s').
  { intros j x H. rewrite G. destruct (Nat.eqb_spec j n); auto. subst j. rewrite getd_dead in H; [destruct H | unfold n; lia]. }
  assert (RT : roots s' = roots s) by reflexivity.
  assert (NR : ~ In n (roots s)).
  { intro K. apply (wf_roots s W) in K. apply alive_lt in K; unfold n in K; lia. }
  assert (NE : forall x, alive s x = true -> ~ In n (edges (getd s x))).
  { intros x A K. apply (wf_closed s W x n A) in K. apply alive_lt in K; unfold n in K; lia. }
  split; [|split; [split; [intros j A; split; [auto | unfold owner; rewrite Go; auto] | exact VM] | split; [unfold alive; rewrite Gn; auto | exact Gn]]].
  constructor.
  - intros j x A H. destruct (AL' j A) as [-> | A0].
    + rewrite Gn in H. apply AL, HE; auto.
    + rewrite Go in H; auto. apply AL. eapply wf_closed; eauto.
  - intros j r A H. destruct (AL' j A) as [-> | A0].
    + rewrite Gn in H. unfold cover, owner. rewrite Gn.
      destruct (o_owner o) as [c|]; [destruct HS as [_ HS]; eapply sreach_mono; eauto | exfalso; eapply HS; eauto].
    + rewrite Go in H; auto. assert (cover s' j = cover s j) by (unfold cover, owner; rewrite Go; auto).
      rewrite H0. eapply sreach_mono; eauto. apply wf_cover; auto.
  - intros j c A O. rewrite RT. destruct (AL' j A) as [-> | A0].
    + unfold owner in O; rewrite Gn in O. rewrite O in HS. destruct HS as [HS _].
      split; [auto | split; auto].
      intros x Ax Hx. exfalso. destruct (AL' x Ax) as [-> | Ax0].
      * rewrite Gn in Hx. apply HE in Hx. destruct Hx as [Hx _]. apply alive_lt in Hx; unfold n in Hx; lia.
      * rewrite Go in Hx; auto. eapply NE; eauto.
    + unfold owner in O; rewrite Go in O; auto.
      destruct (wf_owner s W j c A0 O) as [H1 [H2 H3]]. split; [auto | split; auto].
      intros x Ax Hx. destruct (AL' x Ax) as [-> | Ax0].
      * rewrite Gn in Hx. apply HE in Hx. destruct Hx as [_ Hx]. unfold owner in Hx; congruence.
      * rewrite Go in Hx; auto.
  - intros x K. rewrite RT in K. apply AL. apply (wf_roots s W); auto.
Qed.

(* ------------------------------------------------------------------------------------------ *)
(* marking and collection *)

Lemma In_addall : forall N M x, In x (addall N M) <-> In x N \/ In x M.
Proof.
  induction N as [|a N IH]; intros M x; simpl.
  - tauto.
  - destruct (memb a (addall N M)) eqn:E.
    + rewrite IH. apply memb_In in E. apply IH in E. split; [tauto|].
      intros [[-> | H] | H]; tauto.
    + simpl. rewrite IH. tauto.
Qed.

Lemma In_succs : forall ed h M x, In x (succs ed h M) <-> exists i, In i M /\ In x (ed (nth i h dead_obj)).
Proof. intros; unfold succs; rewrite in_flat_map; tauto. Qed.

Lemma subsetb_incl : forall A B, subsetb A B = true -> incl A B.
Proof.
  unfold subsetb; intros A B H x K. rewrite forallb_forall in H. apply memb_In, H; auto.
Qed.

Lemma mark_spec : forall ed h fuel M M',
  mark ed fuel h M = Some M' ->
  incl M M' /\
  (forall i x, In i M' -> In x (ed (nth i h dead_obj)) -> In x M') /\
  (forall P : nat -> Prop, (forall i, In i M -> P i) ->
      (forall i x, P i -> In x (ed (nth i h dead_obj)) -> P x) -> forall i, In i M' -> P i) /\
  (forall i, In i M' -> In i M \/ exists x, In x M' /\ In i (ed (nth x h dead_obj))).
Proof.
  intros ed h; induction fuel as [|fuel IH]; intros M M' H; simpl in H;
    destruct (subsetb (succs ed h M) M) eqn:E.
  - inversion H; subst; clear H. apply subsetb_incl in E.
    split; [apply incl_refl|]. split; [|split; auto].
    intros i x Hi Hx. apply E. apply In_succs; eauto.
  - discriminate.
  - inversion H; subst; clear H. apply subsetb_incl in E.
    split; [apply incl_refl|]. split; [|split; auto].
    intros i x Hi Hx. apply E. apply In_succs; eauto.
  - apply IH in H. destruct H as [H1 [H2 [H3 H4]]].
    assert (I0 : incl M (addall (succs ed h M) M)) by (intros x K; apply In_addall; auto).
    split; [eapply incl_tran; eauto|]. split; [auto|]. split.
    + intros P PM PC i Hi. apply (H3 P); auto.
      intros j Hj. apply In_addall in Hj. destruct Hj as [Hj | Hj]; auto.
      apply In_succs in Hj. destruct Hj as [k [K1 K2]]. eapply PC; eauto.
    + intros i Hi. destruct (H4 i Hi) as [K | K]; auto.
      apply In_addall in K. destruct K as [K | K]; auto.
      apply In_succs in K. destruct K as [k [K1 K2]]. right; exists k; split; auto.
Qed.

Lemma kill_dead : kill dead_obj = dead_obj.
Proof. reflexivity. Qed.

Lemma nth_sweep : forall M h k j,
  nth j (sweep k h M) dead_obj = if memb (k + j) M then nth j h dead_obj else kill (nth j h dead_obj).
Proof.
  intros M; induction h as [|o r IH]; intros k j; simpl.
  - destruct j; destruct (memb _ M); reflexivity.
  - destruct j as [|j].
    + rewrite Nat.add_0_r. destruct (memb k M); reflexivity.
    + rewrite IH. replace (S k + j) with (k + S j) by lia. reflexivity.
Qed.

Lemma wf_gc : forall s, wf s -> wf (gc s).
Proof.
  intros s W. unfold gc. destruct (mark edges (S (length (heap s))) (heap s) (roots s)) as [M|] eqn:E; auto.
  apply mark_spec in E. destruct E as [M1 [M2 [M3 M4]]].
  set (s' := with_heap s (sweep 0 (heap s) M)).
  assert (G : forall j, getd s' j = if memb j M then getd s j else kill (getd s j)).
  { intro j. unfold getd, s'; simpl. rewrite nth_sweep. reflexivity. }
  assert (AL : forall j, alive s' j = true <-> alive s j = true /\ In j M).
  { intro j. unfold alive. rewrite G. destruct (memb j M) eqn:K.
    - apply memb_In in K. tauto.
    - simpl. split; [discriminate|]. intros [_ K']. apply memb_In in K'. congruence. }
  assert (ED : forall j, edges (getd s' j) = edges (getd s j)) by (intro j; rewrite G; destruct (memb j M); reflexivity).
  assert (SL : forall j, o_slots (getd s' j) = o_slots (getd s j)) by (intro j; rewrite G; destruct (memb j M); reflexivity).
  assert (OW : forall j, owner s' j = owner s j) by (intro j; unfold owner; rewrite G; destruct (memb j M); reflexivity).
  assert (VM : vis_mono s s') by (intros j x H; rewrite G; destruct (memb j M); auto).
  assert (CV : forall j, cover s' j = cover s j) by (intro; unfold cover; rewrite OW; auto).
  assert (RT : roots s' = roots s) by reflexivity.
  assert (MA : forall j, In j M -> alive s j = true).
  { apply (M3 (fun j => alive s j = true)).
    - intros j K. apply (wf_roots s W); auto.
    - intros j x A K. eapply wf_closed; eauto. }
  constructor.
  - intros i x A H. apply AL in A. destruct A as [A K]. rewrite ED in H. apply AL. split.
    + eapply wf_closed; eauto.
    + eapply M2; eauto.
  - intros i r A H. apply AL in A. destruct A as [A K]. rewrite SL in H. rewrite CV.
    eapply sreach_mono; eauto. apply wf_cover; auto.
  - intros i c A O. apply AL in A. destruct A as [A K]. rewrite OW in O. rewrite RT.
    destruct (wf_owner s W i c A O) as [H1 [H2 H3]].
    assert (Kc : In c M).
    { destruct (M4 i K) as [K1 | [x [K1 K2]]]; [contradiction|].
      rewrite <- (H2 x (MA x K1) K2). auto. }
    split; [apply AL; auto | split; auto].
    intros x Ax Hx. apply AL in Ax. destruct Ax as [Ax _]. rewrite ED in Hx. auto.
  - intros x K. rewrite RT in K. apply AL. split; [apply (wf_roots s W); auto | apply M1; auto].
Qed.

(* ------------------------------------------------------------------------------------------ *)
(* primitive mutations *)

Lemma wf_add_vis : forall s i x, wf s -> alive s x = true -> (owner s x = None \/ owner s x = Some i) ->
  wf (add_vis s i x) /\ ext s (add_vis s i x).
Proof.
  intros s i x W A O. unfold add_vis. apply wf_upd; auto.
  - simpl. intros y H; right; auto.
  - intros Ai. split.
    + intros y H. unfold edges in H; simpl in H. destruct H as [<- | H]; [split; auto; tauto|].
      split; [eapply wf_closed; eauto | left; auto].
    + simpl; auto.
Qed.

Lemma wf_add_reg : forall s i x, wf s -> alive s x = true -> (owner s x = None \/ owner s x = Some i) ->
  wf (add_reg s i x) /\ ext s (add_reg s i x).
Proof.
  intros s i x W A O. unfold add_reg. apply wf_upd; auto.
  - simpl. apply incl_refl.
  - intros Ai. split.
    + intros y H. unfold edges in H; simpl in H. apply in_app_or in H. destruct H as [H | [<- | H]].
      * split; [eapply wf_closed; eauto; apply in_vis_edges; auto | left; apply in_vis_edges; auto].
      * split; auto; tauto.
      * split; [eapply wf_closed; eauto; unfold edges; apply in_or_app; auto | left; unfold edges; apply in_or_app; auto].
    + simpl; auto.
Qed.

(* any update that keeps o_vis, o_slots, owner and alive and only shrinks o_reg *)
Lemma wf_shrink : forall s i f, wf s ->
  (forall o, o_alive (f o) = o_alive o /\ o_owner (f o) = o_owner o /\ o_vis (f o) = o_vis o /\
             o_slots (f o) = o_slots o /\ incl (o_reg (f o)) (o_reg o)) ->
  wf (upd_obj s i f) /\ ext s (upd_obj s i f).
Proof.
  intros s i f W H. destruct (H (getd s i)) as [H1 [H2 [H3 [H4 H5]]]].
  apply wf_upd; auto.
  - rewrite H3; apply incl_refl.
  - intros Ai. split.
    + intros y K. assert (In y (edges (getd s i))).
      { unfold edges in *. rewrite H3 in K. apply in_app_or in K. apply in_or_app. destruct K; auto. }
      split; [eapply wf_closed; eauto | auto].
    + intros r K. rewrite H4 in K; auto.
Qed.

Lemma wf_del_reg : forall s i x, wf s -> wf (del_reg s i x) /\ ext s (del_reg s i x).
Proof.
  intros; unfold del_reg; apply wf_shrink; auto. intro o; simpl.
  repeat split; auto. intros y K; eapply remove_nat_In; eauto.
Qed.

Lemma wf_set_closed : forall s i b, wf s -> wf (upd_obj s i (set_closed b)) /\ ext s (upd_obj s i (set_closed b)).
Proof. intros; apply wf_shrink; auto. intro o; simpl. repeat split; auto. apply incl_refl. Qed.

Lemma wf_set_dir : forall s i l, wf s -> wf (upd_obj s i (set_dir l)) /\ ext s (upd_obj s i (set_dir l)).
Proof. intros; apply wf_shrink; auto. intro o; simpl. repeat split; auto. apply incl_refl. Qed.

Lemma In_set_nth : forall A (l : list A) k v x, In x (set_nth l k v) -> In x l \/ x = v.
Proof.
  induction l as [|a l IH]; intros k v x H; simpl in H.
  - destruct k; destruct H.
  - destruct k; simpl in H.
    + destruct H; [right; auto | left; right; auto].
    + destruct H; [left; left; auto|]. destruct (IH _ _ _ H); [left; right; auto | right; auto].
Qed.

Lemma wf_set_slot : forall s h k v, wf s ->
  (forall r, v = Some r -> alive s h = true -> sreach s (cover s h) r) ->
  wf (set_slot s h k v) /\ ext s (set_slot s h k v).
Proof.
  intros s h k v W H. unfold set_slot. apply wf_upd; auto.
  - simpl; apply incl_refl.
  - intros A. split.
    + intros y K. split; [eapply wf_closed; eauto | left; auto].
    + simpl. intros r K. apply In_set_nth in K. destruct K; [left; auto | right; auto].
Qed.

(* ------------------------------------------------------------------------------------------ *)
(* guards *)

Lemma inst_ok_spec : forall s i, wf s -> inst_ok s i = true ->
  alive s i = true /\ In (me_of s i) (o_vis (getd s i)) /\ owner s (me_of s i) = None /\ alive s (me_of s i) = true.
Proof.
  intros s i W H. unfold inst_ok in H. apply andb_true_iff in H; destruct H as [H _].
  repeat (apply andb_true_iff in H; destruct H as [H ?]).
  apply memb_In in H1. assert (owner s (me_of s i) = None) by (unfold owner; destruct (o_owner _); auto; discriminate).
  repeat split; auto. eapply wf_closed; eauto. apply in_vis_edges; auto.
Qed.

Lemma rec_ok_spec : forall s i f, wf s -> rec_ok s i f = true ->
  inst_ok s i = true /\ In (rec_of s i f) (o_vis (getd s (me_of s i))) /\ sreach s i (rec_of s i f).
Proof.
  intros s i f W H. unfold rec_ok in H.
  apply andb_true_iff in H; destruct H as [H H0]. apply andb_true_iff in H; destruct H as [H H1].
  apply memb_In in H0. destruct (inst_ok_spec s i W H) as [_ [K _]].
  repeat split; auto. econstructor; eauto. apply sreach_edge; auto.
Qed.

Lemma holder_ok_spec : forall s i t, wf s -> holder_ok s i t = true ->
  inst_ok s i = true /\ In (holder_of s i t) (o_vis (getd s i)) /\
  (owner s (holder_of s i t) = None -> In i (o_vis (getd s (holder_of s i t)))).
Proof.
  intros s i t W H. unfold holder_ok, holder_acc, involvedb in H.
  apply andb_true_iff in H; destruct H as [H H0]. apply andb_true_iff in H; destruct H as [H H1].
  apply andb_true_iff in H; destruct H as [H H2].
  apply memb_In in H1. repeat split; auto.
  intros K. unfold owner in K. rewrite K in H0. apply memb_In; auto.
Qed.

Lemma holder_acc_spec : forall s i t, wf s -> holder_acc s i t = true ->
  inst_ok s i = true /\ In (holder_of s i t) (o_vis (getd s i)).
Proof.
  intros s i t W H. unfold holder_acc in H.
  apply andb_true_iff in H; destruct H as [H H1]. apply andb_true_iff in H; destruct H as [H H2].
  apply memb_In in H1. split; auto.
Qed.

Lemma holder_ok_split : forall s i t, holder_acc s i t = true -> involvedb s i (holder_of s i t) = true -> holder_ok s i t = true.
Proof. intros; unfold holder_ok; apply andb_true_iff; auto. Qed.

(* whatever the instance reaches structurally is covered for each of its holders *)
Lemma holder_covers : forall s i t r, wf s -> holder_ok s i t = true -> sreach s i r ->
  sreach s (cover s (holder_of s i t)) r.
Proof.
  intros s i t r W H R. destruct (holder_ok_spec s i t W H) as [I [Hv Hi]].
  destruct (inst_ok_spec s i W I) as [A _].
  unfold cover. destruct (owner s (holder_of s i t)) eqn:E.
  - assert (Ah : alive s (holder_of s i t) = true) by (eapply wf_closed; eauto using in_vis_edges).
    destruct (wf_owner s W _ n Ah E) as [_ [U _]]. rewrite <- (U i A (in_vis_edges _ _ Hv)). auto.
  - econstructor; eauto.
Qed.

Lemma nth_Some_In : forall (l : list (option nat)) k r, nth k l None = Some r -> In (Some r) l.
Proof.
  intros l k r H. destruct (Nat.lt_ge_cases k (length l)).
  - rewrite <- H. apply nth_In; auto.
  - rewrite nth_overflow in H; auto; discriminate.
Qed.

Lemma wf_set_ref : forall s i t k f, wf s -> wf (set_ref s i t k f) /\ ext s (set_ref s i t k f).
Proof.
  intros s i t k f W. unfold set_ref.
  destruct (holder_ok s i t && rec_ok s i f) eqn:E; [|split; auto using ext_refl].
  apply andb_true_iff in E; destruct E as [E1 E2].
  apply wf_set_slot; auto. intros r Hr _. inversion Hr; subst.
  apply holder_covers; auto. apply rec_ok_spec; auto.
Qed.

(* ------------------------------------------------------------------------------------------ *)
(* the non-allocating operations *)

Lemma wf_close_instances : forall l s, wf s -> wf (close_instances s l) /\ ext s (close_instances s l).
Proof.
  unfold close_instances. induction l as [|a l IH]; intros s W; simpl.
  - split; auto using ext_refl.
  - destruct (kind_eqb (o_kind (getd s a)) KInstance).
    + destruct (wf_set_closed s a true W) as [W1 E1]. destruct (IH _ W1) as [W2 E2].
      split; auto. eapply ext_trans; eauto.
    + apply IH; auto.
Qed.

Lemma wf_close_engine : forall s, wf s -> wf (close_engine s) /\ ext s (close_engine s).
Proof.
  intros; unfold close_engine; apply wf_shrink; auto. intro o; simpl. repeat split; auto. intros x K; destruct K.
Qed.

Lemma wf_remove_host : forall s x, wf s -> wf (with_host s (remove_nat x (host s))).
Proof. intros. apply wf_host; auto. intros y K. left. eapply remove_nat_In; eauto. Qed.

(* ------------------------------------------------------------------------------------------ *)
(* allocating operations *)

Lemma ext_alive : forall s s' i, ext s s' -> alive s i = true -> alive s' i = true.
Proof. intros s s' i [H _] A; apply H; auto. Qed.
Lemma ext_owner : forall s s' i, ext s s' -> alive s i = true -> owner s' i = owner s i.
Proof. intros s s' i [H _] A; apply H; auto. Qed.
Lemma ext_sreach : forall s s' a b, ext s s' -> sreach s a b -> sreach s' a b.
Proof. intros s s' a b [_ H]; apply sreach_mono; auto. Qed.
Lemma ext_vis : forall s s' i x, ext s s' -> In x (o_vis (getd s i)) -> In x (o_vis (getd s' i)).
Proof. intros s s' i x [_ H] K; apply H; auto. Qed.

Lemma wf_alloc_owned : forall contents s c k,
  wf s -> alive s c = true ->
  (forall sl r, In sl contents -> In (Some r) sl -> sreach s c r) ->
  wf (fst (alloc_owned s c k contents)) /\ ext s (fst (alloc_owned s c k contents)).
Proof.
  induction contents as [|sl rest IH]; intros s c k W A H; simpl.
  - split; auto using ext_refl.
  - set (o := mkObj k [] [] sl (Some c) [] true false).
    destruct (wf_alloc s o W) as [W1 [E1 [A1 G1]]]; auto.
    { intros x K; destruct K. }
    { simpl. split; auto. intros r K. eapply H; eauto. left; auto. }
    change (fst (alloc s o)) with (with_heap s (heap s ++ [o])) in *.
    set (s1 := with_heap s (heap s ++ [o])) in *.
    destruct (wf_add_vis s1 c (length (heap s)) W1 A1) as [W2 E2].
    { right. unfold owner. rewrite G1. reflexivity. }
    assert (E12 : ext s (add_vis s1 c (length (heap s)))) by (eapply ext_trans; eauto).
    destruct (IH (add_vis s1 c (length (heap s))) c k W2) as [W3 E3].
    { eapply ext_alive; eauto. }
    { intros sl' r K1 K2. eapply ext_sreach; eauto. eapply H; eauto. right; auto. }
    destruct (alloc_owned (add_vis s1 c (length (heap s))) c k rest) as [s3 xs] eqn:EQ. simpl in *.
    split; auto. eapply ext_trans; eauto.
Qed.

Lemma wf_alloc_exported : forall n s i size,
  wf s -> alive s i = true -> owner s i = None ->
  wf (fst (alloc_exported s i n size)) /\ ext s (fst (alloc_exported s i n size)).
Proof.
  induction n as [|n IH]; intros s i size W A O; simpl.
  - split; auto using ext_refl.
  - set (o := mkObj KTable [i] [] (repeat None size) None [] true false).
    destruct (wf_alloc s o W) as [W1 [E1 [A1 G1]]]; auto.
    { intros x K. unfold edges in K; simpl in K. destruct K as [<- | []]. auto. }
    { simpl. intros r K. apply repeat_spec in K. discriminate. }
    change (fst (alloc s o)) with (with_heap s (heap s ++ [o])) in *.
    set (s1 := with_heap s (heap s ++ [o])) in *.
    destruct (wf_add_vis s1 i (length (heap s)) W1 A1) as [W2 E2].
    { left. unfold owner. rewrite G1. reflexivity. }
    assert (E12 : ext s (add_vis s1 i (length (heap s)))) by (eapply ext_trans; eauto).
    destruct (IH (add_vis s1 i (length (heap s))) i size W2) as [W3 E3].
    { eapply ext_alive; eauto. }
    { rewrite (ext_owner s); eauto. }
    destruct (alloc_exported (add_vis s1 i (length (heap s))) i n size) as [s3 xs] eqn:EQ. simpl in *.
    split; auto. eapply ext_trans; eauto.
Qed.

Lemma wf_link_tables : forall ts s i,
  wf s -> alive s i = true -> owner s i = None ->
  (forall t, In t ts -> alive s t = true /\ owner s t = None) ->
  wf (link_tables s i ts) /\ ext s (link_tables s i ts).
Proof.
  induction ts as [|t ts IH]; intros s i W A O H; simpl.
  - split; auto using ext_refl.
  - destruct (H t (or_introl eq_refl)) as [At Ot].
    destruct (wf_add_vis s i t W At (or_introl Ot)) as [W1 E1].
    destruct (wf_add_vis (add_vis s i t) t i W1) as [W2 E2].
    { eapply ext_alive; eauto. }
    { left. rewrite (ext_owner s); eauto. }
    assert (E : ext s (add_vis (add_vis s i t) t i)) by (eapply ext_trans; eauto).
    destruct (IH (add_vis (add_vis s i t) t i) i W2) as [W3 E3].
    { eapply ext_alive; eauto. }
    { rewrite (ext_owner s); eauto. }
    { intros t' K. destruct (H t' (or_intror K)). split; [eapply ext_alive; eauto | rewrite (ext_owner s); eauto]. }
    split; auto. eapply ext_trans; eauto.
Qed.

Lemma wf_alloc_globals : forall n s i,
  wf s -> alive s i = true ->
  wf (fst (alloc_globals s i n)) /\ ext s (fst (alloc_globals s i n)).
Proof.
  induction n as [|n IH]; intros s i W A; simpl.
  - split; auto using ext_refl.
  - set (o := mkObj KGlobal [] [] [None] None [] true false).
    destruct (wf_alloc s o W) as [W1 [E1 [A1 G1]]]; auto.
    { intros x K; destruct K. }
    { simpl. intros r [K | []]. discriminate. }
    change (fst (alloc s o)) with (with_heap s (heap s ++ [o])) in *.
    set (s1 := with_heap s (heap s ++ [o])) in *.
    destruct (wf_add_vis s1 i (length (heap s)) W1 A1) as [W2 E2].
    { left. unfold owner. rewrite G1. reflexivity. }
    assert (E12 : ext s (add_vis s1 i (length (heap s)))) by (eapply ext_trans; eauto).
    destruct (IH (add_vis s1 i (length (heap s))) i W2) as [W3 E3].
    { eapply ext_alive; eauto. }
    destruct (alloc_globals (add_vis s1 i (length (heap s))) i n) as [s3 xs] eqn:EQ. simpl in *.
    split; auto. eapply ext_trans; eauto.
Qed.

Lemma wf_link_globals : forall gs s i,
  wf s -> (forall g, In g gs -> alive s g = true /\ owner s g = None) ->
  wf (link_globals s i gs) /\ ext s (link_globals s i gs).
Proof.
  induction gs as [|g gs IH]; intros s i W H; simpl.
  - split; auto using ext_refl.
  - destruct (H g (or_introl eq_refl)) as [Ag Og].
    destruct (wf_add_vis s i g W Ag (or_introl Og)) as [W1 E1].
    destruct (IH (add_vis s i g) i W1) as [W2 E2].
    { intros g' K. destruct (H g' (or_intror K)). split; [eapply ext_alive; eauto | rewrite (ext_owner s); eauto]. }
    split; auto. eapply ext_trans; eauto.
Qed.

Lemma wf_fold_set_ref : forall els s i, wf s ->
  wf (fold_left (fun st e => let '(t, k, f) := e in set_ref st i t k f) els s).
Proof.
  induction els as [|[[t k] f] els IH]; intros s i W; simpl; auto.
  apply IH. apply wf_set_ref; auto.
Qed.

Lemma wf_compile : forall s, wf s -> wf (compile s).
Proof.
  intros s W. unfold compile.
  destruct (alive s RUNTIME && open s RUNTIME && alive s ENGINE && open s ENGINE && is_none (o_owner (getd s ENGINE))) eqn:E; auto.
  apply andb_true_iff in E; destruct E as [E E5]. apply andb_true_iff in E; destruct E as [E E4].
  apply andb_true_iff in E; destruct E as [E E3].
  assert (OE : owner s ENGINE = None) by (unfold owner; destruct (o_owner (getd s ENGINE)); auto; discriminate).
  set (o := mkObj KCompiled [] [ENGINE] [] None [] true false).
  destruct (wf_alloc s o W) as [W1 [E1 [A1 G1]]]; auto.
  { intros x K. unfold edges in K; simpl in K. destruct K as [<- | []]. auto. }
  { simpl. intros r K; destruct K. }
  unfold alloc. cbv beta iota zeta.
  change (fst (alloc s o)) with (with_heap s (heap s ++ [o])) in *.
  set (s1 := with_heap s (heap s ++ [o])) in *.
  destruct (wf_add_reg s1 ENGINE (length (heap s)) W1 A1) as [W2 E2].
  { left. unfold owner. rewrite G1. reflexivity. }
  apply wf_host; auto.
  intros x K. change (host (add_reg s1 ENGINE (length (heap s)))) with (host s1). destruct K as [<- | K]; auto.
  right. split; [eapply ext_alive; eauto|]. rewrite (ext_owner s1); eauto. unfold owner; rewrite G1; reflexivity.
Qed.

Lemma is_none_spec : forall A (o : option A), is_none o = true -> o = None.
Proof. intros A [a|] H; [discriminate | auto]. Qed.

Lemma impf_ok_spec : forall s p, wf s -> impf_ok s p = true ->
  alive s (me_of s (fst p)) = true /\ owner s (me_of s (fst p)) = None /\
  (forall r, In (Some r) (o_slots (getd s (rec_of s (fst p) (snd p)))) -> sreach s (me_of s (fst p)) r).
Proof.
  intros s [j n] W H. unfold impf_ok in H. simpl.
  apply andb_true_iff in H; destruct H as [H _]. apply andb_true_iff in H; destruct H as [H _].
  destruct (rec_ok_spec s j n W H) as [I [K _]]. destruct (inst_ok_spec s j W I) as [_ [_ [O A]]].
  repeat split; auto. intros r Hr. eapply reach_slot; eauto.
Qed.

Lemma impt_ok_spec : forall s p, wf s -> impt_ok s p = true ->
  alive s (holder_of s (fst p) (snd p)) = true /\ owner s (holder_of s (fst p) (snd p)) = None.
Proof.
  intros s [j t] W H. unfold impt_ok in H. simpl.
  apply andb_true_iff in H; destruct H as [H O]. apply andb_true_iff in H; destruct H as [H _].
  apply andb_true_iff in H; destruct H as [H _]. apply andb_true_iff in H; destruct H as [H _].
  destruct (holder_ok_spec s j t W H) as [I [K _]]. destruct (inst_ok_spec s j W I) as [A _].
  split; [eapply wf_closed; eauto using in_vis_edges | apply is_none_spec; auto].
Qed.

Lemma impg_ok_spec : forall s p, wf s -> impg_ok s p = true ->
  alive s (holder_of s (fst p) (snd p)) = true /\ owner s (holder_of s (fst p) (snd p)) = None.
Proof.
  intros s [j t] W H. unfold impg_ok in H. simpl.
  apply andb_true_iff in H; destruct H as [H O]. apply andb_true_iff in H; destruct H as [H _].
  apply andb_true_iff in H; destruct H as [H _]. apply andb_true_iff in H; destruct H as [H _].
  destruct (holder_acc_spec s j t W H) as [I K]. destruct (inst_ok_spec s j W I) as [A _].
  split; [eapply wf_closed; eauto using in_vis_edges | apply is_none_spec; auto].
Qed.

Lemma wf_instantiate : forall s sp, wf s -> wf (instantiate s sp).
Proof.
  intros s sp W. unfold instantiate. destruct (can_instantiate s sp) eqn:C; auto.
  unfold can_instantiate in C.
  apply andb_true_iff in C; destruct C as [C CG].
  apply andb_true_iff in C; destruct C as [C CT]. apply andb_true_iff in C; destruct C as [C CF].
  apply andb_true_iff in C; destruct C as [C OR]. apply andb_true_iff in C; destruct C as [C OC].
  apply andb_true_iff in C; destruct C as [C _]. apply andb_true_iff in C; destruct C as [C _].
  apply andb_true_iff in C; destruct C as [C AC]. apply andb_true_iff in C; destruct C as [AR _].
  apply is_none_spec in OR. apply is_none_spec in OC.
  rewrite forallb_forall in CF, CT, CG.
  (* the instance object *)
  set (oI := mkObj KInstance [] [RUNTIME] [] None [] true false).
  destruct (wf_alloc s oI W) as [W1 [E1 [A1 G1]]]; auto.
  { intros x K. unfold edges in K; simpl in K. destruct K as [<- | []]. auto. }
  { simpl. intros r K; destruct K. }
  unfold alloc at 1. cbv beta iota.
  change (fst (alloc s oI)) with (with_heap s (heap s ++ [oI])) in *.
  set (s1 := with_heap s (heap s ++ [oI])) in *. set (ni := length (heap s)) in *.
  assert (O1 : owner s1 ni = None) by (unfold owner; rewrite G1; reflexivity).
  assert (NI : forall t, ext s1 t -> alive t ni = true /\ owner t ni = None).
  { intros t Et. split; [apply (ext_alive s1 t); auto | rewrite (ext_owner s1 t); auto]. }
  (* the module engine *)
  set (oM := mkObj KModEng (ni :: sp_cm sp :: map (fun p : nat * nat => me_of s (fst p)) (sp_impf sp)) [] [] None [] true false).
  destruct (wf_alloc s1 oM W1) as [W2 [E2 [A2 G2]]]; auto.
  { intros x K. unfold edges in K; simpl in K. rewrite app_nil_r in K. destruct K as [<- | [<- | K]]; auto.
    - split; [eapply ext_alive; eauto | rewrite (ext_owner s); eauto].
    - apply in_map_iff in K. destruct K as [p [<- Kp]].
      destruct (impf_ok_spec s p W (CF p Kp)) as [Ap [Op _]].
      split; [eapply ext_alive; eauto | rewrite (ext_owner s); eauto]. }
  { simpl. intros r K; destruct K. }
  unfold alloc at 1. cbv beta iota.
  change (fst (alloc s1 oM)) with (with_heap s1 (heap s1 ++ [oM])) in *.
  set (s2 := with_heap s1 (heap s1 ++ [oM])) in *. set (nme := length (heap s1)) in *.
  assert (O2 : owner s2 nme = None) by (unfold owner; rewrite G2; reflexivity).
  destruct (wf_add_vis s2 ni nme W2 A2 (or_introl O2)) as [W3 E3].
  set (s3 := add_vis s2 ni nme) in *.
  assert (E03 : ext s s3) by (apply (ext_trans s s2 s3); auto; apply (ext_trans s s1 s2); auto).
  assert (V3 : forall x, In x (o_vis oM) -> In x (o_vis (getd s3 nme))).
  { intros x K. apply (ext_vis s2 s3 nme x E3). rewrite G2; auto. }
  (* function records *)
  match goal with |- context [alloc_owned s3 nme KFunc ?c] => set (codes := c) end.
  destruct (wf_alloc_owned codes s3 nme KFunc W3) as [W4 E4].
  { apply (ext_alive s2 s3); auto. }
  { intros sl r K Kr. unfold codes in K. apply in_app_or in K. destruct K as [K | K].
    - apply in_map_iff in K. destruct K as [p [<- Kp]].
      destruct (impf_ok_spec s p W (CF p Kp)) as [_ [_ R]].
      econstructor; [apply V3; simpl; right; right; apply in_map_iff; exists p; split; eauto|].
      eapply ext_sreach; eauto.
    - apply repeat_spec in K. subst sl. destruct Kr as [Kr | []]. inversion Kr; subst.
      apply sreach_edge. apply V3; simpl; auto. }
  destruct (alloc_owned s3 nme KFunc codes) as [s4 recs] eqn:Q4. simpl fst in *.
  assert (E14 : ext s1 s4) by (apply (ext_trans s1 s3 s4); auto; apply (ext_trans s1 s2 s3); auto).
  (* exported tables, private tables, globals *)
  destruct (wf_alloc_exported (sp_nexp sp) s4 ni (sp_size sp) W4) as [W5 E5].
  { apply (NI s4 E14). } { apply (NI s4 E14). }
  destruct (alloc_exported s4 ni (sp_nexp sp) (sp_size sp)) as [s5 texp] eqn:Q5. simpl fst in *.
  assert (E15 : ext s1 s5) by (apply (ext_trans s1 s4 s5); auto).
  destruct (wf_alloc_owned (repeat (repeat None (sp_size sp)) (sp_npriv sp)) s5 ni KTable W5) as [W6 E6].
  { apply (NI s5 E15). }
  { intros sl r K Kr. apply repeat_spec in K. subst sl. apply repeat_spec in Kr. discriminate. }
  destruct (alloc_owned s5 ni KTable (repeat (repeat None (sp_size sp)) (sp_npriv sp))) as [s6 tpriv] eqn:Q6. simpl fst in *.
  assert (E16 : ext s1 s6) by (apply (ext_trans s1 s5 s6); auto).
  destruct (wf_alloc_owned (repeat [None] (sp_nglob sp)) s6 ni KGlobal W6) as [W7 E7].
  { apply (NI s6 E16). }
  { intros sl r K Kr. apply repeat_spec in K. subst sl. destruct Kr as [Kr | []]. discriminate. }
  destruct (alloc_owned s6 ni KGlobal (repeat [None] (sp_nglob sp))) as [s7 globs] eqn:Q7. simpl fst in *.
  assert (E17 : ext s1 s7) by (apply (ext_trans s1 s6 s7); auto).
  assert (E07 : ext s s7) by (apply (ext_trans s s1 s7); auto).
  (* imported tables *)
  set (timp := map (fun p : nat * nat => holder_of s (fst p) (snd p)) (sp_impt sp)).
  destruct (wf_link_tables timp s7 ni W7) as [W8 E8].
  { apply (NI s7 E17). } { apply (NI s7 E17). }
  { intros t K. unfold timp in K. apply in_map_iff in K. destruct K as [p [<- Kp]].
    destruct (impt_ok_spec s p W (CT p Kp)) as [At Ot].
    split; [apply (ext_alive s s7); auto | rewrite (ext_owner s s7); auto]. }
  set (s8 := link_tables s7 ni timp) in *.
  assert (E18 : ext s1 s8) by (apply (ext_trans s1 s7 s8); auto).
  (* exported and imported globals *)
  destruct (wf_alloc_globals (sp_nexpg sp) s8 ni W8) as [W8a E8a].
  { apply (NI s8 E18). }
  destruct (alloc_globals s8 ni (sp_nexpg sp)) as [s8a gexp] eqn:Q8a. simpl fst in *.
  assert (E18a : ext s1 s8a) by (apply (ext_trans s1 s8 s8a); auto).
  assert (E08a : ext s s8a) by (apply (ext_trans s s1 s8a); auto).
  set (gimp := map (fun p : nat * nat => holder_of s (fst p) (snd p)) (sp_impg sp)).
  destruct (wf_link_globals gimp s8a ni W8a) as [W8b E8b].
  { intros g K. unfold gimp in K. apply in_map_iff in K. destruct K as [p [<- Kp]].
    destruct (impg_ok_spec s p W (CG p Kp)) as [Ag Og].
    split; [apply (ext_alive s s8a); auto | rewrite (ext_owner s s8a); auto]. }
  set (s8b := link_globals s8a ni gimp) in *.
  destruct (wf_set_dir s8b ni (nme :: timp ++ texp ++ tpriv ++ globs ++ gexp ++ gimp) W8b) as [W9 E9].
  match goal with |- context [upd_obj (upd_obj s8b ni ?f) nme (set_dir recs)] => set (s9a := upd_obj s8b ni f) in * end.
  destruct (wf_set_dir s9a nme recs W9) as [W9' E9'].
  set (s9 := upd_obj s9a nme (set_dir recs)) in *.
  assert (E19 : ext s1 s9) by (apply (ext_trans s1 s9a s9); auto; apply (ext_trans s1 s8b s9a); auto; apply (ext_trans s1 s8a s8b); auto).
  destruct (wf_add_reg s9 RUNTIME ni W9') as [W10 E10].
  { apply (NI s9 E19). } { left. apply (NI s9 E19). }
  apply wf_fold_set_ref.
  apply wf_host; auto.
  intros x K. change (host (add_reg s9 RUNTIME ni)) with (host s9). destruct K as [<- | K]; auto.
  destruct (NI s9 E19) as [N1 N2].
  right. split; [apply (ext_alive s9 _ ni E10); auto|].
  rewrite (ext_owner s9 _ ni E10); auto.
Qed.

(* ------------------------------------------------------------------------------------------ *)
(* every tracked step preserves the invariant *)

Lemma tl_In : forall A (l : list A) x, In x (tl l) -> In x l.
Proof. destruct l; simpl; auto. Qed.

Lemma step_wf : forall s o, wf s -> tracked s o = true -> wf (step s o).
Proof.
  intros s o W T. destruct o; simpl.
  - apply wf_compile; auto.
  - apply wf_instantiate; auto.
  - simpl in T. destruct (holder_acc s i t && rec_ok s i f) eqn:E; auto.
    simpl in T. apply andb_true_iff in E; destruct E as [E1 E2].
    apply wf_set_slot; auto. intros r Hr _. inversion Hr; subst.
    apply holder_covers; auto using holder_ok_split. apply rec_ok_spec; auto.
  - simpl in T. destruct (holder_acc s i ts && holder_acc s i td) eqn:E; auto.
    simpl in T. apply andb_true_iff in E; destruct E as [E1 E2].
    apply wf_set_slot; auto. intros r Hr _.
    apply holder_covers; auto using holder_ok_split.
    destruct (holder_acc_spec s i ts W E1) as [I Hv]. destruct (inst_ok_spec s i W I) as [A _].
    eapply reach_slot; eauto. eapply nth_Some_In; eauto.
  - destruct (holder_acc s i t) eqn:E; auto.
    apply wf_set_slot; auto. intros r Hr; discriminate.
  - simpl in T. destruct (holder_acc s i t && rec_ok s i f) eqn:E; simpl; auto.
    simpl in T. apply andb_true_iff in E; destruct E as [E1 E2].
    destruct (kind_eqb (o_kind (getd s (holder_of s i t))) KTable); auto.
    apply wf_upd; auto.
    + simpl; apply incl_refl.
    + intros A. split.
      * intros y K. split; [eapply wf_closed; eauto | left; auto].
      * simpl. intros r K. apply in_app_or in K. destruct K as [K | [K | []]]; [left; auto | right].
        inversion K; subst. apply holder_covers; auto using holder_ok_split. apply rec_ok_spec; auto.
  - simpl in T. destruct (rec_ok s i f && holder_acc s j t) eqn:E; auto.
    simpl in T. apply andb_true_iff in E; destruct E as [E1 E2].
    destruct (rec_ok_spec s i f W E1) as [I [Rv R]].
    apply wf_set_slot; auto. intros r Hr _. inversion Hr; subst.
    apply orb_true_iff in T. destruct T as [T | T].
    + apply andb_true_iff in T; destruct T as [TI T].
      apply holder_covers; auto using holder_ok_split.
      apply orb_true_iff in T. destruct T as [T | T].
      * apply Nat.eqb_eq in T; subst; auto.
      * apply memb_In in T. destruct (holder_acc_spec s j t W E2) as [J _].
        destruct (inst_ok_spec s j W J) as [_ [Jv _]].
        econstructor; [exact Jv|]. econstructor; [exact T|]. apply sreach_edge; auto.
    + unfold sharedb in T. unfold cover, owner. destruct (o_owner (getd s (holder_of s j t))); [discriminate|].
      apply memb_In in T. econstructor; [exact T | exact R].
  - auto.
  - auto.
  - destruct (inst_ok s i) eqn:E; auto.
    destruct (inst_ok_spec s i W E) as [_ [_ [O A]]].
    apply wf_flight; auto. intros x [<- | K]; auto.
  - apply wf_flight; auto. intros x K; left; apply tl_In; auto.
  - destruct (alive s i && kind_eqb (o_kind (getd s i)) KInstance); auto.
    apply wf_del_reg. apply wf_set_closed; auto.
  - destruct (wf_del_reg s ENGINE c W) as [W1 _].
    apply (wf_remove_host (del_reg s ENGINE c) c W1).
  - destruct (cached s); auto. apply wf_close_engine; auto.
  - destruct (wf_close_instances (o_reg (getd s RUNTIME)) s W) as [W1 _].
    match goal with |- context [upd_obj ?a RUNTIME ?f] => assert (W2 : wf (upd_obj a RUNTIME f)) end.
    { apply wf_shrink; auto. intro o; simpl. repeat split; auto. intros y K. apply filter_In in K; tauto. }
    destruct (cached s); auto. apply wf_close_engine; auto.
  - apply wf_remove_host; auto.
  - apply wf_gc; auto.
Qed.

Lemma run_wf : forall ops s, wf s -> all_tracked s ops = true -> wf (run s ops).
Proof.
  unfold run. induction ops as [|o ops IH]; intros s W T; simpl in *; auto.
  apply andb_true_iff in T; destruct T as [T1 T2]. apply IH; auto. apply step_wf; auto.
Qed.

Lemma wf_init : forall c, wf (init c).
Proof.
  intro c.
  assert (L : forall i, alive (init c) i = true -> i < 3).
  { intros i A. apply alive_lt in A. destruct c; simpl in A; lia. }
  constructor.
  - intros i x A H. apply L in A.
    destruct c; destruct i as [|[|[|i]]]; try lia; unfold edges, getd in H; simpl in H;
      repeat (destruct H as [<- | H]; [reflexivity|]); contradiction.
  - intros i r A H. apply L in A.
    destruct c; destruct i as [|[|[|i]]]; try lia; unfold getd in H; simpl in H; contradiction.
  - intros i k A H. apply L in A.
    destruct c; destruct i as [|[|[|i]]]; try lia; unfold owner, getd in H; simpl in H; discriminate.
  - intros x H. destruct c; unfold roots in H; simpl in H;
      repeat (destruct H as [<- | H]; [reflexivity|]); contradiction.
Qed.

(* all visible edges *)
Inductive reach (s : state) : nat -> nat -> Prop :=
| r_refl : forall a, reach s a a
| r_step : forall a x b, In x (edges (getd s a)) -> reach s x b -> reach s a b.

Lemma reach_alive : forall s a b, wf s -> reach s a b -> alive s a = true -> alive s b = true.
Proof. intros s a b W R; induction R; intros; auto. apply IHR. eapply wf_closed; eauto. Qed.

(* what `dangling` means: some raw reference reachable from the live instance i points to a collected object *)
Definition dangling (s : state) (i : nat) : Prop :=
  inst_ok s i = true /\ exists o r, reach s i o /\ In (Some r) (o_slots (getd s o)) /\ alive s r = false.

Lemma wf_not_dangling : forall s i, wf s -> ~ dangling s i.
Proof.
  intros s i W [I [o [r [R [H A]]]]].
  destruct (inst_ok_spec s i W I) as [Ai _].
  rewrite (wf_no_dangling s o r W (reach_alive s i o W R Ai) H) in A. discriminate.
Qed.

Theorem safe_if_tracked : forall c ops, all_tracked (init c) ops = true ->
  let s := run (init c) ops in
  (forall i, ~ dangling s i) /\
  (forall o r, alive s o = true -> In (Some r) (o_slots (getd s o)) ->
     alive s r = true /\ forall k, In (Some k) (o_slots (getd s r)) -> alive s k = true).
Proof.
  intros c ops T s. assert (W : wf s) by (apply run_wf; auto using wf_init).
  split; [intro; apply wf_not_dangling; auto|].
  intros o r A H. assert (Ar : alive s r = true) by (eapply wf_no_dangling; eauto).
  split; auto. intros k K. eapply wf_no_dangling; eauto.
Qed.

(* ------------------------------------------------------------------------------------------ *)
(* closing in any order, with a call in flight *)

Definition closing (o : op) : bool :=
  match o with
  | OCloseModule _ | OCloseCompiled _ | OCloseCache | OCloseRuntime | ODrop _ | OGc => true
  | _ => false
  end.

Lemma closing_tracked : forall ops s, forallb closing ops = true -> all_tracked s ops = true.
Proof.
  induction ops as [|o ops IH]; intros s H; simpl in *; auto.
  apply andb_true_iff in H; destruct H as [H1 H2]. rewrite IH; auto. destruct o; simpl in *; auto; discriminate.
Qed.

Lemma vis_mono_refl : forall s, vis_mono s s.
Proof. intros s i x H; auto. Qed.
Lemma vis_mono_trans : forall a b c, vis_mono a b -> vis_mono b c -> vis_mono a c.
Proof. intros a b c H1 H2 i x H; apply H2, H1; auto. Qed.

Lemma vis_mono_upd : forall s i f, (forall o, incl (o_vis o) (o_vis (f o))) -> vis_mono s (upd_obj s i f).
Proof.
  intros s i f H j x K. rewrite getd_upd. destruct ((j =? i) && (i <? length (heap s))) eqn:E; auto.
  apply andb_true_iff in E; destruct E as [E _]; apply Nat.eqb_eq in E; subst. apply H; auto.
Qed.

Lemma vis_mono_close_instances : forall l s, vis_mono s (close_instances s l).
Proof.
  unfold close_instances. induction l as [|a l IH]; intros s; simpl; [apply vis_mono_refl|].
  destruct (kind_eqb (o_kind (getd s a)) KInstance); auto.
  eapply vis_mono_trans; [|apply IH]. apply vis_mono_upd. intros o; simpl; apply incl_refl.
Qed.

Lemma flight_close_instances : forall l s, flight (close_instances s l) = flight s.
Proof.
  unfold close_instances. induction l as [|a l IH]; intros s; simpl; auto.
  destruct (kind_eqb (o_kind (getd s a)) KInstance); auto. rewrite IH. reflexivity.
Qed.

Lemma vis_mono_gc : forall s, vis_mono s (gc s).
Proof.
  intros s. unfold gc. destruct (mark edges (S (length (heap s))) (heap s) (roots s)) as [M|]; [|apply vis_mono_refl].
  intros j x H. unfold getd; simpl. rewrite nth_sweep. simpl. destruct (memb j M); auto.
Qed.

Lemma flight_gc : forall s, flight (gc s) = flight s.
Proof. intros s. unfold gc. destruct (mark _ _ _ _); reflexivity. Qed.

Lemma closing_frame : forall s o, closing o = true -> flight (step s o) = flight s /\ vis_mono s (step s o).
Proof.
  intros s o H. destruct o; try discriminate; simpl.
  - destruct (alive s i && kind_eqb (o_kind (getd s i)) KInstance); [|split; auto using vis_mono_refl].
    split; auto. eapply vis_mono_trans; apply vis_mono_upd; intros o; simpl; apply incl_refl.
  - split; auto. intros j x K. change (In x (o_vis (getd (del_reg s ENGINE c) j))).
    unfold del_reg. apply vis_mono_upd; auto. intros o; simpl; apply incl_refl.
  - destruct (cached s); split; auto using vis_mono_refl. apply vis_mono_upd; intros o; simpl; apply incl_refl.
  - assert (F1 := flight_close_instances (o_reg (getd s RUNTIME)) s).
    assert (V1 := vis_mono_close_instances (o_reg (getd s RUNTIME)) s).
    destruct (cached s); simpl; split; auto.
    + eapply vis_mono_trans; eauto. apply vis_mono_upd; intros o; simpl; apply incl_refl.
    + eapply vis_mono_trans; [eauto|]. eapply vis_mono_trans; apply vis_mono_upd; intros o; simpl; apply incl_refl.
  - split; auto. intros j y K; exact K.
  - split; [apply flight_gc | apply vis_mono_gc].
Qed.

Lemma closing_run_frame : forall ops s, forallb closing ops = true ->
  flight (run s ops) = flight s /\ vis_mono s (run s ops).
Proof.
  unfold run. induction ops as [|o ops IH]; intros s H; simpl in *; [split; auto using vis_mono_refl|].
  apply andb_true_iff in H; destruct H as [H1 H2].
  destruct (closing_frame s o H1) as [F V]. destruct (IH (step s o) H2) as [F' V'].
  split; [congruence | eapply vis_mono_trans; eauto].
Qed.

(* after any tracked history, start a call on instance i, then close / drop / collect anything, in any order
   and any number of times: the invariant survives, and the in-flight call keeps its module engine, its
   instance, its compiled module and everything else it structurally reaches (imported functions'
   engines and code, tables, records) uncollected *)
Theorem close_order_irrelevant : forall c pre i closes,
  all_tracked (init c) pre = true ->
  let s0 := run (init c) pre in
  inst_ok s0 i = true ->
  forallb closing closes = true ->
  let s := run s0 (OEnter i :: closes) in
  (forall j, ~ dangling s j) /\
  (forall x, sreach s0 (me_of s0 i) x ->
     alive s x = true /\ forall r, In (Some r) (o_slots (getd s x)) -> alive s r = true) /\
  alive s i = true.
Proof.
  intros c pre i closes T s0 I C s.
  assert (W0 : wf s0) by (apply run_wf; auto using wf_init).
  assert (W1 : wf (step s0 (OEnter i))) by (apply step_wf; auto).
  assert (W : wf s).
  { unfold s. change (run s0 (OEnter i :: closes)) with (run (step s0 (OEnter i)) closes).
    apply run_wf; auto. apply closing_tracked; auto. }
  destruct (closing_run_frame closes (step s0 (OEnter i)) C) as [F V].
  change (run (step s0 (OEnter i)) closes) with s in F, V.
  simpl in F, V. rewrite I in F, V.
  assert (R : alive s (me_of s0 i) = true).
  { apply (wf_roots s W). unfold roots. apply in_or_app; right. rewrite F. simpl; auto. }
  assert (K : forall x, sreach s0 (me_of s0 i) x -> alive s x = true).
  { intros x Rx. eapply sreach_alive; eauto. eapply sreach_mono; [|exact Rx].
    intros j y Hy. apply V. exact Hy. }
  split; [intro; apply wf_not_dangling; auto|]. split.
  - intros x Rx. split; [apply K; auto|]. intros r Hr. eapply wf_no_dangling; [exact W | apply K; exact Rx | exact Hr].
  - apply K. unfold inst_ok in I. apply andb_true_iff in I; destruct I as [_ I]. apply memb_In in I.
    apply sreach_edge; auto.
Qed.

(* ------------------------------------------------------------------------------------------ *)
(* F08: a reference placed in another instance's PRIVATE table through a parameter *)

(* ids: 0 cache, 1 engine, 2 runtime; 3 compiled(B); 4 B, 5 B's module engine, 6 B.f, 7 B's private table;
   8 compiled(P); 9 P, 10 P's module engine, 11 P's record of the imported B.f, 12 P.f *)
Definition spB := mkSpec 3 [] [] 1 0 1 0 4 [] 0 [].
Definition spP := mkSpec 8 [(4, 0)] [] 1 0 0 0 4 [] 0 [].
Definition f08_setup := [OCompile; OInstantiate spB; OCompile; OInstantiate spP; OPassParam 9 1 4 0 0].
Definition f08_close := [OCloseModule 9; OCloseCompiled 8; ODrop 9; OGc].

Lemma private_table_refuted :
  let s1 := run (init true) f08_setup in
  let s := run s1 f08_close in
  (* before the close the call_indirect is fine *)
  deref_ok s1 (slot s1 (holder_of s1 4 0) 0) = true /\
  (* afterwards B is a live, open instance holding the table ... *)
  inst_ok s 4 = true /\ open s 4 = true /\ holder_ok s 4 0 = true /\ In 4 (host s) /\
  (* ... whose slot 0 still holds the raw address of P.f, and both the record and P's executable are gone *)
  slot s (holder_of s 4 0) 0 = Some 12 /\ alive s 12 = false /\ alive s 8 = false /\
  deref_ok s (slot s (holder_of s 4 0) 0) = false /\
  dangling s 4 /\
  (* the hand-over is not a tracked channel, and only closing/dropping/collecting followed *)
  all_tracked (init true) (f08_setup ++ f08_close) = false /\ forallb closing f08_close = true.
Proof.
  cbv zeta.
  assert (E : edges (getd (run (run (init true) f08_setup) f08_close) 4) = [7; 5; 2]) by (vm_compute; reflexivity).
  assert (S : o_slots (getd (run (run (init true) f08_setup) f08_close) 7) = [Some 12; None; None; None]) by (vm_compute; reflexivity).
  repeat match goal with |- _ /\ _ => split end; try (vm_compute; reflexivity).
  - vm_compute. auto.
  - split; [vm_compute; reflexivity|]. exists 7, 12. split; [|split].
    + apply r_step with 7; [rewrite E; simpl; auto | apply r_refl].
    + rewrite S; simpl; auto.
    + vm_compute; reflexivity.
Qed.

(* the same history as the harness states it; the model's verdict on the last call is "dangling use" *)
Example classify_F08 :
  classify (true, [mkM [] [] 1 0 1 0 4 [] 0 []; mkM [(0, 0)] [] 1 0 0 0 4 [] 0 []],
            [HCompile 0; HInst 0; HCompile 1; HInst 1; HPass 1 1 0 0 0; HCallInd 0 0 0;
             HCloseMod 1; HCloseCompiled 1; HDropMod 1; HDropCompiled 1; HGc; HCallInd 0 0 0])
  = [0; 0; 0; 0; 0; 0; 0; 0; 0; 0; 0; 2]%Z.
Proof. vm_compute. reflexivity. Qed.

(* ------------------------------------------------------------------------------------------ *)
(* non-vacuity *)

(* A exports two functions and a table; B imports A.f0 and the table, has a private table and a global.
   ids: 3 cm(A); 4 A, 5 ME(A), 6 A.f0, 7 A.f1, 8 A's exported table; 9 cm(B); 10 B, 11 ME(B), 12 B's record of A.f0,
   13 B.f0, 14 B's private table, 15 B's global *)
Definition spA := mkSpec 3 [] [] 2 1 0 0 4 [(0, 0, 0)] 0 [].
Definition spB2 := mkSpec 9 [(4, 0)] [(4, 0)] 1 0 1 1 4 [(0, 1, 1); (1, 0, 0)] 0 [].
Definition tracked_history :=
  [OCompile; OInstantiate spA; OCompile; OInstantiate spB2;
   OSetRef 10 0 2 1;        (* B puts its own function into the shared table *)
   OCopy 10 0 0 1 3;        (* B copies A.f0 from the shared table into its private table *)
   OCopy 10 0 0 2 0;        (* ... and into its global *)
   OPassParam 4 1 10 1 2;   (* A hands A.f1 to B as a parameter: tracked, B imports a function of A *)
   OEnter 10;
   OCloseModule 4; OCloseCompiled 3; ODrop 4; OCloseModule 10; OCloseCompiled 9; ODrop 10; OGc;
   OCloseCache; OCloseRuntime; ODrop 2; ODrop 0; OGc;
   OLeave].

Example tracked_history_ok :
  all_tracked (init true) tracked_history = true /\
  let s := run (init true) (firstn 21 tracked_history) in
  (* everything was closed and dropped, yet the in-flight call keeps B, A, both compiled modules, the
     shared table and the records alive; the references B holds are all intact *)
  map (alive s) [4; 5; 6; 7; 8; 3; 9; 10; 11; 12; 13; 14; 15] = repeat true 13 /\
  o_slots (getd s 8) = [Some 6; Some 13; Some 13; None] /\
  o_slots (getd s 14) = [Some 12; None; Some 7; Some 6] /\ o_slots (getd s 15) = [Some 6] /\
  any_dangling s = false /\
  (* once the call has returned, the next collection takes everything (nothing is leaked either) *)
  map (alive (run (init true) (tracked_history ++ [OGc]))) [4; 8; 3; 9; 10; 14] = repeat false 6.
Proof. vm_compute. repeat split; reflexivity. Qed.

Example f08_any_dangling : any_dangling (run (init true) (f08_setup ++ f08_close)) = true.
Proof. vm_compute. reflexivity. Qed.

(* the hypotheses of close_order_irrelevant are satisfiable *)
Example close_order_instance :
  let pre := firstn 8 tracked_history in
  all_tracked (init true) pre = true /\ inst_ok (run (init true) pre) 10 = true /\
  forallb closing [OCloseRuntime; OGc; OCloseCache; ODrop 10; OCloseCompiled 9; OGc; OCloseModule 4; ODrop 2; OGc] = true.
Proof. vm_compute. repeat split; reflexivity. Qed.

(* marking never runs out of fuel on these histories (gc is not the identity) *)
Example gc_collects :
  let s := run (init true) (f08_setup ++ [OCloseModule 9; OCloseCompiled 8; ODrop 9]) in
  alive s 12 = true /\ alive (gc s) 12 = false /\ alive (gc s) 4 = true.
Proof. vm_compute. repeat split; reflexivity. Qed.

(* ------------------------------------------------------------------------------------------ *)
(* which channels are tracked, as a specification *)

(* holder h tracks instance i: h is private (only its owner points to it) or lists i among its involving instances *)
Definition involved (s : state) (i h : nat) : Prop :=
  (exists c, owner s h = Some c) \/ In i (o_vis (getd s h)).

Lemma involvedb_spec : forall s i h, involvedb s i h = true <-> involved s i h.
Proof.
  intros s i h. unfold involvedb, involved, owner. destruct (o_owner (getd s h)) as [c|].
  - split; auto. intros _. left; eauto.
  - rewrite memb_In. split; auto. intros [[c K] | K]; auto. discriminate.
Qed.

(* h is a shared holder listing i among its involving instances *)
Definition shared_with (s : state) (i h : nat) : Prop := owner s h = None /\ In i (o_vis (getd s h)).

Lemma sharedb_spec : forall s i h, sharedb s i h = true <-> shared_with s i h.
Proof.
  intros s i h. unfold sharedb, shared_with, owner. destruct (o_owner (getd s h)) as [c|].
  - split; [discriminate | intros [K _]; discriminate].
  - rewrite memb_In. tauto.
Qed.

Definition tracked_prop (s : state) (o : op) : Prop :=
  match o with
  | OSetRef i t k f => holder_acc s i t = true -> rec_ok s i f = true -> involved s i (holder_of s i t)
  | OGrowRef i t f => holder_acc s i t = true -> rec_ok s i f = true -> involved s i (holder_of s i t)
  | OCopy i ts ks td kd => holder_acc s i ts = true -> holder_acc s i td = true -> involved s i (holder_of s i td)
  | OPassParam i f j t k =>
      rec_ok s i f = true -> holder_acc s j t = true ->
      (involved s j (holder_of s j t) /\ (i = j \/ In (me_of s i) (o_vis (getd s (me_of s j)))))
      \/ shared_with s i (holder_of s j t)
  | _ => True
  end.

Lemma tracked_spec : forall s o, tracked s o = true <-> tracked_prop s o.
Proof.
  intros s o. destruct o; simpl; try tauto.
  - rewrite orb_true_iff, negb_true_iff, andb_false_iff, involvedb_spec.
    destruct (holder_acc s i t); destruct (rec_ok s i f); intuition discriminate.
  - rewrite orb_true_iff, negb_true_iff, andb_false_iff, involvedb_spec.
    destruct (holder_acc s i ts); destruct (holder_acc s i td); intuition discriminate.
  - rewrite orb_true_iff, negb_true_iff, andb_false_iff, involvedb_spec.
    destruct (holder_acc s i t); destruct (rec_ok s i f); intuition discriminate.
  - rewrite !orb_true_iff, negb_true_iff, andb_false_iff, andb_true_iff, orb_true_iff, involvedb_spec, Nat.eqb_eq, memb_In, sharedb_spec.
    destruct (rec_ok s i f); destruct (holder_acc s j t); intuition discriminate.
Qed.

(* ------------------------------------------------------------------------------------------ *)
(* F08b: the same class through an imported mutable funcref GLOBAL *)

(* ids: 3 compiled(A); 4 A, 5 A's module engine, 6 A.f, 7 A's exported global;
   8 compiled(B); 9 B, 10 B's module engine, 11 B.f.  B imports the global 7 and stores ref.func B.f in it. *)
Definition spGA := mkSpec 3 [] [] 1 0 0 0 4 [] 1 [].
Definition spGB := mkSpec 8 [] [] 1 0 0 0 4 [] 0 [(4, 0)].
Definition f08b_setup := [OCompile; OInstantiate spGA; OCompile; OInstantiate spGB; OSetRef 9 0 0 0].
Definition f08b_close := [OCloseModule 9; OCloseCompiled 8; ODrop 9; OGc].

Lemma imported_global_refuted :
  let s1 := run (init true) f08b_setup in
  let s := run s1 f08b_close in
  (* the store is performed (B can write the global it imported) but the global tracks nobody *)
  holder_acc (run (init true) (firstn 4 f08b_setup)) 9 0 = true /\
  involvedb (run (init true) (firstn 4 f08b_setup)) 9 (holder_of (run (init true) (firstn 4 f08b_setup)) 9 0) = false /\
  holder_of s1 9 0 = holder_of s1 4 0 /\
  deref_ok s1 (slot s1 (holder_of s1 4 0) 0) = true /\
  (* after closing and collecting B: A is live and open, its global still holds the address of B.f *)
  inst_ok s 4 = true /\ open s 4 = true /\ holder_acc s 4 0 = true /\ In 4 (host s) /\
  slot s (holder_of s 4 0) 0 = Some 11 /\ alive s 11 = false /\ alive s 8 = false /\
  deref_ok s (slot s (holder_of s 4 0) 0) = false /\
  dangling s 4 /\
  all_tracked (init true) (f08b_setup ++ f08b_close) = false /\ forallb closing f08b_close = true.
Proof.
  cbv zeta.
  assert (E : edges (getd (run (run (init true) f08b_setup) f08b_close) 4) = [7; 5; 2]) by (vm_compute; reflexivity).
  assert (S : o_slots (getd (run (run (init true) f08b_setup) f08b_close) 7) = [Some 11]) by (vm_compute; reflexivity).
  repeat match goal with |- _ /\ _ => split end; try (vm_compute; reflexivity).
  - vm_compute. auto.
  - split; [vm_compute; reflexivity|]. exists 7, 11. split; [|split].
    + apply r_step with 7; [rewrite E; simpl; auto | apply r_refl].
    + rewrite S; simpl; auto.
    + vm_compute; reflexivity.
Qed.
