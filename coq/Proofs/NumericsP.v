(* Laws that pin the Coq rendering of the WebAssembly integer numerics (Wasm/Numerics.v) to the English
   statement of C05, proved for every width N > 0 and all operands. iN values are unsigned representatives
   0 <= a < 2^N (predicate inr). *)
From Coq Require Import ZArith Bool List Lia ZifyBool.
From Verif Require Import Wasm.Numerics.
Import ListNotations.
Open Scope Z_scope.
Ltac Zify.zify_post_hook ::= Z.div_mod_to_equations.
Ltac splits := repeat match goal with |- _ /\ _ => split end.

Definition inr (N a : Z) : Prop := 0 <= a < 2 ^ N.

Lemma pow2_pos n : 0 <= n -> 0 < 2 ^ n.
Proof. intros; apply Z.pow_pos_nonneg; lia. Qed.
Lemma pow2_half N : 0 < N -> 2 ^ N = 2 * 2 ^ (N - 1).
Proof. intros H. replace N with (Z.succ (N - 1)) at 1 by lia. rewrite Z.pow_succ_r by lia. reflexivity. Qed.
Lemma pow2_split N k : 0 <= k <= N -> 2 ^ N = 2 ^ (N - k) * 2 ^ k.
Proof. intros H. rewrite <- Z.pow_add_r by lia. f_equal; lia. Qed.

Lemma mod_k m z k : 0 < m -> 0 <= z + k * m < m -> z mod m = z + k * m.
Proof. intros Hm H. rewrite <- (Z.mod_add z k m) by lia. apply Z.mod_small; lia. Qed.

Lemma modN_range N z : 0 <= N -> inr N (modN N z).
Proof. intros H. unfold inr, modN. apply Z.mod_pos_bound. apply pow2_pos; lia. Qed.
Lemma modN_small N z : inr N z -> modN N z = z.
Proof. unfold inr, modN. intros. apply Z.mod_small; lia. Qed.
Lemma modN_idem N z : 0 <= N -> modN N (modN N z) = modN N z.
Proof. intros. apply modN_small, modN_range; lia. Qed.

(* ---- the signed interpretation ---- *)
Lemma sgn_range N a : 0 < N -> inr N a -> - 2 ^ (N - 1) <= sgn N a < 2 ^ (N - 1).
Proof.
  unfold inr, sgn. intros HN H. rewrite (pow2_half N HN) in *. pose proof (pow2_pos (N-1) ltac:(lia)).
  destruct (Z.ltb_spec a (2 ^ (N - 1))); lia.
Qed.

Lemma sgn_congr N a : 0 < N -> inr N a -> modN N (sgn N a) = a.
Proof.
  unfold inr, sgn, modN. intros HN H. pose proof (pow2_pos N ltac:(lia)). destruct (a <? 2 ^ (N - 1)) eqn:E.
  - apply Z.mod_small; lia.
  - rewrite (mod_k _ _ 1); lia.
Qed.

Lemma sgn_reading N a : 0 < N -> inr N a -> - 2 ^ (N - 1) <= sgn N a < 2 ^ (N - 1) /\ modN N (sgn N a) = a.
Proof. intros HN Ha. exact (conj (sgn_range N a HN Ha) (sgn_congr N a HN Ha)). Qed.

Lemma sgn_inj N a b : 0 < N -> inr N a -> inr N b -> sgn N a = sgn N b -> a = b.
Proof. intros HN Ha Hb E. rewrite <- (sgn_congr N a), <- (sgn_congr N b) by assumption. now rewrite E. Qed.

Lemma sgn_modN N z : 0 < N -> - 2 ^ (N - 1) <= z < 2 ^ (N - 1) -> sgn N (modN N z) = z.
Proof.
  intros HN H. unfold sgn, modN. rewrite (pow2_half N HN). pose proof (pow2_pos (N-1) ltac:(lia)).
  set (P := 2 ^ (N - 1)) in *. clearbody P.
  destruct (Z_lt_le_dec z 0).
  - rewrite (mod_k _ z 1) by lia. destruct (Z.ltb_spec (z + 1 * (2 * P)) P); lia.
  - rewrite (mod_k _ z 0) by lia. destruct (Z.ltb_spec (z + 0 * (2 * P)) P); lia.
Qed.

Lemma sgn_nonneg_iff N a : 0 < N -> inr N a -> (0 <= sgn N a <-> a < 2 ^ (N - 1)).
Proof. unfold inr, sgn. intros HN H. rewrite (pow2_half N HN) in *. pose proof (pow2_pos (N-1) ltac:(lia)). destruct (Z.ltb_spec a (2 ^ (N - 1))); lia. Qed.

(* ---- bitwise operators stay in range ---- *)
Lemma inr_land_ones N x : 0 <= N -> (inr N x <-> 0 <= x /\ Z.land x (Z.ones N) = x).
Proof.
  intros HN. rewrite Z.land_ones by lia. unfold inr. pose proof (pow2_pos N HN). split.
  - intros H1. split; [lia|]. apply Z.mod_small; lia.
  - intros [H1 H2]. rewrite <- H2. apply Z.mod_pos_bound; lia.
Qed.

Lemma iand_range N a b : 0 <= N -> inr N a -> inr N b -> inr N (iand N a b).
Proof.
  intros HN Ha Hb. apply inr_land_ones in Ha, Hb; try lia. apply inr_land_ones; [lia|]. unfold iand. split.
  - apply Z.land_nonneg; lia.
  - rewrite <- Z.land_assoc. now rewrite (proj2 Hb).
Qed.
Lemma ior_range N a b : 0 <= N -> inr N a -> inr N b -> inr N (ior N a b).
Proof.
  intros HN Ha Hb. apply inr_land_ones in Ha, Hb; try lia. apply inr_land_ones; [lia|]. unfold ior. split.
  - apply Z.lor_nonneg; lia.
  - rewrite Z.land_lor_distr_l. now rewrite (proj2 Ha), (proj2 Hb).
Qed.
Lemma land_lxor_distr_l a b m : Z.land (Z.lxor a b) m = Z.lxor (Z.land a m) (Z.land b m).
Proof.
  apply Z.bits_inj'. intros n _. rewrite Z.land_spec, !Z.lxor_spec, !Z.land_spec.
  destruct (Z.testbit a n), (Z.testbit b n), (Z.testbit m n); reflexivity.
Qed.
Lemma ixor_range N a b : 0 <= N -> inr N a -> inr N b -> inr N (ixor N a b).
Proof.
  intros HN Ha Hb. apply inr_land_ones in Ha, Hb; try lia. apply inr_land_ones; [lia|]. unfold ixor. split.
  - apply Z.lxor_nonneg; lia.
  - rewrite land_lxor_distr_l. now rewrite (proj2 Ha), (proj2 Hb).
Qed.

(* ---- rotations: the algebra of splitting 2^N = A * K ---- *)
Lemma rot_count N b : 0 < N -> 0 <= b mod N < N.
Proof. intros. apply Z.mod_pos_bound; lia. Qed.

Lemma shl_split N a k : 0 <= k <= N -> modN N (a * 2 ^ k) = (a mod 2 ^ (N - k)) * 2 ^ k.
Proof.
  intros H. unfold modN. rewrite (pow2_split N k H). apply Z.mul_mod_distr_r.
  - pose proof (pow2_pos (N - k)); lia.
  - pose proof (pow2_pos k); lia.
Qed.

Lemma irotl_alt N a b : 0 < N -> irotl N a b = (a mod 2 ^ (N - b mod N)) * 2 ^ (b mod N) + a / 2 ^ (N - b mod N).
Proof. intros HN. unfold irotl. cbv zeta. pose proof (rot_count N b HN). rewrite shl_split by lia. reflexivity. Qed.

Lemma irotr_alt N a b : 0 < N -> irotr N a b = a / 2 ^ (b mod N) + (a mod 2 ^ (b mod N)) * 2 ^ (N - b mod N).
Proof.
  intros HN. unfold irotr. cbv zeta. pose proof (rot_count N b HN). rewrite shl_split by lia.
  replace (N - (N - b mod N)) with (b mod N) by lia. reflexivity.
Qed.

Lemma irotl_range N a b : 0 < N -> inr N a -> inr N (irotl N a b).
Proof.
  intros HN Ha. rewrite irotl_alt by assumption. pose proof (rot_count N b HN) as Hk. unfold inr in *.
  rewrite (pow2_split N (b mod N)) in * by lia.
  pose proof (pow2_pos (N - b mod N) ltac:(lia)). pose proof (pow2_pos (b mod N) ltac:(lia)).
  set (A := 2 ^ (N - b mod N)) in *. set (K := 2 ^ (b mod N)) in *.
  pose proof (Z.mod_pos_bound a A ltac:(lia)). assert (0 <= a / A < K).
  { split. apply Z.div_pos; lia. apply Z.div_lt_upper_bound; lia. }
  nia.
Qed.

Lemma irotr_range N a b : 0 < N -> inr N a -> inr N (irotr N a b).
Proof.
  intros HN Ha. rewrite irotr_alt by assumption. pose proof (rot_count N b HN) as Hk. unfold inr in *.
  rewrite (pow2_split N (b mod N)) in * by lia.
  pose proof (pow2_pos (N - b mod N) ltac:(lia)). pose proof (pow2_pos (b mod N) ltac:(lia)).
  set (A := 2 ^ (N - b mod N)) in *. set (K := 2 ^ (b mod N)) in *.
  pose proof (Z.mod_pos_bound a K ltac:(lia)). assert (0 <= a / K < A).
  { split. apply Z.div_pos; lia. apply Z.div_lt_upper_bound; lia. }
  nia.
Qed.

(* rotating left then right by the same count is the identity (and conversely) *)
Lemma irotr_irotl N a b : 0 < N -> inr N a -> irotr N (irotl N a b) b = a.
Proof.
  intros HN Ha. rewrite irotr_alt, irotl_alt by assumption. pose proof (rot_count N b HN) as Hk. unfold inr in *.
  rewrite (pow2_split N (b mod N)) in * by lia.
  pose proof (pow2_pos (N - b mod N) ltac:(lia)). pose proof (pow2_pos (b mod N) ltac:(lia)).
  set (A := 2 ^ (N - b mod N)) in *. set (K := 2 ^ (b mod N)) in *.
  pose proof (Z.mod_pos_bound a A ltac:(lia)). assert (Hq : 0 <= a / A < K).
  { split. apply Z.div_pos; lia. apply Z.div_lt_upper_bound; lia. }
  set (h := a mod A) in *. set (l := a / A) in *.
  assert (E1 : (h * K + l) / K = h) by (symmetry; apply (Z.div_unique_pos _ K h l); lia).
  assert (E2 : (h * K + l) mod K = l) by (symmetry; apply (Z.mod_unique_pos _ K h l); lia).
  rewrite E1, E2. unfold h, l. pose proof (Z.div_mod a A ltac:(lia)). lia.
Qed.

Lemma irotl_irotr N a b : 0 < N -> inr N a -> irotl N (irotr N a b) b = a.
Proof.
  intros HN Ha. rewrite irotl_alt, irotr_alt by assumption. pose proof (rot_count N b HN) as Hk. unfold inr in *.
  rewrite (pow2_split N (b mod N)) in * by lia.
  pose proof (pow2_pos (N - b mod N) ltac:(lia)). pose proof (pow2_pos (b mod N) ltac:(lia)).
  set (A := 2 ^ (N - b mod N)) in *. set (K := 2 ^ (b mod N)) in *.
  pose proof (Z.mod_pos_bound a K ltac:(lia)). assert (Hq : 0 <= a / K < A).
  { split. apply Z.div_pos; lia. apply Z.div_lt_upper_bound; lia. }
  set (l := a mod K) in *. set (h := a / K) in *.
  assert (E1 : (h + l * A) / A = l) by (symmetry; apply (Z.div_unique_pos _ A l h); lia).
  assert (E2 : (h + l * A) mod A = h) by (symmetry; apply (Z.mod_unique_pos _ A l h); lia).
  rewrite E1, E2. unfold h, l. pose proof (Z.div_mod a K ltac:(lia)). lia.
Qed.

(* ---- every operator result is in range ---- *)
Lemma ishr_u_range N a b : 0 < N -> inr N a -> inr N (ishr_u N a b).
Proof.
  intros HN Ha. unfold ishr_u, inr in *. pose proof (rot_count N b HN). pose proof (pow2_pos (b mod N) ltac:(lia)). split.
  - apply Z.div_pos; lia.
  - apply Z.le_lt_trans with a; [|lia]. apply Z.div_le_upper_bound; nia.
Qed.

Lemma ibinop_range N o a b r : 0 < N -> inr N a -> inr N b -> eval_ibinop N o a b = Some r -> inr N r.
Proof.
  intros HN Ha Hb. pose proof (pow2_pos N ltac:(lia)) as HP.
  destruct o; cbn [eval_ibinop]; unfold iadd, isub, imul, idiv_s, idiv_u, irem_s, irem_u, ishl, ishr_s.
  all: try (intros [= <-]; first [ apply modN_range; lia | apply iand_range; (assumption || lia) | apply ior_range; (assumption || lia)
                                 | apply ixor_range; (assumption || lia) | apply irotl_range; assumption | apply irotr_range; assumption
                                 | apply ishr_u_range; assumption ]).
  - destruct (b =? 0); [discriminate|]. destruct (_ =? _); [discriminate|]. intros [= <-]. apply modN_range; lia.
  - destruct (Z.eqb_spec b 0); [discriminate|]. intros [= <-]. unfold inr in *. split. apply Z.div_pos; lia.
    apply Z.le_lt_trans with a; [|lia]. apply Z.div_le_upper_bound; nia.
  - destruct (b =? 0); [discriminate|]. intros [= <-]. apply modN_range; lia.
  - destruct (Z.eqb_spec b 0); [discriminate|]. intros [= <-]. unfold inr in *. pose proof (Z.mod_pos_bound a b ltac:(lia)). lia.
Qed.

Lemma irelop_range N o a b : eval_irelop N o a b = 0 \/ eval_irelop N o a b = 1.
Proof.
  destruct o; cbn [eval_irelop]; unfold ieq, ine, ilt_s, ilt_u, igt_s, igt_u, ile_s, ile_u, ige_s, ige_u, b2z;
    match goal with |- context [if ?c then _ else _] => destruct c end; auto.
Qed.

(* ---- shift and rotate counts are taken modulo the width ---- *)
Lemma shift_count_mod N a b k : 0 < N ->
  ishl N a (b + k * N) = ishl N a b /\ ishr_u N a (b + k * N) = ishr_u N a b /\ ishr_s N a (b + k * N) = ishr_s N a b /\
  irotl N a (b + k * N) = irotl N a b /\ irotr N a (b + k * N) = irotr N a b.
Proof. intros HN. unfold ishl, ishr_u, ishr_s, irotl, irotr. rewrite Z.mod_add by lia. splits; reflexivity. Qed.

Lemma shift_count_reduce N a b : 0 < N ->
  ishl N a b = ishl N a (b mod N) /\ ishr_u N a b = ishr_u N a (b mod N) /\ ishr_s N a b = ishr_s N a (b mod N) /\
  irotl N a b = irotl N a (b mod N) /\ irotr N a b = irotr N a (b mod N).
Proof. intros HN. unfold ishl, ishr_u, ishr_s, irotl, irotr. rewrite Z.mod_mod by lia. splits; reflexivity. Qed.

(* with a count below the width: multiply / floor-divide the unsigned resp. signed value by 2^k *)
Lemma shift_values N a k : 0 < N -> inr N a -> 0 <= k < N ->
  ishl N a k = (a * 2 ^ k) mod 2 ^ N /\ ishr_u N a k = a / 2 ^ k /\ sgn N (ishr_s N a k) = sgn N a / 2 ^ k.
Proof.
  intros HN Ha Hk. unfold ishl, ishr_u, ishr_s. rewrite (Z.mod_small k N) by lia. splits; try reflexivity.
  apply sgn_modN; [lia|]. pose proof (sgn_range N a HN Ha). pose proof (pow2_pos k ltac:(lia)).
  set (x := sgn N a) in *. set (P := 2 ^ (N - 1)) in *. set (K := 2 ^ k) in *. clearbody x P K.
  split.
  - apply Z.div_le_lower_bound; nia.
  - apply Z.div_lt_upper_bound; nia.
Qed.

(* ---- division and remainder ---- *)
Lemma idiv_u_euclid N a b : inr N a -> inr N b ->
  (b = 0 -> idiv_u N a b = None /\ irem_u N a b = None) /\
  (b <> 0 -> exists q r, idiv_u N a b = Some q /\ irem_u N a b = Some r /\ a = b * q + r /\ 0 <= r < b).
Proof.
  intros Ha Hb. unfold idiv_u, irem_u, inr in *. split.
  - intros ->. auto.
  - intros Hne. destruct (Z.eqb_spec b 0); [contradiction|]. exists (a / b), (a mod b). splits; try reflexivity.
    + apply Z.div_mod; lia.
    + apply Z.mod_pos_bound; lia.
    + apply Z.mod_pos_bound; lia.
Qed.

Lemma quot_bound x y P : y <> 0 -> - P <= x <= P -> - P <= Z.quot x y <= P.
Proof.
  intros Hy Hx. assert (Z.abs (Z.quot x y) <= Z.abs x); [|lia].
  rewrite <- Z.quot_abs by lia. rewrite Z.quot_div_nonneg by lia.
  apply Z.div_le_upper_bound; nia.
Qed.

Lemma quot_eq_P x y P : 0 < P -> y <> 0 -> - P <= x < P -> - P <= y < P -> (Z.quot x y = P <-> x = - P /\ y = -1).
Proof.
  intros HP Hy Hx Hyr. split.
  - intros E. pose proof (Z.quot_rem' x y) as D. pose proof (Z.rem_bound_abs x y Hy) as B.
    assert (S : 0 <= Z.rem x y * x) by (apply Z.rem_sign_mul; lia).
    rewrite E in D. nia.
  - intros [-> ->]. change (-1) with (- (1)). rewrite Z.quot_opp_opp by lia. apply Z.quot_1_r.
Qed.

Lemma sgn_min N : 0 < N -> sgn N (2 ^ (N - 1)) = - 2 ^ (N - 1).
Proof. intros HN. unfold sgn. rewrite Z.ltb_irrefl. rewrite (pow2_half N HN). lia. Qed.
Lemma sgn_m1 N : 0 < N -> sgn N (2 ^ N - 1) = -1.
Proof.
  intros HN. unfold sgn. pose proof (pow2_pos (N - 1) ltac:(lia)). rewrite (pow2_half N HN).
  destruct (Z.ltb_spec (2 * 2 ^ (N - 1) - 1) (2 ^ (N - 1))); lia.
Qed.

(* i.div_s traps exactly on a zero divisor and on MIN / -1 *)
Lemma idiv_s_traps_exactly N a b : 0 < N -> inr N a -> inr N b ->
  (idiv_s N a b = None <-> b = 0 \/ (a = 2 ^ (N - 1) /\ b = 2 ^ N - 1)).
Proof.
  intros HN Ha Hb. unfold idiv_s. pose proof (pow2_pos (N - 1) ltac:(lia)) as HP.
  pose proof (sgn_range N a HN Ha) as Ra. pose proof (sgn_range N b HN Hb) as Rb.
  destruct (Z.eqb_spec b 0) as [->|Hne].
  - split; auto.
  - assert (Hsb : sgn N b <> 0).
    { intros E. apply Hne. apply (sgn_inj N b 0 HN Hb). unfold inr. pose proof (pow2_pos N); lia.
      rewrite E. unfold sgn. destruct (Z.ltb_spec 0 (2 ^ (N - 1))); lia. }
    cbv zeta. destruct (Z.eqb_spec (Z.quot (sgn N a) (sgn N b)) (2 ^ (N - 1))) as [E|E].
    + apply quot_eq_P in E; try lia. destruct E as [E1 E2]. split; auto. intros _. right. split.
      * apply (sgn_inj N); auto. unfold inr. rewrite (pow2_half N HN). lia. now rewrite sgn_min.
      * apply (sgn_inj N); auto. unfold inr. pose proof (pow2_pos N); lia. now rewrite sgn_m1.
    + split; [discriminate|]. intros [?|[-> ->]]; [contradiction|]. exfalso. apply E.
      rewrite sgn_min, sgn_m1 by assumption. apply quot_eq_P; lia.
Qed.

(* when it does not trap the result is the quotient truncated toward zero of the signed operands *)
Lemma idiv_s_value N a b q : 0 < N -> inr N a -> inr N b -> idiv_s N a b = Some q ->
  inr N q /\ sgn N q = Z.quot (sgn N a) (sgn N b).
Proof.
  intros HN Ha Hb. unfold idiv_s. pose proof (pow2_pos (N - 1) ltac:(lia)) as HP.
  pose proof (sgn_range N a HN Ha) as Ra. pose proof (sgn_range N b HN Hb) as Rb.
  destruct (Z.eqb_spec b 0) as [->|Hne]; [discriminate|].
  assert (Hsb : sgn N b <> 0).
  { intros E. apply Hne. apply (sgn_inj N b 0 HN Hb). unfold inr. pose proof (pow2_pos N); lia.
    rewrite E. unfold sgn. destruct (Z.ltb_spec 0 (2 ^ (N - 1))); lia. }
  cbv zeta. destruct (Z.eqb_spec (Z.quot (sgn N a) (sgn N b)) (2 ^ (N - 1))) as [E|E]; [discriminate|].
  intros [= <-]. split. apply modN_range; lia. apply sgn_modN; [lia|].
  pose proof (quot_bound (sgn N a) (sgn N b) (2 ^ (N - 1)) Hsb ltac:(lia)). lia.
Qed.

Lemma irem_s_value N a b : 0 < N -> inr N a -> inr N b ->
  (b = 0 -> irem_s N a b = None) /\
  (b <> 0 -> exists r, irem_s N a b = Some r /\ inr N r /\ sgn N r = Z.rem (sgn N a) (sgn N b)).
Proof.
  intros HN Ha Hb. unfold irem_s. pose proof (pow2_pos (N - 1) ltac:(lia)) as HP.
  pose proof (sgn_range N a HN Ha) as Ra. pose proof (sgn_range N b HN Hb) as Rb. split.
  - intros ->. reflexivity.
  - intros Hne. destruct (Z.eqb_spec b 0); [contradiction|]. eexists. splits; [reflexivity| apply modN_range; lia |].
    assert (Hsb : sgn N b <> 0).
    { intros E. apply Hne. apply (sgn_inj N b 0 HN Hb). unfold inr. pose proof (pow2_pos N); lia.
      rewrite E. unfold sgn. destruct (Z.ltb_spec 0 (2 ^ (N - 1))); lia. }
    apply sgn_modN; [lia|]. pose proof (Z.rem_bound_abs (sgn N a) (sgn N b) Hsb). lia.
Qed.

Lemma irem_s_min_m1 N : 0 < N -> irem_s N (2 ^ (N - 1)) (2 ^ N - 1) = Some 0.
Proof.
  intros HN. unfold irem_s. pose proof (pow2_pos N ltac:(lia)). destruct (Z.eqb_spec (2 ^ N - 1) 0).
  - rewrite (pow2_half N HN) in *. pose proof (pow2_pos (N - 1) ltac:(lia)). lia.
  - rewrite sgn_min, sgn_m1 by assumption. change (-1) with (- (1)). rewrite Z.rem_opp_r by lia. rewrite Z.rem_1_r. reflexivity.
Qed.

(* ---- add, sub, mul are the ring operations of Z / 2^N ---- *)
Lemma iadd_congr N a b : 0 <= N -> (iadd N a b - (a + b)) mod 2 ^ N = 0 /\ (isub N a b - (a - b)) mod 2 ^ N = 0 /\ (imul N a b - a * b) mod 2 ^ N = 0.
Proof.
  intros HN. pose proof (pow2_pos N HN). unfold iadd, isub, imul, modN. splits.
  all: rewrite Zminus_mod, Z.mod_mod, Z.sub_diag by lia; apply Z.mod_0_l; lia.
Qed.

Lemma iadd_comm N a b : iadd N a b = iadd N b a.
Proof. unfold iadd. f_equal. lia. Qed.
Lemma imul_comm N a b : imul N a b = imul N b a.
Proof. unfold imul. f_equal. lia. Qed.
Lemma iadd_assoc N a b c : 0 <= N -> iadd N (iadd N a b) c = iadd N a (iadd N b c).
Proof.
  intros HN. pose proof (pow2_pos N HN). unfold iadd, modN. rewrite Z.add_mod_idemp_l, Z.add_mod_idemp_r by lia. f_equal. lia.
Qed.
Lemma imul_assoc N a b c : 0 <= N -> imul N (imul N a b) c = imul N a (imul N b c).
Proof.
  intros HN. pose proof (pow2_pos N HN). unfold imul, modN. rewrite Z.mul_mod_idemp_l, Z.mul_mod_idemp_r by lia. f_equal. lia.
Qed.
Lemma imul_iadd_distr N a b c : 0 <= N -> imul N a (iadd N b c) = iadd N (imul N a b) (imul N a c).
Proof.
  intros HN. pose proof (pow2_pos N HN). unfold imul, iadd, modN.
  rewrite Z.mul_mod_idemp_r, Z.add_mod_idemp_l, Z.add_mod_idemp_r by lia. f_equal. lia.
Qed.
Lemma iadd_0 N a : inr N a -> iadd N a 0 = a.
Proof. intros. unfold iadd. rewrite Z.add_0_r. now apply modN_small. Qed.
Lemma imul_1 N a : inr N a -> imul N a 1 = a.
Proof. intros. unfold imul. rewrite Z.mul_1_r. now apply modN_small. Qed.
Lemma isub_iadd N a b : 0 <= N -> inr N a -> isub N (iadd N a b) b = a.
Proof.
  intros HN Ha. pose proof (pow2_pos N HN). unfold isub, iadd, modN. rewrite Zminus_mod_idemp_l. replace (a + b - b) with a by lia. now apply modN_small.
Qed.
Lemma iadd_isub N a b : 0 <= N -> inr N a -> iadd N (isub N a b) b = a.
Proof.
  intros HN Ha. pose proof (pow2_pos N HN). unfold isub, iadd, modN. rewrite Z.add_mod_idemp_l by lia. replace (a - b + b) with a by lia. now apply modN_small.
Qed.
(* the same operators compute on the signed interpretation, wrapping around *)
Lemma iadd_signed N a b : 0 < N -> inr N a -> inr N b ->
  iadd N a b = modN N (sgn N a + sgn N b) /\ isub N a b = modN N (sgn N a - sgn N b) /\ imul N a b = modN N (sgn N a * sgn N b).
Proof.
  intros HN Ha Hb. pose proof (pow2_pos N ltac:(lia)). rewrite <- (sgn_congr N a HN Ha) at 1 3 5. rewrite <- (sgn_congr N b HN Hb) at 1 3 5.
  unfold iadd, isub, imul, modN. splits.
  - now rewrite <- Zplus_mod.
  - now rewrite <- Zminus_mod.
  - now rewrite <- Zmult_mod.
Qed.

(* ---- clz / ctz / popcnt ---- *)
Lemma iclz_spec N a : 0 < N -> inr N a ->
  (a = 0 -> iclz N a = N) /\
  (a <> 0 -> 0 <= iclz N a < N /\ 2 ^ (N - 1 - iclz N a) <= a < 2 ^ (N - iclz N a)).
Proof.
  intros HN Ha. unfold iclz, inr in *. split.
  - intros ->. reflexivity.
  - intros Hne. destruct (Z.eqb_spec a 0); [contradiction|].
    pose proof (Z.log2_spec a ltac:(lia)) as L. pose proof (Z.log2_nonneg a).
    assert (Z.log2 a < N) by (apply Z.log2_lt_pow2; lia).
    replace (N - 1 - (N - 1 - Z.log2 a)) with (Z.log2 a) by lia.
    replace (N - (N - 1 - Z.log2 a)) with (Z.succ (Z.log2 a)) by lia. lia.
Qed.

Lemma ctz_fuel_spec f a : 0 < a < 2 ^ Z.of_nat f ->
  0 <= ctz_fuel f a < Z.of_nat f /\ a mod 2 ^ ctz_fuel f a = 0 /\ Z.odd (a / 2 ^ ctz_fuel f a) = true.
Proof.
  revert a. induction f as [|f IH]; intros a Ha.
  - simpl in Ha. lia.
  - cbn [ctz_fuel]. destruct (Z.odd a) eqn:Eo.
    + rewrite Z.pow_0_r, Z.mod_1_r, Z.div_1_r. splits; try lia. assumption.
    + rewrite Nat2Z.inj_succ, Z.pow_succ_r in Ha by lia.
      assert (Ev : a = 2 * (a / 2)).
      { pose proof (Z.div_mod a 2 ltac:(lia)). rewrite Zmod_odd, Eo in *. lia. }
      destruct (IH (a / 2) ltac:(lia)) as (R & M & O). set (c := ctz_fuel f (a / 2)) in *.
      rewrite Nat2Z.inj_succ. replace (1 + c) with (Z.succ c) by lia. rewrite Z.pow_succ_r by lia.
      pose proof (pow2_pos c ltac:(lia)). splits; try lia.
      * rewrite Ev at 1. rewrite Z.mul_mod_distr_l by lia. rewrite M. lia.
      * rewrite <- Z.div_div by lia. assumption.
Qed.

Lemma ictz_spec N a : 0 < N -> inr N a ->
  (a = 0 -> ictz N a = N) /\
  (a <> 0 -> 0 <= ictz N a < N /\ a mod 2 ^ ictz N a = 0 /\ Z.odd (a / 2 ^ ictz N a) = true).
Proof.
  intros HN Ha. unfold ictz, inr in *. split.
  - intros ->. reflexivity.
  - intros Hne. destruct (Z.eqb_spec a 0); [contradiction|].
    pose proof (ctz_fuel_spec (Z.to_nat N) a) as S. rewrite Z2Nat.id in S by lia. apply S. lia.
Qed.

(* number of set bits among the positions below n *)
Fixpoint bits_set (n : nat) (a : Z) : Z :=
  match n with O => 0 | S n' => bits_set n' a + b2z (Z.testbit a (Z.of_nat n')) end.

Lemma bits_set_half n a : b2z (Z.odd a) + bits_set n (a / 2) = bits_set (S n) a.
Proof.
  induction n as [|n IH].
  - cbn [bits_set]. rewrite Z.bit0_odd. simpl. lia.
  - change (bits_set (S (S n)) a) with (bits_set (S n) a + b2z (Z.testbit a (Z.of_nat (S n)))).
    rewrite <- IH. cbn [bits_set].
    rewrite Z.div2_bits by lia. rewrite Nat2Z.inj_succ. lia.
Qed.

Lemma popcnt_fuel_spec f a : popcnt_fuel f a = bits_set f a.
Proof.
  revert a. induction f as [|f IH]; intros a; [reflexivity|].
  cbn [popcnt_fuel]. rewrite IH. rewrite <- bits_set_half. unfold b2z. reflexivity.
Qed.

Lemma bits_set_range n a : 0 <= bits_set n a <= Z.of_nat n.
Proof.
  induction n as [|n IH]; [simpl; lia|]. cbn [bits_set]. rewrite Nat2Z.inj_succ. unfold b2z. destruct (Z.testbit a (Z.of_nat n)); lia.
Qed.

Lemma ipopcnt_spec N a : 0 <= N -> ipopcnt N a = bits_set (Z.to_nat N) a /\ 0 <= ipopcnt N a <= N.
Proof.
  intros HN. unfold ipopcnt. rewrite popcnt_fuel_spec. split; [reflexivity|].
  pose proof (bits_set_range (Z.to_nat N) a). rewrite Z2Nat.id in *; lia.
Qed.

Lemma iunop_range N o a : 1 < N -> inr N a -> inr N (eval_iunop N o a).
Proof.
  intros HN Ha. assert (HNlt : N < 2 ^ N) by (apply Z.pow_gt_lin_r; lia).
  destruct o; cbn [eval_iunop]; unfold inr; try (apply modN_range; lia).
  - destruct (Z.eq_dec a 0) as [E|E]; [apply (proj1 (iclz_spec N a ltac:(lia) Ha)) in E | apply (proj2 (iclz_spec N a ltac:(lia) Ha)) in E]; lia.
  - destruct (Z.eq_dec a 0) as [E|E]; [apply (proj1 (ictz_spec N a ltac:(lia) Ha)) in E | apply (proj2 (ictz_spec N a ltac:(lia) Ha)) in E]; lia.
  - pose proof (ipopcnt_spec N a ltac:(lia)). lia.
Qed.

(* ---- comparisons agree with the order of Z on the unsigned / signed interpretation ---- *)
Lemma irelop_spec N a b :
  (ieq N a b = 1 <-> a = b) /\ (ine N a b = 1 <-> a <> b) /\
  (ilt_u N a b = 1 <-> a < b) /\ (igt_u N a b = 1 <-> a > b) /\ (ile_u N a b = 1 <-> a <= b) /\ (ige_u N a b = 1 <-> a >= b) /\
  (ilt_s N a b = 1 <-> sgn N a < sgn N b) /\ (igt_s N a b = 1 <-> sgn N a > sgn N b) /\
  (ile_s N a b = 1 <-> sgn N a <= sgn N b) /\ (ige_s N a b = 1 <-> sgn N a >= sgn N b) /\
  (ieqz N a = 1 <-> a = 0).
Proof.
  unfold ieq, ine, ilt_u, igt_u, ile_u, ige_u, ilt_s, igt_s, ile_s, ige_s, ieqz, b2z. splits.
  all: match goal with |- context [if ?c then _ else _] => destruct c eqn:E end; lia.
Qed.

(* ---- sign extension ---- *)
Lemma iextend_s_spec M N a : 0 < M <= N ->
  inr N (iextend_s M N a) /\ sgn N (iextend_s M N a) = sgn M (a mod 2 ^ M) /\
  (iextend_s M N a) mod 2 ^ M = a mod 2 ^ M.
Proof.
  intros H. unfold iextend_s. pose proof (pow2_pos M ltac:(lia)) as HM.
  assert (R : inr M (modN M a)) by (apply modN_range; lia).
  pose proof (sgn_range M _ ltac:(lia) R) as S.
  assert (LE : 2 ^ (M - 1) <= 2 ^ (N - 1)) by (apply Z.pow_le_mono_r; lia).
  splits.
  - apply modN_range; lia.
  - apply sgn_modN; [lia|]. unfold modN in *. lia.
  - unfold modN at 1. assert (D : 2 ^ N = 2 ^ (N - M) * 2 ^ M) by (apply pow2_split; lia).
    pose proof (pow2_pos (N - M) ltac:(lia)). rewrite D. rewrite Z.mul_comm. rewrite <- Znumtheory.Zmod_div_mod; try lia.
    + apply (sgn_congr M (modN M a)); [lia|assumption].
    + exists (2 ^ (N - M)). lia.
Qed.

Lemma extend_wrap_spec a : inr 32 a ->
  inr 64 (extend_i32_s a) /\ sgn 64 (extend_i32_s a) = sgn 32 a /\ extend_i32_u a = a /\ (forall x, wrap_i64 x = x mod 2 ^ 32).
Proof.
  intros Ha. unfold extend_i32_s, extend_i32_u, wrap_i64. splits; try reflexivity.
  - apply modN_range; lia.
  - apply sgn_modN; [lia|]. pose proof (sgn_range 32 a ltac:(lia) Ha). simpl in *. lia.
Qed.

(* non-vacuity: concrete instances (the trap cases and wrap-arounds really occur at N = 32) *)
Example ex_div_s_overflow : idiv_s 32 0x80000000 0xffffffff = None /\ irem_s 32 0x80000000 0xffffffff = Some 0 /\ idiv_s 32 7 0 = None.
Proof. vm_compute. auto. Qed.
Example ex_div_s_neg : idiv_s 32 0xfffffff9 2 = Some 0xfffffffd /\ irem_s 32 0xfffffff9 2 = Some 0xffffffff.
Proof. vm_compute. auto. Qed.
Example ex_shift_mod : ishl 32 1 33 = 2 /\ ishr_s 32 0x80000000 63 = 0xffffffff /\ irotl 32 0x80000001 1 = 3 /\ irotr 64 1 65 = 0x8000000000000000.
Proof. vm_compute. auto. Qed.
Example ex_counts : iclz 32 1 = 31 /\ ictz 32 0x80000000 = 31 /\ ipopcnt 64 0xffffffffffffffff = 64 /\ iclz 64 0 = 64 /\ ictz 32 0 = 32.
Proof. vm_compute. auto. Qed.
