(* Proofs about Sys/WasiGuard.v (C15). The memory guards unfold to MemInst.has_size =
   Gen.GenWasm.MemoryInstance_hasSize (regenerated from internal/wasm/memory.go), the errno numbers and
   ToErrno to Gen.GenSysErrno / Gen.GenWasip1, so a change there re-opens these proofs. *)
From Verif Require Import Lib.GoInt Gen.GenWasm Rt.MemInst Proofs.MemInstP Gen.GenSysErrno Gen.GenWasip1 Gen.GenSysFd Sys.WasiGuard.
From Coq Require Import ZifyBool.
Open Scope Z_scope.
Ltac Zify.zify_post_hook ::= Z.div_mod_to_equations.

Ltac splits := repeat match goal with |- _ /\ _ => split end.

(* ---------------------------------------------------------------- well-formed inputs *)
Definition u64 (z : Z) : Prop := 0 <= z < 2 ^ 64.
Definition wf_mem (m : mem) : Prop := 0 <= m_len m <= 2 ^ 32.
Definition wf_view (v : view) : Prop := forall i, u32 (fst (v_iov v i)) /\ u32 (snd (v_iov v i)).
Definition wf_lens (l : list Z) : Prop :=
  Forall (fun x => 0 <= x) l /\ 4 * Z.of_nat (length l) < 2 ^ 32 /\ nt_size l < 2 ^ 32.
Definition wf_env (e : env) : Prop :=
  wf_lens (e_args e) /\ wf_lens (e_envs e) /\
  Forall (fun kv => 0 <= f_namelen (snd kv) <= 4096) (e_tbl e) /\ 0 <= e_tcap e /\ 0 <= e_ndir e.

Definition wf_call (c : call) : Prop :=
  match c with
  | ArgsGet a b | ArgsSizesGet a b | EnvironGet a b | EnvironSizesGet a b | ClockResGet a b
  | FdFdstatGet a b | FdFdstatSetFlags a b | FdFilestatGet a b | FdPrestatGet a b | FdRenumber a b | FdTell a b
  | RandomGet a b | SockShutdown a b => u32 a /\ u32 b
  | ClockTimeGet a p b => u32 a /\ u64 p /\ u32 b
  | FdAdvise a o l d => u32 a /\ u64 o /\ u64 l /\ u32 d
  | FdAllocate a o l | FdFdstatSetRights a o l => u32 a /\ u64 o /\ u64 l
  | FdClose a | FdDatasync a | FdSync a | ProcExit a | ProcRaise a => u32 a
  | FdFilestatSetSize a s => u32 a /\ u64 s
  | FdFilestatSetTimes a x y f => u32 a /\ u64 x /\ u64 y /\ u32 f
  | FdPread a i n o r | FdPwrite a i n o r => u32 a /\ u32 i /\ u32 n /\ u64 o /\ u32 r
  | FdPrestatDirName a p l | PathCreateDirectory a p l | PathRemoveDirectory a p l | PathUnlinkFile a p l
  | SockAccept a p l => u32 a /\ u32 p /\ u32 l
  | FdRead a i n r | FdWrite a i n r | PollOneoff a i n r => u32 a /\ u32 i /\ u32 n /\ u32 r
  | FdReaddir a b l k r => u32 a /\ u32 b /\ u32 l /\ u64 k /\ u32 r
  | FdSeek a o w r => u32 a /\ u64 o /\ u32 w /\ u32 r
  | PathFilestatGet a f p l r | PathSymlink a f p l r | SockSend a f p l r => u32 a /\ u32 f /\ u32 p /\ u32 l /\ u32 r
  | PathFilestatSetTimes a f p l x y g => u32 a /\ u32 f /\ u32 p /\ u32 l /\ u64 x /\ u64 y /\ u32 g
  | PathLink a f p l b q k => u32 a /\ u32 f /\ u32 p /\ u32 l /\ u32 b /\ u32 q /\ u32 k
  | PathOpen a d p l o x y f r => u32 a /\ u32 d /\ u32 p /\ u32 l /\ u32 o /\ u64 x /\ u64 y /\ u32 f /\ u32 r
  | PathReadlink a p l b k r | PathRename a p l b k r | SockRecv a p l b k r => u32 a /\ u32 p /\ u32 l /\ u32 b /\ u32 k /\ u32 r
  | SchedYield => True
  end.

(* contracts of the host answers that the guards rely on: DirentCache/maxDirents never produce more than buf_len bytes
   (C16's Dirent model); a link target is a host path (at most PATH_MAX bytes) *)
Definition host_ok (h : host) (c : call) : Prop :=
  0 <= h_n h /\
  match c with
  | FdReaddir _ _ len _ _ => h_n h <= len
  | PathReadlink _ _ _ _ _ _ => h_n h <= 4096
  | _ => True
  end.

(* the one reachable host panic of the current tree: fd_filestat_set_times on a descriptor whose entry has no
   file system (stdio, sockets) when File.Utimens is unsupported *)
Definition nil_fs_case (e : env) (h : host) (c : call) : bool :=
  match c with
  | FdFilestatSetTimes fd _ _ fl =>
      match lookup e (i32 fd) with
      | Some x => negb (times_invalid (wrap 16 fl)) && ((h_e1 h =? EPERM) || (h_e1 h =? ENOSYS)) && nofs x && negb set_times_checks_fs
      | None => false
      end
  | _ => false
  end.

(* ---------------------------------------------------------------- the invariant of a result *)
Definition okw (m : mem) (w : Z * Z) : Prop := 0 <= fst w /\ 0 <= snd w /\ fst w + snd w <= m_len m.
Definition wok (m : mem) (D : Z * Z -> Prop) (w : Z * Z) : Prop := okw m w /\ exists d, D d /\ sub_region w d.
(* a designated descriptor f is carried as the pseudo-region (f, -1) so that one predicate D describes both *)
(* an acceptable outcome: no host panic, and an error number is never 0 *)
Definition okout (o : outcome) : Prop := o <> Panic /\ forall x, o = Errno x -> x <> 0.
Ltac enz := let x := fresh in let He := fresh in
  intros x He; first [discriminate He | injection He as <-; first [assumption | cbv; discriminate | lia]].
Ltac okt := split; [discriminate | enz].

Definition good (m : mem) (D : Z * Z -> Prop) (B : Z) (r : res) : Prop :=
  okout (r_out r) /\ Forall (wok m D) (r_w r) /\ 0 <= r_alloc r <= B /\ Forall (fun f => D (f, -1)) (r_fds r).

Lemma good_ret m (D : Z * Z -> Prop) B o : okout o -> 0 <= B -> good m D B (ret o).
Proof. intros Ho HB. unfold good, ret; cbn. splits; auto; lia. Qed.

Lemma good_addw m (D : Z * Z -> Prop) B off n r : okw m (off, n) -> (exists d, D d /\ sub_region (off, n) d) -> good m D B r -> good m D B (addw off n r).
Proof. intros Hk Hd (A & W & C & F). unfold good, addw; cbn. splits; auto; try lia. constructor; [split; assumption|assumption]. Qed.

Lemma good_adda m (D : Z * Z -> Prop) B a r : 0 <= a -> good m D (B - a) r -> good m D B (adda a r).
Proof. intros Ha (A & W & C & F). unfold good, adda; cbn. splits; auto; lia. Qed.

Lemma good_addf m (D : Z * Z -> Prop) B f r : D (f, -1) -> good m D B r -> good m D B (addf f r).
Proof. intros Hf (A & W & C & F). unfold good, addf; cbn. splits; auto; lia. Qed.

Lemma good_addc m (D : Z * Z -> Prop) B l r : good m D B r -> good m D B (addc l r).
Proof. intros (A & W & C & F). unfold good, addc; cbn. splits; auto; lia. Qed.

Lemma good_mono m (D D' : Z * Z -> Prop) B B' r : (forall d, D d -> D' d) -> B <= B' -> good m (D : Z * Z -> Prop) B r -> good m D' B' r.
Proof.
  intros HD HB (A & W & C & F). unfold good. splits; auto; try lia.
  - eapply Forall_impl; [|exact W]. intros w (Hk & d & Hd & Hs). split; [exact Hk|]. exists d. auto.
  - eapply Forall_impl; [|exact F]. intros f Hf. apply HD. exact Hf.
Qed.

Lemma good_g_read m (D : Z * Z -> Prop) B off n e k : e <> 0 -> wf_mem m -> u32 off -> u32 n -> 0 <= B ->
  (off + n <= m_len m -> good m D B (k tt)) -> good m D B (g_read m off n e k).
Proof.
  intros He0 Hm Ho Hn HB Hk. unfold g_read.
  destruct (read_region_exact m off n Hm Ho Hn) as (Hnp & Hok).
  destruct (read_region m off n) eqn:E.
  - apply Hk. apply Hok. destruct v; [reflexivity| |]; exfalso.
    + (* the value is always 0 *) unfold read_region in E. destruct (has_size m off n); [|discriminate].
      destruct ((off <=? wrap 64 (off + n)) && (wrap 64 (off + n) <=? m_len m)); discriminate.
    + unfold read_region in E. destruct (has_size m off n); [|discriminate].
      destruct ((off <=? wrap 64 (off + n)) && (wrap 64 (off + n) <=? m_len m)); discriminate.
  - apply good_ret; [okt|exact HB].
  - congruence.
Qed.

Lemma good_g_rfix m (D : Z * Z -> Prop) B off n e k : e <> 0 -> wf_mem m -> u32 off -> (n <= 8)%nat -> 0 <= B ->
  good m D B (k tt) -> good m D B (g_rfix m off n e k).
Proof.
  intros He0 Hm Ho Hn HB Hk. unfold g_rfix.
  destruct (read_fixed_exact m off n Hm Ho Hn) as (Hnp & _).
  destruct (read_fixed m off n); [exact Hk|apply good_ret; [okt|exact HB]|congruence].
Qed.

Lemma wfix_cases m off n : wf_mem m -> u32 off -> (n <= 8)%nat ->
  (snd (write_fixed m off n 0) = MemInst.Ok 0 /\ off + Z.of_nat n <= m_len m) \/ snd (write_fixed m off n 0) = MemInst.Fail.
Proof.
  intros Hm Ho Hn. unfold write_fixed.
  destruct (has_size m off (Z.of_nat n)) eqn:Hs.
  - apply has_size_exact in Hs; [|exact Hm|exact Ho|lia]. unfold slice_from_ok.
    destruct (Z.leb_spec off (m_len m)); [|unfold u32 in *; lia].
    destruct (Z.leb_spec (Z.of_nat n) (m_len m - off)); [|lia]. cbn. left. split; [reflexivity|lia].
  - right. reflexivity.
Qed.

Lemma good_g_wfix m (D : Z * Z -> Prop) B off n kf k : wf_mem m -> u32 off -> (n <= 8)%nat ->
  (exists d, D d /\ sub_region (off, Z.of_nat n) d) ->
  good m D B (kf tt) -> good m D B (k tt) -> good m D B (g_wfix m off n kf k).
Proof.
  intros Hm Ho Hn Hd Hkf Hk. unfold g_wfix.
  destruct (wfix_cases m off n Hm Ho Hn) as [[-> Hle]| ->]; [|exact Hkf].
  apply good_addw; [|exact Hd|exact Hk]. unfold okw, u32 in *; cbn [fst snd]. lia.
Qed.

Lemma good_g_write m (D : Z * Z -> Prop) B off n kf k : wf_mem m -> u32 off -> 0 <= n < 2 ^ 63 ->
  (exists d, D d /\ sub_region (off, n) d) ->
  good m D B (kf tt) -> good m D B (k tt) -> good m D B (g_write m off n kf k).
Proof.
  intros Hm Ho Hn Hd Hkf Hk. unfold g_write.
  destruct (has_size m off n) eqn:Hs; [|exact Hkf].
  apply has_size_exact in Hs; [|exact Hm|exact Ho|exact Hn].
  destruct (Z.leb_spec off (m_len m)); [|unfold u32 in *; lia].
  apply good_addw; [|exact Hd|exact Hk]. unfold okw, u32 in *; cbn [fst snd]. lia.
Qed.

Lemma good_hostop m (D : Z * Z -> Prop) B er k : 0 <= B -> good m D B (k tt) -> good m D B (hostop er k).
Proof. intros HB Hk. unfold hostop. destruct (Z.eqb_spec er 0); [exact Hk|apply good_ret; [okt|exact HB]]. Qed.

Lemma good_with_fd m (D : Z * Z -> Prop) B e fd k : 0 <= B -> (forall x, lookup e fd = Some x -> good m D B (k x)) -> good m D B (with_fd e fd k).
Proof. intros HB Hk. unfold with_fd. destruct (lookup e fd); [apply Hk; reflexivity|apply good_ret; [okt|exact HB]]. Qed.

Lemma sub_refl w : sub_region w w.
Proof. unfold sub_region. lia. Qed.

(* ---------------------------------------------------------------- args_get / environ_get *)
Lemma nt_size_nonneg l : Forall (fun x => 0 <= x) l -> 0 <= nt_size l.
Proof. induction 1; cbn [nt_size]; lia. Qed.

Lemma wo_loop_ok : forall lens olen blen oI bI,
  Forall (fun x => 0 <= x) lens -> 0 <= oI -> 0 <= bI -> olen < 2 ^ 32 -> blen < 2 ^ 32 ->
  oI + 4 * Z.of_nat (length lens) <= olen -> bI + nt_size lens <= blen ->
  wo_loop lens olen blen oI bI = true.
Proof.
  induction lens as [|l r IH]; intros olen blen oI bI Hf Ho Hb Hol Hbl Hoo Hbb; cbn [wo_loop]; [reflexivity|].
  inversion Hf as [|x xs Hl Hr]; subst. cbn [length nt_size] in *.
  pose proof (nt_size_nonneg r Hr) as Hnn.
  rewrite (wrap_small 32 l) by lia.
  rewrite (wrap_small 32 (oI + 1)), (wrap_small 32 (oI + 2)), (wrap_small 32 (oI + 3)), (wrap_small 32 (oI + 4)) by lia.
  rewrite (wrap_small 32 (bI + l)) by lia. rewrite (wrap_small 32 (bI + l + 1)) by lia.
  rewrite IH by (try assumption; lia).
  repeat rewrite andb_true_iff. splits; lia.
Qed.

Lemma write_offsets_good m (D : Z * Z -> Prop) B lens a b : wf_mem m -> wf_lens lens -> u32 a -> u32 b -> 0 <= B ->
  D (a, 4 * Z.of_nat (length lens)) -> D (b, nt_size lens) ->
  good m D B (write_offsets m lens a b).
Proof.
  intros Hm (Hf & H4 & Hs) Ha Hb HB Da Db. unfold write_offsets. cbv zeta.
  pose proof (nt_size_nonneg lens Hf) as Hnn.
  rewrite (wrap_small 32 (Z.of_nat (length lens) * 4)) by lia.
  apply good_g_read; [discriminate|assumption|assumption|unfold u32; lia|assumption|intros H1].
  apply good_g_read; [discriminate|assumption|assumption|unfold u32; lia|assumption|intros H2].
  rewrite wo_loop_ok by (try assumption; lia).
  unfold u32 in *.
  apply good_addw; [unfold okw; cbn [fst snd]; lia| exists (a, 4 * Z.of_nat (length lens)); split; [assumption|unfold sub_region; cbn [fst snd]; lia] |].
  apply good_addw; [unfold okw; cbn [fst snd]; lia| exists (b, nt_size lens); split; [assumption|apply sub_refl] |].
  apply good_ret; [okt|assumption].
Qed.

(* ---------------------------------------------------------------- iovec loops *)
Lemma iov_stop_facts cnt : u32 cnt -> u32 (iov_stop cnt) /\ iov_stop cnt mod 8 = 0 /\ iov_stop cnt / 8 <= cnt.
Proof. unfold u32, iov_stop. intros H. goint_unfold. lia. Qed.

Lemma iov_idx_ok_true stop pos : 0 <= pos -> pos < stop -> stop < 2 ^ 32 -> pos mod 8 = 0 -> stop mod 8 = 0 -> iov_idx_ok stop pos = true.
Proof.
  intros H0 H1 H2 H3 H4. unfold iov_idx_ok. rewrite (wrap_small 32 (pos + 4)) by lia.
  repeat rewrite andb_true_iff. splits; lia.
Qed.

Lemma readv_loop_good m v h (D : Z * Z -> Prop) B stop kont : wf_mem m -> wf_view v -> 0 <= B ->
  (forall n, good m D B (kont n)) ->
  (forall i, 0 <= i < stop / 8 -> D (v_iov v i)) ->
  stop mod 8 = 0 -> 0 <= stop < 2 ^ 32 ->
  forall fuel pos nread k, pos mod 8 = 0 -> 0 <= pos <= stop -> (stop - pos) / 8 < Z.of_nat fuel ->
  good m D B (readv_loop m v h stop fuel pos nread k kont).
Proof.
  intros Hm Hv HB Hk HD Hs8 Hs. induction fuel as [|f IH]; intros pos nread k Hp8 Hp Hf; [lia|].
  cbn [readv_loop]. destruct (Z.ltb_spec pos stop) as [Hlt|Hge]; cbn [negb]; [|apply Hk].
  rewrite iov_idx_ok_true by lia. cbn [negb]. cbv zeta.
  assert (Hw : wrap 32 (pos + 8) = pos + 8) by (apply wrap_small; lia). rewrite Hw.
  destruct (Hv (pos / 8)) as (Hu1 & Hu2).
  destruct (Z.eqb_spec (snd (v_iov v (pos / 8))) 0) as [Hz|Hnz].
  { apply IH; lia. }
  apply good_g_read; [discriminate|assumption|assumption|assumption|assumption|intros Hle].
  apply good_addw.
  { unfold okw, u32 in *; cbn [fst snd]. lia. }
  { exists (v_iov v (pos / 8)). split; [apply HD; lia|]. rewrite <- surjective_pairing. apply sub_refl. }
  apply good_addc.
  destruct (snd (h_rw h k) =? ENOSYS); [apply good_ret; [okt|assumption]|].
  destruct (Z.eqb_spec (snd (h_rw h k)) 0); cbn [negb]; [|apply good_ret; [okt|assumption]].
  destruct (fst (h_rw h k) <? snd (v_iov v (pos / 8))); [apply Hk|].
  apply IH; lia.
Qed.

Lemma readv_good m v h (D : Z * Z -> Prop) B iovs cnt kont : wf_mem m -> wf_view v -> 0 <= B -> u32 iovs -> u32 cnt ->
  (forall n, good m D B (kont n)) ->
  (forall i, 0 <= i < cnt -> D (v_iov v i)) ->
  good m D B (readv m v h iovs cnt kont).
Proof.
  intros Hm Hv HB Hi Hc Hk HD. unfold readv.
  destruct (iov_stop_facts cnt Hc) as (Hs & Hs8 & Hsc). unfold u32 in Hs.
  apply good_g_read; [discriminate|assumption|assumption|exact Hs|assumption|intros _].
  apply readv_loop_good; try assumption; try lia.
  intros i Hi'. apply HD. lia.
Qed.

Lemma writev_loop_good m v h (D : Z * Z -> Prop) B s0 stop kont : wf_mem m -> wf_view v -> 0 <= B ->
  (forall n, good m D B (kont n)) ->
  stop mod 8 = 0 -> 0 <= stop < 2 ^ 32 ->
  forall fuel pos nw k, pos mod 8 = 0 -> 0 <= pos <= stop -> (stop - pos) / 8 < Z.of_nat fuel ->
  good m D B (writev_loop m v h s0 stop fuel pos nw k kont).
Proof.
  intros Hm Hv HB Hk Hs8 Hs. induction fuel as [|f IH]; intros pos nw k Hp8 Hp Hf; [lia|].
  cbn [writev_loop]. destruct (Z.ltb_spec pos stop) as [Hlt|Hge]; cbn [negb]; [|apply Hk].
  rewrite iov_idx_ok_true by lia. cbn [negb]. cbv zeta.
  assert (Hw : wrap 32 (pos + 8) = pos + 8) by (apply wrap_small; lia). rewrite Hw.
  destruct (Hv (pos / 8)) as (Hu1 & Hu2).
  apply good_g_read; [discriminate|assumption|assumption|assumption|assumption|intros Hle].
  destruct (s0 && (snd (v_iov v (pos / 8)) =? 0)); [apply IH; lia|].
  apply good_addc.
  destruct (snd (h_rw h k) =? ENOSYS); [apply good_ret; [okt|assumption]|].
  destruct (Z.eqb_spec (snd (h_rw h k)) 0); cbn [negb]; [|apply good_ret; [okt|assumption]].
  apply IH; lia.
Qed.

Lemma writev_good m v h (D : Z * Z -> Prop) B s0 iovs cnt kont : wf_mem m -> wf_view v -> 0 <= B -> u32 iovs -> u32 cnt ->
  (forall n, good m D B (kont n)) ->
  good m D B (writev m v h s0 iovs cnt kont).
Proof.
  intros Hm Hv HB Hi Hc Hk. unfold writev.
  destruct (iov_stop_facts cnt Hc) as (Hs & Hs8 & Hsc). unfold u32 in Hs.
  apply good_g_read; [discriminate|assumption|assumption|exact Hs|assumption|intros _].
  apply writev_loop_good; try assumption; lia.
Qed.

(* ---------------------------------------------------------------- poll_oneoff *)
Lemma sub_idx_ok_true nsub i : 0 <= i < nsub -> nsub * 48 < 2 ^ 32 -> sub_idx_ok (nsub * 48) (i * 48) = true.
Proof.
  intros Hi Hn. unfold sub_idx_ok.
  rewrite (wrap_small 32 (i * 48 + 8)) by lia. rewrite (wrap_small 32 (i * 48 + 8 + 8)) by lia.
  repeat rewrite andb_true_iff. splits; lia.
Qed.

Lemma wev_ok_true nsub nev : 0 <= nev < nsub -> wev_ok (nsub * 32) (nev * 32) = true.
Proof. intros H. unfold wev_ok. rewrite andb_true_iff. lia. Qed.

Lemma poll_loop_ok e v nsub : 0 < nsub -> nsub * 48 < 2 ^ 32 ->
  forall fuel i nev blk, 0 <= nev -> 0 <= blk -> nev + blk <= i -> i <= nsub -> nsub - i < Z.of_nat fuel ->
  match poll_loop e v nsub (nsub * 48) (nsub * 32) fuel i nev blk with
  | PErr o => okout o
  | PEnd nev' blk' => 0 <= nev' /\ 0 <= blk' /\ nev' + blk' <= nsub
  end.
Proof.
  intros Hn0 Hn. induction fuel as [|f IH]; intros i nev blk H0 H1 H2 H3 Hf; [lia|].
  cbn [poll_loop]. destruct (Z.ltb_spec i nsub) as [Hlt|Hge]; cbn [negb]; [|lia].
  cbv zeta.
  rewrite (wrap_small 32 (i * 48)) by lia. rewrite sub_idx_ok_true by lia. cbn [negb].
  rewrite (wrap_small 32 (i * 48 + 8)) by lia. rewrite (wrap_small 32 (i * 48 + 8 + 8)) by lia.
  rewrite (wrap_small 32 (nev * 32)) by lia. rewrite (wrap_small 32 (nev + 1)) by lia.
  rewrite wev_ok_true by lia.
  assert (A32 : (32 <=? nsub * 48 - (i * 48 + 8 + 8)) = true) by lia.
  assert (A4 : (4 <=? nsub * 48 - (i * 48 + 8 + 8)) = true) by lia.
  rewrite A32, A4. cbn [negb].
  destruct (fst (fst (v_sub v i)) =? EventTypeClock).
  { destruct (snd (v_sub v i) =? 0); [apply IH; lia|].
    destruct (snd (v_sub v i) =? 1); okt. }
  destruct (fst (fst (v_sub v i)) =? EventTypeFdRead).
  { destruct (i32 (snd (fst (v_sub v i))) <? 0); [okt|].
    match goal with |- context [if ?c then _ else _] => destruct c end; apply IH; lia. }
  destruct (fst (fst (v_sub v i)) =? EventTypeFdWrite).
  { destruct (i32 (snd (fst (v_sub v i))) <? 0); [okt|]. apply IH; lia. }
  okt.
Qed.

Lemma blk_loop_ok nsub : forall blk nev, 0 <= nev -> nev + Z.of_nat blk <= nsub -> nsub * 32 < 2 ^ 32 ->
  exists nev', blk_loop (nsub * 32) blk nev = Some nev'.
Proof.
  induction blk as [|b IH]; intros nev H0 H1 H2; cbn [blk_loop]; [eexists; reflexivity|].
  rewrite (wrap_small 32 (nev * 32)) by lia. rewrite wev_ok_true by lia.
  rewrite (wrap_small 32 (nev + 1)) by lia. apply IH; lia.
Qed.

Lemma poll_good e m v h (D : Z * Z -> Prop) B inp outp nsub r : wf_mem m -> u32 inp -> u32 outp -> u32 nsub -> u32 r ->
  D (outp, 32 * nsub) -> D (r, 4) -> 2 * m_len m + 64 <= B ->
  good m D B (poll_oneoff e m v h inp outp nsub r).
Proof.
  intros Hm Hi Ho Hn Hr Do Dr HB. unfold poll_oneoff. unfold u32, wf_mem in *.
  destruct (Z.eqb_spec nsub 0); [apply good_ret; [okt|lia]|].
  destruct (Z.ltb_spec 4294967295 (wrap 64 (nsub * 48))) as [Hov|Hno]; [apply good_ret; [okt|lia]|].
  rewrite wrap_small in Hno by lia.
  rewrite (wrap_small 32 (nsub * 48)) by lia. rewrite (wrap_small 32 (nsub * 32)) by lia.
  apply good_g_read; [discriminate|assumption|exact Hi|unfold u32; lia|lia|intros H1].
  apply good_g_read; [discriminate|assumption|exact Ho|unfold u32; lia|lia|intros H2].
  assert (Dr' : exists d, D d /\ sub_region (r, Z.of_nat 4) d) by (exists (r, 4); split; [assumption|apply sub_refl]).
  assert (Gd : forall o, okout o -> good m D (B - (64 * nsub + 64)) (ret o)) by (intros; apply good_ret; [assumption|lia]).
  assert (Gw : good m D (B - (64 * nsub + 64)) (g_wfix m r 4 efault done)).
  { apply good_g_wfix; [assumption|exact Hr|lia|exact Dr'| |]; apply Gd; okt. }
  apply good_addw; [unfold okw; cbn [fst snd]; lia|exists (outp, 32 * nsub); split; [assumption|unfold sub_region; cbn [fst snd]; lia]|].
  apply good_g_wfix; [assumption|exact Hr|lia|exact Dr'|apply good_ret; [okt|lia]|].
  apply good_adda; [lia|].
  pose proof (poll_loop_ok e v nsub ltac:(lia) ltac:(lia) (S (Z.to_nat nsub)) 0 0 0 ltac:(lia) ltac:(lia) ltac:(lia) ltac:(lia) ltac:(lia)) as Hl.
  destruct (poll_loop e v nsub (nsub * 48) (nsub * 32) (S (Z.to_nat nsub)) 0 0 0) as [o|nev blk]; cbn [poll_tail].
  { apply Gd. exact Hl. }
  destruct Hl as (L0 & L1 & L2).
  destruct (nev =? nsub); [apply Gd; okt|].
  destruct (lookup e FdStdin); [|apply Gd; okt].
  apply good_hostop; [lia|].
  destruct (h_n h =? 0); [exact Gw|].
  destruct (blk_loop_ok nsub (Z.to_nat blk) nev L0 ltac:(lia) ltac:(lia)) as (nev' & ->).
  destruct (nev' =? nsub); cbn [negb]; [apply Gd; okt|exact Gw].
Qed.

(* ---------------------------------------------------------------- the other shapes *)
Lemma atpath_good m (D : Z * Z -> Prop) B p len er k : wf_mem m -> u32 p -> u32 len -> 0 <= B ->
  (len <= m_len m -> good m D (B - (3 * len + 4200)) (k tt)) -> (len <= m_len m -> 0 <= B - (3 * len + 4200)) ->
  good m D B (atpath m p len er k).
Proof.
  intros Hm Hp Hl HB Hk HB'. unfold atpath. unfold u32 in *.
  apply good_g_read; [discriminate|assumption|exact Hp|exact Hl|assumption|intros Hle].
  apply good_adda; [lia|]. apply good_hostop; [apply HB'; lia|apply Hk; lia].
Qed.

Lemma lookup_namelen e fd x : wf_env e -> lookup e fd = Some x -> 0 <= f_namelen x <= 4096.
Proof.
  intros (_ & _ & Ht & _) Hl. unfold lookup in Hl. destruct (fd <? 0); [discriminate|].
  induction (e_tbl e) as [|[k y] r IH]; cbn [find_fd] in Hl; [discriminate|].
  inversion Ht as [|a b Ha Hb]; subst. destruct (k =? fd); [inversion Hl; subst; exact Ha|apply IH; assumption].
Qed.

Definition bound (e : env) (m : mem) (c : call) : Z :=
  match c with
  | FdRenumber _ to => insert_at_alloc (e_tcap e) (i32 to)
  | _ => 8 * m_len m + 1024 * e_ndir e + 16384
  end.

Lemma insert_at_alloc_nonneg t k : 0 <= insert_at_alloc t k.
Proof. unfold insert_at_alloc. cbv zeta. destruct (0 <? k / 64 - t + 1) eqn:E; lia. Qed.

(* regions designated for output, and (f, -1) for the descriptors the call names *)
Definition desigx (e : env) (v : view) (c : call) (d : Z * Z) : Prop :=
  desig e v c d \/ (snd d = -1 /\ In (fst d) (desig_fds c)).

Ltac pick0 := left; reflexivity.
Ltac pick1 := right; left; reflexivity.
Ltac dsgk pk := eexists; split; [left; left; cbn [desig_list In]; pk | first [apply sub_refl | unfold sub_region; cbn [fst snd]; lia]].
Ltac dsg := first [dsgk pick0 | dsgk pick1].
Ltac gret := apply good_ret; [okt|lia].

Lemma wasi_good e m v h c : wf_env e -> wf_mem m -> wf_view v -> wf_call c -> host_ok h c -> nil_fs_case e h c = false ->
  good m (desigx e v c) (bound e m c) (wasi e m v h c).
Proof.
  intros He Hm Hv Hc (Hn0 & Hh) Hnf. pose proof He as (Ha & Hen & Ht & Htc & Hnd).
  pose proof Hm as Hm'. unfold wf_mem in Hm'.
  destruct c; cbn [wasi bound wf_call] in *; unfold u64 in *;
    repeat match goal with H : _ /\ _ |- _ => destruct H end.
  - (* args_get *) apply write_offsets_good; try assumption; try lia; left; left; cbn; auto.
  - (* args_sizes_get *) unfold sizes_get. apply good_g_wfix; try assumption; try lia; [dsg|gret|].
    apply good_g_wfix; try assumption; try lia; [dsg|gret|gret].
  - apply write_offsets_good; try assumption; try lia; left; left; cbn; auto.
  - unfold sizes_get. apply good_g_wfix; try assumption; try lia; [dsg|gret|].
    apply good_g_wfix; try assumption; try lia; [dsg|gret|gret].
  - (* clock_res_get *) unfold clock_get. destruct ((id =? ClockIDRealtime) || (id =? ClockIDMonotonic)); [|gret].
    apply good_g_wfix; try assumption; try lia; [dsg|gret|gret].
  - unfold clock_get. destruct ((id =? ClockIDRealtime) || (id =? ClockIDMonotonic)); [|gret].
    apply good_g_wfix; try assumption; try lia; [dsg|gret|gret].
  - (* fd_advise *) apply good_with_fd; [lia|intros x Hx]. destruct (wrap 8 adv <=? FdAdviceNoReuse); gret.
  - (* fd_allocate *) apply good_with_fd; [lia|intros x Hx]. destruct (swrap 64 (wrap 64 (off + len)) <? 0); [gret|].
    apply good_hostop; [lia|gret].
  - (* fd_close *) apply good_with_fd; [lia|intros x Hx]. apply good_hostop; [lia|]. apply good_addf; [right; cbn; auto|gret].
  - (* fd_datasync *) unfold fd_hostop. apply good_with_fd; [lia|intros x Hx]. apply good_hostop; [lia|gret].
  - (* fd_fdstat_get *) apply good_g_read; [discriminate|assumption|assumption|unfold u32; lia|lia|intros Hle].
    apply good_with_fd; [lia|intros x Hx]. apply good_hostop; [lia|].
    apply good_addw; [unfold okw, u32 in *; cbn [fst snd]; lia|dsg|gret].
  - (* fd_fdstat_set_flags *) match goal with |- context [if ?b then _ else _] => destruct b end; [gret|].
    unfold fd_hostop. apply good_with_fd; [lia|intros x Hx]. apply good_hostop; [lia|gret].
  - gret.
  - (* fd_filestat_get *) apply good_g_read; [discriminate|assumption|assumption|unfold u32; lia|lia|intros Hle].
    apply good_with_fd; [lia|intros x Hx]. apply good_hostop; [lia|].
    apply good_addw; [unfold okw, u32 in *; cbn [fst snd]; lia|dsg|gret].
  - unfold fd_hostop. apply good_with_fd; [lia|intros x Hx]. apply good_hostop; [lia|gret].
  - (* fd_filestat_set_times *) apply good_with_fd; [lia|intros x Hx]. cbn [nil_fs_case] in Hnf. rewrite Hx in Hnf.
    destruct (times_invalid (wrap 16 fl)); [gret|]. cbn [negb andb] in Hnf.
    destruct ((h_e1 h =? EPERM) || (h_e1 h =? ENOSYS)) eqn:Ee; cbn [andb] in Hnf.
    + destruct (nofs x); cbn [andb] in Hnf; [|apply good_hostop; [lia|gret]].
      destruct set_times_checks_fs; [|discriminate]. unfold EPERM, ENOSYS in Ee. gret.
    + apply good_hostop; [lia|gret].
  - (* fd_pread *) apply good_with_fd; [lia|intros x Hx].
    apply readv_good; try assumption; try lia.
    + intros n. apply good_g_wfix; try assumption; try lia; [dsg|gret|gret].
    + intros i Hi. left. right. left. exists i. cbn [desig_iovs]. auto.
  - (* fd_prestat_get *) apply good_with_fd; [lia|intros x Hx]. destruct (f_pre x); cbn [negb]; [|gret].
    apply good_hostop; [lia|]. apply good_g_wfix; try assumption; try lia; [dsg|gret|gret].
  - (* fd_prestat_dir_name *) apply good_with_fd; [lia|intros x Hx]. destruct (f_pre x); cbn [negb]; [|gret].
    apply good_hostop; [lia|]. cbv zeta. pose proof (lookup_namelen e _ x He Hx) as Hnl.
    set (nl := if f_dir x then f_namelen x else 0) in *.
    assert (Hnl' : 0 <= nl <= 4096) by (subst nl; destruct (f_dir x); lia).
    destruct (wrap 32 nl <? len) eqn:E1; [gret|]. rewrite wrap_small in E1 by lia.
    destruct (Z.leb_spec len nl); cbn [negb]; [|lia].
    apply good_adda; [lia|]. unfold u32 in *.
    apply good_g_write; try assumption; try lia; [dsg|gret|gret].
  - (* fd_pwrite *) apply good_with_fd; [lia|intros x Hx].
    apply writev_good; try assumption; try lia.
    intros n. apply good_g_wfix; try assumption; try lia; [dsg|gret|gret].
  - (* fd_read *) apply good_with_fd; [lia|intros x Hx].
    apply readv_good; try assumption; try lia.
    + intros n. apply good_g_wfix; try assumption; try lia; [dsg|gret|gret].
    + intros i Hi. left. right. left. exists i. cbn [desig_iovs]. auto.
  - (* fd_readdir *) destruct (len <? DirentSize); [gret|].
    apply good_with_fd; [lia|intros x Hx]. apply good_hostop; [lia|].
    apply good_adda; [pose proof (wrap_range 32 (wrap 32 (len / DirentSize + 1) + 1) ltac:(lia)); lia|].
    assert (Hmin : Z.min (wrap 32 (wrap 32 (len / DirentSize + 1) + 1)) (e_ndir e) <= e_ndir e) by lia.
    apply good_hostop; [lia|].
    assert (Gw : good m (desigx e v (FdReaddir fd buf len cookie res_))
                   (8 * m_len m + 1024 * e_ndir e + 16384 - 64 * Z.min (wrap 32 (wrap 32 (len / DirentSize + 1) + 1)) (e_ndir e))
                   (g_wfix m res_ 4 efault done)).
    { apply good_g_wfix; try assumption; try lia; [dsg|gret|gret]. }
    destruct (0 <? h_n h) eqn:E; [|exact Gw].
    unfold u32 in *.
    apply good_g_read; [discriminate|assumption|unfold u32; lia|unfold u32; lia|lia|intros Hle].
    apply good_addw; [unfold okw; cbn [fst snd]; lia| |exact Gw].
    exists (buf, len). split; [left; left; cbn; auto|unfold sub_region; cbn [fst snd]; lia].
  - (* fd_renumber *) unfold renumber. pose proof (insert_at_alloc_nonneg (e_tcap e) (i32 to)) as Hia.
    destruct (lookup e (i32 fd)); [|gret].
    destruct (i32 to <? 0); [gret|]. destruct (f_pre f); [gret|]. destruct (i32 fd =? i32 to); [gret|].
    match goal with |- context [if ?b then _ else _] => destruct b end; [gret|].
    apply good_addf; [right; cbn; auto|]. apply good_addf; [right; cbn; auto|]. apply good_adda; [lia|]. gret.
  - (* fd_seek *) unfold fd_seek. apply good_with_fd; [lia|intros x Hx]. destruct (f_dir x); [gret|].
    apply good_hostop; [lia|]. apply good_g_wfix; try assumption; try lia; [dsg|gret|gret].
  - unfold fd_hostop. apply good_with_fd; [lia|intros x Hx]. apply good_hostop; [lia|gret].
  - unfold fd_seek. apply good_with_fd; [lia|intros x Hx]. destruct (f_dir x); [gret|].
    apply good_hostop; [lia|]. apply good_g_wfix; try assumption; try lia; [dsg|gret|gret].
  - (* fd_write *) apply good_with_fd; [lia|intros x Hx].
    apply writev_good; try assumption; try lia.
    intros n. apply good_g_wfix; try assumption; try lia; [dsg|gret|gret].
  - (* path_create_directory *) unfold path_op. unfold u32 in *. apply atpath_good; try assumption; try (unfold u32; lia); intros Hle; try lia.
    apply good_hostop; [lia|gret].
  - (* path_filestat_get *) unfold u32 in *. apply atpath_good; try assumption; try (unfold u32; lia); intros Hle; try lia.
    apply good_hostop; [lia|].
    apply good_g_read; [discriminate|assumption|unfold u32; lia|unfold u32; lia|lia|intros Hle2].
    apply good_addw; [unfold okw; cbn [fst snd]; lia|dsg|gret].
  - (* path_filestat_set_times *) destruct (times_invalid (wrap 16 ff)); [gret|].
    unfold path_op. unfold u32 in *. apply atpath_good; try assumption; try (unfold u32; lia); intros Hle; try lia.
    apply good_hostop; [lia|gret].
  - (* path_link *) unfold path_op2. unfold u32 in *. apply atpath_good; try assumption; try (unfold u32; lia); intros Hle; try lia.
    apply atpath_good; try assumption; try (unfold u32; lia); intros Hle2; try lia.
    apply good_hostop; [lia|gret].
  - (* path_open *) unfold u32 in *. apply atpath_good; try assumption; try (unfold u32; lia); intros Hle; try lia.
    destruct (len =? 0); [gret|]. apply good_hostop; [lia|]. apply good_adda; [lia|].
    apply good_g_wfix; try assumption; try (unfold u32; lia); [dsg|gret|]. apply good_addf; [right; cbn; auto|gret].
  - (* path_readlink *) destruct ((len =? 0) || (bl =? 0)); [gret|].
    unfold u32 in *. apply atpath_good; try assumption; try (unfold u32; lia); intros Hle; try lia.
    apply good_hostop; [lia|]. destruct (Z.ltb_spec bl (h_n h)); [gret|].
    apply good_adda; [lia|].
    apply good_g_write; try assumption; try (unfold u32; lia).
    + exists (buf, bl). split; [left; left; cbn; auto|unfold sub_region; cbn [fst snd]; lia].
    + gret.
    + apply good_g_wfix; try assumption; try (unfold u32; lia); [dsg|gret|gret].
  - (* path_remove_directory *) unfold path_op. unfold u32 in *. apply atpath_good; try assumption; try (unfold u32; lia); intros Hle; try lia.
    apply good_hostop; [lia|gret].
  - (* path_rename *) unfold path_op2. unfold u32 in *. apply atpath_good; try assumption; try (unfold u32; lia); intros Hle; try lia.
    apply atpath_good; try assumption; try (unfold u32; lia); intros Hle2; try lia.
    apply good_hostop; [lia|gret].
  - (* path_symlink *) apply good_with_fd; [lia|intros x Hx]. destruct (f_dir x); cbn [negb]; [|gret].
    destruct (Z.eqb_spec ol 0); cbn [orb]; [gret|]. destruct (nl =? 0); [gret|].
    unfold u32 in *.
    apply good_g_read; [discriminate|assumption|unfold u32; lia|unfold u32; lia|lia|intros Hle].
    apply atpath_good; try assumption; try (unfold u32; lia); intros Hle2; try lia.
    destruct (Z.ltb_spec 0 ol); cbn [negb]; [|lia]. apply good_hostop; [lia|gret].
  - (* path_unlink_file *) unfold path_op. unfold u32 in *. apply atpath_good; try assumption; try (unfold u32; lia); intros Hle; try lia.
    apply good_hostop; [lia|gret].
  - (* poll_oneoff *) apply poll_good; try assumption; try lia; left; left; cbn; auto.
  - gret.
  - gret.
  - gret.
  - (* random_get *) apply good_g_read; [discriminate|assumption|assumption|assumption|lia|intros Hle].
    apply good_hostop; [lia|]. unfold u32 in *. apply good_addw; [unfold okw; cbn [fst snd]; lia|dsg|gret].
  - (* sock_accept *) apply good_with_fd; [lia|intros x Hx].
    destruct (negb (f_pre x) || negb (f_sock x =? 1)); [gret|]. apply good_hostop; [lia|].
    apply good_g_wfix; try assumption; try lia; [dsg| |]; (apply good_addf; [right; cbn; auto|]); (apply good_adda; [lia|gret]).
  - (* sock_recv *) apply good_with_fd; [lia|intros x Hx]. destruct (f_sock x =? 2); cbn [negb]; [|gret].
    match goal with |- context [if ?b then _ else _] => destruct b end; [gret|].
    assert (Gf : good m (desigx e v (SockRecv fd iovs cnt fl res1 res2)) (8 * m_len m + 1024 * e_ndir e + 16384) (recv_fin m res1 res2)).
    { unfold recv_fin.
      assert (G2 : good m (desigx e v (SockRecv fd iovs cnt fl res1 res2)) (8 * m_len m + 1024 * e_ndir e + 16384) (g_wfix m res2 2 done done)).
      { apply good_g_wfix; try assumption; try lia; [dsg|gret|gret]. }
      apply good_g_wfix; try assumption; try lia; try exact G2; dsg. }
    match goal with |- context [if ?b then _ else _] => destruct b end.
    + apply good_g_rfix; [discriminate|assumption|assumption|lia|lia|].
      apply good_g_rfix; [discriminate|assumption|pose proof (wrap_range 32 (iovs + 4) ltac:(lia)); unfold u32; lia|lia|lia|].
      destruct (Hv 0) as (Hu1 & Hu2).
      apply good_g_read; [discriminate|assumption|assumption|assumption|lia|intros Hle].
      apply good_hostop; [lia|].
      apply good_addw; [unfold okw, u32 in *; cbn [fst snd]; lia| |exact Gf].
      exists (v_iov v 0). split; [|rewrite <- surjective_pairing; apply sub_refl].
      left. right. right. do 6 eexists. split; reflexivity.
    + apply readv_good; try assumption; try lia; [intros n; exact Gf|].
      intros i Hi. left. right. left. exists i. cbn [desig_iovs]. auto.
  - (* sock_send *) destruct (fl =? 0); cbn [negb]; [|gret].
    apply good_with_fd; [lia|intros x Hx]. destruct (f_sock x =? 2); cbn [negb]; [|gret].
    apply writev_good; try assumption; try lia.
    intros n. apply good_g_wfix; try assumption; try lia; [dsg|gret|gret].
  - (* sock_shutdown *) apply good_with_fd; [lia|intros x Hx]. destruct (f_sock x =? 2); cbn [negb]; [|gret].
    match goal with |- context [if ?b then _ else _] => destruct b end; [|gret]. apply good_hostop; [lia|gret].
Qed.

(* ---------------------------------------------------------------- the statements of C15 *)
Lemma nil_fs_panics e m v h c : nil_fs_case e h c = true -> wasi e m v h c = ret Panic.
Proof.
  destruct c; cbn [nil_fs_case]; try discriminate. cbn [wasi]. unfold with_fd.
  destruct (lookup e (i32 fd)); [|discriminate].
  destruct (times_invalid (wrap 16 fl)); cbn [negb andb]; [discriminate|].
  destruct ((h_e1 h =? EPERM) || (h_e1 h =? ENOSYS)); cbn [andb]; [|discriminate].
  destruct (nofs f); cbn [andb]; [|discriminate].
  destruct set_times_checks_fs; cbn [negb]; [discriminate|reflexivity].
Qed.

Lemma no_host_panic e m v h c : wf_env e -> wf_mem m -> wf_view v -> wf_call c -> host_ok h c ->
  nil_fs_case e h c = false -> r_out (wasi e m v h c) <> Panic.
Proof. intros He Hm Hv Hc Hh Hn. exact (proj1 (proj1 (wasi_good e m v h c He Hm Hv Hc Hh Hn))). Qed.

(* what the guest receives for an [Errno] outcome is never 0, and is a valid WASI errno *)
Lemma errno_nonzero e m v h c x : wf_env e -> wf_mem m -> wf_view v -> wf_call c -> host_ok h c ->
  r_out (wasi e m v h c) = Errno x -> x <> 0 /\ 0 < ToErrno x <= 76.
Proof.
  intros He Hm Hv Hc Hh Hx. assert (Hnz : x <> 0).
  { destruct (nil_fs_case e h c) eqn:Hn.
    - rewrite (nil_fs_panics e m v h c Hn) in Hx. discriminate Hx.
    - exact (proj2 (proj1 (wasi_good e m v h c He Hm Hv Hc Hh Hn)) x Hx). }
  split; [exact Hnz|]. unfold ToErrno.
  repeat match goal with |- context [if ?a =? ?b then _ else _] => destruct (Z.eqb_spec a b) end; lia.
Qed.

Lemma writes_designated e m v h c : wf_env e -> wf_mem m -> wf_view v -> wf_call c -> host_ok h c ->
  Forall (fun w => (0 <= fst w /\ 0 <= snd w /\ fst w + snd w <= m_len m) /\
                   exists d, desig e v c d /\ sub_region w d) (r_w (wasi e m v h c)).
Proof.
  intros He Hm Hv Hc Hh. destruct (nil_fs_case e h c) eqn:Hn.
  - rewrite (nil_fs_panics e m v h c Hn). unfold ret; cbn [r_w]. constructor.
  - pose proof (proj1 (proj2 (wasi_good e m v h c He Hm Hv Hc Hh Hn))) as W.
    eapply Forall_impl; [|exact W]. intros w ((K0 & K1 & K2) & d & [Hd|(Hs & _)] & Hsub); (split; [splits; assumption|]).
    + exists d. split; assumption.
    + exfalso. unfold sub_region in Hsub. lia.
Qed.

Lemma desig_list_nonneg e c : wf_env e -> wf_call c -> forall d, In d (desig_list e c) -> 0 <= snd d.
Proof.
  intros ((Hf1 & _ & _) & (Hf2 & _ & _) & _) Hc d Hd.
  pose proof (nt_size_nonneg _ Hf1). pose proof (nt_size_nonneg _ Hf2).
  destruct c; cbn [desig_list In wf_call] in *; unfold u32, u64 in *;
    repeat match goal with H : _ \/ _ |- _ => destruct H | H : False |- _ => destruct H | H : _ = d |- _ => subst d end;
    cbn [snd]; lia.
Qed.

(* only the descriptors the call names can change in the table *)
Lemma table_effect e m v h c : wf_env e -> wf_mem m -> wf_view v -> wf_call c -> host_ok h c ->
  Forall (fun f => In f (desig_fds c)) (r_fds (wasi e m v h c)).
Proof.
  intros He Hm Hv Hc Hh. destruct (nil_fs_case e h c) eqn:Hn.
  - rewrite (nil_fs_panics e m v h c Hn). unfold ret; cbn [r_fds]. constructor.
  - pose proof (proj2 (proj2 (proj2 (wasi_good e m v h c He Hm Hv Hc Hh Hn)))) as F.
    eapply Forall_impl; [|exact F]. intros f [Hd|(_ & Hin)]; [exfalso|exact Hin].
    destruct Hd as [Hl|[(i & _ & Hi)|(a & b & c5 & r1 & r2 & cnt & _ & Hi)]].
    + pose proof (desig_list_nonneg e c He Hc _ Hl). cbn [snd] in *. lia.
    + destruct (Hv i) as (_ & Hu). rewrite <- Hi in Hu. unfold u32 in Hu. cbn [snd] in Hu. lia.
    + destruct (Hv 0) as (_ & Hu). rewrite <- Hi in Hu. unfold u32 in Hu. cbn [snd] in Hu. lia.
Qed.

Definition not_renumber (c : call) : Prop := match c with FdRenumber _ _ => False | _ => True end.

Lemma alloc_bounded e m v h c : wf_env e -> wf_mem m -> wf_view v -> wf_call c -> host_ok h c -> not_renumber c ->
  0 <= r_alloc (wasi e m v h c) <= 8 * m_len m + 1024 * e_ndir e + 16384.
Proof.
  intros He Hm Hv Hc Hh Hr. destruct (nil_fs_case e h c) eqn:Hn.
  - rewrite (nil_fs_panics e m v h c Hn). unfold ret; cbn [r_alloc]. destruct He as (_ & _ & _ & _ & Hnd). unfold wf_mem in Hm. lia.
  - pose proof (proj1 (proj2 (proj2 (wasi_good e m v h c He Hm Hv Hc Hh Hn)))) as Hb.
    destruct c; cbn [bound not_renumber] in *; try exact Hb. contradiction.
Qed.

(* fd_renumber: the table grows to the target descriptor number, whatever the guest's memory size (finding F15) *)
Lemma renumber_alloc_exact e m v h fd to x : u32 fd -> 0 <= to < 2 ^ 31 ->
  lookup e (i32 fd) = Some x -> f_pre x = false -> i32 fd <> to ->
  (forall y, lookup e to = Some y -> f_pre y = false) ->
  r_out (wasi e m v h (FdRenumber fd to)) = Done /\
  r_alloc (wasi e m v h (FdRenumber fd to)) = (if 0 <? to / 64 - e_tcap e + 1 then 520 * (to / 64 - e_tcap e + 1) else 0).
Proof.
  intros Hfd Hto Hl Hp Hne Hy. cbn [wasi]. unfold renumber.
  assert (Ht : i32 to = to) by (unfold i32; apply swrap_small; [lia|unfold in_s; change (32 - 1) with 31; lia]).
  rewrite Ht, Hl, Hp. destruct (Z.ltb_spec to 0); [lia|]. destruct (Z.eqb_spec (i32 fd) to); [contradiction|].
  assert (Hq : match lookup e to with Some y => f_pre y | None => false end = false).
  { destruct (lookup e to) eqn:E; [apply Hy; reflexivity|reflexivity]. }
  rewrite Hq. unfold addf, adda, ret, insert_at_alloc. cbn [r_out r_alloc]. cbv zeta. split; [reflexivity|].
  destruct (0 <? to / 64 - e_tcap e + 1); lia.
Qed.

Definition ent (pre dir : bool) (nl sock : Z) : fdent := {| f_pre := pre; f_dir := dir; f_namelen := nl; f_sock := sock; f_nonblock := false |}.
(* the environment of the correspondence harness: three arguments, two variables, stdio, one preopened directory, one file *)
Definition env0 : env :=
  {| e_args := [4; 2; 5]; e_envs := [3; 5];
     e_tbl := [(0, ent true false 5 0); (1, ent true false 6 0); (2, ent true false 6 0); (3, ent true true 1 0); (4, ent false false 5 0)];
     e_tcap := 1; e_ndir := 8 |}.
Definition view0 : view := {| v_iov := fun i => if i =? 0 then (4096, 16) else (65532, 8); v_sub := fun _ => (0, 0, 0) |}.
Definition host0 : host := {| h_e1 := 0; h_e2 := 0; h_e3 := 0; h_n := 0; h_rw := fun _ => (16, 0) |}.

Lemma env0_wf : wf_env env0.
Proof.
  unfold wf_env, wf_lens, env0, ent. cbn [e_args e_envs e_tbl e_tcap e_ndir length nt_size].
  splits; try lia; repeat constructor; cbn; lia.
Qed.
Lemma view0_wf : wf_view view0.
Proof. intros i. unfold view0, u32. cbn [v_iov]. destruct (i =? 0); cbn [fst snd]; lia. Qed.
Lemma mem1_wf : wf_mem (mem_of 65536).
Proof. unfold wf_mem, mem_of. cbn [m_len]. lia. Qed.

Lemma renumber_alloc_refuted :
  exists e m v h c, wf_env e /\ wf_mem m /\ wf_view v /\ wf_call c /\ host_ok h c /\ m_len m = 65536 /\
    r_out (wasi e m v h c) = Done /\
    r_alloc (wasi e m v h c) = 34078720 /\
    8 * m_len m + 1024 * e_ndir e + 16384 < r_alloc (wasi e m v h c) /\
    (* ... and towards 16 GiB for the largest descriptor number *)
    r_alloc (wasi e m v h (FdRenumber 4 (2 ^ 31 - 1))) = 17448304120.
Proof.
  exists env0, (mem_of 65536), view0, host0, (FdRenumber 4 (2 ^ 22)).
  split; [exact env0_wf|]. split; [exact mem1_wf|]. split; [exact view0_wf|].
  split; [cbn [wf_call]; unfold u32; lia|]. split; [unfold host_ok, host0; cbn [h_n]; lia|]. split; [reflexivity|].
  split; [vm_compute; reflexivity|]. split; [vm_compute; reflexivity|]. split; vm_compute; reflexivity.
Qed.

(* the panic that is reachable today: fd_filestat_set_times on stdin when File.Utimens answers ENOSYS *)
Lemma set_times_nil_fs_refuted : set_times_checks_fs = false ->
  exists e m v h c, wf_env e /\ wf_mem m /\ wf_view v /\ wf_call c /\ host_ok h c /\ r_out (wasi e m v h c) = Panic.
Proof.
  intros Hflag.
  exists env0, (mem_of 65536), view0, {| h_e1 := ENOSYS; h_e2 := 0; h_e3 := 0; h_n := 0; h_rw := fun _ => (0, 0) |}, (FdFilestatSetTimes 0 1 0 0).
  split; [exact env0_wf|]. split; [exact mem1_wf|]. split; [exact view0_wf|].
  split; [cbn [wf_call]; unfold u32, u64; lia|]. split; [unfold host_ok; cbn [h_n]; lia|].
  cbn [wasi]. unfold with_fd. replace (lookup env0 (i32 0)) with (Some (ent true false 5 0)) by (vm_compute; reflexivity).
  replace (times_invalid (wrap 16 0)) with false by (vm_compute; reflexivity).
  cbn [h_e1]. replace ((ENOSYS =? EPERM) || (ENOSYS =? ENOSYS)) with true by (vm_compute; reflexivity).
  replace (nofs (ent true false 5 0)) with true by (vm_compute; reflexivity). rewrite Hflag. reflexivity.
Qed.

(* every error number the guest can see is a valid, non-zero WASI errno *)
Lemma to_errno_range e : e <> 0 -> 0 < ToErrno e <= 76.
Proof.
  intros He. unfold ToErrno.
  repeat match goal with |- context [if ?a =? ?b then _ else _] => destruct (Z.eqb_spec a b) end; lia.
Qed.

(* ---------------------------------------------------------------- non-vacuity and regressions *)
(* fd_read of two iovecs: the second crosses the end of a one-page memory -> EFAULT after the first was filled *)
Example ex_fd_read :
  let r := wasi env0 (mem_of 65536) view0 host0 (FdRead 4 256 2 2048) in
  r_out r = Errno EFAULT /\ r_w r = [(4096, 16)] /\ r_calls r = [16] /\ nil_fs_case env0 host0 (FdRead 4 256 2 2048) = false.
Proof. vm_compute. auto. Qed.

Example ex_fd_read_ok :
  let r := wasi env0 (mem_of 65536) view0 host0 (FdRead 4 256 1 2048) in
  r_out r = Done /\ r_w r = [(4096, 16); (2048, 4)].
Proof. vm_compute. auto. Qed.

(* F14 (fixed by b227f5f): 2^28 subscriptions make nsubscriptions*48 wrap to 0; the guard answers EFAULT *)
Example ex_poll_overflow :
  r_out (wasi env0 (mem_of 65536) view0 host0 (PollOneoff 512 8192 (2 ^ 28) 2048)) = Errno EFAULT /\
  wrap 32 (2 ^ 28 * 48) = 0.
Proof. vm_compute. auto. Qed.

(* ... and without that guard the first subscription would be read from an empty buffer: the index check of the loop fails *)
Example ex_poll_unguarded_index : sub_idx_ok (wrap 32 (2 ^ 28 * 48)) 0 = false.
Proof. vm_compute. reflexivity. Qed.

Example ex_poll_clock :
  let r := wasi env0 (mem_of 65536) view0 host0 (PollOneoff 512 8192 2 2048) in
  r_out r = Done /\ r_w r = [(8192, 64); (2048, 4)] /\ r_alloc r = 192.
Proof. vm_compute. auto. Qed.

Example ex_iov_count_wraps : iov_stop (2 ^ 29 + 1) = 8 /\ r_out (wasi env0 (mem_of 65536) view0 host0 (FdWrite 1 256 (2 ^ 29) 2048)) = Done.
Proof. vm_compute. auto. Qed.

Example ex_args_get :
  let r := wasi env0 (mem_of 65536) view0 host0 (ArgsGet 1024 2048) in
  r_out r = Done /\ r_w r = [(1024, 12); (2048, 14)] /\
  r_out (wasi env0 (mem_of 65536) view0 host0 (ArgsGet 1024 65523)) = Errno EFAULT.
Proof. vm_compute. auto. Qed.
