(* C17: proofs about the read-only mount model (coq/Sys/ReadOnly.v).
   Part A is bit-level reasoning about the TRANSLATED functions openFlags (wasi), toOsOpenFlag and
   withSyscallOflag (sysfs): the tests they perform are split exhaustively (every branch of the
   generated if-tree is visited), so the facts hold for ALL integers, not only for defined flag bits. *)
From Coq Require Import String.
From Coq Require Import ZifyBool.
From Verif Require Import Lib.GoInt Gen.GenC17Wasi Gen.GenC17Sysfs Gen.GenC17Sys Sys.ReadOnly.
From Verif Require Gen.GenC17Wasip1.
Open Scope Z_scope.
Ltac Zify.zify_post_hook ::= Z.div_mod_to_equations.
Ltac splits := repeat match goal with |- _ /\ _ => split end.

(* ------------------------------------------------------------------------------------------ *)
(* A. bits                                                                                     *)

Lemma land_lor_mask x c m : Z.land c m = 0 -> Z.land (Z.lor x c) m = Z.land x m.
Proof. intros H. rewrite Z.land_lor_distr_l, H, Z.lor_0_r. reflexivity. Qed.

Lemma land_lor_split x a b : Z.land x (Z.lor a b) = 0 -> Z.land x a = 0 /\ Z.land x b = 0.
Proof. rewrite Z.land_lor_distr_r. intros H. apply Z.lor_eq_0_iff in H. exact H. Qed.

Lemma land_submask x m k : Z.land m k = k -> Z.land x m = 0 -> Z.land x k = 0.
Proof. intros Hk H. rewrite <- Hk, Z.land_assoc, H. reflexivity. Qed.

Lemma land3_range x : 0 <= Z.land x 3 < 4.
Proof. change 3 with (Z.ones 2). rewrite Z.land_ones by lia. change (2 ^ 2) with 4. apply Z.mod_pos_bound. lia. Qed.

(* one test of a translated function: split it and reduce the conditionals it decides *)
Ltac tst a c k :=
  match goal with
  | |- context [Z.eqb (Z.land a c) k] => destruct (Z.eqb (Z.land a c) k); cbv beta iota delta [negb]
  | _ => idtac
  end.

(* withSyscallOflag only ORs in bits outside O_CREAT(64) | O_TRUNC(512) | access mode(3) *)
Lemma withSyscallOflag_mask oflag lf : Z.land (withSyscallOflag oflag lf) 579 = Z.land lf 579.
Proof.
  unfold withSyscallOflag.
  tst oflag 32 0; tst oflag 64 0; tst oflag 256 0; tst oflag 512 0; tst oflag 1024 0;
    cbv zeta; repeat (rewrite land_lor_mask by reflexivity); reflexivity.
Qed.

(* a flag that passed the ReadFS guard reaches the host as O_RDONLY without O_CREAT and O_TRUNC,
   whatever its other bits (defined or not) *)
Lemma toOsOpenFlag_guarded flag :
  Z.land flag 16 = 0 -> Z.land flag 4096 = 0 -> Z.land flag 3 <> 1 -> Z.land flag 3 <> 2 ->
  Z.land (toOsOpenFlag flag) 579 = 0.
Proof.
  intros Hc Ht H1 H2. unfold toOsOpenFlag.
  rewrite Hc, Ht. change (0 =? 0) with true. cbv beta iota delta [negb].
  destruct (Z.land flag 3 =? 0) eqn:E0; cbv beta iota.
  2: destruct (Z.land flag 3 =? 1) eqn:E1; [lia|]; destruct (Z.land flag 3 =? 2) eqn:E2; [lia|]; cbv beta iota.
  all: tst flag 8 0; tst flag 128 0; tst flag 2048 0; cbv zeta; rewrite withSyscallOflag_mask; reflexivity.
Qed.

Lemma rfs_guard_pass flag : rfs_guard flag = 0 ->
  Z.land flag 16 = 0 /\ Z.land flag 4096 = 0 /\ Z.land flag 3 <> 1 /\ Z.land flag 3 <> 2.
Proof.
  unfold rfs_guard.
  change (Z.lor (Z.lor O_RDONLY O_WRONLY) O_RDWR) with 3. change O_WRONLY with 2. change O_RDWR with 1.
  change (Z.lor O_CREAT O_TRUNC) with (Z.lor 16 4096).
  destruct (Z.land flag 3 =? 2) eqn:E2; cbn [orb].
  { destruct (negb (Z.land flag O_DIRECTORY =? 0)); intros H; vm_compute in H; discriminate. }
  destruct (Z.land flag 3 =? 1) eqn:E1.
  { destruct (negb (Z.land flag O_DIRECTORY =? 0)); intros H; vm_compute in H; discriminate. }
  destruct (Z.land flag (Z.lor 16 4096) =? 0) eqn:E; cbn [negb].
  - intros _. apply Z.eqb_eq in E. apply land_lor_split in E. destruct E. splits; auto; lia.
  - intros H; vm_compute in H; discriminate.
Qed.

Lemma rfs_guard_host flag : rfs_guard flag = 0 ->
  Z.land (toOsOpenFlag flag) LF_CREAT = 0 /\ Z.land (toOsOpenFlag flag) LF_TRUNC = 0 /\ lf_acc (toOsOpenFlag flag) = 0.
Proof.
  intros H. apply rfs_guard_pass in H. destruct H as (Hc & Ht & H1 & H2).
  pose proof (toOsOpenFlag_guarded flag Hc Ht H1 H2) as H.
  unfold LF_CREAT, LF_TRUNC, lf_acc. splits; apply (land_submask _ 579); auto.
Qed.

(* ---- openFlags: reduction to a finite case split, proved sound ---- *)

Lemma land_mask_absorb x m c : Z.land m c = c -> Z.land (Z.land x m) c = Z.land x c.
Proof. intros H. rewrite <- Z.land_assoc, H. reflexivity. Qed.

(* the translated function inspects its arguments only through bits 0 of dirflags, 0..3 of oflags,
   0..4 of fdflags and 0..6 of rights: every test [Z.land x c] of the generated term has c inside the
   mask, so masking the arguments first changes no test (a test outside the masks would make the
   final syntactic comparison fail) *)
Definition open_tests (d o f r : Z) : list Z :=
  [Z.land d 1; Z.land o 2; Z.land o 4; Z.land o 8; Z.land o 1; Z.land f 4; Z.land f 1; Z.land f 2; Z.land f 8;
   Z.land f 16; Z.land r 66; Z.land r 64; Z.land r 2].

Lemma open_tests_masked d o f r :
  open_tests (Z.land d 1) (Z.land o 15) (Z.land f 31) (Z.land r 127) = open_tests d o f r.
Proof. unfold open_tests. rewrite !land_mask_absorb by reflexivity. reflexivity. Qed.

Lemma openFlags_masked d o f r :
  openFlags d o f r = openFlags (Z.land d 1) (Z.land o 15) (Z.land f 31) (Z.land r 127).
Proof.
  symmetry. unfold openFlags at 1.
  (* fold the 13 tests of the masked side into projections of ONE list, by conversion only *)
  set (T := open_tests (Z.land d 1) (Z.land o 15) (Z.land f 31) (Z.land r 127)).
  change (Z.land (Z.land d 1) 1) with (nth 0 T 0).
  change (Z.land (Z.land o 15) 2) with (nth 1 T 0).
  change (Z.land (Z.land o 15) 4) with (nth 2 T 0).
  change (Z.land (Z.land o 15) 8) with (nth 3 T 0).
  change (Z.land (Z.land o 15) 1) with (nth 4 T 0).
  change (Z.land (Z.land f 31) 4) with (nth 5 T 0).
  change (Z.land (Z.land f 31) 1) with (nth 6 T 0).
  change (Z.land (Z.land f 31) 2) with (nth 7 T 0).
  change (Z.land (Z.land f 31) 8) with (nth 8 T 0).
  change (Z.land (Z.land f 31) 16) with (nth 9 T 0).
  change (Z.land (Z.land r 127) 66) with (nth 10 T 0).
  change (Z.land (Z.land r 127) 64) with (nth 11 T 0).
  change (Z.land (Z.land r 127) 2) with (nth 12 T 0).
  (* one rewrite with the (small) masking equation, then both sides are the same term *)
  assert (HT : T = open_tests d o f r) by apply open_tests_masked.
  clearbody T. subst T.
  reflexivity.
Qed.

Definition zrange (n : nat) : list Z := map Z.of_nat (seq 0 n).

Lemma forall_range n (g : Z -> bool) : forallb g (zrange n) = true -> forall y, 0 <= y < Z.of_nat n -> g y = true.
Proof.
  intros H y Hy. rewrite forallb_forall in H. apply H.
  unfold zrange. apply in_map_iff. exists (Z.to_nat y). split; [lia|]. apply in_seq. lia.
Qed.

Lemma land_ones_range x k : 0 <= k -> 0 <= Z.land x (Z.ones k) < 2 ^ k.
Proof. intros Hk. rewrite Z.land_ones by lia. apply Z.mod_pos_bound. apply Z.pow_pos_nonneg; lia. Qed.

(* soundness of the finite split: a boolean property of (openFlags d o f r, o, f, r-bits) that holds on
   the 2 x 16 x 32 x 128 masked arguments holds for ALL integers *)
Definition open_check (P : Z -> Z -> Z -> Z -> Z -> bool) : bool :=
  forallb (fun d => forallb (fun o => forallb (fun f => forallb (fun r =>
    P (openFlags d o f r) d o f r) (zrange 128)) (zrange 32)) (zrange 16)) (zrange 2).

Lemma open_check_sound (P : Z -> Z -> Z -> Z -> Z -> bool) :
  open_check P = true ->
  forall d o f r, P (openFlags d o f r) (Z.land d 1) (Z.land o 15) (Z.land f 31) (Z.land r 127) = true.
Proof.
  intros H d o f r. rewrite openFlags_masked. unfold open_check in H.
  pose proof (land_ones_range d 1 ltac:(lia)) as Hd. pose proof (land_ones_range o 4 ltac:(lia)) as Ho.
  pose proof (land_ones_range f 5 ltac:(lia)) as Hf. pose proof (land_ones_range r 7 ltac:(lia)) as Hr.
  change (Z.ones 1) with 1 in Hd. change (Z.ones 4) with 15 in Ho. change (Z.ones 5) with 31 in Hf. change (Z.ones 7) with 127 in Hr.
  change (2 ^ 1) with (Z.of_nat 2) in Hd. change (2 ^ 4) with (Z.of_nat 16) in Ho.
  change (2 ^ 5) with (Z.of_nat 32) in Hf. change (2 ^ 7) with (Z.of_nat 128) in Hr.
  pose proof (forall_range _ _ H _ Hd) as H1. cbv beta in H1.
  pose proof (forall_range _ _ H1 _ Ho) as H2. cbv beta in H2.
  pose proof (forall_range _ _ H2 _ Hf) as H3. cbv beta in H3.
  exact (forall_range _ _ H3 _ Hr).
Qed.

(* ---- the result of the ReadFS guard on the translated conversion, for ALL inputs ---- *)
Lemma open_guard_spec_masked o f r : open_guard_spec o f r = open_guard_spec (Z.land o 15) (Z.land f 31) (Z.land r 127).
Proof. unfold open_guard_spec. rewrite !land_mask_absorb by reflexivity. reflexivity. Qed.

Lemma openFlags_guard d o f r : rfs_guard (openFlags d o f r) = open_guard_spec o f r.
Proof.
  rewrite open_guard_spec_masked. apply Z.eqb_eq.
  apply (open_check_sound (fun fl _ o f r => rfs_guard fl =? open_guard_spec o f r)).
  vm_compute. reflexivity.
Qed.

(* the O_DIRECTORY bit of the conversion is exactly the WASI O_DIRECTORY bit *)
Lemma openFlags_directory d o f r :
  negb (Z.land (openFlags d o f r) O_DIRECTORY =? 0) = negb (Z.land o 2 =? 0).
Proof.
  rewrite <- (land_mask_absorb o 15 2) by reflexivity. apply Bool.eqb_prop.
  apply (open_check_sound (fun fl _ o _ _ => Bool.eqb (negb (Z.land fl O_DIRECTORY =? 0)) (negb (Z.land o 2 =? 0)))).
  vm_compute. reflexivity.
Qed.

(* ------------------------------------------------------------------------------------------ *)
(* B. nothing under a read-only mount or an fs.FS mount changes                                *)

(* the host's open leaves the tree alone when neither O_CREAT nor O_TRUNC is set *)
Lemma host_open_nomut t now p lf :
  Z.land lf LF_CREAT = 0 -> Z.land lf LF_TRUNC = 0 -> fst (host_open t now p lf) = t.
Proof.
  intros Hc Ht. unfold host_open, has. rewrite Hc, Ht. cbn [Z.eqb negb andb].
  destruct (resolve t p) as [e|[d m pm|m pm|s]]; cbn [fst];
    repeat match goal with
           | |- context [if ?c then _ else _] => destruct c
           | |- context [match ?c with inl _ => _ | inr _ => _ end] => destruct c
           | |- context [match ?c with NFile _ _ _ => _ | NDir _ _ => _ | NLink _ => _ end] => destruct c
           end; reflexivity.
Qed.

Lemma host_open_handle t now p lf t' e h :
  host_open t now p lf = (t', (e, Some h)) -> e = 0 /\ h_lf h = lf /\ h_path h = p.
Proof.
  unfold host_open.
  repeat match goal with
         | |- context [if ?c then _ else _] => destruct c
         | |- context [match ?c with inl _ => _ | inr _ => _ end] => destruct c
         | |- context [match ?c with NFile _ _ _ => _ | NDir _ _ => _ | NLink _ => _ end] => destruct c
         end; intros H; inversion H; subst; cbn; auto.
Qed.

(* ReadFS.OpenFile: for EVERY flag value *)
Lemma rfs_open_nomut t now p flag : fst (rfs_open t now p flag) = t.
Proof.
  unfold rfs_open. destruct (rfs_guard flag =? 0) eqn:E; [|reflexivity].
  apply Z.eqb_eq in E. apply rfs_guard_host in E. destruct E as (Hc & Ht & _).
  unfold dirfs_open. apply host_open_nomut; assumption.
Qed.

(* ... and the descriptor it hands out is O_RDONLY on the host *)
Lemma rfs_open_handle t now p flag t' e h :
  rfs_open t now p flag = (t', (e, Some h)) -> e = 0 /\ lf_acc (h_lf h) = 0 /\ h_path h = p.
Proof.
  unfold rfs_open. destruct (rfs_guard flag =? 0) eqn:E; [|intros H; inversion H].
  apply Z.eqb_eq in E. apply rfs_guard_host in E. destruct E as (_ & _ & Ha).
  unfold dirfs_open. intros H. apply host_open_handle in H. destruct H as (? & Hl & ?). rewrite Hl. auto.
Qed.

Lemma map_open_spec t p t' e h : map_open t p = (t', (e, Some h)) -> t' = t /\ e = 0 /\ h_lf h = 0 /\ h_path h = p.
Proof. unfold map_open. destruct (lookup t p); intros H; inversion H; subst; cbn; auto. Qed.

Lemma adapt_open_nomut k t now p flag : fst (adapt_open k t now p flag) = t.
Proof.
  unfold adapt_open. destruct (_ && _); [reflexivity|].
  destruct k; try (apply host_open_nomut; reflexivity).
  unfold map_open. destruct (lookup t p); reflexivity.
Qed.

Lemma adapt_open_handle k t now p flag t' e h :
  adapt_open k t now p flag = (t', (e, Some h)) -> e = 0 /\ lf_acc (h_lf h) = 0 /\ h_path h = p.
Proof.
  unfold adapt_open. destruct (_ && _); [intros H; inversion H|].
  destruct k; intros H;
    try (apply host_open_handle in H; destruct H as (? & Hl & ?); rewrite Hl; auto).
  apply map_open_spec in H. destruct H as (_ & ? & Hl & ?). rewrite Hl. auto.
Qed.

Lemma fs_open_nomut k t now p flag : fst (fs_open k t now p flag) = t.
Proof. destruct k; cbn [fs_open]; auto using rfs_open_nomut, adapt_open_nomut. Qed.

Lemma fs_open_handle k t now p flag t' e h :
  fs_open k t now p flag = (t', (e, Some h)) -> t' = t /\ e = 0 /\ lf_acc (h_lf h) = 0 /\ h_path h = p.
Proof.
  intros H. pose proof (fs_open_nomut k t now p flag) as Hn. rewrite H in Hn. cbn in Hn. split; [exact Hn|].
  destruct k; cbn [fs_open] in H; eauto using rfs_open_handle, adapt_open_handle.
Qed.

(* every other mutating sys.FS method: refused without touching the tree, with the documented errno *)
Lemma fs_fsop_refused k t now o :
  fs_fsop k t now o = (t, match k with KRead => EROFS | _ => ENOSYS end).
Proof. destruct k; reflexivity. Qed.

(* the host refuses writes on read-only descriptors *)
Lemma host_pwrite_ro t now h off d : lf_acc (h_lf h) = 0 -> host_pwrite t now h off d = (t, EBADF).
Proof. intros H. unfold host_pwrite. rewrite H. reflexivity. Qed.

(* sys.File methods: readFile never delegates a mutator (any handle); fsFile delegates only writes,
   which the host refuses on the O_RDONLY descriptor of an fs.FS file *)
Lemma readfile_op_refused t now h o :
  readfile_op t now h o =
  (t, match o with
      | FWrite _ _ | FPwrite _ _ | FTruncate _ => if h_isdir h then EISDIR else EBADF
      | _ => EBADF
      end).
Proof. destruct o; reflexivity. Qed.

Lemma file_op_nomut k t now h o : lf_acc (h_lf h) = 0 -> fst (file_op k t now h o) = t.
Proof.
  intros H. destruct k; cbn [file_op].
  - rewrite readfile_op_refused. reflexivity.
  - destruct o; cbn [fsfile_op fst]; try reflexivity; rewrite host_pwrite_ro by assumption; reflexivity.
  - destruct o; reflexivity.
Qed.

(* ---- the WASI layer ---- *)
Lemma wf_init k t : wf (init k t).
Proof. unfold wf, init. cbn. constructor; [reflexivity|constructor]. Qed.

Lemma get_fd_ro s fd e : wf s -> get_fd s fd = Some e -> lf_acc (h_lf (e_h e)) = 0.
Proof.
  unfold wf, get_fd. intros Hw. destruct (_ || _); [discriminate|].
  destruct (nth_error (s_fds s) (Z.to_nat (fd - 3))) as [[x|]|] eqn:E; try discriminate.
  intros H; inversion H; subst. apply nth_error_In in E. rewrite Forall_forall in Hw. exact (Hw _ E).
Qed.

Lemma insert_fd_ro l e i : Forall ro_entry l -> ro_entry (Some e) -> Forall ro_entry (fst (insert_fd l e i)).
Proof.
  revert i. induction l as [|[x|] r IH]; intros i Hl He; cbn.
  - constructor; auto.
  - inversion Hl; subst. specialize (IH (i + 1) H2 He). destruct (insert_fd r e (i + 1)). cbn in *. constructor; auto.
  - inversion Hl; subst. constructor; auto.
Qed.

Lemma set_nth_ro l n v : Forall ro_entry l -> ro_entry v -> Forall ro_entry (set_nth l n v).
Proof.
  revert n. induction l as [|x r IH]; intros n Hl Hv; cbn; [destruct n; constructor|].
  inversion Hl; subst. destruct n; constructor; auto.
Qed.

Lemma entry_fop_nomut s now e o : lf_acc (h_lf (e_h e)) = 0 -> fst (entry_fop s now e o) = s_tree s.
Proof.
  intros H. unfold entry_fop. destruct (e_pre e); [destruct o|]; try reflexivity; apply file_op_nomut; assumption.
Qed.

Definition same (s s' : st) : Prop := s_tree s' = s_tree s /\ s_kind s' = s_kind s /\ wf s'.

Lemma same_refl s : wf s -> same s s. Proof. unfold same; auto. Qed.

Lemma same_tree s t : wf s -> t = s_tree s -> same s (with_tree s t).
Proof. intros Hw ->. unfold same, with_tree, wf in *; cbn; auto. Qed.

Ltac fop_case s now e o Hw E :=
  let H := fresh in
  pose proof (entry_fop_nomut s now e o (get_fd_ro _ _ _ Hw E)) as H;
  destruct (entry_fop s now e o); cbn [fst] in H.

Lemma path_fsop_same s now fd mk p : wf s -> same s (fst (path_fsop s now fd mk p)).
Proof.
  intros Hw. unfold path_fsop. destruct (at_path s fd p); [apply same_refl; auto|].
  rewrite fs_fsop_refused. cbn [fst]. apply same_tree; auto.
Qed.

Lemma fd_fop_same s now fd o : wf s -> same s (fst (fd_fop s now fd o)).
Proof.
  intros Hw. unfold fd_fop. destruct (get_fd s fd) eqn:E; [|apply same_refl; auto].
  fop_case s now e o Hw E. cbn [fst]. apply same_tree; auto.
Qed.

(* one WASI call: the tree is unchanged and every descriptor stays read-only *)
Lemma wstep_same now s o : wf s -> same s (fst (wstep now s o)).
Proof.
  intros Hw. destruct o; cbn [wstep].
  - (* path_open *)
    destruct (at_path s dirfd p); [apply same_refl; auto|].
    destruct (_ && _); [apply same_refl; auto|].
    destruct (fs_open (s_kind s) (s_tree s) now p0 _) as [t' [er [h|]]] eqn:E.
    + apply fs_open_handle in E. destruct E as (-> & _ & Ha & _).
      destruct (_ && _); [cbn [fst]; apply same_tree; auto|].
      pose proof (insert_fd_ro (s_fds s) {| e_pre := false; e_h := h; e_off := 0 |} 3 Hw Ha) as Hi.
      destruct (insert_fd (s_fds s) _ 3). cbn [fst] in *. unfold same, wf. cbn. auto.
    + pose proof (fs_open_nomut (s_kind s) (s_tree s) now p0
                    (openFlags (wrap 16 dirflags) (wrap 16 oflags) (wrap 16 fdflags) (wrap 32 rights))) as Hn.
      rewrite E in Hn. cbn in Hn. cbn [fst]. apply same_tree; auto.
  - destruct (get_fd s fd); [|apply same_refl; auto]. cbn [fst]. unfold same, with_fds, wf; cbn. splits; auto.
    apply set_nth_ro; [exact Hw|exact I].
  - destruct (get_fd s fd) eqn:E; [|apply same_refl; auto]. fop_case s now e (FWrite (e_off e) data) Hw E.
    cbn [fst]. apply same_tree; auto.
  - destruct (get_fd s fd) eqn:E; [|apply same_refl; auto]. fop_case s now e (FPwrite off data) Hw E.
    cbn [fst]. apply same_tree; auto.
  - destruct (get_fd s fd) eqn:E; [|apply same_refl; auto].
    destruct (_ <? 0); [apply same_refl; auto|]. destruct (_ <=? _); [apply same_refl; auto|].
    fop_case s now e (FTruncate (swrap 64 (off + len))) Hw E. cbn [fst]. apply same_tree; auto.
  - apply fd_fop_same; auto.
  - destruct (get_fd s fd) eqn:E; [|apply same_refl; auto].
    destruct (times_invalid fst_flags); [apply same_refl; auto|].
    fop_case s now e (FUtimens atim mtim) Hw E. subst t.
    destruct (_ || _); [rewrite fs_fsop_refused|]; cbn [fst]; apply same_tree; auto.
  - destruct (_ || _); [apply same_refl; auto|]. destruct (get_fd s fd); apply same_refl; auto.
  - apply fd_fop_same; auto.
  - apply fd_fop_same; auto.
  - apply path_fsop_same; auto.
  - apply path_fsop_same; auto.
  - apply path_fsop_same; auto.
  - destruct (at_path s fd p); [apply same_refl; auto|]. destruct (at_path s fd2 p2); [apply same_refl; auto|].
    rewrite fs_fsop_refused. cbn [fst]. apply same_tree; auto.
  - destruct (at_path s fd p); [apply same_refl; auto|]. destruct (at_path s fd2 p2); [apply same_refl; auto|].
    rewrite fs_fsop_refused. cbn [fst]. apply same_tree; auto.
  - apply path_fsop_same; auto.
  - destruct (times_invalid fst_flags); [apply same_refl; auto|].
    destruct (at_path s dirfd p); [apply same_refl; auto|].
    destruct (has lookupflags _).
    + rewrite fs_fsop_refused. cbn [fst]. apply same_tree; auto.
    + destruct (fs_open (s_kind s) (s_tree s) now p0 O_WRONLY) as [t' [er [h|]]] eqn:E.
      * apply fs_open_handle in E. destruct E as (-> & _ & Ha & _).
        pose proof (file_op_nomut (s_kind s) (s_tree s) now h (FUtimens atim mtim) Ha) as Hf.
        destruct (file_op (s_kind s) (s_tree s) now h (FUtimens atim mtim)). cbn [fst] in *. apply same_tree; auto.
      * pose proof (fs_open_nomut (s_kind s) (s_tree s) now p0 O_WRONLY) as Hn. rewrite E in Hn. cbn in Hn.
        cbn [fst]. apply same_tree; auto.
  - destruct (get_fd s fd) eqn:E; [|apply same_refl; auto]. destruct (h_isdir (e_h e)); [apply same_refl; auto|].
    cbn [fst]. unfold same, with_fds, wf; cbn. splits; auto. apply set_nth_ro; [exact Hw|].
    cbn. exact (get_fd_ro _ _ _ Hw E).
  - destruct (get_fd s fd); [|apply same_refl; auto].
    destruct (s_kind s); repeat match goal with |- context [if ?c then _ else _] => destruct c end; apply same_refl; auto.
  - destruct (at_path s dirfd p); [apply same_refl; auto|].
    destruct (match s_kind s with KAdaptMap => _ | _ => _ end); apply same_refl; auto.
Qed.

Lemma wfinal_same now ops : forall s, wf s -> same s (wfinal now s ops).
Proof.
  induction ops as [|o r IH]; intros s Hw; [apply same_refl; auto|].
  unfold wfinal in *. cbn [fold_left].
  pose proof (wstep_same now s o Hw) as (Ht & Hk & Hw').
  destruct (IH _ Hw') as (Ht2 & Hk2 & Hw2). unfold same. splits; congruence.
Qed.

Lemma wrun_wfinal now ops : forall s, fst (wrun now s ops) = wfinal now s ops.
Proof.
  induction ops as [|o r IH]; intros s; [reflexivity|].
  unfold wfinal in *. cbn [wrun fold_left]. destruct (wstep now s o) as [s1 x] eqn:E.
  specialize (IH s1). destruct (wrun now s1 r). cbn [fst] in *. exact IH.
Qed.

(* ------------------------------------------------------------------------------------------ *)
(* C. reading through the mount works                                                          *)

Lemma resolve_from_lookup t : forall rest cur n n',
  lookup t cur = Some n -> resolve_from t cur n rest = inr n' -> lookup t (cur ++ rest) = Some n'.
Proof.
  induction rest as [|c r IH]; intros cur n n' Hl H; cbn in H.
  - inversion H; subst. rewrite app_nil_r. exact Hl.
  - destruct n; try discriminate. destruct (lookup t (cur ++ [c])) eqn:E; [|discriminate].
    specialize (IH _ _ _ E H). rewrite <- app_assoc in IH. exact IH.
Qed.

Lemma resolve_lookup t p n : resolve t p = inr n -> lookup t p = Some n.
Proof.
  unfold resolve. destruct (lookup t []) eqn:E; [|discriminate]. intros H.
  exact (resolve_from_lookup t p [] _ _ E H).
Qed.

Lemma insert_fd_get l e : forall i,
  i <= snd (insert_fd l e i) <= i + Z.of_nat (length l) /\
  nth_error (fst (insert_fd l e i)) (Z.to_nat (snd (insert_fd l e i) - i)) = Some (Some e).
Proof.
  induction l as [|[x|] r IH]; intros i; cbn [insert_fd].
  - cbn. split; [lia|]. replace (i - i) with 0 by lia. reflexivity.
  - specialize (IH (i + 1)). destruct (insert_fd r e (i + 1)) as [r' j]. cbn [fst snd length] in *.
    destruct IH as (Hb & Hn). split; [lia|].
    replace (Z.to_nat (j - i)) with (S (Z.to_nat (j - (i + 1)))) by lia. exact Hn.
  - cbn [fst snd length]. split; [lia|]. replace (i - i) with 0 by lia. reflexivity.
Qed.

(* the flags of a plain read-only open, for EVERY value of the lookup flags *)
Lemma open_read_flag d :
  let fl := openFlags (wrap 16 d) (wrap 16 0) (wrap 16 0) (wrap 32 GenC17Wasip1.RIGHT_FD_READ) in fl = 256 \/ fl = 0.
Proof.
  cbv zeta. rewrite openFlags_masked.
  pose proof (land_ones_range (wrap 16 d) 1 ltac:(lia)) as H. change (Z.ones 1) with 1 in H. change (2 ^ 1) with 2 in H.
  assert (Hc : Z.land (wrap 16 d) 1 = 0 \/ Z.land (wrap 16 d) 1 = 1) by lia.
  destruct Hc as [-> | ->]; [left|right]; vm_compute; reflexivity.
Qed.

Lemma fs_open_read k t now q data m pm fl :
  fl = 256 \/ fl = 0 -> resolve t q = inr (NFile data m pm) ->
  exists lf, fs_open k t now q fl = (t, (0, Some {| h_path := q; h_lf := lf; h_isdir := false |})).
Proof.
  intros Hfl Hr. pose proof (resolve_lookup _ _ _ Hr) as Hl.
  destruct k; cbn [fs_open].
  - unfold rfs_open, dirfs_open.
    destruct Hfl as [-> | ->].
    + change (rfs_guard 256 =? 0) with true. cbv beta iota. change (toOsOpenFlag 256) with 131072.
      unfold host_open. rewrite Hr. eexists. reflexivity.
    + change (rfs_guard 0 =? 0) with true. cbv beta iota. change (toOsOpenFlag 0) with 0.
      unfold host_open. rewrite Hr. eexists. reflexivity.
  - unfold adapt_open. destruct Hfl as [-> | ->]; cbn [Z.land O_DIRECTORY Z.eqb negb andb Pos.land];
      unfold host_open; rewrite Hr; eexists; reflexivity.
  - unfold adapt_open, map_open. destruct Hfl as [-> | ->]; cbn [Z.land O_DIRECTORY Z.eqb negb andb Pos.land];
      rewrite Hl; eexists; reflexivity.
Qed.

Lemma open_then_read now s dirfd d p q data m pm n :
  at_path s dirfd p = inr q -> resolve (s_tree s) q = inr (NFile data m pm) ->
  Z.of_nat (length (s_fds s)) < 2 ^ 31 - 3 ->
  exists fd s',
    wstep now s (WPathOpen dirfd d 0 0 GenC17Wasip1.RIGHT_FD_READ p) = (s', (0, [fd])) /\
    s_tree s' = s_tree s /\
    snd (wstep now s' (WFdPread fd 0 n)) = (0, firstn (Z.to_nat n) data).
Proof.
  intros Hat Hr Hlen. cbn [wstep]. rewrite Hat.
  pose proof (open_read_flag d) as Hfl. cbv zeta in Hfl.
  set (fl := openFlags (wrap 16 d) (wrap 16 0) (wrap 16 0) (wrap 32 GenC17Wasip1.RIGHT_FD_READ)) in *.
  assert (Hdir : negb (Z.land fl O_DIRECTORY =? 0) = false) by (destruct Hfl as [-> | ->]; reflexivity).
  rewrite Hdir. cbn [andb].
  destruct (fs_open_read (s_kind s) (s_tree s) now q data m pm fl Hfl Hr) as (lf & Ho). rewrite Ho.
  pose proof (insert_fd_get (s_fds s) {| e_pre := false; e_h := {| h_path := q; h_lf := lf; h_isdir := false |}; e_off := 0 |} 3) as Hi.
  destruct (insert_fd (s_fds s) _ 3) as [l fd]. cbn [fst snd] in Hi. destruct Hi as (Hb & Hn).
  eexists fd, _. split; [reflexivity|]. split; [reflexivity|].
  cbn [wstep]. unfold get_fd. cbn [s_fds].
  replace ((fd <? 3) || (2 ^ 31 <=? fd)) with false by lia. rewrite Hn. cbn [e_h h_isdir e_pre s_kind s_tree].
  assert (Hrb : read_bytes (s_tree s) {| h_path := q; h_lf := lf; h_isdir := false |} 0 n = firstn (Z.to_nat n) data).
  { unfold read_bytes. cbn [h_path]. rewrite (resolve_lookup _ _ _ Hr). reflexivity. }
  assert (Hsz : file_size (s_tree s) {| h_path := q; h_lf := lf; h_isdir := false |} = Z.of_nat (length data)).
  { unfold file_size. cbn [h_path]. rewrite (resolve_lookup _ _ _ Hr). reflexivity. }
  destruct (s_kind s); cbn [snd]; rewrite ?Hrb; try reflexivity.
  rewrite Hsz. change (swrap 64 0) with 0. replace (Z.of_nat (length data) <? 0) with false by lia. reflexivity.
Qed.

(* ------------------------------------------------------------------------------------------ *)
(* the statements used by Properties/C17.v                                                     *)

Lemma open_never_mutates now s dirfd d o f r p : wf s ->
  s_tree (fst (wstep now s (WPathOpen dirfd d o f r p))) = s_tree s.
Proof. intros Hw. exact (proj1 (wstep_same now s _ Hw)). Qed.

Lemma ops_never_mutate now s o : wf s -> s_tree (fst (wstep now s o)) = s_tree s /\ wf (fst (wstep now s o)).
Proof. intros Hw. destruct (wstep_same now s o Hw) as (? & ? & ?). auto. Qed.

Lemma sequences now s ops : wf s -> s_tree (wfinal now s ops) = s_tree s /\ wf (wfinal now s ops).
Proof. intros Hw. destruct (wfinal_same now ops s Hw) as (? & ? & ?). auto. Qed.

Lemma sequences_init k t now ops : s_tree (wfinal now (init k t) ops) = t /\ s_tree (fst (wrun now (init k t) ops)) = t.
Proof. rewrite wrun_wfinal. pose proof (sequences now (init k t) ops (wf_init k t)) as (H & _). auto. Qed.

Lemma reads_work k t now ops dirfd d p q data m pm n :
  let s := wfinal now (init k t) ops in
  at_path s dirfd p = inr q -> resolve t q = inr (NFile data m pm) ->
  Z.of_nat (length (s_fds s)) < 2 ^ 31 - 3 ->
  exists fd s',
    wstep now s (WPathOpen dirfd d 0 0 GenC17Wasip1.RIGHT_FD_READ p) = (s', (0, [fd])) /\
    s_tree s' = t /\
    snd (wstep now s' (WFdPread fd 0 n)) = (0, firstn (Z.to_nat n) data).
Proof.
  intros s Hat Hr Hlen. pose proof (sequences_init k t now ops) as (Ht & _). fold s in Ht.
  rewrite <- Ht in Hr.
  destruct (open_then_read now s dirfd d p q data m pm n Hat Hr Hlen) as (fd & s' & H1 & H2 & H3).
  exists fd, s'. rewrite <- Ht. auto.
Qed.

Lemma open_guard_exact d o f r :
  rfs_guard (openFlags (wrap 16 d) (wrap 16 o) (wrap 16 f) (wrap 32 r)) = open_guard_spec (wrap 16 o) (wrap 16 f) (wrap 32 r).
Proof. apply openFlags_guard. Qed.

(* requesting write access, creation or truncation on a read-only mount is refused before the host is asked *)
Lemma write_intent_refused t now p d o f r :
  Z.land (wrap 32 r) 64 = 64 \/ Z.land (wrap 16 o) 1 <> 0 \/ Z.land (wrap 16 o) 8 <> 0 ->
  exists e, e <> 0 /\
    rfs_open t now p (openFlags (wrap 16 d) (wrap 16 o) (wrap 16 f) (wrap 32 r)) = (t, (e, None)).
Proof.
  intros H. unfold rfs_open. rewrite open_guard_exact.
  set (o' := wrap 16 o) in *. set (f' := wrap 16 f). set (r' := wrap 32 r) in *.
  assert (Hne : open_guard_spec o' f' r' <> 0).
  { unfold open_guard_spec.
    destruct (Z.land r' 64 =? 64) eqn:E64; destruct (Z.land o' 1 =? 0) eqn:E1; destruct (Z.land o' 8 =? 0) eqn:E8;
      try (exfalso; lia);
      destruct (Z.land r' 66 =? 66); destruct (Z.land r' 2 =? 2); destruct (Z.land o' 2 =? 0); destruct (Z.land f' 1 =? 0);
      cbn [negb orb]; intros Hx; vm_compute in Hx; discriminate. }
  exists (open_guard_spec o' f' r'). split; [exact Hne|].
  destruct (open_guard_spec o' f' r' =? 0) eqn:E; [lia|reflexivity].
Qed.

(* ------------------------------------------------------------------------------------------ *)
(* Examples: non-vacuity and regressions                                                       *)
Open Scope string_scope.

Definition ex_tree : tree :=
  [([], NDir 10 493); (["f"], NFile [104; 105] 11 420); (["d"], NDir 12 493); (["d"; "g"], NFile [1; 2; 3] 13 384);
   (["e"], NDir 14 448)].

(* the Linux open(2) bits the translated conversion produces *)
Example toOs_bits :
  (toOsOpenFlag O_CREAT, toOsOpenFlag O_TRUNC, toOsOpenFlag O_EXCL, toOsOpenFlag O_APPEND, toOsOpenFlag O_DIRECTORY)
  = (LF_CREAT, LF_TRUNC, LF_EXCL, LF_APPEND, LF_DIRECTORY) /\
  (toOsOpenFlag O_RDONLY, toOsOpenFlag O_WRONLY, toOsOpenFlag O_RDWR, toOsOpenFlag 3) = (0, LF_WRONLY, LF_RDWR, 0).
Proof. split; vm_compute; reflexivity. Qed.

(* F17 (fixed): oflags = O_CREAT resp. O_TRUNC with rights = FD_READ. Without the guard the host creates /
   empties the file although the access mode is O_RDONLY; ReadFS now answers EROFS and nothing changes. *)
Example F17_unguarded_creates :
  lookup (fst (dirfs_open ex_tree 99 ["new"] (openFlags 0 1 0 2))) ["new"] = Some (NFile [] 99 384) /\
  lookup ex_tree ["new"] = None.
Proof. split; vm_compute; reflexivity. Qed.

Example F17_unguarded_truncates :
  lookup (fst (dirfs_open ex_tree 99 ["f"] (openFlags 0 8 0 2))) ["f"] = Some (NFile [] 99 420).
Proof. vm_compute; reflexivity. Qed.

Example F17_guarded :
  rfs_open ex_tree 99 ["new"] (openFlags 0 1 0 2) = (ex_tree, (EROFS, None)) /\
  rfs_open ex_tree 99 ["f"] (openFlags 0 8 0 2) = (ex_tree, (EROFS, None)) /\
  rfs_open ex_tree 99 ["f"] (openFlags 0 0 0 64) = (ex_tree, (ENOSYS, None)) /\
  rfs_open ex_tree 99 ["d"] (openFlags 0 2 0 66) = (ex_tree, (EISDIR, None)).
Proof. splits; vm_compute; reflexivity. Qed.

(* the methods ReadFS does not delegate WOULD change the tree on the underlying DirFS *)
Example dirfs_mutators_mutate :
  fst (dirfs_fsop ex_tree 99 (PMkdir ["n"] 448)) <> ex_tree /\
  fst (dirfs_fsop ex_tree 99 (PChmod ["f"] 0)) <> ex_tree /\
  fst (dirfs_fsop ex_tree 99 (PRename ["f"] ["h"])) <> ex_tree /\
  fst (dirfs_fsop ex_tree 99 (PRename ["d"] ["h"])) <> ex_tree /\
  fst (dirfs_fsop ex_tree 99 (PRmdir ["e"])) <> ex_tree /\
  fst (dirfs_fsop ex_tree 99 (PLink ["f"] ["h"])) <> ex_tree /\
  fst (dirfs_fsop ex_tree 99 (PSymlink "f" ["h"])) <> ex_tree /\
  fst (dirfs_fsop ex_tree 99 (PUnlink ["d"; "g"])) <> ex_tree /\
  fst (dirfs_fsop ex_tree 99 (PUtimens ["f"] 1 2)) <> ex_tree.
Proof. splits; intros H; vm_compute in H; discriminate H. Qed.

(* ... and so would the osFile methods readFile does not delegate: futimens even on an O_RDONLY descriptor *)
Example osfile_mutators_mutate :
  let ro := {| h_path := ["f"]; h_lf := 0; h_isdir := false |} in
  let rw := {| h_path := ["f"]; h_lf := LF_RDWR; h_isdir := false |} in
  fst (osfile_op ex_tree 99 ro (FUtimens 1 2)) <> ex_tree /\
  fst (osfile_op ex_tree 99 rw (FWrite 1 [7])) <> ex_tree /\
  fst (osfile_op ex_tree 99 rw (FTruncate 0)) <> ex_tree /\
  osfile_op ex_tree 99 ro (FWrite 1 [7]) = (ex_tree, EBADF).
Proof. cbv zeta. splits; try (intros H; vm_compute in H; discriminate H). vm_compute; reflexivity. Qed.

(* a run through a read-only mount: refused create, successful read-only open, refused write, read-back,
   refused directory operations and timestamp changes *)
Example ro_run :
  wrun 0 (init KRead ex_tree)
    [WPathOpen 3 0 1 0 2 ["new"]; WPathOpen 3 1 0 0 2 ["f"]; WFdWrite 4 [1]; WFdRead 4 10; WMkdir 3 ["x"];
     WRename 3 ["f"] 3 ["g"]; WFdSetTimes 4 1 2 5; WPathSetTimes 3 0 ["f"] 1 2 5; WPathSetTimes 3 1 ["f"] 1 2 5;
     WFdSetSize 4 0; WFdAllocate 4 0 100; WUnlink 3 ["f"]; WPathOpen 3 1 2 0 2 ["d"]; WPathOpen 5 1 0 0 2 ["g"]; WFdPread 6 1 5]
  = ({| s_kind := KRead; s_tree := ex_tree;
        s_fds := [Some {| e_pre := true; e_h := root_handle; e_off := 0 |};
                  Some {| e_pre := false; e_h := {| h_path := ["f"]; h_lf := 0; h_isdir := false |}; e_off := 2 |};
                  Some {| e_pre := false; e_h := {| h_path := ["d"]; h_lf := 65536; h_isdir := true |}; e_off := 0 |};
                  Some {| e_pre := false; e_h := {| h_path := ["d"; "g"]; h_lf := 0; h_isdir := false |}; e_off := 0 |}] |},
     [(EROFS, []); (0, [4]); (EBADF, []); (0, [104; 105]); (EROFS, []); (EROFS, []); (EBADF, []); (ENOSYS, []); (EROFS, []);
      (EBADF, []); (EBADF, []); (EROFS, []); (0, [5]); (0, [6]); (0, [2; 3])]).
Proof. vm_compute. reflexivity. Qed.

(* the same run through an fs.FS mount: create/truncate flags are ignored, writes reach the host's O_RDONLY descriptor *)
Example adapt_run :
  snd (wrun 0 (init KAdaptOS ex_tree)
    [WPathOpen 3 0 1 0 2 ["new"]; WPathOpen 3 1 9 0 66 ["f"]; WFdWrite 4 [1]; WFdRead 4 10; WMkdir 3 ["x"];
     WFdSetTimes 4 1 2 5; WFdSetSize 4 0])
  = [(ENOENT, []); (0, [4]); (EBADF, []); (0, [104; 105]); (ENOSYS, []); (ENOSYS, []); (ENOSYS, [])].
Proof. vm_compute. reflexivity. Qed.

(* the hypotheses of reads_work are satisfiable *)
Example reads_work_instance :
  at_path (wfinal 0 (init KRead ex_tree) [WMkdir 3 ["x"]; WPathOpen 3 0 1 0 2 ["new"]]) 3 ["d"; "g"] = inr ["d"; "g"] /\
  resolve ex_tree ["d"; "g"] = inr (NFile [1; 2; 3] 13 384).
Proof. split; vm_compute; reflexivity. Qed.
