(* C13, second part: proofs about the cache key, a compile session, damaged entries and the reader's allocations
   (models: Rt/CacheExt.v, Rt/CacheCodec.v, Rt/CacheFs.v). *)
From Verif Require Import Lib.GoInt Rt.CacheCodec Rt.CacheFs Rt.CacheExt Proofs.CacheP.
From Coq Require Import ZifyBool.
Open Scope Z_scope.
Ltac Zify.zify_post_hook ::= Z.div_mod_to_equations.
Ltac splits := repeat match goal with |- _ /\ _ => split end.

(* ================================================================ (1) the key *)
Lemma kb2z_inj a b : kb2z a = kb2z b -> a = b.
Proof. destruct a, b; cbn; congruence. Qed.

Lemma app_eq_len {A} (a c b d : list A) : length a = length c -> a ++ b = c ++ d -> a = c /\ b = d.
Proof.
  revert c. induction a as [|x a IH]; intros [|y c] Hl E; cbn in *; try discriminate; auto.
  injection E as -> E. injection Hl as Hl. destruct (IH c Hl E) as (-> & ->). auto.
Qed.

Lemma lis_bytes_inj ls1 : forall ls2 i t1 t2,
  lis_bytes i ls1 ++ [kb2z t1] = lis_bytes i ls2 ++ [kb2z t2] -> ls1 = ls2 /\ t1 = t2.
Proof.
  induction ls1 as [|l1 r1 IH]; intros [|l2 r2] i t1 t2 E; cbn [lis_bytes] in E.
  - cbn [app] in E. injection E as E1. apply kb2z_inj in E1. auto.
  - exfalso. apply (f_equal (@length Z)) in E. rewrite !app_length in E. rewrite le_enc_length in E. cbn [length] in E. lia.
  - exfalso. apply (f_equal (@length Z)) in E. rewrite !app_length in E. rewrite le_enc_length in E. cbn [length] in E. lia.
  - rewrite <- !app_assoc in E. apply app_inv_head in E. cbn [app] in E. injection E as E5 E6.
    apply kb2z_inj in E5. subst. destruct (IH r2 (i + 1) t1 t2 E6) as (-> & ->). auto.
Qed.

(* the hashed string determines the inputs as soon as the two binaries have the same length
   (in particular: the same binary under different settings) *)
Lemma id_pre_inj i j : length (k_wasm i) = length (k_wasm j) -> id_pre i = id_pre j ->
  k_wasm i = k_wasm j /\ k_lis i = k_lis j /\ k_term i = k_term j.
Proof.
  unfold id_pre. intros Hl E. destruct (app_eq_len _ _ _ _ Hl E) as (Hw & E2).
  destruct (lis_bytes_inj _ _ _ _ _ E2). auto.
Qed.

(* ... and NOT in general: the listener records are appended to the binary without a separator, so a binary
   that ends like a listener record is hashed like the shorter binary with a listener. (Both byte strings
   would have to be valid modules for this to matter; the claim below is about the strings only.) *)
Example id_pre_not_injective :
  id_pre {| k_wasm := [0; 97; 115; 109]; k_lis := [true]; k_term := false; k_cpu := 0 |} =
  id_pre {| k_wasm := [0; 97; 115; 109; 0; 0; 0; 0; 1]; k_lis := []; k_term := false; k_cpu := 0 |}.
Proof. vm_compute. reflexivity. Qed.

Lemma key_suffix_inj a b : key_suffix a = key_suffix b -> wrap 64 a = wrap 64 b.
Proof.
  unfold key_suffix. intros E. apply app_inv_head in E. apply (f_equal le_dec) in E.
  rewrite !le_dec_enc8 in E by (apply wrap_range; lia). exact E.
Qed.

(* the family of inputs the theorems speak about: binaries of one length (one binary under every setting is the
   case the property names), CPU feature words as they are (64 bits) *)
Definition fam (n : nat) (i : kin) : Prop := length (k_wasm i) = n /\ in_u 64 (k_cpu i).

Section KeyProofs.
Variable H : list Z -> Z.
Hypothesis H_inj : forall a b, H a = H b -> a = b.

Lemma file_key_pre i j : file_key H i = file_key H j ->
  id_pre i = id_pre j /\ wrap 64 (k_cpu i) = wrap 64 (k_cpu j).
Proof.
  unfold file_key, module_id. intros E. apply H_inj in E.
  pose proof (f_equal (hd 0) E) as E1. pose proof (f_equal (@tl Z) E) as E2. cbn [hd tl] in E1, E2.
  apply H_inj in E1. apply key_suffix_inj in E2. auto.
Qed.

Lemma file_key_inj n i j : fam n i -> fam n j -> file_key H i = file_key H j -> i = j.
Proof.
  intros (Li & Ci) (Lj & Cj) E. destruct (file_key_pre i j E) as (E1 & E2).
  destruct (id_pre_inj i j ltac:(congruence) E1) as (Hw & Hl & Ht).
  rewrite !wrap_small in E2 by assumption.
  destruct i, j; cbn in *; subst; reflexivity.
Qed.

(* same binary, same CPU: the key is equal exactly when the listener pattern and the termination flag are *)
Lemma key_separates_settings w cpu ls1 t1 ls2 t2 :
  file_key H {| k_wasm := w; k_lis := ls1; k_term := t1; k_cpu := cpu |} =
  file_key H {| k_wasm := w; k_lis := ls2; k_term := t2; k_cpu := cpu |} <-> ls1 = ls2 /\ t1 = t2.
Proof.
  split.
  - intros E. destruct (file_key_pre _ _ E) as (E1 & _).
    match type of E1 with id_pre ?a = id_pre ?b => destruct (id_pre_inj a b eq_refl E1) as (_ & Hl & Ht) end.
    cbn in *. auto.
  - intros (-> & ->). reflexivity.
Qed.

(* another CPU feature word: another key *)
Lemma key_separates_cpu w ls t c1 c2 : in_u 64 c1 -> in_u 64 c2 ->
  file_key H {| k_wasm := w; k_lis := ls; k_term := t; k_cpu := c1 |} =
  file_key H {| k_wasm := w; k_lis := ls; k_term := t; k_cpu := c2 |} -> c1 = c2.
Proof.
  intros H1 H2 E. destruct (file_key_pre _ _ E) as (_ & E2). cbn in E2.
  rewrite !wrap_small in E2 by assumption. exact E2.
Qed.
End KeyProofs.

(* ================================================================ (3) a compile session *)
Section SessionProofs.
Variable crc : bytes -> Z.
Variable H : list Z -> Z.
Variable v : bytes.
Variable gen : kin -> cmod.
Variable n : nat.
Hypothesis Hcrc : crc_ok crc.
Hypothesis Hc0 : crc [] = 0.
Hypothesis H_inj : forall a b, H a = H b -> a = b.
Hypothesis Hwf : forall i, wf_entry v (gen i).

Notation entry := (entry_of crc v gen).
Notation comp := (compile crc H v gen).

(* every final name holds the complete entry of an input of the family with that key *)
Definition dir_ok (d : dir) : Prop :=
  forall k f, lookup (Final k) d = Some f ->
  exists j, fam n j /\ file_key H j = k /\ entry j = Some (f_data f).

Lemma dir_ok_nil : dir_ok [].
Proof. intros k f E. discriminate. Qed.

Lemma final_neq a b : a <> b -> Final a <> Final b.
Proof. congruence. Qed.

Lemma entry_total i : exists e, entry i = Some e.
Proof. apply serialize_total, Hwf. Qed.

Lemma entry_reads_back i e : entry i = Some e -> deserialize crc v e = Ok (gen i).
Proof. intros E. eapply roundtrip; eauto. Qed.

Definition code_of (r : cres) : option cmod :=
  match r with CLoaded cm | CCompiled cm => Some cm | _ => None end.

(* one CompileModule over a well-formed directory: the code is the compiler's code for THESE inputs whether it was
   loaded or compiled; afterwards the key's name holds the entry; no other name changes *)
Lemma compile_sound d i : dir_ok d -> fam n i ->
  let d' := fst (comp d i) in let r := snd (comp d i) in
  code_of r = Some (gen i) /\
  (forall cm, r = CLoaded cm -> d' = d /\ lookup (Final (file_key H i)) d <> None) /\
  (forall cm, r = CCompiled cm -> lookup (Final (file_key H i)) d = None) /\
  dir_ok d' /\
  (exists f, lookup (Final (file_key H i)) d' = Some f /\ entry i = Some (f_data f)) /\
  (forall m, m <> Final (file_key H i) -> lookup m d' = lookup m d).
Proof.
  intros Hd Hi. cbv zeta. unfold compile.
  destruct (lookup (Final (file_key H i)) d) as [f|] eqn:El.
  - destruct (Hd _ _ El) as (j & Hj & Hk & He).
    assert (j = i) by (eapply file_key_inj; eauto). subst j.
    rewrite (entry_reads_back _ _ He). cbn [fst snd code_of]. splits; auto.
    + intros cm _. split; [reflexivity|discriminate].
    + intros cm E. discriminate.
    + eauto.
  - unfold add_fresh. destruct (entry_total i) as (e & He). fold (entry i). rewrite He.
    cbn [fst snd code_of]. splits; auto.
    + intros cm E. discriminate.
    + intros k f E. destruct (Z.eq_dec k (file_key H i)) as [->|Hne].
      * rewrite lookup_set_same in E. injection E as <-. exists i. auto.
      * rewrite lookup_set_other in E by (apply final_neq; auto). apply Hd; auto.
    + eexists. split; [apply lookup_set_same|]. reflexivity.
    + intros m Hm. apply lookup_set_other. auto.
Qed.

Lemma compile_dir_ok d i : dir_ok d -> fam n i -> dir_ok (fst (comp d i)).
Proof. intros Hd Hi. apply (compile_sound d i Hd Hi). Qed.

(* WARM = COLD: whatever was compiled into the directory before (any settings, any order, any repetition), every
   CompileModule of a session yields exactly the code the compiler generates for its own inputs, and never an error *)
Lemma session_sound is : forall d, dir_ok d -> Forall (fam n) is ->
  map code_of (snd (session crc H v gen d is)) = map (fun i => Some (gen i)) is /\
  dir_ok (fst (session crc H v gen d is)).
Proof.
  induction is as [|i r IH]; intros d Hd Hf; cbn [session].
  - auto.
  - inversion Hf as [|? ? Hi Hr]; subst.
    pose proof (compile_sound d i Hd Hi) as Hc. cbv zeta in Hc.
    destruct (comp d i) as [d1 x] eqn:Ec. cbn [fst snd] in Hc.
    destruct Hc as (Hx & _ & _ & Hd1 & _).
    destruct (IH d1 Hd1 Hr) as (IH1 & IH2).
    destruct (session crc H v gen d1 r) as [d2 xs]. cbn [fst snd map] in *.
    rewrite Hx, IH1. auto.
Qed.

(* two compilations share an entry exactly when their inputs are equal (hence when their keys are) *)
Lemma share_iff_equal i j : fam n i -> fam n j ->
  (Final (file_key H i) = Final (file_key H j) <-> i = j).
Proof.
  intros Hi Hj. split; [|intros ->; reflexivity].
  intros E. injection E as E. eapply file_key_inj; eauto.
Qed.

(* the second compilation of the same inputs in a session is a load of the first one's entry, and a compilation under
   other settings leaves that entry alone *)
Lemma second_is_load d i : dir_ok d -> fam n i ->
  snd (comp (fst (comp d i)) i) = CLoaded (gen i).
Proof.
  intros Hd Hi. destruct (compile_sound d i Hd Hi) as (_ & _ & _ & Hd1 & (f & Hl & He) & _).
  unfold compile at 1. rewrite Hl. rewrite (entry_reads_back _ _ He). reflexivity.
Qed.

Lemma other_settings_leave_entry d i j : dir_ok d -> fam n i -> fam n j -> i <> j ->
  lookup (Final (file_key H i)) (fst (comp d j)) = lookup (Final (file_key H i)) d.
Proof.
  intros Hd Hi Hj Hne. apply (compile_sound d j Hd Hj).
  intros E. apply Hne. apply (share_iff_equal i j Hi Hj). exact E.
Qed.

(* the property's last sentence at this level. Under the key of the inputs lies ... *)
(* ... a strict prefix of some complete entry that contains code: reported, nothing is executed, nothing changes *)
Lemma truncated_is_reported d i f cm0 e0 k : wf_entry v cm0 -> cm_exec cm0 <> [] ->
  serialize crc v cm0 = Some e0 -> (k < length e0)%nat ->
  lookup (Final (file_key H i)) d = Some f -> f_data f = firstn k e0 ->
  comp d i = (d, CReported).
Proof.
  intros W0 Hne Hs Hk El Hf. unfold compile. rewrite El, Hf.
  rewrite (strict_prefix_rejected crc v cm0 e0 k Hcrc W0 Hne Hs Hk). reflexivity.
Qed.

(* ... an entry written by another version: never used - reported, or discarded and replaced by a fresh compilation *)
Lemma other_version_not_used d i f v0 cm0 e0 : zlen v0 < 256 -> v0 <> v ->
  serialize crc v0 cm0 = Some e0 ->
  lookup (Final (file_key H i)) d = Some f -> f_data f = e0 ->
  comp d i = (d, CReported) \/
  (snd (comp d i) = CCompiled (gen i) /\
   exists f', lookup (Final (file_key H i)) (fst (comp d i)) = Some f' /\ entry i = Some (f_data f')).
Proof.
  intros Hv0 Hne Hs El Hf. unfold compile. rewrite El, Hf.
  destruct (other_version crc v0 v cm0 e0 Hv0 Hne Hs) as [-> | ->]; [right|left; reflexivity].
  unfold add_fresh. destruct (entry_total i) as (e & He). fold (entry i). rewrite He. cbn [fst snd].
  split; [reflexivity|]. eexists. split; [apply lookup_set_same|reflexivity].
Qed.
End SessionProofs.

(* ---- the same with concurrent writers, crashes, injected errors and deletions (Rt.CacheFs.run) ---- *)
Lemma warm_hit_is_own_code crc H v gen n (win : nat -> kin) (ents : nat -> bytes) d0 evs i f :
  crc_ok crc -> crc [] = 0 -> (forall a b, H a = H b -> a = b) -> (forall j, wf_entry v (gen j)) ->
  (forall w, fam n (win w) /\ entry_of crc v gen (win w) = Some (ents w)) ->
  dir_ok crc H v gen n d0 -> fam n i ->
  lookup (Final (file_key H i)) (s_dir (run (fun w => file_key H (win w)) ents d0 evs)) = Some f ->
  deserialize crc v (f_data f) = Ok (gen i).
Proof.
  intros Hcrc Hc0 Hinj Hwf Hw Hd Hi El.
  destruct (crash_safe _ _ d0 evs _ f El) as [E0 | (w & Hk & Hdat & _)].
  - destruct (Hd _ _ E0) as (j & Hj & Hkj & He).
    assert (j = i) by (eapply file_key_inj; eauto). subst j.
    eapply roundtrip; eauto.
  - destruct (Hw w) as (Hfw & He).
    assert (win w = i) by (eapply file_key_inj; eauto).
    rewrite Hdat. subst i. eapply roundtrip; eauto.
Qed.

(* ================================================================ (2) damaged entries *)
Definition offs_bytes (offs : list Z) : bytes := flat_map (fun o => le_enc 8 (wrap 64 o)) offs.

(* an entry laid out field by field: header (magic, version length, version, count), offsets, code length, code,
   checksum field, and what follows (source-map flag ...) *)
Definition layout (v : bytes) (cnt : Z) (ob lb ex cb tl : bytes) : bytes :=
  hdr v cnt ++ ob ++ lb ++ ex ++ cb ++ tl.

Lemma zlen_le_enc n x : zlen (le_enc n x) = Z.of_nat n.
Proof. unfold zlen. rewrite le_enc_length. reflexivity. Qed.

Section DamageProofs.
Variable crc : bytes -> Z.

(* what serialize writes, in this vocabulary *)
Lemma serialize_layout v cm e : wf_entry v cm -> serialize crc v cm = Some e ->
  exists tl, e = layout v (zlen (cm_offsets cm)) (offs_bytes (cm_offsets cm)) (le_enc 8 (zlen (cm_exec cm)))
                        (cm_exec cm) (le_enc 4 (crc (cm_exec cm))) tl /\ 1 <= zlen tl.
Proof.
  intros (Hv & Hn & _) Hs. pose proof (zlen_nonneg (cm_offsets cm)).
  assert (Hw : wrap 32 (zlen (cm_offsets cm)) = zlen (cm_offsets cm)) by (apply wrap_small; lia).
  unfold serialize in Hs. rewrite ser_head_split in Hs. unfold ser_mid in Hs. rewrite Hw in Hs.
  unfold layout, offs_bytes.
  destruct (cm_sm_exec cm).
  - apply some_inj in Hs. subst e. exists [0]. rewrite <- !app_assoc. split; [reflexivity|]. unfold zlen; cbn; lia.
  - destruct (cm_exec cm) eqn:Ee; [discriminate|]. destruct (ser_pairs _ _) as [p|]; [|discriminate].
    apply some_inj in Hs. subst e. eexists. rewrite <- !app_assoc. split; [reflexivity|].
    rewrite zlen_app. pose proof (zlen_nonneg (le_enc 8 (zlen (cm_sm_wasm cm)) ++ p)). unfold zlen at 1. cbn [length]. lia.
Qed.

(* reading a laid-out entry whose count and code-length fields are consistent with what follows them: everything
   hinges on the checksum comparison; the offsets are delivered as they stand *)
Lemma layout_reads v offs ex cb tl : zlen v < 256 -> zlen offs < 2 ^ 32 -> Forall (in_s 64) offs ->
  0 < zlen ex < 2 ^ 63 -> zlen cb = 4 ->
  deserialize_c crc v (layout v (zlen offs) (offs_bytes offs) (le_enc 8 (zlen ex)) ex cb tl) =
  if le_dec cb =? crc ex then deser_tail offs ex tl else RError.
Proof.
  intros Hv Hn Ho Hx Hc. pose proof (zlen_nonneg offs). unfold layout.
  rewrite deser_header_same by lia.
  unfold deser_body, read_u64s, offs_bytes.
  rewrite zlen_app, flat_map_len8 by (intros; apply le_enc_length).
  match goal with |- context [zlen ?l] => match l with (le_enc 8 _ ++ _) => pose proof (zlen_nonneg l) end end.
  replace (8 * zlen offs <=? _) with true by lia.
  unfold zlen at 1. rewrite Nat2Z.id. rewrite read_u64s_n_roundtrip by auto.
  rewrite map_swrap_wrap by auto.
  rewrite take_app' by (rewrite zlen_le_enc; reflexivity).
  rewrite le_dec_enc8 by lia.
  replace (0 <? zlen ex) with true by lia.
  rewrite take_app. rewrite take_app' by lia. reflexivity.
Qed.

(* --- detected by construction --- *)
(* any change of the code bytes that changes their checksum *)
Lemma code_damage_rejected v offs ex ex' tl : zlen v < 256 -> zlen offs < 2 ^ 32 -> Forall (in_s 64) offs ->
  0 < zlen ex < 2 ^ 63 -> zlen ex' = zlen ex -> crc_ok crc -> crc ex' <> crc ex ->
  deserialize crc v (layout v (zlen offs) (offs_bytes offs) (le_enc 8 (zlen ex)) ex' (le_enc 4 (crc ex)) tl) = Error.
Proof.
  intros Hv Hn Ho Hx Hl Hcrc Hne. unfold deserialize. rewrite <- Hl.
  rewrite layout_reads by (auto; try lia; apply zlen_le_enc).
  rewrite le_dec_enc4 by apply Hcrc.
  destruct (Z.eqb_spec (crc ex) (crc ex')); [congruence|reflexivity].
Qed.

(* any change of the checksum field *)
Lemma crc_damage_rejected v offs ex cb tl : zlen v < 256 -> zlen offs < 2 ^ 32 -> Forall (in_s 64) offs ->
  0 < zlen ex < 2 ^ 63 -> zlen cb = 4 -> le_dec cb <> crc ex ->
  deserialize crc v (layout v (zlen offs) (offs_bytes offs) (le_enc 8 (zlen ex)) ex cb tl) = Error.
Proof.
  intros Hv Hn Ho Hx Hc Hne. unfold deserialize. rewrite layout_reads by auto.
  destruct (Z.eqb_spec (le_dec cb) (crc ex)); [congruence|reflexivity].
Qed.

(* a count field that asks for more offsets than the file can hold, whatever the rest of the file is *)
Lemma count_too_large_rejected v c R : zlen v < 256 -> 0 <= c < 2 ^ 32 -> zlen R < 8 * c ->
  deserialize crc v (hdr v c ++ R) = Error.
Proof.
  intros Hv Hc HR. unfold deserialize. rewrite deser_header_same by lia.
  unfold deser_body, read_u64s. replace (8 * c <=? zlen R) with false by lia. reflexivity.
Qed.

(* a code-length field that asks for more code than the file can hold *)
Lemma codelen_too_large_rejected v offs lb R : zlen v < 256 -> zlen offs < 2 ^ 32 -> Forall (in_s 64) offs ->
  zlen lb = 8 -> zlen R < le_dec lb ->
  deserialize crc v (hdr v (zlen offs) ++ offs_bytes offs ++ lb ++ R) = Error.
Proof.
  intros Hv Hn Ho Hl HR. pose proof (zlen_nonneg offs). pose proof (zlen_nonneg R).
  unfold deserialize. rewrite deser_header_same by lia.
  unfold deser_body, read_u64s, offs_bytes.
  rewrite zlen_app, flat_map_len8 by (intros; apply le_enc_length).
  pose proof (zlen_nonneg (lb ++ R)).
  replace (8 * zlen offs <=? _) with true by lia.
  unfold zlen at 1. rewrite Nat2Z.id. rewrite read_u64s_n_roundtrip by auto.
  rewrite take_app' by lia.
  replace (0 <? le_dec lb) with true by lia.
  unfold take. replace ((0 <=? le_dec lb) && (le_dec lb <=? zlen R)) with false by lia. reflexivity.
Qed.

(* a source-map length that asks for more pairs than the file can hold (the part of the entry after the checksum) *)
Lemma smlen_too_large_rejected offs ex lb R : ex <> [] -> zlen lb = 8 -> zlen R < 16 * le_dec lb ->
  deser_tail offs ex ([1] ++ lb ++ R) = RError.
Proof.
  intros Hne Hl HR. unfold deser_tail.
  rewrite (take_app' 1 [1]) by reflexivity. cbn [nth]. change (1 =? 1) with true. cbv iota.
  rewrite take_app' by lia. destruct ex; [congruence|].
  unfold read_pairs. replace (16 * le_dec lb <=? zlen R) with false by lia. reflexivity.
Qed.

(* --- NOT detected: the checksum covers the code only --- *)
(* the function offsets can be replaced by any others: the entry is accepted and delivers them *)
Lemma offsets_not_protected v (offs offs' : list Z) ex tl : zlen v < 256 -> zlen offs < 2 ^ 32 ->
  length offs' = length offs -> Forall (in_s 64) offs' -> 0 < zlen ex < 2 ^ 63 -> crc_ok crc ->
  deserialize_c crc v (layout v (zlen offs) (offs_bytes offs') (le_enc 8 (zlen ex)) ex (le_enc 4 (crc ex)) tl) =
  deser_tail offs' ex tl.
Proof.
  intros Hv Hn Hl Ho Hx Hcrc.
  assert (E : zlen offs = zlen offs') by (unfold zlen; congruence). rewrite E.
  rewrite layout_reads by (auto; try lia; apply zlen_le_enc).
  rewrite le_dec_enc4 by apply Hcrc. rewrite Z.eqb_refl. reflexivity.
Qed.

(* a code length of zero switches the checksum off: the reader goes on with the code bytes as the source-map flag *)
Lemma codelen_zero_skips_checksum v offs R : zlen v < 256 -> zlen offs < 2 ^ 32 -> Forall (in_s 64) offs ->
  deserialize_c crc v (hdr v (zlen offs) ++ offs_bytes offs ++ le_enc 8 0 ++ R) = deser_tail offs [] R.
Proof.
  intros Hv Hn Ho. pose proof (zlen_nonneg offs). pose proof (zlen_nonneg R).
  rewrite deser_header_same by lia.
  unfold deser_body, read_u64s, offs_bytes.
  rewrite zlen_app, flat_map_len8 by (intros; apply le_enc_length).
  pose proof (zlen_nonneg (le_enc 8 0 ++ R)).
  replace (8 * zlen offs <=? _) with true by lia.
  unfold zlen at 1. rewrite Nat2Z.id. rewrite read_u64s_n_roundtrip by auto.
  rewrite map_swrap_wrap by auto.
  rewrite take_app' by reflexivity. change (le_dec (le_enc 8 0)) with 0. reflexivity.
Qed.

(* --- allocation --- *)
Lemma alloc_reads v c R : zlen v < 256 -> 0 <= c < 2 ^ 32 ->
  alloc_c v (hdr v c ++ R) =
  (8 * c, match read_u64s c R with
          | None => 0
          | Some (_, r2) => match take 8 r2 with None => 0 | Some (lb, _) => le_dec lb end
          end).
Proof.
  intros Hv Hc. unfold alloc_c. cbv zeta. rewrite take_app' by (rewrite (hdr_len crc); reflexivity).
  pose proof (zlen_nonneg v) as Hv0.
  rewrite (hdr_cons crc) by auto.
  cbn [firstn magic bytes_eqb]. rewrite !Z.eqb_refl. cbn [andb negb nth skipn].
  replace (6 + 1 + zlen v + 4 <=? 7 + zlen v) with false by lia.
  unfold zlen at 1. rewrite Nat2Z.id, firstn_app_exact, bytes_eqb_refl. cbn [negb].
  replace (Z.to_nat (6 + 1 + zlen v + 4 - 4)) with (S (S (S (S (S (S (S (length v)))))))) by (unfold zlen; lia).
  cbn [skipn]. rewrite skipn_app_exact. rewrite le_dec_enc4 by lia. reflexivity.
Qed.

(* the offsets slice is made from the count field alone, whatever follows it *)
Lemma alloc_follows_count v c R : zlen v < 256 -> 0 <= c < 2 ^ 32 ->
  fst (alloc_c v (hdr v c ++ R)) = 8 * c.
Proof. intros Hv Hc. rewrite alloc_reads by auto. reflexivity. Qed.

(* on a complete entry the two requests are the sizes of what the entry holds *)
Lemma alloc_complete v cm e : wf_entry v cm -> serialize crc v cm = Some e ->
  alloc_c v e = (8 * zlen (cm_offsets cm), zlen (cm_exec cm)) /\
  8 * zlen (cm_offsets cm) + zlen (cm_exec cm) <= zlen e.
Proof.
  intros Hwf Hs. destruct (serialize_layout v cm e Hwf Hs) as (tl & -> & Htl).
  destruct Hwf as (Hv & Hn & Ho & Hx & _).
  pose proof (zlen_nonneg (cm_offsets cm)). pose proof (zlen_nonneg (cm_exec cm)).
  unfold layout. split.
  - rewrite alloc_reads by lia. f_equal.
    unfold read_u64s, offs_bytes. rewrite zlen_app, flat_map_len8 by (intros; apply le_enc_length).
    match goal with |- context [zlen ?l] => match l with (le_enc 8 _ ++ _) => pose proof (zlen_nonneg l) end end.
    replace (8 * zlen (cm_offsets cm) <=? _) with true by lia.
    unfold zlen at 1. rewrite Nat2Z.id. rewrite read_u64s_n_roundtrip by auto.
    rewrite take_app' by (rewrite zlen_le_enc; reflexivity).
    apply le_dec_enc8. lia.
  - rewrite !zlen_app. unfold offs_bytes. rewrite flat_map_len8 by (intros; apply le_enc_length).
    pose proof (zlen_nonneg (hdr v (zlen (cm_offsets cm)))). rewrite !zlen_le_enc. lia.
Qed.

(* a shorter input never asks for more: each request on a prefix is nothing or the request on the whole *)
Lemma alloc_mono v inp x :
  (fst (alloc_c v inp) = 0 \/ fst (alloc_c v inp) = fst (alloc_c v (inp ++ x))) /\
  (snd (alloc_c v inp) = 0 \/ snd (alloc_c v inp) = snd (alloc_c v (inp ++ x))).
Proof.
  unfold alloc_c. cbv zeta.
  destruct (take (6 + 1 + zlen v + 4) inp) as [[hd r1]|] eqn:E; [|cbn; auto].
  rewrite (take_ext _ _ _ _ x E).
  destruct (negb (bytes_eqb (firstn 6 hd) magic)); [cbn; auto|].
  destruct (6 + 1 + zlen v + 4 <=? 7 + nth 6 hd 0); [cbn; auto|].
  destruct (negb (bytes_eqb (firstn (Z.to_nat (nth 6 hd 0)) (skipn 7 hd)) v)); [cbn; auto|].
  cbn [fst snd]. split; [auto|].
  destruct (read_u64s _ r1) as [[xs r2]|] eqn:E1; [|auto].
  rewrite (read_u64s_ext _ _ _ _ x E1).
  destruct (take 8 r2) as [[lb r3]|] eqn:E2; [|auto].
  rewrite (take_ext _ _ _ _ x E2). auto.
Qed.

(* IN PROPORTION on everything the property quantifies over: a complete entry or any truncation of it makes the
   reader ask for no more than the length of the complete entry *)
Lemma alloc_prefix_bounded v cm e k : wf_entry v cm -> serialize crc v cm = Some e ->
  0 <= fst (alloc_c v (firstn k e)) /\ 0 <= snd (alloc_c v (firstn k e)) /\
  fst (alloc_c v (firstn k e)) + snd (alloc_c v (firstn k e)) <= zlen e.
Proof.
  intros Hwf Hs. destruct (alloc_complete v cm e Hwf Hs) as (Ha & Hb).
  pose proof (alloc_mono v (firstn k e) (skipn k e)) as (H1 & H2).
  rewrite firstn_skipn, Ha in H1, H2. cbn [fst snd] in H1, H2.
  pose proof (zlen_nonneg (cm_offsets cm)). pose proof (zlen_nonneg (cm_exec cm)).
  lia.
Qed.
End DamageProofs.

(* OUT of proportion on a damaged entry: one changed byte of the count field of the 99-byte example entry makes the
   reader ask for 8 GiB before it reads the first offset (and then reports the entry) *)
Example ex_alloc_damaged :
  let e' := splice ex_entry (pos_count ex_v + 3) [64] in
  length e' = 99%nat /\ alloc_c ex_v e' = (8 * (3 + 2 ^ 30), 0) /\ deserialize crc32c ex_v e' = Error /\
  alloc_c ex_v ex_entry = (24, 8).
Proof. vm_compute. auto. Qed.

(* every single-bit flip of the example entry: 792 damaged entries, classes as in Rt.CacheExt.dclass
   (1 discarded, 2 reported, 4 accepted with another module). Flips inside the magic are reported, inside the version
   length and the version discarded; inside the code and the checksum reported; of the 64 flips inside the count and the
   code length all are reported EXCEPT one each (count 3 -> 7: the shifted reader meets a zero code length; code length
   8 -> 0: the checksum is skipped), which are accepted. Every flip inside the 24 offset bytes, the source-map flag and
   the source-map pairs is ACCEPTED with another module; a source-map length flipped upwards is reported, downwards
   accepted. *)
Definition flip (e : bytes) (p b : nat) : bytes :=
  splice e p [Z.lxor (nth p e 0) (2 ^ Z.of_nat b)].

Definition flip_class (p b : nat) : Z := dclass ex_v ex_entry (flip ex_entry p b).

Definition all_flips (lo hi : nat) : list Z :=
  flat_map (fun p => map (flip_class p) (seq 0 8)) (seq lo (hi - lo)).

Definition count_of (c : Z) (l : list Z) : nat := length (filter (Z.eqb c) l).

Example ex_bit_flips :
  forallb (Z.eqb 2) (all_flips 0 6) = true /\                       (* magic *)
  forallb (Z.eqb 1) (all_flips 6 10) = true /\                      (* version length, version "dev" *)
  (count_of 2 (all_flips 10 14) = 31%nat /\ flip_class 10 2 = 4) /\ (* count *)
  forallb (Z.eqb 4) (all_flips 14 38) = true /\                     (* the three function offsets *)
  (count_of 2 (all_flips 38 46) = 63%nat /\ flip_class 38 3 = 4) /\ (* code length *)
  forallb (Z.eqb 2) (all_flips 46 58) = true /\                     (* code, checksum *)
  forallb (Z.eqb 4) (all_flips 58 59) = true /\                     (* source-map flag *)
  (count_of 2 (all_flips 59 67) = 63%nat /\ flip_class 59 1 = 4) /\ (* source-map length *)
  forallb (Z.eqb 4) (all_flips 67 99) = true.                       (* source-map pairs *)
Proof. vm_compute. repeat split. Qed.

(* a code length damaged to zero: the 8 code bytes of the example start with 85, not 1, so the entry is accepted
   as a module WITHOUT code that still has three function offsets; had the code started with the byte 1 the reader
   would have panicked (&cm.executable[0] on an empty slice) *)
Example ex_codelen_zero :
  (exists cm, deserialize crc32c ex_v (splice ex_entry (pos_codelen ex_v 3) [0]) = Ok cm /\
              cm_exec cm = [] /\ cm_offsets cm = [0; 16; -1]) /\
  deserialize crc32c ex_v (splice (splice ex_entry (pos_codelen ex_v 3) [0]) (pos_code ex_v 3) [1]) = Panic.
Proof. vm_compute. split; [eexists; splits; reflexivity|reflexivity]. Qed.

(* non-vacuity of the session statements: a two-settings session over the example module and a toy hash *)
Definition toy_H (l : list Z) : Z := fold_left (fun a b => a * 257 + b + 1) l 7.
Definition ex_gen (i : kin) : cmod :=
  {| cm_offsets := [0; if k_term i then 32 else 16]; cm_exec := 85 :: map kb2z (k_lis i) ++ [195];
     cm_sm_wasm := []; cm_sm_exec := [] |}.
Definition ex_in (ls : list bool) (t : bool) : kin :=
  {| k_wasm := [0; 97; 115; 109; 1; 0; 0; 0]; k_lis := ls; k_term := t; k_cpu := 12345 |}.

(* no listeners; listeners on both functions; the first again; a factory that declines both functions; termination on:
   four entries, the third compilation is a load, and every result is the compiler's code for its own inputs *)
Example ex_session :
  let is := [ex_in [] false; ex_in [true; true] false; ex_in [] false; ex_in [false; false] false; ex_in [] true] in
  let '(d, rs) := session crc32c toy_H ex_v ex_gen [] is in
  length d = 4%nat /\
  rs = [CCompiled (ex_gen (ex_in [] false)); CCompiled (ex_gen (ex_in [true; true] false));
        CLoaded (ex_gen (ex_in [] false)); CCompiled (ex_gen (ex_in [false; false] false));
        CCompiled (ex_gen (ex_in [] true))] /\
  map code_of rs = map (fun i => Some (ex_gen i)) is.
Proof. vm_compute. auto. Qed.

(* a truncated entry under the key is reported and stays; an entry of another version is replaced *)
Example ex_session_bad_entries :
  let i := ex_in [] false in
  let k := Final (file_key toy_H i) in
  let good := match entry_of crc32c ex_v ex_gen i with Some e => e | None => [] end in
  let other := match serialize crc32c [100; 101; 119] (ex_gen i) with Some e => e | None => [] end in
  let d1 := [(k, {| f_data := firstn 30 good; f_synced := true |})] in
  let d2 := [(k, {| f_data := other; f_synced := true |})] in
  compile crc32c toy_H ex_v ex_gen d1 i = (d1, CReported) /\
  compile crc32c toy_H ex_v ex_gen d2 i = ([(k, {| f_data := good; f_synced := true |})], CCompiled (ex_gen i)).
Proof. vm_compute. auto. Qed.

(* the key strings of the example: the binary, one 5-byte record per listener slot, the termination flag;
   then "WAZEVO" and the CPU feature word *)
Example ex_key_strings :
  id_pre (ex_in [true; false] true) = [0; 97; 115; 109; 1; 0; 0; 0; 0; 0; 0; 0; 1; 1; 0; 0; 0; 0; 1] /\
  key_suffix 12345 = [87; 65; 90; 69; 86; 79; 57; 48; 0; 0; 0; 0; 0; 0].
Proof. vm_compute. auto. Qed.

(* ================================================================ what ANY accepted input looks like *)
Section ShapeProofs.
Variable crc : bytes -> Z.

Lemma read_u64s_n_inv n : forall i xs r, read_u64s_n n i = Some (xs, r) ->
  exists a, i = a ++ r /\ zlen a = 8 * Z.of_nat n /\ length xs = n.
Proof.
  induction n as [|n IH]; cbn [read_u64s_n]; intros i xs r Hr.
  - inversion Hr; subst. exists []. auto.
  - destruct (take 8 i) as [[b r0]|] eqn:Et; [|discriminate].
    apply take_some in Et. destruct Et as (-> & Hb & _).
    destruct (read_u64s_n n r0) as [[ys r2]|] eqn:E1; [|discriminate].
    inversion Hr; subst. destruct (IH _ _ _ E1) as (a & -> & Ha & Hl). exists (b ++ a).
    rewrite app_assoc, zlen_app. cbn [length]. splits; auto. lia.
Qed.

Lemma read_pairs_n_inv n : forall i ws es r, read_pairs_n n i = Some (ws, es, r) ->
  exists a, i = a ++ r /\ zlen a = 16 * Z.of_nat n /\ length ws = n /\ length es = n.
Proof.
  induction n as [|n IH]; cbn [read_pairs_n]; intros i ws es r Hr.
  - inversion Hr; subst. exists []. auto.
  - destruct (take 8 i) as [[b r0]|] eqn:Et; [|discriminate].
    apply take_some in Et. destruct Et as (-> & Hb & _).
    destruct (take 8 r0) as [[b1 r01]|] eqn:Et1; [|discriminate].
    apply take_some in Et1. destruct Et1 as (-> & Hb1 & _).
    destruct (read_pairs_n n r01) as [[[ws1 es1] r2]|] eqn:E1; [|discriminate].
    inversion Hr; subst. destruct (IH _ _ _ _ E1) as (a & -> & Ha & Hl1 & Hl2). exists (b ++ b1 ++ a).
    rewrite <- !app_assoc, !zlen_app. cbn [length]. splits; auto. lia.
Qed.

Lemma deser_tail_inv offs ex i cm r : deser_tail offs ex i = ROk cm r ->
  cm_offsets cm = offs /\ cm_exec cm = ex /\ length (cm_sm_wasm cm) = length (cm_sm_exec cm) /\
  exists a, i = a ++ r /\ 1 + 16 * zlen (cm_sm_wasm cm) <= zlen a.
Proof.
  unfold deser_tail. intros Hd.
  destruct (take 1 i) as [[fb r0]|] eqn:Et; [|discriminate].
  apply take_some in Et. destruct Et as (-> & Hfb & _).
  destruct (nth 0 fb 0 =? 1).
  - destruct (take 8 r0) as [[lb r2]|] eqn:Et1; [|discriminate].
    apply take_some in Et1. destruct Et1 as (-> & Hlb & _).
    destruct ex; [discriminate|]. unfold read_pairs in Hd.
    destruct (16 * le_dec lb <=? zlen r2); [|discriminate].
    destruct (read_pairs_n (Z.to_nat (le_dec lb)) r2) as [[[ws es] r3]|] eqn:E2; [|discriminate].
    inversion Hd; subst. cbn [cm_offsets cm_exec cm_sm_wasm cm_sm_exec].
    destruct (read_pairs_n_inv _ _ _ _ _ E2) as (a & -> & Ha & Hw & He).
    splits; auto; [congruence|]. exists (fb ++ lb ++ a). rewrite <- !app_assoc, !zlen_app.
    split; [reflexivity|]. unfold zlen at 1. rewrite Hw. lia.
  - inversion Hd; subst. cbn [cm_offsets cm_exec cm_sm_wasm cm_sm_exec]. splits; auto.
    exists fb. split; [reflexivity|]. unfold zlen at 1. cbn [length]. lia.
Qed.

Lemma deser_body_inv n r1 cm r : 0 <= n -> deser_body crc n r1 = ROk cm r ->
  zlen (cm_offsets cm) = n /\
  exists ob lb cbk tl, r1 = ob ++ lb ++ cm_exec cm ++ cbk ++ tl ++ r /\ zlen ob = 8 * n /\ zlen lb = 8 /\
    (cm_exec cm <> [] -> le_dec lb = zlen (cm_exec cm) /\ zlen cbk = 4 /\ le_dec cbk = crc (cm_exec cm)) /\
    (cm_exec cm = [] -> cbk = []) /\
    1 + 16 * zlen (cm_sm_wasm cm) <= zlen tl /\ length (cm_sm_wasm cm) = length (cm_sm_exec cm).
Proof.
  intros Hn. unfold deser_body, read_u64s. intros E.
  destruct (8 * n <=? zlen r1); [|discriminate].
  destruct (read_u64s_n (Z.to_nat n) r1) as [[offs r2]|] eqn:E1; [|discriminate].
  destruct (read_u64s_n_inv _ _ _ _ E1) as (ob & -> & Hob & Hlo).
  destruct (take 8 r2) as [[lb r3]|] eqn:E2; [|discriminate].
  apply take_some in E2. destruct E2 as (-> & Hlb & _).
  destruct (Z.ltb_spec 0 (le_dec lb)).
  - destruct (take (le_dec lb) r3) as [[ex r4]|] eqn:E3; [|discriminate].
    apply take_some in E3. destruct E3 as (-> & Hex & _).
    destruct (take 4 r4) as [[cb r5]|] eqn:E4; [|discriminate].
    apply take_some in E4. destruct E4 as (-> & Hcb & _).
    destruct (Z.eqb_spec (le_dec cb) (crc ex)); [|discriminate].
    destruct (deser_tail_inv _ _ _ _ _ E) as (Ho & He & Hsm & a & -> & Ha).
    split; [rewrite Ho; unfold zlen; rewrite map_length, Hlo; lia|].
    exists ob, lb, cb, a. rewrite He. splits; auto; try lia.
    intros ->. unfold zlen in Hex. cbn [length] in Hex. lia.
  - destruct (deser_tail_inv _ _ _ _ _ E) as (Ho & He & Hsm & a & -> & Ha).
    split; [rewrite Ho; unfold zlen; rewrite map_length, Hlo; lia|].
    exists ob, lb, [], a. rewrite He. cbn [app]. splits; auto; try lia. congruence.
Qed.

Lemma le_dec_nonneg l : Forall (fun b => 0 <= b) l -> 0 <= le_dec l.
Proof. induction 1; cbn [le_dec]; lia. Qed.

Lemma skipn_skipn' {A} (l : list A) : forall a b, skipn a (skipn b l) = skipn (b + a) l.
Proof.
  induction l as [|x l IH]; intros a b.
  - rewrite !skipn_nil. reflexivity.
  - destruct b; [reflexivity|]. cbn [skipn Nat.add]. apply IH.
Qed.

Lemma skipn_cons_nth {A} (l : list A) k d : (k < length l)%nat -> skipn k l = nth k l d :: skipn (S k) l.
Proof.
  revert k. induction l as [|x l IH]; intros k Hk; cbn [length] in Hk; [lia|].
  destruct k; [reflexivity|]. cbn [skipn nth]. apply IH. lia.
Qed.

(* WHATEVER bytes the reader accepts have this shape: the magic, the length and the bytes of the READER'S version, a count
   that equals the number of offsets delivered, that many 8-byte offsets, a length that equals the length of the code
   delivered, the code delivered, four bytes that are its checksum (both absent when no code is delivered), at least one
   byte and 16 per source-map pair delivered, and the unread rest. Consequences: an entry whose magic, version length or
   version is damaged is never accepted; code is never delivered without its checksum having been compared; the count and
   both lengths of an accepted entry are bounded by the length of the file. *)
Lemma accepted_shape v inp cm r : Forall (fun b => 0 <= b) inp -> deserialize_c crc v inp = ROk cm r ->
  exists cnt ob lb cbk tl,
    inp = magic ++ [zlen v] ++ v ++ cnt ++ ob ++ lb ++ cm_exec cm ++ cbk ++ tl ++ r /\
    zlen cnt = 4 /\ le_dec cnt = zlen (cm_offsets cm) /\ zlen ob = 8 * zlen (cm_offsets cm) /\ zlen lb = 8 /\
    (cm_exec cm <> [] -> le_dec lb = zlen (cm_exec cm) /\ zlen cbk = 4 /\ le_dec cbk = crc (cm_exec cm)) /\
    (cm_exec cm = [] -> cbk = []) /\
    1 + 16 * zlen (cm_sm_wasm cm) <= zlen tl /\ length (cm_sm_wasm cm) = length (cm_sm_exec cm).
Proof.
  intros Hb. unfold deserialize_c. intros E.
  destruct (take (6 + 1 + zlen v + 4) inp) as [[hd r1]|] eqn:E0; [|discriminate].
  apply take_some in E0. destruct E0 as (-> & Hhd & _).
  apply Forall_app in Hb. destruct Hb as (Hbh & _).
  destruct (bytes_eqb (firstn 6 hd) magic) eqn:Em; [|discriminate]. cbn [negb] in E.
  apply bytes_eqb_spec in Em.
  destruct (Z.leb_spec (6 + 1 + zlen v + 4) (7 + nth 6 hd 0)) as [|Hvs]; [discriminate|].
  destruct (bytes_eqb (firstn (Z.to_nat (nth 6 hd 0)) (skipn 7 hd)) v) eqn:Ev; [|discriminate]. cbn [negb] in E.
  apply bytes_eqb_spec in Ev.
  pose proof (zlen_nonneg v) as Hv0.
  assert (Hlen : length hd = (11 + length v)%nat) by (unfold zlen in *; lia).
  assert (H6 : 0 <= nth 6 hd 0).
  { rewrite Forall_forall in Hbh. apply Hbh. apply nth_In. lia. }
  assert (Hvs' : Z.to_nat (nth 6 hd 0) = length v).
  { apply (f_equal (@length Z)) in Ev. rewrite firstn_length, skipn_length in Ev. unfold zlen in *. lia. }
  set (cnt := skipn (length v) (skipn 7 hd)).
  assert (Hhd2 : hd = magic ++ [zlen v] ++ v ++ cnt).
  { rewrite <- (firstn_skipn 6 hd) at 1. rewrite Em. f_equal.
    rewrite (skipn_cons_nth hd 6 0) by lia. cbn [app]. f_equal; [unfold zlen; lia|].
    rewrite <- (firstn_skipn (length v) (skipn 7 hd)) at 1. rewrite <- Hvs', Ev. rewrite Hvs'. reflexivity. }
  assert (Hcl : zlen cnt = 4).
  { unfold cnt, zlen. rewrite !skipn_length. lia. }
  assert (Hcnt : skipn (Z.to_nat (6 + 1 + zlen v + 4 - 4)) hd = cnt).
  { unfold cnt. rewrite skipn_skipn'. f_equal. unfold zlen. lia. }
  rewrite Hcnt in E.
  assert (Hc0 : 0 <= le_dec cnt).
  { apply le_dec_nonneg. rewrite Hhd2 in Hbh. repeat (apply Forall_app in Hbh; destruct Hbh as (_ & Hbh)). exact Hbh. }
  destruct (deser_body_inv _ _ _ _ Hc0 E) as (Hn & ob & lb & cbk & tl & -> & Hob & Hlb & Hx1 & Hx2 & Htl & Hsm).
  exists cnt, ob, lb, cbk, tl. rewrite Hhd2, <- !app_assoc. rewrite Hn. splits; auto.
Qed.

(* the three consequences, spelled out *)
Lemma damaged_header_never_accepted v inp cm : Forall (fun b => 0 <= b) inp ->
  firstn (7 + length v) inp <> magic ++ [zlen v] ++ v -> deserialize crc v inp <> Ok cm.
Proof.
  intros Hb Hne Hok. unfold deserialize in Hok.
  destruct (deserialize_c crc v inp) as [cm' r| | |] eqn:E; try discriminate.
  destruct (accepted_shape v inp cm' r Hb E) as (cnt & ob & lb & cbk & tl & -> & _).
  apply Hne.
  match goal with |- firstn _ (magic ++ [zlen v] ++ v ++ ?X) = _ =>
    replace (magic ++ [zlen v] ++ v ++ X) with ((magic ++ [zlen v] ++ v) ++ X) by (rewrite <- !app_assoc; reflexivity) end.
  replace (7 + length v)%nat with (length (magic ++ [zlen v] ++ v)) by (rewrite !app_length; cbn [length magic]; lia).
  apply firstn_app_exact.
Qed.

Lemma accepted_sizes_within_file v inp cm : Forall (fun b => 0 <= b) inp -> deserialize crc v inp = Ok cm ->
  11 + zlen v + 8 * zlen (cm_offsets cm) + 8 + zlen (cm_exec cm) + 1 + 16 * zlen (cm_sm_wasm cm) <= zlen inp.
Proof.
  intros Hb Hok. unfold deserialize in Hok.
  destruct (deserialize_c crc v inp) as [cm' r| | |] eqn:E; try discriminate.
  injection Hok as ->.
  destruct (accepted_shape v inp cm r Hb E) as (cnt & ob & lb & cbk & tl & -> & Hc & _ & Hob & Hlb & _ & _ & Htl & _).
  rewrite !zlen_app. pose proof (zlen_nonneg cbk). pose proof (zlen_nonneg r).
  change (zlen magic) with 6. change (zlen [zlen v]) with 1. lia.
Qed.
End ShapeProofs.
