(* Proofs about Sys/Dirent.v (C16 part B): fd_readdir safety (prefix, nothing skipped or duplicated,
   truncation reported, end detection) and liveness. *)
From Verif Require Import Lib.GoInt Gen.GenC16Wasip1 Gen.GenC16Wasi Sys.Dirent.
From Coq Require Import ZifyBool.
Open Scope Z_scope.
Ltac Zify.zify_post_hook ::= Z.div_mod_to_equations.
Ltac splits := repeat match goal with |- _ /\ _ => split end.

(* ---------------------------------------------------------------- list segments *)
Lemma len_nonneg {A} (l : list A) : 0 <= len l.
Proof. unfold len. lia. Qed.
Lemma len_app {A} (l r : list A) : len (l ++ r) = len l + len r.
Proof. unfold len. rewrite app_length. lia. Qed.
Lemma len_nil {A} : len (@nil A) = 0.
Proof. reflexivity. Qed.
Lemma len_cons {A} (x : A) l : len (x :: l) = 1 + len l.
Proof. unfold len. cbn [length]. lia. Qed.
Lemma len_0_nil {A} (l : list A) : len l = 0 -> l = [].
Proof. destruct l; [reflexivity|]. rewrite len_cons. pose proof (len_nonneg l). lia. Qed.

Section Seg.
Context {A : Type}.
Variable L : list A.

Definition seg (a b : Z) : list A := firstn (Z.to_nat (b - a)) (skipn (Z.to_nat a) L).

Lemma len_firstn (n : nat) (l : list A) : len (firstn n l) = Z.min (Z.of_nat n) (len l).
Proof. unfold len. rewrite firstn_length. lia. Qed.
Lemma len_skipn (n : nat) (l : list A) : len (skipn n l) = Z.max 0 (len l - Z.of_nat n).
Proof. unfold len. rewrite skipn_length. lia. Qed.

Lemma seg_len a b : 0 <= a <= b -> b <= len L -> len (seg a b) = b - a.
Proof. intros H1 H2. unfold seg. rewrite len_firstn, len_skipn. lia. Qed.

Lemma seg_nil a : seg a a = [].
Proof. unfold seg. rewrite Z.sub_diag. reflexivity. Qed.

Lemma skipn_skipn (x y : nat) (l : list A) : skipn x (skipn y l) = skipn (y + x) l.
Proof. revert l. induction y; intros [|a l]; cbn; auto. destruct x; reflexivity. Qed.

Lemma firstn_add (n m : nat) (l : list A) : firstn (n + m) l = firstn n l ++ firstn m (skipn n l).
Proof. revert l. induction n; intros [|x l]; cbn; auto. - destruct m; reflexivity. - rewrite IHn. reflexivity. Qed.

Lemma seg_app a b c : 0 <= a <= b -> b <= c -> seg a b ++ seg b c = seg a c.
Proof.
  intros H1 H2. unfold seg.
  replace (Z.to_nat (c - a)) with (Z.to_nat (b - a) + Z.to_nat (c - b))%nat by lia.
  rewrite firstn_add, skipn_skipn. do 3 f_equal. lia.
Qed.

Lemma seg_skipn a b j : 0 <= a -> 0 <= j <= b - a -> skipn (Z.to_nat j) (seg a b) = seg (a + j) b.
Proof.
  intros Ha Hj. unfold seg. rewrite skipn_firstn_comm, skipn_skipn. f_equal; [lia|f_equal; lia].
Qed.

Lemma seg_firstn a b j : 0 <= j <= b - a -> firstn (Z.to_nat j) (seg a b) = seg a (a + j).
Proof.
  intros Hj. unfold seg. rewrite firstn_firstn. f_equal. lia.
Qed.

Lemma seg_all : seg 0 (len L) = L.
Proof. unfold seg, len. cbn [Z.to_nat skipn]. rewrite Z.sub_0_r, Nat2Z.id. apply firstn_all. Qed.

Lemma seg_clip a b : 0 <= a <= b -> seg a b = seg a (Z.min b (Z.max a (len L))).
Proof.
  intros H. unfold seg. destruct (Z.le_gt_cases b (len L)); [f_equal; f_equal; lia|].
  rewrite !firstn_all2; auto; rewrite skipn_length; unfold len in *; lia.
Qed.

Lemma seg_cons a b : 0 <= a < b -> b <= len L -> exists x, seg a b = x :: seg (a + 1) b /\ nth_error L (Z.to_nat a) = Some x.
Proof.
  intros H1 H2. unfold seg.
  assert (Hlt : (Z.to_nat a < length L)%nat) by (unfold len in *; lia).
  destruct (nth_error L (Z.to_nat a)) as [x|] eqn:E; [|apply nth_error_None in E; lia].
  exists x. split; [|reflexivity].
  replace (Z.to_nat (b - a)) with (S (Z.to_nat (b - (a + 1)))) by lia.
  replace (Z.to_nat (a + 1)) with (S (Z.to_nat a)) by lia.
  clear - E. revert E. generalize (Z.to_nat a) as n. intros n. revert L. induction n; intros [|y l] E; cbn in *; try discriminate.
  - inversion E; reflexivity.
  - apply IHn. exact E.
Qed.
End Seg.

(* ---------------------------------------------------------------- numbering *)
Lemma number_app i a b : number i (a ++ b) = number i a ++ number (i + len a) b.
Proof.
  revert i. induction a as [|x a IH]; intros i; cbn [number app].
  - unfold len. cbn [length Z.of_nat]. rewrite Z.add_0_r. reflexivity.
  - rewrite IH, len_cons. do 3 f_equal. lia.
Qed.
Lemma number_len i l : len (number i l) = len l.
Proof. revert i. induction l; intros i; cbn [number]; [reflexivity|]. rewrite !len_cons, IHl. reflexivity. Qed.
Lemma number_firstn i n l : number i (firstn n l) = firstn n (number i l).
Proof. revert i l. induction n; intros i [|x l]; cbn; auto. rewrite IHn. reflexivity. Qed.

Lemma last_dnext_number k l : last_dnext k (number (k + 1) l) = k + len l.
Proof.
  unfold last_dnext. destruct l as [|x l] using rev_ind; [cbn; lia|].
  rewrite number_app. cbn [number]. rewrite rev_app_distr. cbn [rev app]. rewrite len_app, len_cons. change (len (@nil dirent)) with 0. lia.
Qed.

(* ---------------------------------------------------------------- the directory *)
Definition name_ok (e : dirent) : Prop := DirentSize + len (d_name e) <= largestDirent.
Definition esize (e : dirent) : Z := DirentSize + len (d_name e).
Fixpoint size (l : list dirent) : Z := match l with [] => 0 | e :: r => esize e + size r end.

Lemma size_ge l : DirentSize * len l <= size l.
Proof.
  induction l as [|e r IH]; [cbn; lia|]. rewrite len_cons. cbn [size]. unfold esize.
  pose proof (len_nonneg (d_name e)). unfold DirentSize in *. lia.
Qed.

(* maxDirents: m entries fit completely *)
Lemma max_dirents_spec l : forall rem, 0 <= rem < 2 ^ 32 -> Forall name_ok l ->
  exists w cnt t m, max_dirents l rem = Some (w, cnt, t) /\
    0 <= m <= len l /\ 0 <= t /\ w = size (firstn (Z.to_nat m) l) + t /\ w <= rem /\
    (t = 0 -> cnt = m /\ (m = len l \/ w = rem)) /\
    (0 < t -> cnt = m + 1 /\ m < len l /\ (t = DirentSize \/ (t < DirentSize /\ w = rem))) /\
    (forall e r, l = e :: r -> esize e <= rem -> 1 <= m).
Proof.
  induction l as [|e r IH]; intros rem Hrem Hok; cbn [max_dirents].
  - exists 0, 0, 0, 0. change (len (@nil dirent)) with 0. cbn [Z.to_nat firstn size].
    splits; try lia; try reflexivity; intros; try lia; try discriminate.
  - inversion Hok as [|? ? He Hr]; subst. rewrite len_cons. pose proof (len_nonneg r) as Hlr.
    pose proof (len_nonneg (d_name e)) as Hne. unfold name_ok in He.
    destruct (Z.eqb_spec rem 0) as [->|Hnz].
    { exists 0, 0, 0, 0. cbn [Z.to_nat firstn size]. splits; try lia; try reflexivity.
      intros e0 r0 H Hsz. injection H as He0 _. subst e0. unfold esize, DirentSize in *. lia. }
    destruct (Z.ltb_spec largestDirent (DirentSize + len (d_name e))); [lia|].
    destruct (Z.ltb_spec rem (DirentSize + len (d_name e))) as [Hsmall|Hfit].
    + set (t := if DirentSize <=? rem then DirentSize else rem).
      exists t, 1, t, 0. cbn [Z.to_nat firstn size].
      assert (Ht : 0 < t <= rem) by (unfold t, DirentSize in *; destruct (24 <=? rem) eqn:E; lia).
      splits; try lia; try reflexivity; intros; try lia.
      * split; [lia|]. split; [lia|]. unfold t, DirentSize in *. destruct (Z.leb_spec 24 rem); [left; reflexivity|right; lia].
      * injection H0 as He0 _. subst e0. unfold esize in *. lia.
    + destruct (IH (rem - (DirentSize + len (d_name e))) ltac:(unfold DirentSize in *; lia) Hr)
        as (w & cnt & t & m & E & Hm & Ht & Hw & Hle & H0 & Hpos & _).
      rewrite E. exists (wrap 32 (DirentSize + len (d_name e) + w)), (cnt + 1), t, (m + 1).
      assert (Hw0 : 0 <= w).
      { pose proof (size_ge (firstn (Z.to_nat m) r)). pose proof (len_nonneg (firstn (Z.to_nat m) r)). unfold DirentSize in *. lia. }
      rewrite wrap_small by (unfold DirentSize in *; lia).
      replace (Z.to_nat (m + 1)) with (S (Z.to_nat m)) by lia. cbn [firstn size]. unfold esize.
      splits; try lia; try reflexivity.
Qed.

(* writeDirents stores the first entries completely, with consecutive d_next; the entry at index
   [skip] (only ever the last one) gets a header without name *)
Lemma write_loop_spec l : forall dnext i cnt skip, i <= cnt -> cnt - i <= len l -> 0 <= dnext -> dnext + (cnt - i) < 2 ^ 64 ->
  skip < i \/ cnt - 1 <= skip ->
  exists ws, write_loop l dnext i cnt skip = Some ws /\
    complete ws = number dnext (firstn (Z.to_nat ((if (skip =? cnt - 1) && (i <=? skip) then cnt - 1 else cnt) - i)) l).
Proof.
  induction l as [|e r IH]; intros dnext i cnt skip Hi Hl Hd Hb Hs.
  - change (len (@nil dirent)) with 0 in Hl. assert (cnt = i) by lia. subst. cbn [write_loop]. rewrite Z.leb_refl.
    exists []. split; auto. rewrite firstn_nil. reflexivity.
  - cbn [write_loop]. destruct (Z.leb_spec cnt i).
    + assert (cnt = i) by lia. subst. exists []. split; auto.
      destruct ((skip =? i - 1) && (i <=? skip)) eqn:E; [lia|]. rewrite Z.sub_diag. reflexivity.
    + rewrite len_cons in Hl.
      destruct (IH (wrap 64 (dnext + 1)) (i + 1) cnt skip ltac:(lia) ltac:(lia) ltac:(rewrite wrap_small; lia)
                  ltac:(rewrite wrap_small; lia) ltac:(lia)) as (ws & E & Hc).
      rewrite E. eexists. split; [reflexivity|].
      rewrite wrap_small in Hc by lia.
      destruct (Z.eqb_spec i skip) as [->|Hne].
      * assert (Hsk : skip = cnt - 1) by lia. cbn [complete]. rewrite Hc.
        destruct (Z.eqb_spec skip (cnt - 1)); [|lia]. destruct (Z.leb_spec skip skip); [|lia].
        destruct (Z.leb_spec (skip + 1) skip); [lia|]. cbn [andb].
        replace (cnt - (skip + 1)) with 0 by lia. replace (cnt - 1 - skip) with 0 by lia. reflexivity.
      * cbn [complete]. rewrite Hc.
        assert (Hsame : (skip =? cnt - 1) && (i + 1 <=? skip) = (skip =? cnt - 1) && (i <=? skip)).
        { destruct (Z.eqb_spec skip (cnt - 1)), (Z.leb_spec (i + 1) skip), (Z.leb_spec i skip); cbn; try reflexivity; lia. }
        rewrite Hsame. set (mm := if (skip =? cnt - 1) && (i <=? skip) then cnt - 1 else cnt).
        assert (Hmm : i < mm) by (unfold mm; destruct (Z.eqb_spec skip (cnt - 1)), (Z.leb_spec i skip); cbn; lia).
        replace (Z.to_nat (mm - i)) with (S (Z.to_nat (mm - (i + 1)))) by lia. reflexivity.
Qed.

Lemma cached_firstn (l : list dirent) n : len l <= 2 ^ 29 -> 0 <= n ->
  cached l n = firstn (Z.to_nat n) l.
Proof.
  intros Hl Hn. unfold cached. pose proof (len_nonneg l). rewrite wrap_small by lia.
  destruct (Z.eqb_spec (len l) 0) as [E|E]; [rewrite (len_0_nil l E), firstn_nil; reflexivity|].
  destruct (Z.ltb_spec n (len l)); [reflexivity|]. symmetry. apply firstn_all2. unfold len in *. lia.
Qed.

Lemma max_name_ge2 l : 2 <= max_name l.
Proof. unfold max_name. induction l; cbn [fold_right]; lia. Qed.
Lemma max_name_in l e : In e l -> len (d_name e) <= max_name l.
Proof.
  unfold max_name. induction l as [|x l IH]; intros H; [destruct H|]. cbn [fold_right].
  destruct H as [->|H]; [lia|]. specialize (IH H). lia.
Qed.

(* ---------------------------------------------------------------- DirentCache invariant *)
Section Dir.
Variable dotIno : Z.
Variable dir : list dirent.
Notation full := (dots dotIno ++ dir).
Notation N2 := (len (dots dotIno ++ dir)).
Hypothesis Hlen : len dir < 2 ^ 62.
Hypothesis Hnames : Forall name_ok dir.

Lemma N2_eq : N2 = 2 + len dir.
Proof. rewrite len_app. reflexivity. Qed.

Lemma full_ok : Forall name_ok full.
Proof.
  apply Forall_app. split; [|exact Hnames].
  repeat constructor; unfold name_ok, DirentSize, largestDirent; cbn; lia.
Qed.

Lemma dots_seg : dots dotIno = seg full 0 2.
Proof. reflexivity. Qed.

Lemma dots_app_seg e : 2 <= e -> dots dotIno ++ seg full 2 e = seg full 0 e.
Proof. intros He. transitivity (seg full 0 2 ++ seg full 2 e); [reflexivity|apply seg_app; lia]. Qed.

Lemma u_readdir_seg upos cnt : 0 < cnt -> Z.of_nat upos <= len dir ->
  u_readdir dir upos cnt = seg full (2 + Z.of_nat upos) (Z.min (2 + Z.of_nat upos + cnt) N2).
Proof.
  intros Hc Hu. unfold u_readdir. destruct (Z.leb_spec cnt 0); [lia|]. unfold seg.
  replace (Z.to_nat (2 + Z.of_nat upos)) with (S (S upos)) by lia.
  change (skipn (S (S upos)) full) with (skipn upos dir).
  rewrite N2_eq.
  destruct (Z.le_gt_cases (2 + Z.of_nat upos + cnt) (2 + len dir)).
  - f_equal. lia.
  - rewrite !firstn_all2; auto; rewrite skipn_length; unfold len in *; lia.
Qed.

(* the cache holds the window [countRead - len, countRead) of ".", "..", entries; the underlying
   stream has delivered countRead - 2 entries; eof implies everything was delivered *)
Definition InvC (c : cache) : Prop :=
  match c_dirents c with
  | None => c_countRead c = 0 /\ c_upos c = O
  | Some l => 2 <= c_countRead c <= N2 /\ c_countRead c = 2 + Z.of_nat (c_upos c) /\ len l <= c_countRead c /\
              l = seg full (c_countRead c - len l) (c_countRead c) /\ (c_eof c = true -> c_countRead c = N2) /\
              len l <= 2 ^ 29
  end.
(* cookies the cache can serve besides 0 *)
Definition Valid (c : cache) (k : Z) : Prop :=
  match c_dirents c with
  | None => k = 0
  | Some l => c_countRead c - len l <= k <= c_countRead c
  end.

Definition read_post (k n : Z) (c1 : cache) (ret : list dirent) : Prop :=
  exists l2, InvC c1 /\ c_dirents c1 = Some l2 /\ c_countRead c1 - len l2 = k /\ 0 <= k /\
    ret = firstn (Z.to_nat n) l2 /\ (len l2 < n -> c_countRead c1 = N2) /\ (k < N2 -> 1 <= len l2).

Lemma read_fresh c n : c_dirents c = None -> c_upos c = O -> c_countRead c = 0 -> 3 <= n <= 2 ^ 29 ->
  exists c1 ret, cache_read dotIno dir c 0 n = (c1, ROk ret) /\ read_post 0 n c1 ret.
Proof.
  intros Hd Hu Hc Hn. unfold cache_read. rewrite Hc, Hd. change (0 <? 0) with false. cbv iota.
  destruct (Z.eqb_spec n 0); [lia|]. rewrite Hd.
  rewrite (wrap_small 32 (n - 2)) by lia. rewrite swrap_small by (unfold in_s; lia).
  destruct (Z.leb_spec (n - 2) 0); [lia|]. rewrite Hu.
  rewrite (u_readdir_seg 0 (n - 2)) by (pose proof (len_nonneg dir); lia).
  change (Z.of_nat 0) with 0. replace (2 + 0 + (n - 2)) with n by lia. rewrite Z.add_0_r.
  set (e := Z.min n N2). pose proof N2_eq as HN. pose proof (len_nonneg dir) as Hld.
  assert (He : 2 <= e <= N2) by (unfold e; lia).
  assert (Hgl : len (seg full 2 e) = e - 2) by (apply seg_len; lia).
  destruct (Z.ltb_spec 0 (len (seg full 2 e))) as [Hpos|Hzero].
  - eexists _, _. split; [reflexivity|]. cbn [c_dirents with_dirents].
    rewrite dots_app_seg by lia.
    assert (Hl2 : len (seg full 0 e) = e) by (rewrite seg_len; lia).
    rewrite cached_firstn by lia.
    exists (seg full 0 e). unfold InvC. cbn [c_dirents c_countRead c_eof c_upos with_dirents].
    rewrite Hgl, Hl2. rewrite wrap_small by lia. replace (2 + (e - 2)) with e by lia.
    splits; auto; try lia; try (f_equal; lia); try (unfold len in *; lia); try (unfold e in *; lia).
  - eexists _, _. split; [reflexivity|]. cbn [c_dirents with_dirents].
    rewrite cached_firstn by (cbn; lia).
    exists (dots dotIno). unfold InvC. cbn [c_dirents c_countRead c_eof c_upos with_dirents].
    change (len (dots dotIno)) with 2.
    assert (N2 = 2) by (unfold e in *; lia).
    splits; auto; try lia; try (f_equal; lia); try (unfold len in *; lia); try discriminate.
Qed.

Lemma cache_read_ok c k n : InvC c -> (k = 0 \/ Valid c k) -> 3 <= n <= 2 ^ 29 ->
  exists c1 ret, cache_read dotIno dir c k n = (c1, ROk ret) /\ read_post k n c1 ret.
Proof.
  intros Hinv Hk Hn. unfold InvC, Valid in *.
  destruct (c_dirents c) as [l|] eqn:Hd.
  2:{ destruct Hinv as [Hc Hu]. assert (k = 0) by (destruct Hk; assumption). subst k.
      apply read_fresh; assumption. }
  destruct Hinv as (Hcr & Hup & Hll & Hl & Heof & Hlb). pose proof (len_nonneg l) as Hl0.
  pose proof N2_eq as HN.
  destruct (Z.eq_dec k 0) as [->|Hk0].
  { (* rewind: Seek(0), dump the cache, then read as if fresh *)
    set (c' := with_dirents c None 0 (c_eof c) O).
    assert (E : cache_read dotIno dir c 0 n = cache_read dotIno dir c' 0 n).
    { unfold cache_read. rewrite Hd. destruct (Z.ltb_spec (c_countRead c) 0); [lia|].
      change (0 =? 0) with true. cbv iota. fold c'. reflexivity. }
    rewrite E. apply read_fresh; auto. }
  assert (Hv : c_countRead c - len l <= k <= c_countRead c) by (destruct Hk; [lia|assumption]).
  unfold cache_read. rewrite Hd.
  destruct (Z.ltb_spec (c_countRead c) k); [lia|]. destruct (Z.eqb_spec k 0); [lia|]. cbv zeta.
  destruct (Z.eqb_spec n 0); [lia|]. rewrite Hd.
  set (cr := c_countRead c) in *.
  rewrite (wrap_small 64 (cr - len l)) by lia.
  destruct (Z.ltb_spec k (cr - len l)); [lia|].
  rewrite (wrap_small 64 (k - (cr - len l))) by lia.
  destruct (Z.ltb_spec (len l) (k - (cr - len l))); [lia|].
  set (pic := k - (cr - len l)) in *.
  assert (Hl1 : (if pic =? 0 then l else if len l =? pic then [] else skipn (Z.to_nat pic) l) = seg full k cr).
  { transitivity (skipn (Z.to_nat pic) l).
    - destruct (Z.eqb_spec pic 0) as [->|]; [reflexivity|].
      destruct (Z.eqb_spec (len l) pic) as [E|]; [|reflexivity].
      symmetry. apply skipn_all2. unfold len in *. lia.
    - rewrite Hl. rewrite seg_skipn by (unfold pic; lia). f_equal. unfold pic. lia. }
  rewrite Hl1. clear Hl1.
  assert (Hl1len : len (seg full k cr) = cr - k) by (apply seg_len; lia).
  rewrite Hl1len.
  assert (Hupos : Z.of_nat (c_upos c) <= len dir) by lia.
  destruct (Z.ltb_spec 0 (n - (cr - k))) as [Hctr|Hctr]; destruct (c_eof c) eqn:He; cbn [andb negb].
  - (* wants more but the stream is exhausted *)
    eexists _, _. split; [reflexivity|]. cbn [c_dirents with_dirents]. rewrite cached_firstn by lia.
    exists (seg full k cr). unfold InvC. cbn [c_dirents c_countRead c_eof c_upos with_dirents]. rewrite Hl1len.
    specialize (Heof eq_refl). splits; auto; try lia; try (f_equal; lia); try (unfold len in *; lia).
  - (* read countToRead more entries *)
    rewrite (u_readdir_seg (c_upos c) (n - (cr - k))) by lia. rewrite <- Hup.
    set (e := Z.min (cr + (n - (cr - k))) N2).
    assert (Hecr : cr <= e <= N2) by (unfold e; lia).
    assert (Hgl : len (seg full cr e) = e - cr) by (apply seg_len; lia).
    destruct (Z.ltb_spec 0 (len (seg full cr e))) as [Hpos|Hzero].
    + eexists _, _. split; [reflexivity|]. cbn [c_dirents with_dirents].
      rewrite seg_app by lia.
      assert (Hl2 : len (seg full k e) = e - k) by (apply seg_len; lia).
      rewrite cached_firstn by (unfold e in *; lia).
      exists (seg full k e). unfold InvC. cbn [c_dirents c_countRead c_eof c_upos with_dirents].
      rewrite Hgl, Hl2. rewrite wrap_small by lia. replace (cr + (e - cr)) with e by lia.
      splits; auto; try lia; try (f_equal; lia); try (unfold len in *; lia); try (unfold e in *; lia).
    + eexists _, _. split; [reflexivity|]. cbn [c_dirents with_dirents]. rewrite cached_firstn by lia.
      exists (seg full k cr). unfold InvC. cbn [c_dirents c_countRead c_eof c_upos with_dirents]. rewrite Hl1len.
      assert (cr = N2) by (unfold e in *; lia).
      splits; auto; try lia; try (f_equal; lia); try (unfold len in *; lia).
  - eexists _, _. split; [reflexivity|]. cbn [c_dirents with_dirents]. rewrite cached_firstn by lia.
    exists (seg full k cr). unfold InvC. cbn [c_dirents c_countRead c_eof c_upos with_dirents]. rewrite Hl1len.
    splits; auto; try lia; try (f_equal; lia); try (unfold len in *; lia); try discriminate.
  - eexists _, _. split; [reflexivity|]. cbn [c_dirents with_dirents]. rewrite cached_firstn by lia.
    exists (seg full k cr). unfold InvC. cbn [c_dirents c_countRead c_eof c_upos with_dirents]. rewrite Hl1len.
    splits; auto; try lia; try (f_equal; lia); try (unfold len in *; lia); try discriminate.
Qed.

Lemma Forall_firstn {A} (P : A -> Prop) n (l : list A) : Forall P l -> Forall P (firstn n l).
Proof. revert l. induction n; intros [|x l] H; cbn; auto. inversion H; subst. constructor; auto. Qed.
Lemma Forall_skipn {A} (P : A -> Prop) n (l : list A) : Forall P l -> Forall P (skipn n l).
Proof. revert l. induction n; intros [|x l] H; cbn; auto. inversion H; subst. auto. Qed.
Lemma Forall_seg {A} (P : A -> Prop) (L : list A) a b : Forall P L -> Forall P (seg L a b).
Proof. intros H. unfold seg. apply Forall_firstn, Forall_skipn, H. Qed.

(* one fd_readdir call from a cookie the cache can serve *)
Lemma fd_readdir_ok c k b : InvC c -> (k = 0 \/ Valid c k) -> 24 <= b < 2 ^ 32 ->
  exists c1 items w used ret m, fd_readdir dotIno dir c b k = (c1, FOk items w used ret) /\ InvC c1 /\
    0 <= k /\ 0 <= m /\ k + m <= N2 /\
    complete items = number (k + 1) (seg full k (k + m)) /\
    (forall j, k <= j <= k + m -> Valid c1 j) /\ m <= len ret /\
    (m < len ret -> used = b) /\ (used < b -> k + m = N2) /\ 0 <= used <= b /\
    (k < N2 -> (forall e, nth_error full (Z.to_nat k) = Some e -> esize e <= b) -> 1 <= m) /\
    (k = N2 -> used = 0).
Proof.
  intros Hinv Hk Hb. pose proof N2_eq as HN. unfold fd_readdir. unfold DirentSize at 1 2.
  destruct (Z.ltb_spec b 24); [lia|].
  rewrite (wrap_small 32 (b / 24 + 1)) by lia. rewrite (wrap_small 32 (b / 24 + 1 + 1)) by lia.
  set (n := b / 24 + 1 + 1).
  assert (Hn : 3 <= n <= 2 ^ 29) by (unfold n; lia).
  destruct (cache_read_ok c k n Hinv Hk Hn) as (c1 & ret & Hread & l2 & Hinv1 & Hd1 & Hstart & Hk0 & Hret & Hend & Hne).
  rewrite Hread. pose proof Hinv1 as Hi. unfold InvC in Hi. rewrite Hd1 in Hi.
  destruct Hi as (Hcr & Hup & Hll & Hl2 & Heof & Hlb). pose proof (len_nonneg l2) as Hl20.
  set (cr1 := c_countRead c1) in *.
  replace (cr1 - len l2) with k in Hl2 by lia.
  set (r := Z.min n (len l2)).
  assert (Hretseg : ret = seg full k (k + r)).
  { rewrite Hret, Hl2. destruct (Z.le_gt_cases n (len l2)).
    - rewrite seg_firstn by lia. f_equal. unfold r. lia.
    - rewrite firstn_all2 by (rewrite <- Hl2; unfold len in *; lia). f_equal. unfold r. lia. }
  assert (Hrlen : len ret = r) by (rewrite Hretseg, seg_len; unfold r; lia).
  assert (Hretok : Forall name_ok ret) by (rewrite Hretseg; apply Forall_seg, full_ok).
  destruct (max_dirents_spec ret b ltac:(lia) Hretok) as (w & cnt & t & m & E & Hm & Ht & Hw & Hle & H0 & Hpos & Hfit).
  rewrite E.
  pose proof (size_ge (firstn (Z.to_nat m) ret)) as Hsz.
  assert (Hfl : len (firstn (Z.to_nat m) ret) = m) by (rewrite len_firstn; lia).
  rewrite Hfl in Hsz. unfold DirentSize in Hsz, Hpos.
  (* facts shared by both branches *)
  assert (Hunfit : m < len ret -> (if 0 <? t then b else w) = b).
  { intros Hlt. destruct (Z.ltb_spec 0 t); [reflexivity|]. assert (t = 0) by lia. destruct (H0 H2) as [_ [Hx|Hx]]; lia. }
  assert (Hendd : (if 0 <? t then b else w) < b -> k + m = N2).
  { destruct (Z.ltb_spec 0 t); [lia|]. intros Hlt. assert (Ht0 : t = 0) by lia. destruct (H0 Ht0) as [_ [Hx|Hx]]; [|lia].
    assert (Hall : firstn (Z.to_nat m) ret = ret) by (apply firstn_all2; unfold len in *; lia).
    assert (r < n) by (unfold n; lia).
    assert (len l2 < n) by (unfold r in *; lia). specialize (Hend H3). unfold r in *. lia. }
  assert (Hused : 0 <= (if 0 <? t then b else w) <= b) by (destruct (Z.ltb_spec 0 t); lia).
  assert (Hlive : k < N2 -> (forall e, nth_error full (Z.to_nat k) = Some e -> esize e <= b) -> 1 <= m).
  { intros Hlt Hfits. specialize (Hne Hlt).
    assert (Hr1 : 1 <= r) by (unfold r; lia).
    destruct (seg_cons full k (k + r) ltac:(lia) ltac:(unfold r; lia)) as (x & Hx & Hnth).
    apply (Hfit x (seg full (k + 1) (k + r))); [rewrite Hretseg; exact Hx|]. apply Hfits, Hnth. }
  assert (HatEnd : k = N2 -> (if 0 <? t then b else w) = 0).
  { intros ->. assert (r = 0) by (unfold r; lia). assert (m = 0) by lia. subst m.
    destruct (Z.ltb_spec 0 t); [destruct (Hpos H2); lia|]. cbn in Hw. lia. }
  assert (Hvalid : forall j, k <= j <= k + m -> Valid c1 j).
  { intros j Hj. unfold Valid. rewrite Hd1. fold cr1. unfold r in *. lia. }
  assert (Hkm : k + m <= N2) by (unfold r in *; lia).
  destruct (Z.ltb_spec 0 w) as [Hw0|Hw0].
  - unfold write_dirents. unfold DirentSize.
    rewrite (wrap_small 64 (k + 1)) by lia.
    set (cnt1 := if (0 <? t) && (t <? 24) then cnt - 1 else cnt).
    set (skip := if (0 <? t) && negb (t <? 24) then cnt - 1 else -1).
    assert (Hcs : cnt1 <= len ret /\ 0 <= cnt1 /\ (skip < 0 \/ cnt1 - 1 <= skip) /\
                  (if (skip =? cnt1 - 1) && (0 <=? skip) then cnt1 - 1 else cnt1) = m).
    { unfold cnt1, skip. destruct (Z.ltb_spec 0 t) as [Htp|Htz]; cbn [andb].
      - destruct (Hpos Htp) as (-> & Hlt & Hor). destruct (Z.ltb_spec t 24); cbn [negb].
        + splits; try lia. change (0 <=? -1) with false. rewrite andb_false_r. lia.
        + splits; try lia. replace (m + 1 - 1) with m by lia.
          destruct (Z.eqb_spec m m); [|lia]. destruct (Z.leb_spec 0 m); [|lia]. reflexivity.
      - assert (Ht0 : t = 0) by lia. destruct (H0 Ht0) as [-> _]. splits; try lia.
        change (0 <=? -1) with false. rewrite andb_false_r. reflexivity. }
    destruct Hcs as (Hc1 & Hc2 & Hc3 & Hc4).
    destruct (write_loop_spec ret (k + 1) 0 cnt1 skip Hc2 ltac:(lia) ltac:(lia) ltac:(lia) ltac:(lia)) as (ws & Ews & Hcomp).
    rewrite Ews. rewrite Hc4, Z.sub_0_r in Hcomp.
    eexists _, _, _, _, _, m. split; [reflexivity|].
    splits; auto; try lia.
    rewrite Hcomp. f_equal. rewrite Hretseg. apply seg_firstn. lia.
  - assert (m = 0) by lia. assert (t = 0) by lia. subst m t.
    eexists _, _, _, _, _, 0. split; [reflexivity|].
    splits; auto; try lia.
    rewrite Z.add_0_r, seg_nil. reflexivity.
Qed.

(* ---------------------------------------------------------------- the client protocol *)
Definition cmd_ok (m : cmd) : Prop := match m with Cont b | Rewind b => 24 <= b < 2 ^ 32 end.

Definition CInv (s : client) : Prop :=
  k_failed s = false /\ InvC (k_cache s) /\ (k_cookie s = 0 \/ Valid (k_cache s) (k_cookie s)) /\
  0 <= k_cookie s <= N2 /\ k_acc s = number 1 (seg full 0 (k_cookie s)) /\
  (k_last_unfit s = true -> k_last_used s = k_last_len s) /\
  (k_last_used s < k_last_len s -> k_cookie s = N2).

Lemma client_init_inv : CInv client_init.
Proof.
  unfold CInv, client_init; cbn [k_failed k_cache k_cookie k_acc k_last_unfit k_last_used k_last_len].
  pose proof (len_nonneg full). splits; auto; try lia; try discriminate.
  unfold InvC; cbn. auto.
Qed.

Lemma client_step_inv s m : CInv s -> cmd_ok m ->
  let s' := client_step dotIno dir s m in
  CInv s' /\
  (forall b, m = Cont b ->
     k_last_len s' = b /\ k_cookie s <= k_cookie s' /\
     (k_cookie s = N2 -> k_last_used s' = 0) /\
     (k_cookie s < N2 -> (forall e, nth_error full (Z.to_nat (k_cookie s)) = Some e -> esize e <= b) ->
      k_cookie s < k_cookie s')).
Proof.
  intros (Hf & Hinv & Hval & Hck & Hacc & Hunfit & Hend) Hm. cbv zeta. unfold client_step. rewrite Hf.
  set (bl := match m with Cont b | Rewind b => b end).
  set (ck := match m with Cont _ => k_cookie s | Rewind _ => 0 end).
  set (acc := match m with Cont _ => k_acc s | Rewind _ => [] end).
  assert (Hm3 : (let '(bufLen, cookie, acc0) := match m with Cont b => (b, k_cookie s, k_acc s) | Rewind b => (b, 0, []) end in
                 match fd_readdir dotIno dir (k_cache s) bufLen cookie with
                 | (c1, FOk items _ used ret) =>
                     {| k_cache := c1; k_cookie := last_dnext cookie (complete items); k_acc := acc0 ++ complete items;
                        k_failed := false; k_last_used := used; k_last_len := bufLen;
                        k_last_unfit := len (complete items) <? len ret |}
                 | (c1, _) => {| k_cache := c1; k_cookie := cookie; k_acc := acc0; k_failed := true;
                                 k_last_used := 0; k_last_len := bufLen; k_last_unfit := false |}
                 end) =
                match fd_readdir dotIno dir (k_cache s) bl ck with
                 | (c1, FOk items _ used ret) =>
                     {| k_cache := c1; k_cookie := last_dnext ck (complete items); k_acc := acc ++ complete items;
                        k_failed := false; k_last_used := used; k_last_len := bl;
                        k_last_unfit := len (complete items) <? len ret |}
                 | (c1, _) => {| k_cache := c1; k_cookie := ck; k_acc := acc; k_failed := true;
                                 k_last_used := 0; k_last_len := bl; k_last_unfit := false |}
                 end) by (destruct m; reflexivity).
  rewrite Hm3. clear Hm3.
  assert (Hbl : 24 <= bl < 2 ^ 32) by (destruct m; exact Hm).
  assert (Hckv : ck = 0 \/ Valid (k_cache s) ck) by (destruct m; [exact Hval|left; reflexivity]).
  assert (Haccv : acc = number 1 (seg full 0 ck)) by (destruct m; [exact Hacc|reflexivity]).
  destruct (fd_readdir_ok (k_cache s) ck bl Hinv Hckv Hbl)
    as (c1 & items & w & used & ret & mm & E & Hinv1 & Hk0 & Hm0 & Hkm & Hcomp & Hvalid & Hmr & Hun & Hen & Hus & Hlive & HatEnd).
  rewrite E.
  assert (Hgl : len (complete items) = mm) by (rewrite Hcomp, number_len, seg_len; lia).
  assert (Hck' : last_dnext ck (complete items) = ck + mm).
  { rewrite Hcomp, last_dnext_number, seg_len; lia. }
  split.
  - unfold CInv; cbn [k_failed k_cache k_cookie k_acc k_last_unfit k_last_used k_last_len].
    rewrite Hck', Hgl. splits; auto; try lia.
    + right. apply Hvalid. lia.
    + rewrite Haccv, Hcomp. rewrite <- (seg_app full 0 ck (ck + mm)) by lia.
      rewrite number_app, seg_len by lia. do 2 f_equal. lia.
  - intros b ->. cbn [k_failed k_cache k_cookie k_acc k_last_unfit k_last_used k_last_len].
    rewrite Hck'. subst ck bl. splits; auto; try lia.
Qed.

Lemma client_run_inv cmds : forall s, CInv s -> Forall cmd_ok cmds -> CInv (fold_left (client_step dotIno dir) cmds s).
Proof.
  induction cmds as [|m r IH]; intros s Hs Hc; cbn [fold_left]; [exact Hs|].
  inversion Hc; subst. apply IH; [|assumption]. apply client_step_inv; assumption.
Qed.

Lemma listing_prefix k : 0 <= k <= N2 -> number 1 (seg full 0 k) = firstn (Z.to_nat k) (listing dotIno dir).
Proof. intros Hk. unfold listing, seg. cbn [Z.to_nat skipn]. rewrite Z.sub_0_r. apply number_firstn. Qed.

Lemma listing_all : number 1 (seg full 0 N2) = listing dotIno dir.
Proof. rewrite seg_all. reflexivity. Qed.

Lemma max_name_bound e : In e full -> esize e <= DirentSize + max_name dir.
Proof.
  pose proof (max_name_ge2 dir) as H2.
  intros Hin. apply in_app_or in Hin. destruct Hin as [Hd|Hd].
  - destruct Hd as [<-|[<-|[]]]; unfold esize; cbn [d_name]; unfold len; cbn [length Z.of_nat]; lia.
  - unfold esize. pose proof (max_name_in dir e Hd). lia.
Qed.

Lemma client_loop_done bufs : (forall i, DirentSize + max_name dir <= bufs i < 2 ^ 32) ->
  forall fuel i s, CInv s -> N2 - k_cookie s + 1 <= Z.of_nat fuel ->
  client_loop dotIno dir fuel bufs i s = Done (listing dotIno dir).
Proof.
  intros Hbufs. induction fuel as [|f IH]; intros i s Hs Hfuel.
  - destruct Hs as (_ & _ & _ & Hck & _). lia.
  - cbn [client_loop].
    assert (Hb : cmd_ok (Cont (bufs i))).
    { cbn. specialize (Hbufs i). pose proof (max_name_ge2 dir). unfold DirentSize in *. lia. }
    destruct (client_step_inv s (Cont (bufs i)) Hs Hb) as [Hs1 Hprog]. cbv zeta in *.
    set (s1 := client_step dotIno dir s (Cont (bufs i))) in *.
    destruct (Hprog (bufs i) eq_refl) as (Hll & Hmono & HatEnd & Hlive).
    pose proof Hs1 as (Hf1 & _ & _ & Hck1 & Hacc1 & _ & Hend1). rewrite Hf1.
    destruct (Z.ltb_spec (k_last_used s1) (k_last_len s1)) as [Hlt|Hge].
    + f_equal. rewrite Hacc1, (Hend1 Hlt). apply listing_all.
    + apply IH; [exact Hs1|].
      destruct Hs as (_ & _ & _ & Hck & _).
      destruct (Z.eq_dec (k_cookie s) N2) as [Heq|Hne].
      * specialize (HatEnd Heq). specialize (Hbufs i). pose proof (max_name_ge2 dir). unfold DirentSize in *. lia.
      * assert (Hlt : k_cookie s < N2) by lia.
        assert (k_cookie s < k_cookie s1).
        { apply Hlive; [exact Hlt|]. intros e He. apply nth_error_In in He. pose proof (max_name_bound e He). specialize (Hbufs i). lia. }
        lia.
Qed.
End Dir.

(* ---------------------------------------------------------------- theorems *)
Theorem readdir_prefix dotIno dir cmds : len dir < 2 ^ 62 -> Forall name_ok dir -> Forall cmd_ok cmds ->
  let s := client_run dotIno dir cmds in
  k_failed s = false /\
  k_acc s = firstn (length (k_acc s)) (listing dotIno dir) /\ k_cookie s = len (k_acc s) /\
  (k_last_unfit s = true -> k_last_used s = k_last_len s) /\
  (k_last_used s < k_last_len s -> k_acc s = listing dotIno dir).
Proof.
  intros Hlen Hnames Hcmds. cbv zeta. unfold client_run.
  pose proof (client_run_inv dotIno dir Hlen Hnames cmds client_init (client_init_inv dotIno dir) Hcmds) as H.
  set (s := fold_left (client_step dotIno dir) cmds client_init) in *.
  destruct H as (Hf & _ & _ & Hck & Hacc & Hun & Hend).
  assert (Hl : len (k_acc s) = k_cookie s) by (rewrite Hacc, number_len, seg_len; lia).
  splits; auto.
  - rewrite Hacc at 1. rewrite listing_prefix by lia. f_equal. unfold len in Hl. lia.
  - intros Hlt. rewrite Hacc, (Hend Hlt). apply listing_all.
Qed.

Theorem readdir_terminates dotIno dir bufs : len dir < 2 ^ 62 -> Forall name_ok dir ->
  (forall i, DirentSize + max_name dir <= bufs i < 2 ^ 32) ->
  client_loop dotIno dir (length dir + 3) bufs 0 client_init = Done (listing dotIno dir).
Proof.
  intros Hlen Hnames Hbufs. apply client_loop_done; auto.
  - apply client_init_inv.
  - cbn [k_cookie client_init]. rewrite len_app. unfold len. cbn [length dots]. lia.
Qed.

(* the loop never fails and only ever holds a prefix, whatever the buffer sizes (>= 24) *)
Theorem readdir_loop_safe dotIno dir bufs fuel : len dir < 2 ^ 62 -> Forall name_ok dir ->
  (forall i, 24 <= bufs i < 2 ^ 32) ->
  match client_loop dotIno dir fuel bufs 0 client_init with
  | Failed => False
  | More acc => acc = firstn (length acc) (listing dotIno dir)
  | Done acc => acc = listing dotIno dir
  end.
Proof.
  intros Hlen Hnames Hbufs.
  assert (G : forall fuel i s, CInv dotIno dir s ->
            match client_loop dotIno dir fuel bufs i s with
            | Failed => False
            | More acc => acc = firstn (length acc) (listing dotIno dir)
            | Done acc => acc = listing dotIno dir
            end).
  { clear fuel. induction fuel as [|f IH]; intros i s Hs; cbn [client_loop].
    - destruct Hs as (_ & _ & _ & Hck & Hacc & _).
      rewrite Hacc at 1. rewrite listing_prefix by lia. f_equal.
      rewrite Hacc. pose proof (number_len 1 (seg (dots dotIno ++ dir) 0 (k_cookie s))) as Hn.
      rewrite seg_len in Hn by lia. unfold len in Hn. lia.
    - destruct (client_step_inv dotIno dir Hlen Hnames s (Cont (bufs i)) Hs (Hbufs i)) as [Hs1 _]. cbv zeta in Hs1.
      set (s1 := client_step dotIno dir s (Cont (bufs i))) in *.
      pose proof Hs1 as (Hf1 & _ & _ & Hck1 & Hacc1 & _ & Hend1). rewrite Hf1.
      destruct (Z.ltb_spec (k_last_used s1) (k_last_len s1)) as [Hlt|Hge].
      + rewrite Hacc1, (Hend1 Hlt). apply listing_all.
      + apply IH. exact Hs1. }
  apply G. apply client_init_inv.
Qed.

(* non-vacuity: a directory with a long name, read with small and large buffers and a rewind *)
Definition ex_dir : list dirent :=
  [ {| d_name := [97]; d_ino := 11; d_type := 4 |};
    {| d_name := [98; 98; 98; 98; 98; 98; 98; 98; 98; 98; 98; 98; 98; 98; 98; 98; 98; 98; 98; 98; 98; 98; 98; 98; 98; 98; 98; 98; 98; 98]; d_ino := 12; d_type := 4 |};
    {| d_name := [99; 99]; d_ino := 13; d_type := 3 |} ].
Example ex_hyps : len ex_dir < 2 ^ 62 /\ Forall name_ok ex_dir /\ Forall cmd_ok [Cont 24; Cont 60; Rewind 100; Cont 30; Cont 200].
Proof. splits; [reflexivity| |]; repeat constructor; unfold name_ok, DirentSize, largestDirent; cbn; lia. Qed.
Example ex_run :
  let s := client_run 7 ex_dir [Cont 24; Cont 60; Rewind 100; Cont 30; Cont 200] in
  map fst (k_acc s) = [1; 2; 3; 4; 5] /\ k_last_used s <? k_last_len s = true.
Proof. vm_compute. split; reflexivity. Qed.
Example ex_headers_only :   (* 40-byte buffers never fit the 30-character name: no progress, but nothing lost *)
  client_loop 7 ex_dir 50 (fun _ => 40) 0 client_init = More (firstn 3 (listing 7 ex_dir)).
Proof. vm_compute. reflexivity. Qed.
