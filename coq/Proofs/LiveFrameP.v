(* C04, live frames: there is no per-frame copy of a shared object in the reference semantics W.
   (1) sequencing: running [is1 ++ is2] is running [is1] and then, in the store and frame reached, [is2]
       (exact fuel accounting, so that both directions hold: the composite terminates iff the parts do);
   (2) hence a read instruction placed after ANY instruction sequence (calls into other instances, indirect
       calls through a shared table, host functions that re-enter the guest, at any depth) returns what the
       store reached holds at the store address the instance record names;
   (3) two instances whose records name the same store address read the same thing in every state reached
       by any execution or any history of export calls.
   Reuses fuel monotonicity (Proofs/SemFuelP.v) and the constancy of the code part (Proofs/SemP.v). *)
From Coq Require Import ZArith List Bool Lia.
From Verif Require Import Lib.GoInt Gen.GenC04Wasm Gen.GenC04Binary Wasm.Numerics Wasm.Sem Wasm.Harness Proofs.SemP Proofs.SemFuelP Rt.Linking Rt.LinkCheck Rt.LinkLive Proofs.LinkingP.
Import ListNotations.
Open Scope Z_scope.

Ltac splits := repeat match goal with |- _ /\ _ => split end.

Section Live.
Variable D : domain.
Variable host : nat -> list (val D) -> hostres (val D).
Variable listened : nat -> bool.
Variable maxdepth : nat.
Notation store := (store D).
Notation exec := (exec D host listened maxdepth).

(* ================================================================ (1) sequencing *)
Section App.
Variable is2 : list instr.

(* o1: outcome of the prefix with fuel fu; o2: outcome of prefix ++ is2 with fuel fu + d *)
Definition app_rel (d depth ii : nat) (o1 o2 : out D) : Prop :=
  match o1 with
  | OutOfFuel => d = O -> o2 = OutOfFuel
  | Normal s' f' => exists n, (d + 1 <= n)%nat /\ o2 = exec n depth ii s' f' is2
  | o => o2 = o
  end.

Lemma app_rel_fuel d depth ii o2 : (d = O -> o2 = OutOfFuel) -> app_rel d depth ii OutOfFuel o2.
Proof. intros H. exact H. Qed.

Theorem exec_app_rel fu : forall fu', (fu <= fu')%nat -> forall depth ii s f is1,
  app_rel (fu' - fu) depth ii (exec fu depth ii s f is1) (exec fu' depth ii s f (is1 ++ is2)).
Proof.
  induction fu as [|fu IH]; intros fu' Hle depth ii s f is1.
  { cbn [Sem.exec app_rel]. intros Hd. assert (fu' = O) by lia. subst. reflexivity. }
  destruct fu' as [|fu'']; [lia|]. assert (Hle' : (fu <= fu'')%nat) by lia.
  pose proof (IH fu'' Hle') as IHe. clear IH.
  pose proof (exec_le D host listened maxdepth fu fu'' Hle') as Hmono.
  change (S fu'' - S fu)%nat with (fu'' - fu)%nat.
  assert (Hzero : (fu'' - fu)%nat = O -> fu'' = fu) by lia.
  destruct is1 as [|i rest].
  { cbn [app]. cbn [Sem.exec app_rel]. exists (S fu''). split; [lia|reflexivity]. }
  cbn [app]. cbn [Sem.exec].
  destruct (step_simple D ii s f i) as [s1 f1|t|] eqn:Hs.
  - apply IHe.
  - cbn. reflexivity.
  - assert (Hblock : forall np nr body stk lb,
      app_rel (fu'' - fu) depth ii
       (match Sem.exec D host listened maxdepth fu depth ii s {| stack := firstn np stk; locals := locals f |} body with
        | Normal s' f' => Sem.exec D host listened maxdepth fu depth ii s' {| stack := firstn nr (stack f') ++ skipn np stk; locals := locals f' |} rest
        | Branch O s' f' =>
            match lb with
            | None => Sem.exec D host listened maxdepth fu depth ii s' {| stack := firstn nr (stack f') ++ skipn np stk; locals := locals f' |} rest
            | Some l => Sem.exec D host listened maxdepth fu depth ii s' {| stack := firstn np (stack f') ++ skipn np stk; locals := locals f' |} (Loop np nr l :: rest)
            end
        | Branch (S n) s' f' => Branch n s' f'
        | o => o
        end)
       (match Sem.exec D host listened maxdepth fu'' depth ii s {| stack := firstn np stk; locals := locals f |} body with
        | Normal s' f' => Sem.exec D host listened maxdepth fu'' depth ii s' {| stack := firstn nr (stack f') ++ skipn np stk; locals := locals f' |} (rest ++ is2)
        | Branch O s' f' =>
            match lb with
            | None => Sem.exec D host listened maxdepth fu'' depth ii s' {| stack := firstn nr (stack f') ++ skipn np stk; locals := locals f' |} (rest ++ is2)
            | Some l => Sem.exec D host listened maxdepth fu'' depth ii s' {| stack := firstn np (stack f') ++ skipn np stk; locals := locals f' |} (Loop np nr l :: rest ++ is2)
            end
        | Branch (S n) s' f' => Branch n s' f'
        | o => o
        end)).
    { intros np nr body stk lb.
      destruct (Hmono depth ii s {| stack := firstn np stk; locals := locals f |} body) as [E|E]; rewrite E.
      - apply app_rel_fuel. intros Hd. apply Hzero in Hd. subst fu''. rewrite E. reflexivity.
      - destruct (Sem.exec D host listened maxdepth fu'' depth ii s {| stack := firstn np stk; locals := locals f |} body) as [s' f'|[|n] s' f'|s' f'|t s'|];
          try (cbn; reflexivity).
        + apply IHe.
        + destruct lb as [l|]; [|apply IHe].
          apply (IHe depth ii s' {| stack := firstn np (stack f') ++ skipn np stk; locals := locals f' |} (Loop np nr l :: rest)). }
    assert (Hinv : forall fa args stk np,
      app_rel (fu'' - fu) depth ii
        (match invoke_with D host listened maxdepth (Sem.exec D host listened maxdepth fu) depth s fa args with
         | IOk s' vs => Sem.exec D host listened maxdepth fu depth ii s' (setstack D f (rev vs ++ skipn np stk)) rest
         | ITrap t s' => Trap t s'
         | IFuel => OutOfFuel
         end)
        (match invoke_with D host listened maxdepth (Sem.exec D host listened maxdepth fu'') depth s fa args with
         | IOk s' vs => Sem.exec D host listened maxdepth fu'' depth ii s' (setstack D f (rev vs ++ skipn np stk)) (rest ++ is2)
         | ITrap t s' => Trap t s'
         | IFuel => OutOfFuel
         end)).
    { intros fa args stk np.
      destruct (invoke_le D host listened maxdepth _ _ depth s fa args Hmono) as [E|E]; rewrite E.
      - apply app_rel_fuel. intros Hd. apply Hzero in Hd. subst fu''. rewrite E. reflexivity.
      - destruct (invoke_with D host listened maxdepth (Sem.exec D host listened maxdepth fu'') depth s fa args) as [s' vs|t s'|];
          [apply IHe|cbn; reflexivity|cbn; reflexivity]. }
    destruct i as [w c|o|o| | | | |k|k|k|k|k|w n sx off|n off| | |np nr body|np nr body|np nr t e|n|n|ls d| |f0|ty];
      try (exfalso; unfold step_simple, the_mem in Hs;
           repeat match type of Hs with context [match ?x with _ => _ end] => destruct x end; discriminate Hs);
      clear Hs.
    + apply (Hblock np nr body (stack f) None).
    + apply (Hblock np nr body (stack f) (Some body)).
    + destruct (stack f) as [|c stk]; [cbn; reflexivity|].
      destruct (Hmono depth ii s {| stack := firstn np stk; locals := locals f |} (if truthy D c then t else e)) as [E|E]; rewrite E.
      * apply app_rel_fuel. intros Hd. apply Hzero in Hd. subst fu''. rewrite E. reflexivity.
      * destruct (Sem.exec D host listened maxdepth fu'' depth ii s {| stack := firstn np stk; locals := locals f |} (if truthy D c then t else e)) as [s' f'|[|n'] s' f'|s' f'|t' s'|];
          try (cbn; reflexivity); apply IHe.
    + cbn. reflexivity.
    + destruct (stack f) as [|c stk]; [cbn; reflexivity|]. destruct (truthy D c); [cbn; reflexivity|apply IHe].
    + destruct (stack f) as [|c stk]; cbn; reflexivity.
    + cbn. reflexivity.
    + destruct (nth_error (i_funcs (the_inst D s ii)) f0) as [fa|]; [|cbn; reflexivity]. apply Hinv.
    + destruct (stack f) as [|c stk]; [cbn; reflexivity|].
      destruct (i_tab (the_inst D s ii)) as [ta|]; [|cbn; reflexivity].
      cbv zeta.
      destruct (to_u32 D c <? Z.of_nat (length (nth ta (s_tabs s) []))); [|cbn; reflexivity].
      destruct (nth_error (nth ta (s_tabs s) []) (Z.to_nat (to_u32 D c))) as [[fa|]|]; try (cbn; reflexivity).
      destruct (nth_error (s_funcs s) fa) as [[ci tp tr nl body|h tp tr]|]; try (cbn; reflexivity);
        (destruct (list_eqb tp _ && list_eqb tr _); [apply Hinv|cbn; reflexivity]).
Qed.
End App.

(* forward: the prefix ends normally => the composite continues with the suffix in the store and frame reached,
   and the suffix gets at least two units of fuel when the composite gets one more than the prefix *)
Lemma exec_app_normal fuel depth ii s f is1 is2 s' f' :
  exec fuel depth ii s f is1 = Normal s' f' ->
  exists n, (2 <= n)%nat /\ exec (S fuel) depth ii s f (is1 ++ is2) = exec n depth ii s' f' is2.
Proof.
  intros H. pose proof (exec_app_rel is2 fuel (S fuel) ltac:(lia) depth ii s f is1) as R.
  rewrite H in R. cbn [app_rel] in R. destruct R as (n & Hn & E). exists n. split; [lia|exact E].
Qed.

(* backward: the composite finishes => so did the prefix, with the same fuel; if it ended normally the composite's
   outcome is the suffix's in the store and frame reached, otherwise it is the prefix's outcome *)
Lemma exec_app_inv fuel depth ii s f is1 is2 o :
  exec fuel depth ii s f (is1 ++ is2) = o -> o <> OutOfFuel ->
  match exec fuel depth ii s f is1 with
  | Normal s' f' => exists n, (1 <= n)%nat /\ exec n depth ii s' f' is2 = o
  | OutOfFuel => False
  | o1 => o1 = o
  end.
Proof.
  intros H Hne. pose proof (exec_app_rel is2 fuel fuel ltac:(lia) depth ii s f is1) as R.
  rewrite H in R. replace (fuel - fuel)%nat with O in R by lia.
  destruct (exec fuel depth ii s f is1) as [s' f'|n s' f'|s' f'|t s'|]; cbn [app_rel] in R; try (symmetry; exact R).
  - destruct R as (n & Hn & E). exists n. split; [lia|symmetry; exact E].
  - apply Hne. apply R. reflexivity.
Qed.

Theorem exec_sequencing fuel depth ii s f is1 is2 :
  (forall s' f', exec fuel depth ii s f is1 = Normal s' f' ->
     exists n, (2 <= n)%nat /\ exec (S fuel) depth ii s f (is1 ++ is2) = exec n depth ii s' f' is2) /\
  (forall o, exec fuel depth ii s f (is1 ++ is2) = o -> o <> OutOfFuel ->
     match exec fuel depth ii s f is1 with
     | Normal s' f' => exists n, (1 <= n)%nat /\ exec n depth ii s' f' is2 = o
     | OutOfFuel => False
     | o1 => o1 = o
     end).
Proof.
  split; [intros s' f' H; exact (exec_app_normal fuel depth ii s f is1 is2 s' f' H)
         |intros o H Hne; exact (exec_app_inv fuel depth ii s f is1 is2 o H Hne)].
Qed.

(* ================================================================ (2) a read after any execution *)
(* one non-control instruction, run alone with at least two units of fuel *)
Lemma exec_single n depth ii s f i : (2 <= n)%nat -> step_simple D ii s f i <> SNot ->
  exec n depth ii s f [i] = match step_simple D ii s f i with SOk s1 f1 => Normal s1 f1 | STrap t => Trap t s | SNot => OutOfFuel end.
Proof.
  intros Hn Hs. destruct n as [|[|n]]; try lia. cbn [Sem.exec].
  destruct (step_simple D ii s f i); [reflexivity|reflexivity|congruence].
Qed.

Lemma exec_single_inv n depth ii s f i o : step_simple D ii s f i <> SNot ->
  exec n depth ii s f [i] = o -> o <> OutOfFuel ->
  o = match step_simple D ii s f i with SOk s1 f1 => Normal s1 f1 | STrap t => Trap t s | SNot => OutOfFuel end.
Proof.
  intros Hs H Hne. destruct n as [|[|n]].
  - cbn in H. congruence.
  - cbn [Sem.exec] in H. destruct (step_simple D ii s f i); cbn [Sem.exec] in H; congruence.
  - rewrite <- H. apply exec_single; [lia|exact Hs].
Qed.

(* the instruction is not a control instruction or a call: its effect is [step_simple] *)
Definition simple_instr (i : instr) : bool :=
  match i with
  | Block _ _ _ | Loop _ _ _ | If _ _ _ _ | Br _ | BrIf _ | BrTable _ _ | Return | Call _ | CallIndirect _ => false
  | _ => true
  end.

Lemma simple_instr_step ii s f i : simple_instr i = true -> step_simple D ii s f i <> SNot.
Proof.
  intros Hi. unfold step_simple, the_mem.
  destruct i; try discriminate Hi; cbn;
    repeat match goal with |- context [match ?x with _ => _ end] => destruct x end; discriminate.
Qed.

(* the general statement: whatever [is1] does, the instruction placed after it acts on the store reached *)
Theorem step_after_any_exec fuel depth ii s f is1 i s' f' : simple_instr i = true ->
  exec fuel depth ii s f is1 = Normal s' f' ->
  exec (S fuel) depth ii s f (is1 ++ [i]) =
    match step_simple D ii s' f' i with SOk s1 f1 => Normal s1 f1 | STrap t => Trap t s' | SNot => OutOfFuel end.
Proof.
  intros Hi H. destruct (exec_app_normal fuel depth ii s f is1 [i] s' f' H) as (n & Hn & E).
  rewrite E. apply exec_single; [exact Hn|apply simple_instr_step; exact Hi].
Qed.

Theorem step_after_any_exec_inv fuel depth ii s f is1 i o : simple_instr i = true ->
  exec fuel depth ii s f (is1 ++ [i]) = o -> o <> OutOfFuel ->
  match exec fuel depth ii s f is1 with
  | Normal s' f' => o = match step_simple D ii s' f' i with SOk s1 f1 => Normal s1 f1 | STrap t => Trap t s' | SNot => OutOfFuel end
  | OutOfFuel => False
  | o1 => o1 = o
  end.
Proof.
  intros Hi H Hne. pose proof (exec_app_inv fuel depth ii s f is1 [i] o H Hne) as R.
  destruct (exec fuel depth ii s f is1) as [s' f'|n s' f'|s' f'|t s'|]; try exact R.
  destruct R as (n & Hn & E). eapply exec_single_inv; [apply simple_instr_step; exact Hi|exact E|exact Hne].
Qed.

(* the instance records are constant along every execution *)
Lemma the_inst_after fuel depth ii s f is1 s' f' jj :
  exec fuel depth ii s f is1 = Normal s' f' -> the_inst D s' jj = the_inst D s jj.
Proof.
  intros H. pose proof (exec_same_code D host listened maxdepth fuel depth ii s f is1) as Hc. rewrite H in Hc. cbn in Hc.
  destruct Hc as (_ & Hi & _). unfold the_inst. rewrite Hi. reflexivity.
Qed.

(* what instance ii reads: the store's cell at the address its record names *)
Definition glob_read (s : store) (ii k : nat) : option (val D) :=
  match nth_error (i_globals (the_inst D s ii)) k with Some ga => nth_error (s_globals s) ga | None => None end.

Lemma global_get_reads_store ii s f k :
  step_simple D ii s f (GlobalGet k) =
    match glob_read s ii k with Some v => SOk s (setstack D f (v :: stack f)) | None => STrap TStuck end.
Proof.
  unfold step_simple, glob_read. destruct (nth_error (i_globals (the_inst D s ii)) k) as [ga|]; [|reflexivity].
  destruct (nth_error (s_globals s) ga); reflexivity.
Qed.

(* global.get after ANY instruction sequence pushes the value the store reached holds at the store address
   i_globals(ii)[k], an address fixed before [is1] ran: no per-frame copy. Both directions. *)
Theorem global_read_sees_latest_write fuel depth ii s f is1 k :
  (forall s' f', exec fuel depth ii s f is1 = Normal s' f' ->
     forall ga v, nth_error (i_globals (the_inst D s ii)) k = Some ga -> nth_error (s_globals s') ga = Some v ->
     exec (S fuel) depth ii s f (is1 ++ [GlobalGet k]) = Normal s' (setstack D f' (v :: stack f'))) /\
  (forall s2 f2, exec fuel depth ii s f (is1 ++ [GlobalGet k]) = Normal s2 f2 ->
     exists f' ga v, exec fuel depth ii s f is1 = Normal s2 f' /\
       nth_error (i_globals (the_inst D s ii)) k = Some ga /\ nth_error (s_globals s2) ga = Some v /\
       f2 = setstack D f' (v :: stack f')).
Proof.
  split.
  - intros s' f' H ga v Hga Hv.
    rewrite (step_after_any_exec fuel depth ii s f is1 (GlobalGet k) s' f' eq_refl H).
    rewrite global_get_reads_store. unfold glob_read. rewrite (the_inst_after _ _ _ _ _ _ _ _ ii H), Hga, Hv. reflexivity.
  - intros s2 f2 H.
    pose proof (step_after_any_exec_inv fuel depth ii s f is1 (GlobalGet k) _ eq_refl H ltac:(discriminate)) as R.
    destruct (exec fuel depth ii s f is1) as [s' f'|n s' f'|s' f'|t s'|] eqn:E; try discriminate R; try contradiction.
    rewrite global_get_reads_store in R. unfold glob_read in R. rewrite (the_inst_after _ _ _ _ _ _ _ _ ii E) in R.
    destruct (nth_error (i_globals (the_inst D s ii)) k) as [ga|]; [|discriminate R].
    destruct (nth_error (s_globals s') ga) as [v|] eqn:Hv; [|discriminate R].
    inversion R; subst. exists f', ga, v. splits; auto.
Qed.

(* the same for the memory: a load placed after any instruction sequence reads the bytes of the memory the store
   reached holds at the address i_mem(ii), bounds-checked against its CURRENT length (so growth by anybody is seen) *)
Theorem load_sees_latest_write fuel depth ii s f is1 w n sx off s' f' a stk ma m :
  exec fuel depth ii s f is1 = Normal s' f' -> stack f' = a :: stk ->
  i_mem (the_inst D s ii) = Some ma -> nth_error (s_mems s') ma = Some m ->
  exec (S fuel) depth ii s f (is1 ++ [Load w n sx off]) =
    if to_u32 D a + off + Z.of_nat n <=? mlen m
    then Normal s' (setstack D f' (of_bits D w (if sx then sext n w (rd_le (mdata m) (to_u32 D a + off) n)
                                               else rd_le (mdata m) (to_u32 D a + off) n) :: stk))
    else Trap TOob s'.
Proof.
  intros H Hst Hma Hm.
  rewrite (step_after_any_exec fuel depth ii s f is1 (Load w n sx off) s' f' eq_refl H).
  unfold step_simple, the_mem. rewrite Hst, (the_inst_after _ _ _ _ _ _ _ _ ii H), Hma, Hm.
  destruct (to_u32 D a + off + Z.of_nat n <=? mlen m); reflexivity.
Qed.

Theorem memory_size_sees_growth fuel depth ii s f is1 s' f' ma m :
  exec fuel depth ii s f is1 = Normal s' f' ->
  i_mem (the_inst D s ii) = Some ma -> nth_error (s_mems s') ma = Some m ->
  exec (S fuel) depth ii s f (is1 ++ [MemorySize]) = Normal s' (setstack D f' (of_bits D 32 (mlen m / 65536) :: stack f')).
Proof.
  intros H Hma Hm.
  rewrite (step_after_any_exec fuel depth ii s f is1 MemorySize s' f' eq_refl H).
  unfold step_simple, the_mem. rewrite (the_inst_after _ _ _ _ _ _ _ _ ii H), Hma, Hm. reflexivity.
Qed.

(* ================================================================ (3) aliasing: reads through either instance agree *)
Definition reads_agree (s : store) (a b : nat) : Prop :=
  (forall ma, shares_mem D s a b ma ->
     forall f w n sx off, step_simple D a s f (Load w n sx off) = step_simple D b s f (Load w n sx off)) /\
  (forall ma, shares_mem D s a b ma -> forall f, step_simple D a s f MemorySize = step_simple D b s f MemorySize) /\
  (forall ka kb ga, shares_glob D s a ka b kb ga ->
     glob_read s a ka = glob_read s b kb /\
     forall f, step_simple D a s f (GlobalGet ka) = step_simple D b s f (GlobalGet kb)) /\
  (forall ta, shares_tab D s a b ta -> tab_view D s a = tab_view D s b).

Lemma reads_agree_any s a b : reads_agree s a b.
Proof.
  unfold reads_agree. splits.
  - intros ma [Ha Hb] f w n sx off. unfold step_simple, the_mem. rewrite Ha, Hb. reflexivity.
  - intros ma [Ha Hb] f. unfold step_simple, the_mem. rewrite Ha, Hb. reflexivity.
  - intros ka kb ga [Ha Hb]. split.
    + unfold glob_read. rewrite Ha, Hb. reflexivity.
    + intros f. rewrite !global_get_reads_store. unfold glob_read. rewrite Ha, Hb. reflexivity.
  - intros ta H. eapply tab_same_view. exact H.
Qed.

(* in every state reached by an execution (any instance, any code, any outcome): instances that shared an
   object before still do, and whatever was written meanwhile, by whomever, they read the same *)
Theorem aliased_reads_agree_along_exec fuel depth ii s f is a b :
  match exec fuel depth ii s f is with
  | Normal s' _ | Branch _ s' _ | Ret s' _ | Trap _ s' =>
      (forall ma, shares_mem D s a b ma ->
         (forall g w n sx off, step_simple D a s' g (Load w n sx off) = step_simple D b s' g (Load w n sx off)) /\
         (forall g, step_simple D a s' g MemorySize = step_simple D b s' g MemorySize)) /\
      (forall ka kb ga, shares_glob D s a ka b kb ga ->
         glob_read s' a ka = glob_read s' b kb /\
         forall g, step_simple D a s' g (GlobalGet ka) = step_simple D b s' g (GlobalGet kb)) /\
      (forall ta, shares_tab D s a b ta -> tab_view D s' a = tab_view D s' b)
  | OutOfFuel => True
  end.
Proof.
  pose proof (shared_along_exec D host listened maxdepth fuel depth ii s f is a b) as H.
  destruct (exec fuel depth ii s f is) as [s' f'|n s' f'|s' f'|t s'|]; try exact I;
    destruct H as (Hm & Hg & Ht); destruct (reads_agree_any s' a b) as (R1 & R2 & R3 & R4); splits;
    try (intros ma Hs; split; [apply (R1 ma (Hm ma Hs))|apply (R2 ma (Hm ma Hs))]);
    try (intros ka kb ga Hs; apply (R3 ka kb ga (Hg ka kb ga Hs)));
    try (intros ta Hs; apply (R4 ta (Ht ta Hs))).
Qed.

(* ... and by any history of export calls *)
Theorem aliased_reads_agree_after_calls fuel calls s a b :
  let s1 := fst (run_calls D host listened maxdepth fuel s calls) in
  (forall ma, shares_mem D s a b ma ->
     (forall g w n sx off, step_simple D a s1 g (Load w n sx off) = step_simple D b s1 g (Load w n sx off)) /\
     (forall g, step_simple D a s1 g MemorySize = step_simple D b s1 g MemorySize)) /\
  (forall ka kb ga, shares_glob D s a ka b kb ga ->
     glob_read s1 a ka = glob_read s1 b kb /\
     forall g, step_simple D a s1 g (GlobalGet ka) = step_simple D b s1 g (GlobalGet kb)) /\
  (forall ta, shares_tab D s a b ta -> tab_view D s1 a = tab_view D s1 b).
Proof.
  intros s1. pose proof (run_calls_insts D host listened maxdepth fuel calls s) as Hi. fold s1 in Hi.
  destruct (views_of_insts D s s1 a b Hi) as (Hm & Hg & Ht).
  destruct (reads_agree_any s1 a b) as (R1 & R2 & R3 & R4). splits.
  - intros ma Hs. split; [apply (R1 ma (Hm ma Hs))|apply (R2 ma (Hm ma Hs))].
  - intros ka kb ga Hs. apply (R3 ka kb ga (Hg ka kb ga Hs)).
  - intros ta Hs. apply (R4 ta (Ht ta Hs)).
Qed.

(* the live-frame statement in one piece: instance a's frame runs ANY code [is1] (which may call into instance b,
   directly, through a table or through the host, at any depth) and then reads its global ka; instance b names the
   same store address as its global kb. Then what a's frame reads is what b reads in the state reached. *)
Theorem live_frame_read_is_shared_value fuel depth a s f is1 ka b kb ga s' f' :
  shares_glob D s a ka b kb ga ->
  exec fuel depth a s f is1 = Normal s' f' ->
  match glob_read s' b kb with
  | Some v => exec (S fuel) depth a s f (is1 ++ [GlobalGet ka]) = Normal s' (setstack D f' (v :: stack f'))
  | None => exec (S fuel) depth a s f (is1 ++ [GlobalGet ka]) = Trap TStuck s'
  end.
Proof.
  intros Hs H.
  pose proof (aliased_reads_agree_along_exec fuel depth a s f is1 a b) as R. rewrite H in R.
  destruct R as (_ & Rg & _). destruct (Rg ka kb ga Hs) as [Rr _].
  rewrite (step_after_any_exec fuel depth a s f is1 (GlobalGet ka) s' f' eq_refl H), global_get_reads_store, Rr.
  destruct (glob_read s' b kb); reflexivity.
Qed.

End Live.

(* ================================================================ non-vacuity: three instances, the write happens during a nested call *)
(* the graph of the seeded defect C04c, instantiated in the order H, A, B by Rt/Linking.v [instantiate]:
   H: a table of one slot (exported) and relay(v) = call_indirect slot 0 with v
   A: imports H.relay; defines and exports (mut i32) g = 1; test() = g := 7; relay(42); g
   B: imports A.g (mut i32) and H's table; set(v) = g := v; element segment: slot 0 = set *)
Definition lxH : modul :=
  Build_modul [([32], [])] [] [Build_fdef 0 0 [LocalGet 0; Const 32 0; CallIndirect 0]]
    (Some (1, false, 0)) None [] [(0, EFunc 0); (3000, ETab 0)] [] [] None.
Definition lx_prefix : list instr := [Const 32 7; GlobalSet 0; Const 32 42; Call 0].
Definition lxA : modul :=
  Build_modul [([32], []); ([], [32])] [Build_import 0 0 (IFunc 0)] [Build_fdef 1 0 (lx_prefix ++ [GlobalGet 0])]
    None None [Build_gdef true 32 (CConst 32 1)] [(1000, EGlob 0); (1, EFunc 1)] [] [] None.
Definition lxB : modul :=
  Build_modul [([32], [])] [Build_import 1 1000 (IGlobal true 32); Build_import 0 3000 (ITable 1 false 0 112)]
    [Build_fdef 0 0 [LocalGet 0; GlobalSet 0]] None None [] [(0, EFunc 0)] [(CConst 32 0, [Some 0%nat])] [] None.

Definition lx_inst (st : lstore) (m : modul) : lstore := fst (instantiate run_start 65536 st m).
Definition lx_store : store Spec := ls (lx_inst (lx_inst (lx_inst empty_lstore lxH) lxA) lxB).
Definition lx_frame : frame Spec := {| stack := []; locals := [] |}.
Definition lx_run (fuel : nat) (is : list instr) : out Spec := exec Spec no_host (fun _ => false) 400 fuel 1 1 lx_store lx_frame is.

(* all three link; A (instance 1, global 0) and B (instance 2, global 0) name store address 0; H and B share table 0 *)
Example live_example_links :
  snd (instantiate run_start 65536 (lx_inst (lx_inst empty_lstore lxH) lxA) lxB) = 0 /\
  length (s_insts lx_store) = 3%nat /\ shares_glob Spec lx_store 1 0 2 0 0 /\ shares_tab Spec lx_store 0 2 0.
Proof. unfold shares_glob, shares_tab. splits; vm_compute; reflexivity. Qed.

(* A's frame: g := 7, then the call A -> H.relay -> (table) -> B.set(42), two instances and three frames deep. The prefix
   ends normally; in the store reached B reads 42 through ITS index; A's global.get then pushes 42, not the 7 A wrote *)
Example live_example_prefix :
  match lx_run 20 lx_prefix with
  | Normal s' f' => glob_read Spec s' 2 0 = Some 42 /\ glob_read Spec s' 1 0 = Some 42 /\ stack f' = []
  | _ => False
  end.
Proof. vm_compute. splits; reflexivity. Qed.

Example live_example_read :
  lx_run 21 (lx_prefix ++ [GlobalGet 0]) =
  match lx_run 20 lx_prefix with Normal s' f' => Normal s' (setstack Spec f' (42 :: stack f')) | o => o end.
Proof. reflexivity. Qed.   (* (vm_compute would normalise the functions inside [Spec] in the type [out Spec]) *)

(* the same through the theorem: its hypotheses hold here *)
Example live_example_by_theorem : forall s' f', lx_run 20 lx_prefix = Normal s' f' ->
  lx_run 21 (lx_prefix ++ [GlobalGet 0]) = Normal s' (setstack Spec f' (42 :: stack f')).
Proof.
  intros s' f' H.
  pose proof (live_frame_read_is_shared_value Spec no_host (fun _ => false) 400 20 1 1 lx_store lx_frame lx_prefix 0 2 0 0 s' f'
                (proj1 (proj2 (proj2 live_example_links))) H) as T.
  pose proof live_example_prefix as P. unfold lx_run in H, P. rewrite H in P. destruct P as (P1 & _). rewrite P1 in T. exact T.
Qed.

(* the whole call from the host: A.test() = 42 *)
Example live_example_call : snd (call_export Spec no_host (fun _ => false) 400 100 lx_store 1 []) = @RVals Spec [42].
Proof. reflexivity. Qed.

(* host re-entry: a host module first (function 0 re-enters function 0 of the instantiation number 2 = B.set);
   A' calls the host function where A called H.relay; B' imports A'.g only *)
Definition lxA' : modul :=
  Build_modul [([32], []); ([], [32])] [Build_import 0 0 (IFunc 0)] [Build_fdef 1 0 (lx_prefix ++ [GlobalGet 0])]
    None None [Build_gdef true 32 (CConst 32 1)] [(1000, EGlob 0); (1, EFunc 1)] [] [] None.
Definition lxB' : modul :=
  Build_modul [([32], [])] [Build_import 1 1000 (IGlobal true 32)] [Build_fdef 0 0 [LocalGet 0; GlobalSet 0]] None None [] [(0, EFunc 0)] [] [] None.
Definition lx_store_h : store Spec := ls (lx_inst (lx_inst (add_host_module empty_lstore [([32], [])]) lxA') lxB').
Definition lx_host : nat -> list Z -> hostres Z := live_host [(2%nat, 0%nat)] lx_store_h [None; Some 0%nat; Some 1%nat].

Example live_example_host_reenter :
  lx_host 0 [42] = HReenter 2 [42] /\
  snd (call_export Spec lx_host (fun _ => false) 400 100 lx_store_h 1 []) = @RVals Spec [42] /\
  match exec Spec lx_host (fun _ => false) 400 20 1 0 lx_store_h lx_frame lx_prefix with
  | Normal s' f' => glob_read Spec s' 1 0 = Some 42 /\ glob_read Spec s' 0 0 = Some 42
  | _ => False
  end.
Proof. splits; [reflexivity|reflexivity|]. vm_compute. splits; reflexivity. Qed.

(* memory: the callee grows the shared memory and stores into the new page; the live frame's memory.size and load see both *)
Definition lxM : modul :=      (* owner: memory 1 page (max 4); probe() = relay(); memory.size; load8 at 65536 *)
  Build_modul [([], []); ([], [32; 64])] [Build_import 0 0 (IFunc 0)]
    [Build_fdef 1 0 [Call 0; MemorySize; Const 32 65536; Load 64 8 false 0]]
    None (Some (1, true, 4, false)) [] [(2000, EMem 0); (1, EFunc 1)] [] [] None.
Definition lxH0 : modul :=     (* H: table of one slot, relay() = call_indirect slot 0 *)
  Build_modul [([], [])] [] [Build_fdef 0 0 [Const 32 0; CallIndirect 0]] (Some (1, false, 0)) None [] [(0, EFunc 0); (3000, ETab 0)] [] [] None.
Definition lxW : modul :=      (* writer: imports the memory and the table; grow 1; store 77 at 65536; slot 0 *)
  Build_modul [([], [])] [Build_import 1 2000 (IMem 1 true 4 false); Build_import 0 3000 (ITable 1 false 0 112)]
    [Build_fdef 0 0 [Const 32 1; MemoryGrow; Drop; Const 32 65536; Const 64 77; Store 8 0]] None None [] [(0, EFunc 0)]
    [(CConst 32 0, [Some 0%nat])] [] None.
Definition lx_store_m : store Spec := ls (lx_inst (lx_inst (lx_inst empty_lstore lxH0) lxM) lxW).

Example live_example_memory :
  shares_mem Spec lx_store_m 1 2 0 /\
  snd (call_export Spec no_host (fun _ => false) 400 100 lx_store_m 1 []) = @RVals Spec [2; 77].
Proof. unfold shares_mem. splits; reflexivity. Qed.
