(* Proofs about Sys/FsSlash.v (C16 part C, trailing-slash path arguments and descriptor-relative paths). *)
From Verif Require Import Lib.GoInt Gen.GenC16Wasip1 Sys.DescTable Proofs.DescTableP Sys.FsModel Proofs.FsModelP Sys.FsSlash.
From Coq Require Import ZifyBool.
Open Scope Z_scope.
Ltac Zify.zify_post_hook ::= Z.div_mod_to_equations.
Ltac splits := repeat match goal with |- _ /\ _ => split end.
Ltac case_all :=
  repeat match goal with
         | |- context [match ?x with _ => _ end] => destruct x eqn:?
         end.

(* ---------------------------------------------------------------- (a) the slash never adds behaviour *)
Lemma slash_refines s o t1 t2 :
  step_sl s o t1 t2 = step s o \/ exists e, step_sl s o t1 t2 = (s, OErr e).
Proof.
  unfold step_sl. destruct (slash_guard s o t1 t2) as [e|]; [right; exists e; reflexivity|left; reflexivity].
Qed.

Lemma slash_guard_noflags s o : slash_guard s o false false = None.
Proof. destruct o; reflexivity. Qed.

Lemma step_sl_noflags s o : step_sl s o false false = step s o.
Proof. unfold step_sl. rewrite slash_guard_noflags. reflexivity. Qed.

(* a failed call changes nothing, whatever made it fail (guard or model) — for the path operations *)
Lemma resolve_node_at t q n : resolve t q = RNode n -> node_at t q = Some n.
Proof.
  destruct q as [|x r].
  - cbn. intros H. inversion H. reflexivity.
  - intros H. cbn [node_at]. apply resolve_node; [discriminate|exact H].
Qed.

(* "dir/" behaves exactly like "dir" (for path_open: unless O_CREAT is given, which a trailing slash
   always refuses), and "missing/" exactly like "missing" *)
Lemma slash_dir_transparent :
  (forall s d p ofl fdf r t2 b, base s d = inr b ->
     (forall ino, resolve (s_tree s) (b ++ p) <> RNode (NFile ino)) -> bit ofl O_CREAT = false ->
     step_sl s (PathOpen d p ofl fdf r) true t2 = step s (PathOpen d p ofl fdf r)) /\
  (forall s d p t2 b, base s d = inr b -> (forall ino, resolve (s_tree s) (b ++ p) <> RNode (NFile ino)) ->
     step_sl s (Stat d p) true t2 = step s (Stat d p) /\ step_sl s (Unlink d p) true t2 = step s (Unlink d p)) /\
  (forall s d p t1 t2, step_sl s (Mkdir d p) t1 t2 = step s (Mkdir d p) /\ step_sl s (Rmdir d p) t1 t2 = step s (Rmdir d p)) /\
  (forall s d p d2 q t1 t2 b1 b2, base s d = inr b1 -> base s d2 = inr b2 ->
     resolve (s_tree s) (b1 ++ p) = RNode NDir -> resolve (s_tree s) (b2 ++ q) <> RNoent -> resolve (s_tree s) (b2 ++ q) <> RNotdir ->
     step_sl s (Rename d p d2 q) t1 t2 = step s (Rename d p d2 q)).
Proof.
  splits.
  - intros s d p ofl fdf r t2 b Hb Hnfile Hc. unfold step_sl. cbn [slash_guard]. unfold guard_open.
    rewrite Hb, Hc, andb_false_r. destruct (resolve (s_tree s) (b ++ p)) as [| |[|ino]|]; try reflexivity.
    exfalso. apply (Hnfile ino). reflexivity.
  - intros s d p t2 b Hb Hnfile. unfold step_sl. cbn [slash_guard]. unfold guard_file. rewrite Hb.
    destruct (resolve (s_tree s) (b ++ p)) as [| |[|ino]|]; try (split; reflexivity).
    exfalso. apply (Hnfile ino). reflexivity.
  - intros s d p t1 t2. split; reflexivity.
  - intros s d p d2 q t1 t2 b1 b2 Hb1 Hb2 Hra Hn1 Hn2. unfold step_sl. cbn [slash_guard].
    destruct (t1 || t2); [|reflexivity]. unfold guard_rename. rewrite Hb1, Hb2. cbn zeta.
    destruct (path_eqb (b1 ++ p) [] || path_eqb (b2 ++ q) []); [reflexivity|].
    destruct (t1 && t2 && path_eqb (b1 ++ p) (b2 ++ q)); [reflexivity|].
    rewrite Hra. destruct (resolve (s_tree s) (b2 ++ q)) as [| |n|]; try reflexivity; congruence.
Qed.

(* ---------------------------------------------------------------- (b) only directories *)
Lemma getfd_new s f e : s_fds s = f ->
  getfd (with_fds s (fset f (lowest_free f) e)) (lowest_free f) = Some e.
Proof.
  intros <-. rewrite getfd_with_fds, flookup_set, Z.eqb_refl.
  destruct (lowest_free_spec (s_fds s)) as (H0 & _).
  destruct (Z.ltb_spec (lowest_free (s_fds s)) 0); [lia|reflexivity].
Qed.

Lemma sl_open_only_dir s d p ofl fdf r t2 s' fd :
  step_sl s (PathOpen d p ofl fdf r) true t2 = (s', OFd fd) ->
  exists b, base s d = inr b /\ node_at (s_tree s) (b ++ p) = Some NDir /\
    s_tree s' = s_tree s /\ s_files s' = s_files s /\ s_next s' = s_next s /\
    exists e, getfd s' fd = Some e /\ fe_kind e = KDir (b ++ p).
Proof.
  unfold step_sl. cbn [slash_guard]. unfold guard_open.
  destruct (base s d) as [e|b] eqn:Hb.
  { cbn [step]. unfold path_open. rewrite Hb. discriminate. }
  cbn zeta. destruct (bit ofl O_DIRECTORY && bit ofl O_CREAT) eqn:Hdc.
  { cbn [step]. unfold path_open. rewrite Hb. cbn zeta. rewrite Hdc. discriminate. }
  destruct (resolve (s_tree s) (b ++ p)) as [| |[|ino]|] eqn:Hr.
  - cbn [step]. unfold path_open. rewrite Hb. cbn zeta. rewrite Hdc, Hr. case_all; discriminate.
  - cbn [step]. unfold path_open. rewrite Hb. cbn zeta. rewrite Hdc, Hr. case_all; discriminate.
  - destruct (bit ofl O_CREAT) eqn:Hc; [discriminate|].
    cbn [step]. unfold path_open. rewrite Hb. cbn zeta. rewrite Hc, ?andb_false_r, Hr. cbn [andb orb].
    intros H. exists b. split; [reflexivity|]. split; [apply resolve_node_at; exact Hr|].
    revert H. case_all; intros H; inversion H; subst; clear H;
      (splits; try reflexivity; eexists; split; [apply getfd_new; reflexivity|reflexivity]).
  - destruct (bit ofl O_CREAT); discriminate.
  - destruct (bit ofl O_CREAT) eqn:Hc; [discriminate|].
    cbn [step]. unfold path_open. rewrite Hb. cbn zeta. rewrite Hc, ?andb_false_r, Hr. case_all; discriminate.
Qed.

Lemma sl_stat_only_dir s d p t2 s' ft sz :
  step_sl s (Stat d p) true t2 = (s', OStat ft sz) ->
  s' = s /\ ft = FILETYPE_DIRECTORY /\ exists b, base s d = inr b /\ node_at (s_tree s) (b ++ p) = Some NDir.
Proof.
  unfold step_sl. cbn [slash_guard]. unfold guard_file.
  destruct (base s d) as [e|b] eqn:Hb.
  { cbn [step]. unfold stat, with_base. rewrite Hb. discriminate. }
  destruct (resolve (s_tree s) (b ++ p)) as [| |[|ino]|] eqn:Hr; try discriminate;
    cbn [step]; unfold stat, with_base; rewrite Hb, Hr; try discriminate.
  intros H. inversion H; subst. splits; try reflexivity. exists b. split; [reflexivity|].
  apply resolve_node_at. exact Hr.
Qed.

Lemma sl_unlink_never s d p t2 : snd (step_sl s (Unlink d p) true t2) <> OOk.
Proof.
  unfold step_sl. cbn [slash_guard]. unfold guard_file.
  destruct (base s d) as [e|b] eqn:Hb.
  { cbn [step]. unfold unlink, with_base_ne. rewrite Hb. discriminate. }
  destruct (resolve (s_tree s) (b ++ p)) as [| |[|ino]|] eqn:Hr; try discriminate;
    cbn [step]; unfold unlink, with_base_ne; rewrite Hb; destruct (b ++ p) eqn:Hfull; try discriminate;
    rewrite Hr; discriminate.
Qed.

Lemma sl_mkdir_dir s d p t1 t2 s' : step_sl s (Mkdir d p) t1 t2 = (s', OOk) ->
  exists b, base s d = inr b /\ tlookup (s_tree s) (b ++ p) = None /\ tlookup (s_tree s') (b ++ p) = Some NDir.
Proof.
  unfold step_sl. cbn [slash_guard step]. intros H.
  destruct (mkdir_visible s d p s' H) as (_ & (b & Hb & Ht & Hnone) & _).
  exists b. splits; auto. rewrite Ht. cbn [tlookup]. rewrite path_eqb_refl. reflexivity.
Qed.

Lemma sl_rmdir_dir s d p t1 t2 s' : step_sl s (Rmdir d p) t1 t2 = (s', OOk) ->
  exists b, base s d = inr b /\ tlookup (s_tree s) (b ++ p) = Some NDir.
Proof.
  unfold step_sl. cbn [slash_guard step]. unfold rmdir, with_base_ne.
  destruct (base s d) as [e|b] eqn:Hb; [discriminate|].
  destruct (b ++ p) as [|x r] eqn:Hfull; [discriminate|].
  destruct (resolve (s_tree s) (x :: r)) as [| |[|ino]|] eqn:Hr; try discriminate.
  intros _. exists b. split; [reflexivity|]. rewrite Hfull. apply resolve_node; [discriminate|exact Hr].
Qed.

Lemma sl_rename_only_dir s d p d2 q t1 t2 s' : t1 || t2 = true ->
  step_sl s (Rename d p d2 q) t1 t2 = (s', OOk) ->
  exists b1 b2, base s d = inr b1 /\ base s d2 = inr b2 /\
    ((t1 = true /\ t2 = true /\ b1 ++ p = b2 ++ q /\ s' = s) \/ tlookup (s_tree s) (b1 ++ p) = Some NDir).
Proof.
  intros Ht. unfold step_sl. cbn [slash_guard]. rewrite Ht. unfold guard_rename.
  destruct (base s d) as [e|b1] eqn:Hb1.
  { cbn [step]. unfold rename. rewrite Hb1. discriminate. }
  destruct (base s d2) as [e|b2] eqn:Hb2.
  { cbn [step]. unfold rename. rewrite Hb1, Hb2. discriminate. }
  cbn zeta. intros H. exists b1, b2. split; [reflexivity|]. split; [reflexivity|]. revert H.
  destruct (path_eqb (b1 ++ p) [] || path_eqb (b2 ++ q) []) eqn:Hnil.
  { cbn [step]. unfold rename. rewrite Hb1, Hb2. cbn zeta. rewrite Hnil. discriminate. }
  destruct (t1 && t2 && path_eqb (b1 ++ p) (b2 ++ q)) eqn:Hsame.
  { apply andb_prop in Hsame. destruct Hsame as [H12 Heq]. apply andb_prop in H12. destruct H12 as [-> ->].
    cbn [step]. unfold rename. rewrite Hb1, Hb2. cbn zeta. rewrite Hnil, Heq. intros H. inversion H.
    left. splits; auto. destruct (path_eqb_spec (b1 ++ p) (b2 ++ q)); [assumption|discriminate]. }
  apply orb_false_elim in Hnil. destruct Hnil as [Hna _].
  assert (Hne : b1 ++ p <> []) by (intros E; rewrite E in Hna; discriminate).
  destruct (resolve (s_tree s) (b1 ++ p)) as [| |[|ino]|] eqn:Hra; try discriminate.
  - intros _. right. apply resolve_node; assumption.
  - destruct (resolve (s_tree s) (b2 ++ q)); discriminate.
  - destruct (resolve (s_tree s) (b2 ++ q)); discriminate.
Qed.

(* ---------------------------------------------------------------- (c) descriptor-relative = prefixing *)
Definition fullp (s : st) (d : Z) (p : path) : Z + path :=
  match base s d with inl e => inl e | inr b => inr (b ++ p) end.

Lemma via_fullp s d0 e0 d p : getfd s d0 = Some e0 -> fe_kind e0 = KPre ->
  fullp s (fst (via s d0 d p)) (snd (via s d0 d p)) = fullp s d p.
Proof.
  intros H0 Hk. unfold via. destruct (getfd s d) as [e|] eqn:Hd; [|reflexivity].
  destruct (fe_kind e) as [ino|name| |] eqn:Hke; try reflexivity.
  cbn [fst snd]. unfold fullp, base. rewrite H0, Hk, Hd, Hke. reflexivity.
Qed.

Ltac fullp_inv H :=
  unfold fullp in H;
  repeat match type of H with context [base ?s ?d] => destruct (base s d) eqn:? end;
  inversion H; subst; clear H.

Lemma path_open_fullp s d p d' p' ofl fdf r : fullp s d' p' = fullp s d p ->
  path_open s d' p' ofl fdf r = path_open s d p ofl fdf r.
Proof.
  intros H. unfold path_open. fullp_inv H; [reflexivity|]. cbn zeta.
  match goal with E : _ ++ _ = _ ++ _ |- _ => rewrite E end. reflexivity.
Qed.
Lemma with_base_fullp s d p d' p' k : fullp s d' p' = fullp s d p -> with_base s d' p' k = with_base s d p k.
Proof.
  intros H. unfold with_base. fullp_inv H; [reflexivity|].
  match goal with E : _ ++ _ = _ ++ _ |- _ => rewrite E end. reflexivity.
Qed.
Lemma with_base_ne_fullp s d p d' p' k : fullp s d' p' = fullp s d p -> with_base_ne s d' p' k = with_base_ne s d p k.
Proof.
  intros H. unfold with_base_ne. fullp_inv H; [reflexivity|].
  match goal with E : _ ++ _ = _ ++ _ |- _ => rewrite E end. reflexivity.
Qed.
Lemma rename_fullp s d p d2 q d' p' d2' q' : fullp s d' p' = fullp s d p -> fullp s d2' q' = fullp s d2 q ->
  rename s d' p' d2' q' = rename s d p d2 q.
Proof.
  intros H H2. unfold rename, fullp in *.
  destruct (base s d'), (base s d); inversion H; subst; clear H; try reflexivity.
  destruct (base s d2'), (base s d2); inversion H2; subst; clear H2; try reflexivity.
Qed.
Lemma guard_open_fullp s d p d' p' ofl : fullp s d' p' = fullp s d p -> guard_open s d' p' ofl = guard_open s d p ofl.
Proof.
  intros H. unfold guard_open. fullp_inv H; [reflexivity|]. cbn zeta.
  match goal with E : _ ++ _ = _ ++ _ |- _ => rewrite E end. reflexivity.
Qed.
Lemma guard_file_fullp s d p d' p' : fullp s d' p' = fullp s d p -> guard_file s d' p' = guard_file s d p.
Proof.
  intros H. unfold guard_file. fullp_inv H; [reflexivity|].
  match goal with E : _ ++ _ = _ ++ _ |- _ => rewrite E end. reflexivity.
Qed.
Lemma guard_rename_fullp s d p d2 q d' p' d2' q' t1 t2 : fullp s d' p' = fullp s d p -> fullp s d2' q' = fullp s d2 q ->
  guard_rename s d' p' d2' q' t1 t2 = guard_rename s d p d2 q t1 t2.
Proof.
  intros H H2. unfold guard_rename, fullp in *.
  destruct (base s d'), (base s d); inversion H; subst; clear H; try reflexivity.
  destruct (base s d2'), (base s d2); inversion H2; subst; clear H2; try reflexivity.
Qed.

(* every path argument given through a directory descriptor opened as [name] may be spelled
   [name ++ p] through the pre-open instead: same result, same next state, same slash behaviour *)
Lemma dirfd_relative s d0 e0 o t1 t2 : getfd s d0 = Some e0 -> fe_kind e0 = KPre ->
  step_sl s (via_op s d0 o) t1 t2 = step_sl s o t1 t2.
Proof.
  intros H0 Hk. pose proof (fun d p => via_fullp s d0 e0 d p H0 Hk) as V.
  destruct o as [d p ofl fdf r|x|a b|x lens|x ch|x lens off|x ch off|x off wh|x|x sz|x|d p|d p|d p|d p d2 q|d p];
    cbn [via_op]; try reflexivity.
  - specialize (V d p). destruct (via s d0 d p) as [d' p']. cbn [fst snd] in V.
    unfold step_sl. cbn [slash_guard step]. rewrite (guard_open_fullp _ _ _ _ _ _ V), (path_open_fullp _ _ _ _ _ _ _ _ V). reflexivity.
  - specialize (V d p). destruct (via s d0 d p) as [d' p']. cbn [fst snd] in V.
    unfold step_sl. cbn [slash_guard step]. unfold mkdir. rewrite (with_base_ne_fullp _ _ _ _ _ _ V). reflexivity.
  - specialize (V d p). destruct (via s d0 d p) as [d' p']. cbn [fst snd] in V.
    unfold step_sl. cbn [slash_guard step]. unfold rmdir. rewrite (with_base_ne_fullp _ _ _ _ _ _ V). reflexivity.
  - specialize (V d p). destruct (via s d0 d p) as [d' p']. cbn [fst snd] in V.
    unfold step_sl. cbn [slash_guard step]. unfold unlink. rewrite (guard_file_fullp _ _ _ _ _ V), (with_base_ne_fullp _ _ _ _ _ _ V). reflexivity.
  - pose proof (V d p) as V1. pose proof (V d2 q) as V2.
    destruct (via s d0 d p) as [d' p']. destruct (via s d0 d2 q) as [d2' q']. cbn [fst snd] in V1, V2.
    unfold step_sl. cbn [slash_guard step].
    rewrite (guard_rename_fullp _ _ _ _ _ _ _ _ _ t1 t2 V1 V2), (rename_fullp _ _ _ _ _ _ _ _ _ V1 V2). reflexivity.
  - specialize (V d p). destruct (via s d0 d p) as [d' p']. cbn [fst snd] in V.
    unfold step_sl. cbn [slash_guard step]. unfold stat. rewrite (guard_file_fullp _ _ _ _ _ V), (with_base_fullp _ _ _ _ _ _ V). reflexivity.
Qed.

(* the explicit single-argument form: descriptor d opened as [name], pre-open d0 *)
Lemma dirfd_relative_explicit s d0 e0 d e name : getfd s d0 = Some e0 -> fe_kind e0 = KPre ->
  getfd s d = Some e -> fe_kind e = KDir name ->
  forall p t1 t2,
    (forall ofl fdf r, step_sl s (PathOpen d p ofl fdf r) t1 t2 = step_sl s (PathOpen d0 (name ++ p) ofl fdf r) t1 t2) /\
    step_sl s (Mkdir d p) t1 t2 = step_sl s (Mkdir d0 (name ++ p)) t1 t2 /\
    step_sl s (Rmdir d p) t1 t2 = step_sl s (Rmdir d0 (name ++ p)) t1 t2 /\
    step_sl s (Unlink d p) t1 t2 = step_sl s (Unlink d0 (name ++ p)) t1 t2 /\
    step_sl s (Stat d p) t1 t2 = step_sl s (Stat d0 (name ++ p)) t1 t2 /\
    (forall q, step_sl s (Rename d p d q) t1 t2 = step_sl s (Rename d0 (name ++ p) d0 (name ++ q)) t1 t2).
Proof.
  intros H0 Hk Hd Hke p t1 t2.
  assert (V : forall p, via s d0 d p = (d0, name ++ p)) by (intros; unfold via; rewrite Hd, Hke; reflexivity).
  splits; intros;
    match goal with |- step_sl s ?o _ _ = _ => rewrite <- (dirfd_relative s d0 e0 o t1 t2 H0 Hk) end;
    cbn [via_op]; rewrite ?V; reflexivity.
Qed.

(* ---------------------------------------------------------------- (d) reachable states *)
Lemma final_run ops : forall s, final s ops = fst (run s ops).
Proof.
  unfold final. induction ops as [|o r IH]; intros s; cbn [fold_left run]; [reflexivity|].
  rewrite IH. destruct (step s o) as [s1 x]. cbn [fst]. destruct (run s1 r). reflexivity.
Qed.
Lemma final_sl_run l : forall s, final_sl s l = fst (run_sl s l).
Proof.
  unfold final_sl. induction l as [|x r IH]; intros s; cbn [fold_left run_sl]; [reflexivity|].
  rewrite IH. destruct (step_sop s x) as [s1 y]. cbn [fst]. destruct (run_sl s1 r). reflexivity.
Qed.

Lemma run_sl_accepted l : forall s,
  fst (run_sl s l) = fst (run s (accepted s l)) /\
  accepted_obs s l (snd (run_sl s l)) = snd (run s (accepted s l)).
Proof.
  induction l as [|[[o t1] t2] r IH]; intros s; cbn [run_sl accepted accepted_obs step_sop]; [split; reflexivity|].
  unfold step_sl. destruct (slash_guard s o t1 t2) as [e|] eqn:Hg.
  - destruct (IH s) as [I1 I2]. destruct (run_sl s r) as [s2 ys]. cbn [fst snd] in *.
    cbn [accepted_obs]. rewrite ?Hg. split; assumption.
  - cbn [run]. destruct (step s o) as [s1 y] eqn:Hs. cbn [fst].
    destruct (IH s1) as [I1 I2]. destruct (run_sl s1 r) as [s2 ys]. cbn [fst snd] in *.
    cbn [accepted_obs]. rewrite ?Hg, ?Hs. cbn [fst].
    destruct (run s1 (accepted s1 r)) as [s3 zs]. cbn [fst snd] in *. split; [assumption|]. f_equal. assumption.
Qed.

Lemma reachable_sl l s : final_sl s l = final s (accepted s l).
Proof. rewrite final_sl_run, final_run. apply run_sl_accepted. Qed.

(* without flags run_sl is run: a conservative extension *)
Lemma run_sl_noflags ops : forall s, run_sl s (map (fun o => (o, false, false)) ops) = run s ops.
Proof.
  induction ops as [|o r IH]; intros s; cbn [map run_sl run step_sop]; [reflexivity|].
  rewrite step_sl_noflags. destruct (step s o) as [s1 x]. rewrite IH. reflexivity.
Qed.
Lemma accepted_sub l : forall s, (length (accepted s l) <= length l)%nat.
Proof.
  induction l as [|[[o t1] t2] r IH]; intros s; cbn [accepted length]; [lia|].
  destruct (slash_guard s o t1 t2); [specialize (IH s)|specialize (IH (fst (step s o)))]; cbn [length]; lia.
Qed.

(* so every invariant of the states reachable by [run] holds after [run_sl]; e.g. well-formedness *)
Lemma reachable_sl_wf l : wf_tree (s_tree (final_sl st_init l)).
Proof. rewrite reachable_sl. apply reachable_wf. apply wf_init. Qed.

(* ---------------------------------------------------------------- non-vacuity *)
(* names: a=0 b=1 c=2 d=3.  d/a is a file; descriptor 5 is the directory d opened as "d/". *)
Definition ex_ops : list sop :=
  [ (Mkdir 3 [3], false, false); (PathOpen 3 [3; 0] 1 0 66, false, false); (FdWrite 4 [[7; 8]], false, false);
    (PathOpen 3 [3] 2 0 2, true, false);           (* "d/" with O_DIRECTORY: descriptor 5 *)
    (Stat 5 [0], true, false);                     (* (5, "a/"): ENOTDIR *)
    (PathOpen 5 [0] 8 0 66, true, false);          (* (5, "a/") with O_TRUNC: ENOTDIR, nothing truncated *)
    (Unlink 5 [0], true, false);                   (* (5, "a/"): ENOTDIR, the file stays *)
    (Stat 3 [3; 0], false, false);                 (* still there, still 2 bytes *)
    (PathOpen 5 [1] 1 0 66, true, false);          (* (5, "b/") with O_CREAT: EISDIR *)
    (Stat 5 [1], false, false);                    (* nothing was created *)
    (Mkdir 5 [2], true, false);                    (* (5, "c/"): created *)
    (Stat 5 [2], true, false);                     (* (5, "c/"): a directory *)
    (Rename 5 [0] 5 [2; 0], false, true);          (* file to "c/a/": ENOTDIR *)
    (Rename 5 [2] 5 [1], true, true);              (* "c/" to "b/": fine, a directory *)
    (Rename 5 [0] 5 [0], true, true);              (* wazero: identical names short-cut to success *)
    (Rename 5 [0] 5 [0], true, false);             (* "a/" to "a": ENOTDIR *)
    (Stat 3 [3; 1], true, false); (Unlink 3 [3; 0], false, false); (Stat 5 [0], true, false) ].

Example ex_run :
  snd (run_sl st_init ex_ops) =
  [ OOk; OFd 4; ONum 2; OFd 5; OErr ErrnoNotdir; OErr ErrnoNotdir; OErr ErrnoNotdir; OStat 4 2; OErr ErrnoIsdir;
    OErr ErrnoNoent; OOk; OStat 3 0; OErr ErrnoNotdir; OOk; OOk; OErr ErrnoNotdir; OStat 3 0; OOk; OErr ErrnoNoent ].
Proof. vm_compute. reflexivity. Qed.

(* the calls the guard let through; the final state is the one [run] reaches on them (reachable_sl) *)
Example ex_accepted :
  accepted st_init ex_ops =
  [ Mkdir 3 [3]; PathOpen 3 [3; 0] 1 0 66; FdWrite 4 [[7; 8]]; PathOpen 3 [3] 2 0 2; Stat 3 [3; 0]; Stat 5 [1];
    Mkdir 5 [2]; Stat 5 [2]; Rename 5 [2] 5 [1]; Rename 5 [0] 5 [0]; Stat 3 [3; 1]; Unlink 3 [3; 0]; Stat 5 [0] ] /\
  model_tree (final_sl st_init ex_ops) = [([3; 1], None); ([3], None)].
Proof. split; vm_compute; reflexivity. Qed.

(* hypotheses of dirfd_relative_explicit / sl_*_only_dir are satisfiable in a reachable state:
   after the first 11 calls descriptor 3 is the pre-open, 5 is the directory [3], [3;0] is a 2-byte file
   and [3;2] a directory *)
Definition ex_s11 : st := final_sl st_init (firstn 11 ex_ops).
Example ex_hyps :
  (exists e0 e, getfd ex_s11 3 = Some e0 /\ fe_kind e0 = KPre /\ getfd ex_s11 5 = Some e /\ fe_kind e = KDir [3]) /\
  step_sl ex_s11 (Stat 5 [0]) true false = (ex_s11, OErr ErrnoNotdir) /\
  step_sl ex_s11 (Stat 3 [3; 0]) true false = (ex_s11, OErr ErrnoNotdir) /\
  step_sl ex_s11 (Stat 5 [0]) false false = (ex_s11, OStat FILETYPE_REGULAR_FILE 2) /\
  step_sl ex_s11 (Stat 5 [2]) true false = (ex_s11, OStat FILETYPE_DIRECTORY 0) /\
  snd (step_sl ex_s11 (PathOpen 5 [2] 2 0 2) true false) = OFd 6 /\
  snd (step_sl ex_s11 (PathOpen 3 [3; 2] 2 0 2) true false) = OFd 6 /\
  snd (step_sl ex_s11 (Rename 5 [2] 3 [1]) true true) = OOk /\
  snd (step_sl ex_s11 (Unlink 5 [0]) false false) = OOk.
Proof.
  split; [eexists; eexists; splits; try (vm_compute; reflexivity); reflexivity|].
  splits; vm_compute; reflexivity.
Qed.
