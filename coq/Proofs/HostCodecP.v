(* Proofs about Engine/HostCodec.v (C08). The integer api helpers come from Gen.GenApi, regenerated from
   api/wasm.go on every run: changing a width or a conversion there re-opens these proofs. *)
From Verif Require Import Lib.GoInt Gen.GenApi Engine.HostCodec.
From Coq Require Import ZifyBool.
Open Scope Z_scope.
Ltac Zify.zify_post_hook ::= Z.div_mod_to_equations.

Ltac splits := repeat match goal with |- _ /\ _ => split end.
Ltac case_ifs := repeat match goal with
  | |- context [if ?c then _ else _] => let E := fresh "E" in destruct c eqn:E
  | H : context [if ?c then _ else _] |- _ => let E := fresh "E" in destruct c eqn:E
  end.

Ltac codec_unfold :=
  cbv [encode decode refl_param refl_result api_encode api_decode view slot_wf slot_bits type_of go_wf
       EncodeI32 DecodeI32 EncodeU32 DecodeU32 EncodeI64 EncodeExternref DecodeExternref
       f32_via_f64 is_nan32 is_snan32 quiet32 f32_qbit f32_exp f32_frac] in *.

(* ---------------------------------------------------------------- binary32 bit patterns *)
Lemma f32_qbit_testbit b : 0 <= b -> f32_qbit b = Z.testbit b 22.
Proof.
  intros Hb. unfold f32_qbit. rewrite <- (Z.add_0_l 22) at 2. rewrite <- Z.div_pow2_bits by lia.
  rewrite Z.bit0_odd. rewrite Zodd_mod.
  destruct (Z.eqb_spec ((b / 2 ^ 22) mod 2) 1) as [E|E]; rewrite ?E; [reflexivity|].
  destruct (Zeq_bool ((b / 2 ^ 22) mod 2) 1) eqn:Z1; [|reflexivity]. apply Zeq_bool_eq in Z1. contradiction.
Qed.

(* the arithmetic definition of quiet32 is "set bit 22" *)
Lemma quiet32_lor b : 0 <= b -> quiet32 b = Z.lor b 4194304.
Proof.
  intros Hb. unfold quiet32. rewrite f32_qbit_testbit by assumption. change 4194304 with (2 ^ 22).
  destruct (Z.testbit b 22) eqn:Hq.
  - apply Z.bits_inj'. intros n Hn. rewrite Z.lor_spec, Z.pow2_bits_eqb by lia.
    destruct (Z.eqb_spec 22 n) as [<-|]; [rewrite Hq; reflexivity|rewrite orb_false_r; reflexivity].
  - assert (L : Z.land b (2 ^ 22) = 0); [|rewrite Z.add_nocarry_lxor by exact L; apply Z.lxor_lor; exact L].
    apply Z.bits_inj'. intros n Hn. rewrite Z.land_spec, Z.pow2_bits_eqb, Z.bits_0 by lia.
    destruct (Z.eqb_spec 22 n) as [<-|]; [rewrite Hq; reflexivity|apply andb_false_r].
Qed.

Lemma f32_via_f64_range b : in_u 32 b -> in_u 32 (f32_via_f64 b).
Proof. unfold in_u. codec_unfold. intros H. case_ifs; lia. Qed.

Lemma f32_via_f64_fix b : in_u 32 b -> is_snan32 b = false -> f32_via_f64 b = b.
Proof. unfold in_u. codec_unfold. intros H. case_ifs; lia. Qed.

Lemma f32_via_f64_idem b : in_u 32 b -> f32_via_f64 (f32_via_f64 b) = f32_via_f64 b.
Proof. unfold in_u. codec_unfold. intros H. case_ifs; lia. Qed.

(* a signalling NaN comes back as the quiet NaN with the same sign and payload: never unchanged *)
Lemma f32_via_f64_snan b : in_u 32 b -> is_snan32 b = true ->
  f32_via_f64 b = b + 4194304 /\ f32_via_f64 b <> b /\ is_nan32 (f32_via_f64 b) = true /\ is_snan32 (f32_via_f64 b) = false.
Proof. unfold in_u. codec_unfold. intros H. case_ifs; lia. Qed.

(* ---------------------------------------------------------------- round trips *)
(* host -> guest -> host and (read right to left) any mix of the reflective and the stack-based forms,
   every kind - float32 included, for ALL bit patterns (F07 repaired) *)
Lemma roundtrip st st' k v : go_wf k v -> decode st k (encode st' k v) = v.
Proof. intros Hw. destruct k, st, st'; codec_unfold; goint_unfold; lia. Qed.

(* guest -> host -> guest: the echo direction, on well-formed slots *)
Lemma roundtrip_slot st st' k s : slot_wf (type_of k) s -> encode st' k (decode st k s) = s.
Proof. intros Hw. destruct k, st, st'; codec_unfold; goint_unfold; lia. Qed.

(* regression (F07): the float64 round trip callGoFunc performed before the repair turned the signalling NaN
   0x7fa00000 into 0x7fe00000 - and every signalling NaN into the quiet NaN with the same sign and payload - while
   the current model (and code) passes it unchanged in both directions *)
Example C08_snan_quieted_before_fix :
  is_snan32 2141192192 = true /\ f32_via_f64 2141192192 = 2145386496 /\
  (forall v, in_u 32 v -> is_snan32 v = true -> f32_via_f64 v = v + 4194304 /\ f32_via_f64 v <> v) /\
  (forall v, in_u 32 v -> is_snan32 v = false -> f32_via_f64 v = v) /\
  decode Refl KF32 2141192192 = 2141192192 /\ encode Refl KF32 2141192192 = 2141192192.
Proof.
  split; [vm_compute; reflexivity|]. split; [vm_compute; reflexivity|].
  split; [intros v Hv Hs; pose proof (f32_via_f64_snan v Hv Hs) as (A & B & _); auto|].
  split; [exact f32_via_f64_fix|].
  split; vm_compute; reflexivity.
Qed.

(* ---------------------------------------------------------------- slots *)
Lemma encode_slot_wf st k v : go_wf k v -> slot_wf (type_of k) (encode st k v).
Proof. intros Hw. destruct st, k; codec_unfold; goint_unfold; lia. Qed.

(* the amd64 trampoline stores only the low half of a 32-bit argument into the Go slice: whatever the
   upper half holds, both decoders ignore it *)
Lemma decode_low_bits st k s h : slot_bits (type_of k) = 32 -> 0 <= s < 2 ^ 32 -> 0 <= h < 2 ^ 32 ->
  decode st k (s + h * 2 ^ 32) = decode st k s.
Proof.
  intros Hk Hs Hh. destruct k; cbn in Hk; try discriminate; destruct st;
  cbn [decode refl_param api_decode DecodeU32 DecodeI32]; unfold DecodeU32, DecodeI32;
  try (f_equal; goint_unfold; lia); goint_unfold; lia.
Qed.

(* what the guest reads back from a host result is the host's value in its canonical representation *)
Lemma view_encode st k v : go_wf k v -> view (type_of k) (encode st k v) = encode st k v.
Proof.
  intros Hw. pose proof (encode_slot_wf st k v Hw) as H. unfold view, slot_wf in *. apply wrap_small. exact H.
Qed.

(* ---------------------------------------------------------------- ABI *)
Definition loc_ok (ints floats : list Z) (lo hi : Z) (x : loc) : Prop :=
  match x with
  | LReg r => In r ints \/ In r floats
  | LStack o s => lo <= o /\ 0 < s /\ o + s <= hi
  end.

Lemma loc_ok_weaken ints floats ints' floats' lo lo' hi x :
  incl ints' ints -> incl floats' floats -> lo <= lo' ->
  loc_ok ints' floats' lo' hi x -> loc_ok ints floats lo hi x.
Proof.
  intros Hi Hf Hl. destruct x as [r|o s]; cbn.
  - intros [H|H]; [left; apply Hi|right; apply Hf]; exact H.
  - lia.
Qed.

Lemma stack_size_pos t : 0 < stack_size t.
Proof. destruct t; cbn; lia. Qed.

Lemma set_abi_args_ok ts : forall ints floats off,
  off <= snd (set_abi_args ints floats off ts) /\
  Forall (loc_ok ints floats off (snd (set_abi_args ints floats off ts))) (fst (set_abi_args ints floats off ts)) /\
  length (fst (set_abi_args ints floats off ts)) = length ts.
Proof.
  induction ts as [|t r IH]; intros ints floats off; cbn [set_abi_args].
  - cbn. splits; [lia|constructor|reflexivity].
  - pose proof (stack_size_pos t) as Hp.
    destruct (is_int t).
    + destruct ints as [|x ints'].
      * specialize (IH [] floats (off + 8)). destruct (set_abi_args [] floats (off + 8) r) as [l o]. cbn [fst snd length] in *.
        destruct IH as (A & B & C). splits; [lia| |lia].
        constructor; [cbn; lia|]. eapply Forall_impl; [|exact B]. intros a. apply loc_ok_weaken; auto using incl_refl. lia.
      * specialize (IH ints' floats off). destruct (set_abi_args ints' floats off r) as [l o]. cbn [fst snd length] in *.
        destruct IH as (A & B & C). splits; [lia| |lia].
        constructor; [cbn; auto|]. eapply Forall_impl; [|exact B]. intros a.
        apply loc_ok_weaken; auto using incl_refl, incl_tl. lia.
    + destruct floats as [|x floats'].
      * specialize (IH ints [] (off + stack_size t)). destruct (set_abi_args ints [] (off + stack_size t) r) as [l o].
        cbn [fst snd length] in *. destruct IH as (A & B & C). splits; [lia| |lia].
        constructor; [cbn; lia|]. eapply Forall_impl; [|exact B]. intros a. apply loc_ok_weaken; auto using incl_refl. lia.
      * specialize (IH ints floats' off). destruct (set_abi_args ints floats' off r) as [l o]. cbn [fst snd length] in *.
        destruct IH as (A & B & C). splits; [lia| |lia].
        constructor; [cbn; auto|]. eapply Forall_impl; [|exact B]. intros a.
        apply loc_ok_weaken; auto using incl_refl, incl_tl. lia.
Qed.

Lemma reg_fresh ints floats lo hi x l :
  ~ In x ints -> ~ In x floats -> Forall (loc_ok ints floats lo hi) l -> Forall (loc_disjoint (LReg x)) l.
Proof.
  intros Hi Hf H. eapply Forall_impl; [|exact H]. intros [r|o s]; cbn; [|auto].
  intros [A|A] ->; contradiction.
Qed.

Lemma stack_fresh ints floats off sz hi l :
  Forall (loc_ok ints floats (off + sz) hi) l -> Forall (loc_disjoint (LStack off sz)) l.
Proof.
  intros H. eapply Forall_impl; [|exact H]. intros [r|o s]; cbn; [auto|]. lia.
Qed.

Lemma set_abi_args_disjoint ts : forall ints floats off, NoDup (ints ++ floats) ->
  ForallOrdPairs loc_disjoint (fst (set_abi_args ints floats off ts)).
Proof.
  induction ts as [|t r IH]; intros ints floats off Hnd; cbn [set_abi_args].
  - cbn. constructor.
  - destruct (is_int t).
    + destruct ints as [|x ints'].
      * pose proof (set_abi_args_ok r [] floats (off + 8)) as (_ & B & _). specialize (IH [] floats (off + 8) Hnd).
        destruct (set_abi_args [] floats (off + 8) r) as [l o]. cbn [fst snd] in *.
        constructor; [|exact IH]. eapply stack_fresh; exact B.
      * cbn [app] in Hnd. inversion Hnd as [|y ys Hx Hnd']; subst.
        pose proof (set_abi_args_ok r ints' floats off) as (_ & B & _). specialize (IH ints' floats off Hnd').
        destruct (set_abi_args ints' floats off r) as [l o]. cbn [fst snd] in *.
        constructor; [|exact IH]. eapply reg_fresh; [| |exact B]; intros Hin; apply Hx; apply in_or_app; auto.
    + destruct floats as [|x floats'].
      * pose proof (set_abi_args_ok r ints [] (off + stack_size t)) as (_ & B & _). specialize (IH ints [] (off + stack_size t) Hnd).
        destruct (set_abi_args ints [] (off + stack_size t) r) as [l o]. cbn [fst snd] in *.
        constructor; [|exact IH]. eapply stack_fresh; exact B.
      * pose proof (NoDup_remove_1 _ _ _ Hnd) as Hnd'. pose proof (NoDup_remove_2 _ _ _ Hnd) as Hx.
        pose proof (set_abi_args_ok r ints floats' off) as (_ & B & _). specialize (IH ints floats' off Hnd').
        destruct (set_abi_args ints floats' off r) as [l o]. cbn [fst snd] in *.
        constructor; [|exact IH]. eapply reg_fresh; [| |exact B]; intros Hin; apply Hx; apply in_or_app; auto.
Qed.

Lemma loc_disjoint_sym a b : loc_disjoint a b -> loc_disjoint b a.
Proof. destruct a, b; cbn; auto; lia. Qed.

Lemma ordpairs_nth (l : list loc) : ForallOrdPairs loc_disjoint l ->
  forall i j a b, i <> j -> nth_error l i = Some a -> nth_error l j = Some b -> loc_disjoint a b.
Proof.
  induction 1 as [|x l Hx Hl IH]; intros i j a b Hij Ha Hb.
  - destruct i; discriminate.
  - rewrite Forall_forall in Hx. destruct i as [|i], j as [|j]; cbn in Ha, Hb.
    + congruence.
    + inversion Ha; subst. apply Hx. eapply nth_error_In; exact Hb.
    + inversion Hb; subst. apply loc_disjoint_sym. apply Hx. eapply nth_error_In; exact Ha.
    + eapply IH; [|exact Ha|exact Hb]. congruence.
Qed.

Definition pairwise_disjoint (l : list loc) : Prop :=
  forall i j a b, i <> j -> nth_error l i = Some a -> nth_error l j = Some b -> loc_disjoint a b.

Lemma regs_nodup : NoDup (int_regs ++ float_regs).
Proof.
  cbn. repeat (constructor; [cbn; intros H; repeat (destruct H as [H|H]; [discriminate H|]); exact H|]). constructor.
Qed.

(* for every wasm signature, of any arity:
   - distinct parameters (the two context pointers included) get pairwise disjoint locations, distinct results likewise;
   - the context pointers sit in rax and rbx, so no wasm parameter is ever assigned those;
   - stack slots lie inside the argument (resp. result) area whose size Init reports; the two areas are laid out
     one after the other, so an argument slot never overlaps a result slot;
   - exactly one location per parameter and per result *)
Lemma abi_assign_disjoint p r :
  let a := abi_assign p r in
  pairwise_disjoint (a_args a) /\ pairwise_disjoint (a_rets a) /\
  nth_error (a_args a) 0 = Some (LReg 1) /\ nth_error (a_args a) 1 = Some (LReg 4) /\
  Forall (loc_ok int_regs float_regs 0 (a_argstack a)) (a_args a) /\
  Forall (loc_ok int_regs float_regs 0 (a_retstack a)) (a_rets a) /\
  length (a_args a) = (2 + length p)%nat /\ length (a_rets a) = length r.
Proof.
  cbv zeta. unfold abi_assign, abi_init, sig_params.
  pose proof (set_abi_args_disjoint (map ssa_of r) int_regs float_regs 0 regs_nodup) as Dr.
  pose proof (set_abi_args_ok (map ssa_of r) int_regs float_regs 0) as (_ & Br & Lr).
  pose proof (set_abi_args_disjoint (SI64 :: SI64 :: map ssa_of p) int_regs float_regs 0 regs_nodup) as Dp.
  pose proof (set_abi_args_ok (SI64 :: SI64 :: map ssa_of p) int_regs float_regs 0) as (_ & Bp & Lp).
  assert (H0 : nth_error (fst (set_abi_args int_regs float_regs 0 (SI64 :: SI64 :: map ssa_of p))) 0 = Some (LReg 1) /\
               nth_error (fst (set_abi_args int_regs float_regs 0 (SI64 :: SI64 :: map ssa_of p))) 1 = Some (LReg 4)).
  { unfold int_regs. cbn [set_abi_args is_int].
    destruct (set_abi_args [2; 8; 7; 9; 10; 11; 12] float_regs 0 (map ssa_of p)) as [l o]. cbn. auto. }
  destruct (set_abi_args int_regs float_regs 0 (map ssa_of r)) as [rl rs].
  destruct (set_abi_args int_regs float_regs 0 (SI64 :: SI64 :: map ssa_of p)) as [al as_].
  cbn [fst snd a_args a_rets a_argstack a_retstack] in *. destruct H0 as [H0 H1].
  splits; auto.
  - exact (ordpairs_nth _ Dp).
  - exact (ordpairs_nth _ Dr).
  - rewrite Lp. cbn [length]. rewrite map_length. reflexivity.
  - rewrite Lr. apply map_length.
Qed.

(* the register -> stack cliffs: the 8th integer and the 9th float parameter of a wasm function are the first on the stack *)
Example abi_cliffs :
  a_args (abi_assign (repeat VI32 8 ++ repeat VF64 9) []) =
    [LReg 1; LReg 4; LReg 2; LReg 8; LReg 7; LReg 9; LReg 10; LReg 11; LReg 12; LStack 0 8;
     LReg 17; LReg 18; LReg 19; LReg 20; LReg 21; LReg 22; LReg 23; LReg 24; LStack 8 8] /\
  a_argstack (abi_assign (repeat VI32 8 ++ repeat VF64 9) []) = 16 /\
  a_rets (abi_assign [] (repeat VI64 10)) =
    [LReg 1; LReg 4; LReg 2; LReg 8; LReg 7; LReg 9; LReg 10; LReg 11; LReg 12; LStack 0 8].
Proof. splits; vm_compute; reflexivity. Qed.

(* non-vacuity of the round-trip hypotheses *)
Example roundtrip_examples :
  go_wf KI32 (-1) /\ encode Refl KI32 (-1) = 4294967295 /\ decode Refl KI32 4294967295 = -1 /\
  go_wf KI64 (-9223372036854775808) /\ encode Api KI64 (-9223372036854775808) = 9223372036854775808 /\
  go_wf KF32 2141192192 /\ is_snan32 2141192192 = true /\ decode Refl KF32 (encode Refl KF32 2141192192) = 2141192192 /\
  go_wf KF32 1 /\ decode Refl KF32 (encode Refl KF32 1) = 1.
Proof. splits; try (vm_compute; reflexivity); unfold go_wf, in_u, in_s; lia. Qed.
