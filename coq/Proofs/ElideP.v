(* Proofs about Engine/Elide.v (C02): the frontend's known-safe-bounds cache is a sound must-analysis on every
   well-formed graph, on every execution path, back edges included. *)
From Coq Require Import ZArith List Bool Lia Arith.
From Verif Require Import Engine.Elide.
Import ListNotations.
Open Scope Z_scope.

(* ---- what a fact claims about a machine state ---- *)
(* a check of the same base value with a ceiling at least as large passed earlier, the base has the same value
   now, and the memory has not become shorter since *)
Definition hist_ok (q : sem) (f : fact) : Prop :=
  exists p, In p (s_log q) /\ p_v p = fv f /\ fb f <= p_ceil p /\ p_val p = s_env q (fv f) /\
            p_val p + p_ceil p <= p_mem p /\ p_mem p <= s_mem q.
Definition addr_ok (q : sem) (f : fact) : Prop :=
  forall A, fa f = Some A -> s_aenv q A = s_base q + s_env q (fv f).
Definition bvalid (q : sem) (s : astate) : Prop := forall f, In f s -> hist_ok q f.
Definition valid (q : sem) (s : astate) : Prop := forall f, In f s -> hist_ok q f /\ addr_ok q f.

Lemma hist_bound q f : hist_ok q f -> s_env q (fv f) + fb f <= s_mem q.
Proof. intros (p & _ & _ & Hc & Hv & Hm & Hm'). lia. Qed.

Lemma valid_bvalid q s : valid q s -> bvalid q s.
Proof. intros H f Hf. apply H, Hf. Qed.

Lemma hist_weaken q f v b : hist_ok q f -> fv f = v -> b <= fb f -> hist_ok q (mkF v b None).
Proof.
  intros (p & Hin & Hv & Hc & Hval & Hm & Hm') <- Hb. exists p. cbn [fv fb]. repeat split; try assumption; lia.
Qed.

(* ---- lookup / record / set_addr / reset_addrs ---- *)
Lemma lookup_in s v f : lookup s v = Some f -> In f s /\ fv f = v.
Proof.
  induction s as [|g r IH]; cbn [lookup]; [discriminate|].
  destruct (fv g =? v) eqn:E.
  - intros [= <-]. split; [left; reflexivity | apply Z.eqb_eq, E].
  - intros H. destruct (IH H). split; [right|]; assumption.
Qed.

Lemma record_in s v b a f :
  In f (record s v b a) ->
  In f s \/ (fv f = v /\ fb f = b /\ (fa f = a \/ exists g, In g s /\ fv g = v /\ fa f = fa g)).
Proof.
  unfold record. destruct (lookup s v) eqn:L.
  - intros H. apply in_map_iff in H as (g & <- & Hg).
    destruct (fv g =? v) eqn:E; [| left; exact Hg].
    destruct (fb g <? b); [| left; exact Hg].
    right. cbn. repeat split; try reflexivity. right. exists g. apply Z.eqb_eq in E. auto.
  - intros H. apply in_app_or in H as [H | [<- | []]]; [left; exact H|].
    right. cbn. auto.
Qed.

Lemma record_valid q s v b a :
  valid q s -> hist_ok q (mkF v b None) ->
  (forall A, a = Some A -> s_aenv q A = s_base q + s_env q v) ->
  valid q (record s v b a).
Proof.
  intros Hs Hb Ha f Hf. apply record_in in Hf as [Hf | (Hv & Hbd & Haddr)]; [apply Hs, Hf|].
  split.
  - destruct Hb as (p & H1 & H2 & H3 & H4 & H5 & H6). exists p. cbn [fv fb] in *. rewrite Hv, Hbd. auto 10.
  - intros A HA. rewrite Hv. destruct Haddr as [Haddr | (g & Hg & Hgv & Hga)].
    + apply Ha. congruence.
    + rewrite <- Hgv. apply (Hs g Hg). congruence.
Qed.

Lemma record_noaddr s v b : (forall f, In f s -> fa f = None) -> forall f, In f (record s v b None) -> fa f = None.
Proof.
  intros Hs f Hf. apply record_in in Hf as [Hf | (_ & _ & [H | (g & Hg & _ & H)])]; auto.
  rewrite H. auto.
Qed.

Lemma set_addr_in s v a f : In f (set_addr s v a) ->
  (In f s /\ fv f <> v) \/ (fv f = v /\ fa f = Some a /\ exists g, In g s /\ fv g = v /\ fb g = fb f).
Proof.
  unfold set_addr. intros H. apply in_map_iff in H as (g & <- & Hg).
  destruct (fv g =? v) eqn:E.
  - right. apply Z.eqb_eq in E. cbn. repeat split; auto. exists g. auto.
  - left. apply Z.eqb_neq in E. auto.
Qed.

Lemma reset_in s f : In f (reset_addrs s) -> fa f = None /\ exists g, In g s /\ fv g = fv f /\ fb g = fb f.
Proof.
  unfold reset_addrs. intros H. apply in_map_iff in H as (g & <- & Hg). cbn. split; [reflexivity|]. exists g. auto.
Qed.

(* ---- finalize is a permutation ---- *)
Lemma insert_sorted_in f s x : In x (insert_sorted f s) <-> x = f \/ In x s.
Proof.
  induction s as [|g r IH]; cbn [insert_sorted].
  - cbn. intuition.
  - destruct (fv f <=? fv g); cbn [In]; [intuition|]. rewrite IH. intuition.
Qed.
Lemma finalize_in s x : In x (finalize s) <-> In x s.
Proof.
  unfold finalize. induction s as [|g r IH]; cbn [fold_right In]; [tauto|].
  rewrite insert_sorted_in, IH. intuition.
Qed.

(* ---- the k-way intersection: whatever it emits is carried, with a bound at least as large, by EVERY list ---- *)
Lemma heads_spec ls hs : heads ls = Some hs -> forall l, In l ls -> exists h r, l = h :: r /\ In h hs.
Proof.
  revert hs. induction ls as [|l0 ls IH]; intros hs H l Hl; [destruct Hl|].
  cbn [heads fold_right] in H. fold (heads ls) in H.
  destruct l0 as [|f r]; [discriminate|]. destruct (heads ls) as [hs'|] eqn:E; [|discriminate].
  injection H as <-. destruct Hl as [<- | Hl].
  - exists f, r. split; [reflexivity | left; reflexivity].
  - destruct (IH hs' eq_refl l Hl) as (h & r' & -> & Hh). exists h, r'. split; [reflexivity | right; exact Hh].
Qed.

Lemma min_bound_le sm hs h : In h hs -> fv h = sm -> min_bound sm hs <= fb h.
Proof.
  unfold min_bound. generalize 18446744073709551615.
  assert (Hmono : forall l m, fold_left (fun m f => if fv f =? sm then Z.min m (fb f) else m) l m <= m).
  { induction l as [|g l IH]; intros m; cbn [fold_left]; [lia|].
    destruct (fv g =? sm); [etransitivity; [apply IH|]; lia | apply IH]. }
  induction hs as [|g l IH]; intros m Hin Hv; [destruct Hin|].
  cbn [fold_left]. destruct Hin as [-> | Hin].
  - rewrite Hv, Z.eqb_refl. etransitivity; [apply Hmono|]. lia.
  - apply IH; assumption.
Qed.

Lemma meet_sound fuel : forall ls v b, In (v, b) (meet fuel ls) ->
  forall l, In l ls -> exists f, In f l /\ fv f = v /\ b <= fb f.
Proof.
  induction fuel as [|fuel IH]; intros ls v b H l Hl; [destruct H|].
  cbn [meet] in H. destruct (heads ls) as [hs|] eqn:Eh; [|destruct H].
  apply in_app_or in H as [H | H].
  - destruct (forallb (fun f => fv f =? min_id hs) hs) eqn:Es; [|destruct H].
    destruct H as [[= <- <-] | []].
    destruct (heads_spec _ _ Eh l Hl) as (h & r & -> & Hh).
    rewrite forallb_forall in Es. specialize (Es h Hh). apply Z.eqb_eq in Es.
    exists h. split; [left; reflexivity|]. split; [exact Es|]. apply min_bound_le; assumption.
  - set (adv := fun l0 : astate => match l0 with f :: r => if fv f =? min_id hs then r else l0 | [] => [] end) in H.
    destruct (IH _ v b H (adv l) (in_map adv ls l Hl)) as (f & Hf & Hv & Hb).
    exists f. split; [|auto]. unfold adv in Hf. destruct l as [|g r]; [destruct Hf|].
    destruct (fv g =? min_id hs); [right|]; exact Hf.
Qed.

(* ---- initializeCurrentBlockKnownBounds ---- *)
Lemma fold_record_valid {X} q (items : list X) (fvb : X -> Z * Z) (fad : X -> option Z) : forall s,
  valid q s ->
  (forall x, In x items -> hist_ok q (mkF (fst (fvb x)) (snd (fvb x)) None) /\
                           (forall A, fad x = Some A -> s_aenv q A = s_base q + s_env q (fst (fvb x)))) ->
  valid q (fold_left (fun s x => record s (fst (fvb x)) (snd (fvb x)) (fad x)) items s).
Proof.
  induction items as [|x r IH]; intros s Hs Hi; cbn [fold_left]; [exact Hs|].
  apply IH; [| intros y Hy; apply Hi; right; exact Hy].
  destruct (Hi x (or_introl eq_refl)) as [Hb Ha]. apply record_valid; assumption.
Qed.

Lemma fold_record_noaddr {X} (items : list X) (fvb : X -> Z * Z) : forall s,
  (forall f, In f s -> fa f = None) ->
  forall f, In f (fold_left (fun s x => record s (fst (fvb x)) (snd (fvb x)) None) items s) -> fa f = None.
Proof.
  induction items as [|x r IH]; intros s Hs; cbn [fold_left]; [exact Hs|].
  apply IH. apply record_noaddr, Hs.
Qed.

Lemma valid_nil q : valid q [].
Proof. intros f []. Qed.

(* the state a block starts with holds in every machine state in which the snapshot of the predecessor the
   execution comes from holds — whatever the other predecessors' snapshots are *)
Lemma init_valid q b snaps p :
  In p (b_ipreds b) -> valid q (snap_of snaps p) -> valid q (block_init b snaps).
Proof.
  intros Hp Hv. unfold block_init. destruct (b_ipreds b) as [|p0 [|p1 r]] eqn:E; [destruct Hp| |].
  - destruct Hp as [<- | []].
    apply (fold_record_valid q (snap_of snaps p0) (fun f => (fv f, fb f)) (fun f => if b_sealed b then fa f else None));
      [apply valid_nil|].
    intros f Hf. destruct (Hv f Hf) as [Hh Ha]. cbn [fst snd]. split.
    + apply (hist_weaken q f); [exact Hh | reflexivity | lia].
    + intros A HA. destruct (b_sealed b); [apply Ha; exact HA | discriminate].
  - set (ls := map (snap_of snaps) (p0 :: p1 :: r)).
    apply (fold_record_valid q (meet (S (total_len ls)) ls) (fun vb => vb) (fun _ => None)); [apply valid_nil|].
    intros [v bd] Hin. cbn [fst snd]. split; [|discriminate].
    destruct (meet_sound _ ls v bd Hin (snap_of snaps p) (in_map _ _ _ Hp)) as (f & Hf & Hfv & Hb).
    apply (hist_weaken q f); [apply (Hv f Hf) | exact Hfv | exact Hb].
Qed.

Lemma init_noaddr b snaps : b_sealed b = false -> forall f, In f (block_init b snaps) -> fa f = None.
Proof.
  intros Hs. unfold block_init. destruct (b_ipreds b) as [|p0 [|p1 r]]; [intros f []| |].
  - rewrite Hs. apply (fold_record_noaddr (snap_of snaps p0) (fun f => (fv f, fb f))). intros f [].
  - apply (fold_record_noaddr _ (fun vb => vb)). intros f [].
Qed.

(* ---- one event ---- *)
Definition fresh_ok (st : astate) (e : event) : Prop :=
  match e with Access _ _ a => forall f, In f st -> fa f <> Some a | _ => True end.

Lemma hist_mono q q' f :
  s_env q' (fv f) = s_env q (fv f) -> s_mem q <= s_mem q' -> incl (s_log q) (s_log q') -> hist_ok q f -> hist_ok q' f.
Proof.
  intros He Hm Hl (p & H1 & H2 & H3 & H4 & H5 & H6). exists p. rewrite He. repeat split; auto. lia.
Qed.

Lemma estep_frame st q e q' : estep st q e q' ->
  s_env q' = s_env q /\ s_mem q <= s_mem q' /\ incl (s_log q) (s_log q').
Proof.
  intros H. destruct H; cbn [s_env s_mem s_log]; repeat split; auto; try apply incl_refl.
  destruct checked; [apply incl_tl|]; apply incl_refl.
Qed.

Lemma bvalid_estep st q e q' s : estep st q e q' -> bvalid q s -> bvalid q' s.
Proof.
  intros H Hs f Hf. destruct (estep_frame _ _ _ _ H) as (He & Hm & Hl).
  apply (hist_mono q q'); [rewrite He; reflexivity | exact Hm | exact Hl | apply Hs, Hf].
Qed.

(* the statement of safety of one access: inside the memory, through the right address *)
Definition access_safe (st : astate) (q' : sem) (v c a : Z) : Prop :=
  let '(_, _, A, _) := memop st v c a in
  s_env q' v + c <= s_mem q' /\ s_aenv q' A = s_base q' + s_env q' v.

Lemma upd_same f k x : upd f k x k = x.
Proof. unfold upd. rewrite Z.eqb_refl. reflexivity. Qed.
Lemma upd_other f k x j : j <> k -> upd f k x j = f j.
Proof. unfold upd. intros H. apply Z.eqb_neq in H. rewrite H. reflexivity. Qed.

Lemma estep_valid st q e q' :
  valid q st -> fresh_ok st e -> estep st q e q' ->
  valid q' (astep st e) /\ match e with Access v c a => access_safe st q' v c a | _ => True end.
Proof.
  intros Hv Hfr H. destruct H as [v c a m' st' checked A fresh Hm Hmem Hchk | m' base' Hmem | m' base' Hmem].
  2,3: (split; [|exact I]; intros f Hf; cbn [astep] in Hf; apply reset_in in Hf as (Hnone & g & Hg & Hgv & Hgb);
        split; [| intros A HA; congruence];
        destruct (Hv g Hg) as [(p & H1 & H2 & H3 & H4 & H5 & H6) _]; exists p; cbn [s_env s_mem s_log];
        rewrite <- Hgv, <- Hgb; repeat split; auto; lia).
  cbn [fresh_ok] in Hfr. unfold access_safe. cbn [astep]. rewrite Hm. cbn [fst].
  set (q' := mkS _ _ _ _ _).
  (* facts of st stay true in q': the base values are untouched, the memory did not shrink, the log only grew, and the
     only address value written is a, which no fact of st mentions *)
  assert (Hkeep : valid q' st).
  { intros f Hf. destruct (Hv f Hf) as [Hh Ha]. split.
    - apply (hist_mono q q'); auto. unfold q'; cbn [s_log]. destruct checked; [apply incl_tl|]; apply incl_refl.
    - intros B HB. unfold q'; cbn [s_aenv s_base s_env]. rewrite <- (Ha B HB).
      destruct fresh; [|reflexivity]. apply upd_other. intros ->. exact (Hfr f Hf HB). }
  assert (Hnew : fresh = true -> s_aenv q' a = s_base q' + s_env q' v).
  { intros ->. unfold q'; cbn [s_aenv s_base s_env]. apply upd_same. }
  assert (Hpass : checked = true -> hist_ok q' (mkF v c None)).
  { intros ->. exists (mkP v c (s_env q v) m'). unfold q'; cbn [s_log s_env s_mem p_v p_ceil p_val p_mem fv fb].
    repeat split; auto; try lia. left; reflexivity. }
  unfold memop in Hm. destruct (lookup st v) as [f|] eqn:L.
  - destruct (lookup_in _ _ _ L) as [Hf Hfv]. destruct (Hkeep f Hf) as [Hh Ha].
    destruct (c <=? fb f) eqn:Ec.
    + apply Z.leb_le in Ec. pose proof (hist_bound _ _ Hh) as Hb. rewrite Hfv in Hb.
      destruct (fa f) as [B|] eqn:Efa; injection Hm as <- <- <- <-.
      * split; [exact Hkeep|]. split; [unfold q' in *; cbn [s_env s_mem] in *; lia|]. rewrite <- Hfv. apply Ha. exact Efa.
      * split; [| split; [unfold q' in *; cbn [s_env s_mem] in *; lia | apply Hnew; reflexivity]].
        intros g Hg. apply set_addr_in in Hg as [[Hg Hne] | (Hgv & Hga & g0 & Hg0 & Hg0v & Hg0b)]; [apply Hkeep, Hg|].
        split.
        -- destruct (Hkeep g0 Hg0) as [(p & H1 & H2 & H3 & H4 & H5 & H6) _]. exists p.
           rewrite Hgv, <- Hg0b. rewrite Hg0v in *. auto 10.
        -- intros B HB. rewrite Hga in HB. injection HB as <-. rewrite Hgv. apply Hnew. reflexivity.
    + destruct (fa f) as [B|] eqn:Efa; injection Hm as <- <- <- <-.
      * specialize (Hpass eq_refl). split.
        -- apply record_valid; auto. intros B' [= <-]. rewrite <- Hfv. apply Ha. exact Efa.
        -- split; [apply hist_bound in Hpass; exact Hpass | rewrite <- Hfv; apply Ha; exact Efa].
      * specialize (Hpass eq_refl). split.
        -- apply record_valid; auto. intros B' [= <-]. apply Hnew. reflexivity.
        -- split; [apply hist_bound in Hpass; exact Hpass | apply Hnew; reflexivity].
  - injection Hm as <- <- <- <-. specialize (Hpass eq_refl). split.
    + apply record_valid; auto. intros B' [= <-]. apply Hnew. reflexivity.
    + split; [apply hist_bound in Hpass; exact Hpass | apply Hnew; reflexivity].
Qed.

(* ---- entering a block ---- *)
Lemma havoc_hist defs q q' f : havoc defs q q' -> ~ In (fv f) defs -> hist_ok q f -> hist_ok q' f.
Proof.
  intros (He & _ & Hm & _ & Hl) Hn. apply hist_mono; auto. rewrite Hl. apply incl_refl.
Qed.
Lemma havoc_valid defs q q' s :
  havoc defs q q' -> (forall f, In f s -> ~ In (fv f) defs) -> valid q s -> valid q' s.
Proof.
  intros Hh Hn Hv f Hf. destruct (Hv f Hf) as [H1 H2]. split; [eapply havoc_hist; eauto|].
  destruct Hh as (He & Ha & _ & Hb & _). intros A HA. rewrite Ha, Hb, (He _ (Hn f Hf)). apply H2, HA.
Qed.
Lemma havoc_bvalid defs q q' s :
  havoc defs q q' -> (forall f, In f s -> ~ In (fv f) defs) -> bvalid q s -> bvalid q' s.
Proof. intros Hh Hn Hv f Hf. eapply havoc_hist; eauto. Qed.

(* ---- the analysis as a function of the graph ---- *)
Lemma ends_upto_length g n : length (ends_upto g n) = n.
Proof. induction n; cbn [ends_upto]; [reflexivity|]. rewrite app_length, IHn. cbn. lia. Qed.

Lemma ends_upto_nth g n : forall j, (j < n)%nat -> nth j (ends_upto g n) [] = block_end (blk g j) (ends_upto g j).
Proof.
  induction n as [|n IH]; intros j Hj; [lia|]. cbn [ends_upto].
  destruct (Nat.eq_dec j n) as [-> | Hne].
  - rewrite app_nth2 by (rewrite ends_upto_length; lia). rewrite ends_upto_length, Nat.sub_diag. reflexivity.
  - rewrite app_nth1 by (rewrite ends_upto_length; lia). apply IH. lia.
Qed.

Lemma snap_of_upto g i p :
  snap_of (ends_upto g i) p = if (p <? i)%nat then block_end (blk g p) (ends_upto g p) else [].
Proof.
  unfold snap_of. destruct (Nat.ltb_spec p i).
  - apply ends_upto_nth; assumption.
  - apply nth_overflow. rewrite ends_upto_length. assumption.
Qed.

Lemma firstn_S_nth {X} (l : list X) : forall k e, nth_error l k = Some e -> firstn (S k) l = firstn k l ++ [e].
Proof.
  induction l as [|x l IH]; intros [|k] e H; cbn in H; try discriminate.
  - injection H as <-. reflexivity.
  - rewrite (firstn_cons (S k)), (firstn_cons k), (IH k e H). reflexivity.
Qed.

Lemma state_at_S g b k e :
  nth_error (b_events (blk g b)) k = Some e -> state_at g b (S k) = astep (state_at g b k) e.
Proof. intros H. unfold state_at, arun. rewrite (firstn_S_nth _ _ _ H), fold_left_app. reflexivity. Qed.

Lemma state_at_end g b : state_at g b (length (b_events (blk g b))) = arun (init_of g b) (b_events (blk g b)).
Proof. unfold state_at. rewrite firstn_all. reflexivity. Qed.

Lemma state_at_0 g b : state_at g b 0 = init_of g b.
Proof. reflexivity. Qed.

(* ---- where facts come from: every fact was recorded by an access lowered earlier ---- *)
Definition prov (VS AS : list Z) (f : fact) : Prop := In (fv f) VS /\ (forall A, fa f = Some A -> In A AS).
Definition sprov (VS AS : list Z) (s : astate) : Prop := forall f, In f s -> prov VS AS f.

Lemma sprov_incl VS AS VS' AS' s : incl VS VS' -> incl AS AS' -> sprov VS AS s -> sprov VS' AS' s.
Proof. intros H1 H2 H f Hf. destruct (H f Hf) as [Ha Hb]. split; [apply H1, Ha | intros A HA; apply H2, Hb, HA]. Qed.

Lemma record_prov VS AS s v b a :
  sprov VS AS s -> In v VS -> (forall A, a = Some A -> In A AS) -> sprov VS AS (record s v b a).
Proof.
  intros Hs Hv Ha f Hf. apply record_in in Hf as [Hf | (Hfv & _ & [Hfa | (g & Hg & _ & Hfa)])]; [apply Hs, Hf | |].
  - split; [rewrite Hfv; exact Hv | intros A HA; apply Ha; congruence].
  - split; [rewrite Hfv; exact Hv | intros A HA; apply (Hs g Hg); congruence].
Qed.

Lemma memop_prov VS AS s v c a :
  sprov VS AS s -> In v VS -> In a AS -> sprov VS AS (fst (fst (fst (memop s v c a)))).
Proof.
  intros Hs Hv Ha. unfold memop.
  assert (Hrec : forall x, (x = a \/ exists g, In g s /\ fa g = Some x) -> sprov VS AS (record s v c (Some x))).
  { intros x Hx. apply record_prov; auto. intros A [= <-]. destruct Hx as [-> | (g & Hg & Hga)]; [exact Ha|].
    apply (Hs g Hg). exact Hga. }
  destruct (lookup s v) as [f|] eqn:L; [| cbn [fst]; apply Hrec; left; reflexivity].
  destruct (lookup_in _ _ _ L) as [Hf _].
  destruct (c <=? fb f); destruct (fa f) as [B|] eqn:E; cbn [fst].
  - exact Hs.
  - intros g Hg. apply set_addr_in in Hg as [[Hg _] | (Hgv & Hga & _)]; [apply Hs, Hg|].
    split; [rewrite Hgv; exact Hv | intros A HA; rewrite Hga in HA; injection HA as <-; exact Ha].
  - apply Hrec. right. exists f. auto.
  - apply Hrec. left. reflexivity.
Qed.

Lemma astep_prov VS AS s e :
  sprov VS AS s -> incl (event_vars [e]) VS -> incl (event_addrs [e]) AS -> sprov VS AS (astep s e).
Proof.
  intros Hs Hv Ha. destruct e as [v c a | |]; cbn [astep].
  - apply memop_prov; [exact Hs | apply Hv; left; reflexivity | apply Ha; left; reflexivity].
  - intros f Hf. apply reset_in in Hf as (Hn & g & Hg & Hgv & _). split; [rewrite <- Hgv; apply (Hs g Hg) | congruence].
  - intros f Hf. apply reset_in in Hf as (Hn & g & Hg & Hgv & _). split; [rewrite <- Hgv; apply (Hs g Hg) | congruence].
Qed.

Lemma event_vars_app a b : event_vars (a ++ b) = event_vars a ++ event_vars b.
Proof. unfold event_vars. apply flat_map_app. Qed.
Lemma event_addrs_app a b : event_addrs (a ++ b) = event_addrs a ++ event_addrs b.
Proof. unfold event_addrs. apply flat_map_app. Qed.

Lemma arun_prov VS AS es : forall s,
  sprov VS AS s -> incl (event_vars es) VS -> incl (event_addrs es) AS -> sprov VS AS (arun s es).
Proof.
  induction es as [|e r IH]; intros s Hs Hv Ha; [exact Hs|].
  change (e :: r) with ([e] ++ r) in Hv, Ha. rewrite event_vars_app in Hv. rewrite event_addrs_app in Ha.
  unfold arun. cbn [fold_left]. apply IH.
  - apply astep_prov; [exact Hs | |]; intros x Hx; [apply Hv | apply Ha]; apply in_or_app; left; exact Hx.
  - intros x Hx. apply Hv, in_or_app. right. exact Hx.
  - intros x Hx. apply Ha, in_or_app. right. exact Hx.
Qed.

Lemma fold_record_prov {X} VS AS (items : list X) (fvb : X -> Z * Z) (fad : X -> option Z) : forall s,
  sprov VS AS s ->
  (forall x, In x items -> In (fst (fvb x)) VS /\ (forall A, fad x = Some A -> In A AS)) ->
  sprov VS AS (fold_left (fun s x => record s (fst (fvb x)) (snd (fvb x)) (fad x)) items s).
Proof.
  induction items as [|x r IH]; intros s Hs Hi; cbn [fold_left]; [exact Hs|].
  apply IH; [| intros y Hy; apply Hi; right; exact Hy].
  destruct (Hi x (or_introl eq_refl)). apply record_prov; assumption.
Qed.

Lemma init_prov VS AS b snaps : (forall p, sprov VS AS (snap_of snaps p)) -> sprov VS AS (block_init b snaps).
Proof.
  intros Hs. unfold block_init. destruct (b_ipreds b) as [|p0 [|p1 r]]; [intros f []| |].
  - apply (fold_record_prov VS AS _ (fun f => (fv f, fb f)) (fun f => if b_sealed b then fa f else None)); [intros f []|].
    intros f Hf. destruct (Hs p0 f Hf) as [H1 H2]. cbn [fst]. split; [exact H1|].
    intros A HA. destruct (b_sealed b); [apply H2, HA | discriminate].
  - set (ls := map (snap_of snaps) (p0 :: p1 :: r)).
    apply (fold_record_prov VS AS _ (fun vb => vb) (fun _ => None)); [intros f []|].
    intros [v bd] Hin. cbn [fst]. split; [|discriminate].
    destruct (meet_sound _ ls v bd Hin (snap_of snaps p0)) as (f & Hf & Hfv & _); [left; reflexivity|].
    rewrite <- Hfv. apply (Hs p0 f Hf).
Qed.

Definition evs_before (g : cfg) (i : nat) : list event := flat_map b_events (firstn i g).

Lemma evs_before_S g i : evs_before g (S i) = evs_before g i ++ b_events (blk g i).
Proof.
  unfold evs_before, blk. destruct (Nat.lt_ge_cases i (length g)) as [Hlt | Hge].
  - destruct (nth_error g i) as [b|] eqn:E; [| apply nth_error_None in E; lia].
    rewrite (firstn_S_nth _ _ _ E), flat_map_app. cbn [flat_map]. rewrite app_nil_r.
    rewrite (nth_error_nth _ _ _ E). reflexivity.
  - rewrite !firstn_all2 by lia. rewrite nth_overflow by lia. cbn. rewrite app_nil_r. reflexivity.
Qed.

Lemma evs_before_mono g i j : (i <= j)%nat -> incl (evs_before g i) (evs_before g j).
Proof.
  induction 1 as [|j _ IH]; [apply incl_refl|]. rewrite evs_before_S. apply incl_appl. exact IH.
Qed.

Lemma event_vars_incl a b : incl a b -> incl (event_vars a) (event_vars b).
Proof.
  intros H x Hx. unfold event_vars in *. apply in_flat_map in Hx as (e & He & Hx). apply in_flat_map. exists e. auto.
Qed.
Lemma event_addrs_incl a b : incl a b -> incl (event_addrs a) (event_addrs b).
Proof.
  intros H x Hx. unfold event_addrs in *. apply in_flat_map in Hx as (e & He & Hx). apply in_flat_map. exists e. auto.
Qed.

Definition VB g i := event_vars (evs_before g i).
Definition AB g i := event_addrs (evs_before g i).

Lemma init_of_prov_from g i :
  (forall j, (j < i)%nat -> sprov (VB g (S j)) (AB g (S j)) (block_end (blk g j) (ends_upto g j))) ->
  sprov (VB g i) (AB g i) (init_of g i).
Proof.
  intros IH. unfold init_of. apply init_prov. intros p. rewrite snap_of_upto.
  destruct (Nat.ltb_spec p i) as [Hlt|]; [| intros f []].
  apply (sprov_incl (VB g (S p)) (AB g (S p))); [| | apply IH, Hlt].
  - apply event_vars_incl, evs_before_mono. lia.
  - apply event_addrs_incl, evs_before_mono. lia.
Qed.

Lemma arun_from_init_prov g i k :
  sprov (VB g i) (AB g i) (init_of g i) ->
  sprov (event_vars (evs_before g i ++ firstn k (b_events (blk g i))))
        (event_addrs (evs_before g i ++ firstn k (b_events (blk g i)))) (state_at g i k).
Proof.
  intros H. unfold state_at. rewrite event_vars_app, event_addrs_app. apply arun_prov.
  - eapply sprov_incl; [| | exact H]; apply incl_appl, incl_refl.
  - apply incl_appr, incl_refl.
  - apply incl_appr, incl_refl.
Qed.

Lemma block_end_prov g : forall i, sprov (VB g (S i)) (AB g (S i)) (block_end (blk g i) (ends_upto g i)).
Proof.
  intros i. induction i as [i IH] using lt_wf_ind.
  unfold block_end. destruct (b_trans (blk g i)); [intros f []|].
  intros f Hf. apply -> finalize_in in Hf.
  pose proof (arun_from_init_prov g i (length (b_events (blk g i))) (init_of_prov_from g i IH)) as H.
  rewrite firstn_all in H. unfold state_at in H. rewrite firstn_all in H. fold (init_of g i) in Hf.
  unfold VB, AB. rewrite evs_before_S. apply H, Hf.
Qed.

Lemma init_of_prov g i : sprov (VB g i) (AB g i) (init_of g i).
Proof. apply init_of_prov_from. intros j _. apply block_end_prov. Qed.

Lemma state_at_prov g i k :
  sprov (event_vars (evs_before g i ++ firstn k (b_events (blk g i))))
        (event_addrs (evs_before g i ++ firstn k (b_events (blk g i)))) (state_at g i k).
Proof. apply arun_from_init_prov, init_of_prov. Qed.

(* ---- the well-formedness conditions, unpacked ---- *)
Lemma wf_blocks_nth g : forall bs i j b,
  wf_blocks g i bs = true -> nth_error bs j = Some b -> wf_block g (i + j) b = true.
Proof.
  induction bs as [|b0 bs IH]; intros i j b H Hn; [destruct j; discriminate|].
  cbn [wf_blocks] in H. apply andb_prop in H as [H0 H1]. destruct j as [|j]; cbn in Hn.
  - injection Hn as <-. rewrite Nat.add_0_r. exact H0.
  - replace (i + S j)%nat with (S i + j)%nat by lia. eapply IH; eassumption.
Qed.

Lemma wf_nonempty g : wf_cfg g = true -> (0 < length g)%nat.
Proof. unfold wf_cfg. destruct g; [discriminate | cbn; lia]. Qed.

Lemma wf_block_at g i : wf_cfg g = true -> (i < length g)%nat -> wf_block g i (blk g i) = true.
Proof.
  intros H Hi. unfold wf_cfg in H. apply andb_prop in H as [H _]. apply andb_prop in H as [_ H].
  apply (wf_blocks_nth g g 0 i); [exact H|]. unfold blk. apply nth_error_nth'. exact Hi.
Qed.

Lemma in_region_spec h e x : in_region h e x = true <-> (h <= x < e)%nat.
Proof. unfold in_region. rewrite andb_true_iff, Nat.leb_le, Nat.ltb_lt. tauto. Qed.

Lemma memZ_in v l : In v l -> memZ v l = true.
Proof. intros H. unfold memZ. apply existsb_exists. exists v. split; [exact H | apply Z.eqb_refl]. Qed.

Lemma blk_overflow g j : (length g <= j)%nat -> blk g j = dflt_block.
Proof. intros H. unfold blk. apply nth_overflow. exact H. Qed.

Lemma wf_ipreds g i p : wf_cfg g = true -> (i < length g)%nat -> In p (b_ipreds (blk g i)) -> (p < i)%nat.
Proof.
  intros H Hi Hp. pose proof (wf_block_at g i H Hi) as W. unfold wf_block in W.
  repeat (apply andb_prop in W as [W ?]). rewrite forallb_forall in W. apply Nat.ltb_lt, W, Hp.
Qed.

Lemma wf_late g i l : wf_cfg g = true -> (i < length g)%nat -> In l (b_lpreds (blk g i)) ->
  b_sealed (blk g i) = false /\ (i <= l < b_lend (blk g i))%nat /\
  (forall y x, (i < y < b_lend (blk g i))%nat -> edge g x y -> (i <= x < b_lend (blk g i))%nat).
Proof.
  intros H Hi Hl. pose proof (wf_block_at g i H Hi) as W. unfold wf_block in W.
  apply andb_prop in W as [W _]. apply andb_prop in W as [W W4]. apply andb_prop in W as [W W3].
  apply andb_prop in W as [_ W2].
  destruct (b_lpreds (blk g i)) as [|l0 ls] eqn:E; [destruct Hl|]. rewrite <- E in *. clear E l0 ls.
  split; [destruct (b_lpreds (blk g i)); [destruct Hl|]; apply negb_true_iff, W2|].
  split; [rewrite forallb_forall in W3; apply in_region_spec, W3, Hl|].
  intros y x Hy [Hylt Hx].
  destruct (b_lpreds (blk g i)) as [|l0 ls] eqn:E; [destruct Hl|].
  rewrite forallb_forall in W4. specialize (W4 y (proj2 (in_seq _ _ _) (conj (Nat.le_0_l _) Hylt))).
  apply orb_prop in W4 as [W4 | W4].
  - apply negb_true_iff in W4. assert (in_region (S i) (b_lend (blk g i)) y = true) by (apply in_region_spec; lia). congruence.
  - rewrite forallb_forall in W4. apply in_region_spec, W4, in_or_app. exact Hx.
Qed.

Lemma wf_defs g i v j : wf_cfg g = true -> (i < length g)%nat ->
  In v (event_vars (b_events (blk g i))) -> In v (b_defs (blk g j)) -> (j <= i)%nat.
Proof.
  intros H Hi Hv Hd. destruct (Nat.lt_ge_cases j (length g)) as [Hj | Hj]; [| rewrite blk_overflow in Hd by exact Hj; destruct Hd].
  pose proof (wf_block_at g i H Hi) as W. unfold wf_block in W. apply andb_prop in W as [_ W].
  rewrite forallb_forall in W. specialize (W v Hv). rewrite forallb_forall in W.
  specialize (W j (proj2 (in_seq _ _ _) (conj (Nat.le_0_l _) Hj))).
  rewrite (memZ_in _ _ Hd) in W. cbn in W. apply Nat.leb_le, W.
Qed.

Lemma nodupb_NoDup l : nodupb l = true -> NoDup l.
Proof.
  induction l as [|x r IH]; intros H; [constructor|]. cbn [nodupb] in H. apply andb_prop in H as [H1 H2].
  constructor; [| apply IH, H2]. intros Hin. apply negb_true_iff in H1.
  assert (existsb (Z.eqb x) r = true) by (apply existsb_exists; exists x; split; [exact Hin | apply Z.eqb_refl]). congruence.
Qed.

(* (D) a base value that some block starts with a fact about is not (re)defined in that block or any later one *)
Lemma in_VB g : forall Y v, In v (VB g Y) -> exists i, (i < Y)%nat /\ (i < length g)%nat /\ In v (event_vars (b_events (blk g i))).
Proof.
  induction Y as [|Y IH]; intros v H; [destruct H|].
  unfold VB in H. rewrite evs_before_S, event_vars_app in H. apply in_app_or in H as [H | H].
  - destruct (IH v H) as (i & Hi & Hl & Hv). exists i. auto.
  - destruct (Nat.lt_ge_cases Y (length g)) as [Hlt | Hge]; [exists Y; auto|].
    rewrite blk_overflow in H by exact Hge. destruct H.
Qed.

Lemma init_defs g Y f j : wf_cfg g = true -> In f (init_of g Y) -> (Y <= j)%nat -> ~ In (fv f) (b_defs (blk g j)).
Proof.
  intros H Hf Hj Hd. destruct (init_of_prov g Y f Hf) as [Hv _].
  destruct (in_VB g Y _ Hv) as (i & Hi & Hl & Hvi). pose proof (wf_defs g i _ j H Hl Hvi Hd). lia.
Qed.

(* (F) the address value an access may define is not mentioned by the state the access starts from *)
Lemma cfg_split g i : (i < length g)%nat -> g = firstn i g ++ blk g i :: skipn (S i) g.
Proof.
  intros Hi. rewrite <- (firstn_skipn i g) at 1. f_equal.
  unfold blk. revert i Hi. induction g as [|b g IH]; intros i Hi; [cbn in Hi; lia|].
  destruct i as [|i]; [reflexivity|]. cbn [skipn nth]. apply IH. cbn in Hi. lia.
Qed.

Lemma fresh_at g i k v c a : wf_cfg g = true ->
  nth_error (b_events (blk g i)) k = Some (Access v c a) -> fresh_ok (state_at g i k) (Access v c a).
Proof.
  intros H Hn f Hf Hfa.
  assert (Hi : (i < length g)%nat).
  { destruct (Nat.lt_ge_cases i (length g)); [assumption|]. rewrite blk_overflow in Hn by assumption. destruct k; discriminate. }
  destruct (state_at_prov g i k f Hf) as [_ Ha]. specialize (Ha a Hfa).
  destruct (nth_error_split _ _ Hn) as (l1 & l2 & El & Hlen).
  rewrite El in Ha. rewrite firstn_app, Hlen, Nat.sub_diag in Ha. cbn [firstn] in Ha. rewrite app_nil_r in Ha.
  rewrite <- Hlen, firstn_all in Ha.
  unfold wf_cfg in H. apply andb_prop in H as [_ H]. apply nodupb_NoDup in H.
  unfold all_addrs in H.
  assert (Eall : flat_map b_events g =
                 (evs_before g i ++ l1) ++ Access v c a :: (l2 ++ flat_map b_events (skipn (S i) g))).
  { rewrite (cfg_split g i Hi) at 1. rewrite flat_map_app. cbn [flat_map]. rewrite El. unfold evs_before.
    rewrite <- !app_assoc. reflexivity. }
  rewrite Eall, event_addrs_app in H.
  change (Access v c a :: (l2 ++ flat_map b_events (skipn (S i) g)))
    with ([Access v c a] ++ (l2 ++ flat_map b_events (skipn (S i) g))) in H.
  rewrite (event_addrs_app [Access v c a]) in H. cbn [event_addrs flat_map app] in H.
  apply NoDup_remove_2 in H. apply H, in_or_app. left. exact Ha.
Qed.

(* ---- paths ---- *)
Fixpoint vpath (g : cfg) (p : list nat) : Prop :=
  match p with
  | [] => False
  | b :: r => match r with [] => b = O | b' :: _ => edge g b' b /\ vpath g r end
  end.

Lemma reach_vpath g p k q : reach g p k q -> vpath g p.
Proof. induction 1; cbn; auto. Qed.

Lemma reach_in_graph g p b k q : wf_cfg g = true -> reach g (b :: p) k q -> (b < length g)%nat.
Proof.
  intros W H. remember (b :: p) as pp eqn:E. revert b p E.
  induction H as [q q' _ | p0 b0 k q e q' _ IH _ _ | p0 b0 k q b' q' _ _ _ [Hb _] _]; intros b p E; injection E as <- <-.
  - apply wf_nonempty, W.
  - eapply IH; reflexivity.
  - exact Hb.
Qed.

(* going back along a path from inside a loop region one reaches the loop header without leaving the region *)
Lemma walk_back g H E :
  (forall y x, (H < y < E)%nat -> edge g x y -> (H <= x < E)%nat) ->
  forall p, vpath g p -> forall x r, p = x :: r -> (H <= x < E)%nat ->
  exists post pre, p = post ++ H :: pre /\ forall u, In u post -> (H < u)%nat.
Proof.
  intros Hcl. induction p as [|x0 p IH]; intros Hp x r E0 Hx; [discriminate|]. injection E0 as -> ->.
  destruct (Nat.eq_dec x H) as [-> | Hne].
  - exists [], r. split; [reflexivity | intros u []].
  - destruct r as [|y r].
    + cbn in Hp. subst x. lia.
    + cbn [vpath] in Hp. destruct Hp as [He Hp].
      assert (Hy : (H <= y < E)%nat) by (apply (Hcl x y); [lia | exact He]).
      destruct (IH Hp y r eq_refl Hy) as (post & pre & Epost & Hpost).
      exists (x :: post), pre. split; [rewrite Epost; reflexivity|].
      intros u [<- | Hu]; [lia | apply Hpost, Hu].
Qed.

(* ---- the invariant along every execution ---- *)
Definition Inv (g : cfg) (p : list nat) (k : nat) (q : sem) : Prop :=
  match p with
  | [] => False
  | b :: _ =>
      valid q (state_at g b k) /\
      (* the facts a block started with stay true for as long as the execution stays among blocks lowered after it *)
      (forall post Y pre, p = post ++ Y :: pre -> (forall u, In u post -> (Y < u)%nat) -> bvalid q (init_of g Y))
  end.

Theorem reach_inv g : wf_cfg g = true -> forall p k q, reach g p k q -> Inv g p k q.
Proof.
  intros W p k q H.
  induction H as [q q' Hh | p b k q e q' Hr IH Hn Hs | p b k q b' q' Hr IH Hk He Hh].
  - (* entry *)
    assert (E0 : init_of g 0 = []).
    { unfold init_of, block_init. destruct (b_ipreds (blk g 0)) as [|p0 r] eqn:E; [reflexivity|].
      pose proof (wf_ipreds g 0 p0 W (wf_nonempty g W)) as Hlt. rewrite E in Hlt. specialize (Hlt (or_introl eq_refl)). lia. }
    split; [rewrite state_at_0, E0; apply valid_nil|].
    intros post Y pre E _. destruct post as [|u post]; [injection E as <- _ | destruct post; discriminate].
    rewrite E0. intros f [].
  - (* an event *)
    destruct IH as [Hv Hj]. split.
    + rewrite (state_at_S g b k e Hn).
      apply (estep_valid (state_at g b k) q e q'); [exact Hv | | exact Hs].
      destruct e as [v c a | |]; [apply fresh_at; assumption | exact I | exact I].
    + intros post Y pre E Hpost. eapply bvalid_estep; [exact Hs|]. eapply Hj; eassumption.
  - (* an edge *)
    destruct IH as [Hv Hj]. destruct He as [Hb' Hedge].
    pose proof (reach_in_graph g p b k q W Hr) as Hb.
    assert (Hinit : valid q (init_of g b')).
    { destruct Hedge as [Hip | Hlp].
      - (* a predecessor the analysis looked at: its snapshot holds at the end of b *)
        pose proof (wf_ipreds g b' b W Hb' Hip) as Hlt.
        unfold init_of. apply (init_valid q (blk g b') (ends_upto g b') b Hip).
        rewrite snap_of_upto. destruct (Nat.ltb_spec b b') as [_ | ?]; [| lia].
        unfold block_end. destruct (b_trans (blk g b)); [apply valid_nil|].
        intros f Hf. apply -> finalize_in in Hf. fold (init_of g b) in Hf. rewrite <- state_at_end, <- Hk in Hf. apply Hv, Hf.
      - (* a back edge: the header was passed earlier and the execution stayed inside its loop since *)
        destruct (wf_late g b' b W Hb' Hlp) as (Hseal & Hreg & Hcl).
        destruct (walk_back g b' (b_lend (blk g b')) Hcl (b :: p) (reach_vpath _ _ _ _ Hr) b p eq_refl Hreg)
          as (post & pre & E & Hpost).
        pose proof (Hj post b' pre E Hpost) as Hbv.
        intros f Hf. split; [apply Hbv, Hf|]. intros A HA.
        rewrite (init_noaddr (blk g b') (ends_upto g b') Hseal f Hf) in HA. discriminate. }
    split.
    + rewrite state_at_0. apply (havoc_valid _ q q' _ Hh); [| exact Hinit].
      intros f Hf. apply (init_defs g b' f b' W Hf). lia.
    + intros post Y pre E Hpost. destruct post as [|u post].
      * injection E as <- _. apply valid_bvalid. apply (havoc_valid _ q q' _ Hh); [| exact Hinit].
        intros f Hf. apply (init_defs g b' f b' W Hf). lia.
      * injection E as <- E. apply (havoc_bvalid _ q q' _ Hh).
        -- intros f Hf. apply (init_defs g Y f b' W Hf). specialize (Hpost b' (or_introl eq_refl)). lia.
        -- apply (Hj post Y pre E). intros w Hw. apply Hpost. right. exact Hw.
Qed.

(* ---- the statements ---- *)
(* every fact the analysis holds at a program point is backed, on every execution reaching the point, by an
   earlier passed check of the same value (still having the same value) with a ceiling at least as large, hence
   value + bound <= current memory length; and a cached absolute address equals current base + value *)
Theorem elision_sound_cfg g p b k q f :
  wf_cfg g = true -> reach g (b :: p) k q -> In f (state_at g b k) ->
  (exists c, In c (s_log q) /\ p_v c = fv f /\ fb f <= p_ceil c /\ p_val c = s_env q (fv f) /\
             p_val c + p_ceil c <= p_mem c /\ p_mem c <= s_mem q) /\
  s_env q (fv f) + fb f <= s_mem q /\
  (forall A, fa f = Some A -> s_aenv q A = s_base q + s_env q (fv f)).
Proof.
  intros W Hr Hf. destruct (reach_inv g W _ _ _ Hr) as [Hv _]. destruct (Hv f Hf) as [Hh Ha].
  split; [exact Hh|]. split; [apply hist_bound, Hh | exact Ha].
Qed.

(* every access the emitted code performs — whether its bounds check was emitted or elided, whether it re-uses a
   cached absolute address or computes one — lies inside the current memory and goes through base + value *)
Theorem access_in_bounds_cfg g p b k q v c a q' :
  wf_cfg g = true -> reach g (b :: p) k q -> nth_error (b_events (blk g b)) k = Some (Access v c a) ->
  estep (state_at g b k) q (Access v c a) q' ->
  s_env q' v + c <= s_mem q' /\
  s_aenv q' (snd (fst (memop (state_at g b k) v c a))) = s_base q' + s_env q' v.
Proof.
  intros W Hr Hn Hs. destruct (reach_inv g W _ _ _ Hr) as [Hv _].
  destruct (estep_valid _ q _ q' Hv (fresh_at g b k v c a W Hn) Hs) as [_ Hsafe].
  unfold access_safe in Hsafe. destruct (memop (state_at g b k) v c a) as [[[st' ch] A] fr]. exact Hsafe.
Qed.

(* ---- non-vacuity: a loop whose header inherits a fact from the block before it ---- *)
Definition ex_g : cfg :=
  [ mkB [] [] true false [1] [Access 1 8 100] 0;                                          (* entry: checks v1 up to 8 *)
    mkB [0%nat] [2%nat] false false [5] [Access 1 4 101; Call; Access 1 8 102] 3;         (* loop header, not sealed: back edge from 2 *)
    mkB [1%nat] [] true false [] [Access 5 4 103; Access 1 16 105] 0;                     (* loop body: v5 is the loop's own value *)
    mkB [2%nat] [] true false [] [Access 1 12 104; Access 5 2 106] 0 ].                   (* after the loop *)

Example ex_wf : wf_cfg ex_g = true.
Proof. vm_compute. reflexivity. Qed.

(* (check emitted, address value, address computed here) per access: both accesses of the header are elided, their
   address recomputed (unsealed header; call); facts of the body reach the block after the loop, not the header *)
Example ex_decisions :
  map o_dec (model_obs ex_g) =
  [ [(true, 100, true)]; [(false, 101, true); (false, 102, true)]; [(true, 103, true); (true, 102, false)];
    [(false, 102, false); (false, 103, false)] ].
Proof. vm_compute. reflexivity. Qed.

Lemma havoc_refl d q : havoc d q q.
Proof. unfold havoc. repeat split; auto. lia. Qed.

(* an execution that goes once around the loop and stands after the header's first (elided) access again *)
Example ex_reach : exists q, reach ex_g [1%nat; 2%nat; 1%nat; 0%nat] 1 q.
Proof.
  pose (q0 := mkS (fun _ => 0) (fun _ => 0) 65536 1000 []).
  assert (R0 : reach ex_g [0%nat] 0 q0) by (apply (r_entry ex_g q0), havoc_refl).
  Ltac acc R ev mm :=
    eapply r_step with (e := ev); [exact R | reflexivity |];
    eapply es_access with (m' := mm); [vm_compute; reflexivity | cbn; lia | cbn; try lia; try discriminate].
  Ltac go R bb :=
    eapply r_edge with (b' := bb); [exact R | reflexivity | split; [cbn; lia | cbn; auto] | apply havoc_refl].
  eassert (R1 : reach ex_g [0%nat] 1 _) by acc R0 (Access 1 8 100) 65536. cbn in R1.
  eassert (R2 : reach ex_g [1%nat; 0%nat] 0 _) by go R1 1%nat.
  eassert (R3 : reach ex_g [1%nat; 0%nat] 1 _) by acc R2 (Access 1 4 101) 65536. cbn in R3.
  eassert (R4 : reach ex_g [1%nat; 0%nat] 2 _)
    by (eapply r_step with (e := Call); [exact R3 | reflexivity | apply es_call with (m' := 131072) (base' := 7000); cbn; lia]).
  cbn in R4.
  eassert (R5 : reach ex_g [1%nat; 0%nat] 3 _) by acc R4 (Access 1 8 102) 131072. cbn in R5.
  eassert (R6 : reach ex_g [2%nat; 1%nat; 0%nat] 0 _) by go R5 2%nat.
  eassert (R7 : reach ex_g [2%nat; 1%nat; 0%nat] 1 _) by acc R6 (Access 5 4 103) 131072. cbn in R7.
  eassert (R8 : reach ex_g [2%nat; 1%nat; 0%nat] 2 _) by acc R7 (Access 1 16 105) 131072. cbn in R8.
  eassert (R9 : reach ex_g [1%nat; 2%nat; 1%nat; 0%nat] 0 _) by go R8 1%nat.
  eexists. acc R9 (Access 1 4 101) 131072.
Qed.
(* the region condition of wf_cfg is needed: block 3 jumps into block 2 from outside (it is reached from the entry
   without passing block 2, yet block 2 was initialised before that edge existed): the fact block 2 inherited from
   block 1 is false on the path 0 -> 3 -> 2 *)
Definition bad_g : cfg :=
  [ mkB [] [] true false [1] [] 0;
    mkB [0%nat] [] true false [] [Access 1 8 100] 0;
    mkB [1%nat] [3%nat] false false [] [Access 1 8 101] 4;
    mkB [0%nat] [] true false [] [] 0 ].
Example region_condition_needed :
  wf_cfg bad_g = false /\
  exists q f, reach bad_g [2%nat; 3%nat; 0%nat] 0 q /\ In f (state_at bad_g 2 0) /\ ~ (s_env q (fv f) + fb f <= s_mem q).
Proof.
  split; [vm_compute; reflexivity|].
  pose (q0 := mkS (fun _ => 100) (fun _ => 0) 50 1000 []).
  assert (R0 : reach bad_g [0%nat] 0 q0) by (apply (r_entry bad_g q0), havoc_refl).
  assert (R1 : reach bad_g [3%nat; 0%nat] 0 q0)
    by (eapply r_edge with (b' := 3%nat); [exact R0 | reflexivity | split; [cbn; lia | cbn; auto] | apply havoc_refl]).
  assert (R2 : reach bad_g [2%nat; 3%nat; 0%nat] 0 q0)
    by (eapply r_edge with (b' := 2%nat); [exact R1 | reflexivity | split; [cbn; lia | cbn; auto] | apply havoc_refl]).
  exists q0, (mkF 1 8 None). split; [exact R2|]. split; [vm_compute; auto | cbn; lia].
Qed.

Print Assumptions elision_sound_cfg.
Print Assumptions access_in_bounds_cfg.
