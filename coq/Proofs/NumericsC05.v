(* The laws of Proofs/NumericsP.v and Proofs/NumericsFP.v grouped by topic, as stated in Properties/C05.v
   (one Print Assumptions per group keeps the property file quick to check). *)
From Coq Require Import ZArith Bool List.
From Verif Require Import Wasm.Numerics Wasm.NumericsF Wasm.NumericsV Proofs.NumericsP Proofs.NumericsFP.
Import ListNotations.
Open Scope Z_scope.

Lemma int_results_in_range_all :
  (forall N o a b r, 0 < N -> inr N a -> inr N b -> eval_ibinop N o a b = Some r -> inr N r) /\
  (forall N o a, 1 < N -> inr N a -> inr N (eval_iunop N o a)) /\
  (forall N o a b, eval_irelop N o a b = 0 \/ eval_irelop N o a b = 1).
Proof. exact (conj ibinop_range (conj iunop_range irelop_range)). Qed.

Lemma wraparound_ring_all :
  (forall N a b, 0 <= N ->
  (iadd N a b - (a + b)) mod 2 ^ N = 0 /\ (isub N a b - (a - b)) mod 2 ^ N = 0 /\ (imul N a b - a * b) mod 2 ^ N = 0) /\
  (forall N a b, 0 < N -> inr N a -> inr N b ->
  iadd N a b = modN N (sgn N a + sgn N b) /\ isub N a b = modN N (sgn N a - sgn N b) /\ imul N a b = modN N (sgn N a * sgn N b)) /\
  (forall N a b c, 0 <= N -> iadd N (iadd N a b) c = iadd N a (iadd N b c)) /\
  (forall N a b c, 0 <= N -> imul N (imul N a b) c = imul N a (imul N b c)) /\
  (forall N a b c, 0 <= N -> imul N a (iadd N b c) = iadd N (imul N a b) (imul N a c)) /\
  (forall N a b, 0 <= N -> inr N a -> isub N (iadd N a b) b = a).
Proof. exact (conj iadd_congr (conj iadd_signed (conj iadd_assoc (conj imul_assoc (conj imul_iadd_distr isub_iadd))))). Qed.

Lemma shift_rotate_all :
  (forall N a b k, 0 < N ->
  ishl N a (b + k * N) = ishl N a b /\ ishr_u N a (b + k * N) = ishr_u N a b /\ ishr_s N a (b + k * N) = ishr_s N a b /\
  irotl N a (b + k * N) = irotl N a b /\ irotr N a (b + k * N) = irotr N a b) /\
  (forall N a k, 0 < N -> inr N a -> 0 <= k < N ->
  ishl N a k = (a * 2 ^ k) mod 2 ^ N /\ ishr_u N a k = a / 2 ^ k /\ sgn N (ishr_s N a k) = sgn N a / 2 ^ k) /\
  (forall N a b, 0 < N -> inr N a -> irotr N (irotl N a b) b = a) /\
  (forall N a b, 0 < N -> inr N a -> irotl N (irotr N a b) b = a).
Proof. exact (conj shift_count_mod (conj shift_values (conj irotr_irotl irotl_irotr))). Qed.

Lemma division_all :
  (forall N a b, inr N a -> inr N b ->
  (b = 0 -> idiv_u N a b = None /\ irem_u N a b = None) /\
  (b <> 0 -> exists q r, idiv_u N a b = Some q /\ irem_u N a b = Some r /\ a = b * q + r /\ 0 <= r < b)) /\
  (forall N a b, 0 < N -> inr N a -> inr N b ->
  (idiv_s N a b = None <-> b = 0 \/ (a = 2 ^ (N - 1) /\ b = 2 ^ N - 1))) /\
  (forall N a b q, 0 < N -> inr N a -> inr N b -> idiv_s N a b = Some q ->
  inr N q /\ sgn N q = Z.quot (sgn N a) (sgn N b)) /\
  (forall N a b, 0 < N -> inr N a -> inr N b ->
  (b = 0 -> irem_s N a b = None) /\
  (b <> 0 -> exists r, irem_s N a b = Some r /\ inr N r /\ sgn N r = Z.rem (sgn N a) (sgn N b))) /\
  (forall N, 0 < N -> irem_s N (2 ^ (N - 1)) (2 ^ N - 1) = Some 0).
Proof. exact (conj idiv_u_euclid (conj idiv_s_traps_exactly (conj idiv_s_value (conj irem_s_value irem_s_min_m1)))). Qed.

Lemma bit_counts_all :
  (forall N a, 0 < N -> inr N a ->
  (a = 0 -> iclz N a = N) /\ (a <> 0 -> 0 <= iclz N a < N /\ 2 ^ (N - 1 - iclz N a) <= a < 2 ^ (N - iclz N a))) /\
  (forall N a, 0 < N -> inr N a ->
  (a = 0 -> ictz N a = N) /\ (a <> 0 -> 0 <= ictz N a < N /\ a mod 2 ^ ictz N a = 0 /\ Z.odd (a / 2 ^ ictz N a) = true)) /\
  (forall N a, 0 <= N -> ipopcnt N a = bits_set (Z.to_nat N) a /\ 0 <= ipopcnt N a <= N).
Proof. exact (conj iclz_spec (conj ictz_spec ipopcnt_spec)). Qed.

Lemma comparisons_all :
  (forall N a b,
  (ieq N a b = 1 <-> a = b) /\ (ine N a b = 1 <-> a <> b) /\
  (ilt_u N a b = 1 <-> a < b) /\ (igt_u N a b = 1 <-> a > b) /\ (ile_u N a b = 1 <-> a <= b) /\ (ige_u N a b = 1 <-> a >= b) /\
  (ilt_s N a b = 1 <-> sgn N a < sgn N b) /\ (igt_s N a b = 1 <-> sgn N a > sgn N b) /\
  (ile_s N a b = 1 <-> sgn N a <= sgn N b) /\ (ige_s N a b = 1 <-> sgn N a >= sgn N b) /\
  (ieqz N a = 1 <-> a = 0)) /\
  (forall N a, 0 < N -> inr N a -> - 2 ^ (N - 1) <= sgn N a < 2 ^ (N - 1) /\ modN N (sgn N a) = a).
Proof. exact (conj irelop_spec sgn_reading). Qed.

Lemma extensions_all :
  (forall M N a, 0 < M <= N ->
  inr N (iextend_s M N a) /\ sgn N (iextend_s M N a) = sgn M (a mod 2 ^ M) /\ (iextend_s M N a) mod 2 ^ M = a mod 2 ^ M) /\
  (forall a, inr 32 a ->
  inr 64 (extend_i32_s a) /\ sgn 64 (extend_i32_s a) = sgn 32 a /\ extend_i32_u a = a /\ (forall x, wrap_i64 x = x mod 2 ^ 32)).
Proof. exact (conj iextend_s_spec extend_wrap_spec). Qed.

Lemma float_sign_ops_all :
  (fmt_wide 23 8 /\ fmt_wide 52 11) /\
  (forall mw ew x, fmt_ok mw ew -> fbits mw ew x ->
  fbits mw ew (f_abs mw ew x) /\ f_sign mw ew (f_abs mw ew x) = 0 /\ f_mag mw ew (f_abs mw ew x) = f_mag mw ew x) /\
  (forall mw ew x, fmt_ok mw ew -> fbits mw ew x ->
  fbits mw ew (f_neg mw ew x) /\ f_sign mw ew (f_neg mw ew x) = 1 - f_sign mw ew x /\
  f_mag mw ew (f_neg mw ew x) = f_mag mw ew x /\ f_neg mw ew (f_neg mw ew x) = x) /\
  (forall mw ew a b, fmt_ok mw ew -> fbits mw ew a -> fbits mw ew b ->
  fbits mw ew (f_copysign mw ew a b) /\ f_sign mw ew (f_copysign mw ew a b) = f_sign mw ew b /\
  f_mag mw ew (f_copysign mw ew a b) = f_mag mw ew a).
Proof. exact (conj (conj f32_wide f64_wide) (conj f_abs_spec (conj f_neg_spec f_copysign_spec))). Qed.

Lemma float_compare_all :
  (forall mw ew a b, f_nan mw ew a || f_nan mw ew b = true ->
  f_eq mw ew a b = 0 /\ f_ne mw ew a b = 1 /\ f_lt mw ew a b = 0 /\ f_gt mw ew a b = 0 /\ f_le mw ew a b = 0 /\ f_ge mw ew a b = 0) /\
  (forall mw ew a b, f_nan mw ew a || f_nan mw ew b = false ->
  (f_eq mw ew a b = 1 <-> f_key mw ew a = f_key mw ew b) /\ (f_ne mw ew a b = 1 <-> f_key mw ew a <> f_key mw ew b) /\
  (f_lt mw ew a b = 1 <-> f_key mw ew a < f_key mw ew b) /\ (f_gt mw ew a b = 1 <-> f_key mw ew a > f_key mw ew b) /\
  (f_le mw ew a b = 1 <-> f_key mw ew a <= f_key mw ew b) /\ (f_ge mw ew a b = 1 <-> f_key mw ew a >= f_key mw ew b)) /\
  (forall mw ew x, fmt_ok mw ew -> fbits mw ew x ->
  (f_key mw ew x = 0 <-> f_zero mw ew x = true) /\
  (f_sign mw ew x = 0 -> f_key mw ew x = f_mag mw ew x) /\ (f_sign mw ew x = 1 -> f_key mw ew x = - f_mag mw ew x)) /\
  (forall mw ew x y, fmt_ok mw ew -> fbits mw ew x -> fbits mw ew y ->
  (f_key mw ew x < f_key mw ew y <-> f_sval mw ew x < f_sval mw ew y) /\
  (f_key mw ew x = f_key mw ew y <-> f_sval mw ew x = f_sval mw ew y)).
Proof. exact (conj f_cmp_nan (conj f_cmp_ord (conj f_key_spec f_key_order))). Qed.

Lemma float_min_max_all :
  (forall mw ew a b, fmt_ok mw ew -> f_nan mw ew a || f_nan mw ew b = true ->
  f_nan mw ew (f_min mw ew a b) = true /\ f_nan mw ew (f_max mw ew a b) = true) /\
  (forall mw ew a b, fmt_ok mw ew -> fbits mw ew a -> fbits mw ew b -> f_nan mw ew a || f_nan mw ew b = false ->
  (f_min mw ew a b = a \/ f_min mw ew a b = b) /\
  f_key mw ew (f_min mw ew a b) = Z.min (f_key mw ew a) (f_key mw ew b) /\
  (f_key mw ew a = f_key mw ew b -> f_sign mw ew (f_min mw ew a b) = Z.max (f_sign mw ew a) (f_sign mw ew b))) /\
  (forall mw ew a b, fmt_ok mw ew -> fbits mw ew a -> fbits mw ew b -> f_nan mw ew a || f_nan mw ew b = false ->
  (f_max mw ew a b = a \/ f_max mw ew a b = b) /\
  f_key mw ew (f_max mw ew a b) = Z.max (f_key mw ew a) (f_key mw ew b) /\
  (f_key mw ew a = f_key mw ew b -> f_sign mw ew (f_max mw ew a b) = Z.min (f_sign mw ew a) (f_sign mw ew b))) /\
  (f_min 23 8 0x80000000 0 = 0x80000000 /\ f_min 23 8 0 0x80000000 = 0x80000000 /\
  f_max 23 8 0x80000000 0 = 0 /\ f_max 23 8 0 0x80000000 = 0 /\
  f_min 52 11 0x8000000000000000 0 = 0x8000000000000000 /\ f_min 52 11 0 0x8000000000000000 = 0x8000000000000000 /\
  f_max 52 11 0x8000000000000000 0 = 0 /\ f_max 52 11 0 0x8000000000000000 = 0).
Proof. exact (conj f_minmax_nan (conj f_min_ord (conj f_max_ord f_minmax_zero))). Qed.

Lemma float_to_int_all :
  (forall mw ew x,
  let m := f_m mw ew x in let e := f_e mw ew x in let t := f_trunc_mag mw ew x in
  (0 <= e -> t = m * 2 ^ e) /\ (e < 0 -> t * 2 ^ (- e) <= m < (t + 1) * 2 ^ (- e))) /\
  (forall (signed : bool) mw ew N x, 0 < N ->
  let lo := if signed then - 2 ^ (N - 1) else 0 in
  let hi := if signed then 2 ^ (N - 1) - 1 else 2 ^ N - 1 in
  let t := f_trunc_z mw ew x in
  (f_to_int signed mw ew N x = None <-> f_nan mw ew x = true \/ f_inf mw ew x = true \/ t < lo \/ hi < t) /\
  (forall v, f_to_int signed mw ew N x = Some v -> inr N v /\ (if signed then sgn N v else v) = t)) /\
  (forall (signed : bool) mw ew N x, 0 < N ->
  let lo := if signed then - 2 ^ (N - 1) else 0 in
  let hi := if signed then 2 ^ (N - 1) - 1 else 2 ^ N - 1 in
  let r := f_to_int_sat signed mw ew N x in
  inr N r /\
  (f_nan mw ew x = true -> r = 0) /\
  (f_nan mw ew x = false -> f_inf mw ew x = true -> r = modN N (if f_sign mw ew x =? 0 then hi else lo)) /\
  (f_nan mw ew x = false -> f_inf mw ew x = false -> r = modN N (Z.max lo (Z.min hi (f_trunc_z mw ew x)))) /\
  (forall v, f_to_int signed mw ew N x = Some v -> r = v)).
Proof. exact (conj f_trunc_mag_spec (conj f_to_int_spec f_to_int_sat_spec)). Qed.

Lemma round_to_integral_all :
  (forall s m d, 0 <= m -> 0 < d ->
  let D := 2 ^ d in
  let nt := f_round_int RTrunc s m d in let nf := f_round_int RFloor s m d in
  let nc := f_round_int RCeil s m d in let nn := f_round_int RNearest s m d in
  (nt * D <= m < (nt + 1) * D) /\
  (s = 0 -> nf * D <= m < (nf + 1) * D) /\ (s <> 0 -> (nf - 1) * D < m <= nf * D) /\
  (s = 0 -> (nc - 1) * D < m <= nc * D) /\ (s <> 0 -> nc * D <= m < (nc + 1) * D) /\
  (2 * Z.abs (m - nn * D) <= D /\ (2 * Z.abs (m - nn * D) = D -> Z.even nn = true)) /\
  0 <= nt /\ 0 <= nf /\ 0 <= nc /\ 0 <= nn) /\
  (forall r mw ew x, fmt_wide mw ew -> fbits mw ew x ->
  (f_nan mw ew x = true -> f_round r mw ew x = f_canon mw ew) /\
  (f_nan mw ew x = false -> f_inf mw ew x = true \/ 0 <= f_e mw ew x -> f_round r mw ew x = x) /\
  (f_nan mw ew x = false -> f_inf mw ew x = false -> f_e mw ew x < 0 ->
     let y := f_round r mw ew x in
     fbits mw ew y /\ f_sign mw ew y = f_sign mw ew x /\ f_nan mw ew y = false /\ f_inf mw ew y = false /\
     f_trunc_mag mw ew y = f_round_int r (f_sign mw ew x) (f_m mw ew x) (- f_e mw ew x) /\
     (f_e mw ew y < 0 -> f_m mw ew y mod 2 ^ (- f_e mw ew y) = 0))).
Proof. exact (conj f_round_int_spec f_round_spec). Qed.

Lemma bitlevel_agrees_with_flocq_on_boundary_partial_all :
  (agree32 = true /\ agree64 = true).
Proof. exact bitlevel_agrees_with_flocq_on_boundary. Qed.

Lemma lanes_all :
  (forall w v, In w [8; 16; 32; 64] -> 0 <= v < 2 ^ 128 -> join_lanes w (lanes w v) = v) /\
  (forall n w v i, 0 <= w -> (i < n)%nat -> nth i (split_lanes n w v) 0 = (v / 2 ^ (w * Z.of_nat i)) mod 2 ^ w) /\
  (forall w f a, In w [8; 16; 32; 64] -> lanes w (lanewise1 w f a) = map (fun x => modN w (f x)) (lanes w a)) /\
  (forall w f a b, In w [8; 16; 32; 64] ->
  lanes w (lanewise2 w f a b) = map2 (fun x y => modN w (f x y)) (lanes w a) (lanes w b)).
Proof. exact (conj v128_join_split (conj split_lanes_nth (conj lanes_lanewise1 lanes_lanewise2))). Qed.

Lemma vector_ops_are_lanewise_all :
  (forall w a b s,
  v_add w a b = lanewise2 w (iadd w) a b /\ v_sub w a b = lanewise2 w (isub w) a b /\ v_mul w a b = lanewise2 w (imul w) a b /\
  v_neg w a = lanewise1 w (ineg w) a /\ v_abs w a = lanewise1 w (iabs w) a /\
  v_min_s w a b = lanewise2 w (imin_s w) a b /\ v_min_u w a b = lanewise2 w (imin_u w) a b /\
  v_max_s w a b = lanewise2 w (imax_s w) a b /\ v_max_u w a b = lanewise2 w (imax_u w) a b /\
  v_avgr_u w a b = lanewise2 w (iavgr_u w) a b /\
  v_add_sat_s w a b = lanewise2 w (iadd_sat_s w) a b /\ v_add_sat_u w a b = lanewise2 w (iadd_sat_u w) a b /\
  v_sub_sat_s w a b = lanewise2 w (isub_sat_s w) a b /\ v_sub_sat_u w a b = lanewise2 w (isub_sat_u w) a b /\
  v_shl w a s = lanewise1 w (fun x => ishl w x s) a /\ v_shr_s w a s = lanewise1 w (fun x => ishr_s w x s) a /\
  v_shr_u w a s = lanewise1 w (fun x => ishr_u w x s) a /\
  v_popcnt w a = lanewise1 w (ipopcnt w) a /\ v_q15mulr_sat_s a b = lanewise2 16 iq15mulr_sat_s a b /\
  (forall o, v_cmp w o a b = lanewise2 w (fun x y => mask_of w (eval_irelop w o x y)) a b) /\
  (forall o, v_fcmp w o a b = lanewise2 w (fun x y => mask_of w (eval_frelop w o x y)) a b) /\
  v_and a b = lanewise2 64 (iand 64) a b /\ v_or a b = lanewise2 64 (ior 64) a b /\ v_xor a b = lanewise2 64 (ixor 64) a b /\
  v_not a = lanewise1 64 (inot 64) a /\ v_andnot a b = lanewise2 64 (iandnot 64) a b).
Proof. exact vector_ops_are_lanewise. Qed.

Lemma lane_operators_all :
  (forall N x, 0 < N -> inr N (sat_s N x) /\ sgn N (sat_s N x) = Z.max (- 2 ^ (N - 1)) (Z.min (2 ^ (N - 1) - 1) x)) /\
  (forall N x, 0 <= N -> inr N (sat_u N x) /\ sat_u N x = Z.max 0 (Z.min (2 ^ N - 1) x)) /\
  (forall N a b, 0 < N -> inr N a -> inr N b ->
  sgn N (imin_s N a b) = Z.min (sgn N a) (sgn N b) /\ sgn N (imax_s N a b) = Z.max (sgn N a) (sgn N b) /\
  imin_u N a b = Z.min a b /\ imax_u N a b = Z.max a b /\
  (inr N (iavgr_u N a b) /\ 2 * iavgr_u N a b - 1 <= a + b <= 2 * iavgr_u N a b) /\
  (inr N (iabs N a) /\ iabs N a = modN N (Z.abs (sgn N a))) /\
  (inr N (ineg N a) /\ ineg N a = modN N (- sgn N a)) /\
  sgn N (iadd_sat_s N a b) = Z.max (- 2 ^ (N - 1)) (Z.min (2 ^ (N - 1) - 1) (sgn N a + sgn N b)) /\
  sgn N (isub_sat_s N a b) = Z.max (- 2 ^ (N - 1)) (Z.min (2 ^ (N - 1) - 1) (sgn N a - sgn N b)) /\
  iadd_sat_u N a b = Z.min (2 ^ N - 1) (a + b) /\ isub_sat_u N a b = Z.max 0 (a - b)) /\
  (forall N a b c, 0 <= N -> inr N a -> inr N b -> inr N c ->
  (inr N (inot N a) /\ forall i, 0 <= i < N -> Z.testbit (inot N a) i = negb (Z.testbit a i)) /\
  (forall i, 0 <= i -> Z.testbit (ibitselect N a b c) i = if Z.testbit c i then Z.testbit a i else Z.testbit b i && (i <? N))).
Proof. exact (conj sat_s_spec (conj sat_u_spec (conj lane_ops_spec bitwise_lane_spec))). Qed.

Lemma narrow_lanes_exhaustive_all :
  (forall a b, 0 <= a < 256 -> 0 <= b < 256 -> i8_pair_ok a b = true) /\
  (forall x, 0 <= x < 65536 -> i16_value_ok x = true).
Proof. exact (conj i8_pairs_all i16_values_all). Qed.
