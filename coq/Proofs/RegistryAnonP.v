(* Proofs about Rt/RegistryAnon.v (C10: anonymous modules, the registration window, Runtime.Close sweeping the list). *)
From Coq Require Import List Bool Arith ZArith Lia.
From Verif Require Import Rt.Registry Rt.RegistryAnon Rt.RegistrySweep Proofs.RegistryP.
Import ListNotations.

(* ================================================================== 0. the parametrised step, real variant = Registry.v *)
Lemma mstep_v_real s m k : mstep_v RegReal s m k = mstep s m k.
Proof. reflexivity. Qed.

Lemma tstep_v_real a c k : tstep_v RegReal a c k = tstep a c k.
Proof. reflexivity. Qed.

Lemma run_sched_v_real a sched : forall c, run_sched_v RegReal a c sched = run_sched a c sched.
Proof.
  induction sched as [|k r IH]; intros c; cbn [run_sched_v run_sched]; [reflexivity|].
  rewrite tstep_v_real. destruct (tstep a c k); [apply IH|reflexivity].
Qed.

Lemma run_sched_app a s1 : forall c c1 s2, run_sched a c s1 = Some c1 -> run_sched a c (s1 ++ s2) = run_sched a c1 s2.
Proof.
  induction s1 as [|k r IH]; intros c c1 s2 H; cbn in H |- *.
  - inversion H; reflexivity.
  - destruct (tstep a c k) as [c'|]; [|discriminate]. eapply IH; exact H.
Qed.

(* ================================================================== 1. what one micro step leaves to do *)
Lemma mstep_tail s m k : is_ret m = false ->
  snd (mstep s m k) = k \/
  (exists r, snd (mstep s m k) = [MRet r] /\ (r = RPanic -> m = MTypeIDs)) \/
  (exists i e, snd (mstep s m k) = close_fail i e /\ (e = RErrClosed \/ e = RErrDup)).
Proof.
  intros Hr. destruct m; try discriminate Hr; cbn [mstep];
    repeat match goal with |- context [if ?b then _ else _] => destruct b
                         | |- context [match nmap ?x with Some _ => _ | None => _ end] => destruct (nmap x) end;
    cbn [snd]; auto;
    try (right; left; eexists; split; [reflexivity|]; intros; try discriminate; reflexivity);
    try (right; right; do 2 eexists; split; [reflexivity|]; auto).
Qed.

(* ================================================================== 2. thread-local (syntactic) invariants *)
Section Local.
  Variable Q : op -> list micro -> Prop.
  Hypothesis Qc : forall o, Q o (compile o).
  Hypothesis Qs : forall o s m k, is_ret m = false -> Q o (m :: k) -> Q o (snd (mstep s m k)).

  Definition linv (c : config) : Prop :=
    (forall t o inv ms, In t (thrs c) -> cur t = Some (o, inv, ms) -> Q o ms) /\
    (forall e, In e (hist c) -> exists ms, Q (e_op e) (MRet (e_ret e) :: ms)).

  Lemma tstep_linv a c k c' : linv c -> tstep a c k = Some c' -> linv c'.
  Proof.
    intros [Ht Hh] H. apply tstep_cases in H. destruct H as (t & Hn & [H|[H|H]]).
    - destruct H as (o & rest & Hc & Hd & ->). split; cbn [step_invoke thrs hist]; [|exact Hh].
      intros t' o' inv' ms' Hin Hc'. apply in_replace_nth in Hin. destruct Hin as [->|Hin]; [|eauto].
      cbn in Hc'. inversion Hc'; subst. apply Qc.
    - destruct H as (o & inv & r & ms & Hc & ->). split; cbn [step_return thrs hist].
      + intros t' o' inv' ms' Hin Hc'. apply in_replace_nth in Hin. destruct Hin as [->|Hin]; [discriminate|eauto].
      + intros e [<-|He]; [|auto]. cbn [e_op e_ret]. exists ms. eapply Ht; [eapply nth_error_In; exact Hn|exact Hc].
    - destruct H as (o & inv & m & ms & Hc & Hr & ->). split; cbn [step_micro thrs hist]; [|exact Hh].
      intros t' o' inv' ms' Hin Hc'. apply in_replace_nth in Hin. destruct Hin as [->|Hin]; [|eauto].
      cbn in Hc'. inversion Hc'; subst. apply Qs; [exact Hr|]. eapply Ht; [eapply nth_error_In; exact Hn|exact Hc].
  Qed.

  Lemma init_linv s prog : linv (init s prog).
  Proof.
    split; cbn [init thrs hist]; [|intros e []].
    intros t o inv ms Hin Hc. apply in_map_iff in Hin. destruct Hin as (ops & <- & _). discriminate.
  Qed.
End Local.

Definition is_sweep (m : micro) : bool := match m with MStoreClose _ => true | _ => false end.
Definition is_rtcas (m : micro) : bool := match m with MRtCas _ => true | _ => false end.
Definition panicky (m : micro) : bool := match m with MTypeIDs => true | MRet RPanic => true | _ => false end.
Definition is_binary_inst (o : op) : bool := match o with OInst false _ _ => true | _ => false end.

(* only a Runtime.Close carries the flag CAS and the sweep; a binary instantiate never touches the type-id map *)
Definition Qloc (o : op) (ms : list micro) : Prop :=
  (existsb is_sweep ms = true -> is_rtclose o = true) /\
  (existsb is_rtcas ms = true -> is_rtclose o = true) /\
  (is_binary_inst o = true -> existsb panicky ms = false).

Lemma Qloc_compile o : Qloc o (compile o).
Proof. destruct o as [[|] n i|n|i c|i|c|h]; unfold Qloc; cbn; splits; auto; discriminate. Qed.

Lemma Qloc_step o s m k : is_ret m = false -> Qloc o (m :: k) -> Qloc o (snd (mstep s m k)).
Proof.
  intros Hr (A & B & C). cbn [existsb] in A, B, C.
  destruct (mstep_tail s m k Hr) as [E|[(r & E & Hp)|(i & e & E & He)]]; rewrite E; unfold Qloc; splits.
  - intros H. apply A. rewrite H. apply orb_true_r.
  - intros H. apply B. rewrite H. apply orb_true_r.
  - intros H. specialize (C H). apply orb_false_iff in C. tauto.
  - cbn. discriminate.
  - cbn. discriminate.
  - intros H. specialize (C H). apply orb_false_iff in C. destruct C as [C _]. cbn.
    destruct r; try reflexivity. rewrite (Hp eq_refl) in C. discriminate C.
  - cbn. discriminate.
  - cbn. discriminate.
  - intros _. destruct He as [->| ->]; reflexivity.
Qed.

Definition loc_inv := linv Qloc.
Lemma tstep_loc a c k c' : loc_inv c -> tstep a c k = Some c' -> loc_inv c'.
Proof. apply tstep_linv; [apply Qloc_compile|apply Qloc_step]. Qed.
Lemma init_loc s prog : loc_inv (init s prog).
Proof. apply init_linv. Qed.

(* ================================================================== 3. monotone facts of the store *)
Lemma mstep_registered_mono s m k i : In i (registered s) -> In i (registered (fst (mstep s m k))).
Proof.
  intros H. destruct m; cbn [mstep];
    repeat match goal with |- context [if ?b then _ else _] => destruct b
                         | |- context [match nmap ?x with Some _ => _ | None => _ end] => destruct (nmap x) end;
    cbn [fst registered set_closedw]; auto; try (right; exact H).
Qed.

(* once swept, the store stays swept: the map stays nil and nothing is linked any more *)
Lemma mstep_swept s m k : nmap s = None -> mlist s = [] ->
  nmap (fst (mstep s m k)) = None /\ mlist (fst (mstep s m k)) = [].
Proof.
  intros Hn Hl. destruct m; cbn [mstep]; rewrite ?Hn;
    repeat match goal with |- context [if ?b then _ else _] => destruct b end;
    cbn [fst nmap mlist set_closedw]; rewrite ?Hn, ?Hl; auto.
Qed.

Definition swept (c : config) : Prop := nmap (st c) = None /\ mlist (st c) = [].

Lemma tstep_swept a c k c' : swept c -> tstep a c k = Some c' -> swept c'.
Proof.
  intros [Hn Hl] H. apply tstep_cases in H. destruct H as (t & _ & [H|[H|H]]).
  - destruct H as (o & rest & _ & _ & ->). split; assumption.
  - destruct H as (o & inv & r & ms & _ & ->). split; assumption.
  - destruct H as (o & inv & m & ms & _ & _ & ->). unfold swept. cbn [step_micro st]. apply mstep_swept; assumption.
Qed.

Lemma run_sched_swept a sched : forall c c', swept c -> run_sched a c sched = Some c' -> swept c'.
Proof.
  induction sched as [|k r IH]; intros c c' Hi H; cbn in H.
  - inversion H; subst. exact Hi.
  - destruct (tstep a c k) as [c1|] eqn:Ht; [|discriminate]. eapply IH; [|exact H]. eapply tstep_swept; eauto.
Qed.

Lemma tstep_closed_mono a c k c' i : is_closed (st c) i = true -> tstep a c k = Some c' -> is_closed (st c') i = true.
Proof.
  intros Hc H. apply tstep_cases in H. destruct H as (t & _ & [H|[H|H]]).
  - destruct H as (o & rest & _ & _ & ->). exact Hc.
  - destruct H as (o & inv & r & ms & _ & ->). exact Hc.
  - destruct H as (o & inv & m & ms & _ & _ & ->). cbn [step_micro st]. apply mstep_closed_mono. exact Hc.
Qed.

Lemma run_sched_closed_mono a sched i : forall c c', is_closed (st c) i = true -> run_sched a c sched = Some c' ->
  is_closed (st c') i = true.
Proof.
  induction sched as [|k r IH]; intros c c' Hi H; cbn in H.
  - inversion H; subst. exact Hi.
  - destruct (tstep a c k) as [c1|] eqn:Ht; [|discriminate]. eapply IH; [|exact H]. eapply tstep_closed_mono; eauto.
Qed.

Lemma run_sched_loc a sched : forall c c', loc_inv c -> run_sched a c sched = Some c' -> loc_inv c'.
Proof.
  induction sched as [|k r IH]; intros c c' Hi H; cbn in H.
  - inversion H; subst. exact Hi.
  - destruct (tstep a c k) as [c1|] eqn:Ht; [|discriminate]. eapply IH; [|exact H]. eapply tstep_loc; eauto.
Qed.

(* ================================================================== 4. "Runtime.Close has completed" means: flag set and store swept *)
Definition base_rt (s : impl) : Prop := rt_closed s = true -> nmap s = None.

Definition rcinv (c : config) : Prop :=
  (forall e, In e (hist c) -> is_rtclose (e_op e) = true -> rt_closed (st c) = true) /\
  (forall t o inv ms, In t (thrs c) -> cur t = Some (o, inv, ms) -> is_rtclose o = true ->
     ms = compile o \/ rt_closed (st c) = true) /\
  (rt_closed (st c) = true -> nmap (st c) = None \/
     exists j t o inv x ms, nth_error (thrs c) j = Some t /\ cur t = Some (o, inv, MStoreClose x :: ms)).

Lemma mstep_nmap_none s m k : nmap s = None -> nmap (fst (mstep s m k)) = None.
Proof.
  intros Hn. destruct m; cbn [mstep]; rewrite ?Hn;
    repeat match goal with |- context [if ?b then _ else _] => destruct b end;
    cbn [fst nmap set_closedw]; rewrite ?Hn; auto.
Qed.

(* the flag is only ever set by the CAS of Runtime.Close, which goes on with the rest of that operation *)
Lemma mstep_sets_rt s m k : rt_closed s = false -> rt_closed (fst (mstep s m k)) = true ->
  exists x, m = MRtCas x /\ snd (mstep s m k) = k.
Proof.
  intros Hf. destruct m; cbn [mstep]; rewrite ?Hf;
    repeat match goal with |- context [if ?b then _ else _] => destruct b
                         | |- context [match nmap ?x with Some _ => _ | None => _ end] => destruct (nmap x) end;
    cbn [fst snd rt_closed set_closedw]; try congruence.
  intros _. eexists. split; reflexivity.
Qed.

Lemma nth_error_lt {A} (l : list A) k x : nth_error l k = Some x -> k < length l.
Proof. intros H. apply nth_error_Some. congruence. Qed.

Lemma tstep_rcinv a c k c' : loc_inv c -> rcinv c -> tstep a c k = Some c' -> rcinv c'.
Proof.
  intros [HL _] (H1 & H2 & H3) H. apply tstep_cases in H. destruct H as (t & Hn & [H|[H|H]]).
  - (* invocation *)
    destruct H as (o & rest & Hc & Hd & ->). unfold rcinv. cbn [step_invoke st hist thrs]. splits; [exact H1| |].
    + intros t' o' inv' ms' Hin Hc'. apply in_replace_nth in Hin. destruct Hin as [->|Hin]; [|eauto].
      cbn in Hc'. inversion Hc'; subst. auto.
    + intros Hrt. destruct (H3 Hrt) as [Hnil|(j & tj & oj & ij & x & msj & Hj & Hcj)]; [left; exact Hnil|right].
      exists j, tj, oj, ij, x, msj. split; [|exact Hcj].
      rewrite nth_error_replace_nth_neq; [exact Hj|]. intros ->. rewrite Hn in Hj. inversion Hj; subst. congruence.
  - (* response *)
    destruct H as (o & inv & r & ms & Hc & ->). unfold rcinv. cbn [step_return st hist thrs]. splits.
    + intros e [<-|He]; [|exact (H1 e He)]. cbn [e_op]. intros Ho.
      destruct (H2 _ _ _ _ (nth_error_In _ _ Hn) Hc Ho) as [E|E]; [|exact E].
      destruct o; try discriminate Ho. cbn in E. discriminate E.
    + intros t' o' inv' ms' Hin Hc'. apply in_replace_nth in Hin. destruct Hin as [->|Hin]; [discriminate|eauto].
    + intros Hrt. destruct (H3 Hrt) as [Hnil|(j & tj & oj & ij & x & msj & Hj & Hcj)]; [left; exact Hnil|right].
      exists j, tj, oj, ij, x, msj. split; [|exact Hcj].
      rewrite nth_error_replace_nth_neq; [exact Hj|]. intros ->. rewrite Hn in Hj. inversion Hj; subst. congruence.
  - (* micro step *)
    destruct H as (o & inv & m & ms & Hc & Hr & ->). unfold rcinv. cbn [step_micro st hist thrs].
    pose proof (HL _ _ _ _ (nth_error_In _ _ Hn) Hc) as (_ & QB & _).
    assert (Hflag : forall o' ms', is_rtclose o' = true -> ms' = compile o' \/ rt_closed (st c) = true ->
                    cur t = Some (o', inv, ms') -> rt_closed (fst (mstep (st c) m ms)) = true).
    { intros o' ms' Ho [E|E] Hc'; [|apply mstep_rt_closed; exact E].
      assert (Eo : o' = o) by congruence. assert (E' : m :: ms = compile o) by congruence. subst o'. clear E Hc'.
      destruct o; try discriminate Ho. cbn in E'. inversion E'; subst.
      cbn [mstep]. destruct (rt_closed (st c)) eqn:Hrt; cbn [fst rt_closed]; [exact Hrt|reflexivity]. }
    splits.
    + intros e He Ho. apply mstep_rt_closed. eauto.
    + intros t' o' inv' ms' Hin Hc' Ho. apply in_replace_nth in Hin. destruct Hin as [->|Hin].
      * cbn in Hc'. inversion Hc'; subst. right.
        eapply Hflag; [exact Ho| |exact Hc]. eapply H2; [eapply nth_error_In; exact Hn|exact Hc|exact Ho].
      * destruct (H2 _ _ _ _ Hin Hc' Ho) as [E|E]; [left; exact E|right; apply mstep_rt_closed; exact E].
    + intros Hrt'. destruct (rt_closed (st c)) eqn:Hrt.
      * destruct (H3 eq_refl) as [Hnil|(j & tj & oj & ij & x & msj & Hj & Hcj)].
        { left. apply mstep_nmap_none. exact Hnil. }
        destruct (Nat.eq_dec k j) as [->|Hne].
        { rewrite Hn in Hj. inversion Hj; subst tj. rewrite Hc in Hcj. inversion Hcj; subst. left. reflexivity. }
        right. exists j, tj, oj, ij, x, msj. split; [|exact Hcj]. rewrite nth_error_replace_nth_neq; [exact Hj|exact Hne].
      * destruct (mstep_sets_rt _ _ _ Hrt Hrt') as (x & -> & Ek). right.
        assert (Ho : is_rtclose o = true) by (apply QB; reflexivity).
        destruct (H2 _ _ _ _ (nth_error_In _ _ Hn) Hc Ho) as [E|E]; [|congruence].
        destruct o; try discriminate Ho. cbn in E. inversion E; subst.
        exists k. eexists. exists (ORtClose c0), inv, c0, [MEngClose; MRet ROk]. split.
        { apply nth_error_replace_nth_eq. eapply nth_error_lt; exact Hn. }
        cbn [cur]. rewrite Ek. reflexivity.
Qed.

Lemma run_sched_rcinv a sched : forall c c', loc_inv c -> rcinv c -> run_sched a c sched = Some c' -> rcinv c'.
Proof.
  induction sched as [|k r IH]; intros c c' HL Hi H; cbn in H.
  - inversion H; subst. exact Hi.
  - destruct (tstep a c k) as [c1|] eqn:Ht; [|discriminate].
    eapply IH; [eapply tstep_loc; eauto|eapply tstep_rcinv; eauto|exact H].
Qed.

Lemma init_rcinv s prog : base_rt s -> rcinv (init s prog).
Proof.
  intros Hb. unfold rcinv. cbn [init st hist thrs]. splits.
  - intros e [].
  - intros t o inv ms Hin Hc. apply in_map_iff in Hin. destruct Hin as (ops & <- & _). discriminate.
  - intros Hrt. left. exact (Hb Hrt).
Qed.

(* a Runtime.Close has returned and none is in progress: the flag is set and the store has been swept *)
Lemma rtclose_completed a s0 prog sched c : base_rt s0 -> run_sched a (init s0 prog) sched = Some c ->
  (exists e, In e (hist c) /\ is_rtclose (e_op e) = true) -> no_rtclose_in_flight c ->
  rt_closed (st c) = true /\ nmap (st c) = None.
Proof.
  intros Hb Hr (e & He & Ho) Hnone.
  pose proof (run_sched_loc _ _ _ _ (init_loc s0 prog) Hr) as [HL _].
  destruct (run_sched_rcinv _ _ _ _ (init_loc s0 prog) (init_rcinv s0 prog Hb) Hr) as (H1 & _ & H3).
  assert (Hrt : rt_closed (st c) = true) by (eapply H1; eauto). split; [exact Hrt|].
  destruct (H3 Hrt) as [Hnil|(j & tj & oj & ij & x & msj & Hj & Hcj)]; [exact Hnil|exfalso].
  pose proof (HL _ _ _ _ (nth_error_In _ _ Hj) Hcj) as (QA & _).
  rewrite (Hnone _ _ _ _ (nth_error_In _ _ Hj) Hcj) in QA. specialize (QA eq_refl). discriminate.
Qed.

(* ================================================================== 5. an instantiate returns ROk only for a registered (or already closed) instance *)
(* the rest [ms] of an operation cannot, as it stands, end in ROk before instance [i] has gone through registerModule *)
Fixpoint oksafe (i : inst) (ms : list micro) : bool :=
  match ms with
  | [] => true
  | MRet r :: _ => negb (ret_eqb r ROk)
  | MRegister _ j :: _ => j =? i
  | MCas j _ :: k => (j =? i) && oksafe i k
  | MRtCas _ :: _ => false
  | _ :: k => oksafe i k
  end.

Definition instinv (c : config) : Prop :=
  (forall e h n i, In e (hist c) -> e_op e = OInst h n i -> e_ret e = ROk ->
     In i (registered (st c)) \/ is_closed (st c) i = true) /\
  (forall t h n i inv ms, In t (thrs c) -> cur t = Some (OInst h n i, inv, ms) ->
     oksafe i ms = true \/ In i (registered (st c)) \/ is_closed (st c) i = true).

Lemma oksafe_compile h n i : oksafe i (compile (OInst h n i)) = true.
Proof. destruct h; cbn; rewrite Nat.eqb_refl; reflexivity. Qed.

Lemma mstep_oksafe s m k i : is_ret m = false -> oksafe i (m :: k) = true ->
  oksafe i (snd (mstep s m k)) = true \/ In i (registered (fst (mstep s m k))) \/ is_closed (fst (mstep s m k)) i = true.
Proof.
  intros Hr Hs. destruct m; try discriminate Hr; cbn [oksafe] in Hs; try discriminate Hs; cbn [mstep].
  - (* MChkRt *) destruct (rt_closed s); cbn [fst snd]; left; [reflexivity|exact Hs].
  - (* MTypeIDs *) destruct (nmap s); cbn [fst snd]; left; [exact Hs|reflexivity].
  - (* MBuild *) destruct (eng_closed s); cbn [fst snd]; left; [reflexivity|exact Hs].
  - (* MRegister *) apply Nat.eqb_eq in Hs. subst i0.
    destruct (nmap s) as [mp|]; [destruct (negb (n =? 0) && is_some (lookup n mp))|]; cbn [fst snd].
    + left. cbn. rewrite Nat.eqb_refl. reflexivity.
    + right. left. cbn [registered]. left. reflexivity.
    + left. cbn. rewrite Nat.eqb_refl. reflexivity.
  - (* MAttach *) cbn [fst snd]. left. exact Hs.
  - (* MCas *) apply andb_true_iff in Hs. destruct Hs as [Hj Hs]. apply Nat.eqb_eq in Hj. subst i0.
    destruct (is_closed s i) eqn:Hc; cbn [fst snd]; [right; right; exact Hc|left; exact Hs].
  - (* MDelete *) cbn [fst snd]. left. exact Hs.
  - (* MRes *) cbn [fst snd]. left. exact Hs.
  - (* MLookup *) cbn [fst snd]. left. reflexivity.
  - (* MLoad *) cbn [fst snd]. left. reflexivity.
  - (* MStoreClose *) cbn [fst snd]. left. exact Hs.
  - (* MEngClose *) cbn [fst snd]. left. exact Hs.
Qed.

Lemma tstep_instinv a c k c' : instinv c -> tstep a c k = Some c' -> instinv c'.
Proof.
  intros [Hh Ht] H. apply tstep_cases in H. destruct H as (t & Hn & [H|[H|H]]).
  - destruct H as (o & rest & Hc & Hd & ->). split; cbn [step_invoke st thrs hist]; [exact Hh|].
    intros t' h n i inv' ms' Hin Hc'. apply in_replace_nth in Hin. destruct Hin as [->|Hin]; [|eauto].
    cbn in Hc'. inversion Hc'; subst. left. apply oksafe_compile.
  - destruct H as (o & inv & r & ms & Hc & ->). split; cbn [step_return st thrs hist].
    + intros e h n i [<-|He]; [|eauto]. cbn [e_op e_ret]. intros -> ->.
      destruct (Ht _ _ _ _ _ _ (nth_error_In _ _ Hn) Hc) as [E|E]; [discriminate E|exact E].
    + intros t' h n i inv' ms' Hin Hc'. apply in_replace_nth in Hin. destruct Hin as [->|Hin]; [discriminate|eauto].
  - destruct H as (o & inv & m & ms & Hc & Hr & ->). split; cbn [step_micro st thrs hist].
    + intros e h n i He Ho Hret. destruct (Hh _ _ _ _ He Ho Hret) as [E|E];
        [left; apply mstep_registered_mono; exact E|right; apply mstep_closed_mono; exact E].
    + intros t' h n i inv' ms' Hin Hc'. apply in_replace_nth in Hin. destruct Hin as [->|Hin].
      * cbn in Hc'. inversion Hc'; subst.
        destruct (Ht _ _ _ _ _ _ (nth_error_In _ _ Hn) Hc) as [E|[E|E]].
        { apply mstep_oksafe; assumption. }
        { right. left. apply mstep_registered_mono. exact E. }
        { right. right. apply mstep_closed_mono. exact E. }
      * destruct (Ht _ _ _ _ _ _ Hin Hc') as [E|[E|E]]; [left; exact E| |].
        { right. left. apply mstep_registered_mono. exact E. }
        { right. right. apply mstep_closed_mono. exact E. }
Qed.

Lemma run_sched_instinv a sched : forall c c', instinv c -> run_sched a c sched = Some c' -> instinv c'.
Proof.
  induction sched as [|k r IH]; intros c c' Hi H; cbn in H.
  - inversion H; subst. exact Hi.
  - destruct (tstep a c k) as [c1|] eqn:Ht; [|discriminate]. eapply IH; [|exact H]. eapply tstep_instinv; eauto.
Qed.

Lemma init_instinv s prog : instinv (init s prog).
Proof.
  split; cbn [init st thrs hist]; [intros e h n i []|].
  intros t h n i inv ms Hin Hc. apply in_map_iff in Hin. destruct Hin as (ops & <- & _). discriminate.
Qed.

(* ================================================================== 6. after Runtime.Close: no instantiate ends with an open module *)
Lemma after_close_instantiate a s0 prog s1 c1 s2 c2 :
  base_reg s0 -> run_sched a (init s0 prog) s1 = Some c1 ->
  rt_closed (st c1) = true -> nmap (st c1) = None ->
  run_sched a c1 s2 = Some c2 ->
  rt_closed (st c2) = true /\ nmap (st c2) = None /\ mlist (st c2) = [] /\
  forall e h n i, In e (hist c2) -> e_op e = OInst h n i ->
    (e_ret e = ROk -> is_closed (st c2) i = true) /\
    (e_ret e = RPanic -> h = true) /\
    (clk c1 <= e_inv e -> e_ret e = RErrClosed).
Proof.
  intros Hb H1 Hrt Hnil H2.
  assert (H12 : run_sched a (init s0 prog) (s1 ++ s2) = Some c2) by (rewrite (run_sched_app _ _ _ _ _ H1); exact H2).
  destruct (store_closed_all_closed _ _ _ _ _ Hb H1 Hnil) as [Hl1 _].
  destruct (run_sched_swept _ _ _ _ (conj Hnil Hl1) H2) as [Hnil2 Hl2].
  destruct (store_closed_all_closed _ _ _ _ _ Hb H12 Hnil2) as [_ Hreg].
  destruct (after_rt_close_fail _ _ _ _ _ _ _ H1 Hrt H2) as [Hrt2 Hlate].
  destruct (run_sched_instinv _ _ _ _ (init_instinv s0 prog) H12) as [Hi _].
  destruct (run_sched_loc _ _ _ _ (init_loc s0 prog) H12) as [_ HLh].
  splits; try assumption.
  intros e h n i He Ho. splits.
  - intros Hret. destruct (Hi _ _ _ _ He Ho Hret) as [E|E]; [apply Hreg; exact E|exact E].
  - intros Hret. destruct (HLh e He) as (ms & _ & _ & QC). rewrite Ho, Hret in QC.
    destruct h; [reflexivity|]. specialize (QC eq_refl). discriminate QC.
  - intros Hinv. apply Hlate; [exact He|exact Hinv|rewrite Ho; reflexivity].
Qed.

(* the same with "Runtime.Close has completed" read off the history *)
Lemma after_close_returned_instantiate a s0 prog s1 c1 s2 c2 :
  base_reg s0 -> base_rt s0 -> run_sched a (init s0 prog) s1 = Some c1 ->
  (exists e, In e (hist c1) /\ is_rtclose (e_op e) = true) -> no_rtclose_in_flight c1 ->
  run_sched a c1 s2 = Some c2 ->
  forall e h n i, In e (hist c2) -> e_op e = OInst h n i ->
    (e_ret e = ROk -> is_closed (st c2) i = true) /\ (e_ret e = RPanic -> h = true) /\
    (clk c1 <= e_inv e -> e_ret e = RErrClosed).
Proof.
  intros Hb Hbr H1 Hex Hnone H2.
  destruct (rtclose_completed _ _ _ _ _ Hbr H1 Hex Hnone) as [Hrt Hnil].
  destruct (after_close_instantiate _ _ _ _ _ _ _ Hb H1 Hrt Hnil H2) as (_ & _ & _ & H). exact H.
Qed.

(* ================================================================== 7. the sweep closes every linked module, anonymous ones included *)
Lemma sweep_closes_listed s x k i : In i (mlist s) -> is_closed (fst (mstep s (MStoreClose x) k)) i = true.
Proof.
  intros Hin. unfold is_closed. cbn [mstep fst closedw]. rewrite lookup_app_map.
  set (live := dedup (filter (fun j => negb (is_closed s j)) (mlist s))).
  destruct (mem i live) eqn:Hm; [reflexivity|].
  destruct (is_some (lookup i (closedw s))) eqn:Hcl; [reflexivity|exfalso].
  assert (Hl : In i live). { apply dedup_in. apply filter_In. split; [exact Hin|]. unfold is_closed. rewrite Hcl. reflexivity. }
  apply mem_in in Hl. congruence.
Qed.

Lemma reach_reginv a s0 prog sched c : base_reg s0 -> run_sched a (init s0 prog) sched = Some c -> reginv c.
Proof.
  intros [B1 B2] Hr. eapply run_sched_reginv; [|exact Hr].
  unfold reginv. cbn [init st thrs]. splits; auto.
  intros t o inv ms i Hin Hc. apply in_map_iff in Hin. destruct Hin as (ops & <- & _). discriminate.
Qed.

Lemma close_sweeps a s0 prog s1 c1 k c1' s2 c2 :
  run_sched a (init s0 prog) s1 = Some c1 -> sweeping c1 k -> tstep a c1 k = Some c1' -> run_sched a c1' s2 = Some c2 ->
  (forall i, In i (mlist (st c1)) -> is_closed (st c2) i = true) /\
  (base_reg s0 -> forall i, In i (registered (st c1)) -> is_closed (st c2) i = true) /\
  mlist (st c2) = [] /\ nmap (st c2) = None.
Proof.
  intros H1 (t & o & inv & x & ms & Hn & Hc) Hs H2.
  apply tstep_cases in Hs. destruct Hs as (t' & Hn' & Hs). rewrite Hn in Hn'. inversion Hn'; subst t'. clear Hn'.
  destruct Hs as [(o' & rest & Hc' & _)|[(o' & inv' & r & ms' & Hc' & _)|(o' & inv' & m & ms' & Hc' & Hr & ->)]];
    try (rewrite Hc in Hc'; discriminate Hc').
  rewrite Hc in Hc'. inversion Hc'; subst o' inv' m ms'. clear Hc'.
  assert (Hsw : swept (step_micro a c1 k t o inv (MStoreClose x) ms)) by (split; reflexivity).
  destruct (run_sched_swept _ _ _ _ Hsw H2) as [Hnil2 Hl2].
  assert (Hlisted : forall i, In i (mlist (st c1)) -> is_closed (st c2) i = true).
  { intros i Hin. eapply run_sched_closed_mono; [|exact H2]. cbn [step_micro st]. apply sweep_closes_listed. exact Hin. }
  splits; [exact Hlisted| |exact Hl2|exact Hnil2].
  intros Hb i Hin. destruct (reach_reginv _ _ _ _ _ Hb H1) as (Hreg & _ & _).
  destruct (Hreg i Hin) as [E|E]; [apply Hlisted; exact E|].
  eapply run_sched_closed_mono; [|exact H2]. cbn [step_micro st]. apply mstep_closed_mono. exact E.
Qed.

(* ================================================================== 8. seed C10c: the closed-store test only on the named path *)
(* thread 0 instantiates an ANONYMOUS module and is stopped after Store.instantiate, before registerModule; thread 1 runs
   Runtime.Close to completion (flag, sweep, engine, return); thread 0 goes on *)
Definition anon_prog : list (list op) := [[OInst false 0 2]; [ORtClose 0]].
Definition anon_sched : list nat := [0;0;0; 1;1;1;1;1; 0;0;0].
Definition anon_sched_real : list nat := [0;0;0; 1;1;1;1;1; 0;0;0;0;0].   (* the refused instance is closed: three more steps *)
Definition named_prog : list (list op) := [[OInst false 1 2]; [ORtClose 0]].
(* ... and then reads the closed word of what it was given (api.Module.IsClosed) *)
Definition anon_prog_probe : list (list op) := [[OInst false 0 2; OIsClosed 2]; [ORtClose 0]].
Definition anon_sched_probe : list nat := anon_sched ++ [0;0;0].

Lemma anon_seeded_witness :
  exists c, run_sched_v RegSeeded true (init impl0 anon_prog_probe) anon_sched_probe = Some c /\ finished c = true /\
            rt_closed (st c) = true /\ nmap (st c) = None /\ eng_closed (st c) = true /\
            (exists e, In e (hist c) /\ e_op e = ORtClose 0 /\ e_ret e = ROk /\
                       exists e', In e' (hist c) /\ e_op e' = OInst false 0 2 /\ e_ret e' = ROk /\ e_res e < e_res e') /\
            map e_ret (filter (fun e => e_thr e =? 0) (rev (hist c))) = [ROk; RExit None] /\
            is_closed (st c) 2 = false /\ mlist (st c) = [2] /\ count 2 (res_log (st c)) = 0 /\
            ~ linearizable spec0 (hist c).
Proof.
  destruct (run_sched_v RegSeeded true (init impl0 anon_prog_probe) anon_sched_probe) as [c|] eqn:E; [|vm_compute in E; discriminate].
  exists c. split; [reflexivity|].
  assert (Hc : Some c = run_sched_v RegSeeded true (init impl0 anon_prog_probe) anon_sched_probe) by (symmetry; exact E).
  vm_compute in Hc. inversion Hc; subst c. clear Hc E.
  splits; try (vm_compute; reflexivity).
  - eexists. split; [right; right; left; reflexivity|]. splits; try reflexivity.
    eexists. split; [right; left; reflexivity|]. splits; try reflexivity. cbn. lia.
  - intros H. apply lin_check_complete in H. vm_compute in H. discriminate.
Qed.

(* the same interleaving on the real registerModule: the instantiate fails, its instance is closed and released *)
Lemma anon_real_same_schedule :
  exists c, run_sched true (init impl0 anon_prog) anon_sched_real = Some c /\ finished c = true /\
            map e_ret (filter (fun e => e_thr e =? 0) (hist c)) = [RErrClosed] /\
            is_closed (st c) 2 = true /\ count 2 (res_log (st c)) = 1 /\ mlist (st c) = [] /\
            lin_check spec0 (hist c) = true.
Proof. eexists. splits; vm_compute; reflexivity. Qed.

(* with the seeded function a NAMED module is still refused in the same window: only anonymous modules slip through *)
Lemma named_seeded_same_schedule :
  exists c, run_sched_v RegSeeded true (init impl0 named_prog) anon_sched_real = Some c /\ finished c = true /\
            map e_ret (filter (fun e => e_thr e =? 0) (hist c)) = [RErrClosed] /\ is_closed (st c) 2 = true /\ mlist (st c) = [].
Proof. eexists. splits; vm_compute; reflexivity. Qed.

(* ================================================================== 9. non-vacuity *)
(* Runtime.Close run to completion in each of the five windows of a binary instantiate, anonymous (name 0) and named
   (name 1): what the instantiate returns and whether it handed out a module that is open at the end *)
Example window_table_real :
  map (window_outcome RegReal impl0 0 2) all_windows =
    [Some ([RErrClosed], false); Some ([RErrClosed], false); Some ([RErrClosed], false); Some ([ROk], false); Some ([ROk], false)] /\
  map (window_outcome RegReal impl0 1 2) all_windows = map (window_outcome RegReal impl0 0 2) all_windows.
Proof. split; vm_compute; reflexivity. Qed.

Example window_table_seeded :
  map (window_outcome RegSeeded impl0 0 2) all_windows =
    [Some ([RErrClosed], false); Some ([RErrClosed], false); Some ([ROk], true); Some ([ROk], false); Some ([ROk], false)] /\
  map (window_outcome RegSeeded impl0 1 2) all_windows = map (window_outcome RegReal impl0 1 2) all_windows.
Proof. split; vm_compute; reflexivity. Qed.

(* exhaustively: in EVERY schedule (close-atomic or not) of an anonymous / a named / a host instantiate followed by IsClosed
   against one Runtime.Close, from a store holding a named and an anonymous module: at the end the list is empty, every
   instance that was built is closed, and no instantiate returned a module that is open *)
Definition pre_two : list op := [OInst false 1 1; OInst false 0 5].
Definition impl_two : impl := fst (run_ops impl0 pre_two).
Definition race_prog (h : bool) (n : name) : list (list op) := [[OInst h n 2; OIsClosed 2]; [ORtClose 3]].
Definition all_closed_end (c : config) : bool :=
  finished c && forallb (fun i => is_closed (st c) i || negb (mem i (map fst (iname (st c))))) [1; 5; 2] &&
  match mlist (st c) with [] => true | _ => false end &&
  forallb (fun e => match e_op e with OInst _ _ i => negb (ret_eqb (e_ret e) ROk) || is_closed (st c) i | _ => true end) (hist c).
Definition race_ok (a h : bool) (n : name) : bool :=
  check_all a all_closed_end (S (csize (init impl_two (race_prog h n)))) (init impl_two (race_prog h n)).

Example race_all_schedules :
  forallb (fun a => forallb (fun h => forallb (race_ok a h) [0; 1; 2]) [false; true]) [true; false] = true.
Proof. vm_compute. reflexivity. Qed.

Lemma base_reg_impl_two : base_reg impl_two.
Proof. split; [intros i Hi; left; vm_compute in Hi |- *; exact Hi|vm_compute; discriminate]. Qed.
Lemma base_rt_impl_two : base_rt impl_two.
Proof. vm_compute. discriminate. Qed.

(* the hypotheses of [after_close_instantiate] are met by the window schedule, and the conclusion is not vacuous: the
   instantiate of thread 0 returns after the close and fails *)
Example after_close_nonvacuous :
  exists c1 c2, run_sched true (init impl_two anon_prog) [0;0;0; 1;1;1;1;1] = Some c1 /\
                rt_closed (st c1) = true /\ nmap (st c1) = None /\ no_rtclose_in_flight c1 /\
                run_sched true c1 [0;0;0;0;0] = Some c2 /\ finished c2 = true /\
                map e_ret (hist c2) = [RErrClosed; ROk] /\
                forallb (is_closed (st c2)) [1; 5; 2] = true.
Proof.
  do 2 eexists. splits; try (vm_compute; reflexivity).
  intros t o inv ms Hin. vm_compute in Hin. destruct Hin as [<-|[<-|[]]]; cbn; intros H; inversion H; reflexivity.
Qed.

(* the sweep meets a named and an anonymous module in the list *)
Example sweep_nonvacuous :
  exists c1 c1', run_sched true (init impl_two [[ORtClose 4]]) [0;0] = Some c1 /\
                 mlist (st c1) = [5; 1] /\ lookup 5 (iname (st c1)) = Some 0 /\ lookup 1 (iname (st c1)) = Some 1 /\
                 is_closed (st c1) 5 = false /\ is_closed (st c1) 1 = false /\
                 tstep true c1 0 = Some c1' /\ (exists t, nth_error (thrs c1) 0 = Some t /\ cur t = Some (ORtClose 4, 0, [MStoreClose 4; MEngClose; MRet ROk])) /\
                 lookup 5 (closedw (st c1')) = Some 4 /\ lookup 1 (closedw (st c1')) = Some 4 /\ mlist (st c1') = [] /\ nmap (st c1') = None.
Proof.
  do 2 eexists. splits; try (vm_compute; reflexivity).
  eexists. split; vm_compute; reflexivity.
Qed.

(* F33 (open finding), as it shows in this window: a Runtime.Close that LOSES the flag CAS returns before the winner has
   swept; an anonymous instantiate that was past failIfClosed then registers and returns an OPEN module after that
   Close has returned. The module is closed by the winner's sweep. [no_rtclose_in_flight] excludes exactly this. *)
Example loser_close_returns_early :
  exists c1 c2, run_sched false (init impl0 [[OInst false 0 2]; [ORtClose 0]; [ORtClose 0]]) [0;0;0; 1;1; 2;2;2; 0;0;0] = Some c1 /\
                map (fun e => (e_thr e, e_ret e)) (hist c1) = [(0, ROk); (2, ROk)] /\
                rt_closed (st c1) = true /\ nmap (st c1) <> None /\ is_closed (st c1) 2 = false /\
                run_sched false c1 [1;1;1] = Some c2 /\ finished c2 = true /\ is_closed (st c2) 2 = true /\
                lin_check spec0 (hist c2) = true.
Proof. do 2 eexists. splits; try (vm_compute; reflexivity). vm_compute. discriminate. Qed.

(* ================================================================== 10. the sweep seen module by module (F33, finer symptom) *)
(* observed on the real code (concurrent run, 8 goroutines): while Runtime.Close(3) is running, IsClosed of the newer module 3
   already shows the runtime's exit code, and LATER IsClosed of the older module 1 still shows it open. Not explained when the
   sweep is one atomic effect (class 3 of Registry.classify); explained when the pending close may close modules one by one *)
Definition sweep_hist : list ev :=
  [{| e_thr := 8; e_op := OInst false 1 1; e_ret := ROk; e_inv := 1; e_res := 3 |};
   {| e_thr := 8; e_op := OInst false 3 3; e_ret := ROk; e_inv := 7; e_res := 9 |};
   {| e_thr := 1; e_op := ORtClose 3; e_ret := ROk; e_inv := 10; e_res := 28 |};
   {| e_thr := 4; e_op := OIsClosed 3; e_ret := RExit (Some 3); e_inv := 15; e_res := 16 |};
   {| e_thr := 5; e_op := OIsClosed 1; e_ret := RExit None; e_inv := 22; e_res := 23 |};
   {| e_thr := 8; e_op := OIsClosed 1; e_ret := RExit (Some 3); e_inv := 32; e_res := 33 |}].

Example sweep_module_by_module :
  classify spec0 sweep_hist = 3%Z /\ rlin2_check spec0 sweep_hist [1; 3] = true /\ rlin2_check spec0 sweep_hist [] = false.
Proof. splits; vm_compute; reflexivity. Qed.
