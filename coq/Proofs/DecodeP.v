(* C03: proofs about the DecodeModule model (coq/Wasm/Decode.v): no loop runs out of input-derived
   fuel (progress), the number of loop iterations is linear in the input length, and the
   allocation requested at guarded sites is linear in the input length.

   Method: a decoder d is "well behaved with constants k" (WB k d) when, on every input bs,
     - it never returns OutOfFuel,
     - on success it returns a suffix no longer than bs and its cost is at most k * (bytes consumed),
     - on failure its cost is at most k * |bs| + k,
   where the ag bound is only claimed when the 14ba147 guards are on (g_vec) and the au bound only
   when the export, name-map and byte-buffer sites are bounded as well (au_guarded, fixes 1, 3, 4). WB is closed under bind; vector loops
   add the element size to kg/ku and 1 to ks provided every element consumes at least one byte. *)
From Verif Require Import Lib.GoInt Wasm.Leb Wasm.Decode Proofs.LebP Gen.GenWasm Gen.GenBinary.
From Coq Require Import ZifyBool.
Open Scope Z_scope.
Ltac Zify.zify_post_hook ::= Z.div_mod_to_equations.
Ltac splits := repeat match goal with |- _ /\ _ => split end.

Record K := mkK { kg : Z; ku : Z; ks : Z }.
Definition Kpos (k : K) : Prop := 0 <= kg k /\ 0 <= ku k /\ 0 <= ks k.
Definition Kb (k : K) : Prop := 0 <= kg k /\ 1 <= ku k /\ 0 <= ks k.
Definition Kle (a b : K) : Prop := kg a <= kg b /\ ku a <= ku b /\ ks a <= ks b.

Lemma len_nonneg bs : 0 <= len bs.
Proof. unfold len. lia. Qed.
Lemma len_cons b bs : len (b :: bs) = len bs + 1.
Proof. unfold len. cbn [length]. lia. Qed.
Lemma len_nil : len [] = 0.
Proof. reflexivity. Qed.
Lemma len_skipn n bs : 0 <= n <= len bs -> len (skipn (Z.to_nat n) bs) = len bs - n.
Proof. unfold len. intros H. rewrite skipn_length. lia. Qed.
Lemma len_firstn n bs : 0 <= n <= len bs -> len (firstn (Z.to_nat n) bs) = n.
Proof. unfold len. intros H. rewrite firstn_length. lia. Qed.

Section WBsec.
Variable cf : cfg.

Definition bok (k : K) (c : cost) (m : Z) : Prop :=
  (g_vec cf = true -> ag c <= kg k * m) /\ (au_guarded cf = true -> au c <= ku k * m) /\ st c <= ks k * m.
Definition berr (k : K) (c : cost) (n : Z) : Prop :=
  (g_vec cf = true -> ag c <= kg k * n + kg k) /\ (au_guarded cf = true -> au c <= ku k * n + ku k) /\ st c <= ks k * n + ks k.

Definition WB (k : K) {A} (d : dec A) : Prop := forall bs,
  match d bs with
  | Ok _ r c => len r <= len bs /\ bok k c (len bs - len r)
  | Err c => berr k c (len bs)
  | OutOfFuel => False
  end.

Lemma au_guarded_true : au_guarded cf = true -> g_export cf = true /\ g_names cf = true /\ g_bytes cf = true.
Proof. unfold au_guarded. destruct (g_export cf), (g_names cf), (g_bytes cf); cbn; intros; try discriminate; auto. Qed.

Ltac bnd :=
  unfold bok, berr, cadd, tick, c0 in *; cbn [ag au st hot kg ku ks] in *; splits; intros;
  repeat match goal with H : ?P -> _, H' : ?P |- _ => specialize (H H') end;
  repeat match goal with H : au_guarded cf = true |- _ => apply au_guarded_true in H; destruct H as (? & ? & ?) end;
  try congruence; try lia; try nia.

(* a successful run consumes at least one byte *)
Definition Prog {A} (d : dec A) : Prop := forall bs a r c, d bs = Ok a r c -> len r < len bs.

Lemma wb_ret k A (a : A) : Kpos k -> WB k (ret a).
Proof. intros (P1&P2&P3) bs. unfold ret. bnd. Qed.

Lemma wb_fail k A : Kpos k -> WB k (@fail A).
Proof. intros (P1&P2&P3) bs. pose proof (len_nonneg bs). unfold fail. bnd. Qed.

Lemma wb_bind k A B (d : dec A) (f : A -> dec B) : WB k d -> (forall a, WB k (f a)) -> WB k (bind d f).
Proof.
  intros Hd Hf bs. unfold bind. specialize (Hd bs). destruct (d bs) as [a r c | c |]; [| exact Hd | exact Hd].
  destruct Hd as (Hl & Hg & Hu & Hs). specialize (Hf a r). destruct (f a r) as [b r' c' | c' |]; [| | exact Hf].
  - destruct Hf as (Hl' & Hg' & Hu' & Hs'). bnd.
  - destruct Hf as (Hg' & Hu' & Hs'). bnd.
Qed.

Lemma wb_mono k k' A (d : dec A) : Kle k k' -> Kpos k -> WB k d -> WB k' d.
Proof.
  intros (L1 & L2 & L3) (P1 & P2 & P3) H bs. specialize (H bs). pose proof (len_nonneg bs).
  destruct (d bs) as [a r c | c |]; [| | exact H].
  - destruct H as (Hl & Hg & Hu & Hs). pose proof (len_nonneg r). bnd.
  - destruct H as (Hg & Hu & Hs). bnd.
Qed.

Lemma prog_bind k A B (d : dec A) (f : A -> dec B) : Prog d -> (forall a, WB k (f a)) -> Prog (bind d f).
Proof.
  intros Hd Hf bs b r c. unfold bind. destruct (d bs) as [a r1 c1 | |] eqn:E; try discriminate.
  specialize (Hd _ _ _ _ E). specialize (Hf a r1). destruct (f a r1) as [b' r' c' | |]; try discriminate.
  intros H. inversion H; subst. lia.
Qed.

Lemma prog_if A (c : bool) (d1 d2 : dec A) : Prog d1 -> Prog d2 -> Prog (if c then d1 else d2).
Proof. destruct c; auto. Qed.

Lemma prog_fail A : Prog (@fail A).
Proof. intros bs a r c. unfold fail. discriminate. Qed.

(* ---- leaves ---- *)
Lemma wb_rbyte k : Kpos k -> WB k rbyte.
Proof.
  intros (P1&P2&P3) bs. unfold rbyte. destruct bs as [| b r].
  - rewrite len_nil. bnd.
  - rewrite len_cons. bnd.
Qed.
Lemma prog_rbyte : Prog rbyte.
Proof. intros bs a r c. unfold rbyte. destruct bs; try discriminate. intros H. inversion H; subst. rewrite len_cons. lia. Qed.

Lemma wb_of_lres k (l : lres) bs :
  Kpos k -> (forall v n, l = LOk v n -> 1 <= n <= len bs) ->
  match of_lres l bs with
  | Ok _ r c => len r < len bs /\ bok k c (len bs - len r)
  | Err c => berr k c (len bs)
  | OutOfFuel => False
  end.
Proof.
  intros (P1&P2&P3) H. pose proof (len_nonneg bs). unfold of_lres. destruct l as [v n | |].
  - specialize (H v n eq_refl). rewrite len_skipn by lia. bnd.
  - bnd.
  - bnd.
Qed.

Lemma wb_u32n k : Kpos k -> WB k u32n.
Proof.
  intros Hk bs. unfold u32n. pose proof (wb_of_lres k (DecodeUint32 bs) bs Hk) as H.
  assert (Hn : forall v n, DecodeUint32 bs = LOk v n -> 1 <= n <= len bs).
  { intros v n E. pose proof (DecodeUint32_len bs v n E). unfold len. lia. }
  specialize (H Hn). destruct (of_lres (DecodeUint32 bs) bs); [| exact H | exact H]. destruct H. split; [lia | assumption].
Qed.
Lemma prog_u32n : Prog u32n.
Proof.
  intros bs a r c. unfold u32n. pose proof (wb_of_lres (mkK 0 0 0) (DecodeUint32 bs) bs) as H.
  assert (Hn : forall v n, DecodeUint32 bs = LOk v n -> 1 <= n <= len bs).
  { intros v n E. pose proof (DecodeUint32_len bs v n E). unfold len. lia. }
  specialize (H ltac:(unfold Kpos; cbn; lia) Hn). intros E. rewrite E in H. lia.
Qed.

Lemma wb_u32 k : Kpos k -> WB k u32.
Proof. intros Hk. unfold u32. apply wb_bind; [apply wb_u32n; assumption | intro; apply wb_ret; assumption]. Qed.
Lemma prog_u32 : Prog u32.
Proof. unfold u32. apply prog_bind with (k := mkK 0 0 0); [apply prog_u32n | intro; apply wb_ret; unfold Kpos; cbn; lia]. Qed.

Lemma wb_s32 k : Kpos k -> WB k s32.
Proof.
  intros Hk. unfold s32. apply wb_bind; [| intro; apply wb_ret; assumption].
  intros bs. pose proof (wb_of_lres k (DecodeInt32 bs) bs Hk) as H.
  assert (Hn : forall v n, DecodeInt32 bs = LOk v n -> 1 <= n <= len bs).
  { intros v n E. pose proof (DecodeInt32_len bs v n E). unfold len. lia. }
  specialize (H Hn). destruct (of_lres (DecodeInt32 bs) bs); [| exact H | exact H]. destruct H. split; [lia | assumption].
Qed.
Lemma wb_s64 k : Kpos k -> WB k s64.
Proof.
  intros Hk. unfold s64. apply wb_bind; [| intro; apply wb_ret; assumption].
  intros bs. pose proof (wb_of_lres k (DecodeInt64 bs) bs Hk) as H.
  assert (Hn : forall v n, DecodeInt64 bs = LOk v n -> 1 <= n <= len bs).
  { intros v n E. pose proof (DecodeInt64_len bs v n E). unfold len. lia. }
  specialize (H Hn). destruct (of_lres (DecodeInt64 bs) bs); [| exact H | exact H]. destruct H. split; [lia | assumption].
Qed.

Lemma wb_u32_eof_ok k : Kpos k -> WB k u32_eof_ok.
Proof.
  intros (P1&P2&P3) bs. unfold u32_eof_ok. pose proof (len_nonneg bs).
  destruct (DecodeUint32 bs) as [v n | |] eqn:E.
  - pose proof (DecodeUint32_len bs v n E). rewrite len_skipn by (unfold len; lia). bnd.
  - rewrite len_nil. bnd.
  - bnd.
Qed.

Lemma wb_take k n : Kpos k -> WB k (take n).
Proof.
  intros (P1&P2&P3) bs. unfold take. pose proof (len_nonneg bs). destruct (n <=? len bs) eqn:E.
  - destruct (Z_le_gt_dec 0 n).
    + rewrite len_skipn by lia. bnd.
    + replace (Z.to_nat n) with O by lia. cbn [skipn]. bnd.
  - bnd.
Qed.

Lemma wb_guard k on n : Kpos k -> WB k (guard on n).
Proof.
  intros (P1&P2&P3) bs. unfold guard. pose proof (len_nonneg bs). destruct (on && (len bs <? n)).
  - bnd.
  - bnd.
Qed.

(* buf := make([]byte, n); io.ReadFull *)
Lemma wb_bytes_u k n : Kb k -> WB k (bytes_u cf n).
Proof.
  intros (P1&P2&P3) bs. unfold bytes_u, bind, guard, chg_u, take. pose proof (len_nonneg bs).
  destruct (g_bytes cf) eqn:G; cbn [andb].
  - destruct (len bs <? n) eqn:E1.
    + bnd.
    + assert (E2 : (n <=? len bs) = true) by lia. rewrite E2.
      destruct (Z_le_gt_dec 0 n).
      * rewrite len_skipn by lia. bnd.
      * replace (Z.to_nat n) with O by lia. cbn [skipn]. bnd.
  - destruct (n <=? len bs) eqn:E2.
    + destruct (Z_le_gt_dec 0 n).
      * rewrite len_skipn by lia. bnd.
      * replace (Z.to_nat n) with O by lia. cbn [skipn]. bnd.
    + bnd.
Qed.

(* the bytes returned by a successful bytes_u are n bytes when n >= 0 *)
Lemma bytes_u_ok n bs l r c : bytes_u cf n bs = Ok l r c -> len r <= len bs /\ (0 <= n -> len l = n /\ len bs - len r = n).
Proof.
  unfold bytes_u, bind, guard, chg_u, take. pose proof (len_nonneg bs).
  destruct (g_bytes cf && (len bs <? n)); try discriminate.
  destruct (n <=? len bs) eqn:E; try discriminate. intros H0. inversion H0; subst.
  destruct (Z_le_gt_dec 0 n).
  - rewrite len_skipn, len_firstn by lia. lia.
  - replace (Z.to_nat n) with O by lia. cbn [skipn]. lia.
Qed.

(* ---- vector loops ---- *)
Definition kstep (k : K) : K := mkK (kg k) (ku k) (ks k + 1).

Lemma vec_go_spec k A (body : A -> dec A) :
  (forall a, WB k (body a)) -> (forall a, Prog (body a)) -> Kpos k ->
  forall fuel cnt a bs, (length bs < fuel)%nat ->
  match vec_go fuel cnt body a bs with
  | Ok _ r c => len r <= len bs /\ Z.max 0 cnt <= len bs - len r /\ bok (kstep k) c (len bs - len r)
  | Err c => berr (kstep k) c (len bs)
  | OutOfFuel => False
  end.
Proof.
  intros Hb Hp (P1 & P2 & P3). induction fuel as [| f IH]; intros cnt a bs Hf; [lia |].
  pose proof (len_nonneg bs) as Hn. cbn [vec_go]. destruct (cnt <=? 0) eqn:Ec.
  - bnd.
  - specialize (Hb a bs). pose proof (Hp a bs) as Hpa. destruct (body a bs) as [a' r c | c |]; [| | exact Hb].
    + destruct Hb as (Hl & Hg & Hu & Hs). specialize (Hpa a' r c eq_refl).
      assert (Hf' : (length r < f)%nat) by (unfold len in *; lia).
      specialize (IH (cnt - 1) a' r Hf'). pose proof (len_nonneg r).
      destruct (vec_go f (cnt - 1) body a' r) as [a'' r' c' | c' |]; [| | exact IH].
      * destruct IH as (Hl' & Hc' & Hg' & Hu' & Hs'). unfold kstep in *. bnd.
      * destruct IH as (Hg' & Hu' & Hs'). unfold kstep in *. bnd.
    + destruct Hb as (Hg & Hu & Hs). unfold kstep in *. bnd.
Qed.

Lemma vec_spec k A (body : A -> dec A) cnt a :
  (forall a, WB k (body a)) -> (forall a, Prog (body a)) -> Kpos k ->
  forall bs, match vec cnt body a bs with
  | Ok _ r c => len r <= len bs /\ Z.max 0 cnt <= len bs - len r /\ bok (kstep k) c (len bs - len r)
  | Err c => berr (kstep k) c (len bs)
  | OutOfFuel => False
  end.
Proof. intros Hb Hp Hk bs. unfold vec. apply vec_go_spec; auto. Qed.

Lemma wb_vec k A (body : A -> dec A) cnt a :
  (forall a, WB k (body a)) -> (forall a, Prog (body a)) -> Kpos k -> WB (kstep k) (vec cnt body a).
Proof.
  intros Hb Hp Hk bs. pose proof (vec_spec k A body cnt a Hb Hp Hk bs) as H.
  destruct (vec cnt body a bs); [| exact H | exact H]. destruct H as (? & ? & ?). split; assumption.
Qed.

(* guarded vector (commit 14ba147) *)
Lemma gvec_spec k A E vs (body : A -> dec A) a :
  0 <= E -> (forall a, WB k (body a)) -> (forall a, Prog (body a)) -> Kpos k ->
  forall bs, match gvec cf E vs body a bs with
  | Ok _ r c => len r <= len bs /\ Z.max 0 vs <= len bs - len r /\ bok (mkK (kg k + E) (ku k) (ks k + 1)) c (len bs - len r)
  | Err c => berr (mkK (kg k + E) (ku k) (ks k + 1)) c (len bs)
  | OutOfFuel => False
  end.
Proof.
  intros HE Hb Hp Hk bs. destruct Hk as (P1 & P2 & P3). pose proof (len_nonneg bs).
  unfold gvec, bind, guard, chg_g.
  destruct (g_vec cf && (len bs <? vs)) eqn:G.
  - bnd.
  - pose proof (vec_spec k A body vs a Hb Hp (conj P1 (conj P2 P3)) bs) as H0.
    destruct (vec vs body a bs) as [a' r c | c |]; [| | exact H0].
    + destruct H0 as (Hl & Hc & Hg & Hu & Hs). pose proof (len_nonneg r).
      assert (E * vs <= E * (len bs - len r)) by (apply Z.mul_le_mono_nonneg_l; lia).
      unfold kstep in *. bnd.
    + destruct H0 as (Hg & Hu & Hs).
      assert (g_vec cf = true -> E * vs <= E * len bs).
      { intros Hv. rewrite Hv in G. cbn in G. apply Z.mul_le_mono_nonneg_l; lia. }
      unfold kstep in *. bnd.
Qed.

Lemma wb_gvec k A E vs (body : A -> dec A) a :
  0 <= E -> (forall a, WB k (body a)) -> (forall a, Prog (body a)) -> Kpos k ->
  WB (mkK (kg k + E) (ku k) (ks k + 1)) (gvec cf E vs body a).
Proof.
  intros HE Hb Hp Hk bs. pose proof (gvec_spec k A E vs body a HE Hb Hp Hk bs) as H.
  destruct (gvec cf E vs body a bs); [| exact H | exact H]. destruct H as (? & ? & ?). split; assumption.
Qed.

(* a vector without a guard in HEAD: linear only when the hypothetical guard is on *)
Lemma wb_uvec k A site E vs (body : A -> dec A) a :
  0 <= E -> (forall a, WB k (body a)) -> (forall a, Prog (body a)) -> Kpos k ->
  WB (mkK (kg k) (ku k + E) (ks k + 1)) (uvec cf site E vs body a).
Proof.
  intros HE Hb Hp Hk bs. destruct Hk as (P1 & P2 & P3). pose proof (len_nonneg bs).
  unfold uvec, bind, guard, chg_u.
  destruct (g_export cf && (len bs <? vs)) eqn:G.
  - bnd.
  - pose proof (vec_spec k A body vs a Hb Hp (conj P1 (conj P2 P3)) bs) as H0.
    destruct (vec vs body a bs) as [a' r c | c |]; [| | exact H0].
    + destruct H0 as (Hl & Hc & Hg & Hu & Hs). pose proof (len_nonneg r).
      assert (E * vs <= E * (len bs - len r)) by (apply Z.mul_le_mono_nonneg_l; lia).
      unfold kstep in *. destruct (262144 <=? _); bnd.
    + destruct H0 as (Hg & Hu & Hs).
      assert (g_export cf = true -> E * vs <= E * len bs).
      { intros Hv. rewrite Hv in G. cbn in G. apply Z.mul_le_mono_nonneg_l; lia. }
      unfold kstep in *. destruct (262144 <=? _); bnd.
Qed.

(* a name-section map: preallocation capped by the remaining input when fix 3 is in *)
Lemma wb_cvec k A site E vs (body : A -> dec A) a :
  0 <= E -> (forall a, WB k (body a)) -> (forall a, Prog (body a)) -> Kpos k ->
  WB (mkK (kg k) (ku k + E) (ks k + 1)) (cvec cf site E vs body a).
Proof.
  intros HE Hb Hp Hk bs. destruct Hk as (P1 & P2 & P3). pose proof (len_nonneg bs).
  unfold cvec, bind, chg_u.
  pose proof (vec_spec k A body vs a Hb Hp (conj P1 (conj P2 P3)) bs) as H0.
  destruct (vec vs body a bs) as [a' r c | c |]; [| | exact H0].
  - destruct H0 as (Hl & Hc & Hg & Hu & Hs). pose proof (len_nonneg r).
    assert (g_names cf = true -> E * (if g_names cf then Z.min vs (len bs) else vs) <= E * (len bs - len r)).
    { intros Hv. rewrite Hv. apply Z.mul_le_mono_nonneg_l; lia. }
    unfold kstep in *. destruct (262144 <=? _); bnd.
  - destruct H0 as (Hg & Hu & Hs).
    assert (g_names cf = true -> E * (if g_names cf then Z.min vs (len bs) else vs) <= E * len bs).
    { intros Hv. rewrite Hv. apply Z.mul_le_mono_nonneg_l; lia. }
    unfold kstep in *. destruct (262144 <=? _); bnd.
Qed.


(* ---- while loops (section loop, name subsections) ---- *)
Lemma iter_go_spec k A (body : A -> dec (A * bool)) :
  (forall a, WB k (body a)) ->
  (forall a bs a' r c, body a bs = Ok (a', true) r c -> len r < len bs) -> Kpos k ->
  forall fuel a bs, (length bs < fuel)%nat ->
  match iter_go fuel body a bs with
  | Ok _ r c => len r <= len bs /\ bok (kstep k) c (len bs - len r)
  | Err c => berr (kstep k) c (len bs)
  | OutOfFuel => False
  end.
Proof.
  intros Hb Hp (P1 & P2 & P3). induction fuel as [| f IH]; intros a bs Hf; [lia |].
  pose proof (len_nonneg bs) as Hn. cbn [iter_go].
  specialize (Hb a bs). pose proof (Hp a bs) as Hpa. destruct (body a bs) as [[a' [|]] r c | c |]; [| | | exact Hb].
  - destruct Hb as (Hl & Hg & Hu & Hs). specialize (Hpa a' r c eq_refl).
    assert (Hf' : (length r < f)%nat) by (unfold len in *; lia).
    specialize (IH a' r Hf'). pose proof (len_nonneg r).
    destruct (iter_go f body a' r) as [a'' r' c' | c' |]; [| | exact IH].
    + destruct IH as (Hl' & Hg' & Hu' & Hs'). unfold kstep in *. bnd.
    + destruct IH as (Hg' & Hu' & Hs'). unfold kstep in *. bnd.
  - destruct Hb as (Hl & Hg & Hu & Hs). pose proof (len_nonneg r). unfold kstep in *. bnd.
  - destruct Hb as (Hg & Hu & Hs). unfold kstep in *. bnd.
Qed.

Lemma wb_iter k A (body : A -> dec (A * bool)) a :
  (forall a, WB k (body a)) ->
  (forall a bs a' r c, body a bs = Ok (a', true) r c -> len r < len bs) -> Kpos k ->
  WB (kstep k) (iter body a).
Proof. intros Hb Hp Hk bs. unfold iter. apply iter_go_spec; auto. Qed.

Lemma wb_sized k A size (d : dec A) : Kpos k -> WB k d -> WB k (sized size d).
Proof.
  intros (P1 & P2 & P3) H bs. unfold sized. specialize (H bs). pose proof (len_nonneg bs).
  destruct (d bs) as [a r c | c |]; [| exact H | exact H].
  destruct (len bs - len r =? size); [exact H |].
  destruct H as (Hl & Hg & Hu & Hs). pose proof (len_nonneg r). bnd.
Qed.


(* ---- the decoders of internal/wasm/binary ---- *)
Lemma Kb_pos k : Kb k -> Kpos k.
Proof. unfold Kb, Kpos. lia. Qed.
Hint Resolve Kb_pos : wb.

Definition kb0 : K := mkK 0 1 0.
Lemma kb0_b : Kb kb0. Proof. unfold Kb, kb0. cbn. lia. Qed.
Lemma kb0_p : Kpos kb0. Proof. unfold Kpos, kb0. cbn. lia. Qed.
Hint Resolve kb0_b kb0_p : wb.

Ltac kp := solve [assumption | apply Kb_pos; assumption | apply kb0_p | apply kb0_b | unfold Kpos, Kb, Kle, kb0 in *; cbn [kg ku ks] in *; lia].

Ltac wb1 :=
  lazymatch goal with
  | |- WB _ (bind _ _) => apply wb_bind; [| intro]
  | |- WB _ (ret _) => apply wb_ret; kp
  | |- WB _ fail => apply wb_fail; kp
  | |- WB _ rbyte => apply wb_rbyte; kp
  | |- WB _ u32n => apply wb_u32n; kp
  | |- WB _ u32 => apply wb_u32; kp
  | |- WB _ s32 => apply wb_s32; kp
  | |- WB _ s64 => apply wb_s64; kp
  | |- WB _ u32_eof_ok => apply wb_u32_eof_ok; kp
  | |- WB _ (take _) => apply wb_take; kp
  | |- WB _ (guard _ _) => apply wb_guard; kp
  | |- WB _ (bytes_u _ _) => apply wb_bytes_u; kp
  | |- WB _ (let _ := _ in _) => cbv zeta
  | |- WB _ (if ?c then _ else _) => destruct c
  | |- WB _ (match ?x with _ => _ end) => destruct x
  | |- WB _ _ => solve [eauto with wb]
  end.
Ltac wb := repeat wb1.

Ltac prg k0 :=
  eapply prog_bind with (k := k0);
  [ first [apply prog_rbyte | apply prog_u32 | apply prog_u32n | solve [eauto with prog]] | intro; wb ].

Lemma wb_valtypes k n : Kb k -> WB k (valtypes cf n).
Proof. intros Hk. unfold valtypes. wb. Qed.
Hint Resolve wb_valtypes : wb.

Lemma wb_utf8 k : Kb k -> WB k (utf8 cf).
Proof. intros Hk. unfold utf8. wb. Qed.
Hint Resolve wb_utf8 : wb.
Lemma prog_utf8 : Prog (utf8 cf).
Proof. unfold utf8. prg kb0. Qed.
Hint Resolve prog_utf8 : prog.

Lemma wb_functype k : Kb k -> WB k (functype cf).
Proof. intros Hk. unfold functype. wb. Qed.
Hint Resolve wb_functype : wb.
Lemma prog_functype : Prog (functype cf).
Proof. unfold functype. prg kb0. Qed.

Lemma wb_limits k : Kb k -> WB k limits.
Proof. intros Hk. unfold limits. wb. Qed.
Hint Resolve wb_limits : wb.

Lemma wb_table k : Kb k -> WB k table.
Proof. intros Hk. unfold table. wb. Qed.
Hint Resolve wb_table : wb.
Lemma prog_table : Prog table.
Proof. unfold table. prg kb0. Qed.

Lemma wb_memory k : Kb k -> WB k memory.
Proof. intros Hk. unfold memory. wb. Qed.
Hint Resolve wb_memory : wb.

Lemma wb_globaltype k : Kb k -> WB k globaltype.
Proof. intros Hk. unfold globaltype. wb. Qed.
Hint Resolve wb_globaltype : wb.
Lemma prog_globaltype : Prog globaltype.
Proof. unfold globaltype. prg kb0. Qed.
Hint Resolve prog_globaltype : prog.

Lemma wb_constexpr k : Kb k -> WB k constexpr.
Proof. intros Hk. unfold constexpr. wb. Qed.
Hint Resolve wb_constexpr : wb.
Lemma prog_constexpr : Prog constexpr.
Proof. unfold constexpr. prg kb0. Qed.
Hint Resolve prog_constexpr : prog.

Lemma wb_global k : Kb k -> WB k global.
Proof. intros Hk. unfold global. wb. Qed.
Lemma prog_global : Prog global.
Proof. unfold global. prg kb0. Qed.

Lemma wb_import k : Kb k -> WB k (import cf).
Proof. intros Hk. unfold import. wb. Qed.
Lemma prog_import : Prog (import cf).
Proof. unfold import. prg kb0. Qed.

Lemma wb_export k : Kb k -> WB k (export cf).
Proof. intros Hk. unfold export. wb. Qed.
Hint Resolve wb_export : wb.
Lemma prog_export : Prog (export cf).
Proof. unfold export. prg kb0. Qed.
Hint Resolve prog_export : prog.

(* a guarded vector whose elements are well behaved with k0, lifted to any larger k *)
Lemma wb_gvec' k k0 A E vs (body : A -> dec A) a :
  0 <= E -> (forall a, WB k0 (body a)) -> (forall a, Prog (body a)) -> Kpos k0 ->
  Kle (mkK (kg k0 + E) (ku k0) (ks k0 + 1)) k -> WB k (gvec cf E vs body a).
Proof.
  intros HE Hb Hp Hk Hle. eapply wb_mono; [exact Hle | | apply wb_gvec; assumption].
  unfold Kpos in *. cbn [kg ku ks]. lia.
Qed.
Lemma wb_uvec' k k0 A site E vs (body : A -> dec A) a :
  0 <= E -> (forall a, WB k0 (body a)) -> (forall a, Prog (body a)) -> Kpos k0 ->
  Kle (mkK (kg k0) (ku k0 + E) (ks k0 + 1)) k -> WB k (uvec cf site E vs body a).
Proof.
  intros HE Hb Hp Hk Hle. eapply wb_mono; [exact Hle | | apply wb_uvec; assumption].
  unfold Kpos in *. cbn [kg ku ks]. lia.
Qed.


Ltac kle := unfold Kle, Kpos, Kb, kb0 in *; cbn [kg ku ks] in *; lia.

(* sections: vectors of elements *)
Definition Ksec (k : K) : Prop := 88 <= kg k /\ 58 <= ku k /\ (au_guarded cf = true -> locals_max cf + 1 <= ku k) /\ 3 <= ks k.

Lemma wb_type_section k : Ksec k -> WB k (type_section cf).
Proof.
  intros (?&?&?&?). unfold type_section. apply wb_bind; [apply wb_u32; kle | intro vs].
  apply wb_gvec' with (k0 := kb0); [lia | intro; apply wb_functype; apply kb0_b | intro; apply prog_functype | apply kb0_p | kle].
Qed.
Lemma wb_import_section k : Ksec k -> WB k (import_section cf).
Proof.
  intros (?&?&?&?). unfold import_section. apply wb_bind; [apply wb_u32; kle | intro vs].
  apply wb_gvec' with (k0 := kb0); [lia | intro; apply wb_import; apply kb0_b | intro; apply prog_import | apply kb0_p | kle].
Qed.
Lemma wb_function_section k : Ksec k -> WB k (function_section cf).
Proof.
  intros (?&?&?&?). unfold function_section. apply wb_bind; [apply wb_u32; kle | intro vs].
  apply wb_bind; [| intro; apply wb_ret; kle].
  apply wb_gvec' with (k0 := kb0); [lia | intro; wb | intro; prg kb0 | apply kb0_p | kle].
Qed.
Lemma wb_table_section k : Ksec k -> WB k (table_section cf).
Proof.
  intros (?&?&?&?). unfold table_section. apply wb_bind; [apply wb_u32; kle | intro vs].
  apply wb_gvec' with (k0 := kb0); [lia | intro; apply wb_table; apply kb0_b | intro; apply prog_table | apply kb0_p | kle].
Qed.
Lemma wb_memory_section k : Ksec k -> WB k (memory_section cf).
Proof.
  intros (?&?&?&?). assert (Kb k) by kle. unfold memory_section. wb.
Qed.
Lemma wb_global_section k : Ksec k -> WB k (global_section cf).
Proof.
  intros (?&?&?&?). unfold global_section. apply wb_bind; [apply wb_u32; kle | intro vs].
  apply wb_gvec' with (k0 := kb0); [lia | intro; apply wb_global; apply kb0_b | intro; apply prog_global | apply kb0_p | kle].
Qed.
Lemma wb_export_section k : Ksec k -> WB k (export_section cf).
Proof.
  intros (?&?&?&?). unfold export_section. apply wb_bind; [apply wb_u32; kle | intro vs].
  apply wb_bind; [| intro; apply wb_ret; kle].
  apply wb_uvec' with (k0 := kb0); [lia | | | apply kb0_p | kle].
  - intro seen. pose proof kb0_b. wb.
  - intro seen. prg kb0.
Qed.

(* element section: vector of segments, each holding a guarded vector of 4-byte indices *)
Lemma wb_cvec' k k0 A site E vs (body : A -> dec A) a :
  0 <= E -> (forall a, WB k0 (body a)) -> (forall a, Prog (body a)) -> Kpos k0 ->
  Kle (mkK (kg k0) (ku k0 + E) (ks k0 + 1)) k -> WB k (cvec cf site E vs body a).
Proof.
  intros HE Hb Hp Hk Hle. eapply wb_mono; [exact Hle | | apply wb_cvec; assumption].
  unfold Kpos in *. cbn [kg ku ks]. lia.
Qed.

Definition kb1 : K := mkK 4 1 1.
Lemma wb_init_vec k : Kle kb1 k -> WB k (init_vec cf).
Proof.
  intros Hk. unfold init_vec. apply wb_bind; [apply wb_u32; unfold kb1 in *; kle | intro vs].
  apply wb_gvec' with (k0 := kb0); [lia | intro; pose proof kb0_b; wb | intro; prg kb0 | apply kb0_p | unfold kb1 in *; kle].
Qed.
Lemma wb_cexpr_vec k et : Kle kb1 k -> WB k (cexpr_vec cf et).
Proof.
  intros Hk. unfold cexpr_vec. apply wb_bind; [apply wb_u32; unfold kb1 in *; kle | intro vs].
  apply wb_gvec' with (k0 := kb0); [lia | intro; pose proof kb0_b; wb | intro; prg kb0 | apply kb0_p | unfold kb1 in *; kle].
Qed.
Hint Resolve wb_init_vec wb_cexpr_vec : wb.
Lemma wb_kind0 k : Kb k -> WB k kind0.
Proof. intros Hk. unfold kind0. wb. Qed.
Lemma wb_reftype k : Kb k -> WB k reftype.
Proof. intros Hk. unfold reftype. wb. Qed.
Hint Resolve wb_kind0 wb_reftype : wb.
Lemma wb_elem_segment k : Kle kb1 k -> WB k (elem_segment cf).
Proof.
  intros Hk. assert (Kb k) by (unfold kb1 in *; kle). unfold elem_segment. wb.
Qed.
Lemma prog_elem_segment : Prog (elem_segment cf).
Proof.
  unfold elem_segment. assert (Kle kb1 kb1) by (unfold kb1; kle). assert (Kb kb1) by (unfold kb1; kle). prg kb1.
Qed.
Lemma wb_element_section k : Ksec k -> WB k (element_section cf).
Proof.
  intros (?&?&?&?). unfold element_section. apply wb_bind; [apply wb_u32; kle | intro vs].
  apply wb_gvec' with (k0 := kb1); [lia | intro; apply wb_elem_segment; unfold kb1; kle | intro; apply prog_elem_segment | unfold kb1; kle | unfold kb1; kle].
Qed.

(* data section *)
Lemma wb_data_segment k : Kb k -> WB k (data_segment cf).
Proof. intros Hk. unfold data_segment. wb. Qed.
Lemma prog_data_segment : Prog (data_segment cf).
Proof. unfold data_segment. pose proof kb0_b. prg kb0. Qed.
Lemma wb_data_section k : Ksec k -> WB k (data_section cf).
Proof.
  intros (?&?&?&?). unfold data_section. apply wb_bind; [apply wb_u32; kle | intro vs].
  apply wb_gvec' with (k0 := kb0); [lia | intro; apply wb_data_segment; apply kb0_b | intro; apply prog_data_segment | apply kb0_p | kle].
Qed.


(* name section *)
Lemma wb_name_assoc k : Kb k -> WB k (name_assoc cf).
Proof. intros Hk. unfold name_assoc. wb. Qed.
Lemma prog_name_assoc : Prog (name_assoc cf).
Proof. unfold name_assoc. prg kb0. Qed.
Definition kn1 : K := mkK 0 25 1.
Definition kn2 : K := mkK 0 57 2.
Lemma wb_function_names k : Kle kn1 k -> WB k (function_names cf).
Proof.
  intros Hk. unfold function_names. apply wb_bind; [apply wb_u32; unfold kn1 in *; kle | intro c].
  apply wb_cvec' with (k0 := kb0); [lia | intro; apply wb_name_assoc; apply kb0_b | intro; apply prog_name_assoc | apply kb0_p | unfold kn1 in *; kle].
Qed.
Lemma wb_local_names k : Kle kn2 k -> WB k (local_names cf).
Proof.
  intros Hk. unfold local_names. apply wb_bind; [apply wb_u32; unfold kn2 in *; kle | intro c].
  apply wb_cvec' with (k0 := kn1); [lia | | | unfold kn1; kle | unfold kn1, kn2 in *; kle].
  - intros _. apply wb_bind; [apply wb_u32; unfold kn1; kle | intros _].
    apply wb_bind; [apply wb_u32; unfold kn1; kle | intro lc].
    apply wb_cvec' with (k0 := kb0); [lia | intro; apply wb_name_assoc; apply kb0_b | intro; apply prog_name_assoc | apply kb0_p | unfold kn1; kle].
  - intros _. eapply prog_bind with (k := kn1); [apply prog_u32 | intros _].
    apply wb_bind; [apply wb_u32; unfold kn1; kle | intro lc].
    apply wb_cvec' with (k0 := kb0); [lia | intro; apply wb_name_assoc; apply kb0_b | intro; apply prog_name_assoc | apply kb0_p | unfold kn1; kle].
Qed.
Hint Resolve wb_function_names wb_local_names : wb.

Lemma wb_name_sub_body k limit : Kle kn2 k -> WB k (name_sub_body cf limit).
Proof.
  intros Hk. assert (Kle kn1 k) by (unfold kn1, kn2 in *; kle). assert (Kb k) by (unfold kn2 in *; kle).
  unfold name_sub_body. wb.
Qed.
Lemma prog_name_sub_body limit : Prog (name_sub_body cf limit).
Proof.
  unfold name_sub_body. assert (Kle kn2 kn2) by (unfold kn2; kle). assert (Kle kn1 kn2) by (unfold kn1, kn2; kle).
  assert (Kb kn2) by (unfold kn2; kle). prg kn2.
Qed.
Lemma wb_name_subsection k limit : Kle kn2 k -> WB k (name_subsection cf limit).
Proof.
  intros Hk. assert (Kpos k) by (unfold kn2 in *; kle). unfold name_subsection. destruct (limit <=? 0); [apply wb_ret; assumption |].
  intros bs. destruct bs as [| b r].
  - destruct H as (P1&P2&P3). rewrite len_nil. bnd.
  - apply (wb_name_sub_body k limit Hk (b :: r)).
Qed.
Lemma name_subsection_prog a bs a' r c : name_subsection cf a bs = Ok (a', true) r c -> len r < len bs.
Proof.
  unfold name_subsection. destruct (a <=? 0).
  - unfold ret. intros H. inversion H.
  - destruct bs as [| b t]; [intros H; inversion H |]. apply prog_name_sub_body.
Qed.
Definition kn3 : K := mkK 0 57 3.
Lemma wb_name_section k limit : Kle kn3 k -> WB k (name_section cf limit).
Proof.
  intros Hk. unfold name_section. apply wb_bind; [| intro; apply wb_ret; unfold kn3 in *; kle].
  eapply wb_mono with (k := kstep kn2); [unfold kstep, kn2, kn3 in *; kle | unfold kstep, kn2; kle |].
  apply wb_iter; [intro; apply wb_name_subsection; unfold kn2; kle | apply name_subsection_prog | unfold kn2; kle].
Qed.
Hint Resolve wb_name_section : wb.

Lemma wb_custom_data k limit : Kb k -> WB k (custom_data cf limit).
Proof.
  intros (P1&P2&P3) bs. unfold custom_data, bind, guard, chg_u, read_once, take, ret. pose proof (len_nonneg bs).
  destruct (g_bytes cf) eqn:G; cbn [andb].
  - destruct (len bs <? limit) eqn:E1; [bnd |].
    destruct (fix_custom cf).
    + assert (E2 : (limit <=? len bs) = true) by lia. rewrite E2.
      destruct (Z_le_gt_dec 0 limit).
      * rewrite len_skipn by lia. bnd.
      * replace (Z.to_nat limit) with O by lia. cbn [skipn]. bnd.
    + destruct bs as [| b t]; [rewrite len_nil in *; bnd |].
      destruct (Z_le_gt_dec 0 limit).
      * rewrite len_skipn by lia. replace (Z.min limit (len (b :: t))) with limit by lia. bnd.
      * replace (Z.to_nat (Z.min limit (len (b :: t)))) with O by lia. cbn [skipn]. bnd.
  - destruct (fix_custom cf).
    + destruct (limit <=? len bs) eqn:E2; [| bnd].
      destruct (Z_le_gt_dec 0 limit).
      * rewrite len_skipn by lia. bnd.
      * replace (Z.to_nat limit) with O by lia. cbn [skipn]. bnd.
    + destruct bs as [| b t]; [rewrite len_nil in *; bnd |].
      destruct (Z_le_gt_dec 0 limit).
      * rewrite len_skipn by lia. bnd.
      * replace (Z.to_nat (Z.min limit (len (b :: t)))) with O by lia. cbn [skipn]. bnd.
Qed.
Hint Resolve wb_custom_data : wb.
Lemma wb_custom_section k size s : Kle kn3 k -> WB k (custom_section cf size s).
Proof.
  intros Hk. assert (Kb k) by (unfold kn3 in *; kle). unfold custom_section. wb.
Qed.

(* code section: the two passes over the local groups *)
Definition NoCost {A} (d : dec A) : Prop :=
  forall bs, match d bs with Ok _ _ c => c = c0 | Err c => c = c0 | OutOfFuel => True end.

Lemma vec_go_nocost A (body : A -> dec A) : (forall a, NoCost (body a)) ->
  forall fuel cnt a bs,
  match vec_go fuel cnt body a bs with
  | Ok _ _ c => ag c = 0 /\ au c = 0 /\ 0 <= st c <= Z.max 0 cnt
  | Err c => ag c = 0 /\ au c = 0 /\ 0 <= st c <= Z.max 0 cnt
  | OutOfFuel => True
  end.
Proof.
  intros Hn. induction fuel as [| f IH]; intros cnt a bs; cbn [vec_go]; destruct (cnt <=? 0) eqn:E.
  - cbn. lia.
  - exact I.
  - cbn. lia.
  - specialize (Hn a bs). destruct (body a bs) as [a' r c | c |]; [| | exact I].
    + subst c. specialize (IH (cnt - 1) a' r). destruct (vec_go f (cnt - 1) body a' r) as [a'' r' c' | c' |]; [| | exact I];
        unfold cadd, tick, c0; cbn [ag au st hot]; lia.
    + subst c. unfold cadd, tick, c0; cbn [ag au st hot]. lia.
Qed.

Lemma wb_peek_vec k A B cnt (b1 : A -> dec A) a1 (f : A -> dec B) :
  (forall a, NoCost (b1 a)) -> (forall a, WB (mkK 0 0 0) (b1 a)) -> (forall a, Prog (b1 a)) ->
  (forall x, WB k (f x)) ->
  (forall x bs b r c, f x bs = Ok b r c -> Z.max 0 cnt <= len bs - len r) ->
  Kpos k -> WB (kstep k) (bind (peek (vec cnt b1 a1)) f).
Proof.
  intros Hn Hw Hp Hf Hc (P1&P2&P3) bs. unfold bind, peek.
  assert (Hk0 : Kpos (mkK 0 0 0)) by (unfold Kpos; cbn; lia).
  pose proof (vec_spec (mkK 0 0 0) A b1 cnt a1 Hw Hp Hk0 bs) as Hv.
  pose proof (vec_go_nocost A b1 Hn (S (length bs)) cnt a1 bs) as Hz.
  unfold vec in *. pose proof (len_nonneg bs).
  destruct (vec_go (S (length bs)) cnt b1 a1 bs) as [x r1 c1 | c1 |]; [| | exact Hv].
  - destruct Hv as (Hl1 & Hcnt & _). destruct Hz as (Za & Zu & Zs). pose proof (len_nonneg r1).
    specialize (Hf x bs). pose proof (Hc x bs) as Hcx. destruct (f x bs) as [b r c | c |]; [| | exact Hf].
    + specialize (Hcx b r c eq_refl). destruct Hf as (Hl & Hg & Hu & Hs). unfold kstep. bnd.
    + destruct Hf as (Hg & Hu & Hs). unfold kstep. bnd.
  - destruct Hv as (Hg & Hu & Hs). destruct Hz as (Za & Zu & Zs). unfold kstep in *. bnd.
Qed.

Lemma nocost_local_group1 sum : NoCost (local_group1 sum).
Proof.
  intros bs. unfold local_group1, bind, u32n, of_lres, rbyte, ret, fail.
  destruct (DecodeUint32 bs) as [v n | |]; try reflexivity.
  destruct (skipn (Z.to_nat n) bs); try reflexivity.
  destruct (is_valtype z); reflexivity.
Qed.
Lemma wb_local_group1 k sum : Kpos k -> WB k (local_group1 sum).
Proof. intros Hk. unfold local_group1. wb. Qed.
Lemma prog_local_group1 sum : Prog (local_group1 sum).
Proof. unfold local_group1. prg kb0. Qed.
Lemma wb_local_group2 k rem : Kpos k -> WB k (local_group2 rem).
Proof. intros Hk. unfold local_group2. wb. Qed.
Lemma prog_local_group2 rem : Prog (local_group2 rem).
Proof. unfold local_group2. prg kb0. Qed.

Definition kc1 : K := mkK 0 1 1.
Lemma wb_code_rest k ls rem : Kle kc1 k -> WB k (code_rest cf ls rem).
Proof.
  intros Hk. assert (Kb k) by (unfold kc1 in *; kle). unfold code_rest. apply wb_bind; [| intro; wb].
  eapply wb_mono with (k := kstep (mkK 0 0 0)); [unfold kstep, kc1 in *; kle | unfold kstep; kle |].
  apply wb_vec; [intro; apply wb_local_group2; kle | intro; apply prog_local_group2 | kle].
Qed.

Lemma bytes_u_neg n bs l r c : bytes_u cf n bs = Ok l r c -> n < 0 -> l = [].
Proof.
  unfold bytes_u, bind, guard, chg_u, take.
  destruct (g_bytes cf && (len bs <? n)); try discriminate.
  destruct (n <=? len bs); try discriminate. intros H0 Hn. inversion H0; subst.
  replace (Z.to_nat n) with O by lia. reflexivity.
Qed.

Lemma code_rest_ok ls rem bs b r c :
  code_rest cf ls rem bs = Ok b r c -> 1 <= len bs - len r /\ Z.max 0 ls <= len bs - len r.
Proof.
  unfold code_rest, bind.
  assert (Hk0 : Kpos (mkK 0 0 0)) by (unfold Kpos; cbn; lia).
  pose proof (vec_spec (mkK 0 0 0) Z local_group2 ls rem (fun a => wb_local_group2 _ a Hk0) prog_local_group2 Hk0 bs) as Hv.
  destruct (vec ls local_group2 rem bs) as [rem' r1 c1 | |]; try discriminate.
  destruct Hv as (Hl1 & Hcnt & _).
  destruct (bytes_u cf rem' r1) as [body r2 c2 | |] eqn:Eb; try discriminate.
  pose proof (bytes_u_ok rem' r1 body r2 c2 Eb) as (Hl2 & Hb). pose proof (bytes_u_neg rem' r1 body r2 c2 Eb) as Hneg.
  destruct ((0 <? len body) && (last body 0 =? 11)) eqn:Ec; unfold ret, fail; try discriminate.
  intros H0. inversion H0; subst.
  destruct (Z_le_gt_dec 0 rem').
  - specialize (Hb l) as (Hb1 & Hb2). lia.
  - rewrite Hneg in Ec by lia. cbn in Ec. discriminate.
Qed.

Definition Kcode (k : K) : Prop := 0 <= kg k /\ 1 <= ku k /\ (au_guarded cf = true -> locals_max cf + 1 <= ku k) /\ 1 <= ks k.

Lemma wb_code_tail k ls rem sum : Kcode k -> WB k (code_tail cf ls rem sum).
Proof.
  intros (K1 & K2 & K3 & K4). unfold code_tail. destruct (locals_max cf <? sum) eqn:EL; [apply wb_fail; kle |].
  intros bs. unfold bind, chg_u. pose proof (len_nonneg bs).
  assert (Hk : Kle kc1 kc1) by (unfold kc1; kle).
  pose proof (wb_code_rest kc1 ls rem Hk bs) as Hw. pose proof (code_rest_ok ls rem bs) as Ho.
  destruct (code_rest cf ls rem bs) as [b r c | c |]; [| | exact Hw].
  - specialize (Ho b r c eq_refl) as (Ho1 & Ho2). destruct Hw as (Hl & Hg & Hu & Hs). unfold kc1 in *.
    destruct (262144 <=? _); bnd.
  - destruct Hw as (Hg & Hu & Hs). unfold kc1 in *. destruct (262144 <=? _); bnd.
Qed.

Lemma code_tail_ok ls rem sum bs b r c : code_tail cf ls rem sum bs = Ok b r c -> Z.max 0 ls <= len bs - len r.
Proof.
  unfold code_tail. destruct (locals_max cf <? sum); [unfold fail; discriminate |].
  unfold bind, chg_u. destruct (code_rest cf ls rem bs) as [b' r' c' | |] eqn:E; try discriminate.
  intros H0. inversion H0; subst. apply (code_rest_ok ls rem bs b r c' E).
Qed.

Definition Kcode2 (k : K) : Prop := 0 <= kg k /\ 1 <= ku k /\ (au_guarded cf = true -> locals_max cf + 1 <= ku k) /\ 2 <= ks k.

Lemma wb_code_entry k : Kcode2 k -> WB k (code_entry cf).
Proof.
  intros (K1 & K2 & K3 & K4). unfold code_entry.
  apply wb_bind; [apply wb_u32; kle | intro ss]. apply wb_bind; [apply wb_u32n; kle | intro p]. cbv zeta.
  destruct (ss - snd p <? 0); [apply wb_fail; kle |].
  eapply wb_mono with (k := kstep (mkK (kg k) (ku k) (ks k - 1))); [unfold kstep; kle | unfold kstep; kle |].
  apply wb_peek_vec.
  - intro; apply nocost_local_group1.
  - intro; apply wb_local_group1; kle.
  - intro; apply prog_local_group1.
  - intro sum. apply wb_code_tail. unfold Kcode. cbn [kg ku ks]. splits; try lia; try assumption.
  - intros x bs b r c. apply code_tail_ok.
  - kle.
Qed.
Lemma prog_code_entry : Prog (code_entry cf).
Proof.
  unfold code_entry. eapply prog_bind with (k := mkK 0 (Z.max 1 (locals_max cf + 1)) 2); [apply prog_u32 | intro ss].
  apply wb_bind; [apply wb_u32n; kle | intro p]. cbv zeta.
  destruct (ss - snd p <? 0); [apply wb_fail; kle |].
  eapply wb_mono with (k := kstep (mkK 0 (Z.max 1 (locals_max cf + 1)) 1)); [unfold kstep; kle | unfold kstep; kle |].
  apply wb_peek_vec.
  - intro; apply nocost_local_group1.
  - intro; apply wb_local_group1; kle.
  - intro; apply prog_local_group1.
  - intro sum. apply wb_code_tail. unfold Kcode. cbn [kg ku ks]. splits; try lia; try (intros _; lia).
  - intros x bs b r c. apply code_tail_ok.
  - kle.
Qed.

Lemma wb_code_section k : Ksec k -> WB k (code_section cf).
Proof.
  intros (?&?&?&?). unfold code_section. apply wb_bind; [apply wb_u32; kle | intro vs].
  apply wb_bind; [| intro; apply wb_ret; kle].
  apply wb_gvec' with (k0 := mkK 0 (ku k) 2); [lia | | intro; apply prog_code_entry | kle | kle].
  intros _. apply wb_code_entry. unfold Kcode2. cbn [kg ku ks]. splits; try lia; try assumption.
Qed.

(* the section loop and the whole decoder *)
Hint Resolve wb_type_section wb_import_section wb_function_section wb_table_section wb_memory_section
     wb_global_section wb_export_section wb_element_section wb_code_section wb_data_section : wb.

Lemma wb_section_body k id size s : Ksec k -> WB k (section_body cf id size s).
Proof.
  intros Hk. pose proof Hk as (?&?&?&?). assert (Kle kn3 k) by (unfold kn3; kle). assert (Kpos k) by kle.
  unfold section_body.
  destruct (id =? 0); [apply wb_custom_section; assumption |].
  wb.
Qed.

Lemma wb_section_step k s : Ksec k -> WB k (section_step cf s).
Proof.
  intros Hk. pose proof Hk as (?&?&?&?). assert (Kpos k) by kle. unfold section_step.
  apply wb_bind; [apply wb_rbyte; assumption | intro id]. apply wb_bind; [apply wb_u32; assumption | intro size].
  apply wb_bind; [apply wb_sized; [assumption | apply wb_section_body; assumption] | intro; apply wb_ret; assumption].
Qed.
Lemma prog_section_step s : Prog (section_step cf s).
Proof.
  unfold section_step. pose (k := mkK 88 (Z.max 58 (locals_max cf + 1)) 3).
  assert (Hk : Ksec k) by (unfold Ksec, k; cbn [kg ku ks]; splits; lia).
  assert (Kpos k) by (unfold k; kle).
  eapply prog_bind with (k := k); [apply prog_rbyte | intro id].
  apply wb_bind; [apply wb_u32; assumption | intro size].
  apply wb_bind; [apply wb_sized; [assumption | apply wb_section_body; assumption] | intro; apply wb_ret; assumption].
Qed.
Lemma wb_one_section k s : Ksec k -> WB k (one_section cf s).
Proof.
  intros Hk. pose proof Hk as (?&?&?&?). unfold one_section. intros bs. destruct bs as [| b r].
  - rewrite len_nil. bnd.
  - apply (wb_section_step k s Hk (b :: r)).
Qed.
Lemma one_section_prog s bs s' r c : one_section cf s bs = Ok (s', true) r c -> len r < len bs.
Proof.
  unfold one_section. destruct bs as [| b t]; [intros H; inversion H |]. apply prog_section_step.
Qed.

Lemma wb_header k : Kpos k -> WB k header.
Proof. intros Hk. unfold header. wb. Qed.

Definition Kmod (k : K) : Prop := 88 <= kg k /\ 58 <= ku k /\ (au_guarded cf = true -> locals_max cf + 1 <= ku k) /\ 4 <= ks k.

Lemma wb_DecodeModule k : Kmod k -> WB k (DecodeModule cf).
Proof.
  intros (?&?&?&?). assert (Kpos k) by kle. unfold DecodeModule.
  apply wb_bind; [apply wb_header; assumption | intros _].
  apply wb_bind; [| intro; wb].
  eapply wb_mono with (k := kstep (mkK (kg k) (ku k) 3)); [unfold kstep; kle | unfold kstep; kle |].
  assert (Hs : Ksec (mkK (kg k) (ku k) 3)) by (unfold Ksec; cbn [kg ku ks]; splits; try lia; try assumption).
  apply wb_iter; [intro; apply wb_one_section; exact Hs | intros; eapply one_section_prog; eassumption | kle].
Qed.

End WBsec.

(* ---- the theorems of coq/Properties/C03.v ---- *)

(* No loop of the decoder model ever exhausts its input-derived fuel, for every configuration of
   guards and every input; the number of loop iterations (section loop, every vector loop, name
   subsections, both passes over the local groups) is at most 4 * |input| + 4. *)
Lemma decode_progress : forall cf bs,
  out_of_fuel (DecodeModule cf bs) = false /\ st (cost_of (DecodeModule cf bs)) <= 4 * len bs + 4.
Proof.
  intros cf bs. pose (k := mkK 88 (Z.max 58 (locals_max cf + 1)) 4).
  assert (Hk : Kmod cf k) by (unfold Kmod, k; cbn [kg ku ks]; splits; lia).
  pose proof (wb_DecodeModule cf k Hk bs) as H. pose proof (len_nonneg bs).
  destruct (DecodeModule cf bs) as [a r c | c |]; [| | contradiction].
  - destruct H as (Hl & _ & _ & Hs). pose proof (len_nonneg r). unfold k in Hs; cbn [ks] in Hs. cbn [cost_of out_of_fuel]. split; [reflexivity | lia].
  - destruct H as (_ & _ & Hs). unfold k in Hs; cbn [ks] in Hs. cbn [cost_of out_of_fuel]. split; [reflexivity | lia].
Qed.

(* whenever the 14ba147 guards are on: what the twelve guarded sites request is linear in the input *)
Lemma alloc_linear_guarded_sites : forall cf bs, g_vec cf = true -> ag (cost_of (DecodeModule cf bs)) <= 88 * len bs + 88.
Proof.
  intros cf bs Hv. pose (k := mkK 88 (Z.max 58 (locals_max cf + 1)) 4).
  assert (Hk : Kmod cf k) by (unfold Kmod, k; cbn [kg ku ks]; splits; lia).
  pose proof (wb_DecodeModule cf k Hk bs) as H. pose proof (len_nonneg bs).
  destruct (DecodeModule cf bs) as [a r c | c |]; [| | contradiction].
  - destruct H as (Hl & Hg & _ & _). pose proof (len_nonneg r). specialize (Hg Hv). unfold k in Hg; cbn [kg] in Hg. cbn [cost_of]. lia.
  - destruct H as (Hg & _ & _). specialize (Hg Hv). unfold k in Hg; cbn [kg] in Hg. cbn [cost_of]. lia.
Qed.

(* with fixes 1, 3 and 4 in (any configuration with g_vec and au_guarded) the whole modelled allocation is
   linear, the constant being 146 plus the largest accepted number of locals of one function *)
Lemma alloc_linear_all_sites : forall cf bs, g_vec cf = true -> au_guarded cf = true -> 0 <= locals_max cf ->
  ag (cost_of (DecodeModule cf bs)) + au (cost_of (DecodeModule cf bs)) <= (146 + locals_max cf) * len bs + (146 + locals_max cf).
Proof.
  intros cf bs Hv Ha HL. pose (k := mkK 88 (58 + locals_max cf) 4).
  assert (Hk : Kmod cf k) by (unfold Kmod, k; cbn [kg ku ks]; splits; try lia).
  pose proof (wb_DecodeModule cf k Hk bs) as H. pose proof (len_nonneg bs).
  destruct (DecodeModule cf bs) as [a r c | c |]; [| | contradiction].
  - destruct H as (Hl & Hg & Hu & _). pose proof (len_nonneg r). specialize (Hg Hv). specialize (Hu Ha).
    unfold k in *; cbn [kg ku] in *. cbn [cost_of]. nia.
  - destruct H as (Hg & Hu & _). specialize (Hg Hv). specialize (Hu Ha).
    unfold k in *; cbn [kg ku] in *. cbn [cost_of]. nia.
Qed.

Lemma alloc_linear_coded : forall bs, ag (cost_of (DecodeModule coded bs)) <= 88 * len bs + 88.
Proof. intros bs. apply alloc_linear_guarded_sites. reflexivity. Qed.

Lemma alloc_linear_repaired : forall L bs, 0 <= L ->
  ag (cost_of (DecodeModule (repaired L) bs)) + au (cost_of (DecodeModule (repaired L) bs)) <= (146 + L) * len bs + (146 + L).
Proof. intros L bs HL. apply (alloc_linear_all_sites (repaired L) bs eq_refl eq_refl HL). Qed.

(* closed witnesses *)
Definition hdr : list Z := [0; 0x61; 0x73; 0x6d; 1; 0; 0; 0].

(* before commit 14ba147: 14 bytes request 2^24 FunctionType elements (1.25 GiB) *)
Definition in_type_2p24 : list Z := hdr ++ [1; 4; 0x80; 0x80; 0x80; 0x08].
Lemma amplification_before_fix :
  len in_type_2p24 = 14 /\ 80 * 2 ^ 24 <= ag (cost_of (DecodeModule before_fix in_type_2p24)).
Proof. split; [reflexivity | apply Z.leb_le; vm_compute; reflexivity]. Qed.
Lemma guard_effective :
  ag (cost_of (DecodeModule found_at_7267a3c in_type_2p24)) = 0 /\ au (cost_of (DecodeModule found_at_7267a3c in_type_2p24)) = 0.
Proof. split; vm_compute; reflexivity. Qed.

(* /repo at 7267a3c: the export vector, the locals of a VALID module, a name-section map, a byte buffer *)
Definition in_export_max : list Z := hdr ++ [7; 5; 0xff; 0xff; 0xff; 0xff; 0x0f].
Definition in_locals_max : list Z :=
  hdr ++ [1; 4; 1; 0x60; 0; 0] ++ [3; 2; 1; 0] ++ [10; 10; 1; 8; 1; 0xff; 0xff; 0xff; 0xff; 0x0f; 0x7f; 0x0b].
Definition in_names_max : list Z := hdr ++ [0; 11; 4; 0x6e; 0x61; 0x6d; 0x65; 1; 5; 0xff; 0xff; 0xff; 0xff; 0x0f].
Definition in_data_max : list Z := hdr ++ [11; 10; 1; 0; 0x41; 0; 0x0b; 0xff; 0xff; 0xff; 0xff; 0x0f].
Lemma amplification_remaining :
  (len in_export_max = 15 /\ 56 * (2 ^ 32 - 1) <= au (cost_of (DecodeModule found_at_7267a3c in_export_max))) /\
  (len in_locals_max = 30 /\ accepted (DecodeModule found_at_7267a3c in_locals_max) = true /\
     2 ^ 32 - 1 <= au (cost_of (DecodeModule found_at_7267a3c in_locals_max))) /\
  (len in_names_max = 22 /\ 24 * (2 ^ 32 - 1) <= au (cost_of (DecodeModule found_at_7267a3c in_names_max))) /\
  (len in_data_max = 20 /\ 2 ^ 32 - 1 <= au (cost_of (DecodeModule found_at_7267a3c in_data_max))).
Proof.
  splits; try reflexivity; try (apply Z.leb_le; vm_compute; reflexivity).
Qed.
(* with the patches of notes/fix-c03-{1,3,4}.patch three of the four are gone; the locals remain (open finding) *)
Lemma after_fixes :
  au (cost_of (DecodeModule (repaired 4294967295) in_export_max)) = 0 /\
  au (cost_of (DecodeModule (repaired 4294967295) in_names_max)) <= 24 /\
  au (cost_of (DecodeModule (repaired 4294967295) in_data_max)) = 0 /\
  accepted (DecodeModule (repaired 4294967295) in_locals_max) = true /\
  2 ^ 32 - 1 <= au (cost_of (DecodeModule (repaired 4294967295) in_locals_max)) /\
  accepted (DecodeModule (repaired 50000) in_locals_max) = false /\ au (cost_of (DecodeModule (repaired 50000) in_locals_max)) = 0.
Proof. splits; try (vm_compute; reflexivity); apply Z.leb_le; vm_compute; reflexivity. Qed.

(* decoder corner found while modelling: on 7267a3c a custom section with an empty payload is rejected when it
   is the last section (decodeCustomSection's single r.Read hits io.EOF) and accepted elsewhere; with
   notes/fix-c03-5.patch it is accepted in both places *)
Definition in_custom_empty_last : list Z := hdr ++ [1; 4; 1; 0x60; 0; 0] ++ [0; 2; 1; 0x61].
Definition in_custom_empty_mid : list Z := hdr ++ [0; 2; 1; 0x61] ++ [1; 4; 1; 0x60; 0; 0].
Lemma custom_empty_payload :
  accepted (DecodeModule found_at_7267a3c in_custom_empty_last) = false /\
  accepted (DecodeModule found_at_7267a3c in_custom_empty_mid) = true /\
  accepted (DecodeModule (repaired 4294967295) in_custom_empty_last) = true /\
  accepted (DecodeModule (repaired 4294967295) in_custom_empty_mid) = true.
Proof. splits; vm_compute; reflexivity. Qed.

(* non-vacuity: a small complete module (type, function, export, code with two local groups, name section) *)
Definition in_small_valid : list Z :=
  hdr ++ [1; 5; 1; 0x60; 0; 1; 0x7f] ++ [3; 2; 1; 0] ++ [7; 5; 1; 1; 0x66; 0; 0] ++
  [10; 10; 1; 8; 2; 1; 0x7f; 2; 0x7e; 0x41; 0; 0x0b] ++ [0; 9; 4; 0x6e; 0x61; 0x6d; 0x65; 0; 2; 1; 0x6d].
Example small_valid_accepted :
  accepted (DecodeModule found_at_7267a3c in_small_valid) = true /\ st (cost_of (DecodeModule found_at_7267a3c in_small_valid)) = 14 /\
  accepted (DecodeModule (repaired 50000) in_small_valid) = true /\ accepted (DecodeModule before_fix in_small_valid) = true /\
  accepted (DecodeModule coded in_small_valid) = true.
Proof. splits; vm_compute; reflexivity. Qed.
