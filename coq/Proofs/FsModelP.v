(* Proofs about Sys/FsModel.v (C16 part C): descriptor lifecycle, one consistent file content,
   visibility of directory changes. *)
From Verif Require Import Lib.GoInt Gen.GenC16Wasip1 Sys.DescTable Proofs.DescTableP Sys.FsModel.
From Coq Require Import ZifyBool.
Open Scope Z_scope.
Ltac Zify.zify_post_hook ::= Z.div_mod_to_equations.
Ltac splits := repeat match goal with |- _ /\ _ => split end.

(* ---------------------------------------------------------------- association lists *)
Section Assoc.
Context {A : Type}.
Implicit Types (l : list (Z * A)).

Lemma flookup_remove l k j : flookup (fremove l k) j = if k =? j then None else flookup l j.
Proof.
  unfold fremove. induction l as [|[k' v] r IH]; cbn [filter flookup fst].
  - destruct (k =? j); reflexivity.
  - destruct (Z.eqb_spec k' k) as [->|Hne]; cbn [negb].
    + rewrite IH. destruct (Z.eqb_spec k j); reflexivity.
    + cbn [flookup]. rewrite IH. destruct (Z.eqb_spec k' j), (Z.eqb_spec k j); try reflexivity. lia.
Qed.

Lemma flookup_set l k v j : flookup (fset l k v) j = if k =? j then Some v else flookup l j.
Proof.
  unfold fset. cbn [flookup]. rewrite flookup_remove. destruct (k =? j); reflexivity.
Qed.
End Assoc.

Lemma amem_keys (f : list (Z * fdent)) k :
  amem (map (fun kv => (fst kv, 0)) f) k = match flookup f k with Some _ => true | None => false end.
Proof.
  unfold amem. induction f as [|[k' v] r IH]; cbn [map alookup flookup fst]; [reflexivity|].
  destruct (k' =? k); [reflexivity|exact IH].
Qed.

(* lowest-free: the chosen descriptor is unused and every smaller one is in use *)
Lemma lowest_free_spec (f : list (Z * fdent)) :
  0 <= lowest_free f /\ flookup f (lowest_free f) = None /\
  (forall j, 0 <= j < lowest_free f -> flookup f j <> None).
Proof.
  unfold lowest_free. destruct (least_free_spec (map (fun kv => (fst kv, 0)) f)) as (H0 & H1 & H2).
  set (k := least_free _) in *. splits; auto.
  - rewrite amem_keys in H1. destruct (flookup f k); [discriminate|reflexivity].
  - intros j Hj. specialize (H2 j Hj). rewrite amem_keys in H2. destruct (flookup f j); [discriminate|discriminate].
Qed.

Lemma getfd_nonneg s fd e : getfd s fd = Some e -> 0 <= fd.
Proof. unfold getfd. destruct (Z.ltb_spec fd 0); [discriminate|lia]. Qed.

Lemma getfd_with_fds s f fd : getfd (with_fds s f) fd = if fd <? 0 then None else flookup f fd.
Proof. reflexivity. Qed.

(* ---------------------------------------------------------------- descriptor lifecycle *)
Definition same_desc (e e' : fdent) : Prop :=
  fe_kind e' = fe_kind e /\ fe_app e' = fe_app e /\ fe_r e' = fe_r e /\ fe_w e' = fe_w e.

(* the descriptor slots an operation may change *)
Definition fd_targets (s : st) (o : op) : list Z :=
  match o with
  | PathOpen _ _ _ _ _ => [lowest_free (s_fds s)]
  | FdClose fd => [fd]
  | FdRenumber a b => [a; b]
  | FdRead fd _ | FdWrite fd _ | FdSeek fd _ _ | FdTell fd => [fd]
  | _ => []
  end.

Ltac case_all :=
  repeat match goal with
         | |- context [match ?x with _ => _ end] => destruct x eqn:?
         end.

Lemma getfd_set s s0 fd e j : s_fds s0 = s_fds s -> 
  getfd (with_fds s0 (fset (s_fds s0) fd e)) j = if j <? 0 then None else if fd =? j then Some e else flookup (s_fds s) j.
Proof. intros H. rewrite getfd_with_fds, flookup_set, H. reflexivity. Qed.

Lemma step_fd_frame s o fd : ~ In fd (fd_targets s o) -> getfd (fst (step s o)) fd = getfd s fd.
Proof.
  intros Hn. destruct o; cbn [step fd_targets In] in *;
    unfold path_open, fd_close, fd_renumber, fd_read, fd_write, fd_pread, fd_pwrite, fd_seek, fd_setsize, fd_stat,
           mkdir, rmdir, unlink, stat, rename, with_base, with_base_ne;
    case_all; cbn [fst]; try reflexivity;
    unfold getfd; cbn [s_fds with_fds with_file with_tree];
    rewrite ?flookup_set, ?flookup_remove;
    repeat match goal with |- context [?a =? ?b] => destruct (Z.eqb_spec a b) end; try reflexivity;
    try (exfalso; apply Hn; auto; fail); subst; try (exfalso; apply Hn; auto; fail).
Qed.

Definition not_releasing (fd : Z) (o : op) : Prop :=
  match o with
  | FdClose x => x <> fd
  | FdRenumber a b => a <> fd /\ b <> fd
  | _ => True
  end.

Lemma same_desc_refl e : same_desc e e.
Proof. unfold same_desc. auto. Qed.
Lemma same_desc_trans a b c : same_desc a b -> same_desc b c -> same_desc a c.
Proof. unfold same_desc. intros (?&?&?&?) (?&?&?&?). splits; congruence. Qed.

Lemma getfd_lowest_free s : getfd s (lowest_free (s_fds s)) = None.
Proof.
  destruct (lowest_free_spec (s_fds s)) as (H0 & H1 & _). unfold getfd.
  destruct (Z.ltb_spec (lowest_free (s_fds s)) 0); [reflexivity|exact H1].
Qed.

Lemma step_keeps_desc s o fd e : getfd s fd = Some e -> not_releasing fd o ->
  exists e', getfd (fst (step s o)) fd = Some e' /\ same_desc e e'.
Proof.
  intros Hg Hnr. pose proof (getfd_nonneg s fd e Hg) as Hfd.
  destruct (in_dec Z.eq_dec fd (fd_targets s o)) as [Hin|Hnin].
  2:{ exists e. rewrite step_fd_frame by assumption. split; [exact Hg|apply same_desc_refl]. }
  destruct o as [d p ofl fdf r|x|a b|x lens|x ch|x lens off|x ch off|x off wh|x|x sz|x|d p|d p|d p|d p d2 q|d p];
    cbn [fd_targets In not_releasing] in *;
    try (exfalso; tauto);
    (destruct Hin as [Hin|[]]); try subst x.
  - (* PathOpen: the new descriptor is a free one *) rewrite <- Hin in Hg. rewrite getfd_lowest_free in Hg. discriminate.
  - cbn [step]. unfold fd_read. rewrite Hg. case_all; cbn [fst]; try (exists e; split; [exact Hg|apply same_desc_refl]);
      (eexists; rewrite (getfd_set s) by reflexivity; (destruct (Z.ltb_spec fd 0); [lia|]); rewrite Z.eqb_refl;
       split; [reflexivity|]; unfold same_desc, with_off; cbn; auto).
  - cbn [step]. unfold fd_write. rewrite Hg. case_all; cbn [fst]; try (exists e; split; [exact Hg|apply same_desc_refl]);
      (eexists; rewrite (getfd_set s) by reflexivity; (destruct (Z.ltb_spec fd 0); [lia|]); rewrite Z.eqb_refl;
       split; [reflexivity|]; unfold same_desc, with_off; cbn; auto).
  - cbn [step]. unfold fd_seek. rewrite Hg. case_all; cbn [fst]; try (exists e; split; [exact Hg|apply same_desc_refl]);
      (eexists; rewrite (getfd_set s) by reflexivity; (destruct (Z.ltb_spec fd 0); [lia|]); rewrite Z.eqb_refl;
       split; [reflexivity|]; unfold same_desc, with_off; cbn; auto).
  - cbn [step]. unfold fd_seek. rewrite Hg. case_all; cbn [fst]; try (exists e; split; [exact Hg|apply same_desc_refl]);
      (eexists; rewrite (getfd_set s) by reflexivity; (destruct (Z.ltb_spec fd 0); [lia|]); rewrite Z.eqb_refl;
       split; [reflexivity|]; unfold same_desc, with_off; cbn; auto).
Qed.

(* a descriptor stays open on the same file, with the same flags, for as long as no operation
   closes it, renumbers it away or renumbers another descriptor onto it *)
Lemma desc_valid_until_closed ops : forall s fd e, getfd s fd = Some e -> Forall (not_releasing fd) ops ->
  exists e', getfd (final s ops) fd = Some e' /\ same_desc e e'.
Proof.
  unfold final. induction ops as [|o r IH]; intros s fd e Hg Hall; cbn [fold_left].
  - exists e. split; [exact Hg|apply same_desc_refl].
  - inversion Hall as [|? ? Ho Hr]; subst.
    destruct (step_keeps_desc s o fd e Hg Ho) as (e1 & Hg1 & Hs1).
    destruct (IH (fst (step s o)) fd e1 Hg1 Hr) as (e2 & Hg2 & Hs2).
    exists e2. split; [exact Hg2|]. eapply same_desc_trans; eassumption.
Qed.

(* path_open hands out the lowest free descriptor, positioned at offset 0 *)
Lemma open_lowest_free s o s' fd : step s o = (s', OFd fd) ->
  0 <= fd /\ getfd s fd = None /\ (forall j, 0 <= j < fd -> getfd s j <> None) /\
  (exists e, getfd s' fd = Some e /\ fe_off e = 0) /\
  (forall j, j <> fd -> getfd s' j = getfd s j).
Proof.
  intros Hstep.
  assert (Hfd : fd = lowest_free (s_fds s) /\ exists e, getfd s' fd = Some e /\ fe_off e = 0).
  { destruct o; cbn [step] in Hstep;
      unfold path_open, fd_close, fd_renumber, fd_read, fd_write, fd_pread, fd_pwrite, fd_seek, fd_setsize, fd_stat,
             mkdir, rmdir, unlink, stat, rename, with_base, with_base_ne in Hstep;
      revert Hstep; case_all; intros Hstep; inversion Hstep; subst; clear Hstep;
      (split; [reflexivity|]); eexists;
      (destruct (lowest_free_spec (s_fds s)) as (H0 & _));
      unfold getfd; cbn [s_fds with_fds with_file]; rewrite flookup_set, Z.eqb_refl;
      (destruct (Z.ltb_spec (lowest_free (s_fds s)) 0); [lia|]); split; reflexivity. }
  destruct Hfd as [-> Hnew]. destruct (lowest_free_spec (s_fds s)) as (H0 & H1 & H2).
  splits; auto.
  - apply getfd_lowest_free.
  - intros j Hj. unfold getfd. destruct (Z.ltb_spec j 0); [lia|]. apply H2. exact Hj.
  - intros j Hj. replace s' with (fst (step s o)) by (rewrite Hstep; reflexivity).
    apply step_fd_frame. destruct o; cbn [step] in Hstep; cbn [fd_targets In]; try tauto;
      try (intros [E|[]]; congruence);
      exfalso; revert Hstep;
      unfold fd_close, fd_renumber, fd_read, fd_write, fd_seek; case_all; intros Hstep; discriminate.
Qed.

(* fd_renumber moves a descriptor; onto itself it changes nothing *)
Lemma renumber_moves s a b s' : fd_renumber s a b = (s', OOk) ->
  (a = b -> s' = s) /\
  (a <> b -> getfd s' b = getfd s a /\ getfd s' a = None /\ (forall j, j <> a -> j <> b -> getfd s' j = getfd s j) /\
             s_tree s' = s_tree s /\ s_files s' = s_files s).
Proof.
  intros H. unfold fd_renumber in H.
  destruct (getfd s a) as [e|] eqn:Hg; [|discriminate].
  destruct (Z.ltb_spec b 0); [discriminate|].
  destruct (is_preopen e); [discriminate|].
  destruct (Z.eqb_spec a b) as [->|Hne].
  - inversion H; subst. split; [reflexivity|intros Hc; contradiction].
  - assert (Hs' : s' = with_fds s (fset (fremove (s_fds s) a) b e)).
    { destruct (getfd s b) as [e2|]; [destruct (is_preopen e2); [discriminate|]|]; inversion H; reflexivity. }
    subst s'. split; [intros Hc; contradiction|]. intros _.
    pose proof (getfd_nonneg s a e Hg) as Ha. unfold getfd in *. cbn [s_fds with_fds s_tree s_files].
    destruct (Z.ltb_spec b 0); [lia|]. destruct (Z.ltb_spec a 0); [lia|].
    rewrite !flookup_set, !flookup_remove, Z.eqb_refl.
    splits; auto.
    + destruct (Z.eqb_spec b a); [lia|]. rewrite Z.eqb_refl. reflexivity.
    + intros j Hja Hjb. rewrite flookup_set, flookup_remove.
      destruct (Z.eqb_spec b j), (Z.eqb_spec a j); try lia; reflexivity.
Qed.

Lemma close_releases s fd s' : fd_close s fd = (s', OOk) ->
  getfd s' fd = None /\ (forall j, j <> fd -> getfd s' j = getfd s j) /\ s_tree s' = s_tree s /\ s_files s' = s_files s.
Proof.
  unfold fd_close. destruct (getfd s fd) eqn:Hg; intros H; inversion H; subst; clear H.
  unfold getfd; cbn [s_fds with_fds s_tree s_files]. splits; auto.
  - rewrite flookup_remove, Z.eqb_refl. destruct (fd <? 0); reflexivity.
  - intros j Hj. rewrite flookup_remove. destruct (Z.eqb_spec fd j); [lia|reflexivity].
Qed.

(* an operation on a descriptor that is not open fails with EBADF and changes nothing *)
Lemma closed_fd_ebadf s fd : getfd s fd = None ->
  forall o, In o [FdClose fd; FdRead fd [1]; FdWrite fd [[1]]; FdSeek fd 0 0; FdTell fd; FdSetSize fd 0; FdStat fd;
                  FdPread fd [1] 0; FdPwrite fd [[1]] 0; FdRenumber fd 0] ->
  step s o = (s, OErr ErrnoBadf).
Proof.
  intros Hg o Hin. cbn [In] in Hin.
  repeat (destruct Hin as [<-|Hin]; [cbn [step]; unfold fd_close, fd_read, fd_write, fd_seek, fd_setsize, fd_stat, fd_pread, fd_pwrite, fd_renumber; rewrite Hg; reflexivity|]).
  destruct Hin.
Qed.

(* ---------------------------------------------------------------- byte strings, pointwise *)
Definition bget (b : list Z) (i : Z) : Z := nth (Z.to_nat i) b 0.      (* bytes beyond the end read as 0 *)

Lemma nth_firstn' (l : list Z) n i : nth i (firstn n l) 0 = if (i <? n)%nat then nth i l 0 else 0.
Proof.
  revert n i. induction l as [|x l IH]; intros [|n] [|i]; cbn [firstn nth]; try reflexivity.
  - destruct (S i <? S n)%nat; reflexivity.
  - rewrite IH. change (S i <? S n)%nat with (i <? n)%nat. reflexivity.
Qed.
Lemma nth_skipn' (l : list Z) n i : nth i (skipn n l) 0 = nth (n + i) l 0.
Proof. revert l. induction n; intros [|x l]; cbn [skipn Nat.add nth]; auto. destruct i; reflexivity. Qed.
Lemma nth_app' (a b : list Z) i : nth i (a ++ b) 0 = if (i <? length a)%nat then nth i a 0 else nth (i - length a) b 0.
Proof.
  destruct (Nat.ltb_spec i (length a)); [apply app_nth1; assumption|apply app_nth2; assumption].
Qed.

Lemma sub_spec b off n : 0 <= off -> 0 <= n ->
  len (sub b off n) = Z.max 0 (Z.min n (len b - off)) /\
  forall i, 0 <= i < len (sub b off n) -> bget (sub b off n) i = bget b (off + i).
Proof.
  intros Ho Hn. unfold sub, len, bget. split.
  - rewrite firstn_length, skipn_length. lia.
  - intros i Hi. rewrite firstn_length, skipn_length in Hi. rewrite nth_firstn', nth_skipn'.
    destruct (Nat.ltb_spec (Z.to_nat i) (Z.to_nat n)); [f_equal; lia|lia].
Qed.

Lemma write_at_spec b off d : 0 <= off ->
  len (write_at b off d) = Z.max (len b) (off + len d) /\
  forall i, 0 <= i -> bget (write_at b off d) i = if (off <=? i) && (i <? off + len d) then bget d (i - off) else bget b i.
Proof.
  intros Ho. unfold write_at, len, bget.
  assert (Hfl : length (firstn (Z.to_nat off) (b ++ repeat 0 (Z.to_nat (off - Z.of_nat (length b))))) = Z.to_nat off).
  { rewrite firstn_length, app_length, repeat_length. lia. }
  split.
  - rewrite !app_length, Hfl, skipn_length. lia.
  - intros i Hi. rewrite nth_app', Hfl.
    destruct (Nat.ltb_spec (Z.to_nat i) (Z.to_nat off)).
    + destruct (Z.leb_spec off i); [lia|]. cbn [andb]. rewrite nth_firstn'.
      destruct (Nat.ltb_spec (Z.to_nat i) (Z.to_nat off)); [|lia]. rewrite nth_app'.
      destruct (Nat.ltb_spec (Z.to_nat i) (length b)); [reflexivity|].
      rewrite nth_repeat0. symmetry. apply nth_overflow. lia.
    + destruct (Z.leb_spec off i); [|lia]. cbn [andb]. rewrite nth_app'.
      destruct (Nat.ltb_spec (Z.to_nat i - Z.to_nat off) (length d)).
      * destruct (Z.ltb_spec i (off + Z.of_nat (length d))); [f_equal; lia|lia].
      * destruct (Z.ltb_spec i (off + Z.of_nat (length d))); [lia|]. rewrite nth_skipn'. f_equal. lia.
Qed.

Lemma resize_spec b n : 0 <= n ->
  len (resize b n) = n /\ forall i, 0 <= i -> bget (resize b n) i = if i <? n then bget b i else 0.
Proof.
  intros Hn. unfold resize, len, bget. split.
  - rewrite firstn_length, app_length, repeat_length. lia.
  - intros i Hi. rewrite nth_firstn'. destruct (Nat.ltb_spec (Z.to_nat i) (Z.to_nat n)).
    + destruct (Z.ltb_spec i n); [|lia]. rewrite nth_app'.
      destruct (Nat.ltb_spec (Z.to_nat i) (length b)); [reflexivity|]. rewrite nth_repeat0. symmetry. apply nth_overflow. lia.
    + destruct (Z.ltb_spec i n); [lia|reflexivity].
Qed.

(* ---------------------------------------------------------------- one consistent file content *)
Lemma content_with_file s ino b j : content (with_file s ino b) j = if ino =? j then b else content s j.
Proof. unfold content, with_file; cbn [s_files]. rewrite flookup_set. destruct (ino =? j); reflexivity. Qed.
Lemma content_with_fds s f j : content (with_fds s f) j = content s j.
Proof. reflexivity. Qed.
Lemma content_with_tree s t j : content (with_tree s t) j = content s j.
Proof. reflexivity. Qed.

(* the ways a file's bytes can change *)
Inductive mut := MWrite (pos : Z) (d : list Z) | MResize (n : Z).
Definition apply_mut (b : list Z) (m : mut) : list Z :=
  match m with MWrite pos d => write_at b pos d | MResize n => resize b n end.

Definition fd_of (s : st) (fd ino : Z) : option fdent :=
  match getfd s fd with
  | Some e => match fe_kind e with KFile i => if i =? ino then Some e else None | _ => None end
  | None => None
  end.

(* the mutation an operation performs on the file with inode [ino] (None: it leaves the file alone) *)
Definition file_effect (s : st) (o : op) (ino : Z) : option mut :=
  match o with
  | FdWrite fd ch =>
      match fd_of s fd ino with
      | Some e => if fe_w e && negb (len (concat ch) =? 0)
                  then Some (MWrite (if fe_app e then len (content s ino) else fe_off e) (concat ch)) else None
      | None => None
      end
  | FdPwrite fd ch off =>
      match fd_of s fd ino with
      | Some e => if fe_w e && negb (len (concat ch) =? 0) && negb (fe_app e) && (0 <=? off)
                  then Some (MWrite off (concat ch)) else None
      | None => None
      end
  | FdSetSize fd n =>
      match fd_of s fd ino with
      | Some e => if fe_w e && (0 <=? n) then Some (MResize n) else None
      | None => None
      end
  | PathOpen d p ofl fdf r =>     (* a successful open with O_TRUNC empties the file; a created file starts empty *)
      match step s o with
      | (_, OFd _) => match base s d with
                      | inr b => match resolve (s_tree s) (b ++ p) with
                                 | RNode (NFile i) => if (i =? ino) && bit ofl O_TRUNC then Some (MResize 0) else None
                                 | RFree => if s_next s =? ino then Some (MResize 0) else None
                                 | _ => None
                                 end
                      | inl _ => None
                      end
      | _ => None
      end
  | _ => None
  end.

Lemma fd_of_some s fd ino e : fd_of s fd ino = Some e -> getfd s fd = Some e /\ fe_kind e = KFile ino.
Proof.
  unfold fd_of. destruct (getfd s fd) as [e0|]; [|discriminate]. destruct (fe_kind e0) eqn:Hk; try discriminate.
  destruct (Z.eqb_spec ino0 ino); [|discriminate]. intros H; inversion H; subst. auto.
Qed.
Lemma fd_of_none s fd ino e : getfd s fd = Some e -> fd_of s fd ino = None -> fe_kind e <> KFile ino.
Proof.
  unfold fd_of. intros ->. destruct (fe_kind e); try discriminate. destruct (Z.eqb_spec ino0 ino); [discriminate|].
  intros _ H; inversion H; lia.
Qed.

Ltac finish_other :=
  rewrite ?content_with_fds, ?content_with_file;
  match goal with |- context [?a =? ?b] => destruct (Z.eqb_spec a b); [congruence|reflexivity] end.

Lemma content_step s o ino :
  content (fst (step s o)) ino =
  match file_effect s o ino with Some m => apply_mut (content s ino) m | None => content s ino end.
Proof.
  destruct o as [d p ofl fdf r|x|a b|x lens|x ch|x lens off|x ch off|x off wh|x|x sz|x|d p|d p|d p|d p d2 q|d p];
    cbn [file_effect].
  - (* PathOpen *)
    cbn [step]. unfold path_open. destruct (base s d) as [e|b]; [reflexivity|].
    destruct (bit ofl O_DIRECTORY && bit ofl O_CREAT); [reflexivity|].
    destruct (if bit r RIGHT_FD_READ && bit r RIGHT_FD_WRITE then _ else _) as [rd wr].
    destruct (resolve (s_tree s) (b ++ p)) as [| |[|i]|]; try reflexivity.
    + destruct (bit ofl O_CREAT && (bit ofl O_EXCL && negb (bit ofl O_DIRECTORY))); [reflexivity|].
      destruct (bit ofl O_CREAT || wr || bit ofl O_TRUNC); reflexivity.
    + destruct (bit ofl O_CREAT && (bit ofl O_EXCL && negb (bit ofl O_DIRECTORY))); [reflexivity|].
      destruct (bit ofl O_DIRECTORY); [reflexivity|]. cbn [fst].
      rewrite content_with_fds.
      destruct (bit ofl O_TRUNC); [|rewrite andb_false_r; reflexivity].
      rewrite content_with_file, andb_true_r. destruct (i =? ino); reflexivity.
    + destruct (bit ofl O_CREAT); [|reflexivity]. cbn [fst]. unfold content at 1; cbn [s_files].
      rewrite flookup_set. destruct (Z.eqb_spec (s_next s) ino) as [<-|]; reflexivity.
  - cbn [step]. unfold fd_close. destruct (getfd s x); reflexivity.
  - cbn [step]. unfold fd_renumber. case_all; reflexivity.
  - cbn [step]. unfold fd_read. case_all; reflexivity.
  - (* FdWrite *)
    cbn [step]. unfold fd_write. destruct (fd_of s x ino) as [e|] eqn:Hfd.
    + destruct (fd_of_some _ _ _ _ Hfd) as [Hg Hk]. rewrite Hg, Hk. cbn [andb].
      destruct (len (concat ch) =? 0); [rewrite andb_false_r; reflexivity|]. rewrite andb_true_r.
      destruct (fe_w e); cbn [negb fst]; [|reflexivity].
      rewrite content_with_fds, content_with_file, Z.eqb_refl. reflexivity.
    + destruct (getfd s x) as [e|] eqn:Hg; [|reflexivity]. pose proof (fd_of_none _ _ _ _ Hg Hfd) as Hk.
      case_all; cbn [fst]; try reflexivity; finish_other.
  - cbn [step]. unfold fd_pread. case_all; reflexivity.
  - (* FdPwrite *)
    cbn [step]. unfold fd_pwrite. destruct (fd_of s x ino) as [e|] eqn:Hfd.
    + destruct (fd_of_some _ _ _ _ Hfd) as [Hg Hk]. rewrite Hg, Hk.
      destruct (len (concat ch) =? 0); [rewrite andb_false_r; reflexivity|]. rewrite andb_true_r.
      destruct (fe_app e); [rewrite andb_false_r; reflexivity|]. rewrite andb_true_r.
      destruct (Z.ltb_spec off 0); [destruct (Z.leb_spec 0 off); [lia|]; rewrite andb_false_r; reflexivity|].
      destruct (Z.leb_spec 0 off); [|lia]. rewrite andb_true_r.
      destruct (fe_w e); cbn [negb fst]; [|reflexivity].
      rewrite content_with_file, Z.eqb_refl. reflexivity.
    + destruct (getfd s x) as [e|] eqn:Hg; [|reflexivity]. pose proof (fd_of_none _ _ _ _ Hg Hfd) as Hk.
      case_all; cbn [fst]; try reflexivity; finish_other.
  - cbn [step]. unfold fd_seek. case_all; reflexivity.
  - cbn [step]. unfold fd_seek. case_all; reflexivity.
  - (* FdSetSize *)
    cbn [step]. unfold fd_setsize. destruct (fd_of s x ino) as [e|] eqn:Hfd.
    + destruct (fd_of_some _ _ _ _ Hfd) as [Hg Hk]. rewrite Hg, Hk.
      destruct (Z.ltb_spec sz 0); [destruct (Z.leb_spec 0 sz); [lia|]; rewrite andb_false_r; reflexivity|].
      destruct (Z.leb_spec 0 sz); [|lia]. rewrite andb_true_r.
      destruct (fe_w e); cbn [negb fst]; [|reflexivity].
      rewrite content_with_file, Z.eqb_refl. reflexivity.
    + destruct (getfd s x) as [e|] eqn:Hg; [|reflexivity]. pose proof (fd_of_none _ _ _ _ Hg Hfd) as Hk.
      case_all; cbn [fst]; try reflexivity; finish_other.
  - cbn [step]. unfold fd_stat. case_all; reflexivity.
  - cbn [step]. unfold mkdir, with_base_ne. case_all; reflexivity.
  - cbn [step]. unfold rmdir, with_base_ne. case_all; reflexivity.
  - cbn [step]. unfold unlink, with_base_ne. case_all; reflexivity.
  - cbn [step]. unfold rename. case_all; reflexivity.
  - cbn [step]. unfold stat, with_base. case_all; reflexivity.
Qed.

(* the bytes of a file after any operation sequence: the mutations performed through its own
   descriptors (and truncating opens), in order, applied to a byte string — nothing else touches it *)
Fixpoint effects (s : st) (ops : list op) (ino : Z) : list mut :=
  match ops with
  | [] => []
  | o :: r => (match file_effect s o ino with Some m => [m] | None => [] end) ++ effects (fst (step s o)) r ino
  end.

Lemma file_history ops : forall s ino,
  content (final s ops) ino = fold_left apply_mut (effects s ops ino) (content s ino).
Proof.
  unfold final. induction ops as [|o r IH]; intros s ino; cbn [fold_left effects]; [reflexivity|].
  rewrite IH, content_step, fold_left_app. destruct (file_effect s o ino); reflexivity.
Qed.

(* whatever a read returns is a slice of THE content of the file the descriptor refers to, at the
   descriptor's offset (fd_read) or at the given offset (fd_pread) *)
Lemma read_sees_content s fd lens d : snd (step s (FdRead fd lens)) = OData d ->
  (sum lens = 0 /\ d = []) \/
  exists ino e, fd_of s fd ino = Some e /\ fe_r e = true /\ d = sub (content s ino) (fe_off e) (sum lens) /\
                exists e', getfd (fst (step s (FdRead fd lens))) fd = Some e' /\ fe_off e' = fe_off e + len d.
Proof.
  cbn [step]. unfold fd_read. destruct (getfd s fd) as [e|] eqn:Hg; [|discriminate].
  destruct (Z.eqb_spec (sum lens) 0); [intros Hx; inversion Hx; left; auto|].
  destruct (fe_kind e) eqn:Hk; try discriminate.
  destruct (fe_r e) eqn:Hr; [|discriminate]. cbn [negb snd fst]. intros Hx; inversion Hx; subst. right.
  exists ino, e. unfold fd_of. rewrite Hg, Hk, Z.eqb_refl. splits; auto.
  eexists. rewrite (getfd_set s s) by reflexivity. pose proof (getfd_nonneg s fd e Hg).
  destruct (Z.ltb_spec fd 0); [lia|]. rewrite Z.eqb_refl. split; reflexivity.
Qed.

Lemma pread_sees_content s fd lens off d : snd (step s (FdPread fd lens off)) = OData d ->
  fst (step s (FdPread fd lens off)) = s /\
  ((sum lens = 0 /\ d = []) \/
   exists ino e, fd_of s fd ino = Some e /\ fe_r e = true /\ 0 <= off /\ d = sub (content s ino) off (sum lens)).
Proof.
  cbn [step]. unfold fd_pread. destruct (getfd s fd) as [e|] eqn:Hg; [|discriminate].
  destruct (Z.eqb_spec (sum lens) 0); [intros Hx; inversion Hx; split; [reflexivity|left; auto]|].
  destruct (fe_kind e) eqn:Hk; try discriminate.
  destruct (Z.ltb_spec off 0); [discriminate|].
  destruct (fe_r e) eqn:Hr; [|discriminate]. cbn [negb snd fst]. intros Hx; inversion Hx; subst.
  split; [reflexivity|]. right.
  exists ino, e. unfold fd_of. rewrite Hg, Hk, Z.eqb_refl. splits; auto.
Qed.

(* and conversely a readable descriptor of the file always gets that slice *)
Lemma pread_ok s fd ino e lens off : fd_of s fd ino = Some e -> fe_r e = true -> 0 <= off -> sum lens <> 0 ->
  step s (FdPread fd lens off) = (s, OData (sub (content s ino) off (sum lens))).
Proof.
  intros Hfd Hr Ho Hn. destruct (fd_of_some _ _ _ _ Hfd) as [Hg Hk]. cbn [step]. unfold fd_pread.
  rewrite Hg, Hk, Hr. destruct (Z.eqb_spec (sum lens) 0); [lia|]. destruct (Z.ltb_spec off 0); [lia|]. reflexivity.
Qed.

Lemma sub_write_at b off d : 0 <= off -> sub (write_at b off d) off (len d) = d.
Proof.
  intros Ho. unfold sub, write_at.
  set (A := firstn (Z.to_nat off) (b ++ repeat 0 (Z.to_nat (off - len b)))).
  assert (HA : length A = Z.to_nat off).
  { unfold A. rewrite firstn_length, app_length, repeat_length. unfold len. lia. }
  rewrite skipn_app, HA, Nat.sub_diag. cbn [skipn].
  rewrite (skipn_all2 A) by lia. cbn [app].
  rewrite firstn_app. unfold len. rewrite Nat2Z.id, Nat.sub_diag, firstn_all. cbn [firstn]. apply app_nil_r.
Qed.

(* a write lands at the descriptor's offset (at the end in append mode), moves the offset behind
   the written bytes, and is what any other descriptor of the same file then reads *)
Lemma write_spec s fd ino e ch : fd_of s fd ino = Some e -> fe_w e = true -> len (concat ch) <> 0 ->
  let pos := if fe_app e then len (content s ino) else fe_off e in
  let s' := fst (step s (FdWrite fd ch)) in
  snd (step s (FdWrite fd ch)) = ONum (len (concat ch)) /\
  content s' ino = write_at (content s ino) pos (concat ch) /\
  (exists e', getfd s' fd = Some e' /\ fe_off e' = pos + len (concat ch) /\ same_desc e e') /\
  (forall j, j <> fd -> getfd s' j = getfd s j) /\
  (forall i, i <> ino -> content s' i = content s i) /\ s_tree s' = s_tree s.
Proof.
  intros Hfd Hw Hn. cbv zeta. destruct (fd_of_some _ _ _ _ Hfd) as [Hg Hk].
  pose proof (getfd_nonneg s fd e Hg) as Hfd0.
  cbn [step]. unfold fd_write. rewrite Hg, Hk, Hw. cbn [andb negb].
  destruct (Z.eqb_spec (len (concat ch)) 0); [lia|]. cbn [fst snd].
  splits; auto.
  - rewrite content_with_fds, content_with_file, Z.eqb_refl. reflexivity.
  - eexists. rewrite (getfd_set s) by reflexivity. destruct (Z.ltb_spec fd 0); [lia|]. rewrite Z.eqb_refl.
    splits; try reflexivity. unfold same_desc, with_off; cbn; auto.
  - intros j Hj. rewrite (getfd_set s) by reflexivity. unfold getfd.
    destruct (j <? 0); [reflexivity|]. destruct (Z.eqb_spec fd j); [lia|reflexivity].
  - intros i Hi. rewrite content_with_fds, content_with_file. destruct (Z.eqb_spec ino i); [lia|reflexivity].
Qed.

Lemma write_then_pread s fd1 fd2 ino e1 e2 d :
  fd_of s fd1 ino = Some e1 -> fe_w e1 = true -> fd_of s fd2 ino = Some e2 -> fe_r e2 = true ->
  len d <> 0 -> 0 <= fe_off e1 ->
  let pos := if fe_app e1 then len (content s ino) else fe_off e1 in
  let s1 := fst (step s (FdWrite fd1 [d])) in
  snd (step s1 (FdPread fd2 [len d] pos)) = OData d.
Proof.
  intros H1 Hw H2 Hr Hn Ho. cbv zeta.
  assert (Hc : concat [d] = d) by (cbn; apply app_nil_r).
  destruct (write_spec s fd1 ino e1 [d] H1 Hw ltac:(rewrite Hc; exact Hn)) as (_ & Hcont & (e1' & Hg1 & _ & Hsd) & Hother & _).
  cbv zeta in *. rewrite Hc in *.
  set (s1 := fst (step s (FdWrite fd1 [d]))) in *.
  set (pos := if fe_app e1 then len (content s ino) else fe_off e1) in *.
  assert (Hpos : 0 <= pos) by (unfold pos; destruct (fe_app e1); [apply len_nonneg|exact Ho]).
  assert (H2' : exists e2', fd_of s1 fd2 ino = Some e2' /\ fe_r e2' = true).
  { destruct (fd_of_some _ _ _ _ H2) as [Hg2 Hk2]. destruct (fd_of_some _ _ _ _ H1) as [Hg1' Hk1].
    destruct (Z.eq_dec fd2 fd1) as [->|Hne].
    - exists e1'. assert (e2 = e1) by congruence. subst e2. destruct Hsd as (Hk & _ & Hr' & _).
      unfold fd_of. rewrite Hg1, Hk, Hk1, Z.eqb_refl. split; [reflexivity|congruence].
    - exists e2. unfold fd_of. rewrite (Hother fd2 Hne), Hg2, Hk2, Z.eqb_refl. auto. }
  destruct H2' as (e2' & Hfd2 & Hr2).
  rewrite (pread_ok s1 fd2 ino e2' [len d] pos Hfd2 Hr2 Hpos) by (cbn; lia).
  cbn [snd sum fold_right]. rewrite Z.add_0_r, Hcont, sub_write_at by exact Hpos. reflexivity.
Qed.

(* descriptor operations never change the directory tree *)
Lemma fd_ops_keep_tree s o :
  match o with PathOpen _ _ _ _ _ | Mkdir _ _ | Rmdir _ _ | Unlink _ _ | Rename _ _ _ _ => True
             | _ => s_tree (fst (step s o)) = s_tree s end.
Proof.
  destruct o; auto; cbn [step];
    unfold fd_close, fd_renumber, fd_read, fd_write, fd_pread, fd_pwrite, fd_seek, fd_setsize, fd_stat, stat, with_base;
    case_all; reflexivity.
Qed.

(* ---------------------------------------------------------------- paths and trees *)
Lemma path_eqb_spec a b : reflect (a = b) (path_eqb a b).
Proof.
  revert b. induction a as [|x a IH]; intros [|y b]; cbn [path_eqb]; try (constructor; congruence).
  destruct (Z.eqb_spec x y) as [->|Hne]; cbn [andb].
  - destruct (IH b) as [->|Hne]; constructor; congruence.
  - constructor. congruence.
Qed.

Lemma path_eqb_refl a : path_eqb a a = true.
Proof. destruct (path_eqb_spec a a); congruence. Qed.

Lemma is_prefix_spec a b : is_prefix a b = true <-> exists r, b = a ++ r.
Proof.
  revert b. induction a as [|x a IH]; intros b; cbn [is_prefix].
  - split; [intros _; exists b; reflexivity|reflexivity].
  - destruct b as [|y b]; [split; [discriminate|intros [r Hr]; discriminate]|].
    destruct (Z.eqb_spec x y) as [->|Hne]; cbn [andb].
    + rewrite IH. split; intros [r Hr]; exists r; cbn in *; congruence.
    + split; [discriminate|intros [r Hr]; cbn in Hr; congruence].
Qed.

Lemma is_prefix_app a r : is_prefix a (a ++ r) = true.
Proof. apply is_prefix_spec. exists r. reflexivity. Qed.

Lemma strict_prefix_spec a b : strict_prefix a b = true <-> exists r, r <> [] /\ b = a ++ r.
Proof.
  unfold strict_prefix. rewrite andb_true_iff, is_prefix_spec, negb_true_iff. split.
  - intros [[r ->] Hne]. exists r. split; [|reflexivity]. intros ->. rewrite app_nil_r, path_eqb_refl in Hne. discriminate.
  - intros (r & Hr & ->). split; [exists r; reflexivity|].
    destruct (path_eqb_spec a (a ++ r)) as [E|]; [|reflexivity].
    exfalso. apply Hr. rewrite <- (app_nil_r a) in E at 1. apply app_inv_head in E. congruence.
Qed.

Lemma tlookup_remove t p q : tlookup (tremove t p) q = if path_eqb p q then None else tlookup t q.
Proof.
  unfold tremove. induction t as [|[k n] t IH]; cbn [filter tlookup fst].
  - destruct (path_eqb p q); reflexivity.
  - destruct (path_eqb_spec k p) as [->|Hne]; cbn [negb].
    + rewrite IH. destruct (path_eqb_spec p q); reflexivity.
    + cbn [tlookup]. rewrite IH. destruct (path_eqb_spec k q), (path_eqb_spec p q); try reflexivity. congruence.
Qed.

Lemma walk_step t done x y rest :
  walk t done (x :: y :: rest) =
  match tlookup t (done ++ [x]) with
  | None => RNoent | Some (NFile _) => RNotdir | Some NDir => walk t (done ++ [x]) (y :: rest)
  end.
Proof. reflexivity. Qed.

(* resolution only looks at the ancestors and at the path itself *)
Lemma walk_of_dirs t : forall todo done, todo <> [] ->
  (forall k, (1 <= k < length todo)%nat -> tlookup t (done ++ firstn k todo) = Some NDir) ->
  walk t done todo = match tlookup t (done ++ todo) with Some n => RNode n | None => RFree end.
Proof.
  induction todo as [|x rest IH]; intros done Hne Hd; [congruence|].
  destruct rest as [|y rest'].
  - cbn [walk]. reflexivity.
  - rewrite walk_step. pose proof (Hd 1%nat ltac:(cbn [length]; lia)) as H1. cbn [firstn] in H1. rewrite H1.
    rewrite (IH (done ++ [x])); [|discriminate|].
    + rewrite <- app_assoc. reflexivity.
    + intros k Hk. rewrite <- app_assoc. cbn [app]. apply (Hd (S k)). cbn [length] in *. lia.
Qed.

Lemma walk_dirs t : forall todo done, (match walk t done todo with RNode _ | RFree => True | _ => False end) ->
  forall k, (1 <= k < length todo)%nat -> tlookup t (done ++ firstn k todo) = Some NDir.
Proof.
  induction todo as [|x rest IH]; intros done Hw k Hk; [cbn [length] in Hk; lia|].
  destruct rest as [|y rest']; [cbn [length] in Hk; lia|].
  rewrite walk_step in Hw. destruct (tlookup t (done ++ [x])) as [[|i]|] eqn:E; try contradiction.
  destruct k as [|[|k]]; [lia|exact E|].
  specialize (IH (done ++ [x]) Hw (S k) ltac:(cbn [length] in *; lia)).
  rewrite <- app_assoc in IH. exact IH.
Qed.

Lemma resolve_node t q n : q <> [] -> resolve t q = RNode n -> tlookup t q = Some n.
Proof.
  intros Hq Hr. unfold resolve in Hr.
  rewrite (walk_of_dirs t q [] Hq) in Hr by (apply walk_dirs; rewrite Hr; exact I).
  cbn [app] in Hr. destruct (tlookup t q); inversion Hr; reflexivity.
Qed.

Lemma resolve_free t q : resolve t q = RFree -> q <> [] /\ tlookup t q = None.
Proof.
  intros Hr. assert (Hq : q <> []) by (intros ->; cbn in Hr; discriminate). split; [exact Hq|].
  unfold resolve in Hr.
  rewrite (walk_of_dirs t q [] Hq) in Hr by (apply walk_dirs; rewrite Hr; exact I).
  cbn [app] in Hr. destruct (tlookup t q); [discriminate|reflexivity].
Qed.

(* if the ancestors of q resolve identically in t', resolution of q in t' is decided by the lookup of q *)
Lemma resolve_transfer t t' q : q <> [] ->
  (match resolve t q with RNode _ | RFree => True | _ => False end) ->
  (forall k, (1 <= k < length q)%nat -> tlookup t' (firstn k q) = tlookup t (firstn k q)) ->
  resolve t' q = match tlookup t' q with Some n => RNode n | None => RFree end.
Proof.
  intros Hq Hr Hsame. unfold resolve. rewrite (walk_of_dirs t' q [] Hq); [reflexivity|].
  intros k Hk. cbn [app]. rewrite Hsame by exact Hk. apply (walk_dirs t q [] Hr k Hk).
Qed.

Lemma firstn_neq_longer (q : path) k : (k < length q)%nat -> firstn k q <> q.
Proof. intros Hk E. apply (f_equal (@length Z)) in E. rewrite firstn_length in E. lia. Qed.

Lemma firstn_prefix (q : path) k : exists r, q = firstn k q ++ r.
Proof. exists (skipn k q). symmetry. apply firstn_skipn. Qed.

Lemma base_with_tree s t d : base (with_tree s t) d = base s d.
Proof. reflexivity. Qed.

(* ---------------------------------------------------------------- visibility of directory changes *)
Lemma mkdir_visible s d p s' : mkdir s d p = (s', OOk) ->
  stat s' d p = (s', OStat FILETYPE_DIRECTORY 0) /\
  (exists b, base s d = inr b /\ s_tree s' = (b ++ p, NDir) :: s_tree s /\ tlookup (s_tree s) (b ++ p) = None) /\
  s_fds s' = s_fds s /\ s_files s' = s_files s.
Proof.
  unfold mkdir, stat, with_base, with_base_ne. destruct (base s d) as [e|b] eqn:Hb; [discriminate|].
  destruct (b ++ p) as [|x0 q0] eqn:Hfull; [discriminate|]. rewrite <- Hfull in *.
  destruct (resolve (s_tree s) (b ++ p)) as [| |n|] eqn:Hr; try discriminate.
  intros H; inversion H; subst; clear H. rewrite base_with_tree, Hb. cbn [s_tree with_tree].
  destruct (resolve_free _ _ Hr) as [Hq Hnone].
  rewrite (resolve_transfer (s_tree s) _ (b ++ p) Hq ltac:(rewrite Hr; exact I)).
  - cbn [tlookup]. rewrite path_eqb_refl. splits; auto. exists b. auto.
  - intros k Hk. cbn [tlookup]. destruct (path_eqb_spec (b ++ p) (firstn k (b ++ p))) as [E|]; [|reflexivity].
    exfalso. symmetry in E. revert E. apply firstn_neq_longer. lia.
Qed.

Lemma unlink_visible s d p s' : unlink s d p = (s', OOk) ->
  stat s' d p = (s', OErr ErrnoNoent) /\
  (exists b, base s d = inr b /\ s_tree s' = tremove (s_tree s) (b ++ p)) /\
  s_fds s' = s_fds s /\ s_files s' = s_files s.
Proof.
  unfold unlink, stat, with_base, with_base_ne. destruct (base s d) as [e|b] eqn:Hb; [discriminate|].
  destruct (b ++ p) as [|x0 q0] eqn:Hfull; [discriminate|]. rewrite <- Hfull in *.
  destruct (resolve (s_tree s) (b ++ p)) as [| |[|i]|] eqn:Hr; try discriminate.
  intros H; inversion H; subst; clear H. rewrite base_with_tree, Hb. cbn [s_tree with_tree].
  assert (Hq : b ++ p <> []) by (intros E; rewrite E in Hr; cbn in Hr; discriminate).
  rewrite (resolve_transfer (s_tree s) _ (b ++ p) Hq ltac:(rewrite Hr; exact I)).
  - rewrite tlookup_remove, path_eqb_refl. splits; auto. exists b. auto.
  - intros k Hk. rewrite tlookup_remove. destruct (path_eqb_spec (b ++ p) (firstn k (b ++ p))) as [E|]; [|reflexivity].
    exfalso. symmetry in E. revert E. apply firstn_neq_longer. lia.
Qed.


Lemma rmdir_visible s d p s' : rmdir s d p = (s', OOk) ->
  stat s' d p = (s', OErr ErrnoNoent) /\
  (exists b, base s d = inr b /\ s_tree s' = tremove (s_tree s) (b ++ p) /\ has_child (s_tree s) (b ++ p) = false) /\
  s_fds s' = s_fds s /\ s_files s' = s_files s.
Proof.
  unfold rmdir, stat, with_base, with_base_ne. destruct (base s d) as [e|b] eqn:Hb; [discriminate|].
  destruct (b ++ p) as [|x0 q0] eqn:Hfull; [discriminate|]. rewrite <- Hfull in *.
  destruct (resolve (s_tree s) (b ++ p)) as [| |[|i]|] eqn:Hr; try discriminate.
  destruct (has_child (s_tree s) (b ++ p)) eqn:Hc; [discriminate|].
  intros H; inversion H; subst; clear H. rewrite base_with_tree, Hb. cbn [s_tree with_tree].
  assert (Hq : b ++ p <> []) by (rewrite Hfull; discriminate).
  rewrite (resolve_transfer (s_tree s) _ (b ++ p) Hq ltac:(rewrite Hr; exact I)).
  - rewrite tlookup_remove, path_eqb_refl. splits; auto. exists b. auto.
  - intros k Hk. rewrite tlookup_remove. destruct (path_eqb_spec (b ++ p) (firstn k (b ++ p))) as [E|]; [|reflexivity].
    exfalso. symmetry in E. revert E. apply firstn_neq_longer. lia.
Qed.

(* a file created by path_open is seen by a later lookup, empty *)
Lemma create_visible s d p ofl fdf r s' fd : path_open s d p ofl fdf r = (s', OFd fd) ->
  (exists b, base s d = inr b /\ resolve (s_tree s) (b ++ p) = RFree) ->
  stat s' d p = (s', OStat FILETYPE_REGULAR_FILE 0).
Proof.
  intros Hop (b & Hb & Hr). unfold path_open in Hop. rewrite Hb, Hr in Hop.
  destruct (bit ofl O_DIRECTORY && bit ofl O_CREAT); [discriminate|].
  destruct (if bit r RIGHT_FD_READ && bit r RIGHT_FD_WRITE then _ else _) as [rd wr].
  destruct (bit ofl O_CREAT); [|discriminate]. inversion Hop; subst; clear Hop.
  set (fd := lowest_free (s_fds s)).
  assert (Hne : fd <> d).
  { intros E. pose proof (getfd_lowest_free s) as Hfree. fold fd in Hfree. rewrite E in Hfree.
    unfold base in Hb. rewrite Hfree in Hb. discriminate. }
  destruct (resolve_free _ _ Hr) as [Hq Hnone].
  unfold stat, with_base.
  assert (Hb' : forall s1, s_fds s1 = fset (s_fds s) fd {| fe_kind := KFile (s_next s); fe_off := 0; fe_app := bit fdf FD_APPEND; fe_r := rd; fe_w := wr |} -> base s1 d = inr b).
  { intros s1 H1. unfold base, getfd in *. rewrite H1, flookup_set. destruct (Z.eqb_spec fd d); [lia|]. exact Hb. }
  rewrite Hb' by reflexivity. cbn [s_tree].
  rewrite (resolve_transfer (s_tree s) _ (b ++ p) Hq ltac:(rewrite Hr; exact I)).
  - cbn [tlookup]. rewrite path_eqb_refl. unfold content; cbn [s_files]. rewrite flookup_set, Z.eqb_refl. reflexivity.
  - intros k Hk. cbn [tlookup]. destruct (path_eqb_spec (b ++ p) (firstn k (b ++ p))) as [E|]; [|reflexivity].
    exfalso. symmetry in E. revert E. apply firstn_neq_longer. lia.
Qed.

(* ---------------------------------------------------------------- rename *)
Lemma skipn_app_len {A} (a r : list A) : skipn (length a) (a ++ r) = r.
Proof. induction a; cbn; auto. Qed.

Lemma is_prefix_decomp a k : is_prefix a k = true -> k = a ++ skipn (length a) k.
Proof. intros H. apply is_prefix_spec in H. destruct H as [r ->]. rewrite skipn_app_len. reflexivity. Qed.

Lemma path_eqb_app x r r' : path_eqb (x ++ r) (x ++ r') = path_eqb r r'.
Proof. induction x; cbn [app path_eqb]; [reflexivity|]. rewrite Z.eqb_refl. exact IHx. Qed.

Lemma not_prefix_neq b r q : is_prefix b q = false -> path_eqb (b ++ r) q = false.
Proof.
  intros H. destruct (path_eqb_spec (b ++ r) q) as [<-|]; [|reflexivity]. rewrite is_prefix_app in H. discriminate.
Qed.

Definition ren (a b : path) (qn : path * node) : path * node :=
  if is_prefix a (fst qn) then (retarget a b (fst qn), snd qn) else qn.

Lemma tlookup_map_ren a b t : is_prefix a b = false -> is_prefix b a = false ->
  (forall k n, In (k, n) t -> k <> b /\ strict_prefix b k = false) ->
  forall q, tlookup (map (ren a b) t) q =
    if is_prefix b q then tlookup t (a ++ skipn (length b) q)
    else if is_prefix a q then None else tlookup t q.
Proof.
  intros Hab Hba. induction t as [|[k n] t IH]; intros Hin q.
  - cbn. destruct (is_prefix b q), (is_prefix a q); reflexivity.
  - assert (Hin' : forall k0 n0, In (k0, n0) t -> k0 <> b /\ strict_prefix b k0 = false) by (intros k0 n0 H0; apply (Hin k0 n0); right; exact H0).
    destruct (Hin k n (or_introl eq_refl)) as [Hkb Hks].
    specialize (IH Hin' q). cbn [map tlookup]. unfold ren at 1. cbn [fst snd].
    destruct (is_prefix a k) eqn:Hak.
    + pose proof (is_prefix_decomp a k Hak) as Hk. unfold retarget. cbn [fst].
      destruct (is_prefix b q) eqn:Hbq.
      * pose proof (is_prefix_decomp b q Hbq) as Hq. rewrite Hq at 1. rewrite path_eqb_app.
        rewrite Hk at 2. rewrite path_eqb_app. destruct (path_eqb (skipn (length a) k) (skipn (length b) q)); [reflexivity|exact IH].
      * rewrite not_prefix_neq by exact Hbq. rewrite IH.
        destruct (is_prefix a q) eqn:Haq; [reflexivity|].
        rewrite Hk. rewrite not_prefix_neq by exact Haq. reflexivity.
    + cbn [fst].
      destruct (is_prefix b q) eqn:Hbq.
      * assert (Hkq : path_eqb k q = false).
        { destruct (path_eqb_spec k q) as [->|]; [|reflexivity]. exfalso.
          unfold strict_prefix in Hks. rewrite Hbq in Hks. cbn [andb] in Hks.
          destruct (path_eqb_spec b q); [congruence|discriminate]. }
        rewrite Hkq, IH.
        assert (Hka : path_eqb k (a ++ skipn (length b) q) = false).
        { destruct (path_eqb_spec k (a ++ skipn (length b) q)) as [->|]; [|reflexivity]. rewrite is_prefix_app in Hak. discriminate. }
        rewrite Hka. reflexivity.
      * destruct (is_prefix a q) eqn:Haq.
        -- assert (Hkq : path_eqb k q = false).
           { destruct (path_eqb_spec k q) as [->|]; [|reflexivity]. congruence. }
           rewrite Hkq. exact IH.
        -- rewrite IH. reflexivity.
Qed.

Lemma In_tlookup t q n : In (q, n) t -> exists n', tlookup t q = Some n'.
Proof.
  induction t as [|[k m] t IH]; intros H; [destruct H|]. cbn [tlookup].
  destruct (path_eqb_spec k q); [eexists; reflexivity|]. destruct H as [H|H]; [inversion H; congruence|]. apply IH, H.
Qed.
Lemma tlookup_In t q n : tlookup t q = Some n -> In (q, n) t.
Proof.
  induction t as [|[k m] t IH]; cbn [tlookup]; [discriminate|].
  destruct (path_eqb_spec k q) as [->|]; intros H; [inversion H; left; reflexivity|right; apply IH, H].
Qed.

Lemma has_child_false t b : has_child t b = false -> forall k n, In (k, n) t -> strict_prefix b k = false.
Proof.
  unfold has_child. intros H k n Hin. destruct (strict_prefix b k) eqn:E; [|reflexivity].
  assert (existsb (fun qn => strict_prefix b (fst qn)) t = true) by (apply existsb_exists; exists (k, n); auto).
  congruence.
Qed.

Lemma tlookup_tree_rename t a b : is_prefix a b = false -> is_prefix b a = false -> has_child t b = false ->
  forall q, tlookup (tree_rename t a b) q =
    if is_prefix b q then tlookup t (a ++ skipn (length b) q)
    else if is_prefix a q then None else tlookup t q.
Proof.
  intros Hab Hba Hc q. unfold tree_rename. change (fun qn => if is_prefix a (fst qn) then (retarget a b (fst qn), snd qn) else qn) with (ren a b).
  rewrite tlookup_map_ren; auto.
  - rewrite !tlookup_remove.
    destruct (is_prefix b q) eqn:Hbq.
    + destruct (path_eqb_spec b (a ++ skipn (length b) q)) as [E|]; [|reflexivity].
      rewrite E, is_prefix_app in Hab. discriminate.
    + destruct (is_prefix a q); [reflexivity|].
      destruct (path_eqb_spec b q) as [<-|]; [|reflexivity]. rewrite (is_prefix_app b []) in Hbq || (rewrite <- (app_nil_r b) in Hbq at 2; rewrite is_prefix_app in Hbq). discriminate.
  - intros k n Hin. unfold tremove in Hin. apply filter_In in Hin. destruct Hin as [Hin Hf]. cbn [fst] in Hf.
    split; [destruct (path_eqb_spec k b); [discriminate|assumption]|]. eapply has_child_false; eassumption.
Qed.

(* trees reachable from the initial state: no entry for the mount point itself, and every ancestor
   of an entry is a directory entry *)
Definition wf_tree (t : list (path * node)) : Prop :=
  tlookup t [] = None /\
  forall q n k, tlookup t q = Some n -> (1 <= k < length q)%nat -> tlookup t (firstn k q) = Some NDir.

Lemma wf_no_child t b : wf_tree t -> b <> [] -> tlookup t b <> Some NDir -> has_child t b = false.
Proof.
  intros [_ Hwf] Hb Hnd. unfold has_child. destruct (existsb _ t) eqn:E; [|reflexivity]. exfalso.
  apply existsb_exists in E. destruct E as ([k n] & Hin & Hsp). cbn [fst] in Hsp.
  apply strict_prefix_spec in Hsp. destruct Hsp as (r & Hr & ->).
  destruct (In_tlookup _ _ _ Hin) as [n' Hn'].
  specialize (Hwf (b ++ r) n' (length b) Hn'). rewrite firstn_app, Nat.sub_diag, firstn_all in Hwf. cbn [firstn] in Hwf.
  rewrite app_nil_r in Hwf. apply Hnd, Hwf. rewrite app_length. destruct b, r; cbn [length] in *; try congruence; lia.
Qed.

Lemma is_prefix_trans a c x : is_prefix a c = true -> is_prefix c x = true -> is_prefix a x = true.
Proof.
  rewrite !is_prefix_spec. intros [r1 ->] [r2 ->]. exists (r1 ++ r2). rewrite app_assoc. reflexivity.
Qed.
Lemma is_prefix_firstn k (x : path) : is_prefix (firstn k x) x = true.
Proof. apply is_prefix_spec. apply firstn_prefix. Qed.
Lemma is_prefix_len a c : is_prefix a c = true -> (length a <= length c)%nat.
Proof. rewrite is_prefix_spec. intros [r ->]. rewrite app_length. lia. Qed.
Lemma not_strict_not_eq a b : strict_prefix a b = false -> path_eqb a b = false -> is_prefix a b = false.
Proof. unfold strict_prefix. intros H1 H2. rewrite H2 in H1. cbn in H1. destruct (is_prefix a b); [discriminate|reflexivity]. Qed.

Lemma wf_cons t q n : wf_tree t -> resolve t q = RFree -> wf_tree ((q, n) :: t).
Proof.
  intros [H0 Hwf] Hr. destruct (resolve_free _ _ Hr) as [Hq Hnone]. split.
  - cbn [tlookup]. destruct (path_eqb_spec q []); [congruence|exact H0].
  - intros x m k Hx Hk. cbn [tlookup] in *.
    destruct (path_eqb_spec q x) as [<-|Hne].
    + destruct (path_eqb_spec q (firstn k q)) as [E|_]; [exfalso; symmetry in E; revert E; apply firstn_neq_longer; lia|].
      apply (walk_dirs t q [] ltac:(fold (resolve t q); rewrite Hr; exact I) k Hk).
    + pose proof (Hwf x m k Hx Hk) as Hd.
      destruct (path_eqb_spec q (firstn k x)) as [E|_]; [rewrite <- E in Hd; congruence|exact Hd].
Qed.

Lemma wf_remove t q : wf_tree t -> has_child t q = false -> wf_tree (tremove t q).
Proof.
  intros [H0 Hwf] Hc. split.
  - rewrite tlookup_remove. destruct (path_eqb q []); [reflexivity|exact H0].
  - intros x m k Hx Hk. rewrite tlookup_remove in *.
    destruct (path_eqb_spec q x) as [|Hne]; [discriminate|].
    destruct (path_eqb_spec q (firstn k x)) as [E|_]; [|apply (Hwf x m k Hx Hk)].
    exfalso. pose proof (has_child_false t q Hc x m (tlookup_In _ _ _ Hx)) as Hs.
    assert (strict_prefix q x = true); [|congruence].
    apply strict_prefix_spec. exists (skipn k x). split.
    + intros E2. apply (firstn_neq_longer x k); [lia|]. rewrite <- (firstn_skipn k x) at 2. rewrite E2, app_nil_r. reflexivity.
    + rewrite E. symmetry. apply firstn_skipn.
Qed.

Lemma wf_rename t a b na : wf_tree t -> a <> [] -> b <> [] ->
  is_prefix a b = false -> is_prefix b a = false -> has_child t b = false ->
  tlookup t a = Some na -> (match resolve t b with RNode _ | RFree => True | _ => False end) ->
  wf_tree (tree_rename t a b).
Proof.
  intros [H0 Hwf] Ha Hb Hab Hba Hc Hna Hrb.
  pose proof (tlookup_tree_rename t a b Hab Hba Hc) as HL.
  assert (Hnil : forall p, p <> [] -> is_prefix p [] = false) by (intros [|] ?; [congruence|reflexivity]).
  split.
  - rewrite HL, !Hnil by assumption. exact H0.
  - intros x m k Hx Hk. rewrite HL in Hx. rewrite HL.
    set (c := firstn k x).
    assert (Hcx : is_prefix c x = true) by apply is_prefix_firstn.
    destruct (is_prefix b x) eqn:Hbx.
    + pose proof (is_prefix_decomp b x Hbx) as Hxd. set (r := skipn (length b) x) in *.
      destruct (Nat.lt_ge_cases k (length b)) as [Hlt|Hge].
      * (* a proper prefix of b: untouched, and a directory because b resolved *)
        assert (Hcb : c = firstn k b).
        { unfold c. rewrite Hxd, firstn_app. replace (k - length b)%nat with 0%nat by lia. cbn [firstn]. apply app_nil_r. }
        assert (Hbc : is_prefix b c = false).
        { destruct (is_prefix b c) eqn:E; [|reflexivity]. apply is_prefix_len in E. rewrite Hcb, firstn_length in E. lia. }
        assert (Hac : is_prefix a c = false).
        { destruct (is_prefix a c) eqn:E; [|reflexivity]. rewrite Hcb in E.
          rewrite (is_prefix_trans a (firstn k b) b E (is_prefix_firstn k b)) in Hab. discriminate. }
        rewrite Hbc, Hac, Hcb. apply (walk_dirs t b [] Hrb k). lia.
      * (* b itself or below b: the image of a proper prefix of a ++ r at or below a *)
        assert (Hcd : c = b ++ firstn (k - length b) r).
        { unfold c. rewrite Hxd at 1. rewrite firstn_app. rewrite (firstn_all2 b) by lia. reflexivity. }
        rewrite Hcd, is_prefix_app, skipn_app_len.
        assert (Hfa : a ++ firstn (k - length b) r = firstn (length a + (k - length b)) (a ++ r)).
        { rewrite firstn_app. rewrite (firstn_all2 a) by lia. f_equal. f_equal. lia. }
        rewrite Hfa. apply (Hwf (a ++ r) m); [exact Hx|].
        rewrite app_length. assert (length x = length b + length r)%nat by (rewrite Hxd at 1; apply app_length).
        destruct a; [congruence|]. cbn [length]. lia.
    + destruct (is_prefix a x) eqn:Hax; [discriminate|].
      assert (Hbc : is_prefix b c = false).
      { destruct (is_prefix b c) eqn:E; [|reflexivity]. rewrite (is_prefix_trans b c x E Hcx) in Hbx. discriminate. }
      assert (Hac : is_prefix a c = false).
      { destruct (is_prefix a c) eqn:E; [|reflexivity]. rewrite (is_prefix_trans a c x E Hcx) in Hax. discriminate. }
      rewrite Hbc, Hac. apply (Hwf x m k Hx Hk).
Qed.

(* what a successful rename did *)
Lemma rename_ok_inv s d p d2 q s' : rename s d p d2 q = (s', OOk) -> wf_tree (s_tree s) ->
  exists b1 b2, base s d = inr b1 /\ base s d2 = inr b2 /\
    let a := b1 ++ p in let b := b2 ++ q in
    a <> [] /\ b <> [] /\
    ((a = b /\ s' = s) \/
     (a <> b /\ is_prefix a b = false /\ is_prefix b a = false /\ has_child (s_tree s) b = false /\
      (exists na, resolve (s_tree s) a = RNode na) /\
      (match resolve (s_tree s) b with RNode _ | RFree => True | _ => False end) /\
      s' = with_tree s (tree_rename (s_tree s) a b))).
Proof.
  intros Hren Hwf. unfold rename in Hren.
  destruct (base s d) as [e|b1]; [discriminate|]. destruct (base s d2) as [e|b2]; [discriminate|].
  exists b1, b2. split; [reflexivity|]. split; [reflexivity|]. cbv zeta.
  set (a := b1 ++ p) in *. set (b := b2 ++ q) in *.
  destruct (path_eqb_spec a []) as [|Ha]; [discriminate|]. destruct (path_eqb_spec b []) as [|Hb]; [discriminate|].
  cbn [orb] in Hren. split; [exact Ha|]. split; [exact Hb|].
  destruct (path_eqb_spec a b) as [Hab|Hab]; [left; inversion Hren; auto|]. right.
  destruct (resolve (s_tree s) a) as [| |na|] eqn:Hra; try discriminate;
    destruct (resolve (s_tree s) b) as [| |nb|] eqn:Hrb; try discriminate.
  - destruct (strict_prefix a b) eqn:Hsab; [destruct na; discriminate|].
    destruct (strict_prefix b a) eqn:Hsba; [discriminate|].
    assert (Hpab : is_prefix a b = false) by (apply not_strict_not_eq; [exact Hsab|destruct (path_eqb_spec a b); congruence]).
    assert (Hpba : is_prefix b a = false) by (apply not_strict_not_eq; [exact Hsba|destruct (path_eqb_spec b a); congruence]).
    pose proof (resolve_node _ _ _ Hb Hrb) as Hlb.
    destruct na as [|i], nb as [|j]; try discriminate.
    + destruct (has_child (s_tree s) b) eqn:Hc; [discriminate|]. inversion Hren; subst. splits; auto. eexists; reflexivity.
    + inversion Hren; subst. splits; auto; [|eexists; reflexivity].
      apply wf_no_child; auto. rewrite Hlb. discriminate.
  - destruct (strict_prefix a b) eqn:Hsab; [destruct na; discriminate|].
    destruct (strict_prefix b a) eqn:Hsba; [discriminate|].
    assert (Hpab : is_prefix a b = false) by (apply not_strict_not_eq; [exact Hsab|destruct (path_eqb_spec a b); congruence]).
    assert (Hpba : is_prefix b a = false) by (apply not_strict_not_eq; [exact Hsba|destruct (path_eqb_spec b a); congruence]).
    destruct (resolve_free _ _ Hrb) as [_ Hlb].
    assert (Hs' : s' = with_tree s (tree_rename (s_tree s) a b)) by (destruct na; inversion Hren; reflexivity).
    splits; auto; [|eexists; reflexivity].
    apply wf_no_child; auto. rewrite Hlb. discriminate.
Qed.

Lemma keep_tree' s o :
  match o with PathOpen _ _ _ _ _ | Mkdir _ _ | Rmdir _ _ | Unlink _ _ | Rename _ _ _ _ => False | _ => True end ->
  s_tree (fst (step s o)) = s_tree s.
Proof. intros H. pose proof (fd_ops_keep_tree s o) as K. destruct o; try contradiction; exact K. Qed.

(* every operation keeps the tree well formed, so every reachable tree is *)
Lemma step_wf s o : wf_tree (s_tree s) -> wf_tree (s_tree (fst (step s o))).
Proof.
  intros Hwf.
  destruct o as [d p ofl fdf r|x|a b|x lens|x ch|x lens off|x ch off|x off wh|x|x sz|x|d p|d p|d p|d p d2 q|d p];
    try (rewrite keep_tree' by exact I; exact Hwf).
  - (* PathOpen *)
    cbn [step]. unfold path_open. destruct (base s d) as [e|b]; [exact Hwf|].
    destruct (bit ofl O_DIRECTORY && bit ofl O_CREAT); [exact Hwf|].
    destruct (if bit r RIGHT_FD_READ && bit r RIGHT_FD_WRITE then _ else _) as [rd wr].
    destruct (resolve (s_tree s) (b ++ p)) as [| |[|i]|] eqn:Hr; try exact Hwf.
    + case_all; exact Hwf.
    + case_all; cbn [fst s_tree with_fds with_file]; exact Hwf.
    + destruct (bit ofl O_CREAT); [|exact Hwf]. cbn [fst s_tree]. apply wf_cons; assumption.
  - cbn [step]. unfold mkdir, with_base_ne. destruct (base s d) as [e|b]; [exact Hwf|].
    destruct (b ++ p) as [|x0 q0] eqn:Hfull; [exact Hwf|]. rewrite <- Hfull.
    destruct (resolve (s_tree s) (b ++ p)) eqn:Hr; try exact Hwf. cbn [fst s_tree with_tree]. apply wf_cons; assumption.
  - cbn [step]. unfold rmdir, with_base_ne. destruct (base s d) as [e|b]; [exact Hwf|].
    destruct (b ++ p) as [|x0 q0] eqn:Hfull; [exact Hwf|]. rewrite <- Hfull.
    destruct (resolve (s_tree s) (b ++ p)) as [| |[|i]|] eqn:Hr; try exact Hwf.
    destruct (has_child (s_tree s) (b ++ p)) eqn:Hc; [exact Hwf|]. cbn [fst s_tree with_tree]. apply wf_remove; assumption.
  - cbn [step]. unfold unlink, with_base_ne. destruct (base s d) as [e|b]; [exact Hwf|].
    destruct (b ++ p) as [|x0 q0] eqn:Hfull; [exact Hwf|]. rewrite <- Hfull.
    destruct (resolve (s_tree s) (b ++ p)) as [| |[|i]|] eqn:Hr; try exact Hwf.
    cbn [fst s_tree with_tree]. apply wf_remove; [assumption|].
    assert (Hne : b ++ p <> []) by (rewrite Hfull; discriminate).
    apply wf_no_child; [assumption|exact Hne|].
    rewrite (resolve_node _ _ _ Hne Hr). discriminate.
  - (* Rename *)
    cbn [step]. destruct (rename s d p d2 q) as [s' x] eqn:Hren. cbn [fst].
    destruct x; try (assert (s' = s) as -> by
      (unfold rename in Hren; revert Hren; case_all; intros Hren; inversion Hren; reflexivity); exact Hwf).
    destruct (rename_ok_inv _ _ _ _ _ _ Hren Hwf) as (b1 & b2 & _ & _ & Ha & Hb & [[_ ->]|(Hne & Hab & Hba & Hc & (na & Hra) & Hrb & ->)]); [exact Hwf|].
    cbn [s_tree with_tree]. eapply wf_rename; eauto. eapply resolve_node; eassumption.
Qed.

Lemma wf_init : wf_tree (s_tree st_init).
Proof. split; [reflexivity|]. intros q n k H. discriminate. Qed.

Lemma reachable_wf ops : forall s, wf_tree (s_tree s) -> wf_tree (s_tree (final s ops)).
Proof.
  unfold final. induction ops as [|o r IH]; intros s Hwf; cbn [fold_left]; [exact Hwf|]. apply IH, step_wf, Hwf.
Qed.

Lemma is_prefix_refl x : is_prefix x x = true.
Proof. apply is_prefix_spec. exists []. symmetry. apply app_nil_r. Qed.

Definition stat_of (s : st) (n : node) : obs :=
  match n with NDir => OStat FILETYPE_DIRECTORY 0 | NFile i => OStat FILETYPE_REGULAR_FILE (len (content s i)) end.

(* a successful rename moves the node and everything below it; the old name is gone; every other
   path is untouched; onto the same path it does nothing *)
Lemma rename_visible s d p d2 q s' : rename s d p d2 q = (s', OOk) -> wf_tree (s_tree s) ->
  exists b1 b2, base s d = inr b1 /\ base s d2 = inr b2 /\
    let a := b1 ++ p in let b := b2 ++ q in
    (a = b -> s' = s) /\
    (a <> b ->
       (forall x, tlookup (s_tree s') x =
                  if is_prefix b x then tlookup (s_tree s) (a ++ skipn (length b) x)
                  else if is_prefix a x then None else tlookup (s_tree s) x) /\
       (exists na, tlookup (s_tree s) a = Some na /\ stat s' d2 q = (s', stat_of s na)) /\
       stat s' d p = (s', OErr ErrnoNoent)) /\
    s_fds s' = s_fds s /\ s_files s' = s_files s.
Proof.
  intros Hren Hwf.
  destruct (rename_ok_inv _ _ _ _ _ _ Hren Hwf) as (b1 & b2 & Hb1 & Hb2 & Ha & Hb & Hcases).
  exists b1, b2. split; [exact Hb1|]. split; [exact Hb2|]. cbv zeta in *.
  set (a := b1 ++ p) in *. set (b := b2 ++ q) in *.
  destruct Hcases as [[Heq ->]|(Hne & Hab & Hba & Hc & (na & Hra) & Hrb & ->)].
  { splits; auto. intros Hc; contradiction. }
  cbn [s_fds s_files with_tree]. splits; auto; [intros Hc'; contradiction|]. intros _.
  pose proof (tlookup_tree_rename (s_tree s) a b Hab Hba Hc) as HL.
  pose proof (resolve_node _ _ _ Ha Hra) as Hla.
  assert (Hanc : forall c x k, c = firstn k x -> (k < length x)%nat -> (x = a \/ x = b) ->
                 tlookup (tree_rename (s_tree s) a b) c = tlookup (s_tree s) c).
  { intros c x k -> Hk Hx. rewrite HL.
    assert (H1 : is_prefix b (firstn k x) = false).
    { destruct (is_prefix b (firstn k x)) eqn:E; [|reflexivity]. destruct Hx as [->| ->].
      - rewrite (is_prefix_trans b _ a E (is_prefix_firstn k a)) in Hba. discriminate.
      - apply is_prefix_len in E. rewrite firstn_length in E. lia. }
    assert (H2 : is_prefix a (firstn k x) = false).
    { destruct (is_prefix a (firstn k x)) eqn:E; [|reflexivity]. destruct Hx as [->| ->].
      - apply is_prefix_len in E. rewrite firstn_length in E. lia.
      - rewrite (is_prefix_trans a _ b E (is_prefix_firstn k b)) in Hab. discriminate. }
    rewrite H1, H2. reflexivity. }
  splits.
  - exact HL.
  - exists na. split; [exact Hla|]. unfold stat, with_base. rewrite base_with_tree, Hb2. fold b. cbn [s_tree with_tree].
    rewrite (resolve_transfer (s_tree s) _ b Hb Hrb) by (intros k Hk; apply (Hanc _ b k); auto; lia).
    rewrite HL, is_prefix_refl, skipn_all, app_nil_r, Hla.
    destruct na; reflexivity.
  - unfold stat, with_base. rewrite base_with_tree, Hb1. fold a. cbn [s_tree with_tree].
    rewrite (resolve_transfer (s_tree s) _ a Ha ltac:(rewrite Hra; exact I)) by (intros k Hk; apply (Hanc _ a k); auto; lia).
    rewrite HL, Hba, is_prefix_refl. reflexivity.
Qed.

(* ---------------------------------------------------------------- non-vacuity *)
(* names: a=0 b=1 c=2 d=3 *)
Example fs_example :
  snd (run st_init
    [ Mkdir 3 [3]; PathOpen 3 [3; 0] 1 0 66; FdWrite 4 [[10; 11; 12]]; PathOpen 3 [3; 0] 0 1 66;
      FdWrite 5 [[13]]; FdPread 4 [8] 0; FdRenumber 4 7; FdRenumber 7 7; FdRead 4 [1]; FdSeek 7 1 0; FdRead 7 [2; 2];
      Rename 3 [3] 3 [1]; Stat 3 [1; 0]; Stat 3 [3; 0]; Unlink 3 [1; 0]; FdStat 5; FdClose 5; PathOpen 3 [2] 1 0 66;
      FdSetSize 4 3; FdPread 4 [9] 0; Rmdir 3 [1]; Stat 3 [1] ])
  = [ OOk; OFd 4; ONum 3; OFd 5; ONum 1; OData [10; 11; 12; 13]; OOk; OOk; OErr ErrnoBadf; ONum 1; OData [11; 12; 13];
      OOk; OStat 4 4; OErr ErrnoNoent; OOk; OStat 4 4; OOk; OFd 4; OOk; OData [0; 0; 0]; OOk; OErr ErrnoNoent ].
Proof. vm_compute. reflexivity. Qed.
