(* Proofs about the call engines' call-boundary bookkeeping (Engine/CallEngine.v). *)
From Coq Require Import ZArith List Bool Lia.
From Verif Require Import Engine.CallEngine.
Import ListNotations.
Open Scope Z_scope.

Ltac Zify.zify_post_hook ::= Z.div_mod_to_equations.

(* the dispatch loop returns normally only through its ExitCodeOK case *)
Lemma dispatch_return fuel : forall ec tr raw ec1 tr1,
  dispatch fuel ec tr = (raw, ec1, tr1) ->
  match raw with
  | BReturn CNone => ec1 = EOK
  | BReturn CStackOverflow => True
  | BReturn _ => False
  | BPanic e => e <> CNone /\ e <> CStuck
  | BStuck => True
  end.
Proof.
  induction fuel as [|fuel IH]; intros ec tr raw ec1 tr1 H; cbn [dispatch] in H.
  - inversion H; subst. exact I.
  - assert (Hre : forall tr' raw ec1 tr1,
      match tr' with ANative ec' :: tr'' => dispatch fuel ec' tr'' | _ => (BStuck, EOK, tr') end = (raw, ec1, tr1) ->
      match raw with
      | BReturn CNone => ec1 = EOK | BReturn CStackOverflow => True | BReturn _ => False
      | BPanic e => e <> CNone /\ e <> CStuck | BStuck => True end).
    { intros tr' r e1 t1 Hr. destruct tr' as [|[ec'| | | |] tr'']; try (inversion Hr; subst; exact I).
      eapply IH; exact Hr. }
    assert (Hcb : forall tr' (k : list answer -> braw * ecode * list answer) raw ec1 tr1,
      (forall t r e1 t1, k t = (r, e1, t1) ->
         match r with
         | BReturn CNone => e1 = EOK | BReturn CStackOverflow => True | BReturn _ => False
         | BPanic e => e <> CNone /\ e <> CStuck | BStuck => True end) ->
      match tr' with
      | AGo a :: tr'' => match of_go a with Some e => (BPanic e, ec, tr'') | None => k tr'' end
      | _ => (BStuck, ec, tr')
      end = (raw, ec1, tr1) ->
      match raw with
      | BReturn CNone => ec1 = EOK | BReturn CStackOverflow => True | BReturn _ => False
      | BPanic e => e <> CNone /\ e <> CStuck | BStuck => True end).
    { intros tr' k r e1 t1 Hk Hr. destruct tr' as [|[| |a| |] tr'']; try (inversion Hr; subst; exact I).
      destruct a as [|v|c]; cbn [of_go] in Hr.
      - eapply Hk; exact Hr.
      - inversion Hr; subst. split; discriminate.
      - inversion Hr; subst. split; discriminate. }
    destruct ec as [| | | |l m| | | | |w| |k|].
    + inversion H; subst. reflexivity.
    + destruct tr as [|[|[|]| | |] tr']; try (inversion H; subst; exact I).
      eapply Hre; exact H.
    + eapply Hre; exact H.
    + eapply Hre; exact H.
    + destruct l.
      * eapply Hcb; [|exact H]. intros t r e1 t1 Hk. eapply Hcb; [|exact Hk]. intros t' r' e1' t1' Hk'.
        eapply Hcb; [|exact Hk']. intros t'' r'' e1'' t1'' Hk''. eapply Hre; exact Hk''.
      * eapply Hcb; [|exact H]. intros t r e1 t1 Hk. eapply Hre; exact Hk.
    + eapply Hcb; [|exact H]. intros t r e1 t1 Hk. eapply Hre; exact Hk.
    + eapply Hcb; [|exact H]. intros t r e1 t1 Hk. eapply Hre; exact Hk.
    + destruct tr as [|[| | |[c|]|] tr']; try (inversion H; subst; exact I).
      * inversion H; subst. split; discriminate.
      * eapply Hre; exact H.
    + eapply Hre; exact H.
    + destruct tr as [|[| | | |[|]] tr']; try (inversion H; subst; exact I).
      * eapply Hre; exact H.
      * inversion H; subst. split; discriminate.
    + eapply Hre; exact H.
    + inversion H; subst. split; discriminate.
    + inversion H; subst. split; discriminate.
Qed.

(* after ANY call — whatever state the call engine was in, whatever the native code and the Go callbacks did — the exit
   code left in the execution context is ExitCodeOK (unless the trace of answers did not describe a complete call) *)
Theorem c_call_resets fuel st tr st' e tr' :
  c_call fuel st tr = (st', e, tr') -> e <> CStuck -> exit_code st' = EOK.
Proof.
  unfold c_call. destruct tr as [|[ec| | | |] tr0]; try (intros H; inversion H; subst; congruence).
  destruct (dispatch fuel match ec with EOK => exit_code st | _ => ec end tr0) as [[raw ec1] tr1] eqn:Hd.
  pose proof (dispatch_return _ _ _ _ _ _ Hd) as Hr.
  unfold deferred. intros H Hne.
  destruct raw as [[| | | | | |]|e0|].
  - (* return nil *) subst ec1.
    destruct tr1 as [|[| | |[c|]|] tr2]; inversion H; subst; reflexivity.
  - destruct Hr.
  - inversion H; subst. reflexivity.
  - destruct Hr.
  - destruct Hr.
  - destruct Hr.
  - destruct Hr.
  - destruct Hr as [Hn Hs]. destruct e0; inversion H; subst; try reflexivity; congruence.
  - inversion H; subst. congruence.
Qed.

(* hence a call's outcome never depends on what happened to the function object before *)
Lemma c_call_state_irrelevant fuel st tr : exit_code st = EOK -> c_call fuel st tr = c_call fuel c_fresh tr.
Proof. destruct st as [ec]. cbn. intros ->. reflexivity. Qed.

Definition fresh_outcome fuel (tr : list answer) : cerr := snd (fst (c_call fuel c_fresh tr)).

Theorem c_history_as_fresh fuel : forall trs st,
  exit_code st = EOK -> ~ In CStuck (snd (c_history fuel st trs)) ->
  snd (c_history fuel st trs) = map (fresh_outcome fuel) trs /\ exit_code (fst (c_history fuel st trs)) = EOK.
Proof.
  induction trs as [|tr rest IH]; intros st Hst Hns; cbn [c_history map].
  - split; [reflexivity|exact Hst].
  - cbn [c_history] in Hns.
    destruct (c_call fuel st tr) as [[st1 e] tr'] eqn:Hc.
    destruct (c_history fuel st1 rest) as [st2 es] eqn:Hh. cbn [snd fst] in *.
    assert (He : e <> CStuck) by (intros ->; apply Hns; left; reflexivity).
    pose proof (c_call_resets _ _ _ _ _ _ Hc He) as H1.
    specialize (IH st1 H1). rewrite Hh in IH. cbn [snd fst] in IH.
    destruct IH as [IHa IHb]; [intros Hin; apply Hns; right; exact Hin|].
    split; [|exact IHb]. f_equal; [|exact IHa].
    unfold fresh_outcome. rewrite <- (c_call_state_irrelevant fuel st tr Hst), Hc. reflexivity.
Qed.

(* the canonical traces used by the correspondence run produce the outcome class they stand for *)
Theorem canon_faithful cls : 0 <= cls -> (cls < 7 \/ (cls - 7) mod 100 = 0) ->
  cls_of (fresh_outcome 64 (canon cls)) = cls.
Proof.
  intros H0 H1. unfold fresh_outcome, canon.
  destruct (cls =? 0) eqn:E0; [apply Z.eqb_eq in E0; subst; reflexivity|].
  destruct (cls =? 5) eqn:E5; [apply Z.eqb_eq in E5; subst; reflexivity|].
  destruct (cls =? 6) eqn:E6; [apply Z.eqb_eq in E6; subst; reflexivity|].
  destruct (7 <=? cls) eqn:E7.
  - apply Z.leb_le in E7. destruct H1 as [H1|H1]; [lia|].
    set (x := (cls - 7) / 100) in *.
    change (cls_of (CExit x) = cls). cbn [cls_of]. subst x. lia.
  - reflexivity.
Qed.

(* the seeded shape: with the reset skipped for exit errors the function object is damaged — a call that never leaves
   native code then reports the previous call's exit *)
Theorem skipping_reset_refuted :
  exists tr1 tr2 st1 e1 r1,
    c_call_bad 64 c_fresh tr1 = (st1, e1, r1) /\ exit_code st1 <> EOK /\
    snd (fst (c_call_bad 64 st1 tr2)) <> fresh_outcome 64 tr2.
Proof.
  exists (canon 307), [ANative EOK; AGo (GExit 3)].
  eexists. eexists. eexists. split; [vm_compute; reflexivity|]. split; [discriminate|]. vm_compute. discriminate.
Qed.

(* ---- interpreter *)
Theorem i_call_resets np nr st a cl st' e :
  i_call np nr st a cl = (st', e) -> i_stack st = 0 -> i_frames st = 0 -> i_stack st' = 0 /\ i_frames st' = 0.
Proof.
  unfold i_call. destruct a as [|s f e0]; intros H Hs Hf; inversion H; subst; cbn; split; lia.
Qed.

Theorem i_history_as_fresh : forall cs st, i_stack st = 0 -> i_frames st = 0 ->
  snd (i_history st cs) = map (fun c => let '(np, nr, a, cl) := c in snd (i_call np nr i_fresh a cl)) cs /\
  i_stack (fst (i_history st cs)) = 0 /\ i_frames (fst (i_history st cs)) = 0.
Proof.
  induction cs as [|[[[np nr] a] cl] rest IH]; intros st Hs Hf; cbn [i_history map].
  - repeat split; assumption.
  - destruct (i_call np nr st a cl) as [st1 e] eqn:Hc.
    destruct (i_call_resets _ _ _ _ _ _ _ Hc Hs Hf) as [H1 H2].
    specialize (IH st1 H1 H2). destruct (i_history st1 rest) as [st2 es]. cbn [snd fst] in *.
    destruct IH as [IHa IHb]. split; [|exact IHb]. f_equal; [|exact IHa].
    destruct st as [s0 f0]. cbn in Hs, Hf. subst. unfold i_fresh. rewrite Hc. reflexivity.
Qed.

(* non-vacuity: a history mixing every outcome class *)
Example history_example :
  snd (c_history 64 c_fresh (map canon [0; 1; 0; 5; 0; 6; 307; 0; 3; 0])) =
  [CNone; CTrap 1; CNone; CStackOverflow; CNone; CPanic 0; CExit 3; CNone; CTrap 3; CNone].
Proof. vm_compute. reflexivity. Qed.

Example listener_host_call_example :
  c_call 64 c_fresh [ANative (ECallGo true false); AGo GRet; AGo GRet; AGo GRet; ANative EGrowMemory; ANative EOK; AClosed (Some 2)]
  = (c_fresh, CExit 2, []).
Proof. vm_compute. reflexivity. Qed.
