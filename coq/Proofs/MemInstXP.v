(* Proofs about Rt/MemInstX.v (C14 extension: allocator as an arbitrary oracle, shared memories, two views).
   Everything is reduced to the base lemmas of MemInstP.v through [xgrow_base] / [xgrow_refused]. *)
From Verif Require Import Lib.GoInt Gen.GenWasm Gen.GenBinary Rt.MemInst Proofs.MemInstP Rt.MemInstX.
From Coq Require Import ZifyBool.
Open Scope Z_scope.
Ltac Zify.zify_post_hook ::= Z.div_mod_to_equations.

(* a shared memory without allocator owns its maximum from the start *)
Definition xwf (sh : bool) (m : mem) : Prop := sh = true -> m_alloc m = false -> m_cap m = m_max m.

Definition xop_ok (o : xop) : Prop :=
  match o with XGrow _ _ d => 0 <= d < 2 ^ 32 | XBase _ b => op_ok b end.

(* ---------------------------------------------------------------- the bound test of Grow *)
Lemma bound_test m d : wf m -> 0 <= d < 2 ^ 32 ->
  (((m_max m <? wrap 32 (pages m + d)) || (swrap 32 d <? 0)) = false <-> pages m + d <= m_max m) /\
  (((m_max m <? wrap 32 (pages m + d)) || (swrap 32 d <? 0)) = false -> wrap 32 (pages m + d) = pages m + d).
Proof.
  intros (H0 & H1 & H2 & H3 & H4 & _) Hd.
  set (P := pages m) in *. set (MX := m_max m) in *.
  unfold wrap, swrap. change (32 - 1) with 31.
  split; [split|]; intros H; lia.
Qed.

Lemma asks_spec m d : wf m -> 0 <= d < 2 ^ 32 ->
  (asks m d = true <-> m_alloc m = true /\ d <> 0 /\ pages m + d <= m_max m).
Proof.
  intros Hw Hd. pose proof (bound_test m d Hw Hd) as (Hb1 & _). unfold asks.
  destruct (Z.eqb_spec d 0) as [->|Hnz]; cbn [negb andb].
  { split; [discriminate|]. intros (_ & H & _). congruence. }
  destruct ((m_max m <? wrap 32 (pages m + d)) || (swrap 32 d <? 0)) eqn:Ht; cbn [negb andb].
  { split; [discriminate|]. intros (_ & _ & H). apply Hb1 in H. discriminate. }
  destruct (m_alloc m); split; try discriminate.
  - intros _. split; [reflexivity|]. split; [assumption|]. apply Hb1. reflexivity.
  - intros _. reflexivity.
  - intros (H & _). discriminate.
Qed.

(* ---------------------------------------------------------------- Grow: refused / not refused *)
Lemma xgrow_refused sh m d : asks m d = true -> xgrow sh m false d = (m, Fail).
Proof.
  unfold asks, xgrow. cbv zeta.
  destruct (d =? 0); [discriminate|].
  destruct ((m_max m <? wrap 32 (pages m + d)) || (swrap 32 d <? 0)); [discriminate|].
  cbn [negb andb]. intros ->. reflexivity.
Qed.

Lemma xgrow_false_true m d : xgrow false m true d = (let '(g, o) := grow m d in (g, obs_of_opt o)).
Proof.
  unfold xgrow, grow. cbv zeta.
  destruct (d =? 0); [reflexivity|].
  destruct ((m_max m <? wrap 32 (pages m + d)) || (swrap 32 d <? 0)); [reflexivity|].
  destruct (m_alloc m); [reflexivity|].
  destruct (m_cap m <? wrap 32 (pages m + d)); reflexivity.
Qed.

(* whenever the allocator agrees (or is not asked), Grow of any flavour is the base model's grow *)
Lemma xgrow_base sh m ans d : wf m -> xwf sh m -> 0 <= d < 2 ^ 32 ->
  (asks m d = true -> ans = true) ->
  xgrow sh m ans d = (let '(g, o) := grow m d in (g, obs_of_opt o)).
Proof.
  intros Hw Hx Hd Ha. pose proof (bound_test m d Hw Hd) as (Hb1 & Hb2).
  unfold xgrow, grow, asks in *. cbv zeta in *.
  destruct (Z.eqb_spec d 0) as [|Hnz]; [reflexivity|]. cbn [negb andb] in Ha.
  destruct ((m_max m <? wrap 32 (pages m + d)) || (swrap 32 d <? 0)) eqn:Ht; [reflexivity|].
  cbn [negb andb] in Ha.
  destruct (m_alloc m) eqn:Hal.
  - rewrite (Ha eq_refl). reflexivity.
  - destruct (Z.ltb_spec (m_cap m) (wrap 32 (pages m + d))) as [Hlt|Hge]; [|reflexivity].
    destruct sh; [|reflexivity]. exfalso.
    specialize (Hx eq_refl Hal). rewrite (Hb2 eq_refl) in Hlt.
    assert (pages m + d <= m_max m) by (apply Hb1; reflexivity). lia.
Qed.

Lemma xgrow_xwf sh m ans d : xwf sh m -> xwf sh (fst (xgrow sh m ans d)).
Proof.
  intros Hx. unfold xgrow. cbv zeta.
  destruct (d =? 0); [exact Hx|].
  destruct ((m_max m <? wrap 32 (pages m + d)) || (swrap 32 d <? 0)); [exact Hx|].
  destruct (m_alloc m) eqn:Hal.
  - destruct ans; [|exact Hx]. intros _ H. cbn in H. congruence.
  - destruct (m_cap m <? wrap 32 (pages m + d)).
    + destruct sh; [exact Hx|]. intros H. discriminate.
    + intros Hs H. cbn. apply Hx; [exact Hs|exact Hal].
Qed.

Definition refused (m : mem) (ans : bool) (d : Z) : Prop := asks m d = true /\ ans = false.

Lemma refused_dec m ans d : refused m ans d \/ (asks m d = true -> ans = true).
Proof. unfold refused. destruct (asks m d), ans; auto; right; discriminate. Qed.

Ltac splits := repeat match goal with |- _ /\ _ => split end.

(* exactness with the allocator as an oracle: a refused grow changes nothing; otherwise as before *)
Lemma xgrow_spec sh m ans d : wf m -> xwf sh m -> 0 <= d < 2 ^ 32 ->
  let '(m', r) := xgrow sh m ans d in
  r <> Panic /\ xwf sh m' /\
  (refused m ans d -> r = Fail /\ m' = m) /\
  (~ refused m ans d ->
     (pages m + d <= m_max m ->
        r = Ok (pages m) /\ pages m' = pages m + d /\ m_data m' = m_data m /\ wf m' /\
        m_max m' = m_max m /\ m_min m' = m_min m) /\
     (m_max m < pages m + d -> r = Fail /\ m' = m)).
Proof.
  intros Hw Hx Hd. pose proof (xgrow_xwf sh m ans d Hx) as Hx'.
  destruct (refused_dec m ans d) as [[Hr ->]|Hn].
  - rewrite (xgrow_refused sh m d Hr) in *. cbn [fst] in Hx'.
    splits; auto; try discriminate. intros Hc. exfalso. apply Hc. split; auto.
  - rewrite (xgrow_base sh m ans d Hw Hx Hd Hn) in *.
    pose proof (grow_spec m d Hw Hd) as Hs. destruct (grow m d) as [g o]. cbn [fst] in Hx'.
    destruct Hs as [Hok Hfail].
    splits; auto.
    + destruct o; cbn; discriminate.
    + intros (Hr & He). specialize (Hn Hr). congruence.
    + intros _. split.
      * intros Hle. destruct (Hok Hle) as (-> & R). cbn [obs_of_opt]. splits; try reflexivity; apply R.
      * intros Hgt. destruct (Hfail Hgt) as (-> & ->). split; reflexivity.
Qed.

Lemma xgrow_wf sh m ans d : wf m -> xwf sh m -> 0 <= d < 2 ^ 32 ->
  wf (fst (xgrow sh m ans d)) /\ xwf sh (fst (xgrow sh m ans d)) /\
  m_max (fst (xgrow sh m ans d)) = m_max m /\ m_min (fst (xgrow sh m ans d)) = m_min m /\
  m_len m <= m_len (fst (xgrow sh m ans d)) /\ snd (xgrow sh m ans d) <> Panic.
Proof.
  intros Hw Hx Hd. pose proof (xgrow_xwf sh m ans d Hx) as Hx'.
  destruct (refused_dec m ans d) as [[Hr ->]|Hn].
  - rewrite (xgrow_refused sh m d Hr) in *. cbn [fst snd] in *. splits; auto; try lia. discriminate.
  - rewrite (xgrow_base sh m ans d Hw Hx Hd Hn) in *.
    pose proof (grow_wf m d Hw Hd) as (A & B & C & D). destruct (grow m d) as [g o]. cbn [fst snd] in *.
    splits; auto. destruct o; cbn; discriminate.
Qed.

Lemma xgrow_contents sh m ans d : wf m -> xwf sh m -> 0 <= d < 2 ^ 32 ->
  let m' := fst (xgrow sh m ans d) in
  (forall a, rd (m_data m') a = rd (m_data m) a) /\ (forall a, m_len m <= a -> rd (m_data m') a = 0).
Proof.
  intros Hw Hx Hd. cbv zeta.
  destruct (refused_dec m ans d) as [[Hr ->]|Hn].
  - rewrite (xgrow_refused sh m d Hr). cbn [fst]. split; [reflexivity|].
    destruct Hw as (_ & _ & _ & _ & _ & _ & H6). intros a Ha. eapply rd_above; eassumption.
  - rewrite (xgrow_base sh m ans d Hw Hx Hd Hn).
    pose proof (grow_contents m d Hw Hd) as Hc. destruct (grow m d) as [g o]. exact Hc.
Qed.

(* ---------------------------------------------------------------- steps and histories *)
Lemma step_cap m o : (forall d, o <> OGrow d) ->
  m_cap (fst (step m o)) = m_cap m /\ m_alloc (fst (step m o)) = m_alloc m /\ m_max (fst (step m o)) = m_max m.
Proof.
  intros Hn. destruct o as [d| | |n off|off n|n off v|off bs]; cbn [step fst]; try (splits; reflexivity).
  - exfalso. eapply Hn. reflexivity.
  - unfold write_fixed. destruct (has_size m off (Z.of_nat n)); [|splits; reflexivity].
    destruct (slice_from_ok m off (Z.of_nat n)); splits; reflexivity.
  - unfold write_region. destruct (has_size m off (Z.of_nat (length bs))); [|splits; reflexivity].
    destruct (off <=? m_len m); splits; reflexivity.
Qed.

Lemma xstep_base_nongrow sh m v o : (forall d, o <> OGrow d) -> xstep sh m (XBase v o) = step m o.
Proof. intros Hn. destruct o; try reflexivity. exfalso. eapply Hn. reflexivity. Qed.

Lemma xstep_base_wf sh m v b : (forall d, b <> OGrow d) -> wf m -> xwf sh m -> op_ok b ->
  wf (fst (xstep sh m (XBase v b))) /\ xwf sh (fst (xstep sh m (XBase v b))) /\
  m_max (fst (xstep sh m (XBase v b))) = m_max m /\ m_min (fst (xstep sh m (XBase v b))) = m_min m /\
  m_len m <= m_len (fst (xstep sh m (XBase v b))) /\ snd (xstep sh m (XBase v b)) <> Panic.
Proof.
  intros Hn Hw Hx Ho. rewrite (xstep_base_nongrow sh m v b Hn).
  pose proof (step_wf m b Hw Ho) as (A & B & C & D & E).
  pose proof (step_cap m b Hn) as (C1 & C2 & C3).
  splits; auto. intros Hs Hal. rewrite C1, C3. apply Hx; [exact Hs|congruence].
Qed.

Lemma xstep_wf sh m o : wf m -> xwf sh m -> xop_ok o ->
  wf (fst (xstep sh m o)) /\ xwf sh (fst (xstep sh m o)) /\
  m_max (fst (xstep sh m o)) = m_max m /\ m_min (fst (xstep sh m o)) = m_min m /\
  m_len m <= m_len (fst (xstep sh m o)) /\ snd (xstep sh m o) <> Panic.
Proof.
  intros Hw Hx Ho. destruct o as [v ans d|v b]; cbn [xop_ok] in Ho.
  - cbn [xstep]. apply xgrow_wf; assumption.
  - destruct b as [d| | |n off|off n|n off w|off bs];
      [cbn [xstep]; apply xgrow_wf; assumption | ..];
      (apply xstep_base_wf; [intros; discriminate|assumption|assumption|assumption]).
Qed.

Lemma xrun_fst sh ops : forall m, fst (xrun sh m ops) = xfinal sh m ops.
Proof.
  induction ops as [|o r IH]; intros m; [reflexivity|].
  cbn [xrun]. unfold xfinal. cbn [fold_left]. destruct (xstep sh m o) as [m1 x] eqn:Hs. cbn [fst].
  specialize (IH m1). destruct (xrun sh m1 r) as [m2 xs]. cbn [fst] in *. exact IH.
Qed.

Lemma xfinal_wf sh ops : forall m, wf m -> xwf sh m -> Forall xop_ok ops ->
  wf (xfinal sh m ops) /\ xwf sh (xfinal sh m ops) /\ m_max (xfinal sh m ops) = m_max m /\
  m_min (xfinal sh m ops) = m_min m /\ m_len m <= m_len (xfinal sh m ops).
Proof.
  induction ops as [|o r IH]; intros m Hw Hx Ho; unfold xfinal in *; cbn [fold_left].
  - splits; auto; lia.
  - inversion Ho as [|y ys Hoy Hor]; subst.
    pose proof (xstep_wf sh m o Hw Hx Hoy) as (A & B & C & D & E & _).
    destruct (IH _ A B Hor) as (A' & B' & C' & D' & E'). splits; auto; try congruence; lia.
Qed.

Lemma xrun_no_panic sh ops : forall m, wf m -> xwf sh m -> Forall xop_ok ops -> ~ In Panic (snd (xrun sh m ops)).
Proof.
  induction ops as [|o r IH]; intros m Hw Hx Ho; cbn [xrun].
  - cbn. tauto.
  - inversion Ho as [|y ys Hoy Hor]; subst.
    pose proof (xstep_wf sh m o Hw Hx Hoy) as (A & B & _ & _ & _ & F).
    destruct (xstep sh m o) as [m1 x] eqn:Hs. cbn [fst snd] in *.
    specialize (IH m1 A B Hor). destruct (xrun sh m1 r) as [m2 xs]. cbn [snd] in *.
    intros [Hh|Ht]; [congruence|tauto].
Qed.

(* ---------------------------------------------------------------- configuration and instantiation *)
Lemma xaccept_accept x : xaccept x = true ->
  accept (x_c x) = true /\ (x_shared x = true -> x_threads x = true /\ c_hasmax (x_c x) = true).
Proof.
  unfold xaccept. destruct (accept (x_c x)); [|rewrite Bool.andb_false_r; discriminate].
  destruct (x_shared x); [|intros _; split; [reflexivity|discriminate]].
  destruct (x_threads x), (c_hasmax (x_c x)); cbn; try discriminate. auto.
Qed.

Lemma mem_init_alloc c : m_alloc (mem_init c) = c_alloc c.
Proof. unfold mem_init. destruct (sized c) as [[a b] d]. reflexivity. Qed.

Lemma mem_init_pages c : wf_cfg c -> accept c = true -> pages (mem_init c) = c_min c.
Proof.
  intros Hc Ha. pose proof (accept_bounds c Hc Ha) as Hb. pose proof (sized_semantics c Hc Ha) as (E & _).
  destruct Hc as (_ & _ & Hlim). unfold mem_init, pages. destruct (sized c) as [[mn cp] mx].
  cbn [fst snd] in E. cbn [m_len]. rewrite pages_of_len by lia. exact E.
Qed.

Lemma xinit_wf x m : wf_cfg (x_c x) -> xaccept x = true -> xinit x = Some m ->
  wf m /\ xwf (x_shared x) m /\ pages m = c_min (x_c x) /\ m_max m = pages_bound (x_c x) /\
  m_min m = c_min (x_c x) /\ m_data m = [].
Proof.
  intros Hc Hxa Hi. destruct (xaccept_accept x Hxa) as (Ha & _).
  pose proof (init_wf _ Hc Ha) as Hw. pose proof (mem_init_pages _ Hc Ha) as Hp.
  pose proof (sized_semantics _ Hc Ha) as (E & F). pose proof (init_fields (x_c x)) as (G & H).
  pose proof (mem_init_alloc (x_c x)) as Hal.
  assert (Hd : m_data (mem_init (x_c x)) = []).
  { unfold mem_init. destruct (sized (x_c x)) as [[a b] d]. reflexivity. }
  assert (Hbase : wf (mem_init (x_c x)) /\ pages (mem_init (x_c x)) = c_min (x_c x) /\
                  m_max (mem_init (x_c x)) = pages_bound (x_c x) /\ m_min (mem_init (x_c x)) = c_min (x_c x) /\
                  m_data (mem_init (x_c x)) = []) by (splits; congruence).
  unfold xinit in Hi. destruct (c_alloc (x_c x)) eqn:Hca.
  - assert (m = mem_init (x_c x)) as ->.
    { destruct (x_min_ans x); [congruence|]. destruct ((m_len (mem_init (x_c x)) =? 0) && negb (x_shared x)); congruence. }
    destruct Hbase as (B1 & B2 & B3 & B4 & B5). splits; auto. intros _ Hf. congruence.
  - destruct (x_shared x) eqn:Hsh.
    + inversion Hi; subst m. clear Hi. destruct Hbase as (B1 & B2 & B3 & B4 & B5).
      destruct B1 as (W0 & W1 & W2 & W3 & W4 & W5 & W6).
      unfold wf, xwf, pages, with_len in *. cbn [m_len m_min m_cap m_max m_alloc m_data].
      splits; auto.
    + inversion Hi; subst m. destruct Hbase as (B1 & B2 & B3 & B4 & B5). splits; auto. intros Hf. discriminate.
Qed.

(* an accepted configuration whose allocator refuses a non-empty minimum does not instantiate; every other does *)
Lemma xinit_none x : xinit x = None <->
  c_alloc (x_c x) = true /\ x_min_ans x = false /\ (m_len (mem_init (x_c x)) <> 0 \/ x_shared x = true).
Proof.
  unfold xinit. destruct (c_alloc (x_c x)).
  - destruct (x_min_ans x).
    + split; [discriminate|]. intros (_ & H & _). discriminate.
    + destruct (Z.eqb_spec (m_len (mem_init (x_c x))) 0) as [E|E], (x_shared x); cbn [andb negb].
      * split; auto.
      * split; [discriminate|]. intros (_ & _ & [H|H]); congruence.
      * split; auto.
      * split; auto.
  - destruct (x_shared x); (split; [discriminate|]); intros (H & _); discriminate.
Qed.

Lemma x_reachable_invariant x m0 ops : wf_cfg (x_c x) -> xaccept x = true -> xinit x = Some m0 ->
  Forall xop_ok ops ->
  let m := xfinal (x_shared x) m0 ops in
  wf m /\
  c_min (x_c x) <= pages m <= pages_bound (x_c x) /\ pages_bound (x_c x) <= 65536 /\
  m_len m = pages m * 65536 /\ size_interp m = pages m /\
  ~ In Panic (snd (xrun (x_shared x) m0 ops)).
Proof.
  intros Hc Ha Hi Ho. destruct (xinit_wf x m0 Hc Ha Hi) as (Hw & Hx & Hp & Hmx & Hmn & _).
  pose proof (xfinal_wf (x_shared x) ops m0 Hw Hx Ho) as (A & B & C & D & E).
  cbv zeta. split; [exact A|]. pose proof (size_interp_pages _ A) as Hs.
  pose proof Hw as (V0 & V1 & V2 & V3 & V4 & _).
  destruct A as (A0 & A1 & A2 & A3 & A4 & _).
  splits; try lia; try assumption. apply xrun_no_panic; assumption.
Qed.

(* ---------------------------------------------------------------- conservativity / flavours / views *)
Lemma xstep_lift m o : xstep false m (lift o) = step m o.
Proof. destruct o; try reflexivity. cbn [lift xstep step]. apply xgrow_false_true. Qed.

(* the extended model run on an agreeing allocator, unshared, is the base model *)
Lemma xrun_lift ops : forall m, xrun false m (map lift ops) = run m ops.
Proof.
  induction ops as [|o r IH]; intros m; [reflexivity|].
  cbn [map xrun run]. rewrite xstep_lift. destruct (step m o) as [m1 x]. rewrite IH. reflexivity.
Qed.

Lemma xstep_shared_lift m o : wf m -> xwf true m -> op_ok o -> xstep true m (lift o) = step m o.
Proof.
  intros Hw Hx Ho. destruct o; try reflexivity. cbn [lift xstep step]. cbn [op_ok] in Ho.
  apply xgrow_base; auto.
Qed.

Lemma xop_ok_lift o : op_ok o -> xop_ok (lift o).
Proof. destruct o; cbn; auto. Qed.

(* a shared memory (with an agreeing allocator or none) behaves exactly like the base model *)
Lemma xrun_shared_lift ops : forall m, wf m -> xwf true m -> Forall op_ok ops ->
  xrun true m (map lift ops) = run m ops.
Proof.
  induction ops as [|o r IH]; intros m Hw Hx Ho; [reflexivity|].
  inversion Ho as [|y ys Hoy Hor]; subst.
  cbn [map xrun run].
  pose proof (xstep_wf true m (lift o) Hw Hx (xop_ok_lift o Hoy)) as (A & B & _).
  rewrite (xstep_shared_lift m o Hw Hx Hoy) in *.
  destruct (step m o) as [m1 x]. cbn [fst] in *. rewrite (IH m1 A B Hor). reflexivity.
Qed.

Lemma xstep_view sh m v o : xstep sh m (set_view v o) = xstep sh m o.
Proof. destruct o; reflexivity. Qed.

Lemma xrun_set_view sh v ops : forall m, xrun sh m (map (set_view v) ops) = xrun sh m ops.
Proof.
  induction ops as [|o r IH]; intros m; [reflexivity|].
  cbn [map xrun]. rewrite xstep_view. destruct (xstep sh m o) as [m1 x]. rewrite IH. reflexivity.
Qed.

(* two histories that differ only in the view each operation is made through: same states, same observations *)
Lemma xrun_views sh m ops1 ops2 : map (set_view false) ops1 = map (set_view false) ops2 ->
  xrun sh m ops1 = xrun sh m ops2.
Proof.
  intros H. rewrite <- (xrun_set_view sh false ops1), <- (xrun_set_view sh false ops2), H. reflexivity.
Qed.

Lemma xrun_app sh ops1 : forall m ops2,
  xrun sh m (ops1 ++ ops2) =
    (fst (xrun sh (fst (xrun sh m ops1)) ops2), snd (xrun sh m ops1) ++ snd (xrun sh (fst (xrun sh m ops1)) ops2)).
Proof.
  induction ops1 as [|o r IH]; intros m ops2.
  - cbn [app xrun fst snd]. destruct (xrun sh m ops2); reflexivity.
  - cbn [app xrun]. destruct (xstep sh m o) as [m1 x]. rewrite IH.
    destruct (xrun sh m1 r) as [m2 xs]. cbn [fst snd]. reflexivity.
Qed.

(* a refused grow anywhere in a history can be erased: the memory and every other observation (of the guest and
   of the host, through either view) are what they would have been without it *)
Lemma xrun_refused_erasure sh m pre v d post :
  asks (xfinal sh m pre) d = true ->
  xfinal sh m (pre ++ XGrow v false d :: post) = xfinal sh m (pre ++ post) /\
  exists o1 o2, length o1 = length pre /\
    snd (xrun sh m (pre ++ post)) = o1 ++ o2 /\
    snd (xrun sh m (pre ++ XGrow v false d :: post)) = o1 ++ Fail :: o2.
Proof.
  intros Ha. rewrite <- !xrun_fst in *. rewrite !xrun_app. cbn [fst snd xrun xstep].
  rewrite (xgrow_refused sh _ d Ha).
  destruct (xrun sh (fst (xrun sh m pre)) post) as [m2 xs]. cbn [fst snd].
  split; [reflexivity|].
  exists (snd (xrun sh m pre)), xs. splits; try reflexivity.
  clear. revert m. induction pre as [|o r IH]; intros m; [reflexivity|].
  cbn [xrun]. destruct (xstep sh m o) as [m1 x]. specialize (IH m1). destruct (xrun sh m1 r) as [m3 ys].
  cbn [snd length] in *. congruence.
Qed.

(* the request the allocator sees is the new size, and it sees one exactly when the grow is within the bound *)
Lemma ask_size_spec m d : wf m -> 0 <= d < 2 ^ 32 -> asks m d = true ->
  ask_size m d = (pages m + d) * 65536 /\ m_len m < ask_size m d <= m_max m * 65536.
Proof.
  intros Hw Hd Ha. apply asks_spec in Ha; auto. destruct Ha as (_ & Hnz & Hle).
  pose proof (bound_test m d Hw Hd) as (Hb1 & Hb2).
  destruct Hw as (H0 & H1 & H2 & H3 & H4 & _).
  unfold ask_size. rewrite Hb2 by (apply Hb1; exact Hle). rewrite bytes_of_pages by lia. lia.
Qed.

(* ---------------------------------------------------------------- non-vacuity *)
Example c14x_example_refusal :
  let x := {| x_c := {| c_min := 1; c_hasmax := true; c_max := 4; c_limit := 65536; c_capmax := false; c_alloc := true |};
              x_shared := true; x_threads := true; x_min_ans := true |} in
  wf_cfg (x_c x) /\ xaccept x = true /\
  exists m0, xinit x = Some m0 /\
  snd (xrun true m0 [XGrow false true 1; XBase true (OWrite 1 131071 7); XGrow true false 1; XBase false OPages;
                     XBase false (ORead 1 131071); XBase true (ORead 1 131072); XGrow false true 2; XGrow true true 1;
                     XBase true OPages])
   = [Ok 1; Ok 0; Fail; Ok 2; Ok 7; Fail; Ok 2; Fail; Ok 4] /\
  xreqs true m0 [XGrow false true 1; XGrow true false 1; XGrow false true 3; XGrow true true 2]
   = [131072; 196608; -1; 262144].
Proof.
  cbv zeta. unfold wf_cfg, u32. cbn [x_c c_min c_max c_limit].
  split; [lia|]. split; [vm_compute; reflexivity|].
  eexists. split; [vm_compute; reflexivity|]. split; vm_compute; reflexivity.
Qed.

Example c14x_example_min_refused :
  let x := {| x_c := {| c_min := 2; c_hasmax := false; c_max := 0; c_limit := 10; c_capmax := false; c_alloc := true |};
              x_shared := false; x_threads := false; x_min_ans := false |} in
  xaccept x = true /\ xinit x = None /\ xstatus x = 2.
Proof. cbv zeta. splits; vm_compute; reflexivity. Qed.

Example c14x_example_shared_needs_max :
  xaccept {| x_c := {| c_min := 1; c_hasmax := false; c_max := 0; c_limit := 10; c_capmax := false; c_alloc := false |};
             x_shared := true; x_threads := true; x_min_ans := true |} = false /\
  xaccept {| x_c := {| c_min := 1; c_hasmax := true; c_max := 2; c_limit := 10; c_capmax := false; c_alloc := false |};
             x_shared := true; x_threads := false; x_min_ans := true |} = false.
Proof. split; vm_compute; reflexivity. Qed.
