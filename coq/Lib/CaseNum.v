(* Cheap numerals for generated correspondence-case files. Coq's decimal notation for Z costs about a
   millisecond per 64-bit literal (and hex a fifth of that); primitive 63-bit integer literals are read
   natively. Case files write  zi n  (0 <= n < 2^62),  zh hi lo  (hi * 2^32 + lo)  and  zn n  (- n).
   Used only inside `Eval vm_compute` of case files, never in a model or a theorem. *)
From Coq Require Import ZArith Uint63.
Open Scope Z_scope.

Definition zi (i : int) : Z := Uint63.to_Z i.
Definition zh (hi lo : int) : Z := Uint63.to_Z hi * 4294967296 + Uint63.to_Z lo.
Definition zn (i : int) : Z := - Uint63.to_Z i.
Definition znh (hi lo : int) : Z := - zh hi lo.
Arguments zi i%uint63.
Arguments zh (hi lo)%uint63.
Arguments zn i%uint63.
Arguments znh (hi lo)%uint63.
