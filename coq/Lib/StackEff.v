(* Outcome vocabulary of go2coq's "stack-effect mode": a `case operationKindX:` body of the interpreter's
   callNativeFunc switch becomes a function from the operand stack (a list of 64-bit slots, head = top)
   to an [effect]. `ce.popValue()` consumes the head (an empty stack is Go's index-out-of-range panic:
   [EUnderflow]), `ce.pushValue(e)` conses, `panic(wasmruntime.ErrRuntimeX)` is [ETrap ErrRuntimeX],
   an integer division by a zero divisor that the Go code did not guard is Go's run-time panic
   [EGoPanic], and a path that goes through floating-point code is [EOpaque] (not translated; the
   theorems about integer operators must show that such a path is not taken). No proofs here. *)
From Coq Require Import ZArith List.
Import ListNotations.
Open Scope Z_scope.

(* the sentinel errors of internal/wasmruntime/errors.go, by name; an unknown name in a regenerated
   file is a compile error *)
Inductive gotrap :=
| ErrRuntimeStackOverflow | ErrRuntimeInvalidConversionToInteger | ErrRuntimeIntegerOverflow
| ErrRuntimeIntegerDivideByZero | ErrRuntimeUnreachable | ErrRuntimeOutOfBoundsMemoryAccess
| ErrRuntimeInvalidTableAccess | ErrRuntimeIndirectCallTypeMismatch | ErrRuntimeUnalignedAtomic
| ErrRuntimeExpectedSharedMemory | ErrRuntimeTooManyWaiters.

Inductive effect :=
| Eff (stk : list Z)
| ETrap (t : gotrap)
| EGoPanic
| EUnderflow
| EOpaque.

(* a lowered operation: what the interpreter's compiler emits for one wasm opcode
   (unionOperation{Kind, B1, B2, B3}) *)
Record lowered := { l_kind : Z; l_b1 : Z; l_b2 : Z; l_b3 : bool }.
