(* The math/bits intrinsics that go2coq's stack-effect mode accepts, as executable definitions on Z
   written from the Go documentation / source of math/bits (bit tests and shifts), and the lemmas
   relating them to the specification's numerics (Wasm/Numerics.v: iclz, ictz, ipopcnt, irotl, irotr),
   which are written with log2 / odd / div instead. Arguments are unsigned values of the stated width;
   results are Go `int`s (small and non-negative). *)
From Coq Require Import ZArith Znumtheory Bool List Lia.
From Verif Require Import Lib.GoInt Wasm.Numerics.
Open Scope Z_scope.

(* "LeadingZeros32 returns the number of leading zero bits in x; the result is 32 for x == 0":
   scan from bit w-1 downwards, n bits *)
Fixpoint count_lz (n : nat) (w : Z) (x : Z) : Z :=
  match n with
  | O => 0
  | S k => if Z.testbit x (w - 1) then 0 else 1 + count_lz k (w - 1) x
  end.
(* "TrailingZeros32 returns the number of trailing zero bits in x; the result is 32 for x == 0" *)
Fixpoint count_tz (n : nat) (i : Z) (x : Z) : Z :=
  match n with
  | O => 0
  | S k => if Z.testbit x i then 0 else 1 + count_tz k (i + 1) x
  end.
(* "OnesCount32 returns the number of one bits ("population count") in x" *)
Fixpoint count_ones (n : nat) (i : Z) (x : Z) : Z :=
  match n with
  | O => 0
  | S k => (if Z.testbit x i then 1 else 0) + count_ones k (i + 1) x
  end.

Definition LeadingZeros32 (x : Z) : Z := count_lz 32 32 x.
Definition LeadingZeros64 (x : Z) : Z := count_lz 64 64 x.
Definition TrailingZeros32 (x : Z) : Z := count_tz 32 0 x.
Definition TrailingZeros64 (x : Z) : Z := count_tz 64 0 x.
Definition OnesCount32 (x : Z) : Z := count_ones 32 0 x.
Definition OnesCount64 (x : Z) : Z := count_ones 64 0 x.

(* func RotateLeft32(x uint32, k int) uint32 { const n = 32; s := uint(k) & (n - 1); return x<<s | x>>(n-s) } *)
Definition rotl_go (N x k : Z) : Z :=
  let s := Z.land (wrap 64 k) (N - 1) in
  Z.lor (shlv N x s) (shrv N x (N - s)).
Definition RotateLeft32 (x k : Z) : Z := rotl_go 32 x k.
Definition RotateLeft64 (x k : Z) : Z := rotl_go 64 x k.

(* ------------------------------------------------------------------ lemmas *)
Ltac Zify.zify_post_hook ::= Z.div_mod_to_equations.

Lemma testbit_odd_div x i : 0 <= i -> Z.testbit x i = Z.odd (x / 2 ^ i).
Proof. intros Hi. rewrite Z.testbit_odd, Z.shiftr_div_pow2 by exact Hi. reflexivity. Qed.

Lemma div_pow2_succ x i : 0 <= i -> x / 2 ^ i / 2 = x / 2 ^ (i + 1).
Proof.
  intros Hi. rewrite Z.pow_add_r by lia. rewrite Z.div_div by (try apply Z.pow_pos_nonneg; lia). reflexivity.
Qed.

Lemma count_tz_fuel n i x : 0 <= i -> count_tz n i x = ctz_fuel n (x / 2 ^ i).
Proof.
  revert i. induction n as [|n IH]; intros i Hi; cbn [count_tz ctz_fuel]; [reflexivity|].
  rewrite testbit_odd_div by exact Hi. destruct (Z.odd (x / 2 ^ i)); [reflexivity|].
  rewrite IH by lia. rewrite div_pow2_succ by exact Hi. reflexivity.
Qed.

Lemma count_ones_fuel n i x : 0 <= i -> count_ones n i x = popcnt_fuel n (x / 2 ^ i).
Proof.
  revert i. induction n as [|n IH]; intros i Hi; cbn [count_ones popcnt_fuel]; [reflexivity|].
  rewrite testbit_odd_div by exact Hi. rewrite IH by lia. rewrite div_pow2_succ by exact Hi. reflexivity.
Qed.

Lemma count_tz_zero n i : count_tz n i 0 = Z.of_nat n.
Proof.
  revert i. induction n as [|n IH]; intros i; cbn [count_tz]; [reflexivity|].
  rewrite Z.bits_0, IH. lia.
Qed.

Lemma count_lz_zero n w : count_lz n w 0 = Z.of_nat n.
Proof.
  revert w. induction n as [|n IH]; intros w; cbn [count_lz]; [reflexivity|].
  rewrite Z.bits_0, IH. lia.
Qed.

Lemma count_lz_log2 n x : 0 < x < 2 ^ Z.of_nat n -> count_lz n (Z.of_nat n) x = Z.of_nat n - 1 - Z.log2 x.
Proof.
  revert x. induction n as [|n IH]; intros x Hx.
  - cbn in Hx. lia.
  - cbn [count_lz]. replace (Z.of_nat (S n) - 1) with (Z.of_nat n) by lia.
    assert (Hp : 2 ^ Z.of_nat (S n) = 2 * 2 ^ Z.of_nat n) by (rewrite Nat2Z.inj_succ, Z.pow_succ_r by lia; reflexivity).
    assert (Hpos : 0 < 2 ^ Z.of_nat n) by (apply Z.pow_pos_nonneg; lia).
    rewrite testbit_odd_div by lia.
    destruct (Z_lt_ge_dec x (2 ^ Z.of_nat n)) as [Hlt|Hge].
    + rewrite Z.div_small by lia. cbn [Z.odd]. rewrite IH by lia. lia.
    + assert (Hd : x / 2 ^ Z.of_nat n = 1) by (symmetry; apply Z.div_unique with (r := x - 2 ^ Z.of_nat n); lia).
      rewrite Hd. cbn [Z.odd].
      assert (Z.log2 x = Z.of_nat n) by (apply Z.log2_unique; [lia|]; rewrite Z.pow_succ_r by lia; lia).
      lia.
Qed.

Lemma LeadingZeros32_clz x : 0 <= x < 2 ^ 32 -> LeadingZeros32 x = iclz 32 x.
Proof.
  intros Hx. unfold LeadingZeros32, iclz. destruct (Z.eqb_spec x 0) as [->|Hne]; [reflexivity|].
  apply (count_lz_log2 32). change (Z.of_nat 32) with 32. lia.
Qed.
Lemma LeadingZeros64_clz x : 0 <= x < 2 ^ 64 -> LeadingZeros64 x = iclz 64 x.
Proof.
  intros Hx. unfold LeadingZeros64, iclz. destruct (Z.eqb_spec x 0) as [->|Hne]; [reflexivity|].
  apply (count_lz_log2 64). change (Z.of_nat 64) with 64. lia.
Qed.

Lemma TrailingZeros32_ctz x : TrailingZeros32 x = ictz 32 x.
Proof.
  unfold TrailingZeros32, ictz. destruct (Z.eqb_spec x 0) as [->|Hne]; [reflexivity|].
  rewrite count_tz_fuel by lia. rewrite Z.div_1_r. reflexivity.
Qed.
Lemma TrailingZeros64_ctz x : TrailingZeros64 x = ictz 64 x.
Proof.
  unfold TrailingZeros64, ictz. destruct (Z.eqb_spec x 0) as [->|Hne]; [reflexivity|].
  rewrite count_tz_fuel by lia. rewrite Z.div_1_r. reflexivity.
Qed.

Lemma OnesCount32_popcnt x : OnesCount32 x = ipopcnt 32 x.
Proof. unfold OnesCount32, ipopcnt. rewrite count_ones_fuel by lia. rewrite Z.div_1_r. reflexivity. Qed.
Lemma OnesCount64_popcnt x : OnesCount64 x = ipopcnt 64 x.
Proof. unfold OnesCount64, ipopcnt. rewrite count_ones_fuel by lia. rewrite Z.div_1_r. reflexivity. Qed.

(* results of the counting intrinsics are small *)
Lemma count_lz_range n w x : 0 <= count_lz n w x <= Z.of_nat n.
Proof. revert w. induction n as [|n IH]; intros w; cbn [count_lz]; [lia|]. destruct (Z.testbit x (w - 1)); [lia|]. specialize (IH (w - 1)). lia. Qed.
Lemma count_tz_range n i x : 0 <= count_tz n i x <= Z.of_nat n.
Proof. revert i. induction n as [|n IH]; intros i; cbn [count_tz]; [lia|]. destruct (Z.testbit x i); [lia|]. specialize (IH (i + 1)). lia. Qed.
Lemma count_ones_range n i x : 0 <= count_ones n i x <= Z.of_nat n.
Proof. revert i. induction n as [|n IH]; intros i; cbn [count_ones]; [lia|]. specialize (IH (i + 1)). destruct (Z.testbit x i); lia. Qed.

(* the rotation count: uint(k) & (N-1) is k mod N for N = 32, 64 and every int k *)
Lemma rot_count e k : 0 <= e <= 64 -> Z.land (wrap 64 k) (2 ^ e - 1) = k mod 2 ^ e.
Proof.
  intros He. replace (2 ^ e - 1) with (Z.ones e) by (rewrite Z.ones_equiv; lia).
  rewrite Z.land_ones by lia. unfold wrap.
  symmetry. apply Zmod_div_mod; try (apply Z.pow_pos_nonneg; lia).
  exists (2 ^ (64 - e)). rewrite <- Z.pow_add_r by lia. f_equal. lia.
Qed.

(* a left part that is a multiple of 2^s and a right part below 2^s do not overlap *)
Lemma lor_disjoint_add m r s : 0 <= s -> 0 <= r < 2 ^ s -> Z.lor (m * 2 ^ s) r = m * 2 ^ s + r.
Proof.
  intros Hs Hr.
  assert (Hl : Z.land (m * 2 ^ s) r = 0).
  { apply Z.bits_inj'. intros i Hi. rewrite Z.land_spec, Z.bits_0.
    destruct (Z_lt_ge_dec i s) as [Hlt|Hge].
    - rewrite Z.mul_pow2_bits_low by lia. reflexivity.
    - destruct (Z.eqb_spec r 0) as [->|Hne]; [rewrite Z.bits_0; apply andb_false_r|].
      rewrite (Z.bits_above_log2 r i); [apply andb_false_r|lia|].
      apply Z.log2_lt_pow2; try lia. apply Z.lt_le_trans with (2 ^ s); [lia|]. apply Z.pow_le_mono_r; lia. }
  rewrite <- Z.lxor_lor by exact Hl. symmetry. apply Z.add_nocarry_lxor. exact Hl.
Qed.

Lemma rotl_go_irotl e x k : (e = 5 \/ e = 6) -> 0 <= x < 2 ^ 2 ^ e ->
  rotl_go (2 ^ e) x k = irotl (2 ^ e) x k.
Proof.
  intros He Hx. unfold rotl_go, irotl. rewrite rot_count by lia.
  set (N := 2 ^ e) in *. assert (HN : N = 32 \/ N = 64) by (destruct He; subst; [left|right]; reflexivity).
  set (s := k mod N). assert (Hs : 0 <= s < N) by (apply Z.mod_pos_bound; lia).
  cbv zeta. unfold shlv, shrv, modN, wrap.
  destruct (Z.ltb_spec s N) as [_|]; [|lia].
  assert (Hps : 0 < 2 ^ s) by (apply Z.pow_pos_nonneg; lia).
  destruct (Z.eqb_spec s 0) as [E0|Hne].
  - rewrite E0, Z.sub_0_r. destruct (Z.ltb_spec N N); [lia|]. destruct (Z.ltb_spec x 0); [lia|].
    rewrite Z.pow_0_r, Z.mul_1_r, Z.lor_0_r. rewrite (Z.div_small x (2 ^ N)) by lia. lia.
  - destruct (Z.ltb_spec (N - s) N); [|lia].
    assert (Hsplit : 2 ^ N = 2 ^ (N - s) * 2 ^ s) by (rewrite <- Z.pow_add_r by lia; f_equal; lia).
    assert (Hpn : 0 < 2 ^ (N - s)) by (apply Z.pow_pos_nonneg; lia).
    (* (x * 2^s) mod 2^N = (x mod 2^(N-s)) * 2^s *)
    assert (Hm : (x * 2 ^ s) mod 2 ^ N = (x mod 2 ^ (N - s)) * 2 ^ s).
    { rewrite Hsplit. rewrite Z.mul_mod_distr_r by lia. reflexivity. }
    rewrite Hm. apply lor_disjoint_add; [lia|].
    split; [apply Z.div_pos; lia|]. apply Z.div_lt_upper_bound; [lia|]. rewrite <- Hsplit. lia.
Qed.

Lemma RotateLeft32_rotl x k : 0 <= x < 2 ^ 32 -> RotateLeft32 x k = irotl 32 x k.
Proof. intros Hx. apply (rotl_go_irotl 5); [auto|exact Hx]. Qed.
Lemma RotateLeft64_rotl x k : 0 <= x < 2 ^ 64 -> RotateLeft64 x k = irotl 64 x k.
Proof. intros Hx. apply (rotl_go_irotl 6); [auto|exact Hx]. Qed.

(* rotating left by -k is rotating right by k *)
Lemma irotl_neg_irotr N x k : (N = 32 \/ N = 64) -> 0 <= x < 2 ^ N -> irotl N x (- k) = irotr N x k.
Proof.
  intros HN Hx. unfold irotl, irotr. cbv zeta.
  assert (Hk : 0 <= k mod N < N) by (apply Z.mod_pos_bound; lia).
  destruct (Z.eqb_spec (k mod N) 0) as [E0|Hne].
  - assert (E1 : (- k) mod N = 0) by (apply Z.mod_opp_l_z; lia).
    rewrite E0, E1, Z.sub_0_r, Z.pow_0_r, Z.mul_1_r, Z.div_1_r. unfold modN.
    rewrite (Z.div_small x (2 ^ N)) by lia. rewrite Z.mod_small by lia. rewrite Z.mod_mul by lia. lia.
  - assert (E1 : (- k) mod N = N - k mod N) by (apply Z.mod_opp_l_nz; lia).
    rewrite E1. replace (N - (N - k mod N)) with (k mod N) by lia. lia.
Qed.

(* -int(v2) as the translator renders it: two signed 64-bit wraps; only the count modulo N matters *)
Lemma irotl_count_mod N x k k' : 0 < N -> k mod N = k' mod N -> irotl N x k = irotl N x k'.
Proof. intros HN E. unfold irotl. rewrite E. reflexivity. Qed.

Lemma swrap64_mod N k : (N = 32 \/ N = 64) -> swrap 64 k mod N = k mod N.
Proof.
  intros HN. unfold swrap.
  assert (D : (N | 2 ^ 64)) by (destruct HN; subst; [exists (2 ^ 59)|exists (2 ^ 58)]; reflexivity).
  assert (D2 : (N | 2 ^ (64 - 1))) by (destruct HN; subst; [exists (2 ^ 58)|exists (2 ^ 57)]; reflexivity).
  destruct D2 as [c Hc].
  rewrite Hc. rewrite Zminus_mod. rewrite Z.mod_mul by lia. rewrite Z.sub_0_r, Z.mod_mod by lia.
  rewrite <- Zmod_div_mod; [|lia|reflexivity|exact D].
  rewrite Z.mod_add by lia. reflexivity.
Qed.
