(* Fixed-width Go integers on Z: the vocabulary used by the go2coq translator (coq/Gen) and
   by the hand-written models. Unsigned values are represented by 0 <= z < 2^w, signed values
   by -2^(w-1) <= z < 2^(w-1). Every arithmetic node emitted by the translator is wrapped to
   the width of its Go type, so wrap-around is explicit in the model. *)
From Coq Require Export ZArith Bool List Lia.
From Coq Require Import ZifyBool.
Export ListNotations.
Open Scope Z_scope.

Definition wrap (w z : Z) : Z := z mod 2 ^ w.
Definition swrap (w z : Z) : Z := (z + 2 ^ (w - 1)) mod 2 ^ w - 2 ^ (w - 1).

(* shifts by a count already known to be < w (constant shifts) *)
Definition shl (w x k : Z) : Z := wrap w (x * 2 ^ k).
Definition sshl (w x k : Z) : Z := swrap w (x * 2 ^ k).
Definition shr (x k : Z) : Z := x / 2 ^ k.               (* floor: logical on unsigned, arithmetic on signed *)
(* variable shift counts: Go yields 0 (or the sign fill) when the count reaches the width *)
Definition shlv (w x k : Z) : Z := if k <? w then wrap w (x * 2 ^ k) else 0.
Definition sshlv (w x k : Z) : Z := if k <? w then swrap w (x * 2 ^ k) else 0.
Definition shrv (w x k : Z) : Z := if k <? w then x / 2 ^ k else (if x <? 0 then -1 else 0).

Definition in_u (w z : Z) : Prop := 0 <= z < 2 ^ w.
Definition in_s (w z : Z) : Prop := - 2 ^ (w - 1) <= z < 2 ^ (w - 1).
Definition in_ub (w z : Z) : bool := (0 <=? z) && (z <? 2 ^ w).

(* error results of translated functions: 0 = nil, k > 0 = the k-th error site in source order *)
Definition is_nil (e : Z) : bool := e =? 0.

Lemma wrap_small w z : 0 <= z < 2 ^ w -> wrap w z = z.
Proof. intros H. unfold wrap. apply Z.mod_small; exact H. Qed.

Lemma wrap_range w z : 0 <= w -> 0 <= wrap w z < 2 ^ w.
Proof. intros Hw. unfold wrap. apply Z.mod_pos_bound. apply Z.pow_pos_nonneg; lia. Qed.

Lemma wrap_wrap w z : 0 <= w -> wrap w (wrap w z) = wrap w z.
Proof. intros Hw. unfold wrap. apply Z.mod_mod. apply Z.pow_nonzero; lia. Qed.

Lemma swrap_range w z : 0 < w -> in_s w (swrap w z).
Proof.
  intros Hw. unfold in_s, swrap.
  assert (H2 : 2 ^ w = 2 * 2 ^ (w - 1)).
  { replace w with (Z.succ (w - 1)) at 1 by lia. rewrite Z.pow_succ_r by lia. reflexivity. }
  assert (Hp : 0 < 2 ^ (w - 1)) by (apply Z.pow_pos_nonneg; lia).
  pose proof (Z.mod_pos_bound (z + 2 ^ (w - 1)) (2 ^ w) ltac:(lia)). lia.
Qed.

Lemma swrap_small w z : 0 < w -> in_s w z -> swrap w z = z.
Proof.
  intros Hw [Hl Hh]. unfold swrap.
  assert (H2 : 2 ^ w = 2 * 2 ^ (w - 1)).
  { replace w with (Z.succ (w - 1)) at 1 by lia. rewrite Z.pow_succ_r by lia. reflexivity. }
  rewrite Z.mod_small by lia. lia.
Qed.

(* Tactic support: make lia see through the fixed-width vocabulary. *)
Ltac Zify.zify_post_hook ::= Z.div_mod_to_equations.
Ltac goint_unfold := unfold shl, sshl, shr, in_u, in_s in *; unfold wrap, swrap in *.
