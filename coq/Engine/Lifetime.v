(* C09: heap-graph model of wazero's object lifetimes (no proofs in this file).

   Objects: runtime(store), compilation cache, engine, compiled module (owns the mmap'd executable:
   collecting it unmaps the code), module instance, module engine, function record, table, global.
   Two kinds of edges:
     VISIBLE Go pointers, split into  o_vis (structural, never removed: instance->module engine,
       instance->tables/globals, module engine->instance / compiled module (`parent`) / imported
       functions' module engines (`importedFunctions[i].me`) / function records, shared table ->
       involvingModuleInstances)  and  o_reg (registry edges that Close removes: store->moduleList,
       engine->compiledModules, plus instance->store, compiled->engine, runtime->engine/cache);
     RAW references o_slots (integers, invisible to the collector): table slots and funcref globals
       hold addresses of function records; function records hold a code address into a compiled
       module's executable.
   Where the two engines differ the model keeps the FEWER visible edges (wazevo's functionInstance
   has no pointer to its instance). One edge is a parameter of the instantiation: an exported GLOBAL
   object may point to the module engine of its exporter (wazero: GlobalInstance.Me, set by buildGlobals
   when the engine owns the globals: wazevo yes, interpreter no) - `g_me`. It is the only edge from an
   instance that imports nothing but a global to the exporter of that global.
   The value of a funcref global is a raw reference to a function record of SOME instance: the exporter's
   own function when an immutable global (kind KGlobalC: no operation writes it) was initialised with
   ref.func, anybody's when a mutable global was written by an importer (F35).
   o_owner = Some c marks an object that only c points to (private table/global of instance c,
   function record of module engine c).
   gc collects everything not visibly reachable from the roots (host handles ++ in-flight calls). *)
From Coq Require Import List ZArith Bool Arith.
Import ListNotations.

Inductive kind := KRuntime | KCache | KEngine | KCompiled | KInstance | KModEng | KFunc | KTable | KGlobal | KGlobalC.

Record obj := mkObj {
  o_kind : kind;
  o_vis : list nat;
  o_reg : list nat;
  o_slots : list (option nat);
  o_owner : option nat;
  o_dir : list nat;          (* instance: module engine :: holders (tables then globals); module engine: records *)
  o_alive : bool;
  o_closed : bool }.

Record state := mkState { heap : list obj; host : list nat; flight : list nat; cached : bool }.

Definition dead_obj := mkObj KCache [] [] [] None [] false true.
Definition getd (s : state) (i : nat) : obj := nth i (heap s) dead_obj.
Definition alive (s : state) (i : nat) : bool := o_alive (getd s i).
Definition edges (o : obj) : list nat := o_vis o ++ o_reg o.
Definition roots (s : state) : list nat := host s ++ flight s.

Definition kind_eqb (a b : kind) : bool :=
  match a, b with
  | KRuntime, KRuntime | KCache, KCache | KEngine, KEngine | KCompiled, KCompiled | KInstance, KInstance
  | KModEng, KModEng | KFunc, KFunc | KTable, KTable | KGlobal, KGlobal | KGlobalC, KGlobalC => true
  | _, _ => false
  end.

(* objects whose raw slots some operation may overwrite: tables and MUTABLE globals *)
Definition writable (k : kind) : bool := match k with KTable | KGlobal => true | _ => false end.

Definition memb (x : nat) (l : list nat) : bool := existsb (Nat.eqb x) l.
Definition remove_nat (x : nat) (l : list nat) : list nat := filter (fun y => negb (Nat.eqb x y)) l.
Definition is_none {A} (o : option A) : bool := match o with None => true | Some _ => false end.

(* ---- object update ---- *)
Fixpoint upd (h : list obj) (i : nat) (f : obj -> obj) : list obj :=
  match h, i with
  | [], _ => []
  | o :: r, O => f o :: r
  | o :: r, S k => o :: upd r k f
  end.

Definition with_heap (s : state) (h : list obj) : state := mkState h (host s) (flight s) (cached s).
Definition with_host (s : state) (l : list nat) : state := mkState (heap s) l (flight s) (cached s).
Definition with_flight (s : state) (l : list nat) : state := mkState (heap s) (host s) l (cached s).
Definition upd_obj (s : state) (i : nat) (f : obj -> obj) : state := with_heap s (upd (heap s) i f).

Definition set_vis l o := mkObj (o_kind o) l (o_reg o) (o_slots o) (o_owner o) (o_dir o) (o_alive o) (o_closed o).
Definition set_reg l o := mkObj (o_kind o) (o_vis o) l (o_slots o) (o_owner o) (o_dir o) (o_alive o) (o_closed o).
Definition set_slots l o := mkObj (o_kind o) (o_vis o) (o_reg o) l (o_owner o) (o_dir o) (o_alive o) (o_closed o).
Definition set_dir l o := mkObj (o_kind o) (o_vis o) (o_reg o) (o_slots o) (o_owner o) l (o_alive o) (o_closed o).
Definition set_closed b o := mkObj (o_kind o) (o_vis o) (o_reg o) (o_slots o) (o_owner o) (o_dir o) (o_alive o) b.
Definition kill o := mkObj (o_kind o) (o_vis o) (o_reg o) (o_slots o) (o_owner o) (o_dir o) false (o_closed o).

Definition add_vis (s : state) (i x : nat) : state := upd_obj s i (fun o => set_vis (x :: o_vis o) o).
Definition add_reg (s : state) (i x : nat) : state := upd_obj s i (fun o => set_reg (x :: o_reg o) o).
Definition del_reg (s : state) (i x : nat) : state := upd_obj s i (fun o => set_reg (remove_nat x (o_reg o)) o).

Fixpoint set_nth {A} (l : list A) (k : nat) (v : A) : list A :=
  match l, k with
  | [], _ => []
  | _ :: r, O => v :: r
  | a :: r, S j => a :: set_nth r j v
  end.
Definition set_slot (s : state) (h k : nat) (v : option nat) : state :=
  upd_obj s h (fun o => set_slots (set_nth (o_slots o) k v) o).
Definition slot (s : state) (h k : nat) : option nat := nth k (o_slots (getd s h)) None.

(* ---- marking: least set containing the roots and closed under visible edges ---- *)
Definition succs (ed : obj -> list nat) (h : list obj) (M : list nat) : list nat :=
  flat_map (fun i => ed (nth i h dead_obj)) M.
Definition subsetb (A B : list nat) : bool := forallb (fun a => memb a B) A.
Definition addall (N M : list nat) : list nat := fold_right (fun x acc => if memb x acc then acc else x :: acc) M N.

Fixpoint mark (ed : obj -> list nat) (fuel : nat) (h : list obj) (M : list nat) : option (list nat) :=
  let N := succs ed h M in
  if subsetb N M then Some M
  else match fuel with O => None | S f => mark ed f h (addall N M) end.

Fixpoint sweep (i : nat) (h : list obj) (M : list nat) : list obj :=
  match h with
  | [] => []
  | o :: r => (if memb i M then o else kill o) :: sweep (S i) r M
  end.

(* forced collection + finalizers; if marking ran out of fuel (it never does: fuel = heap size + 1)
   nothing is collected *)
Definition gc (s : state) : state :=
  match mark edges (S (length (heap s))) (heap s) (roots s) with
  | Some M => with_heap s (sweep 0 (heap s) M)
  | None => s
  end.

(* decidable structural reachability (o_vis edges only), used by `tracked` and the classifier *)
Definition coveredb (s : state) (c r : nat) : bool :=
  match mark o_vis (S (length (heap s))) (heap s) [c] with
  | Some M => memb r M
  | None => false
  end.

(* ---- allocation ---- *)
Definition alloc (s : state) (o : obj) : state * nat :=
  (with_heap s (heap s ++ [o]), length (heap s)).

(* objects owned by c (private tables/globals of an instance, function records of a module engine) *)
Fixpoint alloc_owned (s : state) (c : nat) (k : kind) (contents : list (list (option nat))) : state * list nat :=
  match contents with
  | [] => (s, [])
  | sl :: r =>
      let '(s1, x) := alloc s (mkObj k [] [] sl (Some c) [] true false) in
      let s2 := add_vis s1 c x in
      let '(s3, xs) := alloc_owned s2 c k r in
      (s3, x :: xs)
  end.

(* exported tables: involvingModuleInstances = [owner] *)
Fixpoint alloc_exported (s : state) (i : nat) (n size : nat) : state * list nat :=
  match n with
  | O => (s, [])
  | S m =>
      let '(s1, t) := alloc s (mkObj KTable [i] [] (repeat None size) None [] true false) in
      let s2 := add_vis s1 i t in
      let '(s3, ts) := alloc_exported s2 i m size in
      (s3, t :: ts)
  end.

(* exported funcref globals. g_mut: mutable; g_init: the constant initialiser; g_me: the GlobalInstance points to the
   exporter's module engine (GlobalInstance.Me) *)
Inductive ginit :=
| GNull                (* ref.null *)
| GFunc (f : nat)      (* ref.func of record f of the same module: validation of constant expressions *)
| GGet (q : nat).      (* global.get of the q-th imported global, which must be immutable *)
Record gspec := mkG { g_mut : bool; g_init : ginit; g_me : bool }.
Definition ginit_null (g : ginit) : bool := match g with GNull => true | _ => false end.

(* the value of a constant initialiser: recs = the function records of the new module engine, gimp = the global objects
   it imports *)
Definition ginit_val (s : state) (recs gimp : list nat) (g : ginit) : option nat :=
  match g with
  | GNull => None
  | GFunc f => if f <? length recs then Some (nth f recs 0) else None
  | GGet q => if (q <? length gimp) && kind_eqb (o_kind (getd s (nth q gimp 0))) KGlobalC
              then nth 0 (o_slots (getd s (nth q gimp 0))) None else None
  end.

(* exported globals: a GlobalInstance the instance i points to; it points back to the module engine me iff g_me *)
Fixpoint alloc_globals (s : state) (i me : nat) (recs gimp : list nat) (gs : list gspec) : state * list nat :=
  match gs with
  | [] => (s, [])
  | g :: r =>
      let '(s1, x) := alloc s (mkObj (if g_mut g then KGlobal else KGlobalC) (if g_me g then [me] else []) []
                                      [ginit_val s recs gimp (g_init g)] None [] true false) in
      let s2 := add_vis s1 i x in
      let '(s3, xs) := alloc_globals s2 i me recs gimp r in
      (s3, x :: xs)
  end.

(* imported globals: Globals[k] = the exporter's GlobalInstance, nothing else is recorded *)
Fixpoint link_globals (s : state) (i : nat) (gs : list nat) : state :=
  match gs with
  | [] => s
  | g :: r => link_globals (add_vis s i g) i r
  end.

(* imported tables: instance -> table and table.involvingModuleInstances += instance *)
Fixpoint link_tables (s : state) (i : nat) (ts : list nat) : state :=
  match ts with
  | [] => s
  | t :: r => link_tables (add_vis (add_vis s i t) t i) i r
  end.

(* fixed infrastructure ids *)
Definition CACHE := 0.
Definition ENGINE := 1.
Definition RUNTIME := 2.

Definition init (c : bool) : state :=
  mkState [ mkObj KCache [] [ENGINE] [] None [] true false;
            mkObj KEngine [] [] [] None [] true false;
            mkObj KRuntime [] (ENGINE :: if c then [CACHE] else []) [] None [] true false ]
          (if c then [CACHE; RUNTIME] else [RUNTIME]) [] c.

(* ---- directories ---- *)
Definition me_of (s : state) (i : nat) : nat := hd 0 (o_dir (getd s i)).
Definition holder_of (s : state) (i t : nat) : nat := nth t (tl (o_dir (getd s i))) 0.
Definition rec_of (s : state) (i f : nat) : nat := nth f (o_dir (getd s (me_of s i))) 0.

(* instance i is a live instance object whose module engine is where the directory says *)
Definition inst_ok (s : state) (i : nat) : bool :=
  alive s i && kind_eqb (o_kind (getd s i)) KInstance && memb (me_of s i) (o_vis (getd s i))
  && is_none (o_owner (getd s (me_of s i))) && memb i (o_vis (getd s (me_of s i))).
Definition rec_ok (s : state) (i f : nat) : bool :=
  inst_ok s i && (f <? length (o_dir (getd s (me_of s i)))) && memb (rec_of s i f) (o_vis (getd s (me_of s i)))
  && kind_eqb (o_kind (getd s (rec_of s i f))) KFunc.
(* holder t is one of instance i's tables/globals (own or imported): i's code can read and write it *)
Definition holder_acc (s : state) (i t : nat) : bool :=
  inst_ok s i && (t <? length (tl (o_dir (getd s i)))) && memb (holder_of s i t) (o_vis (getd s i)).
(* instance i may overwrite holder t: a table or a MUTABLE global *)
Definition holder_wr (s : state) (i t : nat) : bool :=
  holder_acc s i t && writable (o_kind (getd s (holder_of s i t))).
(* holder h points to instance i (TABLES: involvingModuleInstances) or to i's module engine (a GLOBAL exported by i whose
   GlobalInstance.Me is set) *)
Definition listsb (s : state) (i h : nat) : bool :=
  memb i (o_vis (getd s h)) || memb (me_of s i) (o_vis (getd s h)).
(* holder h tracks instance i: it is private to its owner (only that instance points to it) or it lists i among
   its involving instances (exported and imported TABLES do; GLOBALS have no such list) or it is a global that i itself
   exports and that points to i's module engine. A global IMPORTED by i never tracks i. *)
Definition involvedb (s : state) (i h : nat) : bool :=
  match o_owner (getd s h) with None => listsb s i h | Some _ => true end.
(* h is a shared holder that lists i *)
Definition sharedb (s : state) (i h : nat) : bool :=
  match o_owner (getd s h) with None => listsb s i h | Some _ => false end.
Definition holder_ok (s : state) (i t : nat) : bool := holder_acc s i t && involvedb s i (holder_of s i t).
Definition open (s : state) (i : nat) : bool := negb (o_closed (getd s i)).

(* ---- operations ----
   Note: closing an instance does not stop its code: wazero consults the Closed flag only when an exported
   call RETURNS (then the result is replaced by an exit error), and calls through imports or tables never
   look at it. So the operations below are not guarded by `open`; only name resolution at instantiation is. *)
Record ispec := mkSpec {
  sp_cm : nat;
  sp_impf : list (nat * nat);        (* (defining instance, record index): imported functions, resolved *)
  sp_impt : list (nat * nat);        (* (exporting instance, holder index): imported tables *)
  sp_nfun : nat; sp_nexp : nat; sp_npriv : nat; sp_nglob : nat; sp_size : nat;
  sp_elems : list (nat * nat * nat); (* (holder index, slot, record index): active element segments / initialisers of private globals *)
  sp_expg : list gspec;              (* exported funcref globals *)
  sp_impg : list (nat * nat);        (* (exporting instance, holder index): imported globals *)
  sp_gelems : list (nat * nat * nat) (* (holder index, slot, holder index of an imported immutable global): element items
                                        `global.get g` / initialisers `global.get g` of private globals *) }.

Inductive op :=
| OCompile
| OInstantiate (sp : ispec)
| OSetRef (i t k f : nat)            (* i: table.set/global.set of ref.func f into its holder t *)
| OCopy (i ts ks td kd : nat)        (* i: table.get/global.get from holder ts, set into holder td *)
| OClear (i t k : nat)
| OGrowRef (i t f : nat)             (* i: table.grow of its table t by one slot initialised with ref.func f *)
| OPassParam (i f j t k : nat)       (* record f of i reaches j as a parameter/result; j stores it in its holder t *)
| OPassVal (i ts ks j t k : nat)     (* the reference i reads from its holder ts reaches j as a parameter; j stores it in its holder t *)
| OCallExport (i f : nat)
| OCallIndirect (i t k : nat)
| OEnter (i : nat)                   (* a call on i is in flight (its call engine is on a goroutine stack) *)
| OLeave
| OCloseModule (i : nat)
| OCloseCompiled (c : nat)
| OCloseCache
| OCloseRuntime
| ODrop (x : nat)                    (* the embedder forgets a handle *)
| OGc.

Definition registered (s : state) (i : nat) : bool := memb i (o_reg (getd s RUNTIME)).

Definition impf_ok (s : state) (p : nat * nat) : bool :=
  let '(j, n) := p in rec_ok s j n && registered s j && open s j.
Definition impt_ok (s : state) (p : nat * nat) : bool :=
  let '(j, t) := p in
  let h := holder_of s j t in
  holder_ok s j t && registered s j && open s j && kind_eqb (o_kind (getd s h)) KTable && is_none (o_owner (getd s h)).
Definition impg_ok (s : state) (p : nat * nat) : bool :=
  let '(j, t) := p in
  let h := holder_of s j t in
  holder_acc s j t && registered s j && open s j
  && (kind_eqb (o_kind (getd s h)) KGlobal || kind_eqb (o_kind (getd s h)) KGlobalC) && is_none (o_owner (getd s h)).

Definition set_ref (s : state) (i t k f : nat) : state :=
  if holder_ok s i t && holder_wr s i t && rec_ok s i f then set_slot s (holder_of s i t) k (Some (rec_of s i f)) else s.
(* an element item / private-global initialiser `global.get g` (g an imported immutable global, holder ts) *)
Definition copy_ref (s : state) (i t k ts : nat) : state :=
  if holder_ok s i t && holder_wr s i t && holder_acc s i ts && kind_eqb (o_kind (getd s (holder_of s i ts))) KGlobalC
  then set_slot s (holder_of s i t) k (slot s (holder_of s i ts) 0) else s.

Definition can_instantiate (s : state) (sp : ispec) : bool :=
  alive s RUNTIME && open s RUNTIME && alive s (sp_cm sp) && kind_eqb (o_kind (getd s (sp_cm sp))) KCompiled
  && memb (sp_cm sp) (o_reg (getd s ENGINE)) && is_none (o_owner (getd s (sp_cm sp)))
  && is_none (o_owner (getd s RUNTIME))
  && forallb (impf_ok s) (sp_impf sp) && forallb (impt_ok s) (sp_impt sp) && forallb (impg_ok s) (sp_impg sp).

Definition instantiate (s : state) (sp : ispec) : state :=
  if can_instantiate s sp then
    let cm := sp_cm sp in
    let '(s1, ni) := alloc s (mkObj KInstance [] [RUNTIME] [] None [] true false) in
    let impMEs := map (fun p => me_of s (fst p)) (sp_impf sp) in
    let '(s2, nme) := alloc s1 (mkObj KModEng (ni :: cm :: impMEs) [] [] None [] true false) in
    let s3 := add_vis s2 ni nme in
    (* ResolveImportedFunction copies the definer's code address into a record inside the importer *)
    let codes := map (fun p => o_slots (getd s (rec_of s (fst p) (snd p)))) (sp_impf sp)
                 ++ repeat [Some cm] (sp_nfun sp) in
    let '(s4, recs) := alloc_owned s3 nme KFunc codes in
    let '(s5, texp) := alloc_exported s4 ni (sp_nexp sp) (sp_size sp) in
    let '(s6, tpriv) := alloc_owned s5 ni KTable (repeat (repeat None (sp_size sp)) (sp_npriv sp)) in
    let '(s7, globs) := alloc_owned s6 ni KGlobal (repeat [None] (sp_nglob sp)) in
    let timp := map (fun p => holder_of s (fst p) (snd p)) (sp_impt sp) in
    let s8 := link_tables s7 ni timp in
    let gimp := map (fun p => holder_of s (fst p) (snd p)) (sp_impg sp) in
    let s8a := link_globals s8 ni gimp in
    let '(s8b, gexp) := alloc_globals s8a ni nme recs gimp (sp_expg sp) in
    let s9 := upd_obj (upd_obj s8b ni (set_dir (nme :: timp ++ texp ++ tpriv ++ globs ++ gexp ++ gimp))) nme (set_dir recs) in
    let s10 := with_host (add_reg s9 RUNTIME ni) (ni :: host s9) in
    let s11 := fold_left (fun st e => let '(t, k, f) := e in set_ref st ni t k f) (sp_elems sp) s10 in
    fold_left (fun st e => let '(t, k, ts) := e in copy_ref st ni t k ts) (sp_gelems sp) s11
  else s.

Definition compile (s : state) : state :=
  if alive s RUNTIME && open s RUNTIME && alive s ENGINE && open s ENGINE && is_none (o_owner (getd s ENGINE)) then
    let '(s1, c) := alloc s (mkObj KCompiled [] [ENGINE] [] None [] true false) in
    with_host (add_reg s1 ENGINE c) (c :: host s1)
  else s.

Definition close_instances (s : state) (l : list nat) : state :=
  fold_left (fun st i => if kind_eqb (o_kind (getd st i)) KInstance then upd_obj st i (set_closed true) else st) l s.

Definition close_engine (s : state) : state :=
  upd_obj s ENGINE (fun o => set_closed true (set_reg [] o)).

Definition step (s : state) (o : op) : state :=
  match o with
  | OCompile => compile s
  | OInstantiate sp => instantiate s sp
  | OSetRef i t k f =>
      if holder_wr s i t && rec_ok s i f then set_slot s (holder_of s i t) k (Some (rec_of s i f)) else s
  | OCopy i ts ks td kd =>
      if holder_acc s i ts && holder_wr s i td
      then set_slot s (holder_of s i td) kd (slot s (holder_of s i ts) ks) else s
  | OClear i t k => if holder_wr s i t then set_slot s (holder_of s i t) k None else s
  | OGrowRef i t f =>
      if holder_acc s i t && rec_ok s i f && kind_eqb (o_kind (getd s (holder_of s i t))) KTable
      then upd_obj s (holder_of s i t) (fun o => set_slots (o_slots o ++ [Some (rec_of s i f)]) o) else s
  | OPassParam i f j t k =>
      if rec_ok s i f && holder_wr s j t
      then set_slot s (holder_of s j t) k (Some (rec_of s i f)) else s
  | OPassVal i ts ks j t k =>
      if holder_acc s i ts && holder_wr s j t
      then set_slot s (holder_of s j t) k (slot s (holder_of s i ts) ks) else s
  | OCallExport _ _ | OCallIndirect _ _ _ => s
  | OEnter i => if inst_ok s i then with_flight s (me_of s i :: flight s) else s
  | OLeave => with_flight s (tl (flight s))
  | OCloseModule i =>
      if alive s i && kind_eqb (o_kind (getd s i)) KInstance
      then del_reg (upd_obj s i (set_closed true)) RUNTIME i else s
  | OCloseCompiled c => with_host (del_reg s ENGINE c) (remove_nat c (host s))
  | OCloseCache => if cached s then close_engine s else s
  | OCloseRuntime =>
      let s1 := close_instances s (o_reg (getd s RUNTIME)) in
      let keep l := filter (fun x => negb (kind_eqb (o_kind (getd s x)) KInstance)) l in
      let s2 := upd_obj s1 RUNTIME (fun o => set_closed true (set_reg (keep (o_reg o)) o)) in
      if cached s then s2 else close_engine s2
  | ODrop x => with_host s (remove_nat x (host s))
  | OGc => gc s
  end.

Definition run (s : state) (ops : list op) : state := fold_left step ops s.

(* ---- tracked channels ----
   The step function performs every write the implementation performs; `tracked` says which writes go
   through a channel on which wazero keeps the definer of the reference alive:
     - element segments (part of OInstantiate, guarded by holder_ok);
     - OSetRef: ref.func of an own or imported function stored by table.set/global.set into a holder that
       tracks the instance: its own private table/global, or a shared TABLE (exported or imported: the table
       lists the instance in involvingModuleInstances);
     - OCopy: table.get/global.get from any holder of the instance, stored into a holder that tracks it;
     - OClear;
     - OGrowRef: table.grow with ref.func as initial value, like OSetRef;
     - OPassParam (parameter/result hand-over): when the receiving holder tracks the receiver AND the
       receiver imports a function defined by the sender (its module engine visibly points to the sender's)
       or sender = receiver; or when the receiving holder is a shared table that lists the SENDER among its
       involving instances (the sender imports or exports that very table).
     - OPassVal: the same for a reference READ from a holder of the sender (any holder: what an instance can
       read it structurally reaches, as long as every earlier hand-over was tracked);
     - OInstantiate: the constant initialisers of the EXPORTED globals (ref.func f / global.get of an imported
       immutable global) when the global object points to the module engine of its exporter (g_me). An
       IMMUTABLE global is never written afterwards, so for an importer it is a tracked channel for good:
       importer -> global -> exporter's module engine -> the record and its code.
   Not tracked: a hand-over to an unrelated instance (F08), a store into an IMPORTED mutable global (F35:
   GlobalInstance has no involvingModuleInstances; its Me is the exporter's engine, not the writer's), and the
   initialiser of an exported global that does not point to its module engine. *)
Definition gspec_tracked (g : gspec) : bool := ginit_null (g_init g) || g_me g.
Definition tracked (s : state) (o : op) : bool :=
  match o with
  | OInstantiate sp => forallb gspec_tracked (sp_expg sp)
  | OSetRef i t k f => negb (holder_wr s i t && rec_ok s i f) || involvedb s i (holder_of s i t)
  | OCopy i ts ks td kd => negb (holder_acc s i ts && holder_wr s i td) || involvedb s i (holder_of s i td)
  | OGrowRef i t f => negb (holder_acc s i t && rec_ok s i f) || involvedb s i (holder_of s i t)
  | OPassParam i f j t k =>
      negb (rec_ok s i f && holder_wr s j t)
      || (involvedb s j (holder_of s j t) && (Nat.eqb i j || memb (me_of s i) (o_vis (getd s (me_of s j)))))
      || sharedb s i (holder_of s j t)
  | OPassVal i ts ks j t k =>
      negb (holder_acc s i ts && holder_wr s j t)
      || (involvedb s j (holder_of s j t) && (Nat.eqb i j || memb (me_of s i) (o_vis (getd s (me_of s j)))))
      || sharedb s i (holder_of s j t)
  | _ => true
  end.

(* the one condition the facts about IMMUTABLE globals and function records need (no hand-over has to be tracked for
   them): every immutable exported global with a non-null initialiser points to its exporter's module engine *)
Definition gspec_imm_ok (g : gspec) : bool := g_mut g || ginit_null (g_init g) || g_me g.
Definition imm_ok (o : op) : bool :=
  match o with OInstantiate sp => forallb gspec_imm_ok (sp_expg sp) | _ => true end.

Fixpoint all_tracked (s : state) (ops : list op) : bool :=
  match ops with
  | [] => true
  | o :: r => tracked s o && all_tracked (step s o) r
  end.


(* ---- dangling ---- *)
Definition slots_alive (s : state) (x : nat) : bool :=
  forallb (fun v => match v with None => true | Some r => alive s r end) (o_slots (getd s x)).
(* dereferencing the function record r: the record and the code it points to must not be collected *)
Definition deref_ok (s : state) (v : option nat) : bool :=
  match v with None => true | Some r => alive s r && slots_alive s r end.
(* some raw reference reachable from live instance i dangles *)
Definition danglingb (s : state) (i : nat) : bool :=
  inst_ok s i &&
  match mark edges (S (length (heap s))) (heap s) [i] with
  | Some M => negb (forallb (slots_alive s) M)
  | None => true
  end.
Definition any_dangling (s : state) : bool :=
  existsb (danglingb s) (seq 0 (length (heap s))).

(* =====================================================================================
   Harness layer: histories over module indices, translated to the operations above.
   Prediction per step: 0 = works as in the twin, 1 = ordinary error / refused, 2 = would
   dereference a collected object (F08 class). *)
Record mspec := mkM {
  ms_impf : list (nat * nat);  (* (module index, record index) *)
  ms_impt : list (nat * nat);  (* (module index, holder index) *)
  ms_nfun : nat; ms_nexp : nat; ms_npriv : nat; ms_nglob : nat; ms_size : nat;
  ms_elems : list (nat * nat * nat);
  ms_expg : list gspec; ms_impg : list (nat * nat); ms_gelems : list (nat * nat * nat) }.

Inductive hop :=
| HCompile (m : nat) | HInst (m : nat)
| HCallExport (m f : nat) | HCallInd (m t k : nat)
| HSetRef (m t k f : nat) | HCopy (m ts ks td kd : nat) | HClear (m t k : nat) | HGrow (m t f : nat)
| HPass (m f m2 t k : nat) | HPassVal (m ts ks m2 t k : nat)
| HEnter (m : nat) | HLeaveRec (m f : nat) | HLeaveInd (m t k : nat)   (* continuation after the host function returns *)
| HCloseMod (m : nat) | HCloseCompiled (m : nat) | HCloseCache | HCloseRuntime
| HDropMod (m : nat) | HDropCompiled (m : nat) | HDropRuntime | HDropCache | HGc.

(* h_name: which instance holds the module's name in the store: imports are resolved by name (whether or not the
   embedder still holds a handle), a second instantiation under a registered name is refused *)
Record hstate := mkH { h_st : state; h_cm : list (option nat); h_inst : list (option nat); h_rt : bool * bool (* the embedder still holds the runtime / the cache handle *); h_name : list (option nat);
                   h_fl : option nat (* instance of the call in flight *);
                   h_bind : list (list (option nat)) (* per module: the instances its imports were resolved to *) }.

Definition lookup (l : list (option nat)) (m : nat) : option nat := nth m l None.
Definition hinit (c : bool) (n : nat) : hstate := mkH (init c) (repeat None n) (repeat None n) (true, true) (repeat None n) None (repeat [] n).

Definition resolve (l : list (option nat)) (ps : list (nat * nat)) : option (list (nat * nat)) :=
  fold_right (fun p acc => match lookup l (fst p), acc with
                           | Some i, Some r => Some ((i, snd p) :: r) | _, _ => None end) (Some []) ps.

Definition call_pred (s : state) (v : option nat) : Z := if deref_ok s v then 0%Z else 2%Z.

Definition forget (x : option nat) (s : state) : state :=
  match x with Some i => with_host s (remove_nat i (host s)) | None => s end.

Definition hstep (mods : list mspec) (h : hstate) (o : hop) : hstate * Z :=
  let s := h_st h in
  let upd_st s' := mkH s' (h_cm h) (h_inst h) (h_rt h) (h_name h) (h_fl h) (h_bind h) in
  (* an exported call: executes even when the instance is closed; a result that is not a dangling use is
     then reported as an exit error (prediction 1) *)
  let closed_pred i (p : Z) : Z := if (p =? 2)%Z then 2%Z else if open s i then p else 1%Z in
  let on_inst m (k : nat -> hstate * Z) : hstate * Z :=
    match lookup (h_inst h) m with
    | Some i => let '(h', p) := k i in (h', closed_pred i p)
    | None => (h, 1%Z) end in
  match o with
  | HCompile m =>
      if fst (h_rt h) && alive s RUNTIME && open s RUNTIME && alive s ENGINE && open s ENGINE then
        (* the embedder keeps ONE handle per module: the new compiled module replaces (drops) the old handle *)
        let s' := forget (lookup (h_cm h) m) (step s OCompile) in
        (mkH s' (set_nth (h_cm h) m (Some (length (heap s)))) (h_inst h) (h_rt h) (h_name h) (h_fl h) (h_bind h), 0%Z)
      else (h, 1%Z)
  | HInst m =>
      match nth_error mods m, lookup (h_cm h) m with
      | Some ms, Some cm =>
          match resolve (h_name h) (ms_impf ms), resolve (h_name h) (ms_impt ms), resolve (h_name h) (ms_impg ms) with
          | Some fi, Some ti, Some gi =>
              let sp := mkSpec cm fi ti (ms_nfun ms) (ms_nexp ms) (ms_npriv ms) (ms_nglob ms) (ms_size ms) (ms_elems ms)
                               (ms_expg ms) gi (ms_gelems ms) in
              let free := match lookup (h_name h) m with Some i => negb (registered s i) | None => true end in
              if fst (h_rt h) && can_instantiate s sp then
                if free then
                  (* ... and one handle per instance: the new instance replaces (drops) the old handle *)
                  (mkH (forget (lookup (h_inst h) m) (step s (OInstantiate sp))) (h_cm h) (set_nth (h_inst h) m (Some (length (heap s)))) (h_rt h)
                       (set_nth (h_name h) m (Some (length (heap s)))) (h_fl h) (set_nth (h_bind h) m (h_name h)), 0%Z)
                else
                  (* Store.Instantiate builds the instance completely (element segments are applied to imported
                     tables) and only then fails to register the name; the new instance is closed and forgotten *)
                  let n := length (heap s) in
                  (upd_st (step (step (step s (OInstantiate sp)) (OCloseModule n)) (ODrop n)), 1%Z)
              else (h, 1%Z)
          | _, _, _ => (h, 1%Z)
          end
      | _, _ => (h, 1%Z)
      end
  | HCallExport m f => on_inst m (fun i => if rec_ok s i f then (h, call_pred s (Some (rec_of s i f))) else (h, 1%Z))
  | HCallInd m t k => on_inst m (fun i => if holder_acc s i t then (h, call_pred s (slot s (holder_of s i t) k)) else (h, 1%Z))
  | HSetRef m t k f => on_inst m (fun i => (upd_st (step s (OSetRef i t k f)), 0%Z))
  | HCopy m ts ks td kd => on_inst m (fun i => (upd_st (step s (OCopy i ts ks td kd)), 0%Z))
  | HClear m t k => on_inst m (fun i => (upd_st (step s (OClear i t k)), 0%Z))
  | HGrow m t f => on_inst m (fun i => (upd_st (step s (OGrowRef i t f)), 0%Z))
  | HPass m f m2 t k =>
      on_inst m (fun i => match lookup (nth m (h_bind h) []) m2 with
                          | Some j => (upd_st (step s (OPassParam i f j t k)), 0%Z)
                          | None => (h, 1%Z) end)
  | HPassVal m ts ks m2 t k =>
      on_inst m (fun i => match lookup (nth m (h_bind h) []) m2 with
                          | Some j => (upd_st (step s (OPassVal i ts ks j t k)), 0%Z)
                          | None => (h, 1%Z) end)
  | HEnter m =>
      match lookup (h_inst h) m with
      | Some i => (mkH (step s (OEnter i)) (h_cm h) (h_inst h) (h_rt h) (h_name h) (Some i) (h_bind h), 0%Z)
      | None => (h, 1%Z) end
  | HLeaveRec m f =>
      let h' := mkH (step s OLeave) (h_cm h) (h_inst h) (h_rt h) (h_name h) None (h_bind h) in
      match h_fl h with
      | Some i => (h', closed_pred i (if rec_ok s i f then call_pred s (Some (rec_of s i f)) else 1%Z))
      | None => (h, 1%Z) end
  | HLeaveInd m t k =>
      let h' := mkH (step s OLeave) (h_cm h) (h_inst h) (h_rt h) (h_name h) None (h_bind h) in
      match h_fl h with
      | Some i => (h', closed_pred i (if holder_acc s i t then call_pred s (slot s (holder_of s i t) k) else 1%Z))
      | None => (h, 1%Z) end
  | HCloseMod m =>
      match lookup (h_inst h) m with
      | Some i => (upd_st (step s (OCloseModule i)), 0%Z)
      | None => (h, 1%Z) end
  | HCloseCompiled m =>
      match lookup (h_cm h) m with
      | Some c => (upd_st (step s (OCloseCompiled c)), 0%Z)
      | None => (h, 1%Z) end
  | HCloseCache => if snd (h_rt h) then (upd_st (step s OCloseCache), 0%Z) else (h, 1%Z)
  | HCloseRuntime => if fst (h_rt h) then (upd_st (step s OCloseRuntime), 0%Z) else (h, 1%Z)
  | HDropMod m =>
      match lookup (h_inst h) m with
      | Some i => (mkH (step s (ODrop i)) (h_cm h) (set_nth (h_inst h) m None) (h_rt h) (h_name h) (h_fl h) (h_bind h), 0%Z)
      | None => (h, 1%Z) end
  | HDropCompiled m =>
      match lookup (h_cm h) m with
      | Some c => (mkH (step s (ODrop c)) (set_nth (h_cm h) m None) (h_inst h) (h_rt h) (h_name h) (h_fl h) (h_bind h), 0%Z)
      | None => (h, 1%Z) end
  | HDropRuntime => (mkH (step s (ODrop RUNTIME)) (h_cm h) (h_inst h) (false, snd (h_rt h)) (h_name h) (h_fl h) (h_bind h), 0%Z)
  | HDropCache => (mkH (step s (ODrop CACHE)) (h_cm h) (h_inst h) (fst (h_rt h), false) (h_name h) (h_fl h) (h_bind h), 0%Z)
  | HGc => (upd_st (step s OGc), 0%Z)
  end.

Fixpoint hrun (mods : list mspec) (h : hstate) (ops : list hop) : list Z :=
  match ops with
  | [] => []
  | o :: r => let '(h', p) := hstep mods h o in p :: hrun mods h' r
  end.

(* a case: cached?, module table, history; the answer is the list of predictions *)
Definition hcase := (bool * list mspec * list hop)%type.
Definition classify (c : hcase) : list Z :=
  let '(cd, mods, ops) := c in hrun mods (hinit cd (length mods)) ops.
