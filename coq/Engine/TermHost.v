(* C07 - the HOST as a node kind of the control graph, and call entry as a check point.

   coq/Engine/TermCheck.v treats re-entry of the guest from a host function as a boundary that is always checked
   (its node 1 is a check node by definition). That hides the one check point that lies on a cycle
   guest function -> imported Go function -> api.Function.Call -> guest function -> ... : the ENTRY of the nested call.
   This file makes it explicit.

   (i)   What a check reads. The engines have two kinds of termination check:
           KWord  FailIfClosed on the closed word of the module (module_instance.go:13-25). Executed at loop headers and
                  before tail calls (interpreter.go:719-722 operationKindBuiltinFunctionCheckExitCode,
                  wazevo/call_engine.go:419-426 ExitCodeCheckModuleExitCode) and, deferred, when a call RETURNS
                  (interpreter.go:582-586, call_engine.go:260-263) - never when a call starts.
           KCtx   the pre-check at call entry, when ensureTermination is set: select { case <-ctx.Done():
                  m.CloseWithCtxErr(ctx); return m.FailIfClosed() default: }  (interpreter.go:567-576 in callEngine.call,
                  wazevo/call_engine.go:210-218 in callEngine.callWithStack). It reads the CONTEXT PASSED TO THIS CALL only.
         `world` is what such a check can read: ctx.Err() of the context given to the call, and the closed word.
         A cause reaches a check as follows: cancellation / deadline make ctx.Err() non-nil at once and reach the word
         only when the watcher goroutine of some in-flight call (CloseModuleOnCanceledOrTimeout, module_instance.go:32-67)
         has run; CloseWithExitCode from another goroutine writes the word at once and never touches the context.
   (ii)  Graphs with host nodes: `hgraph`. Edges are those of TermCheck plus HEnter (callee, continuation, entry checks):
         api.Function.Call issued by a host function = a NEW call entry. A new call entry runs on a fresh call engine
         (fresh value/frame stack), so the engine's stack ceiling bounds each SEGMENT of the continuation stack between two
         entries, and nothing bounds the number of segments (the Go stack only: exhausting it kills the process).
   (iii) `hcheck`: the checker of TermCheck on the graph without the entry edges, plus "every entry edge carries a check
         that observes the situation".
   No proofs in this file (coq/Proofs/TermHostP.v). *)
From Coq Require Import List Arith Bool ZArith Lia.
From Verif Require Import Lib.GoInt Gen.GenC07Wasm Gen.GenC07Sys Engine.TermCheck.
Import ListNotations.
Close Scope Z_scope.
Open Scope nat_scope.

(* ------------------------------------------------------------------ (i) what a check reads *)
Inductive ctx_state := CtxLive | CtxCanceled | CtxDeadline.      (* ctx.Err(): nil, context.Canceled, context.DeadlineExceeded *)
Record world := { w_ctx : ctx_state; w_word : Z }.
Inductive echk := KCtx | KWord.

(* Some code: the call returns sys.NewExitError(code) at this point; the world afterwards (KCtx closes the module) *)
Definition run_chk (k : echk) (w : world) : option Z * world :=
  match k with
  | KWord => (fail_if_closed (w_word w), w)
  | KCtx =>
      match w_ctx w with
      | CtxLive => (None, w)
      | CtxCanceled => let wd := apply_cause (w_word w) CancelledAtEntry in (fail_if_closed wd, {| w_ctx := w_ctx w; w_word := wd |})
      | CtxDeadline => let wd := apply_cause (w_word w) DeadlineAtEntry in (fail_if_closed wd, {| w_ctx := w_ctx w; w_word := wd |})
      end
  end.

Fixpoint run_entry (ks : list echk) (w : world) : option Z * world :=
  match ks with
  | [] => (None, w)
  | k :: r => match run_chk k w with (Some c, w') => (Some c, w') | (None, w') => run_entry r w' end
  end.

Definition is_some {A} (o : option A) : bool := match o with Some _ => true | None => false end.
Definition observes (ks : list echk) (w : world) : bool := is_some (fst (run_entry ks w)).

(* call entry as it is in the code now; after the seeded change C07c (pre-check deleted, the already-done case moved
   into CloseModuleOnCanceledOrTimeout, which only WRITES the word); with FailIfClosed added at entry (candidate repair) *)
Definition entry_now : list echk := [KCtx].
Definition entry_seeded : list echk := [].
Definition entry_repaired : list echk := [KCtx; KWord].

(* situations in which a check may run. `watched`: a watcher goroutine of an in-flight call has written the word *)
Definition sit_cancel (watched : bool) : world :=
  {| w_ctx := CtxCanceled; w_word := if watched then apply_cause 0%Z Cancelled else 0%Z |}.
Definition sit_deadline (watched : bool) : world :=
  {| w_ctx := CtxDeadline; w_word := if watched then apply_cause 0%Z DeadlinePassed else 0%Z |}.
(* Module.CloseWithExitCode(code) from another goroutine *)
Definition sit_close (code : Z) : world := {| w_ctx := CtxLive; w_word := apply_cause 0%Z (Closed code) |}.
(* the context of an OUTER call is done and its watcher has written the word, but the host function handed a different,
   live context to the nested call *)
Definition sit_outer_cancel : world := {| w_ctx := CtxLive; w_word := apply_cause 0%Z Cancelled |}.
Definition sit_outer_deadline : world := {| w_ctx := CtxLive; w_word := apply_cause 0%Z DeadlinePassed |}.
Definition sit_quiet : world := {| w_ctx := CtxLive; w_word := 0%Z |}.

(* ------------------------------------------------------------------ (ii) graphs with host nodes *)
Inductive hedge :=
| HSeq (t : nat)
| HCall (callee ret : nat)                 (* guest -> guest, or guest -> host when callee is a host node (imported Go function) *)
| HTail (callee : nat)
| HRet
| HEnter (callee ret : nat) (ks : list echk).   (* host -> guest: api.Function.Call inside a host function; ks = the checks at that entry *)

Record hnode := hmk { h_host : bool; h_check : bool; h_edges : list hedge }.
Definition hgraph := list hnode.
Definition hdead := hmk false false [].
Definition hedges (H : hgraph) (n : nat) : list hedge := h_edges (nth n H hdead).
Definition is_host (H : hgraph) (n : nat) : bool := h_host (nth n H hdead).
Definition is_hcheck (H : hgraph) (n : nat) : bool := h_check (nth n H hdead).

(* the continuation stack: FEntry marks the start of a new call engine (host frame below it) *)
Inductive frame := FRet (k : nat) | FEntry (k : nat).
Definition fcont (f : frame) : nat := match f with FRet k => k | FEntry k => k end.
Definition hcfg := (nat * list frame)%type.

(* a step, labelled with the entry checks it passes when it is a call entry *)
Inductive hstep (H : hgraph) : hcfg -> option (list echk) -> hcfg -> Prop :=
| hs_seq n st t : In (HSeq t) (hedges H n) -> hstep H (n, st) None (t, st)
| hs_call n st c r : In (HCall c r) (hedges H n) -> hstep H (n, st) None (c, FRet r :: st)
| hs_tail n st c : In (HTail c) (hedges H n) -> hstep H (n, st) None (c, st)
| hs_ret n f st : In HRet (hedges H n) -> hstep H (n, f :: st) None (fcont f, st)
| hs_enter n st c r ks : In (HEnter c r ks) (hedges H n) -> hstep H (n, st) (Some ks) (c, FEntry r :: st).

Definition hpath := list (option (list echk) * hcfg).
Fixpoint is_hpath (H : hgraph) (c : hcfg) (l : hpath) : Prop :=
  match l with
  | [] => True
  | (lab, c') :: r => hstep H c lab c' /\ is_hpath H c' r
  end.
Definition cfgs (c : hcfg) (l : hpath) : list hcfg := c :: map snd l.
Fixpoint hlast (c : hcfg) (l : hpath) : hcfg := match l with [] => c | (_, c') :: r => hlast c' r end.

(* frames of the innermost call engine; every call engine's frames *)
Fixpoint seg_depth (st : list frame) : nat :=
  match st with FRet _ :: r => S (seg_depth r) | _ => 0 end.
Fixpoint segs_le (D : nat) (st : list frame) : Prop :=
  seg_depth st <= D /\ match st with [] => True | _ :: r => segs_le D r end.
Fixpoint segs_leb (D : nat) (st : list frame) : bool :=
  (seg_depth st <=? D) && match st with [] => true | _ :: r => segs_leb D r end.
(* host <-> guest nesting: number of call engines on the stack *)
Fixpoint nest (st : list frame) : nat :=
  match st with [] => 1 | FEntry _ :: r => S (nest r) | FRet _ :: r => nest r end.

(* which checks observe the situation: v_node for the in-guest check nodes (all of them are KWord checks),
   v_entry for the checks of an entry edge *)
Record view := { v_node : bool; v_entry : list echk -> bool }.
Definition view_of (w : world) : view := {| v_node := observes [KWord] w; v_entry := fun ks => observes ks w |}.

Definition node_obs (v : view) (H : hgraph) (n : nat) : bool := is_hcheck H n && v_node v.
Definition lab_obs (v : view) (lab : option (list echk)) : bool :=
  match lab with Some ks => v_entry v ks | None => false end.
(* the path passes a check point that observes the situation: a check node or a checked call entry *)
Definition checkpoint (v : view) (H : hgraph) (c0 : hcfg) (l : hpath) : Prop :=
  node_obs v H (fst c0) = true \/
  exists lab c, In (lab, c) l /\ (lab_obs v lab = true \/ node_obs v H (fst c) = true).
Definition checkpointb (v : view) (H : hgraph) (c0 : hcfg) (l : hpath) : bool :=
  node_obs v H (fst c0) || existsb (fun x => lab_obs v (fst x) || node_obs v H (fst (snd x))) l.

(* ------------------------------------------------------------------ (iii) the checker *)
Definition proj_edge (e : hedge) : list edge :=
  match e with
  | HSeq t => [ESeq t] | HCall c r => [ECall c r] | HTail c => [ETail c] | HRet => [ERet]
  | HEnter _ _ _ => []          (* judged separately: the entry itself must be a check point *)
  end.
Definition proj_node (v : view) (nd : hnode) : node := mk (h_check nd && v_node v) (flat_map proj_edge (h_edges nd)).
Definition proj (v : view) (H : hgraph) : graph := map (proj_node v) H.

Definition edge_entry_ok (v : view) (e : hedge) : bool :=
  match e with HEnter _ _ ks => v_entry v ks | _ => true end.
Definition entries_checked (v : view) (H : hgraph) : bool :=
  forallb (fun nd => forallb (edge_entry_ok v) (h_edges nd)) H.
(* call entries are issued by host nodes only, and a host function is not a tail-call target replacement *)
Definition wf_host (H : hgraph) : bool :=
  forallb (fun nd => h_host nd || forallb (fun e => match e with HEnter _ _ _ => false | _ => true end) (h_edges nd)) H.

Definition hcheck (v : view) (H : hgraph) : bool := all_cycles_checked (proj v H) && entries_checked v H.

(* check-free paths in which no call engine holds more than `ceiling` frames have fewer steps than this, whatever the
   number of nested call engines reached later: linear in the nesting at the START of the path *)
Definition hbound (nodes ceiling nesting : nat) : nat := (nodes + 2) ^ (ceiling + 1) * nesting.

(* ------------------------------------------------------------------ graphs in the format of TermCheck / checks/c07.py
   node 0 = any imported Go function, node 1 = its re-entry point whose ECall edges are the call entries *)
Definition lift_edge (e : edge) : hedge :=
  match e with ESeq t => HSeq t | ECall c r => HCall c r | ETail c => HTail c | ERet => HRet end.
Definition enter_edge (ks : list echk) (e : edge) : hedge :=
  match e with ECall c r => HEnter c r ks | x => lift_edge x end.
Definition lift_node (host : bool) (nd : node) : hnode := hmk host (n_check nd) (map lift_edge (n_edges nd)).
Definition of_graph (ks : list echk) (G : graph) : hgraph :=
  match G with
  | h :: re :: rest =>
      lift_node true h :: hmk true false (map (enter_edge ks) (n_edges re)) :: map (lift_node false) rest
  | _ => map (lift_node false) G
  end.
Definition hgraph_of (ks : list echk) (p : prog) : hgraph := of_graph ks (graph_of p).

(* ------------------------------------------------------------------ the seeded defect's shape
   one guest function that calls an imported Go function, which calls the guest function back:
   0: any imported function: goes on to 1, or returns       1: api.Function.Call of f (entry checks ks), continues at 0
   2: guest function f: call import 0, continues at 3       3: f returns
   There is no loop and no tail call, so neither lowering places a check in f. *)
Definition hostrec_prog : prog := {| p_nimp := 1; p_funcs := [[ICall 0]] |}.
Definition hostrec_graph (ks : list echk) : hgraph := hgraph_of ks hostrec_prog.
(* n round trips f -> host -> f, starting in f with continuation stack st *)
Fixpoint hostrec_path (ks : list echk) (n : nat) (st : list frame) : hpath :=
  match n with
  | 0 => []
  | S n' => (None, (0, FRet 3 :: st)) :: (None, (1, FRet 3 :: st)) :: (Some ks, (2, FEntry 0 :: FRet 3 :: st))
              :: hostrec_path ks n' (FEntry 0 :: FRet 3 :: st)
  end.

(* ------------------------------------------------------------------ correspondence with the engines
   (a) entry probe: an exported function is called on a real module in a prepared situation; observed: did any guest
       code run, the exit code of the returned error (-1: nil error). The model's prediction for an entry with checks ks:
       the call returns at entry with the code, or runs the body and reports the word through the deferred FailIfClosed. *)
Definition sit_of (k code : Z) : world :=
  (if k =? 0 then sit_cancel false else if k =? 1 then sit_deadline false else if k =? 2 then sit_close code
   else if k =? 3 then sit_outer_cancel else if k =? 4 then sit_outer_deadline else sit_quiet)%Z.
Definition probe_model (ks : list echk) (w : world) : bool * Z :=
  match run_entry ks w with
  | (Some c, _) => (false, c)
  | (None, w') => (true, match fail_if_closed (w_word w') with Some c => c | None => (-1)%Z end)
  end.
Record pcase := { pc_sit : Z; pc_code : Z; pc_ran : bool; pc_exit : Z }.
Open Scope Z_scope.
Definition check_pcase (ks : list echk) (c : pcase) : bool :=
  let '(ran, ex) := probe_model ks (sit_of (pc_sit c) (pc_code c)) in Bool.eqb ran (pc_ran c) && (ex =? pc_exit c).
Fixpoint pmismatches (ks : list echk) (i : Z) (cs : list pcase) : list Z :=
  match cs with [] => [] | c :: r => (if check_pcase ks c then [] else [i]) ++ pmismatches ks (i + 1) r end.

(* (b) graphs built from the engine dumps (format of TermCheck: node 0 = host, node 1 = its call entries), with the entry
       checks the probe found on the engine the graph was dumped from. In all situations of hsits the in-guest checks
       observe (v_node = true), so the projection is the same for all of them and its cycle verdict is computed once
       (TermHostP.hcheck_shared_eq: hcheck_shared = hcheck). Code 100*(j+1) + k: the k-th graph is rejected in the j-th
       situation. *)
Definition hsits : list world := [sit_cancel true; sit_deadline true; sit_close 7; sit_outer_cancel].
Definition full_view : view := {| v_node := true; v_entry := fun _ => true |}.
Definition hcheck_shared (cyc : bool) (v : view) (g : hgraph) : bool :=
  (if v_node v then cyc else all_cycles_checked (proj v g)) && entries_checked v g.
Fixpoint hrej_sits (j k : Z) (cyc : bool) (sits : list world) (g : hgraph) : list Z :=
  match sits with
  | [] => []
  | w :: r => (if hcheck_shared cyc (view_of w) g then [] else [100 * (j + 1) + k]) ++ hrej_sits (j + 1) k cyc r g
  end.
Fixpoint hrejected (k : Z) (gs : list hgraph) : list Z :=
  match gs with
  | [] => []
  | g :: r => hrej_sits 0 k (all_cycles_checked (proj full_view g)) hsits g ++ hrejected (k + 1) r
  end.
Record hcase := { hc_entries : list (list echk);     (* per graph: the entry checks of the engine it was dumped from *)
                  hc_graphs : list graph }.
Definition check_hcase (c : hcase) : list Z :=
  hrejected 0 (map (fun x => of_graph (fst x) (snd x)) (combine (hc_entries c) (hc_graphs c))).
Fixpoint hmismatches (i : Z) (cs : list hcase) : list (Z * Z) :=
  match cs with
  | [] => []
  | c :: r => map (fun code => (i, code)) (check_hcase c) ++ hmismatches (i + 1) r
  end.
