(* C02: a byte-level model, written from the specification, of EVERY kind of linear-memory access a guest can
   execute: plain loads/stores of every width, the SIMD loads/stores (v128, extending, splat, zero, lane), the
   atomics of the threads proposal (load/store/rmw/cmpxchg/notify/wait, which additionally trap when misaligned)
   and the bulk operations memory.fill / memory.copy / memory.init (trap BEFORE any byte is written).

   effective address  ea = base + static offset, computed WITHOUT wrap-around (a 33-bit number);
   the access is in bounds  iff  ea + width <= current size; in bounds -> exactly the bytes [ea, ea+width) are read
   or written; out of bounds -> trap, memory unchanged.

   A memory is given by its size and a WINDOW of known bytes [v_lo, v_lo + length v_win): the whole memory is the
   window (length m, 0, m) (`whole`); the correspondence run hands the model only the bytes around the addressed
   locations (Proofs/AccessP.v `run_window`: evaluating on a window that covers the access is the same as evaluating
   on the whole memory). No proofs in this file. *)
From Coq Require Import String Ascii ZArith List Bool.
Import ListNotations.
Open Scope list_scope.
Open Scope Z_scope.

Definition zlen {A} (l : list A) : Z := Z.of_nat (length l).

Record vmem := { v_size : Z; v_lo : Z; v_win : list Z }.
Definition whole (m : list Z) : vmem := {| v_size := zlen m; v_lo := 0; v_win := m |}.

Definition eff_addr (base off : Z) : Z := base + off.
Definition access_ok (size ea n : Z) : bool := (0 <=? ea) && (0 <=? n) && (ea + n <=? size).
Definition covers (m : vmem) (ea n : Z) : bool := (v_lo m <=? ea) && (ea + n <=? v_lo m + zlen (v_win m)).

(* n bytes from index i / the list with the bytes from index i on replaced by bs *)
Definition sub (l : list Z) (i n : Z) : list Z := firstn (Z.to_nat n) (skipn (Z.to_nat i) l).
Definition splice (l : list Z) (i : Z) (bs : list Z) : list Z :=
  firstn (Z.to_nat i) l ++ bs ++ skipn (Z.to_nat i + length bs) l.

Definition vrd (m : vmem) (ea n : Z) : list Z := sub (v_win m) (ea - v_lo m) n.
Definition vwr (m : vmem) (ea : Z) (bs : list Z) : vmem :=
  {| v_size := v_size m; v_lo := v_lo m; v_win := splice (v_win m) (ea - v_lo m) bs |}.

Fixpoint le_val (bs : list Z) : Z := match bs with [] => 0 | b :: r => b + 256 * le_val r end.
Fixpoint le_bytes (n : nat) (v : Z) : list Z := match n with O => [] | S k => v mod 256 :: le_bytes k (v / 256) end.

Inductive trap := AOob | AUnaligned.   (* an access that is out of bounds traps with AOob, aligned or not; AUnaligned: in bounds, misaligned atomic *)
Inductive outcome :=
| OTrap (t : trap)
| ODone (m' : vmem) (res : list Z)
| OWindow.                      (* the window does not cover an in-bounds access: an error of the caller, never of the guest *)

Inductive rmwop := RAdd | RSub | RAnd | ROr | RXor | RXchg.
Definition rmw_new (op : rmwop) (n old v : Z) : Z :=
  let M := 2 ^ (8 * n) in
  match op with
  | RAdd => (old + v) mod M | RSub => (old - v) mod M
  | RAnd => Z.land old (v mod M) | ROr => Z.lor old (v mod M) | RXor => Z.lxor old (v mod M)
  | RXchg => v mod M
  end.

Inductive acc :=
| ALoad (ea n : Z)                         (* every non-atomic load: reads n bytes at ea *)
| AStore (ea : Z) (bs : list Z)            (* every non-atomic store *)
| AFill (d v n : Z)
| ACopy (d s n : Z)
| AInit (seg : list Z) (d s n : Z)
| AAtomLoad (ea n : Z)                     (* also memory.atomic.notify / wait: alignment + bounds of n bytes *)
| AAtomStore (ea : Z) (bs : list Z)
| ARmw (op : rmwop) (ea n v : Z)
| ACmpxchg (ea n expect repl : Z).

(* the continuation is a thunk: vm_compute is call-by-value and must not build the bytes of an access that traps *)
Definition guarded (m : vmem) (ea n : Z) (k : unit -> outcome) : outcome :=
  if access_ok (v_size m) ea n then (if covers m ea n then k tt else OWindow) else OTrap AOob.

Definition atomic (m : vmem) (ea n : Z) (k : unit -> outcome) : outcome :=
  if ea mod n =? 0 then guarded m ea n k
  else if access_ok (v_size m) ea n then OTrap AUnaligned else OTrap AOob.

Definition run (m : vmem) (a : acc) : outcome :=
  match a with
  | ALoad ea n => guarded m ea n (fun _ => ODone m (vrd m ea n))
  | AStore ea bs => guarded m ea (zlen bs) (fun _ => ODone (vwr m ea bs) [])
  | AFill d v n => guarded m d n (fun _ => ODone (vwr m d (repeat (v mod 256) (Z.to_nat n))) [])
  | ACopy d s n =>
      if access_ok (v_size m) s n && access_ok (v_size m) d n then
        if covers m s n && covers m d n then ODone (vwr m d (vrd m s n)) [] else OWindow
      else OTrap AOob
  | AInit seg d s n =>
      if access_ok (zlen seg) s n && access_ok (v_size m) d n then
        if covers m d n then ODone (vwr m d (sub seg s n)) [] else OWindow
      else OTrap AOob
  | AAtomLoad ea n => atomic m ea n (fun _ => ODone m (vrd m ea n))
  | AAtomStore ea bs => atomic m ea (zlen bs) (fun _ => ODone (vwr m ea bs) [])
  | ARmw op ea n v =>
      atomic m ea n (fun _ => let old := vrd m ea n in ODone (vwr m ea (le_bytes (Z.to_nat n) (rmw_new op n (le_val old) v))) old)
  | ACmpxchg ea n e r =>
      atomic m ea n (fun _ => let old := vrd m ea n in
                     ODone (if le_val old =? e mod 2 ^ (8 * n) then vwr m ea (le_bytes (Z.to_nat n) (r mod 2 ^ (8 * n))) else m) old)
  end.

(* the effective address and width of an atomic access *)
Definition atomic_ea_width (a : acc) : option (Z * Z) :=
  match a with
  | AAtomLoad ea n | ARmw _ ea n _ | ACmpxchg ea n _ _ => Some (ea, n)
  | AAtomStore ea bs => Some (ea, zlen bs)
  | _ => None
  end.

Definition mem_after (m : vmem) (a : acc) : vmem := match run m a with ODone m' _ => m' | _ => m end.

(* the byte indices of the memory an access reads / writes when it does not trap *)
Definition range (a n : Z) : list Z := map (fun k => a + Z.of_nat k) (seq 0 (Z.to_nat n)).
Definition reads (a : acc) : list Z :=
  match a with
  | ALoad ea n | AAtomLoad ea n | ARmw _ ea n _ | ACmpxchg ea n _ _ => range ea n
  | ACopy _ s n => range s n
  | _ => []
  end.
Definition writes (a : acc) : list Z :=
  match a with
  | AStore ea bs | AAtomStore ea bs => range ea (zlen bs)
  | AFill d _ n | ACopy d _ n | AInit _ d _ n => range d n
  | ARmw _ ea n _ | ACmpxchg ea n _ _ => range ea n
  | _ => []
  end.
Definition touched (m : vmem) (a : acc) : list Z :=
  match run m a with ODone _ _ => reads a ++ writes a | _ => [] end.

(* ---- from the bytes read to the value the instruction produces ---- *)
Inductive shape :=
| SRaw
| SZext (w : Z) | SSext (w : Z)       (* extended to w bytes *)
| SLanes (c : Z) (sx : bool)          (* v128.load8x8/16x4/32x2: every c-byte chunk extended to 2c bytes *)
| SSplat                              (* v128.loadN_splat: repeated up to 16 bytes *)
| SZero                               (* v128.loadN_zero: padded with zeros to 16 bytes *)
| SLane (vec : list Z) (k : Z)        (* v128.loadN_lane: lane k of vec replaced *)
| SConst (bs : list Z)                (* memory.atomic.notify without waiters *)
| SWait (expect : Z).                 (* memory.atomic.wait with a zero timeout: 1 not-equal, 2 timed-out *)

Definition ext_to (sx : bool) (w : Z) (bs : list Z) : list Z :=
  bs ++ repeat (if sx && (128 <=? last bs 0) then 255 else 0) (Z.to_nat w - length bs).
Fixpoint chunks (fuel c : nat) (bs : list Z) : list (list Z) :=
  match fuel with
  | O => []
  | S f => match bs with [] => [] | _ => firstn c bs :: chunks f c (skipn c bs) end
  end.
Definition shape_bytes (sh : shape) (bs : list Z) : list Z :=
  match sh with
  | SRaw => bs
  | SZext w => ext_to false w bs
  | SSext w => ext_to true w bs
  | SLanes c sx => flat_map (ext_to sx (2 * c)) (chunks (length bs) (Z.to_nat c) bs)
  | SSplat => concat (repeat bs (16 / length bs)%nat)
  | SZero => ext_to false 16 bs
  | SLane vec k => splice vec (k * zlen bs) bs
  | SConst c => c
  | SWait e => le_bytes 4 (if le_val bs =? e then 2 else 1)
  end.

(* ---- a function of the correspondence run: accesses in execution order, memory.grow in between ---- *)
Inductive op := OAcc (a : acc) (sh : shape) | OGrow (delta maxpages : Z).
Inductive seqres := QDone (m : vmem) (res : list Z) | QTrap (t : trap) (m : vmem) | QWin.

Definition grow (m : vmem) (delta maxpages : Z) : vmem * list Z :=
  let pages := v_size m / 65536 in
  if (0 <=? delta) && (pages + delta <=? maxpages) then
    ({| v_size := v_size m + delta * 65536; v_lo := v_lo m; v_win := v_win m |}, le_bytes 4 pages)
  else (m, [255; 255; 255; 255]).

Fixpoint run_ops (m : vmem) (ops : list op) (res : list Z) : seqres :=
  match ops with
  | [] => QDone m res
  | OGrow d mx :: r => let '(m', bs) := grow m d mx in run_ops m' r (res ++ bs)
  | OAcc a sh :: r =>
      match run m a with
      | OTrap t => QTrap t m
      | OWindow => QWin
      | ODone m' bs => run_ops m' r (res ++ shape_bytes sh bs)
      end
  end.

(* ---- comparison with what an engine showed ---- *)
Fixpoint diff_list (i : Z) (l l' : list Z) : list (Z * Z) :=
  match l, l' with
  | a :: r, b :: r' => if a =? b then diff_list (i + 1) r r' else (i, b) :: diff_list (i + 1) r r'
  | _, _ => []
  end.
Fixpoint zl_eqb (a b : list Z) : bool :=
  match a, b with [], [] => true | x :: r, y :: r' => (x =? y) && zl_eqb r r' | _, _ => false end.
Fixpoint pl_eqb (a b : list (Z * Z)) : bool :=
  match a, b with
  | [], [] => true
  | (x, u) :: r, (y, v) :: r' => (x =? y) && (u =? v) && pl_eqb r r'
  | _, _ => false
  end.

(* g_trap: 0 none, 1 out of bounds, 2 unaligned atomic, anything else never matches.
   g_res: the bytes of every value the model produces, in order (the harness: what it returned / fed to the
   consumer's twin). g_diff: EVERY byte of the whole memory that differs after the call (index, new value).
   g_size: size after the call. The window may extend beyond the size (zeros there: the pages memory.grow adds). *)
Record gcase := { g_mem : vmem; g_ops : list op; g_trap : Z; g_res : list Z; g_diff : list (Z * Z); g_size : Z }.

Definition trap_matches (t : trap) (o : Z) : bool :=
  match t with AOob => o =? 1 | AUnaligned => o =? 2 end.

(* 0 agreement; 1 trap / no trap (or its class); 2 memory contents; 3 size; 4 value; 9 window too small *)
Definition check_gcase (c : gcase) : Z :=
  match run_ops (g_mem c) (g_ops c) [] with
  | QWin => 9
  | QTrap t m' =>
      if negb (trap_matches t (g_trap c)) then 1
      else if negb (pl_eqb (diff_list (v_lo m') (v_win (g_mem c)) (v_win m')) (g_diff c)) then 2
      else if negb (v_size m' =? g_size c) then 3 else 0
  | QDone m' rs =>
      if negb (g_trap c =? 0) then 1
      else if negb (zl_eqb rs (g_res c)) then 4
      else if negb (pl_eqb (diff_list (v_lo m') (v_win (g_mem c)) (v_win m')) (g_diff c)) then 2
      else if negb (v_size m' =? g_size c) then 3 else 0
  end.

Fixpoint gmismatches (i : Z) (cs : list gcase) : list (Z * Z) :=
  match cs with
  | [] => []
  | c :: r => let k := check_gcase c in if k =? 0 then gmismatches (i + 1) r else (i, k) :: gmismatches (i + 1) r
  end.

(* byte lists of case files are written as lower-case hex strings *)
Definition hexv (c : ascii) : Z := let n := Z.of_N (N_of_ascii c) in if n <? 58 then n - 48 else n - 87.
Fixpoint hex (s : string) : list Z :=
  match s with String a (String b r) => (16 * hexv a + hexv b) :: hex r | _ => [] end.
(* (index, new byte) pairs of consecutive indices from i *)
Fixpoint at_from (i : Z) (bs : list Z) : list (Z * Z) :=
  match bs with [] => [] | b :: r => (i, b) :: at_from (i + 1) r end.
