(* C01, SSA stream: the raw case format of checks/c01_ssa.py (numbers as primitive 63-bit integers, which coqc reads
   natively; decimal nat literals cost a quarter of a millisecond each) and its decoding into the vocabulary of
   Engine/SsaCfg.v. Used only inside `Eval vm_compute` of generated case files, never in a theorem. *)
From Coq Require Import List ZArith Uint63.
Import ListNotations.
From Verif Require Import Engine.SsaCfg.


Definition rn (i : int) : nat := Z.to_nat (Uint63.to_Z i).
Definition rl (l : list int) : list nat := map rn l.
(* 4095 stands for "none" *)
Definition ro (i : int) : option nat := if Uint63.eqb i 4095%uint63 then None else Some (rn i).
Definition rt (b : int) (args : list int) : tgt := (rn b, rl args).
Definition RExit : term := TExit.
Definition RJump (b : int) (args : list int) (ft : bool) : term := TJump (rt b args) ft.
Definition RCond (nz : bool) (c : int) (b : int) (args : list int) (b' : int) (args' : list int) (ft : bool) : term :=
  TCond nz (rn c) (rt b args) (rt b' args') ft.
Definition RTable (c : int) (ts : list int) (args : list int) : term := TTable (rn c) (map (fun b => rt b args) ts).
Definition RB (t : term) (body params nins : int) : blk :=
  {| b_term := t; b_body := rn body; b_params := rn params; b_nins := rn nins |}.
Definition rq (q : int * int * int) : nat * nat * nat := match q with (u, v, l) => (rn u, rn v, rn l) end.

Definition RCase (ret : int) (b0 b1 : list blk) (valid : list bool) (succ1 pred1 : list (list int)) (order1 rpo1 idom1 : list int)
           (hdr1 : list bool) (b3 : list blk) (valid3 : list bool) (succ3 pred3 : list (list int)) (order3 idom3 : list int)
           (hdr3 : list bool) (kids3 : list (list int)) (roots3 : list int) (lca3 : list (int * int * int)) : fcase :=
  {| fc_ret := rn ret; fc_b0 := b0; fc_b1 := b1; fc_valid := valid; fc_succ1 := map rl succ1; fc_pred1 := map rl pred1;
     fc_order1 := rl order1; fc_rpo1 := map ro rpo1; fc_idom1 := map ro idom1; fc_hdr1 := hdr1;
     fc_b3 := b3; fc_valid3 := valid3; fc_succ3 := map rl succ3; fc_pred3 := map rl pred3; fc_order3 := rl order3;
     fc_idom3 := map ro idom3; fc_hdr3 := hdr3; fc_kids3 := map rl kids3; fc_roots3 := rl roots3; fc_lca3 := map rq lca3 |}.
