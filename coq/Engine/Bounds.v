(* C02: the bounds-check arithmetic of both engines, with Go's widths.
   Compiler (wazevo frontend memOpSetup): ceil = constOffset + size (uint64); base zero-extended to 64 bits;
   trap iff memLen <u base + ceil; the access happens at memBase + base (+ constOffset). A later access on the same
   base value with ceil' <= a bound already checked is emitted WITHOUT a check (known-safe-bound elision).
   Interpreter (popMemoryOffset + MemoryInstance accessors): offset = constOffset + base in uint64, trap if it
   exceeds 2^32-1, then hasSize(uint32 offset, size) — hasSize is the go2coq translation of memory.go. *)
From Verif Require Import Lib.GoInt Gen.GenWasm.
Open Scope Z_scope.

Definition ceil64 (off size : Z) : Z := wrap 64 (off + size).
(* true = the compiled check lets the access through *)
Definition compiler_pass (memLen base off size : Z) : bool :=
  negb (memLen <? wrap 64 (wrap 64 base + ceil64 off size)).
(* an elided access: allowed when its ceil is at most the recorded bound *)
Definition elided_pass (bound off size : Z) : bool := ceil64 off size <=? bound.

Definition interp_pass (memLen base off size : Z) : bool :=
  let o := wrap 64 (off + base) in
  (o <=? 2 ^ 32 - 1) && MemoryInstance_hasSize memLen (wrap 32 o) size.
