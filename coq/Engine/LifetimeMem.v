(* C09, shared memories and globals: memories as objects of the store with per-instance cached views
   (no proofs in this file).

   A linear memory is a MemoryInstance (`memory`: current buffer, size in pages, maximum, defining instance)
   whose bytes live in a BUFFER; memory.grow / api.Memory.Grow allocates a NEW buffer, copies the contents and
   abandons the old one (wazero: `append` beyond the capacity, capacity = size by default). The collector frees
   every buffer that is not the current buffer of a memory some retained instance is bound to.

   Compiled code does not look at the MemoryInstance on every access: an instance may keep a VIEW of the memory,
   a raw (base, length) pair in its module context (wazevo: localMemoryBufferPtr/localMemoryLength of the module
   that DEFINES the memory, written by putLocalMemory; importers go through the MemoryInstance on every access:
   `VThrough`). A raw base is invisible to the collector. After a grow the memory notifies the instances that
   registered for it (`i_reg`; wazevo: ownerModuleEngine.MemoryGrown) and they refresh their view.

   `policy` describes who is notified:
     p_skip_closed = true   closed instances are skipped by the notification (the defect the check was blind to)
     p_register    = false  an importer that caches a view is not registered for notifications
     p_free_on_close = true closing an instance frees the current buffer of the memory it is bound to, whoever
                            else is bound to it (wazero with a user-supplied allocator: `user_allocator`)
   wazero with its default allocator is `notify_all` (nobody skipped, everybody who caches is registered, buffers
   are only ever freed by the collector).

   Closing an instance only sets its flag: its code stays reachable through functions other instances imported
   from it and through calls in flight; an exported call on a closed instance still runs and its result is then
   replaced by an exit error (`OErr`).  What keeps things alive: host handles, the call in flight, the store's
   name table (open instances), and from a retained instance the instances it imported a function from and the
   definer of the memory it imported (`i_deps`). *)
From Coq Require Import List ZArith Bool Arith.
From Verif Require Import Engine.Lifetime.
Import ListNotations.
Local Open Scope Z_scope.

Definition PAGE : Z := 65536.
Definition GROW_FAIL : Z := 4294967295.
Definition GROWST_VAL : Z := 4747.

Inductive akind := KSize | KLoad | KStore | KGrow | KGGet | KGSet | KGrowSt.
Definition akind_mem (k : akind) : bool := match k with KGGet | KGSet => false | _ => true end.

Inductive view := VCached (b : nat) (len : Z) | VThrough.

Record buffer := mkBuf { b_data : list (Z * Z); b_freed : bool }.
Record memory := mkMem { m_buf : nat; m_pages : Z; m_max : Z; m_owner : nat }.
Record inst := mkInst {
  i_mem : option nat; i_view : view; i_reg : bool; i_glob : option nat;
  i_acc : list (nat * akind);     (* imported accessor functions: (defining instance, kind) *)
  i_deps : list nat;              (* instances this one keeps alive *)
  i_closed : bool }.

Record mstate := mkMS {
  ms_insts : list inst; ms_mems : list memory; ms_bufs : list buffer; ms_globs : list Z;
  ms_handle : list (option nat);  (* per module index: the instance whose handle the embedder holds *)
  ms_name : list (option nat);    (* per module index: the instance registered under the module's name *)
  ms_flight : option nat }.

Record policy := mkPol { p_skip_closed : bool; p_register : bool; p_free_on_close : bool }.
Definition notify_all := mkPol false true false.
Definition skip_closed := mkPol true true false.
Definition unregistered := mkPol false false false.
(* experimental.WithMemoryAllocator: ModuleInstance.ensureResourcesClosed hands the instance's memory - its own or
   an IMPORTED one - to LinearMemory.Free *)
Definition user_allocator := mkPol false true true.

(* observations *)
Inductive mobs :=
| OVal (v : Z)      (* a call returned v *)
| OTrap             (* out of bounds memory access *)
| OErr              (* ordinary error: no handle, refused, exit error of a closed instance *)
| OFreed            (* the access touched a buffer the collector has freed *)
| ONone.            (* the step has no result *)

Definition dead_inst := mkInst None VThrough false None [] [] true.
Definition dead_mem := mkMem 0 0 0 0.
Definition dead_buf := mkBuf [] true.
Definition geti (s : mstate) (x : nat) : inst := nth x (ms_insts s) dead_inst.
Definition getm (s : mstate) (mu : nat) : memory := nth mu (ms_mems s) dead_mem.
Definition getb (s : mstate) (b : nat) : buffer := nth b (ms_bufs s) dead_buf.

Fixpoint updl {A} (l : list A) (i : nat) (f : A -> A) : list A :=
  match l, i with
  | [], _ => []
  | a :: r, O => f a :: r
  | a :: r, S k => a :: updl r k f
  end.

Definition with_insts s l := mkMS l (ms_mems s) (ms_bufs s) (ms_globs s) (ms_handle s) (ms_name s) (ms_flight s).
Definition with_mems s l := mkMS (ms_insts s) l (ms_bufs s) (ms_globs s) (ms_handle s) (ms_name s) (ms_flight s).
Definition with_bufs s l := mkMS (ms_insts s) (ms_mems s) l (ms_globs s) (ms_handle s) (ms_name s) (ms_flight s).
Definition with_globs s l := mkMS (ms_insts s) (ms_mems s) (ms_bufs s) l (ms_handle s) (ms_name s) (ms_flight s).
Definition with_handle s l := mkMS (ms_insts s) (ms_mems s) (ms_bufs s) (ms_globs s) l (ms_name s) (ms_flight s).
Definition with_name s l := mkMS (ms_insts s) (ms_mems s) (ms_bufs s) (ms_globs s) (ms_handle s) l (ms_flight s).
Definition with_mflight s f := mkMS (ms_insts s) (ms_mems s) (ms_bufs s) (ms_globs s) (ms_handle s) (ms_name s) f.

Definition set_view (v : view) (i : inst) : inst :=
  mkInst (i_mem i) v (i_reg i) (i_glob i) (i_acc i) (i_deps i) (i_closed i).
Definition set_iclosed (i : inst) : inst :=
  mkInst (i_mem i) (i_view i) (i_reg i) (i_glob i) (i_acc i) (i_deps i) true.
Definition set_freed (b : buffer) : buffer := mkBuf (b_data b) true.

(* ---- contents: association list, most recent first; absent = 0 ---- *)
Fixpoint lookupz (d : list (Z * Z)) (a : Z) : Z :=
  match d with
  | [] => 0
  | (k, v) :: r => if k =? a then v else lookupz r a
  end.
Definition wr (a v : Z) (b : buffer) : buffer := mkBuf ((a, v) :: b_data b) (b_freed b).

Definition opt_eqb (a : option nat) (b : nat) : bool := match a with Some x => Nat.eqb x b | None => false end.

(* ---- accesses ---- *)
(* the (buffer, length in pages) through which instance x reaches memory mu; thr: the access goes through the
   MemoryInstance (host api.Memory) whatever x caches *)
Definition view_of (s : mstate) (x : nat) (thr : bool) : option (nat * nat * Z) :=
  match i_mem (geti s x) with
  | None => None
  | Some mu =>
      let m := getm s mu in
      match thr, i_view (geti s x) with
      | false, VCached b l => Some (mu, b, l)
      | _, _ => Some (mu, m_buf m, m_pages m)
      end
  end.

Definition in_bounds (a l : Z) : bool := (0 <=? a) && (a + 4 <=? l * PAGE).

Definition do_load (s : mstate) (b : nat) (l a : Z) : mstate * mobs :=
  if in_bounds a l then
    if b_freed (getb s b) then (s, OFreed) else (s, OVal (lookupz (b_data (getb s b)) a))
  else (s, OTrap).

Definition do_store (s : mstate) (b : nat) (l a v : Z) : mstate * mobs :=
  if in_bounds a l then
    if b_freed (getb s b) then (s, OFreed) else (with_bufs s (updl (ms_bufs s) b (wr a v)), ONone)
  else (s, OTrap).

Definition notified (pol : policy) (i : inst) : bool := negb (p_skip_closed pol && i_closed i).

(* MemoryInstance.Grow: refused beyond the maximum; delta 0 changes nothing and notifies nobody; otherwise a new
   buffer with the same contents, the memory points to it, the registered instances of this memory refresh *)
Definition grown (pol : policy) (s : mstate) (mu : nat) (n : Z) : mstate :=
  let m := getm s mu in
  let nb := length (ms_bufs s) in
  let np := m_pages m + n in
  let s1 := with_bufs s (ms_bufs s ++ [mkBuf (b_data (getb s (m_buf m))) false]) in
  let s2 := with_mems s1 (updl (ms_mems s1) mu (fun _ => mkMem nb np (m_max m) (m_owner m))) in
  with_insts s2 (map (fun i => if opt_eqb (i_mem i) mu && i_reg i && notified pol i
                               then set_view (VCached nb np) i else i) (ms_insts s2)).

Definition do_grow (pol : policy) (s : mstate) (mu : nat) (n : Z) : mstate * mobs :=
  let m := getm s mu in
  if n =? 0 then (s, OVal (m_pages m))
  else if (0 <? n) && (m_pages m + n <=? m_max m) then
    if b_freed (getb s (m_buf m)) then (s, OFreed) else (grown pol s mu n, OVal (m_pages m))
  else (s, OVal GROW_FAIL).

(* the code of instance x (or, thr, the host on x's memory) performs accessor k *)
Definition access (pol : policy) (s : mstate) (x : nat) (thr : bool) (k : akind) (a1 a2 : Z) : mstate * mobs :=
  match k with
  | KGGet => match i_glob (geti s x) with Some g => (s, OVal (nth g (ms_globs s) 0)) | None => (s, OErr) end
  | KGSet => match i_glob (geti s x) with
             | Some g => (with_globs s (updl (ms_globs s) g (fun _ => a1)), ONone) | None => (s, OErr) end
  | _ =>
    match view_of s x thr with
    | None => (s, OErr)
    | Some (mu, b, l) =>
        match k with
        | KSize => (s, OVal l)
        | KLoad => do_load s b l a1
        | KStore => do_store s b l a1 a2
        | KGrow => do_grow pol s mu a1
        | _ => (* KGrowSt: memory.grow a1; drop; store GROWST_VAL at the last word but one; memory.size *)
            let '(s1, o1) := do_grow pol s mu a1 in
            match o1 with
            | OFreed => (s1, OFreed)
            | _ =>
              match view_of s1 x thr with
              | None => (s1, OErr)
              | Some (_, b1, l1) =>
                  let '(s2, o2) := do_store s1 b1 l1 (l1 * PAGE - 8) GROWST_VAL in
                  match o2 with ONone => (s2, OVal l1) | _ => (s2, o2) end
              end
            end
        end
    end
  end.

(* the result of an exported call on instance i: a value becomes an exit error when i is closed; a trap stays *)
Definition exported (closed : bool) (o : mobs) : mobs :=
  match o with
  | OVal _ | ONone => if closed then OErr else o
  | _ => o
  end.

(* ---- module table ---- *)
Inductive msrc := SNone | SOwn | SImp (j : nat).
Record mmod := mkMM {
  mm_mem : msrc; mm_cache : bool (* an importer of the memory keeps a cached view (wazero: never) *);
  mm_max : Z;
  mm_glob : msrc;
  mm_acc : list (nat * akind)     (* (module index, kind) *) }.

Inductive mop :=
| MInst (m : nat)
| MClose (m : nat)
| MCloseAll
| MDrop (m : nat)
| MGc
| MEnter (m : nat)
| MLeave (p : option nat) (k : akind) (a1 a2 : Z)
| MUse (m : nat) (p : option nat) (k : akind) (a1 a2 : Z)   (* p = None: own code; Some q: imported accessor q *)
| MHost (m : nat) (k : akind) (a1 a2 : Z)
| MNop.

Definition named (s : mstate) (j : nat) : option nat :=
  match nth j (ms_name s) None with
  | Some i => if i_closed (geti s i) then None else Some i
  | None => None
  end.

Fixpoint resolve_acc (s : mstate) (l : list (nat * akind)) : option (list (nat * akind)) :=
  match l with
  | [] => Some []
  | (j, k) :: r =>
      match named s j, resolve_acc s r with
      | Some i, Some r' =>
          let has := if akind_mem k then match i_mem (geti s i) with Some _ => true | None => false end
                     else match i_glob (geti s i) with Some _ => true | None => false end in
          if has then Some ((i, k) :: r') else None
      | _, _ => None
      end
  end.

(* imported memory / global of module j: the object the named instance is bound to *)
Definition resolve_src (s : mstate) (src : msrc) (sel : inst -> option nat) (fresh : nat) : option (option nat * bool) :=
  match src with
  | SNone => Some (None, false)
  | SOwn => Some (Some fresh, true)
  | SImp j => match named s j with
              | Some i => match sel (geti s i) with Some x => Some (Some x, false) | None => None end
              | None => None end
  end.

Definition minst (pol : policy) (mods : list mmod) (s : mstate) (m : nat) : mstate * mobs :=
  match nth_error mods m with
  | None => (s, OErr)
  | Some mm =>
    match resolve_src s (mm_mem mm) i_mem (length (ms_mems s)),
          resolve_src s (mm_glob mm) i_glob (length (ms_globs s)),
          resolve_acc s (mm_acc mm) with
    | Some (mem, ownm), Some (gl, owng), Some accs =>
        let nid := length (ms_insts s) in
        let nb := length (ms_bufs s) in
        let bufs := if ownm then ms_bufs s ++ [mkBuf [] false] else ms_bufs s in
        let mems := if ownm then ms_mems s ++ [mkMem nb 1 (mm_max mm) nid] else ms_mems s in
        let globs := if owng then ms_globs s ++ [0] else ms_globs s in
        let '(v, reg) :=
          match mem with
          | None => (VThrough, false)
          | Some mu =>
              if ownm then (VCached nb 1, true)
              else if mm_cache mm then (VCached (m_buf (getm s mu)) (m_pages (getm s mu)), p_register pol)
              else (VThrough, false)
          end in
        let deps := map fst accs ++ match mem with Some mu => if ownm then [] else [m_owner (getm s mu)] | None => [] end in
        let ni := mkInst mem v reg gl accs deps false in
        (mkMS (ms_insts s ++ [ni]) mems bufs globs (set_nth (ms_handle s) m (Some nid)) (set_nth (ms_name s) m (Some nid))
              (ms_flight s), ONone)
    | _, _, _ => (s, OErr)
    end
  end.

(* ---- collection ---- *)
Definition somes (l : list (option nat)) : list nat := flat_map (fun o => match o with Some x => [x] | None => [] end) l.
Definition open_names (s : mstate) : list nat :=
  flat_map (fun o => match o with Some i => if i_closed (geti s i) then [] else [i] | None => [] end) (ms_name s).
Definition mroots (s : mstate) : list nat :=
  somes (ms_handle s) ++ (match ms_flight s with Some i => [i] | None => [] end) ++ open_names s.
Definition dep_obj (i : inst) : obj := mkObj KInstance (i_deps i) [] [] None [] true false.
Definition dep_heap (s : mstate) : list obj := map dep_obj (ms_insts s).
Definition kept_bufs (s : mstate) (M : list nat) : list nat :=
  flat_map (fun i => match i_mem (geti s i) with Some mu => [m_buf (getm s mu)] | None => [] end) M.
Fixpoint free_except (k : nat) (l : list buffer) (keep : list nat) : list buffer :=
  match l with
  | [] => []
  | b :: r => (if memb k keep then b else set_freed b) :: free_except (S k) r keep
  end.
Definition mgc (s : mstate) : mstate :=
  match mark o_vis (S (length (ms_insts s))) (dep_heap s) (mroots s) with
  | Some M => with_bufs s (free_except 0 (ms_bufs s) (kept_bufs s M))
  | None => s
  end.

(* Close of instance i: the flag; with a user-supplied allocator also Free of its memory's buffer (once) *)
Definition close_inst (pol : policy) (s : mstate) (i : nat) : mstate :=
  let s1 := with_insts s (updl (ms_insts s) i set_iclosed) in
  if p_free_on_close pol && negb (i_closed (geti s i)) then
    match i_mem (geti s i) with
    | Some mu => with_bufs s1 (updl (ms_bufs s1) (m_buf (getm s mu)) set_freed)
    | None => s1
    end
  else s1.

(* the instance whose code runs accessor p for the caller i *)
Definition target (s : mstate) (i : nat) (p : option nat) (k : akind) : option (nat * akind) :=
  match p with
  | None => Some (i, k)
  | Some q => nth_error (i_acc (geti s i)) q
  end.

Definition mstep (pol : policy) (mods : list mmod) (s : mstate) (o : mop) : mstate * mobs :=
  match o with
  | MInst m => minst pol mods s m
  | MClose m =>
      match nth m (ms_handle s) None with
      | Some i => (close_inst pol s i, ONone)
      | None => (s, ONone) end
  | MCloseAll =>
      if p_free_on_close pol then (fold_left (close_inst pol) (seq 0 (length (ms_insts s))) s, ONone)
      else (with_insts s (map set_iclosed (ms_insts s)), ONone)
  | MDrop m => (with_handle s (set_nth (ms_handle s) m None), ONone)
  | MGc => (mgc s, ONone)
  | MEnter m =>
      match nth m (ms_handle s) None with
      | Some i => (with_mflight s (Some i), ONone)
      | None => (s, OErr) end
  | MLeave p k a1 a2 =>
      match ms_flight s with
      | Some i =>
          match target s i p k with
          | Some (x, k') =>
              let '(s', ob) := access pol s x false k' a1 a2 in
              (with_mflight s' None, exported (i_closed (geti s i)) ob)
          | None => (with_mflight s None, OErr)
          end
      | None => (s, OErr) end
  | MUse m p k a1 a2 =>
      match nth m (ms_handle s) None with
      | Some i =>
          match target s i p k with
          | Some (x, k') =>
              let '(s', ob) := access pol s x false k' a1 a2 in
              (s', exported (i_closed (geti s i)) ob)
          | None => (s, OErr)
          end
      | None => (s, OErr) end
  | MHost m k a1 a2 =>
      match nth m (ms_handle s) None with
      | Some i => access pol s i true k a1 a2
      | None => (s, OErr) end
  | MNop => (s, ONone)
  end.

Definition minit (n : nat) : mstate := mkMS [] [] [] [] (repeat None n) (repeat None n) None.

Fixpoint mrun (pol : policy) (mods : list mmod) (s : mstate) (ops : list mop) : mstate * list mobs :=
  match ops with
  | [] => (s, [])
  | o :: r => let '(s1, ob) := mstep pol mods s o in
              let '(s2, obs) := mrun pol mods s1 r in (s2, ob :: obs)
  end.

(* ---- the twin: a second world in which nothing is closed, dropped or collected, and which performs a call
   exactly when the first world does (the harness skips a call in both worlds when the handle is gone) ---- *)
Definition can_inst (pol : policy) (mods : list mmod) (s : mstate) (m : nat) : bool :=
  match snd (minst pol mods s m) with ONone => true | _ => false end.

Definition twin_go (pol : policy) (mods : list mmod) (s : mstate) (o : mop) : bool :=
  match o with
  | MInst m => can_inst pol mods s m
  | MClose _ | MCloseAll | MDrop _ | MGc => false
  | MEnter m | MUse m _ _ _ _ | MHost m _ _ _ =>
      match nth m (ms_handle s) None with Some _ => true | None => false end
  | MLeave _ _ _ _ => match ms_flight s with Some _ => true | None => false end
  | MNop => true
  end.

Definition skipped (o : mop) : mobs :=
  match o with MClose _ | MCloseAll | MDrop _ | MGc => ONone | _ => OErr end.

Fixpoint prun (pol : policy) (mods : list mmod) (s t : mstate) (ops : list mop) : list (mobs * mobs) :=
  match ops with
  | [] => []
  | o :: r =>
      let '(s1, a) := mstep pol mods s o in
      let '(t1, b) := if twin_go pol mods s o then mstep pol mods t o else (t, skipped o) in
      (a, b) :: prun pol mods s1 t1 r
  end.

(* ---- coherence ---- *)
Definition coherent_inst (s : mstate) (i : inst) : bool :=
  match i_mem i, i_view i with
  | Some mu, VCached b l => Nat.eqb b (m_buf (getm s mu)) && (l =? m_pages (getm s mu))
  | _, _ => true
  end.
Definition coherentb (s : mstate) : bool := forallb (coherent_inst s) (ms_insts s).

(* ---- harness layer: a case is (module table, history); the answer is one (class, value) pair per step ---- *)
Definition enc (o : mobs) : Z * Z :=
  match o with OVal v => (0, v) | OErr => (1, 0) | OFreed => (2, 0) | OTrap => (3, 0) | ONone => (4, 0) end.
Definition mcase := (list mmod * list mop)%type.
Definition mclassify (c : mcase) : list (Z * Z) :=
  let '(mods, ops) := c in map enc (snd (mrun notify_all mods (minit (length mods)) ops)).
