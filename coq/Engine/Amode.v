(* C02: model of lowerToAddressMode / lowerAddendsToAmode / lowerAddendFromInstr
   (internal/engine/wazevo/backend/isa/amd64/lower_mem.go), fixed (F01) and unfixed variants. *)
From Coq Require Import ZArith Lia Bool List.
Import ListNotations.
Open Scope Z_scope.

Definition W64 := 18446744073709551616.
Definition W32 := 4294967296.
Definition w64 (z : Z) := z mod W64.
Definition zext32 (z : Z) := z mod W32.                       (* value of uint32 as a number *)
Definition sext32 (z : Z) := let u := z mod W32 in if u <? 2147483648 then u else u - W32.

(* 32-bit inputs of an extend: a register (holding the zero-extended value) or a constant *)
Inductive e32 := R32 (r : nat) | C32 (c : Z).
(* 64-bit pointer expressions.  The bool is "MatchInstrOneOf succeeds" (single use, not lowered). *)
Inductive e64 :=
| V64 (r : nat)                          (* not defined by a matchable instruction: lives in r *)
| K64 (c : Z) (m : bool)                 (* Iconst64 *)
| UX (x : e32) (m : bool)
| SX (x : e32) (m : bool)
| SHL (x : nat) (k : Z) (m : bool)       (* Ishl (reg x) (const k) *)
| ADD (a b : e64) (m : bool).

Definition regs := nat -> Z.

Definition ev32 (rg : regs) (e : e32) : Z := match e with R32 r => zext32 (rg r) | C32 c => zext32 c end.
Fixpoint ev (rg : regs) (e : e64) : Z :=
  match e with
  | V64 r => w64 (rg r)
  | K64 c _ => w64 c
  | UX x _ => ev32 rg x
  | SX x _ => w64 (sext32 (ev32 rg x))
  | SHL x k _ => w64 (rg x * 2 ^ k)
  | ADD a b _ => w64 (ev rg a + ev rg b)
  end.

(* An addend: either a register (with shift) or a constant offset. Registers are described by the
   VALUE they hold, which is what matters for the meaning of the address. *)
Inductive addend := AReg (v : Z) (shift : Z) | AOff (off : Z).

Section Lowering.
Variable fixed : bool.   (* true = with the F01 repair *)
Variable rg : regs.

Definition lower_addend_from_instr (e : e64) : addend :=
  match e with
  | K64 c _ => AOff (if c <? 9223372036854775808 then c else c - W64)   (* int64(u64) *)
  | UX (C32 c) _ => AOff (if fixed then zext32 c else sext32 c)
  | SX (C32 c) _ => AOff (if fixed then sext32 c else zext32 c)
  | UX (R32 r) _ => AReg (w64 (rg r)) 0          (* the 32-bit register used as a 64-bit one *)
  | SX (R32 r) _ => AReg (w64 (rg r)) 0
  | SHL x k _ => if k <=? 3 then AReg (w64 (rg x)) k else AReg (w64 (rg x)) 0
  | _ => AOff 0 (* unreachable: panics "BUG: invalid opcode" *)
  end.

Definition matchable_addend (e : e64) : bool :=
  match e with K64 _ m | UX _ m | SX _ m | SHL _ _ m => m | _ => false end.

Definition lower_addend (e : e64) : addend :=
  if matchable_addend e then lower_addend_from_instr e else AReg (ev rg e) 0.

(* x86 addressing mode by the values of its parts: disp32 is SIGN-extended by the CPU. *)
Record amode := { disp : Z (* uint32 *); base : Z; index : Z; shift : Z }.
Definition eval_amode (a : amode) : Z := w64 (base a + index a * 2 ^ shift a + sext32 (disp a)).

Definition as_imm32_nosign (u : Z) : option Z := if (u <? 2147483648) then Some u else None.

Definition lower_addends_to_amode (x y : addend) (offBase : Z) : amode :=
  let offx := match x with AOff o => o | _ => 0 end in
  let offy := match y with AOff o => o | _ => 0 end in
  let u64 := w64 (w64 (offx + offy) + offBase) in
  (* constant too large for a disp32: materialise in a temp register replacing an invalid side *)
  let '(x, y, u) :=
    if u64 =? 0 then (x, y, 0) else
    match as_imm32_nosign u64 with
    | Some _ => (x, y, u64)
    | None => match x, y with
              | AOff _, _ => (AReg u64 0, y, 0)
              | _, AOff _ => (x, AReg u64 0, 0)
              | _, _ => (x, y, 0) (* panic BUG *)
              end
    end in
  let u32 := u mod W32 in
  match x, y with
  | AReg vx sx, AReg vy sy =>
      if (negb (sx =? 0)) && (negb (sy =? 0)) then {| disp := u32; base := w64 (vx * 2 ^ sx); index := vy; shift := sy |}
      else if (negb (sx =? 0)) then {| disp := u32; base := vy; index := vx; shift := sx |}
      else {| disp := u32; base := vx; index := vy; shift := sy |}
  | AReg vx sx, AOff _ | AOff _, AReg vx sx =>
      if negb (sx =? 0) then {| disp := u32; base := 0; index := vx; shift := sx |}
      else {| disp := u32; base := vx; index := 0; shift := 0 |}
  | AOff _, AOff _ => {| disp := 0; base := u64; index := 0; shift := 0 |}
  end.

Definition lower_to_amode (e : e64) (offBase : Z) : amode :=
  if 2147483648 <=? offBase then
    match lower_addend e with
    | AReg v s => {| disp := 0; base := w64 (0 + offBase); index := v; shift := s |}
    | AOff o => {| disp := 0; base := w64 (o + offBase); index := 0; shift := 0 |}
    end
  else match e with
  | ADD a b true => lower_addends_to_amode (lower_addend a) (lower_addend b) offBase
  | _ => match lower_addend e with
         | AReg v s => if negb (s =? 0) then {| disp := offBase; base := 0; index := v; shift := s |}
                       else {| disp := offBase; base := v; index := 0; shift := 0 |}
         | AOff o => {| disp := 0; base := w64 (o + offBase); index := 0; shift := 0 |}
         end
  end.
End Lowering.

(* What the frontend produces: no SExtend addend, shifts at most 3, registers of 32-bit values are
   zero-extended. *)
Fixpoint frontend_shape (e : e64) : bool :=
  match e with
  | SX _ _ => false
  | SHL _ k _ => (0 <=? k) && (k <=? 3)
  | ADD a b _ => frontend_shape a && frontend_shape b
  | _ => true
  end.
Fixpoint zext_ok (rg : regs) (e : e64) : Prop :=
  match e with
  | UX (R32 r) _ => 0 <= rg r < W32
  | ADD a b _ => zext_ok rg a /\ zext_ok rg b
  | _ => True
  end.
