(* C02: model of lowerToAddressMode / lowerAddendsToAmode / lowerAddend / lowerAddendFromInstr
   (internal/engine/wazevo/backend/isa/amd64/lower_mem.go), fixed (F01) and unfixed variants, and the reading of
   what the REAL function returned (addressing mode over virtual registers + the instructions it inserted), used
   by the direct correspondence stream of checks/c02.py (harness/c02/amode.go + x_amode_export.go). *)
From Coq Require Import ZArith Lia Bool List.
Import ListNotations.
Open Scope Z_scope.

Definition W64 := 18446744073709551616.
Definition W32 := 4294967296.
Definition w64 (z : Z) := z mod W64.
Definition zext32 (z : Z) := z mod W32.                       (* value of uint32 as a number *)
Definition sext32 (z : Z) := let u := z mod W32 in if u <? 2147483648 then u else u - W32.
Definition s64 (u : Z) := if u <? 9223372036854775808 then u else u - W64.        (* int64(uint64) *)
(* the low n bits of z read as a signed / unsigned number *)
Definition sextn (n z : Z) := let u := z mod 2 ^ n in if u <? 2 ^ (n - 1) then u else u - 2 ^ n.
Definition zextn (n z : Z) := z mod 2 ^ n.

(* 32-bit inputs of an extend: a register (holding the value in its low 32 bits) or a constant (Iconst32) *)
Inductive e32 := R32 (r : nat) | C32 (c : Z).
(* 64-bit pointer expressions.  The bool is "MatchInstrOneOf succeeds" (single use, same instruction group). *)
Inductive e64 :=
| V64 (r : nat)                          (* not defined by an instruction (block parameter): lives in r *)
| K64 (c : Z) (m : bool)                 (* Iconst64 *)
| UX (x : e32) (m : bool)                (* UExtend 32 -> 64 *)
| SX (x : e32) (m : bool)                (* SExtend 32 -> 64 *)
| XN (sg : bool) (from : Z) (x : e32) (m : bool)  (* UExtend/SExtend from 8 or 16 bits of a 32-bit typed value to 64 *)
| SXW (from : Z) (x : nat) (m : bool)    (* SExtend from 8/16/32 bits of a 64-bit typed register (i64.extendN_s) *)
| SHL (x : e64) (k : Z) (m : bool)       (* Ishl x (Iconst k) *)
| SHV (x y : e64) (m : bool)             (* Ishl x y, amount not a constant *)
| ADD (a b : e64) (m : bool).

Definition regs := nat -> Z.

Definition ev32 (rg : regs) (e : e32) : Z := match e with R32 r => zext32 (rg r) | C32 c => zext32 c end.
(* the SSA meaning *)
Fixpoint ev (rg : regs) (e : e64) : Z :=
  match e with
  | V64 r => w64 (rg r)
  | K64 c _ => w64 c
  | UX x _ => ev32 rg x
  | SX x _ => w64 (sext32 (ev32 rg x))
  | XN sg n x _ => w64 (if sg then sextn n (ev32 rg x) else zextn n (ev32 rg x))
  | SXW n x _ => w64 (sextn n (rg x))
  | SHL x k _ => w64 (ev rg x * 2 ^ (k mod 64))
  | SHV x y _ => w64 (ev rg x * 2 ^ (ev rg y mod 64))
  | ADD a b _ => w64 (ev rg a + ev rg b)
  end.

(* An addend: either a register (with shift) or a constant offset. Registers are described by the
   VALUE they hold, which is what matters for the meaning of the address. *)
Inductive addend := AReg (v : Z) (shift : Z) | AOff (off : Z).

Section Lowering.
Variable fixed : bool.   (* true = with the F01 repair *)
Variable rg : regs.

(* lowerAddendFromInstr. A register operand comes from getOperand_Reg: the virtual register of the value (holding
   its SSA meaning), or a fresh register loaded with the constant when the value is a constant instruction.
   The code does not look at the `from` width of an extend (XN behaves as UX/SX) and uses a 32-bit input register
   as it is, for UExtend and for SExtend alike. *)
Definition lower_addend_from_instr (e : e64) : addend :=
  match e with
  | K64 c _ => AOff (s64 (w64 c))
  | UX (C32 c) _ | XN false _ (C32 c) _ => AOff (if fixed then zext32 c else sext32 c)
  | SX (C32 c) _ | XN true _ (C32 c) _ => AOff (if fixed then sext32 c else zext32 c)
  | UX (R32 r) _ | SX (R32 r) _ | XN _ _ (R32 r) _ => AReg (w64 (rg r)) 0   (* the 32-bit register used as a 64-bit one *)
  | SHL x k _ => if k <=? 3 then AReg (ev rg x) k else AReg (ev rg x) 0  (* amounts above 3: the shift is dropped *)
  | SHV x _ _ => AReg (ev rg x) 0                                         (* variable amount: the shift is dropped *)
  | _ => AOff 0 (* SXW: panics "BUG: invalid input type" (lower_panics); V64, ADD: never passed here *)
  end.

Definition matchable_addend (e : e64) : bool :=
  match e with K64 _ m | UX _ m | SX _ m | XN _ _ _ m | SXW _ _ m | SHL _ _ m | SHV _ _ m => m | V64 _ | ADD _ _ _ => false end.

Definition lower_addend (e : e64) : addend :=
  if matchable_addend e then lower_addend_from_instr e else AReg (ev rg e) 0.

(* x86 addressing mode by the values of its parts: disp32 is SIGN-extended by the CPU. *)
Record amode := { disp : Z (* uint32 *); base : Z; index : Z; shift : Z }.
Definition eval_amode (a : amode) : Z := w64 (base a + index a * 2 ^ shift a + sext32 (disp a)).

Definition as_imm32_nosign (u : Z) : option Z := if (u <? 2147483648) then Some u else None.

(* al: both addends are shifted and sit in the SAME register. Two shifted registers cannot be absorbed: the code
   shifts x's register IN PLACE (shl $sx, x.r — the register stays clobbered for every later use of that value) and
   then reads y's register, which is the clobbered one when al holds. *)
Definition lower_addends_to_amode (x y : addend) (offBase : Z) (al : bool) : amode :=
  let offx := match x with AOff o => o | _ => 0 end in
  let offy := match y with AOff o => o | _ => 0 end in
  let u64 := w64 (w64 (offx + offy) + offBase) in
  (* constant too large for a disp32: materialise in a temp register replacing an invalid side *)
  let '(x, y, u) :=
    if u64 =? 0 then (x, y, 0) else
    match as_imm32_nosign u64 with
    | Some _ => (x, y, u64)
    | None => match x, y with
              | AOff _, _ => (AReg u64 0, y, 0)
              | _, AOff _ => (x, AReg u64 0, 0)
              | _, _ => (x, y, 0) (* panic BUG: unreachable, two registers have offset 0 and offBase < 2^31 *)
              end
    end in
  let u32 := u mod W32 in
  match x, y with
  | AReg vx sx, AReg vy sy =>
      if (negb (sx =? 0)) && (negb (sy =? 0)) then
        {| disp := u32; base := w64 (vx * 2 ^ sx); index := (if al then w64 (vy * 2 ^ sx) else vy); shift := sy |}
      else if (negb (sx =? 0)) then {| disp := u32; base := vy; index := vx; shift := sx |}
      else {| disp := u32; base := vx; index := vy; shift := sy |}
  | AReg vx sx, AOff _ | AOff _, AReg vx sx =>
      if negb (sx =? 0) then {| disp := u32; base := 0; index := vx; shift := sx |}
      else {| disp := u32; base := vx; index := 0; shift := 0 |}
  | AOff _, AOff _ => {| disp := 0; base := u64; index := 0; shift := 0 |}
  end.

(* the register a shifted addend lives in, when it is a block parameter's (other values have registers of their own) *)
Definition shifted_leaf (e : e64) : option nat :=
  match e with SHL (V64 r) k true => if (1 <=? k) && (k <=? 3) then Some r else None | _ => None end.
Definition alias (a b : e64) : bool :=
  match shifted_leaf a, shifted_leaf b with Some r, Some r' => Nat.eqb r r' | _, _ => false end.

Definition lower_to_amode (e : e64) (offBase : Z) : amode :=
  if 2147483648 <=? offBase then
    (* static offset with the top bit set: offset (plus a constant addend) materialised in a register *)
    match lower_addend e with
    | AReg v s => {| disp := 0; base := w64 (0 + offBase); index := v; shift := s |}
    | AOff o => {| disp := 0; base := w64 (o + offBase); index := 0; shift := 0 |}
    end
  else match e with
  | ADD a b true => lower_addends_to_amode (lower_addend a) (lower_addend b) offBase (alias a b)
  | _ => match lower_addend e with
         | AReg v s => if negb (s =? 0) then {| disp := offBase; base := 0; index := v; shift := s |}
                       else {| disp := offBase; base := v; index := 0; shift := 0 |}
         | AOff o => {| disp := 0; base := w64 (o + offBase); index := 0; shift := 0 |}
         end
  end.
End Lowering.

(* Go panics of the real function ("BUG: invalid input type i64": a sign extension of a 64-bit typed value
   matched as an addend) *)
Definition addend_panics (e : e64) : bool := match e with SXW _ _ true => true | _ => false end.
Definition lower_panics (e : e64) (offBase : Z) : bool :=
  if 2147483648 <=? offBase then addend_panics e
  else match e with ADD a b true => addend_panics a || addend_panics b | _ => addend_panics e end.

(* ---- the class on which the lowering is right ----
   Only the nodes that the code pattern-matches are constrained (the pointer itself and, under a single-use Iadd
   and an offset below 2^31, its two operands); everything below them is a value sitting in its register.
   A matched addend must not be: a sign extension of a register, a narrow extension, a sign extension of a 64-bit
   value, a shift by a constant above 3 or by a variable amount (SHV: the amount is not a constant instruction);
   and the two operands must not be shifts of one and the same register. *)
Definition addend_ok (e : e64) : bool :=
  match e with
  | SX (R32 _) true => false
  | XN _ _ _ true => false
  | SXW _ _ true => false
  | SHL _ k true => (0 <=? k) && (k <=? 3)
  | SHV _ _ true => false
  | _ => true
  end.
Definition lowerable (off : Z) (e : e64) : bool :=
  if 2147483648 <=? off then addend_ok e
  else match e with ADD a b true => addend_ok a && addend_ok b && negb (alias a b) | _ => addend_ok e end.
(* a matched zero extension of a register needs the register's upper half to be clear (every 32-bit amd64
   instruction leaves it so) *)
Definition addend_zext (rg : regs) (e : e64) : Prop :=
  match e with UX (R32 r) true => 0 <= rg r < W32 | _ => True end.
Definition zext_ok (rg : regs) (off : Z) (e : e64) : Prop :=
  if 2147483648 <=? off then addend_zext rg e
  else match e with ADD a b true => addend_zext rg a /\ addend_zext rg b | _ => addend_zext rg e end.

(* What the frontend produces for memory and table accesses: no SExtend / narrow / 64-bit-input extension and no
   variable shift anywhere, constant shifts of at most 3 (it scales by 4 and 8 only), never a sum of two shifts
   (only the index of a table access is scaled). *)
Fixpoint frontend_shape (e : e64) : bool :=
  match e with
  | SX _ _ | XN _ _ _ _ | SXW _ _ _ | SHV _ _ _ => false
  | SHL x k _ => (0 <=? k) && (k <=? 3) && frontend_shape x
  | ADD a b _ => frontend_shape a && frontend_shape b && negb (alias a b)
  | _ => true
  end.
Fixpoint zext_all (rg : regs) (e : e64) : Prop :=
  match e with
  | UX (R32 r) _ => 0 <= rg r < W32
  | ADD a b _ => zext_all rg a /\ zext_all rg b
  | _ => True
  end.

(* ---- reading of the real result (correspondence cases) ---- *)
Inductive rsrc := SLeaf (r : nat) | SVal (e : e64) | SConst (c : Z).
Inductive rinstr := IImm (dst c : Z) (is64 : bool) | IZero (dst : Z) | IShl (dst k : Z) | IOther.
Record real := { r_panic : bool; r_kind : Z; r_imm : Z; r_base : Z; r_index : Z; r_shift : Z;
                 r_ins : list rinstr; r_map : list (Z * rsrc) }.

Definition regfile := list (Z * Z).
Fixpoint rf_get (f : regfile) (id : Z) : option Z :=
  match f with [] => None | (i, v) :: r => if i =? id then Some v else rf_get r id end.
Definition rf_init (rg : regs) (m : list (Z * rsrc)) : regfile :=
  map (fun p => (fst p, match snd p with SLeaf r => w64 (rg r) | SVal e => ev rg e | SConst c => w64 c end)) m.
Fixpoint rf_exec (f : regfile) (ins : list rinstr) : option regfile :=
  match ins with
  | [] => Some f
  | IImm d c is64 :: r => rf_exec ((d, if is64 then w64 c else zext32 c) :: f) r
  | IZero d :: r => rf_exec ((d, 0) :: f) r
  | IShl d k :: r => match rf_get f d with Some v => rf_exec ((d, w64 (v * 2 ^ k)) :: f) r | None => None end
  | IOther :: _ => None
  end.
(* the addressing mode the real code built, by the values of its parts under rg; None: it refers to a register
   nobody defined or inserted an instruction this reading does not know *)
Definition real_amode (rg : regs) (r : real) : option amode :=
  match rf_exec (rf_init rg (r_map r)) (r_ins r) with
  | None => None
  | Some f =>
      match rf_get f (r_base r) with
      | None => None
      | Some b =>
          if r_kind r =? 3 then
            match rf_get f (r_index r) with
            | Some i => Some {| disp := r_imm r; base := b; index := i; shift := r_shift r |}
            | None => None
            end
          else if r_kind r =? 1 then Some {| disp := r_imm r; base := b; index := 0; shift := 0 |}
          else None
      end
  end.

Definition amode_eqb (a b : amode) : bool :=
  (disp a =? disp b) && (base a =? base b) && (index a =? index b) && (shift a =? shift b).

Definition addend_zextb (rg : regs) (e : e64) : bool :=
  match e with UX (R32 r) true => (0 <=? rg r) && (rg r <? W32) | _ => true end.
Definition zext_okb (rg : regs) (off : Z) (e : e64) : bool :=
  if 2147483648 <=? off then addend_zextb rg e
  else match e with ADD a b true => addend_zextb rg a && addend_zextb rg b | _ => addend_zextb rg e end.

Record acase := { ac_e : e64; ac_off : Z; ac_vals : list (list Z); ac_real : real }.
Definition rg_of (l : list Z) : regs := fun n => nth n l 0.

(* 0 = agreement. 1: the real code panicked where the model does not (or the reverse); 2: the real addressing mode
   cannot be read; 3: its parts differ from the model's under some valuation; 4: inside the class of the theorem
   the model's address is not value + offset (would contradict C02_amode_correct) *)
Definition check_acase (c : acase) : Z :=
  let e := ac_e c in let off := ac_off c in let r := ac_real c in
  if negb (Bool.eqb (r_panic r) (lower_panics e off)) then 1
  else if r_panic r then 0
  else
    fold_left (fun acc l =>
      if negb (acc =? 0) then acc else
      let rg := rg_of l in
      let m := lower_to_amode true rg e off in
      match real_amode rg r with
      | None => 2
      | Some a =>
          if negb (amode_eqb a m) then 3
          else if lowerable off e && zext_okb rg off e && negb (eval_amode m =? w64 (ev rg e + off)) then 4
          else 0
      end) (ac_vals c) 0.

Fixpoint amismatches (i : Z) (cs : list acase) : list (Z * Z) :=
  match cs with
  | [] => []
  | c :: r => let k := check_acase c in
              (if k =? 0 then [] else [(i, k)]) ++ amismatches (i + 1) r
  end.
