(* C06 — the call-boundary bookkeeping of both engines' call engines (one per api.Function object), as executable
   state machines. Hand transcription of
     internal/engine/wazevo/call_engine.go   callWithStack: the deferred recovery closure and the exit-code dispatch loop
     internal/engine/interpreter/interpreter.go  callEngine.call and recoverOnCall
   The native code / the interpreter loop and the Go callbacks are the ENVIRONMENT: what they do is given by a trace of
   answers, over which the theorems quantify. What is modelled is exactly the state that survives a call and that the
   next call on the same function object starts from:
     compiler:    execCtx.exitCode
     interpreter: len(ce.stack), len(ce.frames)
   No proofs in this file. *)
From Coq Require Import ZArith List Bool.
Import ListNotations.
Open Scope Z_scope.

(* ---------------------------------------------------------------------------------------------- compiler *)
(* exit codes (wazevoapi/exitcode.go); traps carry their kind *)
Inductive ecode :=
| EOK | EGrowStack | EGrowMemory | ETableGrow
| ECallGo (listener : bool) (modfn : bool)        (* the four CallGo[Module]Function[WithListener] codes *)
| EListenerBefore | EListenerAfter
| ECheckExit | ERefFunc | EWait (w64 : bool) | ENotify
| ETrap (kind : Z)                                 (* Unreachable, MemoryOutOfBounds, ... UnalignedAtomic *)
| EBug.                                            (* any other value: panic("BUG") *)

(* error classes returned to the embedder *)
Inductive cerr :=
| CNone
| CTrap (kind : Z)            (* wasmruntime error, wrapped with the stack trace *)
| CStackOverflow              (* returned, not panicked *)
| CPanic (v : Z)              (* a Go value that is not an exit error: wrapped "(recovered by wazero)" *)
| CExit (code : Z)            (* sys.ExitError, never wrapped *)
| CBug                        (* panic("BUG"): an exit code outside the switch *)
| CStuck.                     (* not an outcome of the code: the trace of answers ended or did not fit *)

(* what a Go callback does *)
Inductive goans := GRet | GPanic (v : Z) | GExit (code : Z).

(* the environment's answers, consumed in order:
   ANative ec      : native code was (re-)entered and came back with exit code ec
   AGrow ok        : growStack succeeded / hit the ceiling
   AGo a           : a Go function / listener callback returned or panicked
   AClosed c       : FailIfClosed: None = module open, Some c = closed with exit code c
   AShared b       : mem.Shared of the memory an atomic wait is executed on *)
Inductive answer :=
| ANative (ec : ecode) | AGrow (ok : bool) | AGo (a : goans) | AClosed (c : option Z) | AShared (b : bool).

Record cstate := { exit_code : ecode }.
Definition c_fresh : cstate := {| exit_code := EOK |}.

(* outcome of the body of callWithStack before the deferred closure runs *)
Inductive braw :=
| BReturn (e : cerr)          (* `return nil` / `return err` *)
| BPanic (e : cerr)           (* a panic reached the deferred closure: e = FromRecovered(r), never CNone *)
| BStuck.                     (* the trace ended / did not fit: excluded by the theorems' hypotheses or harmless *)

Definition of_go (a : goans) : option cerr :=
  match a with GRet => None | GPanic v => Some (CPanic v) | GExit c => Some (CExit c) end.

(* the dispatch loop: [ec] is the exit code the native code left; returns the raw outcome and the exit code in
   execCtx at that moment *)
Fixpoint dispatch (fuel : nat) (ec : ecode) (tr : list answer) : braw * ecode * list answer :=
  match fuel with
  | O => (BStuck, ec, tr)
  | S fuel =>
    let reenter tr' :=                                   (* c.execCtx.exitCode = ExitCodeOK; afterGoFunctionCallEntrypoint(...) *)
        match tr' with
        | ANative ec' :: tr'' => dispatch fuel ec' tr''
        | _ => (BStuck, EOK, tr')
        end in
    let callback tr' k :=                                (* a Go callback that may panic *)
        match tr' with
        | AGo a :: tr'' => match of_go a with Some e => (BPanic e, ec, tr'') | None => k tr'' end
        | _ => (BStuck, ec, tr')
        end in
    match ec with
    | EOK => (BReturn CNone, ec, tr)
    | EGrowStack =>
        match tr with
        | AGrow true :: tr' => reenter tr'
        | AGrow false :: tr' => (BReturn CStackOverflow, ec, tr')
        | _ => (BStuck, ec, tr)
        end
    | EGrowMemory | ETableGrow | ERefFunc | ENotify => reenter tr
    | ECallGo false _ => callback tr reenter
    | ECallGo true _ => callback tr (fun t1 => callback t1 (fun t2 => callback t2 reenter))   (* Before, the function, After *)
    | EListenerBefore | EListenerAfter => callback tr reenter
    | ECheckExit =>
        match tr with
        | AClosed None :: tr' => reenter tr'
        | AClosed (Some c) :: tr' => (BPanic (CExit c), ec, tr')
        | _ => (BStuck, ec, tr)
        end
    | EWait _ =>
        match tr with
        | AShared true :: tr' => reenter tr'
        | AShared false :: tr' => (BPanic (CTrap 100), ec, tr')       (* ErrRuntimeExpectedSharedMemory *)
        | _ => (BStuck, ec, tr)
        end
    | ETrap k => (BPanic (CTrap k), ec, tr)
    | EBug => (BPanic CBug, ec, tr)
    end
  end.

(* the deferred closure: computes the error returned to the caller and the exit code left in execCtx *)
Definition deferred (raw : braw) (ec : ecode) (tr : list answer) : cerr * ecode * list answer :=
  let finish (e : cerr) tr' :=
      match e with
      | CNone => (e, ec, tr')                            (* err == nil: the exit code is left as it is *)
      | _ => (e, EOK, tr')                               (* "Ensures that we can reuse this callEngine even after an error." *)
      end in
  match raw with
  | BPanic e => finish e tr                              (* r != nil: err = builder.FromRecovered(r) *)
  | BReturn CStackOverflow => finish CStackOverflow tr   (* not replaced by FailIfClosed *)
  | BReturn _ =>                                         (* r == nil: err = FailIfClosed() *)
      match tr with
      | AClosed None :: tr' => finish CNone tr'
      | AClosed (Some c) :: tr' => finish (CExit c) tr'
      | _ => finish CNone tr
      end
  | BStuck => (CStuck, ec, tr)
  end.

(* one Call on a function object whose call engine is in state st (ensureTermination off) *)
Definition c_call (fuel : nat) (st : cstate) (tr : list answer) : cstate * cerr * list answer :=
  match tr with
  | ANative ec :: tr' =>                                 (* entrypoint(...): native code runs and leaves ec *)
      (* native code writes execCtx.exitCode only when it LEAVES with a code other than OK; when it runs to completion
         without leaving, the field keeps what the previous call left there *)
      let ec0 := match ec with EOK => exit_code st | _ => ec end in
      let '(raw, ec1, tr1) := dispatch fuel ec0 tr' in
      let '(e, ec2, tr2) := deferred raw ec1 tr1 in
      ({| exit_code := ec2 |}, e, tr2)
  | _ => (st, CStuck, tr)
  end.

(* a history of calls on ONE function object *)
Fixpoint c_history (fuel : nat) (st : cstate) (trs : list (list answer)) : cstate * list cerr :=
  match trs with
  | [] => (st, [])
  | tr :: rest =>
      let '(st1, e, _) := c_call fuel st tr in
      let '(st2, es) := c_history fuel st1 rest in (st2, e :: es)
  end.

(* the seeded shape (C06b): an early `return` for exit errors that skips the reset *)
Definition deferred_skipping_reset_for_exit (raw : braw) (ec : ecode) (tr : list answer) : cerr * ecode * list answer :=
  match raw with
  | BPanic (CExit c) => (CExit c, ec, tr)
  | _ => deferred raw ec tr
  end.
Definition c_call_bad (fuel : nat) (st : cstate) (tr : list answer) : cstate * cerr * list answer :=
  match tr with
  | ANative ec :: tr' =>
      let ec0 := match ec with EOK => exit_code st | _ => ec end in
      let '(raw, ec1, tr1) := dispatch fuel ec0 tr' in
      let '(e, ec2, tr2) := deferred_skipping_reset_for_exit raw ec1 tr1 in
      ({| exit_code := ec2 |}, e, tr2)
  | _ => (st, CStuck, tr)
  end.

(* ---------------------------------------------------------------------------------------------- interpreter *)
(* callEngine.call: pushValues(params); callFunction; popValues(results) — or a panic at some depth, recovered by
   recoverOnCall which pops every frame and truncates both slices *)
Record istate := { i_stack : Z; i_frames : Z }.
Definition i_fresh : istate := {| i_stack := 0; i_frames := 0 |}.

Inductive ians :=
| IDone                                   (* callFunction ran to completion: frames popped, results on the stack *)
| IPanic (stack frames : Z) (e : cerr).   (* a panic with that many values / frames live *)

Definition i_call (nparams nresults : Z) (st : istate) (a : ians) (closed : option Z) : istate * cerr :=
  let pushed := {| i_stack := i_stack st + nparams; i_frames := i_frames st |} in
  match a with
  | IDone =>
      (* stack = old + results; popValues(results) *)
      let st' := {| i_stack := i_stack pushed - nparams; i_frames := i_frames pushed |} in
      (st', match closed with Some c => CExit c | None => CNone end)
  | IPanic _ _ e =>
      (* recoverOnCall: popFrame x len(frames); ce.stack, ce.frames = ce.stack[:0], ce.frames[:0] *)
      ({| i_stack := 0; i_frames := 0 |}, e)
  end.

Fixpoint i_history (st : istate) (cs : list (Z * Z * ians * option Z)) : istate * list cerr :=
  match cs with
  | [] => (st, [])
  | (np, nr, a, cl) :: rest =>
      let '(st1, e) := i_call np nr st a cl in
      let '(st2, es) := i_history st1 rest in (st2, e :: es)
  end.

(* ---------------------------------------------------------------------------------------------- correspondence *)
(* canonical traces for the outcome classes the C06 harness observes on a call (code as in checks/wcommon.py:
   0 values, 1..5 traps (5 = stack exhaustion), 6 host panic, 7+100n exit n) *)
Definition canon (cls : Z) : list answer :=
  if cls =? 0 then [ANative EOK; AClosed None]
  else if cls =? 5 then [ANative EGrowStack; AGrow false]
  else if cls =? 6 then [ANative (ECallGo false true); AGo (GPanic 0)]
  else if 7 <=? cls then [ANative (ECallGo false true); AGo (GExit ((cls - 7) / 100))]
  else [ANative (ETrap cls)].

Definition cls_of (e : cerr) : Z :=
  match e with
  | CNone => 0 | CTrap k => k | CStackOverflow => 5 | CPanic _ => 6 | CExit c => 7 + 100 * c | CBug => -1 | CStuck => -2
  end.

Definition code_num (ec : ecode) : Z := match ec with EOK => 0 | _ => 1 end.

(* case: the outcome classes of a history of calls on one function object and the exit code observed in execCtx after
   each call (0 = ExitCodeOK); result: index of the first call after which model and observation differ, or -1 *)
Fixpoint check_ce (i : Z) (st : cstate) (obs : list (Z * Z)) : Z :=
  match obs with
  | [] => -1
  | (cls, seen) :: rest =>
      let '(st1, e, _) := c_call 64 st (canon cls) in
      if negb (cls_of e =? cls) then 1000 + i
      else if negb (code_num (exit_code st1) =? seen) then i
      else check_ce (i + 1) st1 rest
  end.

Fixpoint ce_mismatches (i : Z) (cs : list (list (Z * Z))) : list (Z * Z) :=
  match cs with
  | [] => []
  | c :: r => let d := check_ce 0 c_fresh c in
              if d =? -1 then ce_mismatches (i + 1) r else (i, d) :: ce_mismatches (i + 1) r
  end.

(* interpreter: (stack, frames) observed after each call must be the model's (0, 0) *)
Fixpoint check_ie (i : Z) (obs : list (Z * Z)) : Z :=
  match obs with
  | [] => -1
  | (s, f) :: rest => if (s =? 0) && (f =? 0) then check_ie (i + 1) rest else i
  end.
Fixpoint ie_mismatches (i : Z) (cs : list (list (Z * Z))) : list (Z * Z) :=
  match cs with
  | [] => []
  | c :: r => let d := check_ie 0 c in
              if d =? -1 then ie_mismatches (i + 1) r else (i, d) :: ie_mismatches (i + 1) r
  end.
