(* C02: the BYTES of an amd64 memory operand.
   Part 1 transcribes wazero's encoder (internal/engine/wazevo/backend/isa/amd64/instr_encoding.go: encodeEncMem,
   encodeEncEnc, encodeModRM, encodeSIB, rexInfo.encode / encodeForIndex, legacyPrefixes.encode,
   lower8willSignExtendTo32; operands.go: the four amode kinds; machine.go: the rip-relative label fix-up of Encode).
   Part 2 is a DECODER of the x86-64 instruction format written from the Intel SDM (Vol. 2, ch. 2: Figure 2-1
   instruction format, 2.1.1 prefixes, 2.2.1 REX, Table 2-2 ModR/M in 32/64-bit addressing, Table 2-3 SIB, 2.2.1.6
   RIP-relative addressing) for instructions of the shape  [legacy prefixes] [REX] opcode(1-3 bytes) ModRM [SIB] [disp]:
   it finds the field boundaries by itself (prefix bytes, REX range, the 0F / 0F 38 / 0F 3A escapes, rm=100 -> SIB,
   the displacement size from mod/rm/SIB.base) and then gives the fields their meaning. It is NOT derived from the
   encoder: it also reads forms the encoder never emits (absolute disp32, no-index, no-base).
   Part 3 is the evaluation of correspondence cases (checks/c02_enc.py).
   No proofs here (Proofs/X86EncP.v). Registers are x86 register numbers 0..15 (rax rcx rdx rbx rsp rbp rsi rdi r8..r15);
   that regEncodings maps wazero's RealReg to them is checked by the correspondence run. *)
From Coq Require Import ZArith Bool List.
From Verif Require Import Engine.Amode.
Import ListNotations.
Open Scope Z_scope.

Definition byte := Z.

(* ================================ 1. the encoder ================================ *)
(* Go byte arithmetic *)
Definition b8 (z : Z) : Z := z mod 256.                      (* byte(z) *)
Definition shl8 (x k : Z) : Z := (x * 2 ^ k) mod 256.        (* x << k, x a byte *)

Definition reg_rex_bit (r : Z) : Z := Z.shiftr r 3.          (* regRexBit: r >> 3 *)
Definition reg_encoding (r : Z) : Z := Z.land r 7.           (* regEncoding: r & 0x07 *)

Definition encode_modrm (md reg rm : Z) : byte := Z.lor (Z.lor (shl8 md 6) (shl8 reg 3)) rm.
Definition encode_sib (sh encIndex encBase : Z) : byte := Z.lor (Z.lor (shl8 sh 6) (shl8 encIndex 3)) encBase.

(* rexInfo: bit 0 = W, bit 1 = "emit REX even when it is 0x40" *)
Definition rex_encode (ri r b : Z) : list byte :=
  let w := if Z.testbit ri 0 then 1 else 0 in
  let rex := Z.lor (Z.lor (Z.lor 64 (shl8 w 3)) (shl8 r 2)) b in
  if negb (rex =? 64) || Z.testbit ri 1 then [rex] else [].
Definition rex_encode_for_index (ri encR encIndex encBase : Z) : list byte :=
  let w := if Z.testbit ri 0 then 1 else 0 in
  let r := reg_rex_bit encR in let x := reg_rex_bit encIndex in let b := reg_rex_bit encBase in
  let rex := Z.lor (Z.lor (Z.lor (Z.lor 64 (shl8 w 3)) (shl8 r 2)) (shl8 x 1)) b in
  if negb (rex =? 64) || Z.testbit ri 1 then [rex] else [].

(* legacyPrefixes.encode; None = panic "BUG: invalid legacy prefix" *)
Definition prefix_bytes (p : Z) : option (list byte) :=
  if p =? 0 then Some [] else if p =? 1 then Some [102] else if p =? 2 then Some [240]
  else if p =? 3 then Some [102; 240] else if p =? 4 then Some [242] else if p =? 5 then Some [243] else None.

(* for opcodeNum > 0 { opcodeNum--; EmitByte(byte((opcodes >> (opcodeNum << 3)) & 0xff)) } *)
Fixpoint opcode_bytes (opcodes : Z) (n : nat) : list byte :=
  match n with O => [] | S k => Z.land (Z.shiftr opcodes (8 * Z.of_nat k)) 255 :: opcode_bytes opcodes k end.

(* Emit4Bytes: little endian *)
Definition le32 (v : Z) : list byte := [b8 v; b8 (Z.shiftr v 8); b8 (Z.shiftr v 16); b8 (Z.shiftr v 24)].

(* xs := int32(x); xs == ((xs << 24) >> 24) *)
Definition lower8_will_sign_extend_to32 (x : Z) : bool :=
  let xs := sext32 x in xs =? Z.shiftr (sext32 (Z.shiftl xs 24)) 24.

(* the addressing modes of operands.go after register allocation: imm32 is the uint32 field, registers are numbers *)
Inductive xamode :=
| XImmReg (imm bs : Z)                 (* amodeImmReg:   sext(imm32) + base *)
| XImmRBP (imm : Z)                    (* amodeImmRBP:   sext(imm32) + rbp *)
| XRegRegShift (imm bs ix sh : Z)      (* amodeRegRegShift: sext(imm32) + base + (index << shift) *)
| XRipRel (label : Z).                 (* amodeRipRel:   the label's position, fixed up after encoding *)

Definition mod_no_disp := 0.
Definition mod_short_disp := 1.
Definition mod_long_disp := 2.
Definition use_sib := 4.

(* case amodeImmReg, amodeImmRBP *)
Definition enc_imm_reg (ri : Z) (ops : list byte) (r imm bs : Z) : list byte :=
  let rex := rex_encode ri (reg_rex_bit r) (reg_rex_bit bs) in
  let sibByte := 36 in
  let immZero := imm =? 0 in let baseRbp := bs =? 5 in let baseR13 := bs =? 13 in
  let short := lower8_will_sign_extend_to32 imm in
  let rspOrR12 := (bs =? 4) || (bs =? 12) in
  rex ++ ops ++
  (if immZero && negb baseRbp && negb baseR13 then
     [encode_modrm mod_no_disp (reg_encoding r) (reg_encoding bs)] ++ (if rspOrR12 then [sibByte] else [])
   else if short then
     [encode_modrm mod_short_disp (reg_encoding r) (reg_encoding bs)] ++ (if rspOrR12 then [sibByte] else []) ++ [b8 imm]
   else
     [encode_modrm mod_long_disp (reg_encoding r) (reg_encoding bs)] ++ (if rspOrR12 then [sibByte] else []) ++ le32 imm).

(* case amodeRegRegShift (after the rsp-index panic) *)
Definition enc_reg_reg_shift (ri : Z) (ops : list byte) (r imm bs ix sh : Z) : list byte :=
  let rex := rex_encode_for_index ri r ix bs in
  let immZero := imm =? 0 in let baseRbp := bs =? 5 in let baseR13 := bs =? 13 in
  rex ++ ops ++
  (if immZero && negb baseRbp && negb baseR13 then
     [encode_modrm mod_no_disp (reg_encoding r) use_sib; encode_sib sh (reg_encoding ix) (reg_encoding bs)]
   else if lower8_will_sign_extend_to32 imm then
     [encode_modrm mod_short_disp (reg_encoding r) use_sib; encode_sib sh (reg_encoding ix) (reg_encoding bs); b8 imm]
   else
     [encode_modrm mod_long_disp (reg_encoding r) use_sib; encode_sib sh (reg_encoding ix) (reg_encoding bs)] ++ le32 imm).

(* case amodeRipRel: placeholder displacement 0, to be resolved later *)
Definition enc_rip_rel (ri : Z) (ops : list byte) (r : Z) : list byte :=
  rex_encode ri (reg_rex_bit r) 0 ++ ops ++ [encode_modrm 0 (reg_encoding r) 5] ++ le32 0.

(* encodeEncMem (= encodeRegMem). None: the Go function panics. *)
Definition encode_mem (ri p opcodes : Z) (opcodeNum : nat) (r : Z) (a : xamode) : option (list byte) :=
  match prefix_bytes p with
  | None => None
  | Some pb =>
      let ops := opcode_bytes opcodes opcodeNum in
      match a with
      | XImmReg imm bs => Some (pb ++ enc_imm_reg ri ops r imm bs)
      | XImmRBP imm => Some (pb ++ enc_imm_reg ri ops r imm 5)
      | XRegRegShift imm bs ix sh =>
          if ix =? 4 then None (* "BUG: rsp can't be used as index of addressing mode" *)
          else Some (pb ++ enc_reg_reg_shift ri ops r imm bs ix sh)
      | XRipRel _ => Some (pb ++ enc_rip_rel ri ops r)
      end
  end.

(* encodeEncEnc (= encodeRegReg) *)
Definition encode_rr (ri p opcodes : Z) (opcodeNum : nat) (r rm : Z) : option (list byte) :=
  match prefix_bytes p with
  | None => None
  | Some pb => Some (pb ++ rex_encode ri (Z.shiftr r 3) (Z.shiftr rm 3) ++ opcode_bytes opcodes opcodeNum
                        ++ [encode_modrm 3 (Z.land r 7) (Z.land rm 7)])
  end.

(* machine.Encode's fix-up of a rip-relative operand: the instruction ends at offset `iend` of the buffer, its last
   four bytes are overwritten with uint32(int32(target - (imm32Offset + 4))), imm32Offset = iend - 4 *)
Fixpoint put_bytes (buf : list byte) (at_ : nat) (bs : list byte) : list byte :=
  match at_, buf with
  | O, _ => bs ++ skipn (length bs) buf
  | S k, b :: r => b :: put_bytes r k bs
  | S _, [] => []
  end.
Definition fixup_rip (buf : list byte) (iend target : Z) : list byte :=
  let imm32Offset := iend - 4 in
  let jmpOffset := target - (imm32Offset + 4) in
  put_bytes buf (Z.to_nat imm32Offset) (le32 (jmpOffset mod W32)).

(* ================================ 2. the decoder (Intel SDM) ================================ *)
Inductive mem_operand :=
| MAddr (bs : option Z) (ix : option (Z * Z)) (d : Z)   (* [base] + [index * 2^scale] + sign-extended displacement *)
| MRip (d : Z).                                          (* address of the next instruction + sign-extended disp32 *)
Inductive rm_operand := OReg (n : Z) | OMem (m : mem_operand).

(* 2.1.1: group 1 (F0 lock, F2 repne, F3 rep) and the operand-size override 66 are accepted; segment overrides and the
   address-size override 67 change the meaning of the memory operand and are outside the shape decoded here *)
Definition is_legacy_prefix (b : byte) : bool := (b =? 102) || (b =? 240) || (b =? 242) || (b =? 243).
Definition is_other_prefix (b : byte) : bool :=
  (b =? 38) || (b =? 46) || (b =? 54) || (b =? 62) || (b =? 100) || (b =? 101) || (b =? 103).
(* 2.2.1: in 64-bit mode the bytes 40..4F are REX prefixes, not opcodes *)
Definition is_rex (b : byte) : bool := (64 <=? b) && (b <=? 79).
(* C4 / C5 (VEX) and 62 (EVEX) start another instruction format in 64-bit mode *)
Definition is_vex (b : byte) : bool := (b =? 196) || (b =? 197) || (b =? 98).

Fixpoint take_prefixes (l : list byte) : list byte * list byte :=
  match l with
  | b :: r => if is_legacy_prefix b then let p := take_prefixes r in (b :: fst p, snd p) else ([], l)
  | [] => ([], [])
  end.
Definition take_rex (l : list byte) : option byte * list byte :=
  match l with b :: r => if is_rex b then (Some b, r) else (None, l) | [] => (None, l) end.
(* 2.1.2: one-byte opcode, or escape 0F + one byte, or 0F 38 / 0F 3A + one byte. REX must be the last prefix. *)
Definition take_opcode (l : list byte) : option (list byte * list byte) :=
  match l with
  | [] => None
  | b0 :: r0 =>
      if is_legacy_prefix b0 || is_other_prefix b0 || is_rex b0 || is_vex b0 then None
      else if b0 =? 15 then
        match r0 with
        | [] => None
        | b1 :: r1 =>
            if (b1 =? 56) || (b1 =? 58) then match r1 with [] => None | b2 :: r2 => Some ([b0; b1; b2], r2) end
            else Some ([b0; b1], r1)
        end
      else Some ([b0], r0)
  end.

Definition modrm_mod (m : byte) : Z := m / 64.
Definition modrm_reg (m : byte) : Z := (m / 8) mod 8.
Definition modrm_rm (m : byte) : Z := m mod 8.
Definition sib_scale (s : byte) : Z := s / 64.
Definition sib_index (s : byte) : Z := (s / 8) mod 8.
Definition sib_base (s : byte) : Z := s mod 8.

(* Table 2-2: r/m = 100 with mod <> 11 means "a SIB byte follows" (whatever REX.B is) *)
Definition needs_sib (m : byte) : bool := negb (modrm_mod m =? 3) && (modrm_rm m =? 4).
(* Table 2-2 / 2-3: mod = 01 disp8; mod = 10 disp32; mod = 00: disp32 when r/m = 101 (RIP-relative) or when the SIB
   base is 101 (no base register) — both whatever REX.B is *)
Definition disp_size (m : byte) (sib : option byte) : nat :=
  let md := modrm_mod m in
  if md =? 1 then 1%nat else if md =? 2 then 4%nat else if md =? 3 then 0%nat
  else if modrm_rm m =? 5 then 4%nat
  else match sib with Some s => if sib_base s =? 5 then 4%nat else 0%nat | None => 0%nat end.

Fixpoint take_n (n : nat) (l : list byte) : option (list byte) :=
  match n with
  | O => Some []
  | S k => match l with [] => None | b :: r => match take_n k r with Some t => Some (b :: t) | None => None end end
  end.

(* the fields of one instruction (Figure 2-1) *)
Record raw := { rw_prefixes : list byte; rw_rex : option byte; rw_opcode : list byte; rw_modrm : byte;
                rw_sib : option byte; rw_disp : list byte }.
Definition opt_len {A} (o : option A) : nat := match o with Some _ => 1%nat | None => 0%nat end.
Definition raw_len (r : raw) : nat :=
  (length (rw_prefixes r) + opt_len (rw_rex r) + length (rw_opcode r) + 1 + opt_len (rw_sib r) + length (rw_disp r))%nat.

Definition take_sib (m : byte) (l : list byte) : option (option byte * list byte) :=
  if needs_sib m then match l with [] => None | s :: r => Some (Some s, r) end else Some (None, l).

Definition parse (l : list byte) : option raw :=
  let pl := take_prefixes l in
  let rl := take_rex (snd pl) in
  match take_opcode (snd rl) with
  | None => None
  | Some (opc, l3) =>
      match l3 with
      | [] => None
      | m :: l4 =>
          match take_sib m l4 with
          | None => None
          | Some (sib, l6) =>
              match take_n (disp_size m sib) l6 with
              | None => None
              | Some db =>
                  let r := {| rw_prefixes := fst pl; rw_rex := fst rl; rw_opcode := opc; rw_modrm := m; rw_sib := sib; rw_disp := db |} in
                  if (raw_len r <=? 15)%nat then Some r else None   (* an instruction is at most 15 bytes long *)
              end
          end
      end
  end.

Fixpoint le_num (l : list byte) : Z := match l with [] => 0 | b :: r => b + 256 * le_num r end.
(* displacements are sign-extended to 64 bits *)
Definition disp_val (db : list byte) : Z :=
  match db with [] => 0 | _ => sextn (8 * Z.of_nat (length db)) (le_num db) end.
Definition bit (b : byte) (k : Z) : Z := if Z.testbit b k then 1 else 0.

Record decoded := { d_prefixes : list byte; d_w : bool; d_opcode : list byte; d_reg : Z; d_rm : rm_operand; d_len : nat }.

(* the meaning of the fields: REX.R extends ModRM.reg, REX.X SIB.index, REX.B ModRM.rm or SIB.base (2.2.1.2);
   SIB.index = 100 with REX.X = 0 means no index (r12 CAN be an index, rsp cannot); SIB.base = 101 with mod = 00 means
   no base; mod = 00 with r/m = 101 is RIP-relative in 64-bit mode (2.2.1.6) *)
Definition interp (r : raw) : decoded :=
  let rex := match rw_rex r with Some b => b | None => 64 end in
  let R := bit rex 2 in let X := bit rex 1 in let B := bit rex 0 in
  let m := rw_modrm r in
  let md := modrm_mod m in let rm := modrm_rm m in
  let d := disp_val (rw_disp r) in
  {| d_prefixes := rw_prefixes r; d_w := Z.testbit rex 3; d_opcode := rw_opcode r;
     d_reg := R * 8 + modrm_reg m;
     d_rm :=
       if md =? 3 then OReg (B * 8 + rm)
       else match rw_sib r with
            | Some s =>
                let ix := if (sib_index s =? 4) && (X =? 0) then None else Some (X * 8 + sib_index s, sib_scale s) in
                let bs := if (sib_base s =? 5) && (md =? 0) then None else Some (B * 8 + sib_base s) in
                OMem (MAddr bs ix d)
            | None => if (md =? 0) && (rm =? 5) then OMem (MRip d) else OMem (MAddr (Some (B * 8 + rm)) None d)
            end;
     d_len := raw_len r |}.

Definition decode (l : list byte) : option decoded :=
  match parse l with Some r => Some (interp r) | None => None end.

(* effective address modulo 2^64; rip = address of the next instruction *)
Definition ea_of_decoded (regs : Z -> Z) (rip : Z) (m : mem_operand) : Z :=
  match m with
  | MAddr bs ix d =>
      w64 ((match bs with Some r => regs r | None => 0 end) + (match ix with Some (r, s) => regs r * 2 ^ s | None => 0 end) + d)
  | MRip d => w64 (rip + d)
  end.

(* ---- what the encoder is asked to encode ---- *)
Definition mem_of (a : xamode) : mem_operand :=
  match a with
  | XImmReg imm bs => MAddr (Some bs) None (sext32 imm)
  | XImmRBP imm => MAddr (Some 5) None (sext32 imm)
  | XRegRegShift imm bs ix sh => MAddr (Some bs) (Some (ix, sh)) (sext32 imm)
  | XRipRel _ => MRip 0
  end.

(* the addressing mode by the VALUES of its parts (Engine/Amode.v's amode) under a register file *)
Definition amode_vals (regs : Z -> Z) (a : xamode) : option amode :=
  match a with
  | XImmReg imm bs => Some {| disp := imm; base := regs bs; index := 0; shift := 0 |}
  | XImmRBP imm => Some {| disp := imm; base := regs 5; index := 0; shift := 0 |}
  | XRegRegShift imm bs ix sh => Some {| disp := imm; base := regs bs; index := regs ix; shift := sh |}
  | XRipRel _ => None
  end.

Definition xa_imm (a : xamode) : Z :=
  match a with XImmReg i _ | XImmRBP i | XRegRegShift i _ _ _ => i | XRipRel _ => 0 end.
Definition xa_base (a : xamode) : Z :=
  match a with XImmReg _ b | XRegRegShift _ b _ _ => b | XImmRBP _ => 5 | XRipRel _ => 0 end.
Definition xa_is_rip (a : xamode) : bool := match a with XRipRel _ => true | _ => false end.

Definition is_reg (r : Z) : Prop := 0 <= r < 16.
Definition xamode_wf (a : xamode) : Prop :=
  match a with
  | XImmReg imm bs => 0 <= imm < W32 /\ is_reg bs
  | XImmRBP imm => 0 <= imm < W32
  | XRegRegShift imm bs ix sh => 0 <= imm < W32 /\ is_reg bs /\ is_reg ix /\ 0 <= sh <= 3
  | XRipRel _ => True
  end.
(* the encoder's own precondition *)
Definition index_not_rsp (a : xamode) : Prop := match a with XRegRegShift _ _ ix _ => ix <> 4 | _ => True end.

(* opcodes the decoder can delimit: exactly the opcode-map structure of take_opcode *)
Definition opcode_wf (ops : list byte) : bool :=
  match take_opcode ops with Some (o, []) => true | _ => false end.

(* ================================ 3. correspondence cases ================================ *)
Fixpoint bytes_eqb (a b : list Z) : bool :=
  match a, b with [] , [] => true | x :: r, y :: s => (x =? y) && bytes_eqb r s | _, _ => false end.
Definition optz_eqb (a b : option Z) : bool :=
  match a, b with None, None => true | Some x, Some y => x =? y | _, _ => false end.
Definition mem_eqb (a b : mem_operand) : bool :=
  match a, b with
  | MAddr b1 i1 d1, MAddr b2 i2 d2 =>
      optz_eqb b1 b2 && (d1 =? d2) &&
      match i1, i2 with None, None => true | Some (r1, s1), Some (r2, s2) => (r1 =? r2) && (s1 =? s2) | _, _ => false end
  | MRip d1, MRip d2 => d1 =? d2
  | _, _ => false
  end.
Definition rm_eqb (a b : rm_operand) : bool :=
  match a, b with OReg x, OReg y => x =? y | OMem x, OMem y => mem_eqb x y | _, _ => false end.
Definition decoded_eqb (a b : decoded) : bool :=
  bytes_eqb (d_prefixes a) (d_prefixes b) && Bool.eqb (d_w a) (d_w b) && bytes_eqb (d_opcode a) (d_opcode b) &&
  (d_reg a =? d_reg b) && rm_eqb (d_rm a) (d_rm b) && Nat.eqb (d_len a) (d_len b).

(* one call of the real encodeEncMem (xc_rr = None) or encodeEncEnc (xc_rr = Some rm); xc_rest: bytes put after it *)
Record xcase := { xc_ri : Z; xc_p : Z; xc_opcodes : Z; xc_n : nat; xc_r : Z; xc_a : xamode; xc_rr : option Z;
                  xc_panic : bool; xc_bytes : list byte; xc_rest : list byte }.

(* 0 = agreement; 1: one side panics; 2: the real bytes, read by the decoder, do NOT denote the operand / reg / W /
   prefixes / opcode that went in, or a different number of bytes; 3: they do, but differ from the model's bytes *)
Definition check_xcase (c : xcase) : Z :=
  let model := match xc_rr c with
               | None => encode_mem (xc_ri c) (xc_p c) (xc_opcodes c) (xc_n c) (xc_r c) (xc_a c)
               | Some rm => encode_rr (xc_ri c) (xc_p c) (xc_opcodes c) (xc_n c) (xc_r c) rm
               end in
  match model with
  | None => if xc_panic c then 0 else 1
  | Some bs =>
      if xc_panic c then 1 else
      let want := {| d_prefixes := match prefix_bytes (xc_p c) with Some pb => pb | None => [] end;
                     d_w := Z.testbit (xc_ri c) 0; d_opcode := opcode_bytes (xc_opcodes c) (xc_n c); d_reg := xc_r c;
                     d_rm := match xc_rr c with None => OMem (mem_of (xc_a c)) | Some rm => OReg rm end;
                     d_len := length (xc_bytes c) |} in
      match decode (xc_bytes c ++ xc_rest c) with
      | Some d => if negb (decoded_eqb d want) then 2 else if negb (bytes_eqb bs (xc_bytes c)) then 3 else 0
      | None => 2
      end
  end.

Fixpoint xmismatches (i : Z) (cs : list xcase) : list (Z * Z) :=
  match cs with
  | [] => []
  | c :: r => let k := check_xcase c in (if k =? 0 then [] else [(i, k)]) ++ xmismatches (i + 1) r
  end.

(* a whole buffer produced by the real machine.Encode from a list of instructions (loads, stores, rip-relative
   loads, labels): it must disassemble, instruction after instruction, into the list that went in; a rip-relative
   operand must point at its label: offset of the next instruction + displacement = offset of the label *)
Record sitem := { si_prefixes : list byte; si_w : bool; si_opcode : list byte; si_reg : Z;
                  si_rm : rm_operand; si_target : option Z (* Some t: rip-relative, label at offset t *) }.
Fixpoint check_seq (fuel : nat) (buf : list byte) (off : Z) (items : list sitem) : Z :=
  match items with
  | [] => match buf with [] => 0 | _ => 5 end           (* 5: bytes left over *)
  | it :: rest =>
      match fuel with
      | O => 6
      | S f =>
          match decode buf with
          | None => 2
          | Some d =>
              let next := off + Z.of_nat (d_len d) in
              let rm_ok := match si_target it, d_rm d with
                           | Some t, OMem (MRip dd) => next + dd =? t
                           | Some _, _ => false
                           | None, x => rm_eqb x (si_rm it)
                           end in
              if bytes_eqb (d_prefixes d) (si_prefixes it) && Bool.eqb (d_w d) (si_w it) && bytes_eqb (d_opcode d) (si_opcode it)
                 && (d_reg d =? si_reg it) && rm_ok
              then check_seq f (skipn (d_len d) buf) next rest
              else 2
          end
      end
  end.
Record scase := { sc_buf : list byte; sc_items : list sitem }.
Fixpoint smismatches (i : Z) (cs : list scase) : list (Z * Z) :=
  match cs with
  | [] => []
  | c :: r => let k := check_seq (length (sc_items c)) (sc_buf c) 0 (sc_items c) in
              (if k =? 0 then [] else [(i, k)]) ++ smismatches (i + 1) r
  end.
