(* C01, SSA stream: the CFG-level passes of the optimizing compiler (internal/engine/wazevo/ssa/pass.go,
   pass_cfg.go, pass_blk_layouts.go) under TRANSLATION VALIDATION.

   This file holds (1) the specification vocabulary over finite graphs given as adjacency lists with entry node 0:
   paths, reachability, dominance, immediate dominators -- all by the path-based DEFINITIONS; (2) executable
   checkers that accept or reject what the real passes computed for one function (dead-block flags, reverse post
   order, immediate dominators, loop headers, loop nesting forest, lowest common ancestors, block layout with
   critical-edge trampolines, inverted branches and fallthrough marks); (3) the raw case format written by
   checks/c01_ssa.py and its decoding.  No proofs here: coq/Proofs/SsaCfgP.v proves every checker sound for ALL
   graphs (if it accepts, the path-based statement holds); Properties/C01.v states the theorems.

   The checkers never trust their own graph traversal: `explore` is run with fuel, and its result is then CHECKED
   (every listed node has a listed discoverer; the list is closed under successors). A traversal that runs out of
   fuel fails the closure check, so the soundness theorems have no fuel hypothesis. *)
From Coq Require Import List Arith Bool PeanoNat.
Import ListNotations.

(* ------------------------------------------------------------------------------------------------------------ *)
(* graphs, paths, dominance *)

Definition graph := list (list nat).
Definition succs (g : graph) (u : nat) : list nat := nth u g [].
Definition entry : nat := 0.
Definition edge (g : graph) (u v : nat) : Prop := In v (succs g u).

(* path g v l : l lists (last visited first) the nodes of a walk from the entry to v *)
Inductive path (g : graph) : nat -> list nat -> Prop :=
| path_entry : path g entry [entry]
| path_step : forall u v l, path g u l -> edge g u v -> path g v (v :: l).

Definition reachable (g : graph) (v : nat) : Prop := exists l, path g v l.
(* d dominates v: every walk from the entry to v passes through d *)
Definition dominates (g : graph) (d v : nat) : Prop := forall l, path g v l -> In d l.
Definition sdom (g : graph) (d v : nat) : Prop := dominates g d v /\ d <> v.
(* d is THE immediate dominator of v: a strict dominator that every other strict dominator dominates *)
Definition is_idom (g : graph) (d v : nat) : Prop := sdom g d v /\ forall d', sdom g d' v -> dominates g d' d.

(* h is the nearest loop header strictly dominating b (hdr: the loop-header flags) *)
Definition nearest_hdr (g : graph) (hdr : list bool) (h b : nat) : Prop :=
  sdom g h b /\ nth h hdr false = true /\
  forall h', sdom g h' b -> nth h' hdr false = true -> dominates g h' h.

(* v is reachable from the entry without entering d *)
Inductive reach_av (g : graph) (d : nat) : nat -> Prop :=
| ra_entry : entry <> d -> reach_av g d entry
| ra_step : forall u v, reach_av g d u -> edge g u v -> v <> d -> reach_av g d v.

(* ------------------------------------------------------------------------------------------------------------ *)
(* list helpers *)

Definition mem (x : nat) (l : list nat) : bool := existsb (Nat.eqb x) l.
Fixpoint memfst (x : nat) (l : list (nat * nat)) : bool :=
  match l with [] => false | (y, _) :: t => (x =? y) || memfst x t end.
Fixpoint nodupb (l : list nat) : bool :=
  match l with [] => true | x :: t => negb (mem x t) && nodupb t end.
Fixpoint index_of (x : nat) (l : list nat) : option nat :=
  match l with
  | [] => None
  | y :: t => if x =? y then Some 0 else match index_of x t with Some i => Some (S i) | None => None end
  end.
Fixpoint count (x : nat) (l : list nat) : nat :=
  match l with [] => 0 | y :: t => (if x =? y then 1 else 0) + count x t end.
Definition same_multiset (l1 l2 : list nat) : bool := forallb (fun x => count x l1 =? count x l2) (l1 ++ l2).
Fixpoint list_eqb (l1 l2 : list nat) : bool :=
  match l1, l2 with
  | [], [] => true
  | x :: t1, y :: t2 => (x =? y) && list_eqb t1 t2
  | _, _ => false
  end.
Fixpoint forallb2 {A B} (f : A -> B -> bool) (l1 : list A) (l2 : list B) : bool :=
  match l1, l2 with
  | [], [] => true
  | x :: t1, y :: t2 => f x y && forallb2 f t1 t2
  | _, _ => false
  end.
Definition opt_eqb (a b : option nat) : bool :=
  match a, b with Some x, Some y => x =? y | None, None => true | _, _ => false end.

(* ------------------------------------------------------------------------------------------------------------ *)
(* the certified traversal *)

Definition wf_graph (g : graph) : bool :=
  (0 <? length g) && forallb (forallb (fun v => v <? length g)) g.

(* discovery list (node, discovered from), newest first, of the nodes reached from the entry without entering d *)
Fixpoint explore (g : graph) (d fuel : nat) (work seen : list (nat * nat)) : list (nat * nat) :=
  match fuel with
  | 0 => seen
  | S f =>
      match work with
      | [] => seen
      | (v, p) :: w =>
          if (v =? d) || memfst v seen then explore g d f w seen
          else explore g d f (map (fun s => (s, v)) (succs g v) ++ w) ((v, p) :: seen)
      end
  end.
Definition nedges (g : graph) : nat := fold_right (fun l a => length l + a) 0 g.
Definition avoid_set (g : graph) (d : nat) : list (nat * nat) :=
  explore g d (S (S (nedges g))) [(entry, entry)] [].

(* every listed node is not d and is the entry or a successor of a node listed before it *)
Fixpoint disc_ok (g : graph) (d : nat) (l : list (nat * nat)) : bool :=
  match l with
  | [] => true
  | (v, p) :: t => negb (v =? d) && ((v =? entry) || (memfst p t && mem v (succs g p))) && disc_ok g d t
  end.
(* the list holds the entry (unless d is the entry) and every successor other than d of a listed node *)
Definition closed_ok (g : graph) (d : nat) (l : list (nat * nat)) : bool :=
  ((entry =? d) || memfst entry l) &&
  forallb (fun vp => forallb (fun s => (s =? d) || memfst s l) (succs g (fst vp))) l.
Definition set_ok (g : graph) (d : nat) (l : list (nat * nat)) : bool := disc_ok g d l && closed_ok g d l.

(* sets: for d = 0 .. n-1 the nodes reachable avoiding d; for d = n (not a node) the reachable nodes *)
Definition all_sets (g : graph) : list (list (nat * nat)) := map (avoid_set g) (seq 0 (S (length g))).
Definition sets_ok (g : graph) (ss : list (list (nat * nat))) : bool :=
  wf_graph g && forallb (fun d => set_ok g d (nth d ss [])) (seq 0 (S (length g))).
Definition inset (ss : list (list (nat * nat))) (d v : nat) : bool := memfst v (nth d ss []).
Definition reachb (g : graph) (ss : list (list (nat * nat))) (v : nat) : bool := inset ss (length g) v.
(* d dominates v (decided from the sets) *)
Definition domb (ss : list (list (nat * nat))) (d v : nat) : bool := (v =? d) || negb (inset ss d v).

(* ------------------------------------------------------------------------------------------------------------ *)
(* passDeadBlockEliminationOpt: the blocks flagged invalid are exactly the unreachable ones *)

Definition dead_with (g : graph) (ss : list (list (nat * nat))) (invalid : list bool) : bool :=
  forallb (fun b => Bool.eqb (nth b invalid false) (negb (reachb g ss b))) (seq 0 (length g)).
Definition dead_block_check (g : graph) (invalid : list bool) : bool :=
  let ss := all_sets g in sets_ok g ss && dead_with g ss invalid.

(* ------------------------------------------------------------------------------------------------------------ *)
(* passCalculateImmediateDominators, part 1: the reverse post order.
   order = builder.reversePostOrderedBasicBlocks, rpo = the per-block reversePostOrder field *)

Definition rpo_with (g : graph) (ss : list (list (nat * nat))) (order : list nat) (rpo : list (option nat)) : bool :=
  nodupb order && opt_eqb (hd_error order) (Some entry) &&
  forallb (fun b => Bool.eqb (mem b order) (reachb g ss b)) (seq 0 (length g)) &&
  forallb (fun b => b <? length g) order &&
  forallb (fun b => opt_eqb (nth b rpo None) (index_of b order)) (seq 0 (length g)) &&
  forallb (fun u => forallb (fun v =>
     match index_of u order, index_of v order with
     | Some i, Some j => (i <? j) || domb ss v u
     | _, _ => false
     end) (succs g u)) order.
Definition rpo_check (g : graph) (order : list nat) (rpo : list (option nat)) : bool :=
  let ss := all_sets g in sets_ok g ss && rpo_with g ss order rpo.

(* ------------------------------------------------------------------------------------------------------------ *)
(* passCalculateImmediateDominators, part 2: builder.dominators *)

Definition dom_with (g : graph) (ss : list (list (nat * nat))) (idom : list (option nat)) : bool :=
  let n := length g in
  forallb (fun b =>
    match nth b idom None with
    | None => negb (reachb g ss b)
    | Some p =>
        reachb g ss b &&
        (if b =? entry then p =? entry
         else (p <? n) && negb (p =? b) && domb ss p b &&
              forallb (fun d => (d =? b) || negb (domb ss d b) || domb ss d p) (seq 0 n))
    end) (seq 0 n).
Definition dom_check (g : graph) (idom : list (option nat)) : bool :=
  let ss := all_sets g in sets_ok g ss && dom_with g ss idom.

(* ------------------------------------------------------------------------------------------------------------ *)
(* subPassLoopDetection: a block is a loop header iff one of its (reachable) predecessors is dominated by it *)

Definition preds_of (g : graph) (b : nat) : list nat := filter (fun u => mem b (succs g u)) (seq 0 (length g)).
Definition is_header (g : graph) (ss : list (list (nat * nat))) (b : nat) : bool :=
  existsb (fun u => reachb g ss u && domb ss b u) (preds_of g b).
Definition loop_with (g : graph) (ss : list (list (nat * nat))) (hdr : list bool) : bool :=
  forallb (fun b => Bool.eqb (nth b hdr false) (is_header g ss b)) (seq 0 (length g)).
Definition loop_check (g : graph) (hdr : list bool) : bool :=
  let ss := all_sets g in sets_ok g ss && loop_with g ss hdr.

(* ------------------------------------------------------------------------------------------------------------ *)
(* passBuildLoopNestingForest: children h = the blocks whose NEAREST strictly dominating loop header is h;
   roots = the loop headers that no loop header strictly dominates *)

Definition strict_hdrs (g : graph) (ss : list (list (nat * nat))) (hdr : list bool) (b : nat) : list nat :=
  filter (fun h => nth h hdr false && negb (h =? b) && domb ss h b) (seq 0 (length g)).
Definition parents_of (g : graph) (children : list (list nat)) (b : nat) : list nat :=
  filter (fun h => mem b (nth h children [])) (seq 0 (length g)).
Definition forest_with (g : graph) (ss : list (list (nat * nat))) (hdr : list bool) (children : list (list nat))
           (roots : list nat) : bool :=
  (length children <=? length g) &&
  forallb (fun b =>
    let H := strict_hdrs g ss hdr b in
    if reachb g ss b then
      Bool.eqb (mem b roots) (nth b hdr false && match H with [] => true | _ => false end) &&
      match parents_of g children b with
      | [] => match H with [] => true | _ => false end
      | [h] => mem h H && forallb (fun h' => domb ss h' h) H && (count b (nth h children []) =? 1)
      | _ => false
      end
    else negb (mem b roots) && match parents_of g children b with [] => true | _ => false end)
  (seq 0 (length g)).
Definition forest_check (g : graph) (hdr : list bool) (children : list (list nat)) (roots : list nat) : bool :=
  let ss := all_sets g in sets_ok g ss && forest_with g ss hdr children roots.

(* ------------------------------------------------------------------------------------------------------------ *)
(* passBuildDominatorTree / findLCA: l is the lowest common ancestor of u and v in the dominator tree, i.e. the
   common dominator of u and v that every common dominator dominates *)

Definition lca_with (g : graph) (ss : list (list (nat * nat))) (qs : list (nat * nat * nat)) : bool :=
  forallb (fun q =>
    match q with
    | (u, v, l) =>
        reachb g ss u && reachb g ss v && (l <? length g) && domb ss l u && domb ss l v &&
        forallb (fun d => negb (domb ss d u && domb ss d v) || domb ss d l) (seq 0 (length g))
    end) qs.
Definition lca_check (g : graph) (qs : list (nat * nat * nat)) : bool :=
  let ss := all_sets g in sets_ok g ss && lca_with g ss qs.

(* ------------------------------------------------------------------------------------------------------------ *)
(* block terminators *)

Definition tgt := (nat * list nat)%type.    (* target block, block arguments (value numbers) *)

Inductive term :=
| TExit                                                      (* return / trap / tail call *)
| TJump (t : tgt) (ft : bool)                                (* jump t; ft: marked as fallthrough *)
| TCond (nz : bool) (c : nat) (t e : tgt) (ft : bool)        (* brnz (nz) / brz c, t ; jump e *)
| TTable (c : nat) (ts : list tgt).                          (* br_table c, ts (the last one is the default) *)

Record blk := { b_term : term; b_body : nat; b_params : nat; b_nins : nat }.
Definition dblk : blk := {| b_term := TExit; b_body := 0; b_params := 0; b_nins := 0 |}.
Definition term_of (bs : list blk) (b : nat) : term := b_term (nth b bs dblk).

Definition targets (t : term) : list nat :=
  match t with
  | TExit => []
  | TJump t _ => [fst t]
  | TCond _ _ t e _ => [fst t; fst e]
  | TTable _ ts => map fst ts
  end.
(* the graph of a function: successor lists from the terminators, the return block `ret` dropped *)
Definition cfg_of (ret : nat) (bs : list blk) : graph :=
  map (fun b => filter (fun v => negb (v =? ret)) (targets (b_term b))) bs.

Definition cond_of (t : term) : option nat :=
  match t with TCond _ c _ _ _ => Some c | TTable c _ => Some c | _ => None end.

(* where control goes next: the condition (or br_table index) has value o *)
Inductive next := NExit | NGo (t : tgt) | NStuck.
Definition tnext (t : term) (o : nat) : next :=
  match t with
  | TExit => NExit
  | TJump t _ => NGo t
  | TCond nz _ t e _ => NGo (if Bool.eqb (negb (o =? 0)) nz then t else e)
  | TTable _ ts => match nth_error ts (Nat.min o (length ts - 1)) with Some t => NGo t | None => NStuck end
  end.
Definition step (bs : list blk) (b o : nat) : next := tnext (term_of bs b) o.

(* after layout: blocks n0 .. length after - 1 are the critical-edge trampolines; `resolve` follows them *)
Definition is_tramp (after : list blk) (n0 b : nat) : bool := (n0 <=? b) && (b <? length after).
Fixpoint resolve (after : list blk) (n0 fuel : nat) (t : tgt) : option tgt :=
  match fuel with
  | 0 => None
  | S f =>
      if is_tramp after n0 (fst t) then
        match snd t, term_of after (fst t) with
        | [], TJump t' _ => resolve after n0 f t'
        | _, _ => None
        end
      else Some t
  end.
Definition step_after (after : list blk) (n0 b o : nat) : next :=
  match step after b o with
  | NGo t => match resolve after n0 (S (length after)) t with Some r => NGo r | None => NStuck end
  | x => x
  end.

(* the blocks visited from b when the successive conditions / br_table indices take the values os *)
Fixpoint trace (stepf : nat -> nat -> next) (b : nat) (os : list nat) : list nat :=
  match os with
  | [] => [b]
  | o :: t => b :: match stepf b o with NGo x => trace stepf (fst x) t | _ => [] end
  end.

Definition tgt_eqb (a b : tgt) : bool := (fst a =? fst b) && list_eqb (snd a) (snd b).
Definition next_eqb (a b : next) : bool :=
  match a, b with NExit, NExit => true | NGo x, NGo y => tgt_eqb x y | _, _ => false end.
(* the terminator ta (after layout, trampolines contracted) denotes the same branch as tb (before) *)
Definition res_eq (after : list blk) (n0 : nat) (ta tb : tgt) : bool :=
  match resolve after n0 (S (length after)) ta with Some r => tgt_eqb r tb | None => false end.
Definition term_equiv (after : list blk) (n0 : nat) (tb ta : term) : bool :=
  match tb, ta with
  | TExit, TExit => true
  | TJump t _, TJump t' _ => res_eq after n0 t' t
  | TCond nz c t e _, TCond nz' c' t' e' _ =>
      (c =? c') &&
      (if Bool.eqb nz nz' then res_eq after n0 t' t && res_eq after n0 e' e
       else res_eq after n0 t' e && res_eq after n0 e' t)
  | TTable c ts, TTable c' ts' =>
      (c =? c') && negb (length ts =? 0) && forallb2 (res_eq after n0) ts' ts
  | _, _ => false
  end.

(* the jump that may be marked fallthrough *)
Definition last_jump (t : term) : option (nat * bool) :=
  match t with
  | TJump t ft => Some (fst t, ft)
  | TCond _ _ _ e ft => Some (fst e, ft)
  | _ => None
  end.
(* marked exactly when the target is the next block in layout order *)
Fixpoint ft_ok (after : list blk) (order : list nat) : bool :=
  match order with
  | [] => true
  | b :: rest =>
      match last_jump (term_of after b) with
      | Some (t, ft) => Bool.eqb ft (match rest with b' :: _ => t =? b' | [] => false end)
      | None => true
      end && ft_ok after rest
  end.

Definition tramp_ok (b : blk) : bool :=
  match b_term b with TJump _ _ => (b_nins b =? 1) && (b_params b =? 0) | _ => false end.

(* passLayoutBlocks (+ maybeInvertBranches, splitCriticalEdge, markFallthroughJumps):
   before/valid: the function after the pre-layout passes; after/order: after RunPasses *)
Definition layout_check (before : list blk) (valid : list bool) (after : list blk) (order : list nat) : bool :=
  let n0 := length before in
  let n1 := length after in
  (n0 <=? n1) && nodupb order && opt_eqb (hd_error order) (Some entry) &&
  forallb (fun b => b <? n1) order &&
  forallb (fun b => Bool.eqb (mem b order) (nth b valid false)) (seq 0 n0) &&
  forallb (fun b =>
     forallb (fun t => (t =? n1) || mem t order) (targets (term_of after b)) &&
     if n0 <=? b then tramp_ok (nth b after dblk)
     else
       let x := nth b before dblk in
       let y := nth b after dblk in
       term_equiv after n0 (b_term x) (b_term y) &&
       (b_body x =? b_body y) && (b_params x =? b_params y) && (b_nins x =? b_nins y) &&
       forallb (fun t => (t =? n1) || ((t <? n0) && nth t valid false)) (targets (b_term x))) order &&
  ft_ok after order.

(* the pre-layout passes leave the terminators' kind, polarity and target blocks alone *)
Definition shape_eqb (a b : term) : bool :=
  match a, b with
  | TExit, TExit => true
  | TJump t _, TJump t' _ => fst t =? fst t'
  | TCond nz _ t e _, TCond nz' _ t' e' _ => Bool.eqb nz nz' && (fst t =? fst t') && (fst e =? fst e')
  | TTable _ ts, TTable _ ts' => list_eqb (map fst ts) (map fst ts')
  | _, _ => false
  end.
Definition cfg_kept_check (bs0 bs1 : list blk) : bool :=
  forallb2 (fun a b => shape_eqb (b_term a) (b_term b)) bs0 bs1.

(* the builder's own successor / predecessor lists (what the passes walk) agree with the terminators (what the
   checkers walk): as multisets, among valid blocks *)
Definition bookkeeping_check (bs : list blk) (valid : list bool) (succl predl : list (list nat)) : bool :=
  forallb (fun b =>
     negb (nth b valid false) ||
     (same_multiset (nth b succl []) (targets (term_of bs b)) &&
      forallb (fun u => u <? length bs) (nth b predl []) &&
      forallb (fun u => negb (nth u valid false) ||
                        (count u (nth b predl []) =? count b (targets (term_of bs u)))) (seq 0 (length bs))))
    (seq 0 (length bs)).

(* ------------------------------------------------------------------------------------------------------------ *)
(* one dumped function: what checks/c01_ssa.py writes (numbers as primitive integers: cheap to parse) and the
   evaluation of all checkers on it *)

Record fcase := {
  fc_ret : nat;                       (* the id standing for the return block = number of blocks after layout *)
  fc_b0 : list blk;                   (* after frontend lowering *)
  fc_b1 : list blk;                   (* after the pre-layout passes *)
  fc_valid : list bool;               (* not flagged invalid by dead-block elimination *)
  fc_succ1 : list (list nat); fc_pred1 : list (list nat);
  fc_order1 : list nat;               (* reversePostOrderedBasicBlocks before layout *)
  fc_rpo1 : list (option nat);        (* per-block reversePostOrder field (None for blocks outside the order) *)
  fc_idom1 : list (option nat);
  fc_hdr1 : list bool;
  fc_b3 : list blk;                   (* after RunPasses *)
  fc_valid3 : list bool;
  fc_succ3 : list (list nat); fc_pred3 : list (list nat);
  fc_order3 : list nat;               (* final layout *)
  fc_idom3 : list (option nat);
  fc_hdr3 : list bool;
  fc_kids3 : list (list nat);
  fc_roots3 : list nat;
  fc_lca3 : list (nat * nat * nat) }.

(* results in the order: wf, cfg_kept, bookkeeping, dead_block, rpo, dom_pre, loop_pre, layout, dom_post, loop_post, forest, lca *)
Definition fcase_results (c : fcase) : list bool :=
  let g1 := cfg_of (fc_ret c) (fc_b1 c) in
  let g3 := cfg_of (fc_ret c) (fc_b3 c) in
  let s1 := all_sets g1 in
  let s3 := all_sets g3 in
  let ok1 := sets_ok g1 s1 in
  let ok3 := sets_ok g3 s3 in
  [ ok1 && ok3;
    cfg_kept_check (fc_b0 c) (fc_b1 c);
    bookkeeping_check (fc_b1 c) (fc_valid c) (fc_succ1 c) (fc_pred1 c) &&
      bookkeeping_check (fc_b3 c) (fc_valid3 c) (fc_succ3 c) (fc_pred3 c);
    ok1 && dead_with g1 s1 (map negb (fc_valid c));
    ok1 && rpo_with g1 s1 (fc_order1 c) (fc_rpo1 c);
    ok1 && dom_with g1 s1 (fc_idom1 c);
    ok1 && loop_with g1 s1 (fc_hdr1 c);
    layout_check (fc_b1 c) (fc_valid c) (fc_b3 c) (fc_order3 c);
    ok3 && dom_with g3 s3 (fc_idom3 c);
    ok3 && loop_with g3 s3 (fc_hdr3 c);
    ok3 && forest_with g3 s3 (fc_hdr3 c) (fc_kids3 c) (fc_roots3 c);
    ok3 && lca_with g3 s3 (fc_lca3 c) ].

Definition fcase_check (c : fcase) : bool := forallb (fun b => b) (fcase_results c).

(* (case index, checker index) of every rejection *)
Fixpoint failing (k : nat) (rs : list bool) : list nat :=
  match rs with [] => [] | r :: t => (if r then [] else [k]) ++ failing (S k) t end.
Fixpoint ssa_mismatches (i : nat) (cs : list fcase) : list (nat * nat) :=
  match cs with
  | [] => []
  | c :: t => map (fun k => (i, k)) (failing 0 (fcase_results c)) ++ ssa_mismatches (S i) t
  end.
