(* C02: the known-safe-bounds cache of the wazevo frontend (frontend.go: knownSafeBounds, recordKnownSafeBound,
   getKnownSafeBound, clearSafeBounds, resetAbsoluteAddressInSafeBounds, finalizeKnownSafeBoundsAtTheEndOfBlock,
   initializeCurrentBlockKnownBounds; lower.go: memOpSetup, reloadMemoryBaseLen, lowerBody) as a forward
   must-analysis over an abstract control-flow graph, and an execution semantics of the code it leads to.

   A fact (v, bound, addr) says: "the 32-bit SSA value v was bounds-checked up to v + bound; addr, when present, is
   an SSA value holding memBase + v". memOpSetup(v, ceil) emits NO bounds check when ceil <= bound, and re-uses addr
   instead of recomputing the absolute address.

   Blocks are listed in LOWERING ORDER (the order in which lowerBody makes them current). The analysis is single
   pass: when a block becomes current its state is computed from the end-of-block snapshots of the predecessors
   known at that moment (b_ipreds); predecessors added later (b_lpreds: the back edges of a Wasm loop, whose header
   is not sealed until the loop's end) are never looked at. *)
From Coq Require Import ZArith List Bool Lia.
Import ListNotations.
Open Scope Z_scope.

Inductive event :=
| Access (v : Z) (ceil : Z) (a : Z)  (* memOpSetup(v, ceil); a = the SSA value that receives memBase+v IF this access computes one *)
| Call                               (* reloadAfterCall -> reloadMemoryBaseLen *)
| Grow.                              (* memory.grow -> reloadMemoryBaseLen *)

Record fact := mkF { fv : Z; fb : Z; fa : option Z }.
Definition astate := list fact.      (* knownSafeBoundsSet order; at most one fact per value *)

Fixpoint lookup (s : astate) (v : Z) : option fact :=
  match s with [] => None | f :: r => if fv f =? v then Some f else lookup r v end.

(* recordKnownSafeBound: a new entry takes bound and address; an existing one only has its bound raised *)
Definition record (s : astate) (v b : Z) (a : option Z) : astate :=
  match lookup s v with
  | None => s ++ [mkF v b a]
  | Some _ => map (fun f => if fv f =? v then (if fb f <? b then mkF v b (fa f) else f) else f) s
  end.
Definition set_addr (s : astate) (v a : Z) : astate :=
  map (fun f => if fv f =? v then mkF (fv f) (fb f) (Some a) else f) s.
(* resetAbsoluteAddressInSafeBounds: addresses go, bounds stay *)
Definition reset_addrs (s : astate) : astate := map (fun f => mkF (fv f) (fb f) None) s.

(* memOpSetup: new state, was a bounds check emitted, the SSA value used as absolute address, was it computed here *)
Definition memop (s : astate) (v c a : Z) : astate * bool * Z * bool :=
  match lookup s v with
  | Some f =>
      if c <=? fb f then
        match fa f with
        | Some A => (s, false, A, false)
        | None => (set_addr s v a, false, a, true)
        end
      else
        match fa f with
        | Some A => (record s v c (Some A), true, A, false)
        | None => (record s v c (Some a), true, a, true)       (* record keeps the entry's invalid address *)
        end
  | None => (record s v c (Some a), true, a, true)
  end.

Definition astep (s : astate) (e : event) : astate :=
  match e with
  | Access v c a => fst (fst (fst (memop s v c a)))
  | Call | Grow => reset_addrs s
  end.
Definition arun (s : astate) (es : list event) : astate := fold_left astep es s.

(* finalizeKnownSafeBoundsAtTheEndOfBlock: the snapshot is sorted by value id *)
Fixpoint insert_sorted (f : fact) (s : astate) : astate :=
  match s with [] => [f] | g :: r => if fv f <=? fv g then f :: s else g :: insert_sorted f r end.
Definition finalize (s : astate) : astate := fold_right insert_sorted [] s.

(* the k-way intersection of initializeCurrentBlockKnownBounds, pointer walk as coded: every round looks at the
   heads; stops when a list is exhausted; the smallest id among the heads is recorded with the minimum of the
   bounds if ALL heads carry it; the lists whose head carries it advance *)
Definition heads (ls : list astate) : option (list fact) :=
  fold_right (fun l acc => match l, acc with f :: _, Some hs => Some (f :: hs) | _, _ => None end) (Some []) ls.
Definition min_id (hs : list fact) : Z := fold_left (fun m f => Z.min m (fv f)) hs 4294967295.
Definition min_bound (sm : Z) (hs : list fact) : Z :=
  fold_left (fun m f => if fv f =? sm then Z.min m (fb f) else m) hs 18446744073709551615.
Fixpoint meet (fuel : nat) (ls : list astate) : list (Z * Z) :=
  match fuel with
  | O => []
  | S fuel' =>
      match heads ls with
      | None => []
      | Some hs =>
          let sm := min_id hs in
          let same := forallb (fun f => fv f =? sm) hs in
          let ls' := map (fun l => match l with f :: r => if fv f =? sm then r else l | [] => [] end) ls in
          (if same then [(sm, min_bound sm hs)] else []) ++ meet fuel' ls'
      end
  end.
Definition total_len (ls : list astate) : nat := fold_right (fun l n => (length l + n)%nat) O ls.

Record block := mkB {
  b_ipreds : list nat;   (* predecessors known when the block becomes current, in Pred(i) order (lowering indices) *)
  b_lpreds : list nat;   (* predecessors added afterwards *)
  b_sealed : bool;       (* Sealed() when the block becomes current *)
  b_trans : bool;        (* made current only inside one opcode: never initialised, never finalised (snapshot Nil) *)
  b_defs : list Z;       (* base values defined in this block (parameters / instruction results) *)
  b_events : list event;
  b_lend : nat           (* for a block with late predecessors: end (exclusive) of the loop region it heads *)
}.
Definition cfg := list block.
Definition dflt_block := mkB [] [] true true [] [] O.
Definition blk (g : cfg) (i : nat) : block := nth i g dflt_block.
Definition snap_of (snaps : list astate) (p : nat) : astate := nth p snaps [].   (* getKnownSafeBoundsAtTheEndOfBlocks: Nil if absent *)

(* initializeCurrentBlockKnownBounds *)
Definition block_init (b : block) (snaps : list astate) : astate :=
  match b_ipreds b with
  | [] => []
  | [p] => fold_left (fun s f => record s (fv f) (fb f) (if b_sealed b then fa f else None)) (snap_of snaps p) []
  | ps => let ls := map (snap_of snaps) ps in
          fold_left (fun s vb => record s (fst vb) (snd vb) None) (meet (S (total_len ls)) ls) []
  end.
Definition block_end (b : block) (snaps : list astate) : astate :=
  if b_trans b then [] else finalize (arun (block_init b snaps) (b_events b)).

(* snapshots of the first n blocks, in lowering order *)
Fixpoint ends_upto (g : cfg) (n : nat) : list astate :=
  match n with
  | O => []
  | S n' => let s := ends_upto g n' in s ++ [block_end (blk g n') s]
  end.
Definition init_of (g : cfg) (i : nat) : astate := block_init (blk g i) (ends_upto g i).
Definition state_at (g : cfg) (i k : nat) : astate := arun (init_of g i) (firstn k (b_events (blk g i))).

(* ---- execution of the emitted code ----
   env: values of the 32-bit SSA base values; aenv: values of the SSA address values; mem: byte length of the
   memory (never shrinks; another thread may grow a shared memory at any moment); mbase: where the buffer is
   (may change at calls and at memory.grow only); log (ghost): the bounds checks that passed so far, each with
   the value of its base and the memory length at that moment. *)
Record passed := mkP { p_v : Z; p_ceil : Z; p_val : Z; p_mem : Z }.
Record sem := mkS { s_env : Z -> Z; s_aenv : Z -> Z; s_mem : Z; s_base : Z; s_log : list passed }.

Definition upd (f : Z -> Z) (k x : Z) : Z -> Z := fun j => if j =? k then x else f j.

(* one event: st is the analysis state before it (which fixes the code emitted for it) *)
Inductive estep (st : astate) (q : sem) : event -> sem -> Prop :=
| es_access v c a m' st' checked A fresh :
    memop st v c a = (st', checked, A, fresh) ->
    s_mem q <= m' ->
    (checked = true -> s_env q v + c <= m') ->            (* the emitted check passed; otherwise the run ends in a trap *)
    estep st q (Access v c a)
      (mkS (s_env q) (if fresh then upd (s_aenv q) a (s_base q + s_env q v) else s_aenv q) m' (s_base q)
           (if checked then mkP v c (s_env q v) m' :: s_log q else s_log q))
| es_call m' base' : s_mem q <= m' -> estep st q Call (mkS (s_env q) (s_aenv q) m' base' (s_log q))
| es_grow m' base' : s_mem q <= m' -> estep st q Grow (mkS (s_env q) (s_aenv q) m' base' (s_log q)).

(* entering a block gives arbitrary new values to the base values it defines *)
Definition havoc (defs : list Z) (q q' : sem) : Prop :=
  (forall v, ~ In v defs -> s_env q' v = s_env q v) /\ s_aenv q' = s_aenv q /\ s_mem q <= s_mem q' /\ s_base q' = s_base q /\
  s_log q' = s_log q.

Definition edge (g : cfg) (p b : nat) : Prop := (b < length g)%nat /\ (In p (b_ipreds (blk g b)) \/ In p (b_lpreds (blk g b))).

(* reach g path k q: an execution from the function entry has followed path (most recent block first) and stands
   before event k of the block at its head, in state q *)
Inductive reach (g : cfg) : list nat -> nat -> sem -> Prop :=
| r_entry q q' : havoc (b_defs (blk g O)) q q' -> reach g [O] O q'
| r_step p b k q e q' :
    reach g (b :: p) k q -> nth_error (b_events (blk g b)) k = Some e ->
    estep (state_at g b k) q e q' -> reach g (b :: p) (S k) q'
| r_edge p b k q b' q' :
    reach g (b :: p) k q -> k = length (b_events (blk g b)) -> edge g b b' ->
    havoc (b_defs (blk g b')) q q' -> reach g (b' :: b :: p) O q'.

(* ---- well-formedness of the graph (decidable; evaluated on every graph the real frontend produced) ---- *)
Definition event_vars (es : list event) : list Z :=
  flat_map (fun e => match e with Access v _ _ => [v] | _ => [] end) es.
Definition event_addrs (es : list event) : list Z :=
  flat_map (fun e => match e with Access _ _ a => [a] | _ => [] end) es.
Definition all_addrs (g : cfg) : list Z := event_addrs (flat_map b_events g).

Fixpoint nodupb (l : list Z) : bool :=
  match l with [] => true | x :: r => negb (existsb (Z.eqb x) r) && nodupb r end.
Definition memZ (x : Z) (l : list Z) : bool := existsb (Z.eqb x) l.

Definition in_region (h e x : nat) : bool := (h <=? x)%nat && (x <? e)%nat.

Definition wf_block (g : cfg) (i : nat) (b : block) : bool :=
  (* W1: the predecessors looked at have been lowered before *)
  forallb (fun p => (p <? i)%nat) (b_ipreds b) &&
  (* a sealed block gets no predecessor afterwards *)
  (match b_lpreds b with [] => true | _ => negb (b_sealed b) end) &&
  (* W2: late predecessors lie in the region [i, lend) and the region is entered through i only *)
  forallb (fun l => in_region i (b_lend b) l) (b_lpreds b) &&
  (match b_lpreds b with
   | [] => true
   | _ => forallb (fun y => negb (in_region (S i) (b_lend b) y) ||
                            forallb (in_region i (b_lend b)) (b_ipreds (blk g y) ++ b_lpreds (blk g y)))
                  (seq 0 (length g))
   end) &&
  (* W3: a base value used in block i is not (re)defined in a block lowered after i *)
  forallb (fun v => forallb (fun j => negb (memZ v (b_defs (blk g j))) || (j <=? i)%nat) (seq 0 (length g)))
          (event_vars (b_events b)).

Fixpoint wf_blocks (g : cfg) (i : nat) (bs : list block) : bool :=
  match bs with [] => true | b :: r => wf_block g i b && wf_blocks g (S i) r end.

Definition wf_cfg (g : cfg) : bool :=
  match g with [] => false | _ => true end &&
  wf_blocks g O g &&
  nodupb (all_addrs g).   (* W4: every access names its own address value *)

(* ---- observations, for the correspondence cases ---- *)
Definition fobs (f : fact) : Z * Z * Z := (fv f, fb f, match fa f with Some a => a | None => -1 end).
Definition sobs (s : astate) : list (Z * Z * Z) := map fobs (finalize s).
Record bobs := mkO { o_init : list (Z * Z * Z);            (* cache after initializeCurrentBlockKnownBounds, by value id *)
                     o_after : list (list (Z * Z * Z));   (* cache after every event *)
                     o_snap : list (Z * Z * Z);           (* the stored end-of-block snapshot *)
                     o_dec : list (bool * Z * bool) }.    (* per access: check emitted, address value used, computed here *)

Fixpoint afters (s : astate) (es : list event) : list (list (Z * Z * Z)) :=
  match es with [] => [] | e :: r => let s' := astep s e in sobs s' :: afters s' r end.
Fixpoint decs (s : astate) (es : list event) : list (bool * Z * bool) :=
  match es with
  | [] => []
  | e :: r => (match e with Access v c a => let '(_, ch, A, fr) := memop s v c a in [(ch, A, fr)] | _ => [] end) ++ decs (astep s e) r
  end.
Definition model_obs (g : cfg) : list bobs :=
  flat_map (fun i => let b := blk g i in
                     if b_trans b then [] else
                     let s0 := init_of g i in
                     [mkO (sobs s0) (afters s0 (b_events b)) (map fobs (block_end b (ends_upto g i))) (decs s0 (b_events b))])
           (seq 0 (length g)).

Definition t3_eqb (a b : Z * Z * Z) : bool :=
  (fst (fst a) =? fst (fst b)) && (snd (fst a) =? snd (fst b)) && (snd a =? snd b).
Fixpoint list_eqb {A} (eq : A -> A -> bool) (x y : list A) : bool :=
  match x, y with [] , [] => true | a :: r, b :: s => eq a b && list_eqb eq r s | _, _ => false end.
Definition dec_eqb (a b : bool * Z * bool) : bool :=
  Bool.eqb (fst (fst a)) (fst (fst b)) && (snd (fst a) =? snd (fst b)) && Bool.eqb (snd a) (snd b).
Definition states_eqb (a b : bobs) : bool :=
  list_eqb t3_eqb (o_init a) (o_init b) && list_eqb (list_eqb t3_eqb) (o_after a) (o_after b) &&
  list_eqb t3_eqb (o_snap a) (o_snap b).
Definition decs_eqb (a b : bobs) : bool := list_eqb dec_eqb (o_dec a) (o_dec b).

Record ecase := { ec_cfg : cfg; ec_obs : list bobs }.
(* 0 = agreement; 1: the real cache contents differ from the model's at some block boundary or after some event;
   2: a decision of memOpSetup (check or not, which address) differs; 3: the graph is outside the theorem's
   hypotheses (wf_cfg false) *)
Definition check_ecase (c : ecase) : Z :=
  let m := model_obs (ec_cfg c) in
  if negb (list_eqb decs_eqb m (ec_obs c)) then 2
  else if negb (list_eqb states_eqb m (ec_obs c)) then 1
  else if negb (wf_cfg (ec_cfg c)) then 3
  else 0.
Fixpoint emismatches (i : Z) (cs : list ecase) : list (Z * Z) :=
  match cs with
  | [] => []
  | c :: r => let k := check_ecase c in (if k =? 0 then [] else [(i, k)]) ++ emismatches (i + 1) r
  end.
