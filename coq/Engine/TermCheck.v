(* C07 - close-on-context-done: where the engines poll the closed word, and why that is enough.

   (i)   A structured control AST and `place`, the check placement of each lowering as it is in the code now
         (interpreter/compiler.go and wazevo/frontend/lower.go: at every loop header, and - since the F05 repair -
         immediately before return_call / return_call_indirect). A check is a flag on the loop header / tail-call
         node: in both lowerings the check is emitted directly after the loop label resp. directly before the
         tail-call operation, with no label in between, so no control transfer can land between the two.
   (ii)  An abstract control graph: nodes with a `check` flag and edges seq / call (push a continuation) /
         tail call (replace the frame) / return (pop), and `graph_of`.
   (iii) `all_cycles_checked`: an executable decision procedure. It computes longest-path ranks of the graph
         restricted to edges that do not grow the call stack (seq, tail call, and call-site -> continuation, i.e.
         the callee returned) by iterated relaxation sweeps (explicit fuel), check nodes being sinks, and then validates
         the ranks (every such edge out of a non-check node strictly decreases the rank).
   (iv)  The closed word of internal/wasm/module_instance.go (setExitCode CAS, FailIfClosed, IsClosed) and the
         causes that write it.
   No proofs in this file (coq/Proofs/TermCheckP.v). *)
From Coq Require Import List Arith Bool ZArith Lia.
From Verif Require Import Lib.GoInt Gen.GenC07Wasm Gen.GenC07Sys.
Import ListNotations.
Close Scope Z_scope.
Open Scope nat_scope.

(* ------------------------------------------------------------------ (i) AST and check placement *)
Inductive instr :=
| IOther                                   (* any instruction that is not a control transfer *)
| ICheck                                   (* a stand-alone exit-code check (only produced by `place` with pl_entry) *)
| IBlock (b : list instr)
| ILoop (chk : bool) (b : list instr)      (* chk: the exit code is checked at the loop header *)
| IIf (t e : list instr)
| IBr (l : nat) | IBrIf (l : nat) | IBrTable (ls : list nat) (d : nat)
| ICall (f : nat) | ICallIndirect
| IReturnCall (chk : bool) (f : nat)       (* chk: the exit code is checked just before the tail call *)
| IReturnCallIndirect (chk : bool)
| IReturn.

(* functions are indexed in the module index space: 0 .. p_nimp-1 are imports *)
Record prog := { p_nimp : nat; p_funcs : list (list instr) }.

Record placement := {
  pl_loop : bool;          (* check at loop headers *)
  pl_tail : bool;          (* check before return_call / return_call_indirect *)
  pl_split : bool;         (* return_call of an imported function is lowered as call + return (interpreter) *)
  pl_entry : bool          (* check on function entry: NOT in the code now; the candidate repair of the tree-recursion finding *)
}.

Fixpoint place_i (pl : placement) (nimp : nat) (i : instr) : list instr :=
  match i with
  | IBlock b => [IBlock (flat_map (place_i pl nimp) b)]
  | ILoop _ b => [ILoop (pl_loop pl) (flat_map (place_i pl nimp) b)]
  | IIf t e => [IIf (flat_map (place_i pl nimp) t) (flat_map (place_i pl nimp) e)]
  | IReturnCall _ f =>
      if pl_split pl && (f <? nimp) then [ICall f; IReturn] else [IReturnCall (pl_tail pl) f]
  | IReturnCallIndirect _ => [IReturnCallIndirect (pl_tail pl)]
  | x => [x]
  end.

Definition place (pl : placement) (p : prog) : prog :=
  {| p_nimp := p_nimp p;
     p_funcs := map (fun b => (if pl_entry pl then [ICheck] else []) ++ flat_map (place_i pl (p_nimp p)) b) (p_funcs p) |}.

(* the code as it is now *)
Definition interp_now := {| pl_loop := true; pl_tail := true; pl_split := true; pl_entry := false |}.
Definition comp_now := {| pl_loop := true; pl_tail := true; pl_split := false; pl_entry := false |}.
(* before the F05 repair: loop headers only *)
Definition interp_before_fix := {| pl_loop := true; pl_tail := false; pl_split := true; pl_entry := false |}.
Definition comp_before_fix := {| pl_loop := true; pl_tail := false; pl_split := false; pl_entry := false |}.
(* with the candidate repair *)
Definition with_entry (pl : placement) : placement :=
  {| pl_loop := pl_loop pl; pl_tail := pl_tail pl; pl_split := pl_split pl; pl_entry := true |}.
(* close-on-context-done disabled *)
Definition no_checks := {| pl_loop := false; pl_tail := false; pl_split := false; pl_entry := false |}.

(* ------------------------------------------------------------------ (ii) control graph *)
Inductive edge :=
| ESeq (t : nat)                 (* stay in the frame *)
| ECall (callee ret : nat)       (* push the continuation ret, enter callee *)
| ETail (callee : nat)           (* replace the frame *)
| ERet.                          (* pop a continuation *)

Record node := mk { n_check : bool; n_edges : list edge }.
Definition graph := list node.
Definition dead := mk false [].
Definition is_check (G : graph) (n : nat) : bool := n_check (nth n G dead).
Definition edges (G : graph) (n : nat) : list edge := n_edges (nth n G dead).

(* a configuration: current node and the stack of continuations (innermost first) *)
Definition cfg := (nat * list nat)%type.
Inductive step (G : graph) : cfg -> cfg -> Prop :=
| st_seq n st t : In (ESeq t) (edges G n) -> step G (n, st) (t, st)
| st_call n st c r : In (ECall c r) (edges G n) -> step G (n, st) (c, r :: st)
| st_tail n st c : In (ETail c) (edges G n) -> step G (n, st) (c, st)
| st_ret n k st : In ERet (edges G n) -> step G (n, k :: st) (k, st).

Fixpoint is_path (G : graph) (l : list cfg) : Prop :=
  match l with
  | c :: ((c' :: _) as r) => step G c c' /\ is_path G r
  | _ => True
  end.

(* ---- graph_of: node numbering in program order *)
Fixpoint sz (i : instr) : nat :=
  match i with
  | IBlock b => list_sum (map sz b)
  | ILoop _ b => S (list_sum (map sz b))
  | IIf t e => S (list_sum (map sz t)) + S (list_sum (map sz e))
  | _ => 1
  end.
Definition szl (l : list instr) : nat := list_sum (map sz l).

Record cctx := { c_entry : nat -> nat;   (* function index -> entry node *)
                 c_all : list nat;       (* possible targets of an indirect call *)
                 c_fend : nat }.         (* the return node of the current function *)

Definition comp_list (f : nat -> instr -> list node) : nat -> list instr -> list node :=
  fix go p l := match l with [] => [] | x :: r => f p x ++ go (p + sz x) r end.

(* env: node of each enclosing label, innermost first; labels beyond env are the function label *)
Fixpoint comp (cx : cctx) (env : list nat) (p : nat) (i : instr) {struct i} : list node :=
  let lbl := fun l => nth l env (c_fend cx) in
  match i with
  | IOther => [mk false [ESeq (S p)]]
  | ICheck => [mk true [ESeq (S p)]]
  | IBlock b => comp_list (comp cx ((p + szl b) :: env)) p b
  | ILoop c b => mk c [ESeq (S p)] :: comp_list (comp cx (p :: env)) (S p) b
  | IIf t e =>
      let pe := p + 2 + szl t + szl e in
      mk false [ESeq (S p); ESeq (p + 2 + szl t)]
        :: comp_list (comp cx (pe :: env)) (S p) t
        ++ mk false [ESeq pe] :: comp_list (comp cx (pe :: env)) (p + 2 + szl t) e
  | IBr l => [mk false [ESeq (lbl l)]]
  | IBrIf l => [mk false [ESeq (lbl l); ESeq (S p)]]
  | IBrTable ls d => [mk false (map (fun l => ESeq (lbl l)) (ls ++ [d]))]
  | ICall f => [mk false [ECall (c_entry cx f) (S p)]]
  | ICallIndirect => [mk false (map (fun e => ECall e (S p)) (c_all cx))]
  | IReturnCall c f => [mk c [ETail (c_entry cx f)]]
  | IReturnCallIndirect c => [mk c (map ETail (c_all cx))]
  | IReturn => [mk false [ERet]]
  end.

Definition fsize (b : list instr) : nat := S (szl b).
Fixpoint offsets (p : nat) (fs : list (list instr)) : list nat :=
  match fs with [] => [] | b :: r => p :: offsets (p + fsize b) r end.

Definition comp_func (entry : nat -> nat) (all : list nat) (p : nat) (b : list instr) : list node :=
  comp_list (comp {| c_entry := entry; c_all := all; c_fend := p + szl b |} []) p b ++ [mk false [ERet]].

Fixpoint comp_funcs (entry : nat -> nat) (all : list nat) (p : nat) (fs : list (list instr)) : list node :=
  match fs with [] => [] | b :: r => comp_func entry all p b ++ comp_funcs entry all (p + fsize b) r end.

(* node 0: any imported (host) function: it may return, or re-enter the guest through node 1;
   node 1: api.Function.Call from a host function: callEngine.call polls ctx.Done on entry and FailIfClosed on
   exit, so re-entry is a checked boundary; it may enter any function and continues in the host function. *)
Definition host_node := mk false [ESeq 1; ERet].
Definition reenter_node (offs : list nat) := mk true (map (fun e => ECall e 0) offs).

Definition entry_of (nimp : nat) (offs : list nat) (f : nat) : nat :=
  if f <? nimp then 0 else nth (f - nimp) offs 0.

Definition graph_of (pr : prog) : graph :=
  let offs := offsets 2 (p_funcs pr) in
  host_node :: reenter_node offs :: comp_funcs (entry_of (p_nimp pr) offs) (0 :: offs) 2 (p_funcs pr).

(* ------------------------------------------------------------------ (iii) decision procedure *)
(* successors along edges that do not grow the stack; a call contributes its continuation (the callee returned) *)
Definition htargets (e : edge) : list nat :=
  match e with ESeq t => [t] | ECall _ r => [r] | ETail c => [c] | ERet => [] end.
Definition hsucc (nd : node) : list nat := flat_map htargets (n_edges nd).

Definition rk (r : list nat) (n : nat) : nat := nth n r 0.
Definition maxS (f : nat -> nat) (l : list nat) : nat := fold_right (fun t acc => Nat.max (S (f t)) acc) 0 l.
(* one relaxation sweep, last node first, so that ranks travel along a whole forward chain in one sweep:
   sweep_from r n Gs = new ranks of the nodes n, n+1, .. (Gs = those nodes); a successor behind the current
   node is looked up in the ranks just computed, the others in the previous ranks r *)
Fixpoint sweep_from (r : list nat) (n : nat) (Gs : graph) : list nat :=
  match Gs with
  | [] => []
  | nd :: G' =>
      let acc := sweep_from r (S n) G' in
      let look := fun t => if n <? t then nth (t - S n) acc 0 else rk r t in
      (if n_check nd then 0 else maxS look (hsucc nd)) :: acc
  end.
Definition sweep (G : graph) (r : list nat) : list nat := sweep_from r 0 G.

Fixpoint list_beq (a b : list nat) : bool :=
  match a, b with
  | [], [] => true
  | x :: a', y :: b' => (x =? y) && list_beq a' b'
  | _, _ => false
  end.

Fixpoint iter (G : graph) (fuel : nat) (r : list nat) : list nat :=
  match fuel with
  | 0 => r
  | S k =>
      let r' := sweep G r in
      if list_beq r' r then r
      else if existsb (fun x => length G <? x) r' then r'   (* a rank above |nodes|: there is an unchecked cycle *)
      else iter G k r'
  end.

(* the ranks grow in every sweep that is not a fixpoint and are bounded by |nodes| when there is no unchecked
   cycle, so |nodes|^2 + 1 sweeps always suffice; in practice a handful do *)
Definition compute_rank (G : graph) : list nat := iter G (S (length G * length G)) (map (fun _ => 0) G).

Fixpoint ranked_from (N : nat) (r : list nat) (n : nat) (G : graph) : bool :=
  match G with
  | [] => true
  | nd :: G' =>
      (n_check nd || forallb (fun t => rk r t <? rk r n) (hsucc nd)) && (rk r n <=? N) && ranked_from N r (S n) G'
  end.
Definition ranked_ok (G : graph) (r : list nat) : bool := ranked_from (length G) r 0 G.

Definition all_cycles_checked (G : graph) : bool := ranked_ok G (compute_rank G).

(* every check-free path whose stack never exceeds `ceiling` has at most this many configurations *)
Definition bound (nodes ceiling : nat) : nat := (nodes + 2) ^ (ceiling + 1).

(* ------------------------------------------------------------------ correspondence cases *)
(* chk = 1, call_indirect = 2, return_call_indirect = 3, call f = 10+2f, return_call f = 11+2f, in program order *)
Fixpoint trace (i : instr) : list nat :=
  match i with
  | IBlock b => flat_map trace b
  | ILoop c b => (if c then [1] else []) ++ flat_map trace b
  | IIf t e => flat_map trace t ++ flat_map trace e
  | ICheck => [1]
  | ICall f => [10 + 2 * f]
  | ICallIndirect => [2]
  | IReturnCall c f => (if c then [1] else []) ++ [11 + 2 * f]
  | IReturnCallIndirect c => (if c then [1] else []) ++ [3]
  | _ => []
  end.
Definition traces (p : prog) : list (list nat) := map (flat_map trace) (p_funcs p).

(* the compiler calls imported functions through a function pointer: calls of imports look like indirect calls *)
Definition norm (nimp : nat) (t : nat) : nat :=
  if t <? 10 then t else if (t - 10) / 2 <? nimp then (if Nat.even t then 2 else 3) else t.
Fixpoint insert (x : nat) (l : list nat) : list nat :=
  match l with [] => [x] | y :: r => if x <=? y then x :: l else y :: insert x r end.
Definition sort (l : list nat) : list nat := fold_right insert [] l.

Fixpoint lists_beq (a b : list (list nat)) : bool :=
  match a, b with
  | [], [] => true
  | x :: a', y :: b' => list_beq x y && lists_beq a' b'
  | _, _ => false
  end.

Record scase := {
  s_prog : option prog;             (* the source program, when the generator knows it as a term of `prog` *)
  s_on : bool;                      (* close-on-context-done requested *)
  s_itrace : list (list nat);       (* interpreter: per function, check/call/tail-call operations in body order *)
  s_ctrace : list (list nat);       (* compiler: per function, the same from the SSA, normalised and sorted *)
  s_graphs : list graph             (* control graphs built from the interpreter body, the SSA before and after the passes *)
}.

Open Scope Z_scope.
Fixpoint rejected (k : Z) (gs : list graph) : list Z :=
  match gs with [] => [] | g :: r => (if all_cycles_checked g then [] else [10 + k]) ++ rejected (k + 1) r end.

(* codes: 1 interpreter placement differs from `place interp_now` (and from the same plus entry checks, the
   candidate repair); 2 compiler placement differs from `place comp_now` (ditto); 3 the model's own graph is rejected (excluded by C07_insertion_complete);
   10+k the k-th engine graph has a cycle without a check *)
Definition check_scase (c : scase) : list Z :=
  (match s_prog c with
   | None => []
   | Some p =>
       let pli := if s_on c then interp_now else no_checks in
       let plc := if s_on c then comp_now else no_checks in
       let ctr := fun pl => map (fun t => sort (map (norm (p_nimp p)) t)) (traces (place pl p)) in
       (if lists_beq (traces (place pli p)) (s_itrace c)
           || (s_on c && lists_beq (traces (place (with_entry pli) p)) (s_itrace c)) then [] else [1]) ++
       (if lists_beq (ctr plc) (s_ctrace c) || (s_on c && lists_beq (ctr (with_entry plc)) (s_ctrace c)) then [] else [2]) ++
       (if s_on c then
          (if all_cycles_checked (graph_of (place pli p)) && all_cycles_checked (graph_of (place plc p)) then [] else [3])
        else [])
   end) ++ (if s_on c then rejected 0 (s_graphs c) else []).

Fixpoint mismatches (i : Z) (cs : list scase) : list (Z * Z) :=
  match cs with
  | [] => []
  | c :: r => map (fun code => (i, code)) (check_scase c) ++ mismatches (i + 1) r
  end.

(* ------------------------------------------------------------------ (iv) the closed word *)
(* ModuleInstance.Closed: 0 = open; otherwise flag | exitCode << 32 (module_instance.go setExitCode) *)
Definition set_exit_code (word code flag : Z) : Z * bool :=
  if word =? 0 then (Z.lor flag (shl 64 code 32), true) else (word, false).
(* FailIfClosed: None = nil, Some c = sys.NewExitError(uint32(closed >> 32)) *)
Definition fail_if_closed (word : Z) : option Z :=
  if word =? 0 then None else Some (wrap 32 (shr word 32)).
Definition is_closed (word : Z) : bool := negb (word =? 0).

Inductive cause :=
| Cancelled          (* context cancelled while the call runs: closeModuleOnCanceledOrTimeout *)
| DeadlinePassed     (* deadline passed while the call runs *)
| CancelledAtEntry   (* context already done when the call starts: CloseWithCtxErr *)
| DeadlineAtEntry
| Closed (code : Z). (* Module.CloseWithExitCode from any goroutine *)

Definition cause_code (c : cause) : Z :=
  match c with
  | Cancelled | CancelledAtEntry => ExitCodeContextCanceled
  | DeadlinePassed | DeadlineAtEntry => ExitCodeDeadlineExceeded
  | Closed code => code
  end.
Definition cause_flag (c : cause) : Z :=
  match c with
  | Cancelled | DeadlinePassed => exitCodeFlagResourceNotClosed
  | _ => exitCodeFlagResourceClosed
  end.
Definition apply_cause (word : Z) (c : cause) : Z := fst (set_exit_code word (cause_code c) (cause_flag c)).

(* correspondence with a real module instance: (cause kind 0..4, code) steps, observed
   (flags = word & 0xffffffff, word >> 32, IsClosed, FailIfClosed code or -1) after each step *)
Definition cause_of (k code : Z) : cause :=
  if k =? 0 then Cancelled else if k =? 1 then DeadlinePassed else if k =? 2 then CancelledAtEntry
  else if k =? 3 then DeadlineAtEntry else Closed code.
Definition obs_of (w : Z) : list Z :=
  [Z.land w 4294967295; shr w 32; if is_closed w then 1 else 0; match fail_if_closed w with None => -1 | Some c => c end].
Fixpoint zlist_beq (a b : list Z) : bool :=
  match a, b with
  | [], [] => true
  | x :: a', y :: b' => (x =? y) && zlist_beq a' b'
  | _, _ => false
  end.
Fixpoint run_word (w : Z) (j : Z) (steps : list (Z * Z)) (obs : list (list Z)) : Z :=
  match steps, obs with
  | [], [] => -1
  | (k, code) :: s', o :: o' =>
      let w' := apply_cause w (cause_of k code) in
      if zlist_beq (obs_of w') o then run_word w' (j + 1) s' o' else j
  | _, _ => j
  end.
(* raw steps: (code, flag kind) applied with setExitCode itself; the observation carries the CAS result as well *)
Fixpoint run_raw (w : Z) (j : Z) (steps : list (Z * Z)) (obs : list (list Z)) : Z :=
  match steps, obs with
  | [], [] => -1
  | (code, fk) :: s', o :: o' =>
      let '(w', ok) := set_exit_code w code (if fk =? 0 then exitCodeFlagResourceClosed else exitCodeFlagResourceNotClosed) in
      if zlist_beq (obs_of w' ++ [if ok then 1 else 0]) o then run_raw w' (j + 1) s' o' else j
  | _, _ => j
  end.
Definition wcase := (bool * list (Z * Z) * list (list Z))%type.   (* raw?, steps, observations *)
Fixpoint wmismatches (i : Z) (cs : list wcase) : list (Z * Z) :=
  match cs with
  | [] => []
  | (raw, steps, obs) :: r =>
      let j := if raw then run_raw 0 0 steps obs else run_word 0 0 steps obs in
      (if j =? -1 then [] else [(i, j)]) ++ wmismatches (i + 1) r
  end.
