(* C07 - the WATCHER goroutine as part of the state, and which module's closed word a check reads.

   coq/Engine/TermHost.v says what a check reads (ctx.Err() of the call's context, the closed word) and takes "a watcher
   goroutine of some in-flight call has written the word" as a boolean of the situation. This file models where that
   boolean comes from.

   (i)   Several CONCURRENT calls on ONE module instance (internal/wasm/module_instance.go:32-67, callEngine.call in
         interpreter.go:602-605 and wazevo/call_engine.go:278-281): with ensureTermination every call spawns, after its
         entry pre-check, a goroutine that listens to the Done channel of the context GIVEN TO THIS CALL and, when the
         context is done, writes the closed word (closeWithExitCodeWithoutClosingResource: a CAS on 0); the deferred
         done() of the call stops the goroutine when the call returns. A small-step interleaving semantics: events are
         call entries, call returns, a context becoming done (with everything derived from it), one step of the watcher
         of a call, and CloseWithExitCode from another goroutine. `run` folds `step` over a schedule; an event that is
         not enabled is a no-op, so every list of events is a schedule.
         Contexts: `cenv` gives every context its parent (context.WithValue / WithCancel / WithTimeout children are done
         as soon as the parent is) and the identity of its Done channel (a WithValue child shares the parent's channel,
         a WithCancel / WithTimeout child has its own).
   (ii)  Two watcher policies: PerCall = the code as it is (one watcher per call, from entry to return);
         SharedNoRefcount = the seeded change C07d (the module remembers the Done channel its live watcher listens to;
         a call arriving with the same channel spawns nothing; the call that spawned the watcher owns it and stops it -
         and clears the slot - when it returns; no reference count).
   (iii) Which module's closed word an in-guest check reads when the executing function belongs to an IMPORTED module:
         the module the api.Function.Call was made on (wazevo: c.parent.module), or the module of the function that
         called the executing function (interpreter: the `m` handed down by operationKindCall = f.moduleInstance of the
         CALLING function). The watcher closes the module the call was made on.
   No proofs in this file (coq/Proofs/WatcherP.v). *)
From Coq Require Import List Arith Bool ZArith Lia.
From Verif Require Import Lib.GoInt Gen.GenC07Wasm Gen.GenC07Sys Engine.TermCheck Engine.TermHost.
Import ListNotations.
Close Scope Z_scope.
Open Scope nat_scope.

(* ------------------------------------------------------------------ (i) contexts, calls, watchers *)
Record cenv := { ce_parent : nat -> option nat;     (* the context this one was derived from *)
                 ce_chan : nat -> nat;              (* identity of ctx.Done() *)
                 ce_depth : nat }.                  (* longest derivation chain (fuel) *)

(* x is c or derived from c *)
Fixpoint descends (E : cenv) (fuel x c : nat) : bool :=
  (x =? c) || match fuel with
              | 0 => false
              | S f => match ce_parent E x with Some p => descends E f p c | None => false end
              end.

Inductive cstate := CNot | CIn (c : nat) | CRet.                        (* not started | in flight with context c | returned *)
Inductive wstate := WNone | WListen (c : nat) | WFired | WStopped.      (* the goroutine spawned by a call *)

Record wst := { calls : nat -> cstate;
                watch : nat -> wstate;          (* per call: the watcher it spawned *)
                owner : nat -> bool;            (* SharedNoRefcount: this call owns the remembered watcher *)
                cdone : nat -> ctx_state;       (* ctx.Err() of every context *)
                word : Z;                       (* ModuleInstance.Closed *)
                slot : option nat }.            (* SharedNoRefcount: watchedDone *)

Inductive policy := PerCall | SharedNoRefcount.

Inductive event :=
| EEnter (k c : nat)                (* call k starts with context c *)
| EReturn (k : nat)                 (* call k returns (its deferred done() runs) *)
| EDone (c : nat) (r : ctx_state)   (* cancel() of c / the deadline of c passes *)
| EWatch (k : nat)                  (* the watcher goroutine of call k is scheduled *)
| EClose (code : Z).                (* Module.CloseWithExitCode from another goroutine *)

Definition upd {A} (f : nat -> A) (k : nat) (v : A) : nat -> A := fun x => if x =? k then v else f x.

Definition init : wst :=
  {| calls := fun _ => CNot; watch := fun _ => WNone; owner := fun _ => false; cdone := fun _ => CtxLive; word := 0%Z; slot := None |}.

Definition slot_is (s : wst) (ch : nat) : bool := match slot s with Some x => x =? ch | None => false end.
Definition slot_free (s : wst) : bool := match slot s with Some _ => false | None => true end.
Definition is_live (r : ctx_state) : bool := match r with CtxLive => true | _ => false end.
Definition is_listening (w : wstate) : bool := match w with WListen _ => true | _ => false end.
Definition stop (w : wstate) : wstate := match w with WListen _ => WStopped | x => x end.

Definition step (P : policy) (E : cenv) (s : wst) (e : event) : wst :=
  match e with
  | EEnter k c =>
      match calls s k with
      | CNot =>
          match cdone s c with
          | CtxLive =>
              let spawn := match P with PerCall => true | SharedNoRefcount => negb (slot_is s (ce_chan E c)) end in
              let own := match P with PerCall => false | SharedNoRefcount => spawn && slot_free s end in
              {| calls := upd (calls s) k (CIn c);
                 watch := upd (watch s) k (if spawn then WListen c else WNone);
                 owner := upd (owner s) k own;
                 cdone := cdone s; word := word s;
                 slot := if own then Some (ce_chan E c) else slot s |}
          | r =>  (* the entry pre-check: CloseWithCtxErr, the call returns at once and never spawns a watcher *)
              {| calls := upd (calls s) k CRet; watch := watch s; owner := owner s; cdone := cdone s;
                 word := apply_cause (word s) (match r with CtxDeadline => DeadlineAtEntry | _ => CancelledAtEntry end);
                 slot := slot s |}
          end
      | _ => s
      end
  | EReturn k =>
      match calls s k with
      | CIn _ =>
          {| calls := upd (calls s) k CRet; watch := upd (watch s) k (stop (watch s k)); owner := upd (owner s) k false;
             cdone := cdone s; word := word s; slot := if owner s k then None else slot s |}
      | _ => s
      end
  | EDone c r =>
      match r with
      | CtxLive => s
      | _ => {| calls := calls s; watch := watch s; owner := owner s;
                cdone := fun x => if is_live (cdone s x) && descends E (ce_depth E) x c then r else cdone s x;
                word := word s; slot := slot s |}
      end
  | EWatch k =>
      match watch s k with
      | WListen c =>
          match cdone s c with
          | CtxLive => s           (* still blocked in the select *)
          | r => {| calls := calls s; watch := upd (watch s) k WFired; owner := owner s; cdone := cdone s;
                    word := apply_cause (word s) (match r with CtxDeadline => DeadlinePassed | _ => Cancelled end);
                    slot := slot s |}
          end
      | _ => s
      end
  | EClose code =>
      {| calls := calls s; watch := watch s; owner := owner s; cdone := cdone s;
         word := apply_cause (word s) (Closed code); slot := slot s |}
  end.

Definition run (P : policy) (E : cenv) (evs : list event) (s : wst) : wst := fold_left (step P E) evs s.

(* call k is in flight, its context is done, nothing has closed the module and no goroutine of k is left to do it *)
Definition unwatched_call (s : wst) (k : nat) : bool :=
  match calls s k with
  | CIn c => negb (is_live (cdone s c)) && (word s =? 0)%Z && negb (is_listening (watch s k))
  | _ => false
  end.
(* ... and no goroutine of ANY call listens to a context that is done (nobody will close the module) *)
Definition enabled_watcher (s : wst) (k : nat) : bool :=
  match watch s k with WListen c => negb (is_live (cdone s c)) | _ => false end.
Definition stranded_call (n : nat) (s : wst) (k : nat) : bool :=
  unwatched_call s k && negb (existsb (enabled_watcher s) (seq 0 n)).

(* the contexts used by the examples and by checks/c07.py: 0 and 3 are roots; 1 = context.WithValue(0) (same Done channel
   as 0); 2 = context.WithCancel(0) (its own channel) *)
Definition env_std : cenv :=
  {| ce_parent := fun x => if (x =? 1) || (x =? 2) then Some 0 else None;
     ce_chan := fun x => if x =? 1 then 0 else x;
     ce_depth := 2 |}.

(* the seeded schedule: call 0 (finite) starts with context 0 and owns the watcher; call 1 (looping) starts with the same
   context and spawns nothing; call 0 returns; only now the context is cancelled *)
Definition seeded_schedule : list event := [EEnter 0 0; EEnter 1 0; EReturn 0; EDone 0 CtxCanceled].
Definition seeded_schedule_derived : list event := [EEnter 0 0; EEnter 1 1; EReturn 0; EDone 0 CtxDeadline].
Definition control_schedule : list event := [EEnter 1 0; EEnter 0 0; EReturn 0; EDone 0 CtxCanceled].

(* correspondence with harness/c07/siblings.go: the schedule the harness executed on a real module instance; the model says
   which calls each policy leaves stranded at its end (PerCall: none, by WatcherP.every_inflight_call_is_watched) *)
Fixpoint stranded_in (n : nat) (s : wst) (ks : list nat) : list Z :=
  match ks with [] => [] | k :: r => (if stranded_call n s k then [Z.of_nat k] else []) ++ stranded_in n s r end.
Definition stranded (P : policy) (n : nat) (evs : list event) : list Z :=
  let s := run P env_std evs init in stranded_in n s (seq 0 n).
Record sibcase := { sb_calls : nat; sb_events : list event }.
(* code 1000*i + k: PerCall strands call k in case i (never); 100000 + 1000*i + k: SharedNoRefcount does *)
Fixpoint sibmismatches (i : Z) (cs : list sibcase) : list Z :=
  match cs with
  | [] => []
  | c :: r => (map (fun k => 1000 * i + k) (stranded PerCall (sb_calls c) (sb_events c)) ++
               map (fun k => 100000 + 1000 * i + k) (stranded SharedNoRefcount (sb_calls c) (sb_events c)) ++
               sibmismatches (i + 1) r)%Z
  end.

(* ------------------------------------------------------------------ (iii) which module's word a check reads *)
(* chain = the modules of the functions on the call stack of ONE call engine, outermost first: the head is the module the
   api.Function.Call was made on (the one the watcher closes). A check executes in the last function of the chain. *)
Inductive wsel :=
| SelEntry     (* wazevo: the module of the entry call engine *)
| SelCaller    (* interpreter now: the module of the function that called the executing function (the entry module for the entry function) *)
| SelBoth.     (* candidate repair notes/c07-interp-exitcheck-entry-module.patch *)

Definition entry_mod (chain : list nat) : nat := hd 0 chain.
Definition caller_mod (chain : list nat) : nat :=
  match rev chain with
  | _ :: c :: _ => c          (* the module of the calling function *)
  | _ => entry_mod chain      (* the entry function: callEngine.call passes ce.f.moduleInstance *)
  end.
Definition check_reads (sel : wsel) (chain : list nat) : list nat :=
  match sel with
  | SelEntry => [entry_mod chain]
  | SelCaller => [caller_mod chain]
  | SelBoth => [entry_mod chain; caller_mod chain]
  end.
(* words: the closed word of every module; the check observes iff one of the words it reads is non-zero *)
Definition check_observes (sel : wsel) (words : nat -> Z) (chain : list nat) : bool :=
  existsb (fun m => is_some (fail_if_closed (words m))) (check_reads sel chain).
(* the situation C07 is about: the cause has closed the module the call was made on, every other module is open *)
Definition entry_closed (chain : list nat) (w : Z) : nat -> Z := fun m => if m =? entry_mod chain then w else 0%Z.

(* A.run -> B.f_depth -> .. -> B.f_0 (the loop): module 0 = A, module 1 = B *)
Definition imported_chain (depth : nat) : list nat := 0 :: repeat 1 (S depth).

(* correspondence with the behavioural family imported_*_depth_N: (depth, did the engine stop the loop) *)
Definition icase := (nat * bool)%type.
Fixpoint imismatches (sel : wsel) (i : Z) (cs : list icase) : list Z :=
  match cs with
  | [] => []
  | (d, stopped) :: r =>
      (if Bool.eqb (check_observes sel (entry_closed (imported_chain d) (apply_cause 0%Z Cancelled)) (imported_chain d)) stopped
       then [] else [i]) ++ imismatches sel (i + 1)%Z r
  end.
