(* C10: module lifecycle and name registry.
   - the abstract sequential registry ([spec], [spec_step]);
   - the implementation as ATOMIC STEPS at the granularity of the Go code (store.go Instantiate /
     registerModule / deleteModule, module_instance.go CloseWithExitCode / ensureResourcesClosed,
     runtime.go Module / InstantiateModule / CompileModule / CloseWithExitCode / failIfClosed,
     builder.go Compile), threads interleaving those steps ([tstep], [run_sched], [explore]);
   - an executable linearizability checker [lin_check] over complete histories, and the relaxed
     specification used to classify histories that fall into the close window (finding F10).
   Go's memory model is abstracted to sequential consistency at lock / atomic granularity.
   The loop of Store.CloseWithExitCode runs under the store lock; a foreign CAS on one module commutes
   with the iterations on the other modules, so the loop is one step [MStoreClose].
   No proofs in this file. *)
From Coq Require Import List Bool Arith ZArith.
Import ListNotations.

Notation name := nat (only parsing).   (* 0 = anonymous module *)
Notation inst := nat (only parsing).   (* identity of a ModuleInstance, chosen by the client history *)
Notation code := nat (only parsing).   (* exit code *)

(* ------------------------------------------------------------------ association lists *)
Fixpoint lookup (n : nat) (l : list (nat * nat)) : option nat :=
  match l with [] => None | (m, i) :: t => if n =? m then Some i else lookup n t end.
Definition mem (i : nat) (l : list nat) : bool := existsb (Nat.eqb i) l.
Definition remove (i : nat) (l : list nat) : list nat := filter (fun j => negb (j =? i)) l.
Definition remove_inst (i : inst) (l : list (name * inst)) := filter (fun p => negb (snd p =? i)) l.
Definition del_name (n : name) (l : list (name * inst)) := filter (fun p => negb (fst p =? n)) l.
Fixpoint dedup (l : list nat) : list nat :=
  match l with [] => [] | a :: t => if mem a t then dedup t else a :: dedup t end.
Definition count (i : nat) (l : list nat) : nat := length (filter (Nat.eqb i) l).
Definition is_some {A} (o : option A) : bool := match o with Some _ => true | None => false end.
Definition opt_eqb (a b : option nat) : bool :=
  match a, b with Some x, Some y => x =? y | None, None => true | _, _ => false end.

(* ------------------------------------------------------------------ operations and results *)
Inductive op :=
| OInst (host : bool) (n : name) (i : inst)   (* Runtime.InstantiateModule / HostModuleBuilder.Instantiate *)
| OLook (n : name)                            (* Runtime.Module(name) *)
| OClose (i : inst) (c : code)                (* api.Module.Close / CloseWithExitCode *)
| OIsClosed (i : inst)                        (* the closed word of a handle: None = open, Some exit code *)
| ORtClose (c : code)                         (* Runtime.Close / CloseWithExitCode *)
| OCompile (host : bool).                     (* Runtime.CompileModule / HostModuleBuilder.Compile *)

Inductive ret := ROk | RErrDup | RErrClosed | RLook (r : option inst) | RExit (r : option code)
| RPanic.   (* a Go panic escaping to the caller; the specification never returns it *)

Definition ret_eqb (a b : ret) : bool :=
  match a, b with
  | ROk, ROk | RErrDup, RErrDup | RErrClosed, RErrClosed | RPanic, RPanic => true
  | RLook x, RLook y => opt_eqb x y
  | RExit x, RExit y => opt_eqb x y
  | _, _ => false
  end.

(* ------------------------------------------------------------------ sequential specification *)
Record spec := { names : list (name * inst);   (* which open module owns a name *)
                 opened : list inst;           (* open set *)
                 exits : list (inst * code);   (* closed instances with the exit code of the FIRST close *)
                 closed_rt : bool }.
Definition spec0 : spec := {| names := []; opened := []; exits := []; closed_rt := false |}.

Definition spec_step (s : spec) (o : op) : spec * ret :=
  match o with
  | OInst _ n i =>
      if closed_rt s then (s, RErrClosed)
      else if negb (n =? 0) && is_some (lookup n (names s))
      then ({| names := names s; opened := opened s; exits := (i, 0) :: exits s; closed_rt := false |}, RErrDup)
      else ({| names := (if n =? 0 then names s else (n, i) :: names s); opened := i :: opened s;
               exits := exits s; closed_rt := false |}, ROk)
  | OLook n => (s, RLook (if n =? 0 then None else lookup n (names s)))
  | OClose i c =>
      match lookup i (exits s) with
      | Some _ => (s, ROk)                                                   (* idempotent *)
      | None => ({| names := remove_inst i (names s); opened := remove i (opened s);
                    exits := (i, c) :: exits s; closed_rt := closed_rt s |}, ROk)
      end
  | OIsClosed i => (s, RExit (lookup i (exits s)))
  | ORtClose c =>
      if closed_rt s then (s, ROk)
      else ({| names := []; opened := []; exits := map (fun i => (i, c)) (opened s) ++ exits s; closed_rt := true |}, ROk)
  | OCompile _ => (s, if closed_rt s then RErrClosed else ROk)
  end.

Fixpoint spec_ops (s : spec) (ops : list op) : spec * list ret :=
  match ops with
  | [] => (s, [])
  | o :: r => let '(s1, x) := spec_step s o in let '(s2, xs) := spec_ops s1 r in (s2, x :: xs)
  end.

(* ------------------------------------------------------------------ implementation state *)
Record impl := { nmap : option (list (name * inst));  (* Store.nameToModule; None = nil after Store close *)
                 mlist : list inst;                   (* Store.moduleList *)
                 closedw : list (inst * code);        (* ModuleInstance.Closed words that are non-zero *)
                 iname : list (inst * name);          (* ModuleInstance.ModuleName *)
                 rt_closed : bool;                    (* runtime.closed != 0 *)
                 eng_closed : bool;                   (* Engine.Close ran: compiled code of the runtime is gone *)
                 notif : list inst;                   (* instances whose CloseNotifier field is set *)
                 attached : list inst;                (* ghost: CloseNotifier was ever assigned *)
                 res_log : list inst;                 (* ghost log: ensureResourcesClosed ran (FS closed) *)
                 notified : list inst;                (* ghost log: CloseNotify fired *)
                 registered : list inst }.            (* ghost log: registerModule succeeded *)

Definition impl0 : impl :=
  {| nmap := Some []; mlist := []; closedw := []; iname := []; rt_closed := false; eng_closed := false;
     notif := []; attached := []; res_log := []; notified := []; registered := [] |}.

Definition is_closed (s : impl) (i : inst) : bool := is_some (lookup i (closedw s)).

Inductive micro :=
| MChkRt                          (* runtime.failIfClosed: atomic load of runtime.closed *)
| MTypeIDs                        (* Store.GetFunctionTypeIDs: lock; typeIDs map lookup/insert (nil after the sweep: panics) *)
| MBuild (n : name) (i : inst)    (* Store.instantiate: builds the private instance (Sys attached); needs the engine's code *)
| MRegister (n : name) (i : inst) (* Store.registerModule: lock; nil-map check; name check; insert; link; unlock *)
| MAttach (i : inst)              (* InstantiateModule: m.CloseNotifier = notifier (plain write after registration) *)
| MCas (i : inst) (c : code)      (* setExitCode: Closed.CompareAndSwap(0, ..) *)
| MDelete (i : inst)              (* Store.deleteModule: lock; unlink; delete name if the entry is m; unlock *)
| MRes (i : inst)                 (* ensureResourcesClosed: CloseNotify once, FS closed, code closer *)
| MLookup (n : name)              (* Store.module: rlock; lookup; runlock *)
| MLoad (i : inst)                (* Closed.Load *)
| MRtCas (c : code)               (* runtime.closed.CompareAndSwap(0, ..) *)
| MStoreClose (c : code)          (* Store.CloseWithExitCode: lock; close every listed module; nil the maps; unlock *)
| MEngClose                       (* Engine.Close (no cache configured) *)
| MRet (r : ret).

Definition set_closedw (s : impl) (cw : list (inst * code)) : impl :=
  {| nmap := nmap s; mlist := mlist s; closedw := cw; iname := iname s; rt_closed := rt_closed s; eng_closed := eng_closed s;
     notif := notif s; attached := attached s; res_log := res_log s; notified := notified s; registered := registered s |}.

Definition close_fail (i : inst) (e : ret) : list micro := [MCas i 0; MDelete i; MRes i; MRet e].

(* one micro step; [k] is the rest of the operation; returns the new state and the new rest *)
Definition mstep (s : impl) (m : micro) (k : list micro) : impl * list micro :=
  match m with
  | MChkRt => if rt_closed s then (s, [MRet RErrClosed]) else (s, k)
  | MTypeIDs => match nmap s with None => (s, [MRet RPanic]) | Some _ => (s, k) end
  | MBuild n i =>
      if eng_closed s then (s, [MRet RErrClosed])      (* "source module must be compiled before instantiation" *)
      else
      ({| nmap := nmap s; mlist := mlist s; closedw := closedw s; iname := (i, n) :: iname s; rt_closed := rt_closed s; eng_closed := eng_closed s;
          notif := notif s; attached := attached s; res_log := res_log s; notified := notified s; registered := registered s |}, k)
  | MRegister n i =>
      match nmap s with
      | None => (s, close_fail i RErrClosed)                   (* "already closed" then m.Close(ctx) *)
      | Some m =>
          if negb (n =? 0) && is_some (lookup n m) then (s, close_fail i RErrDup)
          else ({| nmap := Some (if n =? 0 then m else (n, i) :: m); mlist := i :: mlist s; closedw := closedw s;
                   iname := iname s; rt_closed := rt_closed s; eng_closed := eng_closed s; notif := notif s; attached := attached s;
                   res_log := res_log s; notified := notified s; registered := i :: registered s |}, k)
      end
  | MAttach i =>
      ({| nmap := nmap s; mlist := mlist s; closedw := closedw s; iname := iname s; rt_closed := rt_closed s; eng_closed := eng_closed s;
          notif := i :: notif s; attached := i :: attached s; res_log := res_log s; notified := notified s;
          registered := registered s |}, k)
  | MCas i c => if is_closed s i then (s, [MRet ROk]) else (set_closedw s ((i, c) :: closedw s), k)
  | MDelete i =>
      let nm := match nmap s with
                | None => None
                | Some m =>
                    match lookup i (iname s) with
                    | Some n => if negb (n =? 0) && opt_eqb (lookup n m) (Some i) then Some (del_name n m) else Some m
                    | None => Some m
                    end
                end in
      ({| nmap := nm; mlist := remove i (mlist s); closedw := closedw s; iname := iname s; rt_closed := rt_closed s; eng_closed := eng_closed s;
          notif := notif s; attached := attached s; res_log := res_log s; notified := notified s;
          registered := registered s |}, k)
  | MRes i =>
      ({| nmap := nmap s; mlist := mlist s; closedw := closedw s; iname := iname s; rt_closed := rt_closed s; eng_closed := eng_closed s;
          notif := remove i (notif s); attached := attached s; res_log := i :: res_log s;
          notified := (if mem i (notif s) then i :: notified s else notified s); registered := registered s |}, k)
  | MLookup n =>
      (s, [MRet (RLook (if n =? 0 then None else match nmap s with Some m => lookup n m | None => None end))])
  | MLoad i => (s, [MRet (RExit (lookup i (closedw s)))])
  | MRtCas c =>
      if rt_closed s then (s, [MRet ROk])
      else ({| nmap := nmap s; mlist := mlist s; closedw := closedw s; iname := iname s; rt_closed := true; eng_closed := eng_closed s;
               notif := notif s; attached := attached s; res_log := res_log s; notified := notified s;
               registered := registered s |}, k)
  | MStoreClose c =>
      (* the loop CASes every listed module in turn: a module is swept at most once *)
      let live := dedup (filter (fun i => negb (is_closed s i)) (mlist s)) in
      ({| nmap := None; mlist := []; closedw := map (fun i => (i, c)) live ++ closedw s; iname := iname s;
          rt_closed := rt_closed s; eng_closed := eng_closed s;
          notif := filter (fun i => negb (mem i live)) (notif s); attached := attached s;
          res_log := live ++ res_log s;
          notified := filter (fun i => mem i (notif s)) live ++ notified s; registered := registered s |}, k)
  | MEngClose =>
      ({| nmap := nmap s; mlist := mlist s; closedw := closedw s; iname := iname s; rt_closed := rt_closed s; eng_closed := true;
          notif := notif s; attached := attached s; res_log := res_log s; notified := notified s; registered := registered s |}, k)
  | MRet _ => (s, k)
  end.

Definition compile (o : op) : list micro :=
  match o with
  | OInst h n i => (if h then [MChkRt; MTypeIDs] else []) ++ [MChkRt; MBuild n i; MRegister n i; MAttach i; MRet ROk]
  | OLook n => [MLookup n]
  | OClose i c => [MCas i c; MDelete i; MRes i; MRet ROk]
  | OIsClosed i => [MLoad i]
  | ORtClose c => [MRtCas c; MStoreClose c; MEngClose; MRet ROk]
  | OCompile _ => [MChkRt; MTypeIDs; MRet ROk]
  end.

(* ------------------------------------------------------------------ sequential execution of the step model *)
Fixpoint exec (fuel : nat) (s : impl) (ms : list micro) : impl * option ret :=
  match fuel with
  | O => (s, None)
  | S f => match ms with
           | [] => (s, None)
           | MRet r :: _ => (s, Some r)
           | m :: k => let '(s', k') := mstep s m k in exec f s' k'
           end
  end.

Definition run_op (s : impl) (o : op) : impl * option ret := exec 14 s (compile o).

Fixpoint run_ops (s : impl) (ops : list op) : impl * list (option ret) :=
  match ops with
  | [] => (s, [])
  | o :: r => let '(s1, x) := run_op s o in let '(s2, xs) := run_ops s1 r in (s2, x :: xs)
  end.

(* ------------------------------------------------------------------ threads, schedules, histories *)
Record thr := { todo : list op; cur : option (op * nat * list micro) }.
Record ev := { e_thr : nat; e_op : op; e_ret : ret; e_inv : nat; e_res : nat }.
Record config := { st : impl; thrs : list thr; clk : nat; hist : list ev; hold : option nat }.

Fixpoint replace_nth {A} (n : nat) (x : A) (l : list A) : list A :=
  match l, n with [], _ => [] | _ :: t, O => x :: t | h :: t, S k => h :: replace_nth k x t end.

(* a thread has just won a CAS and has not yet run the locked section that follows *)
Definition in_window (ms : list micro) : bool :=
  match ms with MDelete _ :: _ => true | MStoreClose _ :: _ => true | _ => false end.

Definition blocked (h : option nat) (k : nat) : bool :=
  match h with Some j => negb (j =? k) | None => false end.

(* thread [k] takes one step (invocation, one micro step, or response). With [atomic] = true no other thread
   may step while some thread is between its CAS and its locked delete/sweep: close-atomic schedules. *)
Definition tstep (atomic : bool) (c : config) (k : nat) : option config :=
  match nth_error (thrs c) k with
  | None => None
  | Some t =>
      if atomic && blocked (hold c) k then None else
      match cur t with
      | None =>
          match todo t with
          | [] => None
          | o :: rest =>
              Some {| st := st c; thrs := replace_nth k {| todo := rest; cur := Some (o, clk c, compile o) |} (thrs c);
                      clk := S (clk c); hist := hist c; hold := hold c |}
          end
      | Some (o, inv, []) => None
      | Some (o, inv, MRet r :: _) =>
          Some {| st := st c; thrs := replace_nth k {| todo := todo t; cur := None |} (thrs c); clk := S (clk c);
                  hist := {| e_thr := k; e_op := o; e_ret := r; e_inv := inv; e_res := clk c |} :: hist c;
                  hold := hold c |}
      | Some (o, inv, m :: ms) =>
          let '(s', ms') := mstep (st c) m ms in
          Some {| st := s'; thrs := replace_nth k {| todo := todo t; cur := Some (o, inv, ms') |} (thrs c);
                  clk := S (clk c); hist := hist c;
                  hold := (if atomic then (if in_window ms' then Some k else None) else None) |}
      end
  end.

Fixpoint run_sched (atomic : bool) (c : config) (sched : list nat) : option config :=
  match sched with
  | [] => Some c
  | k :: r => match tstep atomic c k with Some c' => run_sched atomic c' r | None => None end
  end.

Definition thr_done (t : thr) : bool :=
  match cur t, todo t with None, [] => true | _, _ => false end.
Definition finished (c : config) : bool := forallb thr_done (thrs c).

Definition mk (ops : list op) : thr := {| todo := ops; cur := None |}.
Definition init (s : impl) (prog : list (list op)) : config :=
  {| st := s; thrs := map mk prog; clk := 0; hist := []; hold := None |}.

Definition nexts (atomic : bool) (c : config) : list config :=
  flat_map (fun k => match tstep atomic c k with Some c' => [c'] | None => [] end) (seq 0 (length (thrs c))).

(* all maximal runs (exhaustive DFS); with enough fuel these are exactly the finished configurations *)
Fixpoint explore (atomic : bool) (fuel : nat) (c : config) : list config :=
  match fuel with
  | O => [c]
  | S f => match nexts atomic c with
           | [] => [c]
           | ns => flat_map (explore atomic f) ns
           end
  end.

(* the same exhaustive DFS as a check: [P] holds in every maximal run (no list of runs is materialised) *)
Fixpoint check_all (atomic : bool) (P : config -> bool) (fuel : nat) (c : config) : bool :=
  match fuel with
  | O => false
  | S f => match nexts atomic c with
           | [] => P c
           | ns => forallb (check_all atomic P f) ns
           end
  end.

(* an upper bound on the number of steps a configuration can still take *)
Definition msize (m : micro) : nat :=
  match m with MRegister _ _ => 6 | MChkRt => 2 | MCas _ _ => 2 | MRtCas _ => 2 | MLookup _ => 2 | MLoad _ => 2
             | MTypeIDs => 2 | MBuild _ _ => 2 | _ => 1 end.
Definition ksize (ms : list micro) : nat := list_sum (map msize ms).
Definition tsize (t : thr) : nat :=
  (match cur t with Some (_, _, ms) => ksize ms | None => 0 end) + 20 * length (todo t).
Definition csize (c : config) : nat := list_sum (map tsize (thrs c)).

(* ------------------------------------------------------------------ linearizability checker *)
(* vm_compute is call-by-value: [existsb]/[&&] would evaluate every alternative even after a success.
   These versions stop at the first success / failure. *)
Fixpoint ex_lazy {A} (f : A -> bool) (l : list A) : bool :=
  match l with [] => false | a :: t => if f a then true else ex_lazy f t end.
Fixpoint all_lazy {A} (f : A -> bool) (l : list A) : bool :=
  match l with [] => true | a :: t => if f a then all_lazy f t else false end.

Fixpoint remove_at {A} (n : nat) (l : list A) : list A :=
  match l, n with [], _ => [] | _ :: t, O => t | h :: t, S k => h :: remove_at k t end.

Section Lin.
  Context {St : Type}.
  Variable step : St -> op -> St * ret.

  Fixpoint lin (fuel : nat) (s : St) (pending : list ev) : bool :=
    match fuel with
    | O => match pending with [] => true | _ => false end
    | S f =>
        match pending with
        | [] => true
        | _ =>
            ex_lazy (fun k =>
              match nth_error pending k with
              | None => false
              | Some e =>
                  let rest := remove_at k pending in
                  (* e may be linearized first only if no other pending operation returned before e was invoked *)
                  if all_lazy (fun e' => negb (e_res e' <? e_inv e)) rest then
                    (let '(s', r) := step s (e_op e) in if ret_eqb r (e_ret e) then lin f s' rest else false)
                  else false
              end) (seq 0 (length pending))
        end
    end.
End Lin.

Definition lin_check (s : spec) (h : list ev) : bool := lin spec_step (length h) s h.

(* ------------------------------------------------------------------ relaxed specification (classification of F10-class histories)
   A Close takes effect in two parts that both lie inside its interval: [mark] (the closed word becomes visible,
   later closes are no-ops that may return at once) and [unlink] (the name is released). Likewise Runtime.Close:
   [mark] (compile/instantiate fail from now on) and [sweep] (all modules closed, names released).
   With [rt_relaxed = false] only module closes are split. *)
Record rspec := { r_s : spec; r_pend : list (inst * nat);   (* instance, id of the winning close event *)
                  r_rtpend : option (nat * code) }.          (* winning runtime-close event not yet swept *)

(* pseudo operations: the event id is carried in the exit-code field of the second half *)
Inductive half := HWhole | HMark | HFinish.

Definition rspec_step (rt_relaxed : bool) (rs : rspec) (x : half * nat * op) : rspec * ret :=
  let '(h, id, o) := x in
  let s := r_s rs in
  match h, o with
  | HMark, OClose i c =>
      match lookup i (exits s) with
      | Some _ => (rs, ROk)
      | None => ({| r_s := {| names := names s; opened := remove i (opened s); exits := (i, c) :: exits s; closed_rt := closed_rt s |};
                    r_pend := (i, id) :: r_pend rs; r_rtpend := r_rtpend rs |}, ROk)
      end
  | HFinish, OClose i c =>
      match lookup i (exits s) with
      | None => (rs, RErrDup)                                  (* unlink before the mark: not allowed *)
      | Some _ =>
          if existsb (fun p => (fst p =? i) && (snd p =? id)) (r_pend rs)
          then ({| r_s := {| names := remove_inst i (names s); opened := opened s; exits := exits s; closed_rt := closed_rt s |};
                   r_pend := filter (fun p => negb (fst p =? i)) (r_pend rs); r_rtpend := r_rtpend rs |}, ROk)
          else (rs, ROk)
      end
  | HMark, ORtClose c =>
      if closed_rt s then (rs, ROk)
      else ({| r_s := {| names := names s; opened := opened s; exits := exits s; closed_rt := true |};
               r_pend := r_pend rs; r_rtpend := Some (id, c) |}, ROk)
  | HFinish, ORtClose c =>
      if negb (closed_rt s) then (rs, RErrDup)
      else match r_rtpend rs with
           | Some (id', c') =>
               if id' =? id
               then ({| r_s := {| names := []; opened := []; exits := map (fun i => (i, c')) (opened s) ++ exits s; closed_rt := true |};
                        r_pend := r_pend rs; r_rtpend := None |}, ROk)
               else (rs, ROk)
           | None => (rs, ROk)
           end
  | _, _ => let '(s', r) := spec_step s o in ({| r_s := s'; r_pend := r_pend rs; r_rtpend := r_rtpend rs |}, r)
  end.

(* the relaxed checker works on pseudo events; the half and the id are encoded in a wrapper event list *)
Record pev := { p_half : half; p_id : nat; p_ev : ev }.

Fixpoint rlin (rt_relaxed : bool) (fuel : nat) (rs : rspec) (pending : list pev) : bool :=
  match fuel with
  | O => match pending with [] => true | _ => false end
  | S f =>
      match pending with
      | [] => true
      | _ =>
          ex_lazy (fun k =>
            match nth_error pending k with
            | None => false
            | Some p =>
                let e := p_ev p in
                let rest := remove_at k pending in
                if all_lazy (fun p' => negb (e_res (p_ev p') <? e_inv e)) rest then
                  (let '(rs', r) := rspec_step rt_relaxed rs (p_half p, p_id p, e_op e) in
                   if (match p_half p with HMark => true | _ => ret_eqb r (e_ret e) end) then rlin rt_relaxed f rs' rest else false)
                else false
            end) (seq 0 (length pending))
      end
  end.

Fixpoint split_events (rt_relaxed : bool) (id : nat) (h : list ev) : list pev :=
  match h with
  | [] => []
  | e :: r =>
      (match e_op e with
       | OClose _ _ => [{| p_half := HMark; p_id := id; p_ev := e |}; {| p_half := HFinish; p_id := id; p_ev := e |}]
       | ORtClose _ => if rt_relaxed
                       then [{| p_half := HMark; p_id := id; p_ev := e |}; {| p_half := HFinish; p_id := id; p_ev := e |}]
                       else [{| p_half := HWhole; p_id := id; p_ev := e |}]
       | _ => [{| p_half := HWhole; p_id := id; p_ev := e |}]
       end) ++ split_events rt_relaxed (S id) r
  end.

Definition rlin_check (rt_relaxed : bool) (s : spec) (h : list ev) : bool :=
  let ps := split_events rt_relaxed 0 h in
  rlin rt_relaxed (length ps) {| r_s := s; r_pend := []; r_rtpend := None |} ps.

(* the same check with the order of the pseudo events supplied from outside (a hint found by an untrusted search):
   [perm] must be a permutation of the indices of [split_events]; the first candidate then always succeeds *)
Definition perm_ok (perm : list nat) (n : nat) : bool :=
  if length perm =? n then all_lazy (fun i => ex_lazy (Nat.eqb i) perm) (seq 0 n) else false.

Definition rlin_check_perm (rt_relaxed : bool) (s : spec) (h : list ev) (perm : list nat) : bool :=
  let ps := split_events rt_relaxed 0 h in
  match ps with
  | [] => true
  | p0 :: _ =>
      if perm_ok perm (length ps)
      then rlin rt_relaxed (length ps) {| r_s := s; r_pend := []; r_rtpend := None |} (map (fun i => nth i ps p0) perm)
      else false
  end.

(* 0 = linearizable; 1 = only under the relaxed module-close (F10 class); 2 = only when the runtime close is
   relaxed as well; 3 = not explained at all *)
Definition classify (s : spec) (h : list ev) : Z :=
  if lin_check s h then 0%Z else if rlin_check false s h then 1%Z else if rlin_check true s h then 2%Z else 3%Z.

(* ------------------------------------------------------------------ correspondence cases *)
(* sequential case: operations, observed results, observed counters (instance, notifications, fs closes; fs = 99 means
   "not observed") *)
Definition seq_case := (list op * list ret * list (inst * nat * nat))%type.

Fixpoint first_diff (i : Z) (xs : list (option ret)) (ys : list ret) : Z :=
  match xs, ys with
  | [], [] => (-1)%Z
  | Some x :: xr, y :: yr => if ret_eqb x y then first_diff (i + 1) xr yr else i
  | _, _ => i
  end.

Definition counters_ok (s : impl) (cs : list (inst * nat * nat)) : bool :=
  forallb (fun x => let '(i, nn, nf) := x in
                    (count i (notified s) =? nn) && ((nf =? 99) || (count i (res_log s) =? nf))) cs.

Definition check_seq (c : seq_case) : Z :=
  let '(ops, obs, cs) := c in
  let '(s, rs) := run_ops impl0 ops in
  let d := first_diff 0 rs obs in
  if (d =? -1)%Z then (if counters_ok s cs then (-1)%Z else (-2)%Z) else d.

Fixpoint mismatches (i : Z) (cs : list seq_case) : list (Z * Z) :=
  match cs with
  | [] => []
  | c :: r => let d := check_seq c in
              if (d =? -1)%Z then mismatches (i + 1) r else (i, d) :: mismatches (i + 1) r
  end.

(* concurrent case: a complete history from the empty runtime; result = classification *)
Fixpoint classify_all (i : Z) (hs : list (list ev)) : list (Z * Z) :=
  match hs with
  | [] => []
  | h :: r => let d := classify spec0 h in
              if (d =? 0)%Z then classify_all (i + 1) r else (i, d) :: classify_all (i + 1) r
  end.

(* histories that an untrusted search found not linearizable, with its relaxed explanation as a hint:
   (history, runtime close relaxed?, order of the pseudo events); result 1 = the relaxed explanation checks *)
Fixpoint relaxed_all (hs : list (list ev * bool * list nat)) : list Z :=
  match hs with
  | [] => []
  | (h, rt, perm) :: r => (if rlin_check_perm rt spec0 h perm then 1%Z else 0%Z) :: relaxed_all r
  end.

(* linearizable histories, events already in a witness order: index of every history whose check fails *)
Fixpoint lin_all (i : Z) (hs : list (list ev)) : list Z :=
  match hs with
  | [] => []
  | h :: r => if lin_check spec0 h then lin_all (i + 1) r else i :: lin_all (i + 1) r
  end.

(* forced-schedule case: program, per-thread results observed on the real code; the model must be able to produce
   the same results under some schedule of the same kind *)
Definition rets_of (c : config) (nthreads : nat) : list (list ret) :=
  map (fun k => rev (map e_ret (filter (fun e => e_thr e =? k) (hist c)))) (seq 0 nthreads).

Fixpoint rets_eqb (a b : list ret) : bool :=
  match a, b with [], [] => true | x :: xr, y :: yr => ret_eqb x y && rets_eqb xr yr | _, _ => false end.
Fixpoint retss_eqb (a b : list (list ret)) : bool :=
  match a, b with [], [] => true | x :: xr, y :: yr => rets_eqb x y && retss_eqb xr yr | _, _ => false end.

Definition add_out (x : list (list ret)) (acc : list (list (list ret))) : list (list (list ret)) :=
  if existsb (retss_eqb x) acc then acc else x :: acc.

(* the set of per-thread result vectors over all maximal runs (DFS, nothing but the set is kept) *)
Fixpoint collect (atomic : bool) (fuel : nat) (c : config) (acc : list (list (list ret))) : list (list (list ret)) :=
  match fuel with
  | O => acc
  | S f => match nexts atomic c with
           | [] => if finished c then add_out (rets_of c (length (thrs c))) acc else acc
           | ns => fold_left (fun a c' => collect atomic f c' a) ns acc
           end
  end.

Definition model_outcomes (atomic : bool) (pre : list op) (prog : list (list op)) : list (list (list ret)) :=
  let c := init (fst (run_ops impl0 pre)) prog in collect atomic (S (csize c)) c [].

Fixpoint missing_from (i : Z) (outs obs : list (list (list ret))) : list Z :=
  match obs with
  | [] => []
  | o :: r => if existsb (retss_eqb o) outs then missing_from (i + 1) outs r else i :: missing_from (i + 1) outs r
  end.

(* indices of observed result vectors that no schedule of the model produces *)
Definition outcomes_missing (atomic : bool) (pre : list op) (prog : list (list op)) (obs : list (list (list ret))) : list Z :=
  missing_from 0 (model_outcomes atomic pre prog) obs.
