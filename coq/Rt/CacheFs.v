(* C13: model of the cache directory and of fileCache.Add (internal/filecache/file_cache.go).

   A directory is an association list name -> file. Names are the final name of a key
   (hex of the key) and the temporary names `<final>.<random>.tmp` made by os.CreateTemp.
   Add(key, content) is the step sequence
       create temp (O_EXCL: a fresh name) ; write chunk* ; sync ; close ; rename temp -> final
   where the chunking of the copy is arbitrary, rename is atomic (POSIX rename(2)), and on any
   error after the creation the deferred function closes and removes the temp file.
   Any number of writers (processes or goroutines) run concurrently: an event names the writer that
   moves next, so a list of events is an arbitrary interleaving. A writer may crash at any point
   ([ECrash]: it never moves again and cleans nothing up), an I/O error may be injected at any step
   ([EFail]), and a reader that found a stale entry may delete the final name at any time ([EDelete]).
   Files also carry a `synced` flag (set by fsync, cleared by a write, carried by rename) so that the
   order sync-before-rename is part of the model.
   No proofs in this file. *)
From Verif Require Import Lib.GoInt Rt.CacheCodec.
Open Scope Z_scope.

Inductive name := Final (k : Z) | Tmp (k : Z) (id : Z).

Definition name_eqb (a b : name) : bool :=
  match a, b with
  | Final x, Final y => x =? y
  | Tmp x i, Tmp y j => (x =? y) && (i =? j)
  | _, _ => false
  end.

Record file := { f_data : bytes; f_synced : bool }.

Definition dir := list (name * file).

Fixpoint lookup (n : name) (d : dir) : option file :=
  match d with
  | [] => None
  | (m, f) :: r => if name_eqb n m then Some f else lookup n r
  end.

Fixpoint remove (n : name) (d : dir) : dir :=
  match d with
  | [] => []
  | (m, f) :: r => if name_eqb n m then remove n r else (m, f) :: remove n r
  end.

Definition set (n : name) (f : file) (d : dir) : dir := (n, f) :: remove n d.

(* program counter of one Add call *)
Inductive pc :=
| PInit                          (* before os.CreateTemp *)
| PCopy (id : Z) (off : nat)     (* temp file `id` exists, `off` bytes of the content written *)
| PSynced (id : Z)               (* after file.Sync *)
| PClosed (id : Z)               (* after file.Close *)
| PDone (ok : bool)              (* Add returned (nil / an error) *)
| PCrashed.                      (* the process died *)

Inductive event :=
| EStep (w : nat) (p : Z)   (* writer w performs its next step; p = the temp suffix drawn by CreateTemp, or the chunk size of a write *)
| EFail (w : nat)           (* the next step of writer w returns an error: failure path of Add *)
| ECrash (w : nat)          (* writer w dies *)
| EDelete (k : Z).          (* fileCache.Delete(k) by some reader *)

Record state := { s_dir : dir; s_pc : nat -> pc }.

Definition upd (f : nat -> pc) (i : nat) (x : pc) : nat -> pc :=
  fun j => if Nat.eqb j i then x else f j.

Definition chunk (p : Z) (remaining : nat) : nat := Nat.max 1 (Nat.min (Z.to_nat p) remaining).

Section Fs.
Variable wkey : nat -> Z.        (* key written by writer w *)
Variable wdata : nat -> bytes.   (* content written by writer w *)

Definition mk (d : dir) (p : nat -> pc) : state := {| s_dir := d; s_pc := p |}.

Definition step (s : state) (e : event) : state :=
  let d := s_dir s in
  match e with
  | EDelete k => mk (remove (Final k) d) (s_pc s)
  | ECrash w =>
    match s_pc s w with
    | PDone _ => s
    | _ => mk d (upd (s_pc s) w PCrashed)
    end
  | EFail w =>
    match s_pc s w with
    | PInit => mk d (upd (s_pc s) w (PDone false))                 (* CreateTemp failed: nothing was created *)
    | PCopy id _ | PSynced id | PClosed id =>                      (* deferred: Close, os.Remove(temp) *)
      mk (remove (Tmp (wkey w) id) d) (upd (s_pc s) w (PDone false))
    | _ => s
    end
  | EStep w p =>
    match s_pc s w with
    | PInit =>
      let n := Tmp (wkey w) p in
      match lookup n d with
      | Some _ => s                                                (* O_EXCL: name taken, CreateTemp draws again *)
      | None => mk (set n {| f_data := []; f_synced := true |} d) (upd (s_pc s) w (PCopy p 0))
      end
    | PCopy id off =>
      let n := Tmp (wkey w) id in
      match lookup n d with
      | None => s
      | Some f =>
        if (off <? length (wdata w))%nat then
          let c := chunk p (length (wdata w) - off) in
          mk (set n {| f_data := f_data f ++ firstn c (skipn off (wdata w)); f_synced := false |} d)
             (upd (s_pc s) w (PCopy id (off + c)))
        else mk (set n {| f_data := f_data f; f_synced := true |} d) (upd (s_pc s) w (PSynced id))
      end
    | PSynced id => mk d (upd (s_pc s) w (PClosed id))
    | PClosed id =>
      let n := Tmp (wkey w) id in
      match lookup n d with
      | None => s
      | Some f => mk (set (Final (wkey w)) f (remove n d)) (upd (s_pc s) w (PDone true))
      end
    | _ => s
    end
  end.

Definition init (d0 : dir) : state := mk d0 (fun _ => PInit).

Definition run (d0 : dir) (evs : list event) : state := fold_left step evs (init d0).

End Fs.

(* ---- observation of a directory, as the harness lists it ---- *)
Fixpoint temps_of (k : Z) (d : dir) : list bytes :=
  match d with
  | [] => []
  | (Tmp k' _, f) :: r => if k' =? k then f_data f :: temps_of k r else temps_of k r
  | _ :: r => temps_of k r
  end.

Definition final_of (k : Z) (d : dir) : option bytes :=
  match lookup (Final k) d with Some f => Some (f_data f) | None => None end.

Fixpoint remove_first (x : bytes) (l : list bytes) : option (list bytes) :=
  match l with
  | [] => None
  | y :: r => if bytes_eqb x y then Some r
              else match remove_first x r with Some r' => Some (y :: r') | None => None end
  end.

Fixpoint perm_eqb (a b : list bytes) : bool :=
  match a with
  | [] => match b with [] => true | _ => false end
  | x :: a' => match remove_first x b with Some b' => perm_eqb a' b' | None => false end
  end.

Fixpoint is_prefixb (a b : bytes) : bool :=
  match a, b with
  | [], _ => true
  | x :: a', y :: b' => (x =? y) && is_prefixb a' b'
  | _ :: _, [] => false
  end.

(* ---- correspondence cases ----
   kind 0 (exact): one key (0); writer contents; the events the harness drove (crash point = a prefix
     of the steps of Add, followed by later complete Adds); the listing must equal the model's state.
   kind 1 (invariant only: concurrent processes, asynchronous kills): the listing must satisfy what
     C13_crash_safe states: final absent or some writer's complete content, temps are prefixes. *)
Definition fcase := (Z * list bytes * list event * option bytes * list bytes)%type.

Definition nth_bytes (l : list bytes) (i : nat) : bytes := nth i l [].

Definition fcheck (c : fcase) : Z :=
  let '(kind, contents, evs, fin, temps) := c in
  if kind =? 0 then
    let s := run (fun _ => 0) (nth_bytes contents) [] evs in
    if negb (opt_bytes_eqb (final_of 0 (s_dir s)) fin) then 1
    else if negb (perm_eqb (temps_of 0 (s_dir s)) temps) then 2 else -1
  else
    if negb (match fin with None => true | Some b => existsb (bytes_eqb b) contents end) then 3
    else if negb (forallb (fun t => existsb (is_prefixb t) contents) temps) then 4 else -1.

Fixpoint fs_mismatches (i : Z) (cs : list fcase) : list (Z * Z) :=
  match cs with
  | [] => []
  | c :: r => let d := fcheck c in
              if d =? -1 then fs_mismatches (i + 1) r else (i, d) :: fs_mismatches (i + 1) r
  end.
