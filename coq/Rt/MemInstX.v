(* C14 extension of Rt/MemInst.v (which stays as it is: C12 and C15 build on it):
     - ALLOCATOR FAILURE: experimental.LinearMemory.Reallocate may return nil. The allocator is an
       arbitrary oracle: every grow operation of a history carries the answer the allocator gives IF it
       is asked ([asks]); quantifying over histories quantifies over all failure patterns. The answer to
       the request made at instantiation (Reallocate(minBytes)) is part of the configuration.
     - SHARED memories (threads feature): decodeMemory wants the feature and an encoded maximum,
       NewMemoryInstance allocates make([]byte, min, maxBytes) so Cap = Max, Grow only stores a new length
       (or panics "shared memory cannot be grown, this is a bug in wazero" when Cap is too small: an explicit
       [Panic] outcome here, proved unreachable). Sequential behaviour only: the mutex and the atomic
       stores of Grow have no sequential content.
     - TWO VIEWS of one memory (exporter / importer of an imported memory): every operation carries the view
       it is made through; the model has ONE memory, so the view cannot matter (MemInstXP.xrun_views);
       the correspondence run alternates the views on the real engines.
   The control flow of Grow / NewMemoryInstance / decodeMemory is transcribed by hand from
   internal/wasm/memory.go and internal/wasm/binary/memory.go; arithmetic comes from coq/Gen. No proofs here. *)
From Verif Require Import Lib.GoInt Gen.GenWasm Gen.GenBinary Rt.MemInst.
Open Scope Z_scope.

Record xcfg := { x_c : cfg;
                 x_shared : bool;      (* limits flag 0x02/0x03 *)
                 x_threads : bool;     (* experimental.CoreFeaturesThreads enabled on the runtime *)
                 x_min_ans : bool }.   (* allocator's answer to Reallocate(minBytes) at instantiation *)

(* binary.decodeMemory: shared needs the feature and an encoded maximum; then the sizer and Validate *)
Definition xaccept (x : xcfg) : bool :=
  (if x_shared x then x_threads x && c_hasmax (x_c x) else true) && accept (x_c x).

(* wasm.NewMemoryInstance. None: the Go panic of `_ = buffer[:minBytes]` on a nil buffer *)
Definition xinit (x : xcfg) : option mem :=
  let c := x_c x in
  let m0 := mem_init c in
  if c_alloc c then
    if x_min_ans x then Some m0
    else if m_len m0 =? 0 then Some m0      (* nil[:0] is fine: an empty memory whose allocator is asked again later *)
    else None
  else if x_shared x then Some (with_len m0 (m_len m0) (m_max m0))   (* make([]byte, minBytes, maxBytes) *)
  else Some m0.

(* what the allocator is asked at instantiation: Allocate(capBytes, maxBytes) and Reallocate(minBytes) *)
Definition xinit_req (x : xcfg) : Z * Z * Z :=
  let '(mn, cp, mx) := sized (x_c x) in
  (MemoryPagesToBytesNum cp, MemoryPagesToBytesNum mx, MemoryPagesToBytesNum mn).

(* MemoryInstance.Grow, all branches. [ans]: what Reallocate answers (true: a buffer, false: nil) *)
Definition xgrow (sh : bool) (m : mem) (ans : bool) (delta : Z) : mem * outcome :=
  let cur := pages m in
  if delta =? 0 then (m, Ok cur) else
  let newPages := wrap 32 (cur + delta) in
  if (m_max m <? newPages) || (swrap 32 delta <? 0) then (m, Fail)
  else if m_alloc m then
    if ans then (with_len m (MemoryPagesToBytesNum newPages) newPages, Ok cur)  (* Cap of an allocator-backed memory is never read again *)
    else (m, Fail)
  else if m_cap m <? newPages then
    if sh then (m, Panic)
    else (with_len m (m_len m + MemoryPagesToBytesNum delta) newPages, Ok cur)
  else (with_len m (MemoryPagesToBytesNum newPages) (m_cap m), Ok cur).

(* the allocator is consulted by Grow exactly here, with this size *)
Definition asks (m : mem) (delta : Z) : bool :=
  negb (delta =? 0) && negb ((m_max m <? wrap 32 (pages m + delta)) || (swrap 32 delta <? 0)) && m_alloc m.

Definition ask_size (m : mem) (delta : Z) : Z := MemoryPagesToBytesNum (wrap 32 (pages m + delta)).

(* ---- histories ---- *)
Inductive xop :=
| XGrow (view : bool) (ans : bool) (d : Z)   (* guest memory.grow or host Grow through a view; the allocator's answer if asked *)
| XBase (view : bool) (o : op).              (* any operation of the base model (an OGrow here: the allocator agrees) *)

Definition xstep (sh : bool) (m : mem) (o : xop) : mem * outcome :=
  match o with
  | XGrow _ ans d => xgrow sh m ans d
  | XBase _ (OGrow d) => xgrow sh m true d
  | XBase _ b => step m b
  end.

Fixpoint xrun (sh : bool) (m : mem) (ops : list xop) : mem * list outcome :=
  match ops with
  | [] => (m, [])
  | o :: r => let '(m1, x) := xstep sh m o in let '(m2, xs) := xrun sh m1 r in (m2, x :: xs)
  end.

Definition xfinal (sh : bool) (m : mem) (ops : list xop) : mem := fold_left (fun s o => fst (xstep sh s o)) ops m.

(* the request each operation makes to the allocator: -1 none, else the size in bytes *)
Definition xreq (m : mem) (o : xop) : Z :=
  match o with
  | XGrow _ _ d | XBase _ (OGrow d) => if asks m d then ask_size m d else -1
  | _ => -1
  end.

Fixpoint xreqs (sh : bool) (m : mem) (ops : list xop) : list Z :=
  match ops with
  | [] => []
  | o :: r => xreq m o :: xreqs sh (fst (xstep sh m o)) r
  end.

(* embedding of base histories, and forgetting the views *)
Definition lift (o : op) : xop := match o with OGrow d => XGrow false true d | b => XBase false b end.
Definition set_view (v : bool) (o : xop) : xop :=
  match o with XGrow _ a d => XGrow v a d | XBase _ b => XBase v b end.

(* ---- correspondence cases ----
   status: 0 the configuration is refused (decode/validate error), 1 instantiated, 2 instantiation panicked
   (allocator refused the minimum). reqs: per operation what the allocator was asked (-1: nothing). *)
Definition xcase := (xcfg * Z * list xop * list outcome * list Z)%type.

Definition xstatus (x : xcfg) : Z :=
  if xaccept x then match xinit x with Some _ => 1 | None => 2 end else 0.

Fixpoint first_zdiff (i : Z) (xs ys : list Z) : Z :=
  match xs, ys with
  | [], [] => -1
  | x :: xr, y :: yr => if x =? y then first_zdiff (i + 1) xr yr else i
  | _, _ => i
  end.

(* -1 agreement; -2 status differs; i >= 0 first differing observation; 1000000 + i first differing allocator request *)
Definition check_xcase (c : xcase) : Z :=
  let '(x, st, ops, obs, reqs) := c in
  if negb (xstatus x =? st) then -2
  else match (if st =? 1 then xinit x else None) with
       | None => -1
       | Some m0 =>
           let d := first_diff 0 (snd (xrun (x_shared x) m0 ops)) obs in
           if negb (d =? -1) then d
           else if c_alloc (x_c x) then
                  let r := first_zdiff 0 (xreqs (x_shared x) m0 ops) reqs in
                  if r =? -1 then -1 else 1000000 + r
                else -1
       end.

Fixpoint xmismatches (i : Z) (cs : list xcase) : list (Z * Z) :=
  match cs with
  | [] => []
  | c :: r => let d := check_xcase c in
              if d =? -1 then xmismatches (i + 1) r else (i, d) :: xmismatches (i + 1) r
  end.
