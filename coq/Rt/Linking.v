(* C04: linking. (i) import matching as internal/wasm/store.go resolveImports does it, (ii) the
   specification's import subtyping [extern_match], (iii) constant expressions and the instantiation
   sequence of store.go instantiate (validated constant expressions, resolve imports, allocate,
   initialise globals, active element segments, active data segments, start: the order since 9ab0d2d)
   as a function on the multi-instance store of the reference semantics W (Wasm/Sem.v), where
   sharing is identity of store addresses.
   The page arithmetic and the normalisation of a declared memory maximum come from coq/Gen
   (regenerated from internal/wasm/memory.go and internal/wasm/binary/decoder.go on every run); the
   control structure is transcribed by hand and tied to the code by the C04 correspondence harness,
   which instantiates generated module graphs on both engines and replays them through [instantiate].
   Executable definitions only: no proofs in this file. *)
From Verif Require Import Lib.GoInt Gen.GenC04Wasm Gen.GenC04Binary Wasm.Numerics Wasm.Sem.
Open Scope Z_scope.

(* ================================================================ (ii) specification: import subtyping *)
Record limits := { l_min : Z; l_hasmax : bool; l_max : Z }.

(* {min n1, max m1?} <= {min n2, max m2?}  iff  n1 >= n2 and (m2 absent or (m1 present and m1 <= m2)) *)
Definition limits_match (act imp : limits) : bool :=
  (l_min imp <=? l_min act) &&
  (if l_hasmax imp then l_hasmax act && (l_max act <=? l_max imp) else true).

(* value / reference types are their binary codes (0x7f i32, 0x7e i64, 0x70 funcref, 0x6f externref, ...) *)
Inductive externtype :=
| TFunc (ps rs : list Z)
| TTable (l : limits) (et : Z)
| TMem (l : limits) (shared : bool)      (* threads proposal: memtype = limits + shared flag *)
| TGlobal (mut : bool) (vt : Z).

Definition extern_match (act imp : externtype) : bool :=
  match act, imp with
  | TFunc p r, TFunc p' r' => list_eqb p p' && list_eqb r r'
  | TTable l e, TTable l' e' => limits_match l l' && (e =? e')
  | TMem l sh, TMem l' sh' => limits_match l l' && Bool.eqb sh sh'   (* limits match AND the shared flags are equal *)
  | TGlobal m v, TGlobal m' v' => Bool.eqb m m' && (v =? v')
  | _, _ => false
  end.

(* ================================================================ (i) the code: resolveImports *)
(* the exported object as resolveImports sees it *)
Inductive xobj :=
| XFunc (ps rs : list Z)                                       (* Source.typeOfFunction(index) *)
| XTable (tmin : Z) (thasmax : bool) (tmax : Z) (ttype : Z)    (* TableInstance.Min (the declared minimum) / Max / Type ... *)
         (tlen : Z)                                            (* ... len(References): the table's CURRENT size *)
| XMem (buflen : Z) (maxN : Z)                                 (* len(Buffer), MemoryInstance.Max (normalised by the decoder) ... *)
       (mhasmax : bool) (mdecl : Z)                            (* ... the declared maximum: read by the specification only *)
       (mshared : bool)                                        (* MemoryInstance.Shared *)
| XGlobal (mut : bool) (vt : Z).

(* the import description of the importing module (Import.DescFunc/DescTable/DescMem/DescGlobal) *)
Inductive idesc :=
| DFunc (ps rs : list Z)
| DTable (min : Z) (hasmax : bool) (max : Z) (et : Z)
| DMem (min : Z) (hasmax : bool) (max : Z) (shared : bool)    (* Memory.IsShared of the import description *)
| DGlobal (mut : bool) (vt : Z).

(* Memory.Max as the binary decoder stores it: decoder.go newMemorySizer (regenerated) *)
Definition norm_max (L mn : Z) (hasmax : bool) (mx : Z) : Z :=
  let '(_, _, m) := newMemorySizer L false mn (negb hasmax) mx in m.

(* error classes: 0 accepted; 1 export of another kind; 2 signature; 3 table element type; 4 minimum;
   5 importer has a maximum, exporter has none; 6 maximum; 7 mutability; 8 value type; 9 shared flag of a memory
   (checked last, since adbc65a) *)
Definition code_accept (L : Z) (d : idesc) (x : xobj) : Z :=
  match d, x with
  | DFunc p r, XFunc p' r' => if list_eqb p' p && list_eqb r' r then 0 else 2
  | DTable mn hm mx et, XTable tmin thm tmx tty tlen =>
      if negb (et =? tty) then 3
      else if Z.max tmin tlen <? mn then 4                    (* expected.Min > max(importedTable.Min, len(References)): the CURRENT size, as
                                                                 for memories below (since 3fc425f; before, only the DECLARED minimum was
                                                                 consulted and imports of a grown table that the specification accepts were
                                                                 rejected: witness w-table-grown of the check, sig rejects-spec-accepts /
                                                                 table-current-size) *)
      else if hm then (if negb thm then 5 else if mx <? tmx then 6 else 0)
      else 0
  | DMem mn hm mx sh, XMem buflen maxN _ _ xsh =>
      if memoryBytesNumToPages buflen <? mn then 4            (* expected.Min > pages(len(Buffer)): the CURRENT size *)
      else if norm_max L mn hm mx <? maxN then 6              (* expected.Max < importedMemory.Max, both normalised *)
      else if negb (Bool.eqb sh xsh) then 9                   (* expected.IsShared != importedMemory.Shared *)
      else 0
  | DGlobal m v, XGlobal m' v' =>
      if negb (Bool.eqb m m') then 7 else if negb (v =? v') then 8 else 0
  | _, _ => 1
  end.

(* the specification's view of the same two things: the external type of the exported object
   (limits carry the CURRENT size as minimum) and the declared import type *)
Definition spec_of_xobj (x : xobj) : externtype :=
  match x with
  | XFunc p r => TFunc p r
  | XTable _ thm tmx tty tlen => TTable {| l_min := tlen; l_hasmax := thm; l_max := tmx |} tty
  | XMem buflen _ hm mx sh => TMem {| l_min := buflen / 65536; l_hasmax := hm; l_max := mx |} sh
  | XGlobal m v => TGlobal m v
  end.
Definition spec_of_idesc (d : idesc) : externtype :=
  match d with
  | DFunc p r => TFunc p r
  | DTable mn hm mx et => TTable {| l_min := mn; l_hasmax := hm; l_max := mx |} et
  | DMem mn hm mx sh => TMem {| l_min := mn; l_hasmax := hm; l_max := mx |} sh
  | DGlobal m v => TGlobal m v
  end.

(* ================================================================ (iii-a) global cells as the code keeps them *)
(* GlobalInstance.Val next to the cell the engine's global.get/global.set use. The interpreter uses
   Val itself; the compiler owns the cell (OwnsGlobals) and never writes Val back. *)
Record ginst := { g_val : Z; g_live : Z; g_mut : bool; g_w : Z }.

Inductive cexpr := CConst (w c : Z) | CGlobalGet (k : nat).

Definition gnth (st : list ginst) (a : nat) : ginst := nth a st {| g_val := 0; g_live := 0; g_mut := false; g_w := 32 |}.

(* GlobalInstance.initialize / executeConstExpressionI32 / applyElements: all read the Val FIELD *)
Definition init_value_code (st : list ginst) (imps : list nat) (w : Z) (e : cexpr) : Z :=
  match e with
  | CConst _ c => modN w c
  | CGlobalGet k => modN w (g_val (gnth st (nth k imps O)))
  end.
(* the specification reads the global's current value *)
Definition init_value_spec (st : list ginst) (imps : list nat) (w : Z) (e : cexpr) : Z :=
  match e with
  | CConst _ c => modN w c
  | CGlobalGet k => modN w (g_live (gnth st (nth k imps O)))
  end.

(* validateConstExpression after the F02 repair: global.get only of an imported IMMUTABLE global *)
Definition valid_cexpr (st : list ginst) (imps : list nat) (e : cexpr) : bool :=
  match e with
  | CConst _ _ => true
  | CGlobalGet k => (Nat.ltb k (length imps)) && negb (g_mut (gnth st (nth k imps O)))
  end.
(* table.go verifyImportGlobalI32, used for element-segment offsets: imported, i32 and (since the repair of
   7de74ee) immutable. [valid_elem_offset_before_fix] is the check as it was: no mutability test. *)
Definition valid_elem_offset (st : list ginst) (imps : list nat) (e : cexpr) : bool :=
  match e with
  | CConst _ _ => true
  | CGlobalGet k => (Nat.ltb k (length imps)) && (g_w (gnth st (nth k imps O)) =? 32) && negb (g_mut (gnth st (nth k imps O)))
  end.
Definition valid_elem_offset_before_fix (st : list ginst) (imps : list nat) (e : cexpr) : bool :=
  match e with
  | CConst _ _ => true
  | CGlobalGet k => (Nat.ltb k (length imps)) && (g_w (gnth st (nth k imps O)) =? 32)
  end.

Inductive gop :=
| GSet (a : nat) (v : Z)                                   (* guest global.set / api.MutableGlobal.Set: validated, mutable only *)
| GAlloc (mut : bool) (w : Z) (imps : list nat) (e : cexpr). (* buildGlobals of a later instantiation *)

Definition gset (owns : bool) (g : ginst) (v : Z) : ginst :=
  if owns then {| g_val := g_val g; g_live := modN (g_w g) v; g_mut := g_mut g; g_w := g_w g |}
  else {| g_val := modN (g_w g) v; g_live := modN (g_w g) v; g_mut := g_mut g; g_w := g_w g |}.

Definition gstep (owns : bool) (st : list ginst) (o : gop) : list ginst :=
  match o with
  | GSet a v => if g_mut (gnth st a) then upd st a (gset owns (gnth st a) v) else st
  | GAlloc mut w imps e =>
      if valid_cexpr st imps e then
        let v := init_value_code st imps w e in
        st ++ [{| g_val := v; g_live := v; g_mut := mut; g_w := w |}]
      else st
  end.

Definition grun (owns : bool) (ops : list gop) : list ginst := fold_left (gstep owns) ops [].

(* ================================================================ (iii-b) instantiation on the store of W *)
Inductive extern := EFunc (a : nat) | ETab (a : nat) | EMem (a : nat) | EGlob (a : nat).

Inductive importdesc :=
| IFunc (ty : nat)                                       (* index into the importer's type section *)
| ITable (min : Z) (hasmax : bool) (max : Z) (et : Z)
| IMem (min : Z) (hasmax : bool) (max : Z) (shared : bool)
| IGlobal (mut : bool) (w : Z).
(* the exporter is named by its position in the sequence of instantiations; names are numbers *)
Record import := { im_mod : nat; im_name : Z; im_desc : importdesc }.

Record fdef := { fd_type : nat; fd_locals : nat; fd_body : list instr }.
Record gdef := { gd_mut : bool; gd_w : Z; gd_init : cexpr }.

Record modul := {
  md_types : list (list Z * list Z);                     (* parameter / result widths *)
  md_imports : list import;
  md_funcs : list fdef;
  md_table : option (Z * bool * Z);                      (* funcref table: min, has max, max *)
  md_mem : option (Z * bool * Z * bool);                 (* min, has max, max, shared *)
  md_globals : list gdef;
  md_exports : list (Z * extern);                        (* name, module-local index *)
  md_elems : list (cexpr * list (option nat));           (* active, table 0: offset, function indices (None = ref.null) *)
  md_datas : list (cexpr * list Z);                      (* active, memory 0 *)
  md_start : option nat }.

(* the store of W plus the declared types linking looks at, and the exports of every registered module *)
Record lstore := {
  ls : store Spec;
  ls_g : list (bool * Z);                                (* per global address: mutable, width *)
  ls_t : list (Z * bool * Z * Z);                        (* per table address: declared min, has max, max, element type *)
  ls_m : list (bool * Z * bool);                         (* per memory address: has max, declared max, shared *)
  ls_x : list (option (list (Z * extern))) }.            (* per instantiation attempt: exports by store address; None = failed *)

Definition empty_store : store Spec := Build_store Spec [] [] [] [] [] [].
Definition empty_lstore : lstore := {| ls := empty_store; ls_g := []; ls_t := []; ls_m := []; ls_x := [] |}.

Definition FUNCREF : Z := 112.


Definition xobj_of (st : lstore) (e : extern) : option xobj :=
  match e with
  | EFunc a => match nth_error (s_funcs (ls st)) a with
               | Some (FWasm _ tp tr _ _) | Some (FHost _ tp tr) => Some (XFunc tp tr) | None => None end
  | ETab a => match nth_error (ls_t st) a, nth_error (s_tabs (ls st)) a with
              | Some (mn, hm, mx, et), Some t => Some (XTable mn hm mx et (Z.of_nat (length t))) | _, _ => None end
  | EMem a => match nth_error (ls_m st) a, nth_error (s_mems (ls st)) a with
              | Some (hm, mx, sh), Some m => Some (XMem (mlen m) (mmax m) hm mx sh) | _, _ => None end
  | EGlob a => match nth_error (ls_g st) a with Some (mu, w) => Some (XGlobal mu w) | None => None end
  end.

Definition idesc_of (m : modul) (d : importdesc) : idesc :=
  match d with
  | IFunc ty => let '(p, r) := nth ty (md_types m) ([], []) in DFunc p r
  | ITable mn hm mx et => DTable mn hm mx et
  | IMem mn hm mx sh => DMem mn hm mx sh
  | IGlobal mu w => DGlobal mu w
  end.

Fixpoint find_export (xs : list (Z * extern)) (name : Z) : option extern :=
  match xs with [] => None | (n, e) :: r => if n =? name then Some e else find_export r name end.

Record resolved := { r_funcs : list nat; r_tab : option nat; r_mem : option nat; r_globals : list nat }.
Definition no_imports : resolved := {| r_funcs := []; r_tab := None; r_mem := None; r_globals := [] |}.

Definition add_resolved (r : resolved) (e : extern) : resolved :=
  match e with
  | EFunc a => {| r_funcs := r_funcs r ++ [a]; r_tab := r_tab r; r_mem := r_mem r; r_globals := r_globals r |}
  | ETab a => {| r_funcs := r_funcs r; r_tab := Some a; r_mem := r_mem r; r_globals := r_globals r |}
  | EMem a => {| r_funcs := r_funcs r; r_tab := r_tab r; r_mem := Some a; r_globals := r_globals r |}
  | EGlob a => {| r_funcs := r_funcs r; r_tab := r_tab r; r_mem := r_mem r; r_globals := r_globals r ++ [a] |}
  end.

(* one import: 0 and the object, or the error class (20 module not instantiated, 21 not exported, else code_accept) *)
Definition resolve_one (L : Z) (st : lstore) (m : modul) (i : import) : Z * option extern :=
  match nth_error (ls_x st) (im_mod i) with
  | Some (Some xs) =>
      match find_export xs (im_name i) with
      | None => (21, None)
      | Some e =>
          match xobj_of st e with
          | None => (21, None)
          | Some x => let c := code_accept L (idesc_of m (im_desc i)) x in (c, if c =? 0 then Some e else None)
          end
      end
  | _ => (20, None)
  end.

Fixpoint resolve (L : Z) (st : lstore) (m : modul) (ims : list import) (acc : resolved) : Z * resolved :=
  match ims with
  | [] => (0, acc)
  | i :: r =>
      match resolve_one L st m i with
      | (_, Some e) => resolve L st m r (add_resolved acc e)
      | (c, None) => (c, acc)
      end
  end.

(* the specification's verdict on the same import list: every import names an export of a matching type *)
Definition spec_import_ok (st : lstore) (m : modul) (i : import) : bool :=
  match nth_error (ls_x st) (im_mod i) with
  | Some (Some xs) =>
      match find_export xs (im_name i) with
      | Some e => match xobj_of st e with
                  | Some x => extern_match (spec_of_xobj x) (spec_of_idesc (idesc_of m (im_desc i)))
                  | None => false end
      | None => false
      end
  | _ => false
  end.
Definition spec_link_ok (st : lstore) (m : modul) : bool := forallb (spec_import_ok st m) (md_imports m).

(* ---- constant expressions on the store of W: the CURRENT value of the referenced global ---- *)
Definition glob_val (s : store Spec) (a : nat) : Z := nth a (s_globals s) 0.
Definition eval_cexpr (s : store Spec) (imps : list nat) (e : cexpr) : Z :=
  match e with
  | CConst w c => modN w c
  | CGlobalGet k => glob_val s (nth k imps O)
  end.

Definition set_tabs (s : store Spec) (t : list (list (option nat))) : store Spec :=
  Build_store Spec (s_funcs s) (s_insts s) (s_globals s) (s_mems s) t (s_log s).

Fixpoint wr_bytes (d : list (Z * Z)) (a : Z) (bs : list Z) : list (Z * Z) :=
  match bs with [] => d | b :: r => (a, b mod 256) :: wr_bytes d (a + 1) r end.

Definition with_mdata (m : memory) (d : list (Z * Z)) : memory := {| mlen := mlen m; mmax := mmax m; mdata := d |}.

(* the offset of an active data segment as applyData computes it: int32 *)
Definition data_offset (s : store Spec) (imps : list nat) (e : cexpr) : Z := swrap 32 (eval_cexpr s imps e).

Definition data_fits (m : memory) (off : Z) (bs : list Z) : bool :=
  negb ((off <? 0) || (mlen m <? off + Z.of_nat (length bs))).

(* applyData: segments in order; the first out-of-range segment aborts, earlier writes persist.
   Result: the store and -1, or the index of the failing segment. *)
Fixpoint apply_datas (s : store Spec) (ma : nat) (imps : list nat) (ds : list (cexpr * list Z)) (i : Z) : store Spec * Z :=
  match ds with
  | [] => (s, -1)
  | (e, bs) :: r =>
      match nth_error (s_mems s) ma with
      | None => (s, i)
      | Some m =>
          let off := data_offset s imps e in
          if data_fits m off bs
          then apply_datas (set_mems Spec s (upd (s_mems s) ma (with_mdata m (wr_bytes (mdata m) off bs)))) ma imps r (i + 1)
          else (s, i)
      end
  end.

(* applyElements: null entries are skipped (the slot keeps its value) *)
Fixpoint write_refs (t : list (option nat)) (off : nat) (fidx : list nat) (init : list (option nat)) : list (option nat) :=
  match init with
  | [] => t
  | None :: r => write_refs t (S off) fidx r
  | Some f :: r => write_refs (upd t off (Some (nth f fidx O))) (S off) fidx r
  end.

(* segments in order; an out-of-range segment silently ends the loop (store.go: "we ignore it"):
   the model of the code with OOB element segments IGNORED, not the specification's trap *)
Fixpoint apply_elems (s : store Spec) (ta : nat) (imps fidx : list nat) (es : list (cexpr * list (option nat))) : store Spec :=
  match es with
  | [] => s
  | (e, init) :: r =>
      match init with
      | [] => apply_elems s ta imps fidx r
      | _ =>
          let off := modN 32 (eval_cexpr s imps e) in
          let t := nth ta (s_tabs s) [] in
          if Z.of_nat (length t) <? off + Z.of_nat (length init) then s
          else apply_elems (set_tabs s (upd (s_tabs s) ta (write_refs t (Z.to_nat off) fidx init))) ta imps fidx r
      end
  end.

Definition new_func (m : modul) (ii : nat) (fd : fdef) : funcdef :=
  let '(tp, tr) := nth (fd_type fd) (md_types m) ([], []) in FWasm ii tp tr (fd_locals fd) (fd_body fd).

Definition new_global (s : store Spec) (imps : list nat) (g : gdef) : Z := modN (gd_w g) (eval_cexpr s imps (gd_init g)).

Definition new_memory (L : Z) (d : Z * bool * Z * bool) : memory :=
  let '(mn, hm, mx, _) := d in {| mlen := MemoryPagesToBytesNum mn; mmax := norm_max L mn hm mx; mdata := [] |}.

Definition export_addr (i : inst) (e : extern) : extern :=
  match e with
  | EFunc k => EFunc (nth k (i_funcs i) O)
  | EGlob k => EGlob (nth k (i_globals i) O)
  | ETab _ => ETab (match i_tab i with Some a => a | None => O end)
  | EMem _ => EMem (match i_mem i with Some a => a | None => O end)
  end.

Definition with_x (st : lstore) (x : option (list (Z * extern))) : lstore :=
  {| ls := ls st; ls_g := ls_g st; ls_t := ls_t st; ls_m := ls_m st; ls_x := ls_x st ++ [x] |}.
Definition with_ls (st : lstore) (s : store Spec) : lstore :=
  {| ls := s; ls_g := ls_g st; ls_t := ls_t st; ls_m := ls_m st; ls_x := ls_x st |}.

(* allocation of the module's own functions, table, memory and globals; the instance record *)
Definition allocate (L : Z) (st : lstore) (m : modul) (r : resolved) : lstore * inst :=
  let s := ls st in
  let ii := length (s_insts s) in
  let own_f := seq (length (s_funcs s)) (length (md_funcs m)) in
  let own_g := seq (length (s_globals s)) (length (md_globals m)) in
  let '(tabs, ta, tty) :=
    match md_table m with
    | Some (mn, hm, mx) => (s_tabs s ++ [repeat None (Z.to_nat mn)], Some (length (s_tabs s)), ls_t st ++ [(mn, hm, mx, FUNCREF)])
    | None => (s_tabs s, r_tab r, ls_t st)
    end in
  let '(mems, ma, mty) :=
    match md_mem m with
    | Some d => (s_mems s ++ [new_memory L d], Some (length (s_mems s)), ls_m st ++ [(snd (fst (fst d)), snd (fst d), snd d)])
    | None => (s_mems s, r_mem r, ls_m st)
    end in
  let i := {| i_funcs := r_funcs r ++ own_f; i_globals := r_globals r ++ own_g; i_mem := ma; i_tab := ta;
              i_types := md_types m |} in
  let s1 := Build_store Spec (s_funcs s ++ map (new_func m ii) (md_funcs m)) (s_insts s ++ [i])
                        (s_globals s ++ map (new_global s (r_globals r)) (md_globals m)) mems tabs (s_log s) in
  ({| ls := s1; ls_g := ls_g st ++ map (fun g => (gd_mut g, gd_w g)) (md_globals m); ls_t := tty; ls_m := mty; ls_x := ls_x st |}, i).

(* ---- the part of module validation that concerns linking: constant expressions may only read imported,
   immutable globals of the expected type (module.go validateConstExpression for global initialisers and data
   offsets, table.go verifyImportGlobalI32 for element offsets). Judged on the import DECLARATIONS. ---- *)
Fixpoint imported_globals (ims : list import) : list (bool * Z) :=
  match ims with
  | [] => []
  | i :: r => match im_desc i with IGlobal mu w => (mu, w) :: imported_globals r | _ => imported_globals r end
  end.

Definition valid_const (ig : list (bool * Z)) (w : Z) (e : cexpr) : bool :=
  match e with
  | CConst w' _ => w' =? w
  | CGlobalGet k => match nth_error ig k with Some (mu, w') => negb mu && (w' =? w) | None => false end
  end.

Definition valid_module (m : modul) : bool :=
  let ig := imported_globals (md_imports m) in
  forallb (fun g => valid_const ig (gd_w g) (gd_init g)) (md_globals m) &&
  forallb (fun seg => valid_const ig 32 (fst seg)) (md_elems m) &&
  forallb (fun seg => valid_const ig 32 (fst seg)) (md_datas m).

(* result classes of an instantiation: 0 ok; 98 the module is invalid (rejected by CompileModule);
   1..9, 20, 21 link errors; 30 data segment out of range; 31 start function failed;
   -3 the model ran out of fuel in start. 98 and the link errors leave the store untouched. *)
Definition E_INVALID : Z := 98.
Definition E_DATA : Z := 30.
Definition E_START : Z := 31.
Definition E_FUEL : Z := -3.
Definition is_link_error (c : Z) : bool := ((1 <=? c) && (c <=? 9)) || (c =? 20) || (c =? 21).

(* [starter s fa]: run the start function; store afterwards and 0 (returned), 1 (trapped), 2 (out of fuel) *)
(* store.go instantiate (order as of 9ab0d2d: active element segments, then active data segments, then start) *)
Definition instantiate (starter : store Spec -> nat -> store Spec * Z) (L : Z) (st : lstore) (m : modul) : lstore * Z :=
  if negb (valid_module m) then (with_x st None, E_INVALID) else
  match resolve L st m (md_imports m) no_imports with
  | (0, r) =>
      let '(st1, i) := allocate L st m r in
      let s2 := match i_tab i with Some ta => apply_elems (ls st1) ta (r_globals r) (i_funcs i) (md_elems m) | None => ls st1 end in
      let '(s3, di) := match i_mem i with
                       | Some ma => apply_datas s2 ma (r_globals r) (md_datas m) 0
                       | None => (s2, match md_datas m with [] => -1 | _ => 0 end) end in
      if 0 <=? di then (with_x (with_ls st1 s3) None, E_DATA)
      else
        match md_start m with
        | None => (with_x (with_ls st1 s3) (Some (map (fun ne => (fst ne, export_addr i (snd ne))) (md_exports m))), 0)
        | Some f =>
            let '(s4, c) := starter s3 (nth f (i_funcs i) O) in
            if c =? 0 then (with_x (with_ls st1 s4) (Some (map (fun ne => (fst ne, export_addr i (snd ne))) (md_exports m))), 0)
            else if c =? 1 then (with_x (with_ls st1 s4) None, E_START)
            else (with_x (with_ls st1 s4) None, E_FUEL)
        end
  | (c, _) => (with_x st None, c)
  end.

(* the one place where [apply_elems] knowingly leaves the specification: an out-of-range active element
   segment traps there; store.go ends the loop and carries on (open finding "elem-oob-ignored").
   [elem_fits] lets the correspondence run recognise those instantiations. *)
Definition elem_fits (s : store Spec) (ta : nat) (imps : list nat) (seg : cexpr * list (option nat)) : bool :=
  negb (Z.of_nat (length (nth ta (s_tabs s) [])) <? modN 32 (eval_cexpr s imps (fst seg)) + Z.of_nat (length (snd seg))).
