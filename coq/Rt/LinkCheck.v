(* C04 correspondence run: a history of instantiations, export calls and state snapshots observed
   on an engine is replayed through Rt/Linking.v [instantiate] and the reference semantics W
   ([call_export] on the multi-instance store). Executable definitions only. *)
From Verif Require Import Lib.GoInt Wasm.Numerics Wasm.Sem Wasm.Harness Rt.Linking.
Open Scope Z_scope.

Definition no_host (h : nat) (args : list Z) : hostres Z := HRet [].

Definition run_start (s : store Spec) (fa : nat) : store Spec * Z :=
  match call_export Spec no_host (fun _ => false) MAXDEPTH FUEL s fa [] with
  | (s', RVals _) => (s', 0)
  | (s', RTrap _) => (s', 1)
  | (s', RFuel) => (s', 2)
  end.

Inductive action :=
| AInst (m : modul) (code : Z)                                   (* observed result class of the instantiation *)
| ACall (mn fi : nat) (args : list Z) (o : obs)                  (* function fi (module index space) of the mn-th instantiation *)
| ASnap (mn : nat) (globals : list Z) (mem : list (Z * Z)) (pages : Z) (* that instance's view: all globals, non-zero bytes, pages (-1: no memory) *)
| ATabGrow (mn : nat) (n : Z) (res : Z).                         (* table.grow by n (ref.null) executed by the mn-th instantiation on its table; observed result *)

(* table.grow is not an instruction of W: the action acts on the store directly, as TableInstance.Grow does
   (no growth by 0; failure, result 2^32-1, beyond the declared maximum or at 2^32-1 elements; else the old length) *)
Definition tab_grow (st : lstore) (mm : list (option nat)) (mn : nat) (n : Z) : option (lstore * Z) :=
  match nth mn mm None with
  | None => None
  | Some ii =>
      match i_tab (the_inst Spec (ls st) ii) with
      | None => None
      | Some ta =>
          let t := nth ta (s_tabs (ls st)) [] in
          let '(_, hm, mx, _) := nth ta (ls_t st) (0, false, 0, 0) in
          let len := Z.of_nat (length t) in
          if n =? 0 then Some (st, len)
          else if (4294967295 <=? len + n) || (hm && (mx <? len + n)) then Some (st, 4294967295)
          else Some (with_ls st (set_tabs (ls st) (upd (s_tabs (ls st)) ta (t ++ repeat None (Z.to_nat n)))), len)
      end
  end.

(* element segments the specification treats differently from store.go (evaluated on the allocated store) *)
Definition nonempty_elems (m : modul) : list (cexpr * list (option nat)) :=
  filter (fun seg => match snd seg with [] => false | _ => true end) (md_elems m).

(* an active non-empty element segment is out of range at the time applyElements looks at it *)
Definition seg_notes (L : Z) (st : lstore) (m : modul) : bool :=
  if negb (valid_module m) then false else
  match resolve L st m (md_imports m) no_imports with
  | (0, r) =>
      let '(st1, i) := allocate L st m r in
      match i_tab i with
      | Some ta => existsb (fun seg => negb (elem_fits (ls st1) ta (r_globals r) seg)) (nonempty_elems m)
      | None => false
      end
  | _ => false
  end.

(* events: (action index, kind, value).
   stopping kinds: 0 instantiation class differs (value: the model's class), 1 call result differs (value: the model's
   trap code, -1 values), 2 snapshot globals, 3 snapshot memory, 4 snapshot pages, 7 model out of fuel;
   notes (the run continues): 5 accepted although the specification's extern_match rejects, 6 rejected although
   the specification accepts, 8 out-of-range element segment ignored where the specification traps *)
Fixpoint run_actions (L : Z) (st : lstore) (mm : list (option nat)) (acts : list action) (i : Z) : list (Z * Z * Z) :=
  match acts with
  | [] => []
  | AInst m code :: r =>
      let specok := spec_link_ok st m in
      let oob := seg_notes L st m in
      let ii := length (s_insts (ls st)) in
      let '(st', c) := instantiate run_start L st m in
      if c =? E_FUEL then [(i, 7, 0)]
      else if negb (c =? code) then [(i, 0, c)]
      else
        (if negb (is_link_error c) && negb (c =? E_INVALID) && negb specok then [(i, 5, 0)] else []) ++
        (if is_link_error c && specok then [(i, 6, c)] else []) ++
        (if oob then [(i, 8, 0)] else []) ++
        run_actions L st' (mm ++ [if c =? 0 then Some ii else None]) r (i + 1)
  | ACall mn fi args o :: r =>
      match nth mn mm None with
      | None => [(i, 1, -2)]
      | Some ii =>
          match nth_error (i_funcs (the_inst Spec (ls st) ii)) fi with
          | None => [(i, 1, -3)]
          | Some fa =>
              let '(s', res) := call_export Spec no_host (fun _ => false) MAXDEPTH FUEL (ls st) fa args in
              match res with
              | RFuel => [(i, 7, 0)]
              | _ => if obs_match res o then run_actions L (with_ls st s') mm r (i + 1)
                     else [(i, 1, match res with RTrap t => trap_code t | _ => -1 end)]
              end
          end
      end
  | ATabGrow mn n res :: r =>
      match tab_grow st mm mn n with
      | None => [(i, 1, -2)]
      | Some (st', out) => if out =? res then run_actions L st' mm r (i + 1) else [(i, 1, out)]
      end
  | ASnap mn gl mem pages :: r =>
      match nth mn mm None with
      | None => [(i, 2, -2)]
      | Some ii =>
          let s := ls st in
          let me := the_inst Spec s ii in
          if negb (zlist_eqb (map (glob_val s) (i_globals me)) gl) then [(i, 2, 0)]
          else match i_mem me with
               | None => if pages =? -1 then run_actions L st mm r (i + 1) else [(i, 4, -1)]
               | Some ma =>
                   match nth_error (s_mems s) ma with
                   | None => [(i, 4, -2)]
                   | Some m => if negb (mem_agree (mdata m) mem) then [(i, 3, 0)]
                               else if negb (mlen m / 65536 =? pages) then [(i, 4, mlen m / 65536)]
                               else run_actions L st mm r (i + 1)
                   end
               end
      end
  end.

Definition lcase := (Z * list action)%type.   (* memory limit pages of the runtime, history *)

Fixpoint flat_events (ci : Z) (l : list (Z * Z * Z)) : list Z :=
  match l with [] => [] | (a, k, v) :: r => ci :: a :: k :: v :: flat_events ci r end.

(* flattened quadruples: case, action, kind, value *)
Fixpoint link_events (ci : Z) (cs : list lcase) : list Z :=
  match cs with
  | [] => []
  | (L, acts) :: r => flat_events ci (run_actions L empty_lstore [] acts 0) ++ link_events (ci + 1) r
  end.
