(* C04 correspondence run, live-frame family: histories whose graphs contain a HOST module. A host function of
   that module forwards its arguments to a function of a (possibly later) instance and returns its results:
   [HReenter] of the reference semantics W. This is also how the host's own writes are modelled
   (api.MutableGlobal.Set, api.Memory.Write*, api.Memory.Grow on the Go side = re-entering the exported
   setter / store / grow function of the instance whose object is written): a W host cannot touch the store
   except by re-entering a function.
   Everything else is Rt/LinkCheck.v [run_actions] with that host. Executable definitions only. *)
From Verif Require Import Lib.GoInt Wasm.Numerics Wasm.Sem Wasm.Harness Rt.Linking Rt.LinkCheck.
Open Scope Z_scope.

(* host table: host function h re-enters function [fi] (module index space) of the [mn]-th instantiation *)
Definition htable := list (nat * nat).

Inductive laction :=
| LA (a : action)
| LHost (sigs : list (list Z * list Z)).   (* a host module: its k-th function (export name k) is host function number k *)

(* the host as the store stands now: instance records and function addresses never change during a call *)
Definition live_host (ht : htable) (s : store Spec) (mm : list (option nat)) (h : nat) (args : list Z) : hostres Z :=
  match nth_error ht h with
  | Some (mn, fi) =>
      match nth mn mm None with
      | Some ii => match nth_error (i_funcs (the_inst Spec s ii)) fi with
                   | Some fa => HReenter fa args
                   | None => HPanic 1 end
      | None => HPanic 2
      end
  | None => HPanic 3
  end.

(* registering the host module: its functions get store addresses, the module gets an export list and a number *)
Definition add_host_module (st : lstore) (sigs : list (list Z * list Z)) : lstore :=
  let s := ls st in
  let base := length (s_funcs s) in
  let fs := map (fun ks => FHost (fst ks) (fst (snd ks)) (snd (snd ks))) (combine (seq 0 (length sigs)) sigs) in
  let xs := map (fun k => (Z.of_nat k, EFunc (base + k))) (seq 0 (length sigs)) in
  with_x (with_ls st (Build_store Spec (s_funcs s ++ fs) (s_insts s) (s_globals s) (s_mems s) (s_tabs s) (s_log s))) (Some xs).

(* events as in LinkCheck.run_actions *)
Fixpoint run_live (L : Z) (ht : htable) (st : lstore) (mm : list (option nat)) (acts : list laction) (i : Z) : list (Z * Z * Z) :=
  match acts with
  | [] => []
  | LHost sigs :: r => run_live L ht (add_host_module st sigs) (mm ++ [None]) r (i + 1)
  | LA (AInst m code) :: r =>
      let specok := spec_link_ok st m in
      let oob := seg_notes L st m in
      let ii := length (s_insts (ls st)) in
      let '(st', c) := instantiate run_start L st m in
      if c =? E_FUEL then [(i, 7, 0)]
      else if negb (c =? code) then [(i, 0, c)]
      else
        (if negb (is_link_error c) && negb (c =? E_INVALID) && negb specok then [(i, 5, 0)] else []) ++
        (if is_link_error c && specok then [(i, 6, c)] else []) ++
        (if oob then [(i, 8, 0)] else []) ++
        run_live L ht st' (mm ++ [if c =? 0 then Some ii else None]) r (i + 1)
  | LA (ACall mn fi args o) :: r =>
      match nth mn mm None with
      | None => [(i, 1, -2)]
      | Some ii =>
          match nth_error (i_funcs (the_inst Spec (ls st) ii)) fi with
          | None => [(i, 1, -3)]
          | Some fa =>
              let '(s', res) := call_export Spec (live_host ht (ls st) mm) (fun _ => false) MAXDEPTH FUEL (ls st) fa args in
              match res with
              | RFuel => [(i, 7, 0)]
              | _ => if obs_match res o then run_live L ht (with_ls st s') mm r (i + 1)
                     else [(i, 1, match res with RTrap t => trap_code t | _ => -1 end)]
              end
          end
      end
  | LA (ATabGrow mn n res) :: r =>
      match tab_grow st mm mn n with
      | None => [(i, 1, -2)]
      | Some (st', out) => if out =? res then run_live L ht st' mm r (i + 1) else [(i, 1, out)]
      end
  | LA (ASnap mn gl mem pages) :: r =>
      match nth mn mm None with
      | None => [(i, 2, -2)]
      | Some ii =>
          let s := ls st in
          let me := the_inst Spec s ii in
          if negb (zlist_eqb (map (glob_val s) (i_globals me)) gl) then [(i, 2, 0)]
          else match i_mem me with
               | None => if pages =? -1 then run_live L ht st mm r (i + 1) else [(i, 4, -1)]
               | Some ma =>
                   match nth_error (s_mems s) ma with
                   | None => [(i, 4, -2)]
                   | Some m => if negb (mem_agree (mdata m) mem) then [(i, 3, 0)]
                               else if negb (mlen m / 65536 =? pages) then [(i, 4, mlen m / 65536)]
                               else run_live L ht st mm r (i + 1)
                   end
               end
      end
  end.

Definition livecase := (Z * htable * list laction)%type.   (* page limit, host table, history *)

Fixpoint live_events (ci : Z) (cs : list livecase) : list Z :=
  match cs with
  | [] => []
  | (L, ht, acts) :: r => flat_events ci (run_live L ht empty_lstore [] acts 0) ++ live_events (ci + 1) r
  end.
